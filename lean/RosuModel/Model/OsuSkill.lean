import RosuModel.Model.PerfCalc

/-!
# C09 — osu!standard difficulty objects and strain evaluators

Transcribed statement by statement, over the arithmetic class `PPOps` of `Model/PerfCalc.lean`, from

* `src/osu/difficulty/object.rs`: `OsuDifficultyObject::new`, `set_distances`, `get_end_cursor_pos`,
  `opacity_at`, `get_doubletapness`; `src/osu/object.rs`: `stacked_pos`, `end_pos`, `stacked_end_pos`;
  `src/osu/difficulty/mod.rs`: `create_difficulty_objects` (which object is `last` / `last_last`, `idx`);
  `src/any/difficulty/object.rs`: `previous` (`idx.checked_sub(n + 1)` then `get`), `next`;
  rosu-map `Pos::{length, dot, +, -, * f32}`;
* `src/osu/difficulty/skills/aim.rs`: `AimEvaluator::evaluate_diff_of`, `calc_wide_angle_bonus`,
  `calc_acute_angle_bonus`; `src/util/difficulty.rs`: `smoothstep`, `smootherstep`, `milliseconds_to_bpm`,
  `bpm_to_milliseconds`; `FloatExt::not_eq`;
* `src/osu/difficulty/skills/flashlight.rs`: `FlashlightEvaluator::evaluate_diff_of`;
* `src/osu/difficulty/skills/speed.rs`: `SpeedEvaluator::evaluate_diff_of`.

Inputs are the `OsuObject`s *after* `convert_objects` and `compute_slider_cursor_pos` (`RawObj`: what the
constructor and the evaluators read of them).  `f32` arithmetic is `r32 (a op b)` (see `PPOps.r32`).
`previous(n)` / `next(n)` are checked lookups returning `Option`.

`RhythmEvaluator::evaluate_diff_of` with `RhythmIsland` / `IslandCount` (speed.rs) is the last section.
NOT modelled here: `compute_slider_cursor_pos`, `OsuSlider::lazy_travel_time` (they produce the `lazy_*`
inputs; `lazy_travel_dist ≥ 0` is the named interface hypothesis `RawOK`).

The `Float` instance is compared with the real constructor / evaluators through the `OSK` lines
(hook `osu::verif::skill_probe`); the instance over ℝ is what `Props/C09d.lean` is about.  Core Lean only.
-/

namespace Rosu.PerfCalc

/-- what the difficulty code reads of an `OsuObject` -/
structure RawObj (R : Type) where
  /-- 0: circle, 1: slider, 2: spinner -/
  kind : Nat
  startTime : R
  posX : R
  posY : R
  stackX : R
  stackY : R
  lazyEndX : R
  lazyEndY : R
  lazyTravelDist : R
  lazyTravelTime : R
  repeatCount : Nat
  hasTail : Bool
  tailX : R
  tailY : R

/-- `Pos` -/
structure P2 (R : Type) where
  x : R
  y : R

/-- `OsuDifficultyObject` -/
structure DiffObj (R : Type) where
  idx : Nat
  base : RawObj R
  startTime : R
  deltaTime : R
  strainTime : R
  lazyJumpDist : R
  minJumpDist : R
  minJumpTime : R
  travelDist : R
  travelTime : R
  angle : Option R

section
variable {R : Type} [PPOps R]
open PPOps

def RawObj.isSlider (o : RawObj R) : Bool := o.kind == 1
def RawObj.isSpinner (o : RawObj R) : Bool := o.kind == 2

/-! ### `Pos` arithmetic in `f32` -/

def P2.sub (a b : P2 R) : P2 R := ⟨r32 (a.x - b.x), r32 (a.y - b.y)⟩
def P2.add (a b : P2 R) : P2 R := ⟨r32 (a.x + b.x), r32 (a.y + b.y)⟩
def P2.scale (a : P2 R) (k : R) : P2 R := ⟨r32 (a.x * k), r32 (a.y * k)⟩
/-- `f64::from(self.x * self.x + self.y * self.y).sqrt() as f32` -/
def P2.length (a : P2 R) : R := r32 (sqrt (r32 (r32 (a.x * a.x) + r32 (a.y * a.y))))
/-- `(self.x * other.x) + (self.y * other.y)` -/
def P2.dot (a b : P2 R) : R := r32 (r32 (a.x * b.x) + r32 (a.y * b.y))

def RawObj.pos (o : RawObj R) : P2 R := ⟨o.posX, o.posY⟩
def RawObj.stackOffset (o : RawObj R) : P2 R := ⟨o.stackX, o.stackY⟩
/-- `stacked_pos` -/
def RawObj.stackedPos (o : RawObj R) : P2 R := o.pos.add o.stackOffset
/-- `end_pos`: the tail's position for a slider (`Pos::default()` without a tail) -/
def RawObj.endPos (o : RawObj R) : P2 R :=
  if o.isSlider then (if o.hasTail then ⟨o.tailX, o.tailY⟩ else ⟨0.0, 0.0⟩) else o.pos
/-- `stacked_end_pos` -/
def RawObj.stackedEndPos (o : RawObj R) : P2 R := o.endPos.add o.stackOffset
/-- `get_end_cursor_pos` -/
def RawObj.endCursorPos (o : RawObj R) : P2 R :=
  if o.isSlider then ⟨o.lazyEndX, o.lazyEndY⟩ else o.stackedPos
/-- `lazy_travel_time()` -/
def RawObj.lazyTravelTimeOf (o : RawObj R) : R := if o.isSlider then o.lazyTravelTime else 0.0

/-! ### constants -/

/-- `MIN_DELTA_TIME` -/
def minDeltaTime : R := 25.0
/-- `MAX_SLIDER_RADIUS: f32 = NORMALIZED_RADIUS as f32 * 2.4` (the exact binary32 value) -/
def maxSliderRadius : R := 120.00000762939453125
/-- `ASSUMED_SLIDER_RADIUS: f32 = NORMALIZED_RADIUS as f32 * 1.8` (exactly 90) -/
def assumedSliderRadius : R := 90.0

/-! ### `OsuDifficultyObject::new` + `set_distances` -/

/-- `travel_dist` of a slider -/
def sliderTravelDist (o : RawObj R) : R :=
  r32 (o.lazyTravelDist * r32 (powf (1.0 + ofNat o.repeatCount / 2.5) (1.0 / 2.5)))

/-- `(lazy_travel_time / clock_rate).max(MIN_DELTA_TIME)` -/
def flooredTravelTime (o : RawObj R) (clockRate : R) : R := fmax (o.lazyTravelTimeOf / clockRate) minDeltaTime

/-- `OsuDifficultyObject::new` -/
def mkDiffObj (hit last : RawObj R) (lastLast : Option (RawObj R)) (clockRate : R) (idx : Nat)
    (scalingFactor : R) : DiffObj R :=
  let deltaTime := (hit.startTime - last.startTime) / clockRate
  let startTime := hit.startTime / clockRate
  let strainTime := fmax deltaTime minDeltaTime
  -- set_distances
  let travelDist : R := if hit.isSlider then sliderTravelDist hit else 0.0
  let travelTime : R := if hit.isSlider then flooredTravelTime hit clockRate else 0.0
  if hit.isSpinner || last.isSpinner then
    { idx := idx, base := hit, startTime := startTime, deltaTime := deltaTime, strainTime := strainTime,
      lazyJumpDist := 0.0, minJumpDist := 0.0, minJumpTime := 0.0, travelDist := travelDist,
      travelTime := travelTime, angle := none }
  else
    let lastCursorPos := last.endCursorPos
    let lazyJumpDist :=
      ((hit.stackedPos.scale scalingFactor).sub (lastCursorPos.scale scalingFactor)).length
    let (minJumpTime, minJumpDist) : R × R :=
      if last.isSlider then
        let lastTravelTime := flooredTravelTime last clockRate
        let minJumpTime := fmax (strainTime - lastTravelTime) minDeltaTime
        let tailPos : P2 R := if last.hasTail then ⟨last.tailX, last.tailY⟩ else last.pos
        let stackedTailPos := tailPos.add last.stackOffset
        let tailJumpDist := r32 ((stackedTailPos.sub hit.stackedPos).length * scalingFactor)
        let diff : R := r32 (maxSliderRadius - assumedSliderRadius)
        let mn : R := r32 (tailJumpDist - maxSliderRadius)
        (minJumpTime, fmax (fmin (lazyJumpDist - diff) mn) 0.0)
      else (strainTime, lazyJumpDist)
    let angle : Option R :=
      match lastLast with
      | none => none
      | some ll =>
        if ll.isSpinner then none
        else
          let lastLastCursorPos := ll.endCursorPos
          let v1 := lastLastCursorPos.sub last.stackedPos
          let v2 := hit.stackedPos.sub lastCursorPos
          let dot := v1.dot v2
          let det := r32 (r32 (v1.x * v2.y) - r32 (v1.y * v2.x))
          some (abs (atan2 det dot))
    { idx := idx, base := hit, startTime := startTime, deltaTime := deltaTime, strainTime := strainTime,
      lazyJumpDist := lazyJumpDist, minJumpDist := minJumpDist, minJumpTime := minJumpTime,
      travelDist := travelDist, travelTime := travelTime, angle := angle }

/-- the `.enumerate().map(|(idx, h)| { … last_last = Some(last); last = h; … })` of
`create_difficulty_objects`, with its state `(last_last, last, idx)` -/
def createDiffObjsFrom (clockRate scalingFactor : R) :
    Option (RawObj R) → RawObj R → Nat → List (RawObj R) → List (DiffObj R)
  | _, _, _, [] => []
  | lastLast, last, idx, h :: rest =>
    mkDiffObj h last lastLast clockRate idx scalingFactor
      :: createDiffObjsFrom clockRate scalingFactor (some last) h (idx + 1) rest

/-- `create_difficulty_objects` (no `passed_objects` limit): the first object only serves as `last` -/
def createDiffObjs (objs : List (RawObj R)) (clockRate scalingFactor : R) : List (DiffObj R) :=
  match objs with
  | [] => []
  | first :: rest => createDiffObjsFrom clockRate scalingFactor none first 0 rest

/-- `curr.previous(n, objects)`: `idx.checked_sub(n + 1).and_then(|i| objects.get(i))` -/
def previous (objs : List (DiffObj R)) (curr : DiffObj R) (n : Nat) : Option (DiffObj R) :=
  if n + 1 ≤ curr.idx then objs[curr.idx - (n + 1)]? else none

/-- `curr.next(n, objects)`: `objects.get(idx + (n + 1))` -/
def next (objs : List (DiffObj R)) (curr : DiffObj R) (n : Nat) : Option (DiffObj R) :=
  objs[curr.idx + (n + 1)]?

/-! ### helpers of `util/difficulty.rs` -/

def smoothstep (x start stop : R) : R :=
  let x := reverseLerp x start stop
  x * x * (3.0 - 2.0 * x)

def smootherstep (x start stop : R) : R :=
  let x := reverseLerp x start stop
  x * x * x * (x * (6.0 * x - 15.0) + 10.0)

/-- `milliseconds_to_bpm(ms, delimiter)`: `60_000.0 / (ms * delimiter as f64)` -/
def millisecondsToBpm (ms : R) (delimiter : Nat) : R := 60000.0 / (ms * ofNat delimiter)

/-- `f64::to_radians`: `self * (PI / 180.0)` -/
def toRadians (deg : R) : R := deg * (pi / 180.0)

/-- `FloatExt::not_eq(a, b)`: `(a - b).abs() >= EPS` -/
def floatNotEq (a b : R) : Bool := le f64Epsilon (abs (a - b))

/-! ### aim -/

def calcWideAngleBonus (angle : R) : R := smoothstep angle (toRadians 40.0) (toRadians 140.0)
def calcAcuteAngleBonus (angle : R) : R := smoothstep angle (toRadians 140.0) (toRadians 40.0)

/-- the velocity into `o` (from `prev`), extended through `prev` when it is a slider -/
def aimVelocity (o prev : DiffObj R) (withSliders : Bool) : R :=
  let vel := o.lazyJumpDist / o.strainTime
  if prev.base.isSlider && withSliders then
    let travelVel := prev.travelDist / prev.travelTime
    let movementVel := o.minJumpDist / o.minJumpTime
    fmax vel (movementVel + travelVel)
  else vel

/-- the three angle-dependent bonuses `(wide, acute, wiggle)` for equal rhythms and both angles present -/
def aimAngleBonuses (curr last : DiffObj R) (currVel prevVel currAngle lastAngle : R) : R × R × R :=
  let angleBonus := fmin currVel prevVel
  let wideAngleBonus := calcWideAngleBonus currAngle
  let acuteAngleBonus := calcAcuteAngleBonus currAngle
  let wideAngleBonus :=
    wideAngleBonus * (1.0 - fmin wideAngleBonus (powf (calcWideAngleBonus lastAngle) 3.0))
  let acuteAngleBonus :=
    acuteAngleBonus * (0.08 + 0.92 * (1.0 - fmin acuteAngleBonus (powf (calcAcuteAngleBonus lastAngle) 3.0)))
  let wideAngleBonus := wideAngleBonus * (angleBonus * smootherstep curr.lazyJumpDist 0.0 100.0)
  let acuteAngleBonus :=
    acuteAngleBonus * (angleBonus * smootherstep (millisecondsToBpm curr.strainTime 2) 300.0 400.0
      * smootherstep curr.lazyJumpDist 100.0 200.0)
  let wiggleBonus :=
    angleBonus * smootherstep curr.lazyJumpDist 50.0 100.0
      * powf (reverseLerp curr.lazyJumpDist 300.0 100.0) 1.8
      * smootherstep currAngle (toRadians 110.0) (toRadians 60.0)
      * smootherstep last.lazyJumpDist 50.0 100.0
      * powf (reverseLerp last.lazyJumpDist 300.0 100.0) 1.8
      * smootherstep lastAngle (toRadians 110.0) (toRadians 60.0)
  (wideAngleBonus, acuteAngleBonus, wiggleBonus)

/-- `vel_change_bonus` (evaluated when `prev_vel.max(curr_vel).not_eq(0.0)`) -/
def aimVelChangeBonus (curr last lastLast : DiffObj R) : R :=
  let prevVel := (last.lazyJumpDist + lastLast.travelDist) / last.strainTime
  let currVel := (curr.lazyJumpDist + last.travelDist) / curr.strainTime
  let distRatioBase := sin (pi / 2.0 * abs (prevVel - currVel) / fmax prevVel currVel)
  let distRatio := powf distRatioBase 2.0
  let overlapVelBuff :=
    fmin (100.0 * 1.25 / fmin curr.strainTime last.strainTime) (abs (prevVel - currVel))
  let velChangeBonus := overlapVelBuff * distRatio
  let bonusBase := fmin curr.strainTime last.strainTime / fmax curr.strainTime last.strainTime
  velChangeBonus * powf bonusBase 2.0

/-- `(wide, acute, wiggle)`: zero unless the rhythms are the same and both angles exist -/
def aimBonuses (curr last : DiffObj R) (currVel prevVel : R) : R × R × R :=
  if lt (fmax curr.strainTime last.strainTime) (1.25 * fmin curr.strainTime last.strainTime) then
    match curr.angle, last.angle with
    | some currAngle, some lastAngle => aimAngleBonuses curr last currVel prevVel currAngle lastAngle
    | _, _ => (0.0, 0.0, 0.0)
  else (0.0, 0.0, 0.0)

/-- `AimEvaluator::evaluate_diff_of` after the early return: `curr`, `last = previous(0)`,
`lastLast = previous(1)`, neither `curr` nor `last` a spinner -/
def aimEvaluateBody (curr last lastLast : DiffObj R) (withSliders : Bool) : R :=
  let currVel := aimVelocity curr last withSliders
  let prevVel := aimVelocity last lastLast withSliders
  let aimStrain := currVel
  let bonuses : R × R × R := aimBonuses curr last currVel prevVel
  let wideAngleBonus := bonuses.1
  let acuteAngleBonus := bonuses.2.1
  let wiggleBonus := bonuses.2.2
  let velChangeBonus : R :=
    if floatNotEq (fmax prevVel currVel) 0.0 then aimVelChangeBonus curr last lastLast else 0.0
  let sliderBonus : R := if last.base.isSlider then last.travelDist / last.travelTime else 0.0
  let aimStrain := aimStrain + wiggleBonus * 1.02
  let aimStrain := aimStrain + fmax (acuteAngleBonus * 2.6) (wideAngleBonus * 1.5 + velChangeBonus * 0.75)
  if withSliders then aimStrain + sliderBonus * 1.35 else aimStrain

/-- `AimEvaluator::evaluate_diff_of` -/
def aimEvaluate (objs : List (DiffObj R)) (curr : DiffObj R) (withSliders : Bool) : R :=
  match previous objs curr 1, previous objs curr 0 with
  | some lastLast, some last =>
    if curr.base.isSpinner || last.base.isSpinner then 0.0
    else aimEvaluateBody curr last lastLast withSliders
  | _, _ => 0.0

/-! ### flashlight -/

/-- `opacity_at(time, hidden, time_preempt, time_fade_in)` -/
def opacityAt (o : DiffObj R) (time : R) (hidden : Bool) (timePreempt timeFadeIn : R) : R :=
  if lt o.base.startTime time then 0.0
  else
    let fadeInStartTime := o.base.startTime - timePreempt
    let fadeInDuration := timeFadeIn
    if hidden then
      let fadeOutStartTime := o.base.startTime - timePreempt + timeFadeIn
      let fadeOutDuration := timePreempt * 0.3
      fmin (clamp ((time - fadeInStartTime) / fadeInDuration) 0.0 1.0)
        (1.0 - clamp ((time - fadeOutStartTime) / fadeOutDuration) 0.0 1.0)
    else clamp ((time - fadeInStartTime) / fadeInDuration) 0.0 1.0

/-- the loop state of `FlashlightEvaluator::evaluate_diff_of` -/
structure FlState (R : Type) where
  smallDistNerf : R
  cumulativeStrainTime : R
  result : R
  lastObj : DiffObj R
  angleRepeatCount : R
  broke : Bool

/-- `if let Some((a, b)) = curr_obj.angle.zip(osu_curr.angle) { if (a - b).abs() < 0.02 { count += … } }` -/
def flAngleRepeatCount (count : R) (i : Nat) (a b : Option R) : R :=
  match a, b with
  | some a, some b => if lt (abs (a - b)) 0.02 then count + fmax (1.0 - 0.1 * ofNat i) 0.0 else count
  | _, _ => count

/-- `osu_prev_obj.map_or(0.0, |obj| obj.travel_dist)` -/
def travelDistOf (o : Option (DiffObj R)) : R :=
  match o with
  | some o => o.travelDist
  | none => 0.0

/-- the body of one iteration once `curr.previous(i)` returned `curr_obj` -/
def flStepWith (curr : DiffObj R) (hidden : Bool) (scalingFactor timePreempt timeFadeIn : R)
    (st : FlState R) (i : Nat) (currObj : DiffObj R) : FlState R :=
  let cumulativeStrainTime := st.cumulativeStrainTime + st.lastObj.strainTime
  if !currObj.base.isSpinner then
    let jumpDist := (curr.base.stackedPos.sub currObj.base.stackedEndPos).length
    let smallDistNerf := if i = 0 then fmin (jumpDist / 75.0) 1.0 else st.smallDistNerf
    let stackNerf := fmin ((currObj.lazyJumpDist / scalingFactor) / 25.0) 1.0
    let opacityBonus :=
      1.0 + 0.4 * (1.0 - opacityAt curr currObj.base.startTime hidden timePreempt timeFadeIn)
    let result := st.result + stackNerf * opacityBonus * scalingFactor * jumpDist / cumulativeStrainTime
    let angleRepeatCount := flAngleRepeatCount st.angleRepeatCount i currObj.angle curr.angle
    { smallDistNerf := smallDistNerf, cumulativeStrainTime := cumulativeStrainTime, result := result,
      lastObj := currObj, angleRepeatCount := angleRepeatCount, broke := false }
  else
    { st with cumulativeStrainTime := cumulativeStrainTime, lastObj := currObj }

/-- one iteration `i` of `for i in 0..min(curr.idx, 10)` (`let Some(curr_obj) = … else { break }`) -/
def flStep (objs : List (DiffObj R)) (curr : DiffObj R) (hidden : Bool) (scalingFactor timePreempt timeFadeIn : R)
    (st : FlState R) (i : Nat) : FlState R :=
  if st.broke then st
  else
    match previous objs curr i with
    | none => { st with broke := true }
    | some currObj => flStepWith curr hidden scalingFactor timePreempt timeFadeIn st i currObj

/-- the slider bonus of the flashlight evaluator -/
def flSliderBonus (curr : DiffObj R) (scalingFactor : R) : R :=
  if curr.base.isSlider then
    let pixelTravelDist := curr.base.lazyTravelDist / scalingFactor
    let sliderBonus := powf (fmax (pixelTravelDist / curr.travelTime - 0.5) 0.0) 0.5
    let sliderBonus := sliderBonus * pixelTravelDist
    if curr.base.repeatCount > 0 then sliderBonus / ofNat (curr.base.repeatCount + 1) else sliderBonus
  else 0.0

/-- `FlashlightEvaluator::evaluate_diff_of`; `scalingFactor = 52.0 / radius` -/
def flashlightEvaluate (objs : List (DiffObj R)) (curr : DiffObj R) (hidden : Bool)
    (scalingFactor timePreempt timeFadeIn : R) : R :=
  if curr.base.isSpinner then 0.0
  else
    let st0 : FlState R :=
      { smallDistNerf := 1.0, cumulativeStrainTime := 0.0, result := 0.0, lastObj := curr,
        angleRepeatCount := 0.0, broke := false }
    let st := (List.range (min curr.idx 10)).foldl
      (flStep objs curr hidden scalingFactor timePreempt timeFadeIn) st0
    let result := powf (st.smallDistNerf * st.result) 2.0
    let result := if hidden then result * (1.0 + 0.2) else result
    let result := result * (0.2 + (1.0 - 0.2) / (st.angleRepeatCount + 1.0))
    result + flSliderBonus curr scalingFactor * 1.3

/-! ### speed -/

/-- `get_doubletapness` once `next` is known to exist -/
def doubletapnessWith (o nxt : DiffObj R) (hitWindow : R) : R :=
  let hitWindow : R := if o.base.isSpinner then 0.0 else hitWindow
  let currDeltaTime := fmax o.deltaTime 1.0
  let nextDeltaTime := fmax nxt.deltaTime 1.0
  let deltaDiff := abs (nextDeltaTime - currDeltaTime)
  let speedRatio := currDeltaTime / fmax currDeltaTime deltaDiff
  let windowRatio := powf (fmin (currDeltaTime / hitWindow) 1.0) 2.0
  1.0 - powf speedRatio (1.0 - windowRatio)

/-- `get_doubletapness(next, hit_window)` -/
def getDoubletapness (o : DiffObj R) (nxt : Option (DiffObj R)) (hitWindow : R) : R :=
  match nxt with
  | none => 0.0
  | some nxt => doubletapnessWith o nxt hitWindow

/-- `SpeedEvaluator::evaluate_diff_of` -/
def speedEvaluate (objs : List (DiffObj R)) (curr : DiffObj R) (hitWindow : R) (autopilot : Bool) : R :=
  if curr.base.isSpinner then 0.0
  else
    let osuPrevObj := previous objs curr 0
    let osuNextObj := next objs curr 0
    let strainTime := curr.strainTime
    let doubletapness := 1.0 - getDoubletapness curr osuNextObj hitWindow
    let strainTime := strainTime / clamp ((strainTime / hitWindow) / 0.93) 0.92 1.0
    let speedBonus : R :=
      if lt 200.0 (millisecondsToBpm strainTime 4) then
        let base := (60000.0 / ofNat 4 / 200.0 - strainTime) / 40.0
        0.75 * powf base 2.0
      else 0.0
    let travelDist : R := travelDistOf osuPrevObj
    let dist := travelDist + curr.minJumpDist
    let dist := fmin (100.0 * 1.25) dist
    let distBonus := powf (dist / (100.0 * 1.25)) 3.95 * 0.9
    let distBonus : R := if autopilot then 0.0 else distBonus
    let difficulty := (1.0 + speedBonus + distBonus) * 1000.0 / strainTime
    difficulty * doubletapness

/-! ### rhythm (`RhythmEvaluator`, `RhythmIsland`, `IslandCount`) -/

/-- `RhythmIsland` (`delta_difference_eps` is the same for every island of one evaluation) -/
structure Island where
  delta : Int
  deltaCount : Int
  deriving DecidableEq, Repr, Inhabited

def i32Max : Int := 2147483647

/-- `RhythmIsland::new` -/
def Island.new : Island := ⟨0, 0⟩
/-- `RhythmIsland::new_with_delta(delta, eps)`: `delta.max(MIN_DELTA_TIME)`, count 1 -/
def Island.newWithDelta (delta : Int) : Island := ⟨max delta 25, 1⟩
/-- `add_delta` -/
def Island.addDelta (i : Island) (delta : Int) : Island :=
  { delta := if i.delta = i32Max then max delta 25 else i.delta, deltaCount := i.deltaCount + 1 }
/-- `is_similar_polarity` -/
def Island.isSimilarPolarity (a b : Island) : Bool := a.deltaCount % 2 == b.deltaCount % 2
/-- `is_default` -/
def Island.isDefault (eps : R) (i : Island) : Bool :=
  lt (abs eps) f64Epsilon && i.delta == i32Max && i.deltaCount == 0
/-- `PartialEq for RhythmIsland`: `f64::from((self.delta - other.delta).abs()) < self.eps && counts equal` -/
def Island.eqv (eps : R) (a b : Island) : Bool :=
  lt (ofInt (a.delta - b.delta).natAbs) eps && a.deltaCount == b.deltaCount

/-- `logistic(x, midpoint_offset, multiplier, Some(max_value))` -/
def logistic (x midpointOffset multiplier maxValue : R) : R :=
  maxValue / (1.0 + exp (multiplier * (midpointOffset - x)))

/-- `HISTORY_TIME_MAX` as `f64` -/
def historyTimeMax : R := ofNat 5000

/-- the `while` search for `rhythm_start`; `fuel` bounds the iterations (at most `historical_note_count`) -/
def rhythmStartSearch (objs : List (DiffObj R)) (curr : DiffObj R) (hnc : Nat) : Nat → Nat → Nat
  | 0, rs => rs
  | fuel + 1, rs =>
    match previous objs curr rs with
    | some prev =>
      if rs + 2 < hnc && lt (curr.startTime - prev.startTime) historyTimeMax then
        rhythmStartSearch objs curr hnc fuel (rs + 1)
      else rs
    | none => rs

/-- the mutable state of the `for` loop -/
structure RhState (R : Type) where
  sum : R
  island : Island
  prevIsland : Island
  counts : List (Island × Nat)
  startRatio : R
  firstDeltaSwitch : Bool
  prevObj : DiffObj R
  lastObj : DiffObj R
  broke : Bool
  /-- `historical_note_count - i` underflowed (never: theorem) -/
  underflow : Bool

/-- the `island_counts` lookup / update: returns the new list and, when an entry was found and is not the
default island, its (possibly incremented) count -/
def islandCountsUpdate (eps : R) (counts : List (Island × Nat)) (island prevIsland : Island) :
    List (Island × Nat) × Option Nat :=
  match counts.findIdx? (fun e => Island.eqv eps e.1 island) with
  | some k =>
    match counts[k]? with
    | some e =>
      if !(Island.isDefault eps e.1) then
        let c := if Island.eqv eps prevIsland island then e.2 + 1 else e.2
        (counts.set k (e.1, c), some c)
      else (counts ++ [(island, 1)], none)
    | none => (counts ++ [(island, 1)], none)
  | none => (counts ++ [(island, 1)], none)

/-- `effective_ratio` before the island logic -/
def rhythmEffectiveRatio (eps currDelta prevDelta : R) : R :=
  let deltaDifferenceRatio := fmin prevDelta currDelta / fmax prevDelta currDelta
  let currRatio := 1.0 + 12.0 * fmin (powf (sin (pi / deltaDifferenceRatio)) 2.0) 0.5
  let fraction := fmax (prevDelta / currDelta) (currDelta / prevDelta)
  let fractionMultiplier := clamp (2.0 - fraction / 8.0) 0.0 1.0
  let windowPenalty := fmin (fmax (abs (prevDelta - currDelta) - eps) 0.0 / eps) 1.0
  windowPenalty * currRatio * fractionMultiplier

/-- `effective_ratio *= (3.0 / count as f64).min((count as f64).recip().powf(power))` when the island was found
in `island_counts` (and is not the default island); unchanged otherwise -/
def applyIslandRepeat (effectiveRatio : R) (island : Island) (count : Option Nat) : R :=
  match count with
  | some count =>
    let power := logistic (ofInt island.delta) 58.33 0.24 2.75
    effectiveRatio * fmin (3.0 / ofNat count) (powf (1.0 / ofNat count) power)
  | none => effectiveRatio

/-- the `else` branch of `if (prev_delta - curr_delta).abs() < eps` while counting an island -/
def rhythmIslandEnd (eps hitWindow : R) (st : RhState R) (currObj : DiffObj R) (effectiveRatio decay : R)
    (currDelta prevDelta lastDelta : R) : RhState R :=
  let effectiveRatio := if currObj.base.isSlider then effectiveRatio * 0.125 else effectiveRatio
  let effectiveRatio := if st.prevObj.base.isSlider then effectiveRatio * 0.3 else effectiveRatio
  let effectiveRatio :=
    if st.island.isSimilarPolarity st.prevIsland then effectiveRatio * 0.5 else effectiveRatio
  let effectiveRatio :=
    if lt (prevDelta + eps) lastDelta && lt (currDelta + eps) prevDelta then effectiveRatio * 0.125
    else effectiveRatio
  let effectiveRatio :=
    if st.prevIsland.deltaCount == st.island.deltaCount then effectiveRatio * 0.5 else effectiveRatio
  let upd := islandCountsUpdate eps st.counts st.island st.prevIsland
  let effectiveRatio := applyIslandRepeat effectiveRatio st.island upd.2
  let doubletapness := getDoubletapness st.prevObj (some currObj) hitWindow
  let effectiveRatio := effectiveRatio * (1.0 - doubletapness * 0.75)
  let sum := st.sum + sqrt (effectiveRatio * st.startRatio) * decay
  { st with sum := sum, counts := upd.1, startRatio := effectiveRatio, prevIsland := st.island,
            firstDeltaSwitch := if lt (prevDelta + eps) currDelta then false else st.firstDeltaSwitch,
            island := Island.newWithDelta (truncI32 currDelta) }

/-- the `if first_delta_switch { … } else if prev_delta > curr_delta + eps { … }` of one iteration -/
def rhythmBranch (eps hitWindow : R) (st : RhState R) (currObj : DiffObj R) (effectiveRatio decay : R)
    (currDelta prevDelta lastDelta : R) : RhState R :=
  if st.firstDeltaSwitch then
    if lt (abs (prevDelta - currDelta)) eps then
      { st with island := st.island.addDelta (truncI32 currDelta) }
    else rhythmIslandEnd eps hitWindow st currObj effectiveRatio decay currDelta prevDelta lastDelta
  else if lt (currDelta + eps) prevDelta then
    let effectiveRatio := if currObj.base.isSlider then effectiveRatio * 0.6 else effectiveRatio
    let effectiveRatio := if st.prevObj.base.isSlider then effectiveRatio * 0.6 else effectiveRatio
    { st with firstDeltaSwitch := true, startRatio := effectiveRatio,
              island := Island.newWithDelta (truncI32 currDelta) }
  else st

/-- one iteration `i` of `for i in (1..=rhythm_start).rev()` once `curr.previous(i - 1)` returned `curr_obj`
(before `last_obj = prev_obj; prev_obj = curr_obj`) -/
def rhythmStepWith (curr : DiffObj R) (hnc : Nat) (eps hitWindow : R) (st : RhState R) (i : Nat)
    (currObj : DiffObj R) : RhState R :=
  let timeDecay := (historyTimeMax - (curr.startTime - currObj.startTime)) / historyTimeMax
  let noteDecay := ofNat (hnc - i) / ofNat hnc
  let currHistoricalDecay := fmin noteDecay timeDecay
  let currDelta := currObj.strainTime
  let prevDelta := st.prevObj.strainTime
  let lastDelta := st.lastObj.strainTime
  let effectiveRatio := rhythmEffectiveRatio eps currDelta prevDelta
  let st : RhState R := { st with underflow := st.underflow || decide (hnc < i) }
  let st : RhState R :=
    rhythmBranch eps hitWindow st currObj effectiveRatio currHistoricalDecay currDelta prevDelta lastDelta
  { st with lastObj := st.prevObj, prevObj := currObj }

def rhythmStep (objs : List (DiffObj R)) (curr : DiffObj R) (hnc : Nat) (eps hitWindow : R)
    (st : RhState R) (i : Nat) : RhState R :=
  if st.broke then st
  else
    match previous objs curr (i - 1) with
    | none => { st with broke := true }
    | some currObj => rhythmStepWith curr hnc eps hitWindow st i currObj

/-- `if let Some((prev_obj, last_obj)) = previous(rhythm_start).zip(previous(rhythm_start + 1)) { for … }`:
the loop's final state when it ran -/
def rhythmLoop (objs : List (DiffObj R)) (curr : DiffObj R) (hnc : Nat) (eps hitWindow : R) (rhythmStart : Nat) :
    Option (RhState R) :=
  match previous objs curr rhythmStart, previous objs curr (rhythmStart + 1) with
  | some prevObj, some lastObj =>
    let st0 : RhState R :=
      { sum := 0.0, island := Island.new, prevIsland := Island.new, counts := [], startRatio := 0.0,
        firstDeltaSwitch := false, prevObj := prevObj, lastObj := lastObj, broke := false, underflow := false }
    some (((List.range rhythmStart).reverse.map (· + 1)).foldl (rhythmStep objs curr hnc eps hitWindow) st0)
  | _, _ => none

/-- `rhythm_complexity_sum` -/
def rhythmSumOf (final : Option (RhState R)) : R := match final with | some st => st.sum | none => 0.0

/-- `RhythmEvaluator::evaluate_diff_of`: `(rhythm value, the loop's final state when it ran)` -/
def rhythmEvaluateFull (objs : List (DiffObj R)) (curr : DiffObj R) (hitWindow : R) : R × Option (RhState R) :=
  if curr.base.isSpinner then (0.0, none)
  else
    let deltaDifferenceEps := hitWindow * 0.3
    let historicalNoteCount := min curr.idx 32
    let rhythmStart := rhythmStartSearch objs curr historicalNoteCount historicalNoteCount 0
    let final : Option (RhState R) :=
      rhythmLoop objs curr historicalNoteCount deltaDifferenceEps hitWindow rhythmStart
    let rhythmComplexitySum : R := rhythmSumOf final
    (sqrt (4.0 + rhythmComplexitySum * 0.95) / 2.0, final)

def rhythmEvaluate (objs : List (DiffObj R)) (curr : DiffObj R) (hitWindow : R) : R :=
  (rhythmEvaluateFull objs curr hitWindow).1

end

end Rosu.PerfCalc
