import RosuModel.Model.SafetyQueue
import RosuModel.Model.SafetyColumns
import RosuModel.Model.SafetyLoops
import RosuModel.Model.Rng

/-!
# C05 wire: request line → response line for the safety models

* `LQ <N> <ops>` — `p<v>` push, `l` len, `f` is_full, `i<k>` index, `s` as_slices
* `CC <ops>` — `i<c>` insert, `c<c>` contains, `l` len, `a<bits>` append(other = bits)
* `FAC <total> <rs> <initial> <upper> <g|n|r> <seed> <patterns>` — `find_available_column` of the
  hit-object generator; `g` = `get_next_column` with GATHERED, `n` = `get_next_column` random branch,
  `r` = no function; random draws replay the xorshift generator of `Model/Rng.lean`
* `BAN <0|1> <start> <end> <fuel>` — `Float32` replica of `BananaShower::new` (1 = fixed loop)
* `BANX <start> <end>` — exact count (`bananaExact`)
* `TKH <p> <q> <duration>` — exact taiko hit count
-/
namespace Rosu.Safety.Wire
open Rosu.Safety

def nat (s : String) : Nat := s.toNat?.getD 0
def int (s : String) : Int := s.toInt?.getD 0

def showList (l : List Nat) : String :=
  if l.isEmpty then "e" else ":".intercalate (l.map toString)

def lqStep (q : LQ) (op : String) : Option (LQ × String) :=
  match op.toList with
  | 'p' :: r => (q.push (nat (String.ofList r))).map (fun q' => (q', "-"))
  | ['l'] => some (q, toString q.len)
  | ['f'] => some (q, if q.isFull then "1" else "0")
  | 'i' :: r => (q.index (nat (String.ofList r))).map (fun v => (q, toString v))
  | ['s'] => q.asSlices.map (fun (a, b) => (q, showList a ++ "|" ++ showList b))
  | _ => some (q, "?")

def lqRun : LQ → List String → List String → String
  | _, [], acc => ";".intercalate acc.reverse
  | q, op :: ops, acc =>
    match lqStep q op with
    | none => ";".intercalate (("PANIC" :: acc).reverse)
    | some (q', out) => lqRun q' ops (out :: acc)

def handleLQ (n ops : String) : String :=
  match LQ.new (nat n) with
  | none => "PANIC"
  | some q => lqRun q (ops.splitOn ",") []

def ccStep (s : Cols) (op : String) : Option (Cols × String) :=
  match op.toList with
  | 'i' :: r => (Cols.insert s (nat (String.ofList r))).map (fun s' => (s', "-"))
  | 'c' :: r => (Cols.contains s (nat (String.ofList r))).map (fun b => (s, if b then "1" else "0"))
  | ['l'] => some (s, toString (Cols.len s))
  | 'a' :: r => some ((Cols.append s (nat (String.ofList r))).1, "-")
  | _ => some (s, "?")

def ccRun : Cols → List String → List String → String
  | _, [], acc => ";".intercalate acc.reverse
  | s, op :: ops, acc =>
    match ccStep s op with
    | none => ";".intercalate (("PANIC" :: acc).reverse)
    | some (s', out) => ccRun s' ops (out :: acc)

def handleCC (ops : String) : String := ccRun 0 (ops.splitOn ",") []

/-- random draws of `get_random_column(lower, upper)`: `random.next_int_range(lower, upper) as u8` -/
def rngNext (lower upper : Int) : Rosu.Rng.Osu → Nat → Option (Rosu.Rng.Osu × Nat) :=
  fun st _ =>
    let (v, st') := st.nextIntRangeF lower upper
    some (st', (v % 256).toNat)

def showFac : FacResult → String
  | .found c => s!"found:{c}"
  | .panic => "PANIC"
  | .assertFailed => "PANIC"   -- `assert!` is a panic, too
  | .outOfFuel => "HANG"

def handleFAC (total rs initial upper mode seed patterns : String) : String :=
  let pats : List Cols := if patterns = "-" then [] else (patterns.splitOn "|").map nat
  let t := nat total
  let r := nat rs
  let fuel := 100000
  match mode with
  | "g" => showFac (findAvailableColumn (gatheredNext t r) pats r (nat upper) fuel () (nat initial))
  | "n" => showFac (findAvailableColumn (rngNext r t) pats r (nat upper) fuel (Rosu.Rng.Osu.new (int seed)) (nat initial))
  | _ => showFac (findAvailableColumn (rngNext r (nat upper)) pats r (nat upper) fuel (Rosu.Rng.Osu.new (int seed)) (nat initial))

def handleBAN (guarded start end_ fuel : String) : String :=
  match bananaF32 (guarded = "1") (int start) (int end_) (nat fuel) with
  | some n => toString n
  | none => "HANG"

def handleBANX (start end_ : String) : String :=
  match bananaExact (int start) (int end_) 100000000 with
  | some n => toString n
  | none => "PANIC"

def handleTKH (p q d : String) : String :=
  match taikoHits (nat p) (nat q) (nat d) 100000000 with
  | some n => toString n
  | none => "HANG"

end Rosu.Safety.Wire
