import RosuModel.Model.DecodeBytes
import RosuModel.Model.PipelineOsu
import RosuModel.Model.PipelineCatch
import RosuModel.Model.PipelineTaiko

/-
The decoder in front of the osu! and osu!catch pipelines: from the BYTES of a native `.osu` file to
`OsuDifficultyAttributes` / `CatchDifficultyAttributes`.

  bytes ─ `DecodeLine.fromBytes` (DEC) ─▶ `Decoded`
        ─ `osuObjects` / `catchObjects` ─▶ the converters' input records  (HERE: position `i32 as f32`,
            start time, kind — a hold line is a spinner —, span count `repeats + 1`, the control-point
            lookups `timing_point_at` / `difficulty_point_at` at the slider's start time for `beat_len`,
            `slider_velocity`, `generate_ticks`, and `slider_multiplier`, `slider_tick_rate`, format
            version, `stack_leniency` from the decoded file)
        ─ `PipelineOsu.osuDifficulty` (PP) / `PipelineCatch.catchDifficulty` (MANIA) ─▶ attributes

The only inputs that do not come from the file:
* `CurveInputs` — per SLIDER, in the order of the sorted object list, what rosu-map's curve
  mathematics yields: `path.dist()`, for osu! the positions of the nested objects and the raw lazy
  end position, for catch the x positions of the nested objects; ONE typed parameter that a curve
  model can supply later (worker CURVE);
* the attribute-builder outputs the two pipelines take (`Model/Attrs.lean` is over ℚ, C17): osu!
  `cs`, the AR hit window, `ar`, `hp`, the three OD hit windows; catch `cs as f32`, `ar`;
* settings: clock rate, reflection, mod flags, `hardrock_offsets`; for catch the banana count per
  spinner (`BananaShower::new`, Model/SafetyLoops.lean).
Core Lean only.
-/

namespace Rosu.PipelineBytes
open Rosu.DecodeLine Rosu.Decode Rosu.SkillOps
open Rosu.SliderEvents (SliderIn)

/-- reinterpretation of bit patterns and casts -/
structure BOps (R S : Type) where
  /-- `f64::from_bits` -/
  dec64 : Nat → R
  /-- `f64::from(f32::from_bits(b))` -/
  dec32R : Nat → R
  /-- `x as f32` for the `i32` coordinates the decoder stored -/
  ofI32 : Int → S
  /-- `total_cmp` key of a value -/
  keyOf : R → Int

/-- what rosu-map's curve yields for one slider -/
structure SliderCurve (R S : Type) where
  /-- `path.dist()` -/
  dist : R
  /-- osu!: positions of the nested objects in their final order; catch: only `.1` (x) is read -/
  nestedPos : List (S × S)
  /-- osu!: `path.position_at(end_time_min)` -/
  lazyEndRaw : S × S

/-- the curve data of all sliders of a map, in the order of the sorted object list -/
abbrev CurveInputs (R S : Type) := List (SliderCurve R S)

section
variable {R S : Type} (O : BOps R S)

/-- `difficulty_point_at`: last point at or before `t`, none if there is none -/
def difficultyPointAt {α : Type} (points : List (Int × α)) (k : Int) : Option α :=
  Rosu.PipelineTaiko.effectPointAt points k

/-- `SliderIn` of a slider line: everything but `dist` comes from the file -/
def sliderIn (d : Decoded) (start : Nat) (repeats : Nat) (dist : R) : SliderIn R :=
  let k := O.keyOf (O.dec64 start)
  let beatLen : R := match Rosu.PipelineTaiko.timingPointAt d.cps.timing k with
    | some b => O.dec64 b
    | none => O.dec64 0x408F400000000000            -- `TimingPoint::DEFAULT_BEAT_LEN` = 1000.0
  let dp := difficultyPointAt d.cps.difficulty k
  { version := d.version.toNat
    sliderMultiplier := O.dec64 (unkey64 d.diff.sm)
    tickRate := O.dec64 (unkey64 d.diff.tr)
    start := O.dec64 start
    beatLen := beatLen
    sv := match dp with
      | some v => O.dec64 v.1
      | none => O.dec64 0x3FF0000000000000            -- `DEFAULT_SLIDER_VELOCITY` = 1.0
    generateTicks := match dp with
      | some v => v.2.2
      | none => true
    dist := dist
    spans := repeats + 1 }

/-- decoded objects → `PipelineOsu.PObj`s; `none` = fewer curve entries than sliders -/
def osuObjects (d : Decoded) : List HObj → CurveInputs R S → Option (List (Rosu.PipelineOsu.PObj R S))
  | [], _ => some []
  | h :: t, cs =>
    let pos : S × S := (O.ofI32 h.x, O.ofI32 h.y)
    match h.kind with
    | .circle => (osuObjects d t cs).map (Rosu.PipelineOsu.PObj.circle pos (O.dec64 h.time) :: ·)
    | .spinner dur | .hold dur =>
      (osuObjects d t cs).map (Rosu.PipelineOsu.PObj.spinner pos (O.dec64 h.time) (O.dec64 dur) :: ·)
    | .slider repeats _ _ _ =>
      match cs with
      | [] => none
      | c :: cs' =>
        (osuObjects d t cs').map
          (Rosu.PipelineOsu.PObj.slider pos (sliderIn O d h.time repeats c.dist) c.nestedPos c.lazyEndRaw :: ·)

/-- decoded objects → `PipelineCatch.PObj`s; `bananas` = the banana count of every spinner / hold
line in order; `none` = too few curve entries / banana counts -/
def catchObjects (d : Decoded) : List HObj → CurveInputs R S → List Nat → Option (List (Rosu.PipelineCatch.PObj R S))
  | [], _, _ => some []
  | h :: t, cs, bs =>
    match h.kind with
    | .circle => (catchObjects d t cs bs).map (Rosu.PipelineCatch.PObj.fruit (O.ofI32 h.x) (O.dec64 h.time) :: ·)
    | .spinner _ | .hold _ =>
      match bs with
      | [] => none
      | b :: bs' => (catchObjects d t cs bs').map (Rosu.PipelineCatch.PObj.shower b :: ·)
    | .slider repeats _ _ cps =>
      match cs with
      | [] => none
      | c :: cs' =>
        -- `control_points.last().map_or(0.0, |cp| cp.pos.x)`
        let lastCp : S := match cps.getLast? with
          | some cp => O.ofI32 cp.x
          | none => O.ofI32 0
        (catchObjects d t cs' bs).map
          (Rosu.PipelineCatch.PObj.stream (O.ofI32 h.x) lastCp (sliderIn O d h.time repeats c.dist)
            (c.nestedPos.map (·.1)) :: ·)

/-- outcome of a from-bytes pipeline -/
inductive Out (α : Type) where
  | ioError
  /-- the file's mode is not the pipeline's mode (conversion is outside) -/
  | otherMode (mode : Nat)
  /-- fewer curve entries (or banana counts) than the file has sliders (spinners) -/
  | missingInputs
  | panic
  | fuel
  | ok (a : α)

def ofRes {α : Type} : Res α → Out α
  | .ok a => .ok a
  | .panic => .panic
  | .fuel => .fuel

/-! ## osu! -/

/-- the non-file inputs of the osu! pipeline -/
structure OsuInputs (R : Type) where
  cs : R
  arWindow : R
  ar : R
  hp : R
  odGreat : R
  odOk : R
  odMeh : R
  clockRate : R
  /-- 0 none, 1 vertical, 2 horizontal, 3 both -/
  reflection : Nat
  mods : Rosu.PerfCalc.OsuEvalMods
  hd : Bool

def osuSettings (d : Decoded) (i : OsuInputs R) : Rosu.PipelineOsu.Settings R :=
  { cs := i.cs, arWindow := i.arWindow, ar := i.ar, hp := i.hp, odGreat := i.odGreat, odOk := i.odOk,
    odMeh := i.odMeh, clockRate := i.clockRate, stackLeniency := O.dec32R d.stackLeniency,
    version := d.version.toNat, reflection := i.reflection, mods := i.mods, hd := i.hd }

/-- the `PObj`s of a native osu! file -/
def osuDecoded (bytes : List UInt8) (curves : CurveInputs R S) : Out (Decoded × List (Rosu.PipelineOsu.PObj R S)) :=
  match fromBytes bytes with
  | none => .ioError
  | some d =>
    if d.mode ≠ 0 then .otherMode d.mode
    else
      match d.objects with
      | none => .panic
      | some (objs, _) =>
        match osuObjects O d (objs.map (·.2)) curves with
        | none => .missingInputs
        | some os => .ok (d, os)

variable [Rosu.PerfCalc.PPOps R]

/-- **`osuDifficultyFromBytes`** = `Difficulty::…calculate_for_mode::<Osu>(&Beatmap::from_bytes(bytes)?)` -/
def osuDifficultyFromBytes (A : Rosu.ConvOsu.Ar R S) (E : Rosu.SliderEvents.Arith R) (fuel : Nat)
    (bytes : List UInt8) (i : OsuInputs R) (take : Nat) (curves : CurveInputs R S) :
    Out (Rosu.PipelineOsu.Attrs R) :=
  match osuDecoded O bytes curves with
  | .ok (d, os) => ofRes (Rosu.PipelineOsu.osuDifficulty A E fuel (osuSettings O d i) take os)
  | .ioError => .ioError
  | .otherMode m => .otherMode m
  | .missingInputs => .missingInputs
  | .panic => .panic
  | .fuel => .fuel

/-- the value of the `k`-th `next()` of `OsuGradualDifficulty` on the file (`none` = exhausted) -/
def osuGradualFromBytes (A : Rosu.ConvOsu.Ar R S) (E : Rosu.SliderEvents.Arith R) (fuel : Nat)
    (bytes : List UInt8) (i : OsuInputs R) (k : Nat) (curves : CurveInputs R S) :
    Out (Option (Rosu.PipelineOsu.Attrs R)) :=
  match osuDecoded O bytes curves with
  | .ok (d, os) => ofRes (Rosu.PipelineOsu.osuGradualValue A E fuel (osuSettings O d i) k os)
  | .ioError => .ioError
  | .otherMode m => .otherMode m
  | .missingInputs => .missingInputs
  | .panic => .panic
  | .fuel => .fuel

end

/-! ## osu!catch -/

section
variable {F S : Type} (O : BOps F S) [FOps F] [FOps S]

/-- the non-file inputs of the catch pipeline -/
structure CatchInputs (F S : Type) where
  hrOffsets : Bool
  reflectH : Bool
  cs : S
  ar : F
  clockRate : F
  /-- banana count of every spinner / hold line, in order -/
  bananas : List Nat

def catchSettings (i : CatchInputs F S) : Rosu.PipelineCatch.Settings F S :=
  ⟨i.hrOffsets, i.reflectH, i.cs, i.ar, i.clockRate, false⟩

def catchDecoded (bytes : List UInt8) (curves : CurveInputs F S) (bananas : List Nat) :
    Out (List (Rosu.PipelineCatch.PObj F S)) :=
  match fromBytes bytes with
  | none => .ioError
  | some d =>
    if d.mode ≠ 2 then .otherMode d.mode
    else
      match d.objects with
      | none => .panic
      | some (objs, _) =>
        match catchObjects O d (objs.map (·.2)) curves bananas with
        | none => .missingInputs
        | some os => .ok os

/-- **`catchDifficultyFromBytes`** -/
def catchDifficultyFromBytes (C : Casts F S) (A : Rosu.SliderEvents.Arith F) (CA : Rosu.ConvCatch.CAr S F)
    (SA : SecArith F) (fuel : Nat) (start0 : F) (bytes : List UInt8) (i : CatchInputs F S) (take : Nat)
    (curves : CurveInputs F S) : Out (Rosu.PipelineCatch.CatchAttrs F) :=
  match catchDecoded O bytes curves i.bananas with
  | .ok os => ofRes (Rosu.PipelineCatch.catchDifficulty C A CA SA fuel start0 (catchSettings i) take os)
  | .ioError => .ioError
  | .otherMode m => .otherMode m
  | .missingInputs => .missingInputs
  | .panic => .panic
  | .fuel => .fuel

/-- the value of the `k`-th `next()` of `CatchGradualDifficulty` on the file; `none` = the iterator
is exhausted (one value per palpable object = per gradual count record) -/
def catchGradualFromBytes (C : Casts F S) (A : Rosu.SliderEvents.Arith F) (CA : Rosu.ConvCatch.CAr S F)
    (SA : SecArith F) (fuel : Nat) (start0 : F) (bytes : List UInt8) (i : CatchInputs F S) (k : Nat)
    (curves : CurveInputs F S) : Out (Option (Rosu.PipelineCatch.CatchAttrs F)) :=
  match catchDecoded O bytes curves i.bananas with
  | .ok os =>
    match Rosu.PipelineCatch.convertAll A fuel (CA.ofInt 0) os with
    | .clampPanic => .panic
    | .outOfFuel => .fuel
    | .ok (_, recs) =>
      if k = 0 ∨ (Rosu.Gradual.catchGradualRecs recs).length < k then .ok none
      else
        match Rosu.PipelineCatch.catchGradualValue C A CA SA fuel start0 (catchSettings i) k os with
        | .ok a => .ok (some a)
        | .panic => .panic
        | .fuel => .fuel
  | .ioError => .ioError
  | .otherMode m => .otherMode m
  | .missingInputs => .missingInputs
  | .panic => .panic
  | .fuel => .fuel

end

end Rosu.PipelineBytes
