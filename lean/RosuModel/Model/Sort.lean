/-
Executable models of the hand-rolled sorting utilities of rosu-pp (core Lean only).

* `TandemSorter`            — /repo/src/util/sort/tandem.rs
* `osu_legacy::sort`        — /repo/src/util/sort/osu_legacy.rs (C#-style depth-limited quicksort)
* `heap_sort`, `down_heap`,
  `swap_if_greater`, `swap`  — /repo/src/util/sort/mod.rs

Slices are `List`s; every slice index operation that would panic in Rust (`keys[i]`,
`slice.swap`) makes the model return `none`.  `usize` values are `Nat`s (sizes are far
below 2^63); the mark bit of a `TandemSorter` index (`idx ^ (1 << 63)`) is kept as an explicit
`Bool` next to the low bits.
-/
namespace Rosu.Sort

variable {α : Type}

/-- `slice.swap(a, b)`; `none` = index out of bounds (panic). -/
def swap? (l : List α) (a b : Nat) : Option (List α) :=
  match l[a]?, l[b]? with
  | some x, some y => some ((l.set a y).set b x)
  | _, _ => none

/-! ## TandemSorter -/

/-- One entry of `TandemSorter::indices`: `(low 63 bits, mark bit)`. -/
abbrev Idx := Nat × Bool

/-- `toggle_mark_idx`: flip the top bit. -/
def toggleMark (p : Idx) : Idx := (p.1, !p.2)

/-- `TandemSorter { indices, should_reset }`. -/
structure Tandem where
  indices : List Idx
  shouldReset : Bool
deriving Repr, BEq, DecidableEq

/--
The inner loop of `TandemSorter::sort` for the cycle that starts at `i`, including the final
`self.indices[j] = toggle_mark_idx(j_idx)`:

```text
while j_idx != i {
    self.indices[j] = Self::toggle_mark_idx(j_idx);
    slice.swap(j, j_idx);
    j = j_idx;
    j_idx = self.indices[j];
}
self.indices[j] = Self::toggle_mark_idx(j_idx);
```

`jIdx` is the raw `usize` read from `indices[j]`: a marked value has its top bit set, is therefore
different from `i` and out of bounds as a swap index (→ `none`).  The first argument is fuel.
-/
def walk : Nat → List Idx → List α → Nat → Nat → Idx → Option (List Idx × List α)
  | 0, _, _, _, _, _ => none
  | fuel + 1, idx, a, i, j, jIdx =>
    if jIdx = (i, false) then
      some (idx.set j (toggleMark jIdx), a)
    else if jIdx.2 then
      none
    else
      let idx' := idx.set j (toggleMark jIdx)
      match swap? a j jIdx.1 with
      | none => none
      | some a' =>
        match idx'[jIdx.1]? with
        | none => none
        | some nxt => walk fuel idx' a' i jIdx.1 nxt

/-- `for i in 0..self.indices.len() { … }`: processes positions `i, i+1, …, i+k-1`. -/
def outer : Nat → Nat → List Idx → List α → Option (List Idx × List α)
  | 0, _, idx, a => some (idx, a)
  | k + 1, i, idx, a =>
    match idx[i]? with
    | none => none
    | some iIdx =>
      if iIdx.2 then
        outer k (i + 1) idx a
      else
        match walk (idx.length + 1) idx a i i iIdx with
        | none => none
        | some (idx', a') => outer k (i + 1) idx' a'

/-- `TandemSorter::sort`. -/
def Tandem.sort (t : Tandem) (a : List α) : Option (Tandem × List α) :=
  let idx := if t.shouldReset then t.indices.map toggleMark else t.indices
  match outer idx.length 0 idx a with
  | none => none
  | some (idx', a') => some (⟨idx', true⟩, a')

/-- The index permutation computed by `new_stable`: `(0..n).collect()` sorted with the *stable*
`<[_]>::sort_by(|&i, &j| cmp(&slice[i], &slice[j]))` (std's stable sort is modelled by core's
stable `List.mergeSort`).  Keys are total-order keys (see `Model/Decode.lean`). -/
def stableIndices (keys : List Int) : List Nat :=
  (List.range keys.length).mergeSort (fun i j => decide (keys.getD i 0 ≤ keys.getD j 0))

/-- `TandemSorter::new_stable(slice, cmp)`. -/
def Tandem.newStable (keys : List Int) : Tandem :=
  ⟨(stableIndices keys).map (·, false), false⟩

/-! ## `sort/mod.rs`: swap helpers and heap sort

`gt a b` is `cmp(a, b).is_gt()` for the total order `cmp` (`f64::total_cmp` on start times). -/

/-- `swap_if_greater`. -/
def swapIfGreater (gt : α → α → Bool) (l : List α) (a b : Nat) : Option (List α) :=
  if a ≠ b then
    match l[a]?, l[b]? with
    | some x, some y => if gt x y then swap? l a b else some l
    | _, _ => none
  else some l

/-- `swap` of `sort/mod.rs` (`if i != j { keys.swap(i, j) }`). -/
def swapNe (l : List α) (i j : Nat) : Option (List α) :=
  if i ≠ j then swap? l i j else some l

/-- The child selection of `down_heap`:
`let mut child = 2 * i; if child < n && cmp(&keys[lo + child - 1], &keys[lo + child]).is_lt() { child += 1 }`. -/
def pickChild (gt : α → α → Bool) (l : List α) (i n lo : Nat) : Option Nat :=
  if 2 * i < n then
    match l[lo + 2 * i - 1]?, l[lo + 2 * i]? with
    | some x, some y => some (if gt y x then 2 * i + 1 else 2 * i)
    | _, _ => none
  else some (2 * i)

/-- `down_heap`; the first argument is fuel. -/
def downHeap (gt : α → α → Bool) : Nat → List α → Nat → Nat → Nat → Option (List α)
  | 0, _, _, _, _ => none
  | fuel + 1, l, i, n, lo =>
    if i ≤ n / 2 then
      match pickChild gt l i n lo with
      | none => none
      | some child =>
        match l[lo + i - 1]?, l[lo + child - 1]? with
        | some x, some y =>
          -- `cmp(&keys[lo + i - 1], &keys[lo + child - 1]).is_ge()` → break
          if !gt y x then some l
          else
            match swap? l (lo + i - 1) (lo + child - 1) with
            | none => none
            | some l' => downHeap gt fuel l' child n lo
        | _, _ => none
    else some l

/-- First loop of `heap_sort`: `for i in (1..=n / 2).rev()`; `k` counts down from `n / 2`. -/
def heapBuild (gt : α → α → Bool) (n lo : Nat) : Nat → List α → Option (List α)
  | 0, l => some l
  | k + 1, l =>
    match downHeap gt (n + 1) l (k + 1) n lo with
    | none => none
    | some l' => heapBuild gt n lo k l'

/-- Second loop of `heap_sort`: `for i in (2..=n).rev()`; the argument is `i - 1`. -/
def heapExtract (gt : α → α → Bool) (lo : Nat) : Nat → List α → Option (List α)
  | 0, l => some l
  | k + 1, l =>
    -- i = k + 2
    match swapNe l lo (lo + (k + 2) - 1) with
    | none => none
    | some l' =>
      match downHeap gt (k + 3) l' 1 (k + 1) lo with
      | none => none
      | some l'' => heapExtract gt lo k l''

/-- `heap_sort(keys, lo, hi, cmp)`; `hi - lo` is a checked subtraction. -/
def heapSort (gt : α → α → Bool) (l : List α) (lo hi : Nat) : Option (List α) :=
  if hi < lo then none
  else
    let n := hi - lo + 1
    match heapBuild gt n lo (n / 2) l with
    | none => none
    | some l' => heapExtract gt lo (n - 1) l'

/-! ## `osu_legacy::sort`

`lt a b` is `a < b` of `impl PartialOrd for HitObject` (IEEE `<` on `start_time`), which differs
from the total order `cmp` on `-0.0`/`+0.0`. -/

/-- `while keys[i] < keys[mid] { i += 1 }` (fuel first). -/
def scanUp (lt : α → α → Bool) (l : List α) (mid : Nat) : Nat → Nat → Option Nat
  | 0, _ => none
  | fuel + 1, i =>
    match l[i]?, l[mid]? with
    | some x, some p => if lt x p then scanUp lt l mid fuel (i + 1) else some i
    | _, _ => none

/-- `while keys[mid] < keys[j] { j -= 1 }` (fuel first; `j -= 1` at `0` is an underflow). -/
def scanDown (lt : α → α → Bool) (l : List α) (mid : Nat) : Nat → Nat → Option Nat
  | 0, _ => none
  | fuel + 1, j =>
    match l[mid]?, l[j]? with
    | some p, some y =>
      if lt p y then (if j = 0 then none else scanDown lt l mid fuel (j - 1)) else some j
    | _, _ => none

/-- The inner `loop { … }` of `depth_limited_quick_sort` (partition around `keys[mid]`, which is
re-read on every comparison exactly like the Rust code does). Returns `(keys, i, j)`. -/
def partLoop (lt : α → α → Bool) (mid : Nat) : Nat → List α → Nat → Nat → Option (List α × Nat × Nat)
  | 0, _, _, _ => none
  | fuel + 1, l, i, j =>
    match scanUp lt l mid (l.length + 1) i with
    | none => none
    | some i =>
      match scanDown lt l mid (l.length + 1) j with
      | none => none
      | some j =>
        if i > j then some (l, i, j)
        else
          match (if i < j then swap? l i j else some l) with
          | none => none
          | some l' =>
            let i' := i + 1
            let j' := j - 1
            if i' > j' then some (l', i', j') else partLoop lt mid fuel l' i' j'

/-- `depth_limited_quick_sort(keys, left, right, depth_limit)`; structural recursion on
`depth_limit` (every loop iteration and every recursive call decrements it). `none` also covers
the two unchecked `usize` subtractions `j - i` and `right - i`.  `fb` is what runs when the depth
limit is exhausted (`heap_sort` in the code; a parameter so that theorems can state exactly what
they need from it and the driver can detect that it was reached). -/
def dlqs (gt lt : α → α → Bool) (fb : List α → Nat → Nat → Option (List α)) :
    Nat → List α → Nat → Nat → Option (List α)
  | 0, l, left, right => fb l left right
  | depth + 1, l, left, right =>
    if right < left then none
    else
      let mid := left + ((right - left) >>> 1)
      match swapIfGreater gt l left mid with
      | none => none
      | some l1 =>
      match swapIfGreater gt l1 left right with
      | none => none
      | some l2 =>
      match swapIfGreater gt l2 mid right with
      | none => none
      | some l3 =>
      match partLoop lt mid (l3.length + 1) l3 left right with
      | none => none
      | some (l4, i, j) =>
        if right < i then none
        else if j - left ≤ right - i then
          match (if left < j then dlqs gt lt fb depth l4 left j else some l4) with
          | none => none
          | some l5 => if i ≥ right then some l5 else dlqs gt lt fb depth l5 i right
        else
          match (if i < right then dlqs gt lt fb depth l4 i right else some l4) with
          | none => none
          | some l5 => if left ≥ j then some l5 else dlqs gt lt fb depth l5 left j

/-- `QUICK_SORT_DEPTH_THRESHOLD`. -/
def quickSortDepthThreshold : Nat := 32

/-- `osu_legacy::sort`. -/
def legacySort (gt lt : α → α → Bool) (l : List α) : Option (List α) :=
  if l.length < 2 then some l
  else dlqs gt lt (heapSort gt) quickSortDepthThreshold l 0 (l.length - 1)

/-- Same with an explicit depth limit (used to exercise the heap-sort fallback). -/
def legacySortDepth (gt lt : α → α → Bool) (depth : Nat) (l : List α) : Option (List α) :=
  if l.length < 2 then some l else dlqs gt lt (heapSort gt) depth l 0 (l.length - 1)

/-- Does `osu_legacy::sort` reach its heap-sort fallback on this input?  (Runs the quicksort with
a fallback that fails.) -/
def legacyReachesFallback (gt lt : α → α → Bool) (l : List α) : Bool :=
  if l.length < 2 then false
  else (dlqs gt lt (fun _ _ _ => none) quickSortDepthThreshold l 0 (l.length - 1)).isNone

end Rosu.Sort
