import RosuModel.Model.PipelineOsu
import RosuModel.Model.ConvOsuWire
import RosuModel.Model.SliderEventsWire
import RosuModel.Model.SkillWire
import RosuModel.Model.PerfCalcWire

/-!
# `PIPE osu` wire: osu!standard from decoded objects to `OsuDifficultyAttributes`, IEEE instances

`PIPE osu <version> <slider_multiplier> <tick_rate> <reflection> <cs> <ar_window> <ar> <hp> <od_great> <od_ok>
<od_meh> <clock> <stack_leniency> <flags td rx ap fl hd> <take|-> <gradual indices|-> <objects>` —
`slider_multiplier`, `tick_rate` and the slider fields are decimal bit patterns (as in OSLD / JUICE lines), the
other floats hex bit patterns (as in OCONV lines).  Objects `;`-separated: `c:<x>:<y>:<start>` |
`p:<x>:<y>:<start>:<duration>` | `s:<x>:<y>:<start>:<beat_len>:<sv>:<generate_ticks>:<dist>:<spans>:<lex>:<ley>:
<nested x,y separated by a slash, or a dash>`.  Response: one `key=value` token per attribute field (`b:<bits>` for f64), then per
gradual index `i` the same tokens prefixed `g<i>.` (or `g<i>=none`); `~sort=0` annotates a request in which a
slider's nested objects were not generated in time order.
-/
namespace Rosu.PipelineOsu.Wire
open Rosu.PipelineOsu Rosu.SkillOps Rosu.SkillWire Rosu.Stack.Wire Rosu.ConvOsu.Wire Rosu.PerfCalc

def parsePos (s : String) : Option (Float32 × Float32) :=
  match s.splitOn "," with
  | [x, y] => some (f32 x, f32 y)
  | _ => none

def parseObj (version sm tr : String) (s : String) : Option (PObj Float Float32) :=
  match s.splitOn ":" with
  | ["c", x, y, st] => some (.circle (f32 x, f32 y) (f64 st))
  | ["p", x, y, st, d] => some (.spinner (f32 x, f32 y) (f64 st) (f64 d))
  | ["s", x, y, start, bl, sv, gen, dist, spans, lx, ly, ns] =>
    let ps := if ns = "-" then [] else (ns.splitOn "/").map parsePos
    if ps.any Option.isNone then none
    else
      (Rosu.SliderEvents.parseSliderIn version sm tr [start, bl, sv, gen, dist, spans]).map fun si =>
        .slider (f32 x, f32 y) si (ps.filterMap id) (f32 lx, f32 ly)
  | _ => none

def showAttrs (pre : String) (a : Attrs Float) : String :=
  " ".intercalate
    [s!"{pre}aim={showF a.aim}", s!"{pre}adsl={showF a.aimDifficultSliderCount}", s!"{pre}spd={showF a.speed}",
     s!"{pre}fl={showF a.flashlight}", s!"{pre}sf={showF a.sliderFactor}", s!"{pre}snc={showF a.speedNoteCount}",
     s!"{pre}adst={showF a.aimDifficultStrainCount}", s!"{pre}sdst={showF a.speedDifficultStrainCount}",
     s!"{pre}ar={showF a.ar}", s!"{pre}ghw={showF a.greatHitWindow}", s!"{pre}ohw={showF a.okHitWindow}",
     s!"{pre}mhw={showF a.mehHitWindow}", s!"{pre}hp={showF a.hp}", s!"{pre}stars={showF a.stars}",
     s!"{pre}nc={a.nCircles}", s!"{pre}ns={a.nSliders}", s!"{pre}nlt={a.nLargeTicks}", s!"{pre}nsp={a.nSpinners}",
     s!"{pre}mc={a.maxCombo}"]

def unsortedSliders (os : List (PObj Float Float32)) : Bool :=
  os.any fun o =>
    match o with
    | .slider _ s _ _ =>
      let E := Rosu.SliderEvents.floatArith
      let p := Rosu.SliderEvents.osuParams E s
      match p.events E Rosu.SliderEvents.driverFuel with
      | .ok evs => !(nestedSortExact E (Rosu.SliderEvents.osuNested E p evs))
      | _ => false
    | _ => false

def handlePIPEO (args : List String) : String :=
  match args with
  | [version, sm, tr, refl, cs, arw, ar, hp, og, ook, om, clock, sl, flags, take, gidx, objs] =>
    let parsed := if objs = "-" then [] else (objs.splitOn ";").map (parseObj version sm tr)
    if parsed.any Option.isNone then "bad-object"
    else
      let os := parsed.filterMap id
      let fb := bits flags
      match fb with
      | [td, rx, ap, fl, hd] =>
        let st : Settings Float :=
          { cs := f64 cs, arWindow := f64 arw, ar := f64 ar, hp := f64 hp, odGreat := f64 og, odOk := f64 ook,
            odMeh := f64 om, clockRate := f64 clock, stackLeniency := f64 sl, version := version.toNat?.getD 0,
            reflection := refl.toNat?.getD 0, mods := { td := td, rx := rx, ap := ap, fl := fl }, hd := hd }
        let A := Rosu.ConvOsu.Wire.ieee
        let E := Rosu.SliderEvents.floatArith
        let fuel := Rosu.SliderEvents.driverFuel
        let one := showRes (osuDifficulty A E fuel st (takeOf take) os) (showAttrs "")
        let gs := if gidx = "-" then [] else (gidx.splitOn ",").map (fun s => s.toNat?.getD 0)
        let gout := String.join (gs.map fun i =>
          match osuGradualValue A E fuel st i os with
          | .ok (some a) => " " ++ showAttrs s!"g{i}." a
          | .ok none => s!" g{i}=none"
          | .panic => s!" g{i}=PANIC"
          | .fuel => s!" g{i}=FUEL")
        one ++ gout ++ (if unsortedSliders os then " ~sort=0" else "")
      | _ => "bad-flags"
  | _ => "bad-pipe-osu"

end Rosu.PipelineOsu.Wire
