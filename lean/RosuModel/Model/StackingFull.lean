/-!
# C05 — osu! stacking, both passes, with the stack heights (src/osu/convert.rs)

`stacking` (map version ≥ 6) and `old_stacking` (version < 6), statement by statement, including the
`stack_height` state the passes read and write.  Every `hit_objects[k]` is a checked access
(`none` = index-out-of-bounds panic).  The float predicates are a parameter (`Arith T P`): the code
subtracts two `f64` times and compares with the threshold, and compares an `f32` distance with
`STACK_DISTANCE`; the driver instantiates it with IEEE `Float` / `Float32` (`Model/StackingWire.lean`),
the theorems hold for every instance.

Not modelled: `i32` overflow of `stack_height` arithmetic (heights are `Int` here; a height's magnitude
is bounded by the number of objects times the number of passes over it); `extended_start_idx` is the
constant 0 in this port, so `if n < extended_start_idx` is dead code.

`Model/SafetyStacking.lean` (first wave) is the same control skeleton over Boolean oracles.
-/
namespace Rosu.Stack

/-- what the passes read of an `OsuObject` (besides its `stack_height`) -/
structure SObj (T P : Type) where
  /-- 0 circle, 1 slider, 2 spinner -/
  kind : Nat
  pos : P
  start : T
  /-- `end_time()` -/
  endTime : T
  /-- `end_pos()` -/
  endPos : P
  /-- `slider.repeat_count()` -/
  repeatCount : Nat
  /-- `slider.tail()`'s position -/
  tail : Option P
  /-- position of the first nested `Repeat` -/
  firstRepeat : Option P

structure Arith (T P : Type) where
  /-- `a - b` on `f64` -/
  sub : T → T → T
  /-- `a > b` on `f64` -/
  gt : T → T → Bool
  /-- `a.distance(b) < STACK_DISTANCE` on `f32` positions -/
  close : P → P → Bool

variable {T P : Type}

/-- `hit_objects[i].stack_height = v` -/
def setC (h : List Int) (i : Nat) (v : Int) : Option (List Int) :=
  if i < h.length then some (h.set i v) else none

/-! ### `stacking` -/

/-- `for j in n + 1..=i { if end_pos(n).distance(pos(j)) < D { stack_height[j] -= offset } }` -/
def offsetLoop (A : Arith T P) (objs : List (SObj T P)) (on : SObj T P) (offset : Int) :
    List Nat → List Int → Option (List Int)
  | [], h => some h
  | j :: js, h =>
    match objs[j]? with
    | none => none
    | some oj =>
      if A.close on.endPos oj.pos then
        match h[j]? with
        | none => none
        | some hj =>
          match setC h j (hj - offset) with
          | none => none
          | some h' => offsetLoop A objs on offset js h'
      else offsetLoop A objs on offset js h

/-- the `loop { n = n.checked_sub(1)?; … }` of the hit-circle branch; first argument = `n` before the decrement -/
def circleLoop (A : Arith T P) (thr : T) (objs : List (SObj T P)) (i : Nat) :
    Nat → Nat → List Int → Option (List Int)
  | 0, _, h => some h
  | n + 1, objIdx, h =>
    match objs[n]? with
    | none => none
    | some on =>
      if on.kind == 2 then circleLoop A thr objs i n objIdx h
      else
        match objs[objIdx]? with
        | none => none
        | some oi =>
          if A.gt (A.sub oi.start on.endTime) thr then some h
          else if on.kind == 1 && A.close on.endPos oi.pos then
            match h[objIdx]?, h[n]? with
            | some hi, some hn => offsetLoop A objs on (hi - hn + 1) (List.range' (n + 1) (i - n)) h
            | _, _ => none
          else if A.close on.pos oi.pos then
            match h[objIdx]? with
            | none => none
            | some hi =>
              match setC h n (hi + 1) with
              | none => none
              | some h' => circleLoop A thr objs i n n h'
          else circleLoop A thr objs i n objIdx h

/-- the loop of the slider branch -/
def sliderLoop (A : Arith T P) (thr : T) (objs : List (SObj T P)) :
    Nat → Nat → List Int → Option (List Int)
  | 0, _, h => some h
  | n + 1, objIdx, h =>
    match objs[n]? with
    | none => none
    | some on =>
      if on.kind == 2 then sliderLoop A thr objs n objIdx h
      else
        match objs[objIdx]? with
        | none => none
        | some oi =>
          if A.gt (A.sub oi.start on.start) thr then some h
          else if A.close on.endPos oi.pos then
            match h[objIdx]? with
            | none => none
            | some hi =>
              match setC h n (hi + 1) with
              | none => none
              | some h' => sliderLoop A thr objs n n h'
          else sliderLoop A thr objs n objIdx h

/-- body of `for i in (1..=extended_end_idx).rev()` -/
def stackStep (A : Arith T P) (thr : T) (objs : List (SObj T P)) (h : List Int) (i : Nat) : Option (List Int) :=
  match objs[i]?, h[i]? with
  | some oi, some hi =>
    if hi != 0 || oi.kind == 2 then some h
    else if oi.kind == 0 then circleLoop A thr objs i i i h
    else if oi.kind == 1 then sliderLoop A thr objs i i h
    else some h
  | _, _ => none

/-- `stacking(hit_objects, stack_threshold)`; all heights start at 0 (`OsuObject::new`) -/
def stacking (A : Arith T P) (thr : T) (objs : List (SObj T P)) : Option (List Int) :=
  match objs.length with
  | 0 => some []
  | e + 1 => ((List.range' 1 e).reverse).foldlM (stackStep A thr objs) (List.replicate (e + 1) 0)

/-! ### `old_stacking` -/

/-- `pos2`: the path end position of a slider (tail for an even repeat count, else the first repeat;
the object's position if there is none), the position of other objects -/
def pos2 (o : SObj T P) : P :=
  if o.kind == 1 then
    let nested := if o.repeatCount % 2 == 0 then o.tail else o.firstRepeat
    nested.getD o.pos
  else o.pos

/-- `for j in i + 1..hit_objects.len()` with `start_time`, `slider_stack` -/
def oldInner (A : Arith T P) (thr : T) (objs : List (SObj T P)) (i : Nat) (oi : SObj T P) (p2 : P) :
    List Nat → T → Int → List Int → Option (List Int)
  | [], _, _, h => some h
  | j :: js, st, ss, h =>
    match objs[j]? with
    | none => none
    | some oj =>
      if A.gt (A.sub oj.start thr) st then some h
      else if A.close oj.pos oi.pos then
        match h[i]? with
        | none => none
        | some hi =>
          match setC h i (hi + 1) with
          | none => none
          | some h' => oldInner A thr objs i oi p2 js oj.start ss h'
      else if A.close oj.pos p2 then
        match h[j]? with
        | none => none
        | some hj =>
          match setC h j (hj - (ss + 1)) with
          | none => none
          | some h' => oldInner A thr objs i oi p2 js oj.start (ss + 1) h'
      else oldInner A thr objs i oi p2 js st ss h

/-- body of `for i in 0..hit_objects.len()` -/
def oldStep (A : Arith T P) (thr : T) (objs : List (SObj T P)) (h : List Int) (i : Nat) : Option (List Int) :=
  match objs[i]?, h[i]? with
  | some oi, some hi =>
    if hi != 0 && oi.kind != 1 then some h
    else oldInner A thr objs i oi (pos2 oi) (List.range' (i + 1) (objs.length - (i + 1))) oi.endTime 0 h
  | _, _ => none

/-- `old_stacking(hit_objects, stack_threshold)` -/
def oldStacking (A : Arith T P) (thr : T) (objs : List (SObj T P)) : Option (List Int) :=
  (List.range objs.length).foldlM (oldStep A thr objs) (List.replicate objs.length 0)

end Rosu.Stack
