import RosuModel.Model.ConvOsu
import RosuModel.Model.SliderEvents
import RosuModel.Model.OsuSkill
import RosuModel.Model.EvalCalc
import RosuModel.Model.SkillOps

/-!
# osu!standard end to end: decoded objects → `OsuDifficultyAttributes` (C02 / C09 / C14 / C16).  Core only.

Composition of the existing models along `osu::difficulty::{difficulty, DifficultyValues::calculate, eval}`
(`/repo/src/osu/difficulty/mod.rs`) and `OsuGradualDifficulty` (`…/gradual.rs`):

* `OsuObject::new` / `OsuSlider::new` (`/repo/src/osu/object.rs`): slider parameters, events and the
  event → nested mapping are `Model/SliderEvents.lean` (`osuParams`, `Params.events`, `osuNested`); HERE:
  `sort::csharp` by `start_time` (`sortNested`: insertion sort — what C#'s introsort does for ≤ 16 elements;
  for more elements it is the same list whenever the times are pairwise distinct or the list is already
  sorted, see `nestedSortExact`), the zip with the nested POSITIONS and the raw `lazy_end_pos =
  path.position_at(end_time_min)`, both INPUT bit patterns (the only things taken from rosu-map's curve
  besides `path.dist()`), `lazy_travel_time` (`ConvOsu.lazyTravelTime`);
* `convert_objects` + `compute_slider_cursor_pos`: `Model/ConvOsu.lean` (`prepare`: the `take`-limited counts,
  reflection, stacking through `Model/StackingFull.lean`, stack offsets, the follow-circle loop);
* `create_difficulty_objects`, the aim / speed / rhythm / flashlight evaluators: `Model/OsuSkill.lean`;
* HERE: the four skill state machines (`strain_value_at`, `calculate_initial_strain`, the slider-strain
  list of `Aim`) run by the value-level section loop `SkillOps.processAllV` (`define_skill!`), osu!'s
  `difficulty_value` with the reduced top sections (`Agg.osuDifficultyValue`), `StrainsVec::sum` for
  flashlight, `count_top_weighted_strains`, `Speed::relevant_note_count`, `Aim::get_difficult_sliders`;
* `DifficultyValues::eval`: `Model/EvalCalc.lean` (`osuEval`).

Inputs that stay inputs: `cs`, the AR hit window, `ar`, `hp`, the three OD hit windows
(`map.attributes().difficulty(..).build()`: `Model/Attrs.lean` is over ℚ, C17), the clock rate, the
reflection and the HD/FL/TD/RX/AP flags (`GameMods` accessors, C08), `stack_leniency`, the format version,
and per slider `path.dist()`, the nested positions and the raw lazy end position.

Arithmetic: `A : ConvOsu.Ar R S` (f64 / f32 of the converter), `E : SliderEvents.Arith R`, `[PPOps R]`
(evaluators, skills, eval).  The driver runs the three IEEE instances that are individually tied by the
OCONV, OSLD and OSK / STARS lines; over ℝ `S = ℝ` and the casts are identities.
-/
namespace Rosu.PipelineOsu
open Rosu.PerfCalc Rosu.SkillOps
open Rosu.ConvOsu (Ar P Obj Counts)
open Rosu.SliderEvents (SliderIn Outcome osuParams osuNested NestedKind)

variable {R S : Type}

/-! ## `OsuObject::new` -/

/-- a decoded hit object as `OsuObject::new` reads it (hold notes are spinners) -/
inductive PObj (R S : Type) where
  | circle (pos : P S) (start : R)
  /-- `nestedPos`: positions of the nested objects in their final order (relative to the slider),
  `lazyEndRaw = path.position_at(end_time_min)` -/
  | slider (pos : P S) (s : SliderIn R) (nestedPos : List (P S)) (lazyEndRaw : P S)
  | spinner (pos : P S) (start duration : R)

def nestedTag : NestedKind → Nat
  | .rep => 0 | .tail => 1 | .tick => 2

/-- insertion of `x` into a list sorted by time, behind every element that is not later (`total_cmp` on the
non-NaN times of a map is `<`) -/
def insertNested (E : Rosu.SliderEvents.Arith R) (x : Rosu.SliderEvents.Nested R) :
    List (Rosu.SliderEvents.Nested R) → List (Rosu.SliderEvents.Nested R)
  | [] => [x]
  | y :: ys => if E.lt x.time y.time then x :: y :: ys else y :: insertNested E x ys

/-- `sort::csharp(&mut nested_objects, |a, b| a.start_time.total_cmp(&b.start_time))` -/
def sortNested (E : Rosu.SliderEvents.Arith R) (l : List (Rosu.SliderEvents.Nested R)) :
    List (Rosu.SliderEvents.Nested R) :=
  l.foldl (fun acc x => insertNested E x acc) []

/-- the list is already non-decreasing in time -/
def nestedSorted (E : Rosu.SliderEvents.Arith R) : List (Rosu.SliderEvents.Nested R) → Bool
  | [] => true
  | [_] => true
  | x :: y :: r => !(E.lt y.time x.time) && nestedSorted E (y :: r)

/-- `sortNested` is C#'s introsort on this list: at most 16 elements (insertion sort / the three
`swap_if_greater` on a list the events produce in order), or already sorted -/
def nestedSortExact (E : Rosu.SliderEvents.Arith R) (l : List (Rosu.SliderEvents.Nested R)) : Bool :=
  nestedSorted E l

def zipNested (ns : List (Rosu.SliderEvents.Nested R)) (ps : List (P S)) : List (Rosu.ConvOsu.Nested R S) :=
  (ns.zip ps).map fun q => ⟨q.2, q.1.time, nestedTag q.1.kind⟩

/-- `OsuObject::new` -/
def newObj (A : Ar R S) (E : Rosu.SliderEvents.Arith R) (fuel : Nat) : PObj R S → Outcome (Obj R S)
  | .circle pos start => .ok ⟨pos, start, 0, A.zeroP, .circle⟩
  | .spinner pos start d => .ok ⟨pos, start, 0, A.zeroP, .spinner d⟩
  | .slider pos s nestedPos lazyEndRaw =>
    let p := osuParams E s
    match p.events E fuel with
    | .clampPanic => .clampPanic
    | .outOfFuel => .outOfFuel
    | .ok evs =>
      let ns := sortNested E (osuNested E p evs)
      -- a position list of the wrong length is a malformed request, reported like a failed loop
      if ns.length ≠ nestedPos.length then .outOfFuel
      else
        let nested := zipNested ns nestedPos
        let lazyTime := (Rosu.ConvOsu.lazyTravelTime A s.start (A.subR p.endTime s.start) nested).1
        .ok ⟨pos, s.start, 0, A.zeroP, .slider ⟨p.endTime, lazyEndRaw, A.intS 0, lazyTime, nested⟩⟩

def newObjs (A : Ar R S) (E : Rosu.SliderEvents.Arith R) (fuel : Nat) :
    List (PObj R S) → Outcome (List (Obj R S))
  | [] => .ok []
  | o :: os =>
    match newObj A E fuel o, newObjs A E fuel os with
    | .ok a, .ok b => .ok (a :: b)
    | .clampPanic, _ => .clampPanic
    | .outOfFuel, _ => .outOfFuel
    | .ok _, .clampPanic => .clampPanic
    | .ok _, .outOfFuel => .outOfFuel

/-! ## `OsuObject` → what the difficulty objects and evaluators read (`Model/OsuSkill.lean: RawObj`) -/

def toRaw (A : Ar R S) (o : Obj R S) : RawObj R :=
  match o.kind with
  | .slider s =>
    let tail := Rosu.ConvOsu.tailOf s.nested
    let tp : P S := (tail.map (·.pos)).getD A.zeroP
    { kind := 1, startTime := o.start, posX := A.toR o.pos.1, posY := A.toR o.pos.2,
      stackX := A.toR o.stackOffset.1, stackY := A.toR o.stackOffset.2,
      lazyEndX := A.toR s.lazyEnd.1, lazyEndY := A.toR s.lazyEnd.2, lazyTravelDist := A.toR s.lazyDist,
      lazyTravelTime := s.lazyTime, repeatCount := (s.nested.filter fun n => n.kind = 0).length,
      hasTail := tail.isSome, tailX := A.toR tp.1, tailY := A.toR tp.2 }
  | k =>
    { kind := Rosu.ConvOsu.kindTag k, startTime := o.start, posX := A.toR o.pos.1, posY := A.toR o.pos.2,
      stackX := A.toR o.stackOffset.1, stackY := A.toR o.stackOffset.2,
      lazyEndX := A.intR 0, lazyEndY := A.intR 0, lazyTravelDist := A.intR 0, lazyTravelTime := A.intR 0,
      repeatCount := 0, hasTail := false, tailX := A.intR 0, tailY := A.intR 0 }

section skills
variable [PPOps R]
open PPOps

/-! ## the skills -/

/-- what `OsuSkills::new` derives from the settings -/
structure SkillCfg (R : Type) where
  /-- `2.0 * od_great` -/
  hitWindow : R
  hasHidden : Bool
  hasAutopilot : Bool
  /-- flashlight: `52.0 / radius`, `time_preempt`, `time_fade_in` -/
  flScaling : R
  timePreempt : R
  timeFadeIn : R

/-- `OsuSkills::new(mods, scaling_factor, map_attrs, time_preempt)` -/
def skillCfg (odGreat radius timePreempt : R) (hd ap : Bool) : SkillCfg R :=
  { hitWindow := 2.0 * odGreat, hasHidden := hd, hasAutopilot := ap, flScaling := 52.0 / radius,
    timePreempt := timePreempt,
    timeFadeIn := if hd then timePreempt * 0.4 else 400.0 * fmin (timePreempt / 450.0) 1.0 }

abbrev SObj (R : Type) := Rosu.Skill.Obj R (DiffObj R)

def sobj (d : DiffObj R) : SObj R := ⟨d.idx, d.startTime, d⟩

/-- `curr.previous(0, objects).map_or(0.0, HasStartTime::start_time)` -/
def prevStart (ds : List (DiffObj R)) (d : DiffObj R) : R :=
  match previous ds d 0 with
  | some p => p.startTime
  | none => 0.0

/-- `Aim`: `(current_strain, slider_strains)` -/
def aimFns (ds : List (DiffObj R)) (includeSliders : Bool) : FnsV R (DiffObj R) (R × List R) where
  strainValueAt st o :=
    let cs := st.1 * strainDecayPP o.data.deltaTime 0.15
    let cs := cs + aimEvaluate ds o.data includeSliders * 25.6
    some ((cs, if o.data.base.isSlider then st.2 ++ [cs] else st.2), cs)
  initialStrain st time o := st.1 * strainDecayPP (time - prevStart ds o.data) 0.15
where
  /-- `strain_decay(ms, base) = base.powf(ms / 1000.0)` -/
  strainDecayPP (ms base : R) : R := powf base (ms / 1000.0)

/-- `Speed`: `(current_strain, current_rhythm)` -/
def speedFns (ds : List (DiffObj R)) (c : SkillCfg R) : FnsV R (DiffObj R) (R × R) where
  strainValueAt st o :=
    let cs := st.1 * aimFns.strainDecayPP o.data.strainTime 0.3
    let cs := cs + speedEvaluate ds o.data c.hitWindow c.hasAutopilot * 1.46
    let rh := rhythmEvaluate ds o.data c.hitWindow
    some ((cs, rh), cs * rh)
  initialStrain st time o := (st.1 * st.2) * aimFns.strainDecayPP (time - prevStart ds o.data) 0.3

/-- `Flashlight`: `current_strain` -/
def flashlightFns (ds : List (DiffObj R)) (c : SkillCfg R) : FnsV R (DiffObj R) R where
  strainValueAt st o :=
    let cs := st * aimFns.strainDecayPP o.data.deltaTime 0.15
    let cs := cs + flashlightEvaluate ds o.data c.hasHidden c.flScaling c.timePreempt c.timeFadeIn * 0.05512
    some (cs, cs)
  initialStrain st time o := st * aimFns.strainDecayPP (time - prevStart ds o.data) 0.15

/-- `SECTION_LENGTH = 400` -/
def secArith : SecArith R where
  ceilSec t := ceil (t / 400.0) * 400.0
  gt a b := lt b a
  addSec t := t + 400.0

/-- the four skills of `OsuSkills` -/
structure Skills (R : Type) where
  aim : StateV R (R × List R)
  aimNoSliders : StateV R (R × List R)
  speed : StateV R (R × R)
  flashlight : StateV R R

def Skills.init : Skills R :=
  ⟨StateV.init 0.0 (0.0, []), StateV.init 0.0 (0.0, []), StateV.init 0.0 (0.0, 0.0), StateV.init 0.0 0.0⟩

/-- `OsuSkills::process(curr, objects)` -/
def Skills.process (ds : List (DiffObj R)) (c : SkillCfg R) (fuel : Nat) (sk : Skills R) (d : DiffObj R) :
    Res (Skills R) :=
  (processV secArith fmax (aimFns ds true) fuel sk.aim (sobj d)).bind fun a =>
  (processV secArith fmax (aimFns ds false) fuel sk.aimNoSliders (sobj d)).bind fun an =>
  (processV secArith fmax (speedFns ds c) fuel sk.speed (sobj d)).bind fun sp =>
  (processV secArith fmax (flashlightFns ds c) fuel sk.flashlight (sobj d)).bind fun fl =>
  .ok ⟨a, an, sp, fl⟩

/-- `for hit_object in diff_objects.iter().take(n) { skills.process(hit_object, &diff_objects) }`: the
evaluators see the WHOLE list `ds` (speed's `next(0)`), only the processed prefix is limited -/
def Skills.processAll (ds : List (DiffObj R)) (c : SkillCfg R) (fuel : Nat) :
    Skills R → List (DiffObj R) → Res (Skills R)
  | sk, [] => .ok sk
  | sk, d :: rest => (Skills.process ds c fuel sk d).bind fun sk' => Skills.processAll ds c fuel sk' rest

/-! ## aggregation -/

/-- what `StrainsVec::push` stores: positive values (and NaN) as they are, everything else as `+0.0` -/
def pushCanonPP (x : R) : R := if lt 0.0 x || isNaN x then x else 0.0

/-- `get_current_strain_peaks(strain_peaks.clone(), current_section_peak)` as values -/
def currentPeaks {σ : Type} (st : StateV R σ) : List R := (st.peaks ++ [st.sectionPeak]).map pushCanonPP

/-- `Model/Aggregate.lean` on values of type `R` (`total_cmp` on stored peaks — non-negative, `+0.0`
canonical — is `≤`) -/
def aggOpsPP : Rosu.Agg.Ops R where
  zero := 0.0
  one := 1.0
  add := (· + ·)
  mul := (· * ·)
  nonZero x := !(beq x 0.0)
  ge a b := le b a
  pos x := lt 0.0 x

/-- `strain.rs`'s own `lerp(start, end, amount) = start + (end - start) * amount` -/
def lerpSE (start stop amount : R) : R := start + (stop - start) * amount

/-- `lerp(baseline, 1.0, log10(lerp(1.0, 10.0, f64::from((i as f32 / k as f32).clamp(0.0, 1.0)))))` -/
def reducedFactor (k : Nat) (i : Nat) : R :=
  let q : R := r32 (ofNat i / ofNat k)
  let q : R := if lt q 0.0 then 0.0 else if lt 1.0 q then 1.0 else q
  let scale := log10 (lerpSE 1.0 10.0 q)
  lerpSE 0.75 1.0 scale

/-- `OsuStrainSkill::difficulty_value` with `REDUCED_SECTION_COUNT = k`, baseline 0.75, decay 0.9 -/
def osuSkillDV {σ : Type} (k : Nat) (st : StateV R σ) : R :=
  Rosu.Agg.osuDifficultyValue aggOpsPP (reducedFactor k) k 0.9 (currentPeaks st)

/-- `Flashlight::difficulty_value = StrainsVec::sum` (`Iterator::sum` starts from `-0.0`) -/
def flashlightDV {σ : Type} (st : StateV R σ) : R :=
  Rosu.Agg.flashlightValue aggOpsPP (-(0.0 : R)) (currentPeaks st)

/-- `count_top_weighted_strains(object_strains, difficulty_value)` -/
def countTopWeighted (objectStrains : List R) (dv : R) : R :=
  if objectStrains.isEmpty then 0.0
  else
    let top := dv / 10.0
    if PerfCalc.floatEq top 0.0 then ofNat objectStrains.length
    else
      objectStrains.foldl (fun acc s => acc + 1.1 / (1.0 + exp (-10.0 * (s / top - 0.88)))) (-(0.0 : R))

/-- `Speed::relevant_note_count` -/
def relevantNoteCount (objectStrains : List R) : R :=
  match objectStrains with
  | [] => 0.0
  | x :: xs =>
    let m := xs.foldl (fun acc s => if lt s acc then acc else s) x
    if lt 0.0 m then
      objectStrains.foldl (fun sum s => sum + 1.0 / (1.0 + exp (-(s / m * 12.0 - 6.0)))) 0.0
    else 0.0

/-- `Aim::get_difficult_sliders` -/
def difficultSliders (sliderStrains : List R) : R :=
  if sliderStrains.isEmpty then 0.0
  else
    let m := sliderStrains.foldl (fun acc s => fmax acc s) 0.0
    if PerfCalc.floatEq m 0.0 then 0.0
    else sliderStrains.foldl (fun acc s => acc + 1.0 / (1.0 + exp (-(s / m * 12.0 - 6.0)))) (-(0.0 : R))

/-! ## attributes -/

/-- `OsuDifficultyAttributes` -/
structure Attrs (R : Type) where
  aim : R
  aimDifficultSliderCount : R
  speed : R
  flashlight : R
  sliderFactor : R
  speedNoteCount : R
  aimDifficultStrainCount : R
  speedDifficultStrainCount : R
  ar : R
  greatHitWindow : R
  okHitWindow : R
  mehHitWindow : R
  hp : R
  nCircles : Nat
  nSliders : Nat
  nLargeTicks : Nat
  nSpinners : Nat
  stars : R
  maxCombo : Nat

/-- the settings `OsuDifficultySetup::new` / `DifficultyValues::calculate` / `eval` read -/
structure Settings (R : Type) where
  cs : R
  /-- `map_attrs.hit_windows.ar` -/
  arWindow : R
  ar : R
  hp : R
  odGreat : R
  odOk : R
  odMeh : R
  clockRate : R
  stackLeniency : R
  version : Nat
  /-- 0 none, 1 vertical, 2 horizontal, 3 both -/
  reflection : Nat
  mods : OsuEvalMods
  hd : Bool

/-- `DifficultyValues::eval(&mut attrs, mods, &skills)` on the setup attributes + counts -/
def evalAttrs (st : Settings R) (c : Counts) (sk : Skills R) : Attrs R :=
  let aimDV := osuSkillDV 10 sk.aim
  let aimNsDV := osuSkillDV 10 sk.aimNoSliders
  let speedDV := osuSkillDV 5 sk.speed
  let flDV := flashlightDV sk.flashlight
  let e := osuEval st.mods aimDV aimNsDV speedDV flDV
  { aim := e.aim, aimDifficultSliderCount := difficultSliders sk.aim.sk.2, speed := e.speed,
    flashlight := e.flashlight, sliderFactor := e.sliderFactor,
    speedNoteCount := relevantNoteCount sk.speed.objectStrains,
    aimDifficultStrainCount := countTopWeighted sk.aim.objectStrains aimDV,
    speedDifficultStrainCount := countTopWeighted sk.speed.objectStrains speedDV,
    ar := st.ar, greatHitWindow := st.odGreat, okHitWindow := st.odOk, mehHitWindow := st.odMeh, hp := st.hp,
    nCircles := c.nCircles, nSliders := c.nSliders, nLargeTicks := c.nLargeTicks, nSpinners := c.nSpinners,
    stars := e.stars, maxCombo := c.maxCombo }

end skills

/-! ## the two calculators -/

section calcs
variable [PPOps R]

/-- everything both calculators build before looking at `take`: converted objects (with a `take` for the
counts), the difficulty objects of the WHOLE map, the skill configuration -/
structure Prepared (R S : Type) where
  objs : List (Obj R S)
  counts : Counts
  diffObjs : List (DiffObj R)
  cfg : SkillCfg R

def prepareAll (A : Ar R S) (st : Settings R) (take : Nat) (raw : List (Obj R S)) : Res (Prepared R S) :=
  match Rosu.ConvOsu.prepare A st.cs st.arWindow st.clockRate st.stackLeniency st.reflection st.version take raw with
  | none => .panic
  | some (os, c, sc, tp) =>
    .ok ⟨os, c, createDiffObjs (os.map (toRaw A)) st.clockRate (A.toR sc.factor),
         skillCfg st.odGreat sc.radius tp st.hd st.mods.ap⟩

def ofOutcome {α : Type} : Outcome α → Res α
  | .ok a => .ok a
  | .clampPanic => .panic
  | .outOfFuel => .fuel

/-- **`osu::difficulty::difficulty`** from decoded objects with `passed_objects = take`:
`create_difficulty_objects` returns nothing for `take = 0`; the skills process
`diff_objects.iter().take(min(len, take) − 1)` -/
def osuDifficulty (A : Ar R S) (E : Rosu.SliderEvents.Arith R) (fuel : Nat) (st : Settings R) (take : Nat)
    (objs : List (PObj R S)) : Res (Attrs R) :=
  (ofOutcome (newObjs A E fuel objs)).bind fun raw =>
  (prepareAll A st take raw).bind fun p =>
    let ds := if take = 0 then [] else p.diffObjs
    (Skills.processAll ds p.cfg fuel Skills.init (ds.take (min objs.length take - 1))).bind fun sk =>
      .ok (evalAttrs st p.counts sk)

/-- the attributes after the `i`-th `next()` (`i ≥ 1`) of `OsuGradualDifficulty`: counts of the first `i`
objects (`increment_combo`), skills over `diff_objects[0 .. i − 1]` of the whole map; `none` = the
iterator is exhausted -/
def osuGradualValue (A : Ar R S) (E : Rosu.SliderEvents.Arith R) (fuel : Nat) (st : Settings R) (i : Nat)
    (objs : List (PObj R S)) : Res (Option (Attrs R)) :=
  (ofOutcome (newObjs A E fuel objs)).bind fun raw =>
  (prepareAll A st raw.length raw).bind fun p =>
    if i = 0 ∨ objs.length < i then .ok none
    else
      (Skills.processAll p.diffObjs p.cfg fuel Skills.init (p.diffObjs.take (i - 1))).bind fun sk =>
        .ok (some (evalAttrs st (Rosu.ConvOsu.countTake i raw Counts.zero) sk))

end calcs

end Rosu.PipelineOsu
