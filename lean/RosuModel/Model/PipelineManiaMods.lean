import RosuModel.Model.PipelineManiaConvert

/-
Native osu!mania END TO END with the two object-changing lazer mods: `HoldOff` and `Invert`
(`mania::difficulty::difficulty`: `if mods.ho() { apply_hold_off_to_beatmap }`, then
`if mods.invert() { apply_invert_to_beatmap }`, both on the decoded map before `ManiaObject::new`).
The two functions are worker MANIA's `applyHoldOff` / `applyInvert` (Model/PipelineManiaConvert.lean,
written for the converted map); here they are fed the decoded objects of a NATIVE mania file:
circle → `dur = none`, hold line → `dur = some duration`.  A spinner or slider line has no
counterpart in `HitObj` (HoldOff drops it, Invert ignores it but may read its position through
`column_buf[0]`): such files answer `unsupported` when one of the two mods is on.  Core Lean only.
-/

namespace Rosu.PipelineManiaMods
open Rosu.SkillOps Rosu.DecodeLine Rosu.Decode Rosu.PipelineMania Rosu.PipelineManiaConvert

section
variable {R S : Type} [FOps R] [FOps S] (P : PrepOps R S)

/-- decoded objects as `HitObj`s; `none` = a slider or spinner line -/
def toHitObjs : List HObj → Option (List (HitObj R S))
  | [] => some []
  | h :: t =>
    match h.kind, toHitObjs t with
    | .circle, some l => some (⟨P.ofI32 h.x, P.dec64 h.time, none⟩ :: l)
    | .hold d, some l => some (⟨P.ofI32 h.x, P.dec64 h.time, some (P.dec64 d)⟩ :: l)
    | _, _ => none

/-- the prepared objects of a native mania file with HoldOff / Invert -/
def preparedOfMods (d : Decoded) (holdOff invert : Bool) : PipelineMania.Out (List (Prepared R) × Nat) :=
  if d.mode ≠ 3 then .notMania d.mode
  else
    match d.objects with
    | none => .panic
    | some (objs, _) =>
      match toHitObjs P (objs.map (·.2)) with
      | none => .unsupported
      | some hits =>
        let cs := P.dec32 (unkey32 d.diff.cs)
        let hits := if holdOff then applyHoldOff hits else hits
        let pts := d.cps.timing.map fun p => (P.dec64 (unkey64 p.1), P.dec64 p.2)
        match (if invert then applyInvert P pts cs (P.toUsize cs) hits else some hits) with
        | none => .panic
        | some hits =>
          let total := totalColumns P cs
          .ok (hits.map (prepareHit P total), P.toUsize total)

/-- `Difficulty::new().mods(lazer {HO, IN})[.clock_rate(x)][.passed_objects(take)]` on a native file -/
def maniaDifficultyMods (A : SecArith R) (fuel : Nat) (bytes : List UInt8) (holdOff invert : Bool)
    (customRate : Option Nat) (take : Option Nat) : PipelineMania.Out (Attrs R) :=
  match fromBytes bytes with
  | none => .ioError
  | some d =>
    match preparedOfMods P d holdOff invert with
    | .ok (l, cols) =>
      oneShot A fuel (P.dec64 (clockRateBits 0 customRate)) cols (take.getD (2 ^ 64 - 1)) l
    | .ioError => .ioError
    | .notMania m => .notMania m
    | .unsupported => .unsupported
    | .panic => .panic
    | .fuel => .fuel

end

end Rosu.PipelineManiaMods
