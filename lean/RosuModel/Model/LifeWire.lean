import RosuModel.Model.GradualWire
import RosuModel.Model.Lifetime

/-
Driver glue for C11 (b): lifetime histories.

`LIFE <mode> <objs> <sig> <history>` — `<mode> <objs> <sig>` as in `GRAD`; `<history>` is a
comma-separated list of
  c        construct a new calculator (instances are numbered in order of construction)
  m<i>     move instance i (into a Box and out again / through a by-value call / through a Vec)
  N<i>     next            T<k>.<i>   nth(k)          L<i>   len
  d<i>     drop instance i
The response has one token per operation: `C`, `M`, `D`, or the `GRAD` observation of the
`Model/Gradual.lean` machine of that instance (`S:…`, `N`, `P`, `L<n>`, `LU`), then
`live=<i+j+…|->`.  In lockstep the pointer-discipline model `Model/Lifetime.lean` executes the same
history (layout of the mode's calculator struct); a fault of that model prints `FAULT:<kind>` —
which the implementation never prints — and stops.  An operation addressed to an instance that
does not exist or was dropped prints `X` (the harness never generates one: Rust's ownership rules
make it inexpressible).
-/
namespace Rosu.Lifetime
open Rosu.Wire Rosu.Gradual

inductive HOp where
  | construct
  | move (i : Nat)
  | call (i : Nat) (o : Gradual.Op)
  | drop (i : Nat)
  | bad

def parseHOp (t : String) : HOp :=
  if t == "c" then .construct
  else if t.startsWith "m" then .move (nat! (t.drop 1).toString)
  else if t.startsWith "d" then .drop (nat! (t.drop 1).toString)
  else if t.startsWith "N" then .call (nat! (t.drop 1).toString) .next
  else if t.startsWith "L" then .call (nat! (t.drop 1).toString) .len
  else if t.startsWith "T" then
    match ((t.drop 1).toString).splitOn "." with
    | [k, i] => .call (nat! i) (.nth (nat! k))
    | _ => .bad
  else .bad

def faultName : Fault → String
  | .outOfHeap => "out-of-heap" | .useAfterFree => "use-after-free"
  | .staleGeneration => "stale-generation" | .doubleFree => "double-free"
  | .writeWhileFrozen => "write-while-frozen" | .unknownShape => "unknown-shape"

def heapOpOf (i : Nat) : Gradual.Op → Lifetime.Op
  | .next => .next i
  | .nth k => .nth i k
  | .len => .len i

def setAt {α} (l : List α) (i : Nat) (a : α) : List α := l.set i a

/-- Runs a history: per-instance value machines + the shared heap model. -/
def runLife {St V} (m : Machine St V) (init : St) (sh : Out V → String) (l : Layout) (nPtrs : Nat) :
    World → List (Option St) → Nat → List HOp → List String
  | w, sts, _, [] =>
    let live := (List.range sts.length).filter fun i => (sts.getD i none).isSome
    let heapLive := liveInsts w
    -- the two models must agree on which instances are live
    [if live == heapLive then
        "live=" ++ (if live.isEmpty then "-" else "+".intercalate (live.map toString))
      else "MODEL-MISMATCH"]
  | w, sts, moves, op :: ops =>
    match op with
    | .bad => ["bad-history"]
    | .construct =>
      match step w (.construct l nPtrs) with
      | .error f => ["FAULT:" ++ faultName f]
      | .ok w' => "C" :: runLife m init sh l nPtrs w' (sts ++ [some init]) moves ops
    | .move i =>
      match sts.getD i none with
      | none => "X" :: runLife m init sh l nPtrs w sts moves ops
      | some _ =>
        match step w (.moveStruct i (moves + 1)) with
        | .error f => ["FAULT:" ++ faultName f]
        | .ok w' => "M" :: runLife m init sh l nPtrs w' sts (moves + 1) ops
    | .drop i =>
      match sts.getD i none with
      | none => "X" :: runLife m init sh l nPtrs w sts moves ops
      | some _ =>
        match step w (.dropStruct i) with
        | .error f => ["FAULT:" ++ faultName f]
        | .ok w' => "D" :: runLife m init sh l nPtrs w' (setAt sts i none) moves ops
    | .call i o =>
      match sts.getD i none with
      | none => "X" :: runLife m init sh l nPtrs w sts moves ops
      | some st =>
        match step w (heapOpOf i o) with
        | .error f => ["FAULT:" ++ faultName f]
        | .ok w' =>
          let r := m.step st o
          sh r.1 :: runLife m init sh l nPtrs w' (setAt sts i (some r.2)) moves ops

/-- `LIFE <mode> <objs> <sig> <history>` -/
def handleLife (mode objs sig hist : String) : String :=
  let sig := natList sig
  let ops := (splitList hist ",").map parseHOp
  if mode == "osu" then
    let objs := parseOsuObjs objs
    let sg := sigOf sig (fun j => (osuOneShot drvSkills objs j).2.1)
    joinWith " " (runLife (osuMachine drvSkills objs) (osuNew drvSkills objs)
      (showOut fun v => showOsuCounts v.1 ++ ":" ++ sg v.2) osuLayout (objs.length - 1) World.empty [] 0 ops)
  else if mode == "taiko" then
    let objs := parseBools objs
    let sg := sigOf sig (fun j => (taikoOneShot drvSkills objs j).2.1)
    joinWith " " (runLife (taikoMachine drvSkills objs) (taikoNew drvSkills objs)
      (showOut fun v => toString v.1 ++ ":" ++ sg v.2) taikoLayout 2 World.empty [] 0 ops)
  else if mode == "catch" then
    let recs := parseCatchRecs objs
    let evs := catchEventsOfRecs recs
    let sg := sigOf sig (fun j => (catchOneShot drvSkills evs j).2.1)
    joinWith " " (runLife (catchMachine drvSkills recs (recs.length - 1)) (catchNew drvSkills)
      (showOut fun v => showCatchCounts v.1 ++ ":" ++ sg v.2) plainLayout 0 World.empty [] 0 ops)
  else if mode == "mania" then
    let objs := parseManiaObjs objs
    let sg := sigOf sig (fun j => (maniaOneShot drvSkills objs j).2.1)
    joinWith " " (runLife (maniaMachine drvSkills objs) (maniaNew drvSkills objs)
      (showOut fun v => showManiaCounts v.1 ++ ":" ++ sg v.2) plainLayout 0 World.empty [] 0 ops)
  else "bad-mode"

end Rosu.Lifetime
