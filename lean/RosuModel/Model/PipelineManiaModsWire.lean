import RosuModel.Model.PipelineManiaMods
import RosuModel.Model.PipelineWire

/-
`PIPE maniax <file bytes, hex> <holdoff 0/1><invert 0/1> <custom clock rate bits|-> <passed_objects|->`
→ as `PIPE mania` (stars, counts, is_convert, and the gradual values when no `passed_objects` is given).
-/
namespace Rosu.PipelineManiaMods
open Rosu.Wire Rosu.SkillOps Rosu.StrainsWire Rosu.SkillWire Rosu.PipelineMania Rosu.PipelineWire

def handlePIPEx (bytes flags rate take : String) : String :=
  let A := secArith 400.0
  let bs := hexBytes bytes
  let ho := StarsWire.flag flags 0
  let inv := StarsWire.flag flags 1
  let custom := if rate == "-" then none else some (hexToNat rate)
  let tk := if take == "-" then none else some (nat! take)
  let one := maniaDifficultyMods ieeePrep A driverFuel bs ho inv custom tk
  let grad :=
    if take != "-" then ""
    else match Rosu.DecodeLine.fromBytes bs with
      | none => ""
      | some d =>
        match preparedOfMods ieeePrep d ho inv with
        | .ok (l, cols) =>
          let vals := gradualValues A driverFuel (fOf (clockRateBits 0 custom)) cols l
          " G" ++ SliderEvents.showLong (vals.map showStep)
        | _ => ""
  showOut one ++ grad

end Rosu.PipelineManiaMods
