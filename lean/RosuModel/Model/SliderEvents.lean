import RosuModel.Model.Gradual

/-
Executable model of nested-object generation (core Lean only):

* `SliderEventsIter::{new, next}`, `generate_ticks`, `new_repeat_point`
      — rosu-map 0.2.1, src/section/hit_objects/slider/event.rs
* `OsuSlider::new` (velocity / tick distance / span duration, which events become nested objects,
  the recomputed repeat time, `large_tick_count`, the nested count)      — /repo/src/osu/object.rs
* `JuiceStream::new` (same parameters, the two tiny-droplet loops, the `record_*` calls)
      — /repo/src/catch/object/juice_stream.rs
* `get_precision_adjusted_beat_len`                                      — /repo/src/util/mod.rs

The arithmetic is a parameter (`Arith F`): statement by statement the same operations in the same
order as the Rust code.  `ratArith` instantiates it with exact rationals (what the theorems of
`Props/C14b.lean` / `Props/C05c.lean` are about where they need an ordered field); the driver
instantiates it with IEEE doubles (`Model/SliderEventsWire.lean`), which replays the `f64`
computation bit for bit.  Structure theorems (which kinds in which order, how many) are proved for
EVERY arithmetic, hence in particular for the `Float` instance that is tied to the code.
-/
namespace Rosu.SliderEvents

open Rosu.Gradual (CatchEvent)

/-- The operations the three functions perform on `f64` values. -/
structure Arith (F : Type) where
  /-- `f64::from(i32)`, `usize as f64`, literals -/
  ofInt : Int → F
  neg : F → F
  add : F → F → F
  sub : F → F → F
  mul : F → F → F
  div : F → F → F
  /-- `f64::min` (a NaN argument is ignored) -/
  min : F → F → F
  /-- `f64::max` (a NaN argument is ignored) -/
  max : F → F → F
  /-- `<` (`a > b` is `lt b a`) -/
  lt : F → F → Bool
  /-- `<=` (`a >= b` is `le b a`) -/
  le : F → F → Bool
  /-- `x as i32`: truncation toward zero, saturating, NaN ↦ 0 -/
  toI32 : F → Int
  /-- `f64::from((x as f32).clamp(10.0, 10_000.0))` -/
  clampF32 : F → F
  /-- `f64::INFINITY` -/
  inf : F

variable {F : Type}

/-! ## `SliderEventsIter` -/

inductive Kind where
  | head | tick | rep | lastTick | tail
deriving Repr, DecidableEq

/-- `SliderEvent`. -/
structure Event (F : Type) where
  kind : Kind
  /-- `span_idx: i32` (−1 for the last tick / tail of a slider without spans) -/
  span : Int
  spanStart : F
  time : F
  progress : F

/-- The fields of `SliderEventsIter` after `new` (without the buffer and the state). -/
structure Iter (F : Type) where
  start : F
  spanDur : F
  minDistFromEnd : F
  tickDist : F
  len : F
  /-- `span_count: i32`; the model covers `span_count ≥ 0` (the decoder yields `1 ..= 9001`) -/
  spanCount : Nat

/-- `f64::clamp(self, min, max)`: `assert!(min <= max)` (`none` = that panic), then
`if self < min { self = min } if self > max { self = max }`. -/
def clamp (A : Arith F) (x lo hi : F) : Option F :=
  if A.le lo hi then
    let x := if A.lt x lo then lo else x
    some (if A.lt hi x then hi else x)
  else none

/-- `SliderEventsIter::new`; `none` = the `clamp` assertion fails (`len < 0` or NaN). -/
def Iter.new (A : Arith F) (start spanDur velocity tickDist totalDist : F) (spanCount : Nat) :
    Option (Iter F) :=
  let len := A.min (A.ofInt 100000) totalDist               -- `Self::MAX_LEN.min(total_dist)`
  match clamp A tickDist (A.ofInt 0) len with
  | none => none
  | some td =>
    some { start := start, spanDur := spanDur, minDistFromEnd := A.mul velocity (A.ofInt 10),
           tickDist := td, len := len, spanCount := spanCount }

/--
```text
while d <= iter.len {
    if d >= iter.len - iter.min_dist_from_end { break; }
    push(tick at d);
    d += iter.tick_dist;
}
```
Returns the `d` of every pushed tick, in push order; `none` = out of fuel (first argument). -/
def tickDists (A : Arith F) (it : Iter F) : Nat → F → Option (List F)
  | 0, _ => none
  | fuel + 1, d =>
    if A.le d it.len then
      if A.le (A.sub it.len it.minDistFromEnd) d then some []
      else
        match tickDists A it fuel (A.add d it.tickDist) with
        | none => none
        | some l => some (d :: l)
    else some []

/-- `let mut d = iter.tick_dist; if d > 0.0 { while … }`. -/
def spanTickDists (A : Arith F) (it : Iter F) (fuel : Nat) : Option (List F) :=
  if A.lt (A.ofInt 0) it.tickDist then tickDists A it fuel it.tickDist else some []

/-- `span_start_time = iter.start_time + f64::from(span) * iter.span_duration`. -/
def spanStartTime (A : Arith F) (it : Iter F) (span : Int) : F :=
  A.add it.start (A.mul (A.ofInt span) it.spanDur)

/-- `new_repeat_point`. -/
def repeatPoint (A : Arith F) (span : Int) (spanStart spanDur : F) : Event F :=
  { kind := .rep, span := span, spanStart := spanStart, time := A.add spanStart spanDur,
    progress := A.ofInt ((span + 1) % 2) }

/-- The tick pushed at distance `d` in span `span`. -/
def tickEvent (A : Arith F) (it : Iter F) (span : Nat) (d : F) : Event F :=
  let reversed := span % 2 == 1
  let spanStart := spanStartTime A it span
  let pathProgress := A.div d it.len
  let timeProgress := if reversed then A.sub (A.ofInt 1) pathProgress else pathProgress
  { kind := .tick, span := span, spanStart := spanStart,
    time := A.add spanStart (A.mul timeProgress it.spanDur), progress := pathProgress }

/-- `generate_ticks(iter, span)`: the content of the `ticks` buffer afterwards (a `Vec`: push =
append at the end; the iterator then pops from the end). `none` = out of fuel. -/
def generateTicks (A : Arith F) (it : Iter F) (fuel : Nat) (span : Nat) : Option (List (Event F)) :=
  let reversed := span % 2 == 1
  let spanStart := spanStartTime A it span
  let withRepeat := decide ((span : Int) < (it.spanCount : Int) - 1)
  let rep := repeatPoint A span spanStart it.spanDur
  let buf0 : List (Event F) := if reversed && withRepeat then [rep] else []
  match spanTickDists A it fuel with
  | none => none
  | some ds =>
    let buf1 := buf0 ++ ds.map (tickEvent A it span)
    -- "We pop from the back so we want to double-reverse"
    if !reversed then
      let buf2 := if withRepeat then buf1 ++ [rep] else buf1
      some buf2.reverse
    else some buf1

/-- The events the `Ticks { span }` state yields for one span: the buffer popped from the back. -/
def spanEvents (A : Arith F) (it : Iter F) (fuel : Nat) (span : Nat) : Option (List (Event F)) :=
  (generateTicks A it fuel span).map List.reverse

/-- All spans `from, from+1, …, from+n−1` in order (the buffer is empty whenever
`generate_ticks` is called, so the emitted sequence is the concatenation). -/
def spansEvents (A : Arith F) (it : Iter F) (fuel : Nat) : (n from_ : Nat) → Option (List (Event F))
  | 0, _ => some []
  | n + 1, s =>
    match spanEvents A it fuel s, spansEvents A it fuel n (s + 1) with
    | some a, some b => some (a ++ b)
    | _, _ => none

def headEvent (A : Arith F) (it : Iter F) : Event F :=
  { kind := .head, span := 0, spanStart := it.start, time := it.start, progress := A.ofInt 0 }

/-- The `LastTick` state (legacy last tick, `TAIL_LENIENCY = -36`). -/
def lastTickEvent (A : Arith F) (it : Iter F) : Event F :=
  let totalDuration := A.mul (A.ofInt it.spanCount) it.spanDur
  let finalSpanIdx : Int := (it.spanCount : Int) - 1
  let finalSpanStart := A.add it.start (A.mul (A.ofInt finalSpanIdx) it.spanDur)
  let lastTickTime :=
    A.max (A.add it.start (A.div totalDuration (A.ofInt 2)))
      (A.add (A.add finalSpanStart it.spanDur) (A.ofInt (-36)))
  let p := A.div (A.sub lastTickTime finalSpanStart) it.spanDur
  let p := if it.spanCount % 2 == 0 then A.sub (A.ofInt 1) p else p
  { kind := .lastTick, span := finalSpanIdx, spanStart := finalSpanStart, time := lastTickTime,
    progress := p }

/-- The `Tail` state. -/
def tailEvent (A : Arith F) (it : Iter F) : Event F :=
  let totalDuration := A.mul (A.ofInt it.spanCount) it.spanDur
  let finalSpanIdx : Int := (it.spanCount : Int) - 1
  { kind := .tail, span := finalSpanIdx,
    spanStart := A.add it.start (A.mul (A.ofInt finalSpanIdx) it.spanDur),
    time := A.add it.start totalDuration, progress := A.ofInt ((it.spanCount : Int) % 2) }

/-- Everything the iterator yields until `Done`; `none` = out of fuel in some tick loop. -/
def Iter.events (A : Arith F) (it : Iter F) (fuel : Nat) : Option (List (Event F)) :=
  match spansEvents A it fuel it.spanCount 0 with
  | none => none
  | some mid => some (headEvent A it :: (mid ++ [lastTickEvent A it, tailEvent A it]))

/-- Outcome of `SliderEventsIter::new(..).collect()`. -/
inductive Outcome (α : Type) where
  | ok (a : α)
  /-- `assert!(min <= max)` of `f64::clamp` -/
  | clampPanic
  | outOfFuel
deriving DecidableEq

def sliderEvents (A : Arith F) (fuel : Nat) (start spanDur velocity tickDist totalDist : F)
    (spanCount : Nat) : Outcome (List (Event F)) :=
  match Iter.new A start spanDur velocity tickDist totalDist spanCount with
  | none => .clampPanic
  | some it =>
    match it.events A fuel with
    | none => .outOfFuel
    | some l => .ok l

/-! ## parameters computed by `OsuSlider::new` and `JuiceStream::new` -/

/-- What both constructors read of the map and of the slider. -/
structure SliderIn (F : Type) where
  version : Nat
  sliderMultiplier : F
  tickRate : F
  start : F
  /-- `timing_point_at(start).map_or(DEFAULT_BEAT_LEN, |p| p.beat_len)` -/
  beatLen : F
  /-- `difficulty_point_at(start)`: `slider_velocity` / `generate_ticks` (or the defaults) -/
  sv : F
  generateTicks : Bool
  /-- `path.dist()` -/
  dist : F
  /-- `slider.span_count()` -/
  spans : Nat

/-- `get_precision_adjusted_beat_len(slider_velocity_multiplier, beat_len)`. -/
def precisionAdjustedBeatLen (A : Arith F) (sv beatLen : F) : F :=
  let svAsBeatLen := A.div (A.ofInt (-100)) sv
  let bpmMultiplier :=
    if A.lt svAsBeatLen (A.ofInt 0) then
      A.div (A.clampF32 (A.neg svAsBeatLen)) (A.ofInt 100)
    else A.ofInt 1
  A.mul beatLen bpmMultiplier

/-- The arguments handed to `SliderEventsIter::new`, plus `end_time`. -/
structure Params (F : Type) where
  start : F
  spanDur : F
  velocity : F
  tickDist : F
  totalDist : F
  spanCount : Nat
  /-- osu!: `end_time`; catch: unused (`start + duration` is never formed) -/
  endTime : F

/-- `OsuSlider::new` up to the construction of the iterator. -/
def osuParams (A : Arith F) (s : SliderIn F) : Params F :=
  let spanCount := A.ofInt s.spans
  let velocity := A.div (A.mul (A.ofInt 100) s.sliderMultiplier)
    (precisionAdjustedBeatLen A s.sv s.beatLen)
  let scoringDist := A.mul velocity s.beatLen
  let endTime := A.add s.start (A.div (A.mul spanCount s.dist) velocity)
  let duration := A.sub endTime s.start
  let spanDuration := A.div duration spanCount
  let mult := if s.version < 8 then A.div (A.ofInt 1) s.sv else A.ofInt 1
  let tickDist := if s.generateTicks then A.mul (A.div scoringDist s.tickRate) mult else A.inf
  { start := s.start, spanDur := spanDuration, velocity := velocity, tickDist := tickDist,
    totalDist := s.dist, spanCount := s.spans, endTime := endTime }

/-- `JuiceStream::new` up to the construction of the iterator (`generate_ticks` is not read). -/
def catchParams (A : Arith F) (s : SliderIn F) : Params F :=
  let velocity := A.div (A.mul (A.ofInt 100) s.sliderMultiplier)
    (precisionAdjustedBeatLen A s.sv s.beatLen)
  let scoringDist := A.mul velocity s.beatLen
  let mult := if s.version < 8 then A.div (A.ofInt 1) s.sv else A.ofInt 1
  let tickDist := A.mul (A.div scoringDist s.tickRate) mult
  let spanCount := A.ofInt s.spans
  let duration := A.div (A.mul spanCount s.dist) velocity
  let spanDuration := A.div duration spanCount
  { start := s.start, spanDur := spanDuration, velocity := velocity, tickDist := tickDist,
    totalDist := s.dist, spanCount := s.spans, endTime := A.add s.start duration }

def Params.events (A : Arith F) (fuel : Nat) (p : Params F) : Outcome (List (Event F)) :=
  sliderEvents A fuel p.start p.spanDur p.velocity p.tickDist p.totalDist p.spanCount

/-! ## `OsuSlider::new`: events → nested objects -/

inductive NestedKind where
  | rep | tail | tick
deriving Repr, DecidableEq

/-- `NestedSliderObject` without its position. -/
structure Nested (F : Type) where
  kind : NestedKind
  time : F

/-- The `filter_map` closure: ticks and tails keep the event time, a repeat gets
`start_time + f64::from(e.span_idx + 1) * span_duration`, head and legacy last tick are dropped. -/
def osuNestedOf (A : Arith F) (p : Params F) (e : Event F) : Option (Nested F) :=
  match e.kind with
  | .tick => some ⟨.tick, e.time⟩
  | .rep => some ⟨.rep, A.add p.start (A.mul (A.ofInt (e.span + 1)) p.spanDur)⟩
  | .tail => some ⟨.tail, e.time⟩
  | .head | .lastTick => none

/-- Nested objects in generation order (before `sort::csharp` by `start_time.total_cmp`). -/
def osuNested (A : Arith F) (p : Params F) (evs : List (Event F)) : List (Nested F) :=
  evs.filterMap (osuNestedOf A p)

/-- `large_tick_count()`: ticks and repeats. -/
def largeTickCount (l : List (Nested F)) : Nat :=
  (l.filter fun n => match n.kind with | .tick | .rep => true | .tail => false).length

/-- The descriptor the counting model (`Model/Gradual.lean`) consumes for a slider: sorting and the
`rotate_left` of `lazy_travel_time` permute the nested objects, so counts can be read off here. -/
def osuSliderObj (A : Arith F) (p : Params F) (evs : List (Event F)) : Rosu.Gradual.OsuObj :=
  let n := osuNested A p evs
  { kind := .slider, largeTicks := largeTickCount n, nested := n.length }

/-! ## `JuiceStream::new`: events → `record_*` calls -/

/-- `i32` subtraction as compiled in release builds (wrapping). -/
def i32Wrap (x : Int) : Int := (x + 2147483648) % 4294967296 - 2147483648

/-- With overflow checks `a - b` panics exactly when this is `true`. -/
def i32SubOverflows (a b : Int) : Bool := decide (a - b < -2147483648 ∨ 2147483647 < a - b)

/-- `while time_between_tiny > 100.0 { time_between_tiny /= 2.0 }`; `none` = out of fuel. -/
def halveLoop (A : Arith F) : Nat → F → Option F
  | 0, _ => none
  | fuel + 1, t => if A.lt (A.ofInt 100) t then halveLoop A fuel (A.div t (A.ofInt 2)) else some t

/-- `while t < since_last_tick { tiny_droplets += 1; t += time_between_tiny }`; `none` = out of fuel. -/
def tinyLoop (A : Arith F) (since tbt : F) : Nat → F → Nat → Option Nat
  | 0, _, _ => none
  | fuel + 1, t, n => if A.lt t since then tinyLoop A since tbt fuel (A.add t tbt) (n + 1) else some n

/-- Tiny droplets between two consecutive events, from `since_last_tick`. -/
def tinyDroplets (A : Arith F) (fuel : Nat) (since : F) : Option Nat :=
  if A.lt (A.ofInt 80) since then
    match halveLoop A fuel since with
    | none => none
    | some tbt => tinyLoop A since tbt fuel tbt 0
  else some 0

/-- `f64::from(e.time as i32 - last_event_time as i32)` (release: wrapping). -/
def sinceLastTick (A : Arith F) (time last : F) : F :=
  A.ofInt (i32Wrap (A.toI32 time - A.toI32 last))

/-- The `record_*` call for the event itself. -/
def recordOf : Kind → List CatchEvent
  | .tick => [.droplet]
  | .head | .rep | .tail => [.fruit]
  | .lastTick => []

/-- The `for e in events` loop: the sequence of `record_tiny_droplets(n)` / `record_droplet()` /
`record_fruit()` calls. `last` is `last_event_time`. `none` = out of fuel. -/
def juiceRecords (A : Arith F) (fuel : Nat) : Option F → List (Event F) → Option (List CatchEvent)
  | _, [] => some []
  | last, e :: es =>
    let tiny : Option (List CatchEvent) :=
      match last with
      | none => some []
      | some l =>
        match tinyDroplets A fuel (sinceLastTick A e.time l) with
        | none => none
        | some n => some [.tiny n]
    match tiny, juiceRecords A fuel (some e.time) es with
    | some t, some rest => some (t ++ recordOf e.kind ++ rest)
    | _, _ => none

/-- Does some `e.time as i32 - last_event_time as i32` overflow (panic with overflow checks)? -/
def juiceOverflows (A : Arith F) : Option F → List (Event F) → Bool
  | _, [] => false
  | none, e :: es => juiceOverflows A (some e.time) es
  | some l, e :: es => i32SubOverflows (A.toI32 e.time) (A.toI32 l) || juiceOverflows A (some e.time) es


/-! ## whole maps: raw objects → the descriptors of the counting models (`Model/Gradual.lean`) -/

/-- What the two converters read of one hit object. -/
inductive RawObj (F : Type) where
  | circle
  /-- spinner or hold note (osu!: a spinner; catch: a banana shower, which records nothing) -/
  | spinner
  | slider (s : SliderIn F)

/-- `JuiceStream::new`: the `record_*` calls of one slider. -/
def juiceStream (A : Arith F) (fuel : Nat) (s : SliderIn F) : Outcome (List CatchEvent) :=
  match (catchParams A s).events A fuel with
  | .clampPanic => .clampPanic
  | .outOfFuel => .outOfFuel
  | .ok evs =>
    match juiceRecords A fuel none evs with
    | none => .outOfFuel
    | some r => .ok r

/-- catch `convert_objects`: the `record_*` calls of the whole map in generation order
(`Fruit::new` records one fruit, `BananaShower::new` nothing). -/
def catchMapEvents (A : Arith F) (fuel : Nat) : List (RawObj F) → Outcome (List CatchEvent)
  | [] => .ok []
  | o :: os =>
    let first : Outcome (List CatchEvent) :=
      match o with
      | .circle => .ok [.fruit]
      | .spinner => .ok []
      | .slider s => juiceStream A fuel s
    match first, catchMapEvents A fuel os with
    | .ok a, .ok b => .ok (a ++ b)
    | .clampPanic, _ => .clampPanic
    | .outOfFuel, _ => .outOfFuel
    | .ok _, .clampPanic => .clampPanic
    | .ok _, .outOfFuel => .outOfFuel

/-- `OsuObject::new` for one slider: the descriptor of the counting model. -/
def osuSlider (A : Arith F) (fuel : Nat) (s : SliderIn F) : Outcome Rosu.Gradual.OsuObj :=
  let p := osuParams A s
  match p.events A fuel with
  | .clampPanic => .clampPanic
  | .outOfFuel => .outOfFuel
  | .ok evs => .ok (osuSliderObj A p evs)

/-- osu! `convert_objects`: one descriptor per hit object. -/
def osuMapObjs (A : Arith F) (fuel : Nat) : List (RawObj F) → Outcome (List Rosu.Gradual.OsuObj)
  | [] => .ok []
  | o :: os =>
    let first : Outcome Rosu.Gradual.OsuObj :=
      match o with
      | .circle => .ok ⟨.circle, 0, 0⟩
      | .spinner => .ok ⟨.spinner, 0, 0⟩
      | .slider s => osuSlider A fuel s
    match first, osuMapObjs A fuel os with
    | .ok a, .ok b => .ok (a :: b)
    | .clampPanic, _ => .clampPanic
    | .outOfFuel, _ => .outOfFuel
    | .ok _, .clampPanic => .clampPanic
    | .ok _, .outOfFuel => .outOfFuel

/-! ## exact rational arithmetic -/

/-- `x as i32` on an exact value: truncation toward zero, saturating. -/
def ratToI32 (x : Rat) : Int :=
  let t : Int := if 0 ≤ x then x.floor else -((-x).floor)
  if t < -2147483648 then -2147483648 else if 2147483647 < t then 2147483647 else t

/-- Exact arithmetic (division by zero yields `0`; no NaN/∞: `inf` is a placeholder that the
`clamp` of `SliderEventsIter::new` replaces by `len` exactly as it does with `f64::INFINITY`
whenever `len < 10^30`; `as f32` does not round). -/
def ratArith : Arith Rat where
  ofInt n := (n : Rat)
  neg x := -x
  add x y := x + y
  sub x y := x - y
  mul x y := x * y
  div x y := x / y
  min x y := if x ≤ y then x else y
  max x y := if x ≤ y then y else x
  lt x y := decide (x < y)
  le x y := decide (x ≤ y)
  toI32 := ratToI32
  clampF32 x := if x < 10 then 10 else if 10000 < x then 10000 else x
  inf := 1000000000000000000000000000000

end Rosu.SliderEvents
