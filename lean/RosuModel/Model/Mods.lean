import RosuModel.Gen.Mods
import RosuModel.Model.Attrs

/-!
# `GameMods` accessors over the three representations (C08)

Transcribes `/repo/src/model/mods.rs` (`enum GameMods { Lazer, Intermode, Legacy }`, its
accessors and `From` impls) by *interpreting the tables of `Gen/Mods.lean`*, which
`tools/translate.py` regenerates from the source on every run, together with the pieces of
rosu-mods 0.3.1 the accessors delegate to (hand-transcribed here, cited per definition, and
checked against the real crate by the exhaustive correspondence of `harness/src/c08.rs`):

* `GameModsLegacy` constants, `from_bits`, `contains`, `clock_rate`  (rosu-mods `legacy.rs`)
* `GameModsIntermode::{from_bits, contains, checked_bits, legacy_clock_rate, with_mode}` and the
  `Ord` of `GameModIntermode` (kind, then acronym)                     (`intermode.rs`, `generated_mods.rs`)
* `GameMod::{new, clock_rate, intermode}`, `GameMods::contains_intermode`  (`generated_mods.rs`, `mod_manual.rs`)

A legacy mod set is a bitmask (`Nat`, meant `< 2^32`).  Numbers are generic: `R = Rat` in the
theorems, `R = Float` in the driver (same IEEE operations as the Rust code).  Core Lean only.
-/

namespace Rosu.Mods
open Rosu.Gen.Mods

/-! ## rosu-mods: names, bits, order -/

def bit (i : Nat) : Nat := 2 ^ i

/-- `GameModsLegacy::<name>.bits()` (rosu-mods `legacy.rs`) -/
def LName.bits : LName → Nat
  | .NoMod => 0
  | .NoFail => bit 0 | .Easy => bit 1 | .TouchDevice => bit 2 | .Hidden => bit 3
  | .HardRock => bit 4 | .SuddenDeath => bit 5 | .DoubleTime => bit 6 | .Relax => bit 7
  | .HalfTime => bit 8 | .Nightcore => bit 9 ||| bit 6 | .Flashlight => bit 10
  | .Autoplay => bit 11 | .SpunOut => bit 12 | .Autopilot => bit 13
  | .Perfect => bit 14 ||| bit 5
  | .Key4 => bit 15 | .Key5 => bit 16 | .Key6 => bit 17 | .Key7 => bit 18 | .Key8 => bit 19
  | .FadeIn => bit 20 | .Random => bit 21 | .Cinema => bit 22 | .Target => bit 23
  | .Key9 => bit 24 | .KeyCoop => bit 25 | .Key1 => bit 26 | .Key3 => bit 27 | .Key2 => bit 28
  | .ScoreV2 => bit 29 | .Mirror => bit 30

/-- `BITFLAG_MODS` of `GameModsIntermode::from_bits` (position = bit index) -/
def bitflagMods : List IMod :=
  [.NoFail, .Easy, .TouchDevice, .Hidden, .HardRock, .SuddenDeath, .DoubleTime, .Relax, .HalfTime,
   .Nightcore, .Flashlight, .Autoplay, .SpunOut, .Autopilot, .Perfect, .FourKeys, .FiveKeys,
   .SixKeys, .SevenKeys, .EightKeys, .FadeIn, .Random, .Cinema, .TargetPractice, .NineKeys,
   .DualStages, .OneKey, .ThreeKeys, .TwoKeys, .ScoreV2, .Mirror]

/-- position in `BITFLAG_MODS` -/
def IMod.idx : IMod → Option Nat
  | .NoFail => some 0 | .Easy => some 1 | .TouchDevice => some 2 | .Hidden => some 3
  | .HardRock => some 4 | .SuddenDeath => some 5 | .DoubleTime => some 6 | .Relax => some 7
  | .HalfTime => some 8 | .Nightcore => some 9 | .Flashlight => some 10 | .Autoplay => some 11
  | .SpunOut => some 12 | .Autopilot => some 13 | .Perfect => some 14 | .FourKeys => some 15
  | .FiveKeys => some 16 | .SixKeys => some 17 | .SevenKeys => some 18 | .EightKeys => some 19
  | .FadeIn => some 20 | .Random => some 21 | .Cinema => some 22 | .TargetPractice => some 23
  | .NineKeys => some 24 | .DualStages => some 25 | .OneKey => some 26 | .ThreeKeys => some 27
  | .TwoKeys => some 28 | .ScoreV2 => some 29 | .Mirror => some 30
  | _ => none

/-- `GameModIntermode::bits()` -/
def IMod.bits : IMod → Option Nat
  | .Nightcore => some (bit 9 ||| bit 6)
  | .Perfect => some (bit 14 ||| bit 5)
  | m => m.idx.map bit

def IMod.acronym : IMod → String
  | .NoFail => "NF" | .Easy => "EZ" | .TouchDevice => "TD" | .Hidden => "HD" | .HardRock => "HR"
  | .SuddenDeath => "SD" | .DoubleTime => "DT" | .Relax => "RX" | .HalfTime => "HT"
  | .Nightcore => "NC" | .Flashlight => "FL" | .Autoplay => "AT" | .SpunOut => "SO"
  | .Autopilot => "AP" | .Perfect => "PF" | .FourKeys => "4K" | .FiveKeys => "5K"
  | .SixKeys => "6K" | .SevenKeys => "7K" | .EightKeys => "8K" | .FadeIn => "FI"
  | .Random => "RD" | .Cinema => "CN" | .TargetPractice => "TP" | .NineKeys => "9K"
  | .DualStages => "DS" | .OneKey => "1K" | .ThreeKeys => "3K" | .TwoKeys => "2K"
  | .ScoreV2 => "SV2" | .Mirror => "MR" | .Daycore => "DC" | .Blinds => "BL" | .Classic => "CL"
  | .Invert => "IN" | .HoldOff => "HO" | .Traceable => "TC" | .TenKeys => "10K"
  | .DifficultyAdjust => "DA" | .Unknown => "??"

/-- Iteration order of `GameModsIntermode` (a `BTreeSet`) and of a single-mode lazer `GameMods`
(a `BTreeMap` keyed by (mode, intermode)): `GameModIntermode::cmp` = kind, then acronym.
Kinds: DifficultyReduction < DifficultyIncrease < Conversion < Automation < Fun < System. -/
def orderAll : List IMod :=
  [.Daycore, .Easy, .HalfTime, .NoFail,
   .Blinds, .DoubleTime, .FadeIn, .Flashlight, .Hidden, .HardRock, .Nightcore, .Perfect, .SuddenDeath,
   .TenKeys, .OneKey, .TwoKeys, .ThreeKeys, .FourKeys, .FiveKeys, .SixKeys, .SevenKeys, .EightKeys,
   .NineKeys, .Classic, .DifficultyAdjust, .DualStages, .HoldOff, .Invert, .Mirror, .Random,
   .TargetPractice,
   .Autopilot, .Autoplay, .Cinema, .Relax, .SpunOut,
   .Traceable,
   .ScoreV2, .TouchDevice]

/-- whether `contains_intermode(m)` finds the mod that `GameMod::new(acronym, mode)` created.
`GameMod::new` yields `Unknown…(UnknownMod { acronym })` for a mod the mode does not have; its
`intermode()` is `Unknown(acronym)`, of kind `System`, and the `BTreeMap` lookup of
`contains_intermode` compares (kind, acronym): so the `System`-kind `TouchDevice` ("TD") is found
in every mode, every other missing mod is not. -/
def avail (mode : Mode) (m : IMod) : Bool :=
  match m with
  | .TouchDevice => true
  | .NoFail | .Easy | .Hidden | .HardRock | .SuddenDeath | .DoubleTime | .HalfTime | .Nightcore
  | .Flashlight | .Autoplay | .Perfect | .Cinema | .ScoreV2 | .Daycore | .Classic
  | .DifficultyAdjust => true
  | .SpunOut | .Autopilot | .TargetPractice | .Blinds | .Traceable => mode == .osu
  | .Relax => mode != .mania
  | .Random => mode != .catch
  | .Mirror => mode != .taiko
  | .FourKeys | .FiveKeys | .SixKeys | .SevenKeys | .EightKeys | .FadeIn | .NineKeys | .DualStages
  | .OneKey | .ThreeKeys | .TwoKeys | .Invert | .HoldOff | .TenKeys => mode == .mania
  | .Unknown => false

/-! ## the three representations -/

/-- a lazer `GameMod` as far as the accessors look at it -/
structure LMod (R : Type) where
  /-- `m.intermode()` -/
  kind : IMod
  /-- `speed_change` of DT/HT/NC/DC -/
  speed : Option R := none
  /-- `DifficultyAdjust*` fields (`ar`/`cs` exist for osu!/catch only) -/
  ar : Option R := none
  cs : Option R := none
  hp : Option R := none
  od : Option R := none
  /-- `ClassicOsu::no_slider_head_accuracy` -/
  nsha : Option Bool := none
  /-- `MirrorOsu::reflection` (lazer's `MirrorType` as text: "0" horizontal, "1" vertical, "2" both) -/
  mirror : Option String := none
  /-- `DifficultyAdjustCatch::hard_rock_offsets` -/
  hro : Option Bool := none
  /-- `DifficultyAdjustTaiko::scroll_speed` -/
  scroll : Option R := none
  /-- `Random{Taiko,Mania}::seed`: an `f64` in rosu-mods; the model covers integral values -/
  seed : Option Int := none

/-- `GameMods::{Lazer, Intermode, Legacy}`.  `lazer` carries the (single) mode of its mods and
lists them in iteration order; `Unknown…` mods are left out (no accessor ever matches them). -/
inductive Rep (R : Type)
  | lazer (mode : Mode) (mods : List (LMod R))
  | intermode (mods : List IMod)
  | legacy (bits : Nat)

/-- `GameModsLegacy::from_bits(bits)`: `bits & (u32::MAX >> 2)` -/
def legacyFromBits (bits : Nat) : Nat := bits &&& (2 ^ 30 - 1)

/-- `GameModsLegacy::contains` -/
def legacyContains (l : Nat) (mask : Nat) : Bool := (l &&& mask) == mask

/-- `!x` on `u32` -/
def not32 (x : Nat) : Nat := (2 ^ 32 - 1) ^^^ x

/-- the NC/PF special handling at the start of `GameModsIntermode::from_bits` -/
def adjust (bits : Nat) : Nat :=
  let nc := bit 9 ||| bit 6
  let bits := bits &&& (if (bits &&& nc) == nc then not32 (bit 6) else not32 (bit 9))
  let pf := bit 14 ||| bit 5
  bits &&& (if (bits &&& pf) == pf then not32 (bit 5) else not32 (bit 14))

/-- `BitIterator(bits).zip(BITFLAG_MODS).filter_map(|(is_set, m)| is_set.then_some(m))` -/
def zipBits : Nat → List IMod → List IMod
  | _, [] => []
  | bits, m :: ms =>
    if bits = 0 then []
    else if bits % 2 = 1 then m :: zipBits (bits / 2) ms
    else zipBits (bits / 2) ms

/-- `GameModsIntermode::from_bits` (as a membership list; iteration goes through `imIter`) -/
def fromBits (bits : Nat) : List IMod := zipBits (adjust bits) bitflagMods

/-- iteration order of a `GameModsIntermode` -/
def imIter (s : List IMod) : List IMod := orderAll.filter (fun m => s.contains m)

/-- `GameModsIntermode::checked_bits` -/
def checkedBits (s : List IMod) : Option Nat :=
  (imIter s).foldl (fun acc m => match acc, m.bits with
    | some a, some b => some (b ||| a)
    | _, _ => none) (some 0)

/-- `GameMods::from_intermode(&im, mode)` = `im.with_mode(mode)` with default settings -/
def withMode {R : Type} (mode : Mode) (s : List IMod) : List (LMod R) :=
  ((imIter s).filter (avail mode)).map (fun m => { kind := m })

/-- inserting a mod into a single-mode lazer set (`BTreeMap` keyed by kind) -/
def orderIdx (m : IMod) : Nat := orderAll.idxOf m

def insertL {R : Type} (x : LMod R) (l : List (LMod R)) : List (LMod R) :=
  (l.filter (fun m => orderIdx m.kind < orderIdx x.kind)) ++ [x] ++
    (l.filter (fun m => orderIdx x.kind < orderIdx m.kind))

/-- the five spellings of a legacy mod set accepted by `impl Into<GameMods>` -/
inductive Spelling | u32 | legacy | intermode | intermodeRef | lazer (mode : Mode)
  deriving DecidableEq, Repr

/-- `From<…> for GameMods` -/
def spell (R : Type) (sp : Spelling) (bits : Nat) : Rep R :=
  match sp with
  | .u32 => .legacy (legacyFromBits bits)
  | .legacy => .legacy (legacyFromBits bits)
  | .intermode => .intermode (fromBits bits)
  | .intermodeRef =>
    match checkedBits (fromBits bits) with
    | some b => .legacy (legacyFromBits b)
    | none => .intermode (fromBits bits)
  | .lazer mode => .lazer mode (withMode mode (fromBits bits))

/-! ## accessors -/

/-- one generated `impl_has_mod!` accessor -/
def Rep.flag {R : Type} (rep : Rep R) (row : String × IMod × Option LName) : Bool :=
  match rep with
  | .lazer _ l => l.any (fun m => m.kind == row.2.1)          -- contains_intermode
  | .intermode s => s.contains row.2.1                         -- contains
  | .legacy b => match row.2.2 with
    | some n => legacyContains b n.bits                        -- LEGACY +
    | none => false                                            -- LEGACY -

/-- accessor by position in `hasModRows` -/
def Rep.flagAt {R : Type} (rep : Rep R) (i : Nat) : Bool :=
  match hasModRows[i]? with
  | some row => rep.flag row
  | none => false

def Rep.hr {R : Type} (rep : Rep R) : Bool := rep.flagAt rowHr
def Rep.ez {R : Type} (rep : Rep R) : Bool := rep.flagAt rowEz

/-- number system: how a source literal is read, and the two operations `clock_rate` uses -/
structure Num (R : Type) where
  lit : Lit → R
  mul : R → R → R
  div : R → R → R

def numQ : Num Rat := ⟨fun l => l.q, (· * ·), (· / ·)⟩
def numF : Num Float := ⟨fun l => l.f, (· * ·), (· / ·)⟩

/-- literals of rosu-mods (`mod_manual.rs`, `legacy.rs`, `intermode.rs`) -/
def lit15 : Lit := { q := 3 / 2, f := 1.5, s := "1.5" }
def lit075 : Lit := { q := 3 / 4, f := 0.75, s := "0.75" }
def lit1 : Lit := { q := 1, f := 1.0, s := "1.0" }

/-- `GameMod::clock_rate()` (rosu-mods `mod_manual.rs`) -/
def LMod.clockRate {R : Type} (n : Num R) (m : LMod R) : Option R :=
  match m.kind with
  | .DoubleTime | .Nightcore => some (m.speed.getD (n.lit lit15))
  | .HalfTime | .Daycore => some (m.speed.getD (n.lit lit075))
  | _ => none

/-- the closure of the Lazer arm of `clock_rate` -/
def lazerRateOf {R : Type} (n : Num R) (m : LMod R) : Option R :=
  match clockLazerArms.find? (fun a => a.1 == m.kind) with
  | none => none                                                       -- `_ => return None`
  | some (_, .direct) => m.clockRate n                                 -- `return m.clock_rate()`
  | some (_, .scaled d) =>                                             -- `Some(default * (m.clock_rate()? / default))`
    match m.clockRate n with
    | none => none
    | some r => some (n.mul (n.lit d) (n.div r (n.lit d)))

/-- `GameModsIntermode::legacy_clock_rate` -/
def imLegacyClockRate {R : Type} (n : Num R) (s : List IMod) : R :=
  ((imIter s).findSome? (fun m => match m with
    | .DoubleTime | .Nightcore => some (n.lit lit15)
    | .HalfTime | .Daycore => some (n.lit lit075)
    | _ => none)).getD (n.lit lit1)

/-- `GameModsLegacy::clock_rate` -/
def legacyClockRate {R : Type} (n : Num R) (b : Nat) : R :=
  if legacyContains b LName.DoubleTime.bits then n.lit lit15
  else if legacyContains b LName.HalfTime.bits then n.lit lit075
  else n.lit lit1

/-- `GameMods::clock_rate` -/
def Rep.clockRate {R : Type} (n : Num R) (rep : Rep R) : R :=
  match rep with
  | .lazer _ l => (l.findSome? (lazerRateOf n)).getD (n.lit clockLazerFallback)
  | .intermode s => imLegacyClockRate n s
  | .legacy b => legacyClockRate n b

/-- `GameMods::od_ar_hp_multiplier` -/
def Rep.mult {R : Type} (n : Num R) (rep : Rep R) : R :=
  match multChain.find? (fun c => rep.flagAt c.1) with
  | some c => n.lit c.2
  | none => n.lit multElse

/-! ### accessors that read settings of lazer mods

The arms of the `find_map` closures, transcribed as tables keyed by (`m.intermode()`, mode) — a lazer
`GameMod` variant `<Name><Mode>` is the mod of kind `Name` in a set of mode `Mode`.  `Props/C08.lean`
(`lazer_arm_tables_as_generated`) proves these tables equal to the ones `tools/translate.d/
lazer_settings.py` extracts from the current source. -/

/-- `reflection`, Lazer arm: `HardRockOsu(_) => Some(Vertical)`, `MirrorOsu(mr) => match
mr.reflection.as_deref() { None => Horizontal, "1" => Vertical, "2" => Both, _ => None }`,
`MirrorCatch(_) => Some(Horizontal)`, `_ => None`; `.unwrap_or(Reflection::None)` -/
def reflLazerArms : List (IMod × Mode × ReflVal) :=
  [(.HardRock, .osu, .const .vertical),
   (.Mirror, .osu, .bySetting .horizontal [("1", .vertical), ("2", .both)] .none),
   (.Mirror, .catch, .const .horizontal)]
def reflLazerElse : Reflection := .none

/-- `no_slider_head_acc`, Lazer arm: `ClassicOsu(cl) => Some(cl.no_slider_head_accuracy.unwrap_or(true))`
(the `Bool` is the `unwrap_or` default); `.unwrap_or(!lazer)` -/
def nshaLazerArms : List (IMod × Mode × Bool) := [(.Classic, .osu, true)]
/-- Intermode arm: `mods.contains(GameModIntermode::Classic) || !lazer` -/
def nshaIntermodeMod : IMod := .Classic

/-- `custom_hardrock_offsets`, Lazer arm: `DifficultyAdjustCatch { hard_rock_offsets, .. } =>
*hard_rock_offsets` (an unset option lets `find_map` go on) -/
def hroLazerArms : List (IMod × Mode) := [(.DifficultyAdjust, .catch)]

/-- `scroll_speed`: `DifficultyAdjustTaiko(da) => Some(da.scroll_speed)` … `.flatten()` (the first
such mod decides, even when its option is unset) -/
def scrollLazerArms : List (IMod × Mode) := [(.DifficultyAdjust, .taiko)]

/-- `random_seed`: `RandomTaiko(m) => m.seed`, `RandomMania(m) => m.seed` … `.map(|seed| seed as i32)` -/
def seedLazerArms : List (IMod × Mode) := [(.Random, .taiko), (.Random, .mania)]

/-- (accessor, name of the setting its Lazer arm reads), one entry per arm -/
def settingFields : List (String × String) :=
  [("no_slider_head_acc", "no_slider_head_accuracy"), ("hardrock_offsets", "hard_rock_offsets"),
   ("scroll_speed", "scroll_speed"), ("random_seed", "seed"), ("random_seed", "seed")]

/-- the value of a `reflection` arm for a mod whose `reflection` setting is `setting` -/
def ReflVal.eval (v : ReflVal) (setting : Option String) : Reflection :=
  match v, setting with
  | .const r, _ => r
  | .bySetting u _ _, none => u
  | .bySetting _ cs o, some s =>
    match cs.find? (fun c => c.1 == s) with
    | some c => c.2
    | none => o

/-- the arm (if any) of a closure that matches the mod of kind `k` in a set of mode `mode` -/
def armFor {α : Type} (arms : List (IMod × Mode × α)) (mode : Mode) (k : IMod) : Option α :=
  (arms.find? (fun a => a.1 == k && a.2.1 == mode)).map (·.2.2)

def hasArm (arms : List (IMod × Mode)) (mode : Mode) (k : IMod) : Bool :=
  arms.any (fun a => a.1 == k && a.2 == mode)

/-- `custom_hardrock_offsets` inside `GameMods::hardrock_offsets` -/
def Rep.customHro {R : Type} (rep : Rep R) : Option Bool :=
  match rep with
  | .lazer mode l => l.findSome? (fun m => if hasArm hroLazerArms mode m.kind then m.hro else none)
  | .intermode _ | .legacy _ => none

/-- `GameMods::hardrock_offsets`: `custom_hardrock_offsets(self).unwrap_or_else(|| self.hr())` -/
def Rep.hardrockOffsets {R : Type} (rep : Rep R) : Bool := rep.customHro.getD rep.hr

/-- `GameMods::no_slider_head_acc(lazer)` -/
def Rep.noSliderHeadAcc {R : Type} (rep : Rep R) (lazer : Bool) : Bool :=
  match rep with
  | .lazer mode l =>
    (l.findSome? (fun m => (armFor nshaLazerArms mode m.kind).map (fun d => m.nsha.getD d))).getD (!lazer)
  | .intermode s => s.contains nshaIntermodeMod || !lazer
  | .legacy _ => !lazer

/-- `GameMods::reflection` -/
def Rep.reflection {R : Type} (rep : Rep R) : Reflection :=
  match rep with
  | .lazer mode l =>
    (l.findSome? (fun m => (armFor reflLazerArms mode m.kind).map (fun v => v.eval m.mirror))).getD reflLazerElse
  | .intermode s =>
    match reflIntermode.find? (fun c => s.contains c.1) with
    | some c => c.2
    | none => reflIntermodeElse
  | .legacy b =>
    match reflLegacy.find? (fun c => legacyContains b c.1.bits) with
    | some c => c.2
    | none => reflLegacyElse

/-- `Option<Option<T>>::flatten` -/
def optFlatten {α : Type} : Option (Option α) → Option α
  | some x => x
  | none => none

/-- `GameMods::scroll_speed` -/
def Rep.scrollSpeed {R : Type} (rep : Rep R) : Option R :=
  match rep with
  | .lazer mode l =>
    optFlatten (l.findSome? (fun m => if hasArm scrollLazerArms mode m.kind then some m.scroll else none))
  | .intermode _ | .legacy _ => none

/-- `seed as i32` for an integral `f64`: Rust's saturating float → int cast -/
def castI32 (x : Int) : Int :=
  if x < -2147483648 then -2147483648 else if x > 2147483647 then 2147483647 else x

/-- `GameMods::random_seed` -/
def Rep.randomSeed {R : Type} (rep : Rep R) : Option Int :=
  match rep with
  | .lazer mode l =>
    (l.findSome? (fun m => if hasArm seedLazerArms mode m.kind then m.seed else none)).map castI32
  | .intermode _ | .legacy _ => none

/-- `GameMods::mania_keys` (the literal is kept so that both number systems can read it) -/
def Rep.maniaKeys {R : Type} (rep : Rep R) : Option Lit :=
  match rep with
  | .lazer _ l => (maniaKeysLazer.find? (fun c => l.any (fun m => m.kind == c.1))).map (·.2)
  | .intermode s => (maniaKeysIntermode.find? (fun c => s.contains c.1)).map (·.2)
  | .legacy b => (maniaKeysLegacy.find? (fun c => legacyContains b c.1.bits)).map (·.2)

/-- one generated `impl_map_attr!` accessor: `modes` are the row's modes, `field` selects the
`DifficultyAdjust` field -/
def Rep.mapAttr {R : Type} (rep : Rep R) (modes : List Mode) (field : LMod R → Option R) : Option R :=
  match rep with
  | .lazer mode l =>
    l.findSome? (fun m => if m.kind == .DifficultyAdjust && modes.contains mode then field m else none)
  | .intermode _ | .legacy _ => none

def Rep.ar {R : Type} (rep : Rep R) : Option R := rep.mapAttr arModes (·.ar)
def Rep.cs {R : Type} (rep : Rep R) : Option R := rep.mapAttr csModes (·.cs)
def Rep.hp {R : Type} (rep : Rep R) : Option R := rep.mapAttr hpModes (·.hp)
def Rep.od {R : Type} (rep : Rep R) : Option R := rep.mapAttr odModes (·.od)

/-- what the attribute builder reads from the mods -/
def Rep.view (rep : Rep Rat) : Attrs.ModsView :=
  { clockRate := rep.clockRate numQ, hr := rep.hr, ez := rep.ez,
    ar := rep.ar, cs := rep.cs, hp := rep.hp, od := rep.od, mult := rep.mult numQ }

/-- everything the hook `rosu_pp::verif::mods_snapshot` reports, in exact arithmetic -/
structure Snapshot where
  clockRate : Rat
  mult : Rat
  hardrockOffsets : Bool
  nshLazer : Bool
  nshStable : Bool
  reflection : Reflection
  maniaKeys : Option Rat
  scrollSpeed : Option Rat
  randomSeed : Option Int
  ar : Option Rat
  cs : Option Rat
  hp : Option Rat
  od : Option Rat
  flags : List Bool
  deriving DecidableEq

def Rep.snapshot (rep : Rep Rat) : Snapshot :=
  { clockRate := rep.clockRate numQ, mult := rep.mult numQ, hardrockOffsets := rep.hardrockOffsets,
    nshLazer := rep.noSliderHeadAcc true, nshStable := rep.noSliderHeadAcc false,
    reflection := rep.reflection, maniaKeys := rep.maniaKeys.map (·.q),
    scrollSpeed := rep.scrollSpeed, randomSeed := rep.randomSeed,
    ar := rep.ar, cs := rep.cs, hp := rep.hp, od := rep.od,
    flags := hasModRows.map rep.flag }

/-! ## `Difficulty` -/

/-- `Difficulty { mods, clock_rate, hardrock_offsets, lazer }` as far as the getters below are
concerned (`src/any/difficulty/mod.rs`) -/
structure Diff (R : Type) where
  mods : Rep R
  /-- stored by `Difficulty::clock_rate(r)` after `clamp(0.01, 100.0)` -/
  clockRate : Option R
  /-- stored by `Difficulty::hardrock_offsets(b)` -/
  hardrockOffsets : Option Bool := none
  /-- stored by `Difficulty::lazer(b)` -/
  lazer : Option Bool := none

/-- `Difficulty::get_clock_rate` -/
def Diff.getClockRate {R : Type} (n : Num R) (d : Diff R) : R :=
  match d.clockRate with
  | some r => r
  | none => d.mods.clockRate n

/-- `Difficulty::get_hardrock_offsets`: `self.hardrock_offsets.unwrap_or_else(|| self.mods.hardrock_offsets())` -/
def Diff.getHardrockOffsets {R : Type} (d : Diff R) : Bool :=
  d.hardrockOffsets.getD d.mods.hardrockOffsets

/-- `Difficulty::get_lazer`: `self.lazer.unwrap_or(true)` -/
def Diff.getLazer {R : Type} (d : Diff R) : Bool := d.lazer.getD true

/-- `using_classic_slider_acc` of the osu! performance calculator
(`src/osu/performance/mod.rs`: `get_mods().no_slider_head_acc(get_lazer())`) -/
def Diff.usingClassicSliderAcc {R : Type} (d : Diff R) : Bool := d.mods.noSliderHeadAcc d.getLazer

/-- `OsuScoreOrigin` chosen by `OsuPerformance::generate_state`:
`match (lazer, using_classic_slider_acc) { (false, _) => Stable, (true, false) => WithSliderAcc,
(true, true) => WithoutSliderAcc }` -/
inductive OsuOrigin | stable | withSliderAcc | withoutSliderAcc
  deriving DecidableEq, Repr

def Diff.osuOrigin {R : Type} (d : Diff R) : OsuOrigin :=
  match d.getLazer, d.usingClassicSliderAcc with
  | false, _ => .stable
  | true, false => .withSliderAcc
  | true, true => .withoutSliderAcc

/-- the `cl()` flag accessor (row of `impl_has_mod!` named "cl") -/
def Rep.cl {R : Type} (rep : Rep R) : Bool :=
  match hasModRows.find? (fun row => row.1 == "cl") with
  | some row => rep.flag row
  | none => false

/-- `classic` of the mania performance calculator (`src/mania/performance/mod.rs`):
`!self.difficulty.get_lazer() || self.difficulty.get_mods().cl()` -/
def Diff.maniaClassic {R : Type} (d : Diff R) : Bool := !d.getLazer || d.mods.cl

end Rosu.Mods
