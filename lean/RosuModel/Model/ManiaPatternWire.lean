import RosuModel.Model.ManiaPattern

/-!
# C19 / C05 wire for the mania pattern generators (`Model/ManiaPattern.lean`, `Float` instance)

* `MPH <total> <rng> <x> <sample> <ct> <stair> <cdbits> <prev>` — one `HitObjectPatternGenerator::generate()`
* `MPP <total> <rng> <x> <sample> <ct> <cdbits> <prev> <span> <start> <end> <seg> <nodes>` — one
  `PathObjectPatternGenerator::generate()`
* `MPE <total> <rng> <sample> <prev> <hold> <short>` — one `EndTimeObjectPatternGenerator::generate()`
* `MPT <total> <seed> <cdbits> <objects>` — the whole per-object loop of `convert`

`rng` = `x:y:z:w`; `prev` = columns of the previous pattern's objects (`,`-separated, `-` = none);
`cdbits` = `conversion_difficulty()` as the decimal of its IEEE bit pattern.  Response:
`ok <patterns> <rng> <stair>` with patterns `/`-separated, notes `,`-separated as
`<column>@<x><time>` (`o` = circle at the object's time, `h` = hold to the spinner's end,
`t<s>_<e>` = slider note), or `PANIC` / `HANG`.
-/
namespace Rosu.ManiaPattern.Wire
open Rosu.ManiaPattern Rosu.Rng Rosu.Safety Rosu.ConvertWF

def nat (s : String) : Nat := s.toNat?.getD 0
def int (s : String) : Int := s.toInt?.getD 0

def parseRng (s : String) : Osu :=
  match (s.splitOn ":").map nat with
  | [x, y, z, w] => { x := UInt32.ofNat x, y := UInt32.ofNat y, z := UInt32.ofNat z, w := UInt32.ofNat w,
                      bitBuf := 0, bitIdx := 32 }
  | _ => Osu.new 0

def showRng (s : Osu) : String := s!"{s.x.toNat}:{s.y.toNat}:{s.z.toNat}:{s.w.toNat}"

def parseList (s : String) : List Nat := if s = "-" then [] else (s.splitOn ",").map nat

/-- the previous pattern from the columns of its objects (`add_object` each) -/
def prevOf (cols : List Nat) : Pat :=
  ⟨cols.map (fun c => ⟨c, .atObject⟩), cols.foldl (fun a c => a ||| 2 ^ c) 0⟩

def cdOf (bits : String) : Float := Float.ofBits (UInt64.ofNat (nat bits))

def showNote (total : Nat) (n : Note) : String :=
  let t := match n.time with
    | .atObject => "o"
    | .holdObject => "h"
    | .span s e => s!"t{s}_{e}"
  s!"{n.col}@{columnToPos n.col total}{t}"

def showPat (total : Nat) (p : Pat) : String :=
  if p.notes.isEmpty then "-" else ",".intercalate (p.notes.map (showNote total))

def showPats (total : Nat) (ps : List Pat) : String := "/".intercalate (ps.map (showPat total))

def showFail : Fail → String
  | .fuel => "HANG"
  | _ => "PANIC"

def fuel : Nat := 100000

def handleMPH (total rng x sample ct stair cd prev : String) : String :=
  let g : HitIn Float := ⟨nat total, int x, nat sample, nat ct, prevOf (parseList prev), cdOf cd, fuel⟩
  match hitGenerate floatArith g (nat stair) (parseRng rng) with
  | .error e => showFail e
  | .ok (p, s, st) => s!"ok {showPat g.total p} {showRng s} {st}"

def handleMPP (total rng x sample ct cd prev span start end_ seg nodes : String) : String :=
  let g : PathIn Float := ⟨nat total, int x, nat sample, nat ct, prevOf (parseList prev), cdOf cd,
    int span, int start, int end_, int seg, parseList nodes, fuel⟩
  match pathGenerate floatArith g (parseRng rng) with
  | .error e => showFail e
  | .ok (ps, s) => s!"ok {showPats g.total ps} {showRng s} 0"

def handleMPE (total rng sample prev hold short : String) : String :=
  let g : EndIn := ⟨nat total, nat sample, prevOf (parseList prev), hold = "1", short = "1", fuel⟩
  match endGenerate floatArith g (parseRng rng) with
  | .error e => showFail e
  | .ok (p, s) => s!"ok {showPat g.total p} {showRng s} 0"

/-- `MPN <start> <span> <distbits> <beatlenbits> <smbits>` — the slider arithmetic of
`PathObjectPatternGenerator::new`; response `<end_time> <segment_duration>` -/
def handleMPN (start span dist beatLen sm : String) : String :=
  match pathNew floatArith (int start) (int span) (cdOf dist) (cdOf beatLen) (cdOf sm) with
  | .error e => showFail e
  | .ok (e, seg) => s!"{e} {seg}"

def parseObj (s : String) : Option (ObjIn Float) :=
  match s.splitOn "," with
  | ["c", x, sample, ct] => some (.circle (int x) (nat sample) (nat ct))
  | ["s", x, sample, ct, span, start, end_, seg, nodes] =>
    some (.slider (int x) (nat sample) (nat ct) (int span) (int start) (int end_) (int seg)
      (if nodes = "-" then [] else (nodes.splitOn ":").map nat))
  | ["e", sample, hold, short] => some (.spinner (nat sample) (hold = "1") (short = "1"))
  | _ => none

/-- the loop, printing what each object produced; stops at the first failure -/
def traceRun (total : Nat) (cd : Float) : ConvSt → List (ObjIn Float) → List String → List String
  | _, [], acc => acc.reverse
  | st, o :: os, acc =>
    match convertStep floatArith total cd fuel st o with
    | .error e => (showFail e :: acc).reverse
    | .ok (ps, st') =>
      traceRun total cd st' os (s!"{showPats total ps}|{showRng st'.rng}|{st'.stair}" :: acc)

def handleMPT (total seed cd objs : String) : String :=
  let os := if objs = "-" then [] else (objs.splitOn ";").map parseObj
  if os.any Option.isNone then "bad-object"
  else
    let os := os.filterMap id
    "ok " ++ ";".intercalate (traceRun (nat total) (cdOf cd) (ConvSt.init (int seed)) os [])

end Rosu.ManiaPattern.Wire
