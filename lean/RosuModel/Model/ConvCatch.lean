import RosuModel.Model.Rng

/-!
# catch: from decoded objects to palpable objects (C14 / C09).  Core only.

Source: `/repo/src/catch/convert.rs` — `convert_objects` (the per-object loop, horizontal
reflection, the stable sort by start time; `initialize_hyper_dash` is not part of this model),
`convert_object` / `ObjectIter` (fruit → one palpable object, juice stream → its non-tiny nested
objects, banana shower → none), `apply_pos_offset`, `apply_hr_offset`, `apply_random_offset`,
`apply_offset`, and the PRNG consumption: per droplet / tiny droplet one `next_int`, per banana
`next_double` + three `next_int` (four generator steps), per hard-rock fruit in the `pos_diff == 0`
branch one `next_bool` + one `next_double_range`.

Inputs (what `JuiceStream::new` / `BananaShower::new` compute, `Model/SliderEvents.lean` /
`Model/SafetyLoops.lean`): the nested objects of a juice stream (kind, x, time), the x of its last
control point, the banana count.  Generic in the f32 arithmetic of the positions (`CAr S`); times
are f64 and only enter through `(start_time - last_start_time) as i32`.
-/
namespace Rosu.ConvCatch
open Rosu.Rng

structure CAr (S T : Type) where
  add : S → S → S
  sub : S → S → S
  neg : S → S
  lt : S → S → Bool
  le : S → S → Bool
  abs : S → S
  /-- `i as f32` -/
  ofInt : Int → S
  /-- `f32::EPSILON` -/
  eps : S
  /-- `(a - b) as i32` on f64 times (saturating cast) -/
  timeDiff : T → T → Int
  /-- `(next_double_range(0.0, (f64::from(time_diff) / 4.0).max(0.0)) as f32).min(20.0)` for the
  `next_int` draw `n` -/
  rand : Int → Nat → S
  /-- `a.total_cmp(b) != Greater` on f64 (the sort key) -/
  timeLe : T → T → Bool

variable {S T : Type}

/-- nested juice-stream object: kind 0 fruit, 1 droplet, 2 tiny droplet -/
structure Nested (S T : Type) where
  kind : Nat
  pos : S
  time : T

inductive Obj (S T : Type) where
  /-- `HitObjectKind::Circle`: x, start time -/
  | fruit (x : S) (start : T)
  /-- `HitObjectKind::Slider`: `h.pos.x`, start time, x of the last control point (0 if none), nested -/
  | stream (x : S) (start : T) (lastCp : S) (nested : List (Nested S T))
  /-- `Spinner | Hold`: number of bananas -/
  | shower (nBananas : Nat)

structure Palpable (S T : Type) where
  x : S
  xOffset : S
  start : T

/-- `last_pos`, `last_start_time`, the PRNG -/
structure St (S T : Type) where
  lastPos : Option S
  lastStart : T
  rng : Osu

/-- `n` discarded `gen_unsigned` steps (`next_int` / `next_double` each take one) -/
def skip : Nat → Osu → Osu
  | 0, s => s
  | n + 1, s => skip n s.genUnsigned.2

/-- `apply_random_offset(pos, max_offset, rng)` -/
def applyRandomOffset (A : CAr S T) (pos : S) (timeDiff : Int) (s : Osu) : S × Osu :=
  let (right, s1) := s.nextBool
  let (n, s2) := s1.nextInt
  let rand := A.rand timeDiff n
  let w := A.ofInt 512
  if right then
    if A.le (A.add pos rand) w then (A.add pos rand, s2) else (A.sub pos rand, s2)
  else if A.le (A.ofInt 0) (A.sub pos rand) then (A.sub pos rand, s2)
  else (A.add pos rand, s2)

/-- `apply_offset(pos, amount)` -/
def applyOffset (A : CAr S T) (pos amount : S) : S :=
  if A.lt (A.ofInt 0) amount then
    if A.lt (A.add pos amount) (A.ofInt 512) then A.add pos amount else pos
  else if A.lt (A.ofInt 0) (A.add pos amount) then A.add pos amount
  else pos

/-- `apply_hr_offset(x, x_offset, start_time, last_pos, last_start_time, rng)`: the new `x_offset`
(`none` = left at its initial 0.0) and the state -/
def applyHrOffset (A : CAr S T) (x : S) (start : T) (st : St S T) : Option S × St S T :=
  match st.lastPos with
  | none => (none, { st with lastPos := some x, lastStart := start })
  | some last =>
    if A.lt (A.abs last) A.eps then (none, { st with lastPos := some x, lastStart := start })
    else
      let posDiff := A.sub x last
      let td := A.timeDiff start st.lastStart
      if td > 1000 then (none, { st with lastPos := some x, lastStart := start })
      else if A.le (A.abs (A.sub posDiff (A.ofInt 0))) A.eps then
        let (p, rng') := applyRandomOffset A x td st.rng
        (some (A.sub p x), { st with rng := rng' })
      else
        let p := if A.lt (A.abs posDiff) (A.ofInt (Int.tdiv td 3)) then applyOffset A x posDiff else x
        (some (A.sub p x), { st with lastPos := some p, lastStart := start })

/-- one iteration of the loop of `convert_objects`: the palpable objects of this hit object and the
state after `apply_pos_offset` -/
def convertOne (A : CAr S T) (hr : Bool) (st : St S T) : Obj S T → List (Palpable S T) × St S T
  | .fruit x start =>
    if hr then
      let (off, st') := applyHrOffset A x start st
      ([⟨x, off.getD (A.ofInt 0), start⟩], st')
    else ([⟨x, A.ofInt 0, start⟩], st)
  | .stream x start lastCp nested =>
    let draws := (nested.filter (fun n => n.kind = 1 ∨ n.kind = 2)).length
    ((nested.filter (fun n => n.kind ≠ 2)).map (fun n => ⟨n.pos, A.ofInt 0, n.time⟩),
      { lastPos := some (A.add x lastCp), lastStart := start, rng := skip draws st.rng })
  | .shower n => ([], { st with rng := skip (4 * n) st.rng })

/-- the loop; the state after every object is returned too (the trace) -/
def convertLoop (A : CAr S T) (hr : Bool) : St S T → List (Obj S T) → List (List (Palpable S T) × St S T)
  | _, [] => []
  | st, o :: os =>
    let r := convertOne A hr st o
    r :: convertLoop A hr r.2 os

/-- stable insertion of `p` by start time (`sort_by(total_cmp)` is a stable sort) -/
def insertByTime (A : CAr S T) (p : Palpable S T) : List (Palpable S T) → List (Palpable S T)
  | [] => [p]
  | q :: qs => if A.timeLe q.start p.start then q :: insertByTime A p qs else p :: q :: qs

def sortByTime (A : CAr S T) (l : List (Palpable S T)) : List (Palpable S T) :=
  l.foldl (fun acc p => insertByTime A p acc) []

/-- `convert_objects` up to (not including) `initialize_hyper_dash`; `start0` is `0.0` -/
def convertObjects (A : CAr S T) (hr reflectH : Bool) (start0 : T) (objs : List (Obj S T)) :
    List (Palpable S T) :=
  let all := ((convertLoop A hr ⟨none, start0, Osu.new 1337⟩ objs).map (·.1)).flatten
  let all := if reflectH then all.map (fun p => { p with x := A.sub (A.ofInt 512) p.x, xOffset := A.neg p.xOffset }) else all
  sortByTime A all

end Rosu.ConvCatch
