import RosuModel.Model.DecodeNum

/-
Line-level parsers of `impl DecodeBeatmap for Beatmap` (/repo/src/model/beatmap/decode.rs) and the
section driver of rosu-map 0.2.1 (`src/decode.rs`, `src/format_version.rs`, `src/section/mod.rs`),
transcribed statement by statement (core Lean only).

Every slice index / sub-slice / unsigned subtraction the Rust code performs unchecked is a CHECKED
access here: failure is the error `Err.panic` (the Rust code would panic) and
`Lemmas/DecodeLine*.lean` prove that no parser ever returns it.

A parser takes the state and a line and returns the state AFTER the call together with the result:
`rosu_map`'s driver ignores the error, so whatever was mutated before an early return persists
(`BeatmapState::curve_points` is the only such field).
-/
namespace Rosu.DecodeLine
open Rosu.Decode

/-- `ParseBeatmapError` (payloads dropped except for the number error kind) + `panic`. -/
inductive Err
  | effectFlags | eventType | hitObjectType | hitSoundType | invalidEventLine | invalidRepeatCount
  | invalidTimingPointLine | invalidHitObjectLine | mode | number (e : NumErr) | timeSignature
  | timingControlPointNaN | unknownHitObjectType
  /-- a checked index / slice / subtraction failed: the Rust code would panic here -/
  | panic
deriving Repr, DecidableEq, BEq

def liftNum {α : Type} : Except NumErr α → Except Err α
  | .ok a => .ok a
  | .error e => .error (.number e)

/-! ## hit objects -/

/-- `PathType` -/
inductive PT
  | catmull | bezier (degree : Option Nat) | linear | perfect
deriving Repr, DecidableEq, BEq

/-- `PathControlPoint`; positions are integral `f32` values of magnitude `< 2^24`, kept as `Int`. -/
structure CP where
  x : Int
  y : Int
  ty : Option PT
deriving Repr, DecidableEq, BEq

inductive Kind
  | circle
  | slider (repeats : Nat) (len : Option Nat) (nodeSounds : List Nat) (cps : List CP)
  | spinner (duration : Nat)
  | hold (duration : Nat)
deriving Repr, DecidableEq, BEq

structure HObj where
  x : Int
  y : Int
  time : Nat
  kind : Kind
deriving Repr, DecidableEq, BEq

/-- the part of `BeatmapState` `parse_hit_objects` touches (`vertices` is cleared before every use and
`point_split` after every use, so neither carries information between calls) -/
structure HState where
  objects : List HObj
  sounds : List Nat
  curve : List CP
deriving Repr, DecidableEq, BEq

def HState.init : HState := ⟨[], [], []⟩

/-- `PathType::new_from_str` -/
def ptOfStr (s : Str) : PT :=
  match s with
  | 'B' :: rest =>
    match parseI32Raw rest with
    | some n => if n > 0 then .bezier (some n.toNat) else .bezier none
    | none => .bezier none
  | 'L' :: _ => .linear
  | 'P' :: _ => .perfect
  | _ => .catmull

def isAsciiAlpha (c : Char) : Bool :=
  (65 ≤ c.toNat && c.toNat ≤ 90) || (97 ≤ c.toNat && c.toNat ≤ 122)

/-- `read_point(value, start_pos)` -/
def readPoint (value : Str) (ox oy : Int) : Except Err CP :=
  match splitC ':' value with
  | xs :: ys :: _ =>
    -- both `parse_with_limits` run inside `v.next().zip(v.next())`; `x?` is inspected first
    match F64.parseLim xs maxCoord64, F64.parseLim ys maxCoord64 with
    | .error e, _ => .error (.number e)
    | .ok _, .error e => .error (.number e)
    | .ok x, .ok y => .ok ⟨F64.toI32 x - ox, F64.toI32 y - oy, none⟩
  | _ => .error .invalidHitObjectLine

/-- `read_point` over a list of strings, stopping at the first error -/
def readPoints (ox oy : Int) : List Str → Except Err (List CP)
  | [] => .ok []
  | p :: ps =>
    match readPoint p ox oy with
    | .error e => .error e
    | .ok c =>
      match readPoints ox oy ps with
      | .error e => .error e
      | .ok cs => .ok (c :: cs)

/-- the optional end point as a list of zero or one vertices -/
def endVertex (endPoint : Option Str) (ox oy : Int) : Except Err (List CP) :=
  match endPoint with
  | none => .ok []
  | some ep =>
    match readPoint ep ox oy with
    | .error e => .error e
    | .ok c => .ok [c]

/-- sign and nearest-even `f32` magnitude of an integer (an `f32` product of two integral values) -/
def f32OfInt (v : Int) : Int :=
  if v < 0 then -(roundPos F32 v.natAbs 1 : Int) else (roundPos F32 v.natAbs 1 : Int)

/-- `is_linear(p0, p1, p2)`: `((p1.y-p0.y)*(p2.x-p0.x)).eq((p1.x-p0.x)*(p2.y-p0.y))` in `f32`.  All
coordinates are integers of magnitude `≤ 2^19`, so the differences are exact, each product is the
nearest-even rounding of an integer and the difference of two integral floats is `0` (hence
`≤ f32::EPSILON`) exactly when they are equal. -/
def isLinear (a b c : CP) : Bool :=
  f32OfInt ((b.y - a.y) * (c.x - a.x)) == f32OfInt ((b.x - a.x) * (c.y - a.y))

/-- `&v[a..b]` -/
def slice? {α : Type} (l : List α) (a b : Nat) : Option (List α) :=
  if a ≤ b ∧ b ≤ l.length then some ((l.drop a).take (b - a)) else none

/-- the `while { end_idx += 1; end_idx < n }` loop of `convert_points`
(`n = vertices.len() - end_point_len`); returns `(vertices, start_idx, end_idx, curve_points)`. -/
def cpLoop (pt : PT) (n : Nat) : Nat → List CP → Nat → Nat → List CP →
    Except Err (List CP × Nat × Nat × List CP)
  | 0, _, _, _, _ => .error .panic
  | fuel + 1, verts, start, e0, curve =>
    let e := e0 + 1
    if e < n then
      match verts[e]?, verts[e - 1]? with
      | some a, some b =>
        if a.x ≠ b.x ∨ a.y ≠ b.y then cpLoop pt n fuel verts start e curve
        else if pt = .catmull ∧ e > 1 then cpLoop pt n fuel verts start e curve
        else if n = 0 then .error .panic     -- `len - end_point_len - 1`
        else if e = n - 1 then cpLoop pt n fuel verts start e curve
        else
          let verts' := verts.set (e - 1) { b with ty := some pt }
          match slice? verts' start e with
          | none => .error .panic
          | some sl => cpLoop pt n fuel verts' (e + 1) e (curve ++ sl)
      | _, _ => .error .panic
    else .ok (verts, start, e, curve)

/-- the part of `convert_points` after the vertices are read and typed: the segment loop and the
final `extend` -/
def cpTail (curve verts : List CP) (epl : Nat) (pt : PT) : List CP × Except Err Unit :=
  if verts.length < epl then (curve, .error .panic) else     -- `vertices.len() - end_point_len`
  match cpLoop pt (verts.length - epl) (verts.length - epl + 1) verts 0 0 curve with
  | .error e => (curve, .error e)
  | .ok (verts', start, e, curve') =>
    if e > start then
      match slice? verts' start e with
      | none => (curve, .error .panic)
      | some sl => (curve' ++ sl, .ok ())
    else (curve', .ok ())

/-- `if path_type == PERFECT_CURVE { if let [a, b, c] = vertices { if is_linear {LINEAR} } else {BEZIER} }` -/
def resolvePT (pt0 : PT) (verts : List CP) : PT :=
  if pt0 = .perfect then
    (match verts with
     | [a, b, c] => if isLinear a b c then .linear else .perfect
     | _ => .bezier none)
  else pt0

/-- the vertices of one segment: optional default head, the points, optional end point -/
def cpVerts (first : Bool) (vs ev : List CP) : List CP :=
  (if first then [⟨0, 0, none⟩] else []) ++ vs ++ ev

/-- `BeatmapState::convert_points`: new `curve_points` and result.  On an error `curve_points` is
unchanged (every `?` precedes the first `extend`). -/
def convertPoints (curve : List CP) (points : List Str) (endPoint : Option Str) (first : Bool)
    (ox oy : Int) : List CP × Except Err Unit :=
  match points with
  | [] => (curve, .error .invalidHitObjectLine)
  | tyStr :: pts =>
    match readPoints ox oy pts with
    | .error e => (curve, .error e)
    | .ok vs =>
      match endVertex endPoint ox oy with
      | .error e => (curve, .error e)
      | .ok ev =>
        match cpVerts first vs ev with
        | [] => (curve, .error .invalidHitObjectLine)
        | v :: rest =>
          let pt := resolvePT (ptOfStr tyStr) (v :: rest)
          cpTail curve ({ v with ty := some pt } :: rest) ev.length pt

/-- the closure of `convert_path_str` (`ps` = the `|`-pieces as an indexable slice) -/
def pathLoop (ps : List Str) (ox oy : Int) : Nat → Nat → Nat → Bool → List CP →
    List CP × Except Err (Nat × Nat × Bool)
  | 0, _, _, _, curve => (curve, .error .panic)
  | fuel + 1, start, e0, first, curve =>
    let e := e0 + 1
    if e < ps.length then
      match ps[e]? with
      | none => (curve, .error .panic)
      | some piece =>
        match piece.head? with
        | none => (curve, .error .invalidHitObjectLine)
        | some c =>
          if !isAsciiAlpha c then pathLoop ps ox oy fuel start e first curve
          else
            match slice? ps start e with
            | none => (curve, .error .panic)
            | some seg =>
              match convertPoints curve seg ps[e + 1]? first ox oy with
              | (curve', .error err) => (curve', .error err)
              | (curve', .ok ()) => pathLoop ps ox oy fuel e e false curve'
    else (curve, .ok (start, e, first))

/-- `BeatmapState::convert_path_str(point_str, offset)` on `curve_points` -/
def convertPathStr (curve : List CP) (pointStr : Str) (ox oy : Int) : List CP × Except Err Unit :=
  let ps := splitC '|' pointStr
  match pathLoop ps ox oy (ps.length + 1) 0 0 true curve with
  | (curve', .error e) => (curve', .error e)
  | (curve', .ok (start, e, first)) =>
    if e > start then
      match slice? ps start e with
      | none => (curve', .error .panic)
      | some seg => convertPoints curve' seg none first ox oy
    else (curve', .ok ())

/-- the four `split.next().map(i32::parse).transpose()?` of `parse_custom_sound` -/
def customBanks : Nat → List Str → Except NumErr (List Str)
  | 0, l => .ok l
  | _ + 1, [] => .ok []
  | k + 1, s :: l =>
    match parseI32 s with
    | .error e => .error e
    | .ok _ => customBanks k l

/-- `parse_custom_sound(bank_info)`: the updated hit sound -/
def parseCustomSound (bankInfo : Option Str) (sound : Nat) : Except NumErr Nat :=
  match bankInfo with
  | none => .ok sound
  | some [] => .ok sound
  | some s =>
    match customBanks 4 (splitC ':' s) with
    | .error e => .error e
    | .ok [] => .ok sound
    | .ok ([] :: _) => .ok sound
    | .ok (_ :: _) => .ok (Nat.land sound 254)

/-- `node_sounds`: `vec![sound; repeats + 2]` overwritten from the `|`-pieces -/
def nodeSounds (sound repeats : Nat) (s : Option Str) : List Nat :=
  let base := List.replicate (repeats + 2) sound
  match s with
  | none => base
  | some str =>
    let parsed := (splitC '|' str).map fun p =>
      match parseI32Raw p with
      | some n => (n % 256).toNat
      | none => 0
    (parsed.take base.length) ++ base.drop parsed.length

def posOf (s : Str) : Except Err Int :=
  match F32.parseLim s maxCoord32 with
  | .error e => .error (.number e)
  | .ok b => .ok (F32.toI32 b)

def nz64 (b : Nat) : Nat := if F64.isZero b then 0 else b

/-- the optional pixel length of a slider: `parse_with_limits(MAX_COORDINATE_VALUE)?.max(0.0)`, kept
when `not_eq(0.0)` -/
def sliderLen (f : Option Str) : Except Err (Option Nat) :=
  match f with
  | none => .ok none
  | some s =>
    match F64.parseLim s maxCoord64 with
    | .error e => .error (.number e)
    | .ok l =>
      let l := F64.max l 0
      .ok (if notEq64 l 0 then some l else none)

/-- the `repeats > 9000` cap of `parse_hit_objects` -/
def repeatCap : Int := 9000

/-- `max(0, repeats - 1) as usize` with the `i32` subtraction checked -/
def repeatsOf (reps : Int) : Option Nat :=
  if reps - 1 < -2147483648 then none else some (if reps - 1 < 0 then 0 else reps - 1).toNat

/-- slider branch after `point_str` and `repeat_count` were taken -/
def parseSlider (curve : List CP) (x y : Int) (sound : Nat) (pointStr repeatStr : Str)
    (rest2 : List Str) : List CP × Except Err (Kind × Nat) :=
  match parseI32 repeatStr with
  | .error e => (curve, .error (.number e))
  | .ok reps =>
    if reps > repeatCap then (curve, .error .invalidRepeatCount) else
    match repeatsOf reps with
    | none => (curve, .error .panic)
    | some repeats =>
      match sliderLen rest2.head? with
      | .error e => (curve, .error e)
      | .ok len =>
        match parseCustomSound rest2[3]? sound with
        | .error e => (curve, .error (.number e))
        | .ok snd =>
          match convertPathStr curve pointStr x y with
          | (curve', .error e) => (curve', .error e)
          | (curve', .ok ()) =>
            ([], .ok (.slider repeats len (nodeSounds snd repeats rest2[1]?) curve', snd))

def parseCircle (sound : Nat) (rest : List Str) : Except Err (Kind × Nat) :=
  match parseCustomSound rest.head? sound with
  | .error e => .error (.number e)
  | .ok snd => .ok (.circle, snd)

def parseSpinner (time sound : Nat) (rest : List Str) : Except Err (Kind × Nat) :=
  match rest with
  | [] => .error .invalidHitObjectLine
  | es :: rest2 =>
    match parseF64 es with
    | .error e => .error (.number e)
    | .ok endTime =>
      match parseCustomSound rest2.head? sound with
      | .error e => .error (.number e)
      | .ok snd => .ok (.spinner (nz64 (F64.max (F64.sub endTime time) 0)), snd)

def parseHold (time sound : Nat) (rest : List Str) : Except Err (Kind × Nat) :=
  match rest.head?.filter (fun s => !s.isEmpty) with
  | some s =>
    match splitOnce ':' s with
    | none => .error .invalidHitObjectLine
    | some (es, bank) =>
      match parseCustomSound (some bank) sound with
      | .error e => .error (.number e)
      | .ok snd =>
        match parseF64 es with
        | .error e => .error (.number e)
        | .ok endTime => .ok (.hold (nz64 (F64.sub (F64.max endTime time) time)), snd)
  | none => .ok (.hold (nz64 (F64.sub time time)), sound)

/-- everything of `parse_hit_objects` between the five mandatory fields and the final pushes:
`(curve_points, Ok (kind, sound))`; the flag tests in the order of the source. -/
def parseKind (curve : List CP) (x y : Int) (time : Nat) (ty : Int) (sound : Nat) (rest : List Str) :
    List CP × Except Err (Kind × Nat) :=
  if hasFlag ty 1 then (curve, parseCircle sound rest)
  else if hasFlag ty 2 then
    match rest with
    | pointStr :: repeatStr :: rest2 => parseSlider curve x y sound pointStr repeatStr rest2
    | _ => (curve, .error .invalidHitObjectLine)
  else if hasFlag ty 8 then (curve, parseSpinner time sound rest)
  else if hasFlag ty 128 then (curve, parseHold time sound rest)
  else (curve, .error .unknownHitObjectType)

/-- `Beatmap::parse_hit_objects(state, line)` -/
def parseHitObject (st : HState) (line : Str) : HState × Except Err Unit :=
  match splitC ',' (trimComment line) with
  | xs :: ys :: ts :: ks :: ss :: rest =>
    match posOf xs with
    | .error e => (st, .error e)
    | .ok x =>
      match posOf ys with
      | .error e => (st, .error e)
      | .ok y =>
        match parseF64 ts with
        | .error e => (st, .error (.number e))
        | .ok time =>
          match parseI32Raw ks with
          | none => (st, .error .hitObjectType)
          | some ty =>
            match parseI32Raw ss with
            | none => (st, .error .hitSoundType)
            | some sn =>
              match parseKind st.curve x y time ty (sn % 256).toNat rest with
              | (curve, .error e) => ({ st with curve := curve }, .error e)
              | (curve, .ok (kind, snd)) =>
                (⟨st.objects ++ [⟨x, y, time, kind⟩], st.sounds ++ [snd], curve⟩, .ok ())
  | _ => (st, .error .invalidHitObjectLine)

/-! ## timing points -/

/-- difficulty point value: slider_velocity bits, bpm_multiplier bits, generate_ticks -/
abbrev DVal := Nat × Nat × Bool
/-- effect point value: kiai, scroll_speed bits -/
abbrev EVal := Bool × Nat

def c64_1 : Nat := 0x3FF0000000000000
def c64_100 : Nat := 0x4059000000000000
def c64_0_1 : Nat := 0x3FB999999999999A
def c64_10 : Nat := 0x4024000000000000
def c64_0_01 : Nat := 0x3F847AE147AE147B
def c64_6 : Nat := 0x4018000000000000
def c64_60000 : Nat := 0x40ED4C0000000000
def c64_10000 : Nat := 0x40C3880000000000

/-- `DifficultyPoint::new(time, beat_len, speed_multiplier)` without the time -/
def difficultyVal (beatLen speed : Nat) : DVal :=
  (F64.clamp speed c64_0_1 c64_10,
   if F64.lt beatLen 0 then
     F64.div (F64.clamp (f32ToF64 (f64ToF32 (F64.neg beatLen))) c64_10 c64_10000) c64_100
   else c64_1,
   !F64.isNaN beatLen)

/-- `if let Some(numerator) = split.next() { if i32::parse(numerator)? < 1 { TimeSignature } }` -/
def timeSignature (f : Option Str) : Except Err Unit :=
  match f with
  | none => .ok ()
  | some num =>
    match parseI32 num with
    | .error e => .error (.number e)
    | .ok v => if v < 1 then .error .timeSignature else .ok ()

/-- `split.next().is_none_or(|next| matches!(next.chars().next(), Some('1')))` -/
def timingChangeFlag (f : Option Str) : Bool :=
  match f with
  | none => true
  | some s => s.head? == some '1'

/-- the effect-flags field: kiai bit -/
def kiaiFlag (f : Option Str) : Except Err Bool :=
  match f with
  | none => .ok false
  | some s =>
    match parseI32Raw s with
    | none => .error .effectFlags
    | some fl => .ok (hasFlag fl 1)

/-- the accepted content of a `[TimingPoints]` line: what is handed to `add_pending_point` -/
abbrev TLine := Line Nat DVal EVal

/-- `Beatmap::parse_timing_points` up to (not including) the `add_pending_point` calls
(`scroll` = mode is taiko or mania). -/
def parseTimingLine (scroll : Bool) (line : Str) : Except Err TLine :=
  match splitC ',' (trimComment line) with
  | ts :: bs :: rest =>
    match parseF64 ts with
    | .error e => .error (.number e)
    | .ok time =>
      match F64.parseRaw bs with
      | none => .error (.number .invalidFloat)
      | some beatLen =>
        if F64.lt beatLen (F64.neg maxParse64) then .error (.number .underflow)
        else if F64.lt maxParse64 beatLen then .error (.number .overflow)
        else
          let speed := if F64.lt beatLen 0 then F64.div c64_100 (F64.neg beatLen) else c64_1
          match timeSignature rest.head? with
          | .error e => .error e
          | .ok () =>
            let tc := timingChangeFlag rest[4]?
            match kiaiFlag rest[5]? with
            | .error e => .error e
            | .ok kiai =>
              if tc && F64.isNaN beatLen then .error .timingControlPointNaN
              else
                .ok ⟨keyOfBits64 time, tc, F64.clamp beatLen c64_6 c64_60000,
                  difficultyVal beatLen speed,
                  (kiai, if scroll then F64.clamp speed c64_0_01 c64_10 else c64_1)⟩
  | _ => .error .invalidTimingPointLine

/-- the float predicates of the control-point model (`Model/Decode.lean`), exact on bit patterns -/
def exactParams : CPParams DVal EVal where
  timeNe a b := notEq64 (unkey64 a) (unkey64 b)
  dRedundant a b := a.2.2 == b.2.2 && eq64 a.1 b.1
  dDefault := (c64_1, c64_1, true)
  eRedundant a b := a.1 == b.1 && eq64 a.2 b.2
  eDefault := (false, c64_1)

abbrev CPS := CPState Nat DVal EVal

/-- `Beatmap::parse_timing_points(state, line)` on the control-point part of the state -/
def parseTimingPoint (scroll : Bool) (s : CPS) (line : Str) : CPS × Except Err Unit :=
  match parseTimingLine scroll line with
  | .error e => (s, .error e)
  | .ok ln => (addLine exactParams s ln, .ok ())

/-! ## events, difficulty, general -/

/-- `EventType::from_str(s) == Ok(Break)` / some other event / error -/
def eventType (s : Str) : Option Bool :=
  if s = "2".toList ∨ s = "Break".toList then some true
  else if s ∈ ["0", "Background", "1", "Video", "3", "Colour", "4", "Sprite", "5", "Sample", "6",
      "Animation"].map String.toList then some false
  else none

/-- `Beatmap::parse_events`: the pushed break `(start, end)` if any -/
def parseEvent (line : Str) : Except Err (Option (Nat × Nat)) :=
  match splitC ',' (trimComment line) with
  | [] => .error .invalidEventLine
  | ty :: rest =>
    match eventType ty with
    | none => .error .eventType
    | some false => .ok none
    | some true =>
      match rest with
      | ss :: es :: _ =>
        match parseF64 ss with
        | .error e => .error (.number e)
        | .ok st =>
          match parseF64 es with
          | .error e => .error (.number e)
          | .ok en => .ok (some (st, nz64 (F64.max st en)))
      | _ => .error .invalidEventLine

/-- `KeyValue::parse(s)`: trimmed first and second `:`-piece (`""` when there is no second) -/
def keyValue (s : Str) : Str × Str :=
  match splitC ':' s with
  | k :: v :: _ => (trim k, trim v)
  | k :: [] => (trim k, [])
  | [] => (trim s, [])

/-- `Difficulty` + `has_approach_rate` (f32 / f64 bit patterns) -/
structure DiffState where
  hp : Nat
  cs : Nat
  od : Nat
  ar : Nat
  sm : Nat
  tr : Nat
  hasAr : Bool
deriving Repr, DecidableEq, BEq

/-- `Difficulty::default()`: 5.0 ×4, 1.4, 1.0 -/
def DiffState.init : DiffState :=
  ⟨0x40A00000, 0x40A00000, 0x40A00000, 0x40A00000, 0x3FF6666666666666, 0x3FF0000000000000, false⟩

def lookupKey {κ : Type} (tbl : List (String × κ)) (k : Str) : Option κ :=
  (tbl.find? (fun e => e.1.toList == k)).map (·.2)

inductive DKey
  | hp | cs | od | ar | sm | tr
deriving Repr, DecidableEq, BEq

/-- one arm of `match key` in `parse_difficulty`: key string, assigned field, `f64::parse(value)?`
(else `value.parse_num()?` into an `f32`), `approach_rate` follows while `!has_approach_rate`,
`has_approach_rate = true` is set -/
structure DArm where
  key : String
  field : DKey
  f64 : Bool
  arFollows : Bool
  setsHasAr : Bool
deriving Repr, DecidableEq

/-- the arms of `parse_difficulty` (compared with the generated `Gen/DecodeKeys.lean`) -/
def difficultyArms : List DArm :=
  [⟨"HPDrainRate", .hp, false, false, false⟩, ⟨"CircleSize", .cs, false, false, false⟩,
   ⟨"OverallDifficulty", .od, false, true, false⟩, ⟨"ApproachRate", .ar, false, false, true⟩,
   ⟨"SliderMultiplier", .sm, true, false, false⟩, ⟨"SliderTickRate", .tr, true, false, false⟩]

def DKey.fieldName : DKey → String
  | .hp => "hp_drain_rate" | .cs => "circle_size" | .od => "overall_difficulty"
  | .ar => "approach_rate" | .sm => "slider_multiplier" | .tr => "slider_tick_rate"

def DiffState.set (d : DiffState) : DKey → Nat → DiffState
  | .hp, x => { d with hp := x } | .cs, x => { d with cs := x } | .od, x => { d with od := x }
  | .ar, x => { d with ar := x } | .sm, x => { d with sm := x } | .tr, x => { d with tr := x }

/-- what one arm does with the parsed value -/
def DArm.apply (a : DArm) (d : DiffState) (x : Nat) : DiffState :=
  let d1 := d.set a.field x
  let d2 := if a.arFollows && !d.hasAr then { d1 with ar := x } else d1
  if a.setsHasAr then { d2 with hasAr := true } else d2

/-- `Beatmap::parse_difficulty`, driven by the arm table -/
def parseDifficulty (d : DiffState) (line : Str) : DiffState × Except Err Unit :=
  match difficultyArms.find? (fun a => a.key.toList == (keyValue (trimComment line)).1) with
  | none => (d, .ok ())
  | some a =>
    match (if a.f64 then parseF64 (keyValue (trimComment line)).2
           else parseF32 (keyValue (trimComment line)).2) with
    | .error e => (d, .error (.number e))
    | .ok x => (a.apply d x, .ok ())

inductive GKey
  | stackLeniency | mode
deriving Repr, DecidableEq, BEq

/-- one arm of `parse_general`: key, field, `value.parse_num()?` (f32) or `value.parse()?`
(`GameMode::from_str`) -/
structure GArm where
  key : String
  field : GKey
  parser : String
deriving Repr, DecidableEq

/-- the two `GeneralKey`s `parse_general` acts on; every other key, known or not, is a no-op
(`_ => {}` / the `KeyValue::parse` error path) -/
def generalArms : List GArm := [⟨"StackLeniency", .stackLeniency, "parse_num"⟩, ⟨"Mode", .mode, "parse"⟩]

def GKey.fieldName : GKey → String
  | .stackLeniency => "stack_leniency" | .mode => "mode"

/-- `GameMode::from_str` -/
def modeOfStr (s : Str) : Option Nat :=
  if s = ['0'] then some 0 else if s = ['1'] then some 1 else if s = ['2'] then some 2
  else if s = ['3'] then some 3 else none

/-- `Beatmap::parse_general` on `(stack_leniency, mode)` -/
def parseGeneral (g : Nat × Nat) (line : Str) : (Nat × Nat) × Except Err Unit :=
  match (generalArms.find? (fun a => a.key.toList == (keyValue (trimComment line)).1)).map (·.field) with
  | none => (g, .ok ())
  | some GKey.stackLeniency => match parseF32 (keyValue (trimComment line)).2 with
    | .error e => (g, .error (.number e)) | .ok x => ((x, g.2), .ok ())
  | some GKey.mode => match modeOfStr (keyValue (trimComment line)).2 with
    | none => (g, .error .mode) | some m => ((g.1, m), .ok ())

/-! ## the section driver -/

inductive Sec
  | general | editor | metadata | difficulty | events | timingPoints | colors | hitObjects
  | variables | catchTheBeat | mania
deriving Repr, DecidableEq, BEq

def sectionNames : List (String × Sec) :=
  [("General", .general), ("Editor", .editor), ("Metadata", .metadata), ("Difficulty", .difficulty),
   ("Events", .events), ("TimingPoints", .timingPoints), ("Colours", .colors),
   ("HitObjects", .hitObjects), ("Variables", .variables), ("CatchTheBeat", .catchTheBeat),
   ("Mania", .mania)]

/-- `Section::try_from_line`: `[Name]` exactly -/
def secOfLine (l : Str) : Option Sec :=
  match l with
  | '[' :: rest =>
    match rest.reverse with
    | ']' :: mid => lookupKey sectionNames mid.reverse
    | _ => none
  | _ => none

/-- `DecodeBeatmap::should_skip_line` -/
def shouldSkip (l : Str) : Bool := l.isEmpty || startsWith "//".toList (trimStart l)

/-- the whole `BeatmapState` (control points through `Model/Decode.lean`'s `CPState`) -/
structure BState where
  version : Int
  stackLeniency : Nat
  mode : Nat
  diff : DiffState
  breaks : List (Nat × Nat)
  cps : CPS
  hs : HState

/-- `DecodeState::create(version)`; `DEFAULT_SLIDER_LENIENCY = 0.7f32` -/
def BState.init (version : Int) : BState :=
  ⟨version, 0x3F333333, 0, DiffState.init, [], CPState.init, HState.init⟩

/-- one line handed to the parser of section `sec` (errors are ignored by the caller) -/
def stepLine (sec : Sec) (s : BState) (l : Str) : BState × Except Err Unit :=
  match sec with
  | .general =>
    let r := parseGeneral (s.stackLeniency, s.mode) l
    ({ s with stackLeniency := r.1.1, mode := r.1.2 }, r.2)
  | .difficulty =>
    let r := parseDifficulty s.diff l
    ({ s with diff := r.1 }, r.2)
  | .events =>
    match parseEvent l with
    | .error e => (s, .error e)
    | .ok none => (s, .ok ())
    | .ok (some b) => ({ s with breaks := s.breaks ++ [b] }, .ok ())
  | .timingPoints =>
    let r := parseTimingPoint (s.mode == 1 || s.mode == 3) s.cps l
    ({ s with cps := r.1 }, r.2)
  | .hitObjects =>
    let r := parseHitObject s.hs l
    ({ s with hs := r.1 }, r.2)
  | _ => (s, .ok ())

/-- `try_version_from_line` inside the loop of `parse_version`: consumes lines; returns the version
(if one was parsed) and the lines the section search continues with (`use_curr_line` = the
offending line is kept). -/
def parseVersion : List Str → Option Int × List Str
  | [] => (none, [])
  | l :: ls =>
    if !startsWith "osu file format v".toList l then
      if l.isEmpty then parseVersion ls else (none, l :: ls)
    else
      -- `line.rsplit('v').next().map(i32::parse)`
      match parseI32 ((splitC 'v' l).getLast?.getD []) with
      | .ok v => (some v, ls)
      | .error _ => (none, l :: ls)

/-- `parse_first_section`: skip to the first section header -/
def firstSection : List Str → Option (Sec × List Str)
  | [] => none
  | l :: ls =>
    match secOfLine l with
    | some s => some (s, ls)
    | none => firstSection ls

/-- `parse_section` loop over all sections: which (section, line) pairs reach a parser -/
def route (sec : Sec) : List Str → List (Sec × Str)
  | [] => []
  | l :: ls =>
    if shouldSkip l then route sec ls
    else match secOfLine l with
      | some s' => route s' ls
      | none => (sec, l) :: route sec ls

/-- number of bytes of the file whose lines (separated by `\n`) are `raw` -/
def fileBytes (raw : List Str) : Nat :=
  (raw.map fun l => (l.map Char.utf8Size).sum).sum + (raw.length - 1)

/-- the lines as `Decoder::curr_line` yields them (`trim_end`; the UTF-8 BOM is consumed by
`Decoder::new`) -/
def readerLines (raw : List Str) : List Str :=
  -- `Decoder::read_bom` consumes (and loses) a whole file shorter than three bytes
  if fileBytes raw < 3 then [] else
  (match raw with
   | (c :: l) :: ls => if c.toNat = 0xFEFF then l :: ls else raw
   | _ => raw).map trimEnd

/-- `DecodeBeatmap::decode` on the lines the reader yields, up to `state.into()` -/
def decodeLines (ls : List Str) : BState :=
  let st := BState.init ((parseVersion ls).1.getD 14)
  match firstSection (parseVersion ls).2 with
  | none => st
  | some (sec, body) => (route sec body).foldl (fun s p => (stepLine p.1 s p.2).1) st

/-- `DecodeBeatmap::decode` up to `state.into()`: the final `BeatmapState` -/
def decodeState (raw : List Str) : BState := decodeLines (readerLines raw)

/-- the six sections whose `parse_*` is `Ok(())` without touching the state -/
def Sec.isNoop : Sec → Bool
  | .editor | .metadata | .colors | .variables | .catchTheBeat | .mania => true
  | _ => false

def Sec.parserName : Sec → String
  | .general => "parse_general" | .editor => "parse_editor" | .metadata => "parse_metadata"
  | .difficulty => "parse_difficulty" | .events => "parse_events"
  | .timingPoints => "parse_timing_points" | .colors => "parse_colors"
  | .hitObjects => "parse_hit_objects" | .variables => "parse_variables"
  | .catchTheBeat => "parse_catch_the_beat" | .mania => "parse_mania"

/-- the sections in the order their `parse_*` methods appear in the source -/
def allSecs : List Sec :=
  [.general, .editor, .metadata, .difficulty, .events, .timingPoints, .colors, .hitObjects,
   .variables, .catchTheBeat, .mania]

/-- the decoded `Beatmap` as far as the model goes -/
structure Decoded where
  version : Int
  stackLeniency : Nat
  mode : Nat
  diff : Diff
  breaks : List (Nat × Nat)
  cps : CPS
  /-- `none` = `From<BeatmapState>` would panic (proved impossible) -/
  objects : Option (List (Int × HObj) × List Nat)

/-- `From<BeatmapState> for Beatmap` -/
def finish (s : BState) : Decoded :=
  let mania := s.mode == 3
  { version := s.version
    stackLeniency := s.stackLeniency
    mode := s.mode
    diff := clampDiff mania
      ⟨keyOfBits32 s.diff.hp, keyOfBits32 s.diff.cs, keyOfBits32 s.diff.od, keyOfBits32 s.diff.ar,
       keyOfBits64 s.diff.sm, keyOfBits64 s.diff.tr⟩
    breaks := s.breaks
    cps := flush exactParams s.cps
    objects := sortObjects mania (s.hs.objects.map fun o => (keyOfBits64 o.time, o)) s.hs.sounds }

/-- `Beatmap::from_bytes` on a UTF-8 file given as its lines -/
def decodeFile (raw : List Str) : Decoded := finish (decodeState raw)

end Rosu.DecodeLine
