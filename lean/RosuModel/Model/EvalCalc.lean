import RosuModel.Model.PerfCalc
import RosuModel.Model.Aggregate

/-!
# C09 / C16 — the final formulas of `DifficultyValues::eval` (star ratings), all four modes

Transcribed statement by statement, over the arithmetic class `PPOps` of `Model/PerfCalc.lean`, from

* `src/osu/difficulty/mod.rs` `DifficultyValues::eval` (ratings `sqrt(dv) * DIFFICULTY_MULTIPLIER`,
  `slider_factor`, TD / RX / AP adjustments, `difficulty_to_performance`, `base_performance`, `star_rating`);
* `src/taiko/difficulty/mod.rs` `DifficultyValues::eval`, `combined_difficulty_value` (the per-section
  arithmetic `norm(2, [norm(1.5, [color, stamina]), rhythm, reading])`), `rescale`;
  `src/util/difficulty.rs` `norm`;
* `src/catch/difficulty/mod.rs` `DifficultyValues::eval`; `src/mania/difficulty/mod.rs` `difficulty`.

Inputs are what the skills deliver: their `difficulty_value`s (numbers), for taiko additionally the four
exported peak lists (aggregated by `Agg.taikoCombined`, the definition C16's theorems are about) and
`count_top_weighted_strains` of the stamina skill.  `Iterator::sum::<f64>()`'s identity is the parameter
`sum0` (`-0.0` in current std, `0` over ℝ).

The `Float` instance is what `STARS` lines execute (`Model/StarsWire.lean` calls these definitions), so
the formulas are compared bit for bit with the attributes the real difficulty calculation reports on every
generated and resource map; the instance over ℝ is what `Props/C09c.lean` is about.
Side-condition predicates `…Dom` as in `Model/PerfCalc.lean`.  Core Lean only.
-/

namespace Rosu.PerfCalc
open Rosu.Agg

section
variable {R : Type} [PPOps R]
open PPOps

/-! ## osu! -/

/-- `DIFFICULTY_MULTIPLIER` (src/osu/difficulty/mod.rs) -/
def osuDifficultyMultiplier : R := 0.0675

/-- `difficulty_value.sqrt() * DIFFICULTY_MULTIPLIER` -/
def osuRating (difficultyValue : R) : R := sqrt difficultyValue * osuDifficultyMultiplier

/-- `slider_factor` -/
def osuSliderFactor (aimRating aimRatingNoSliders : R) : R :=
  if lt 0.0 aimRating then aimRatingNoSliders / aimRating else 1.0

/-- the mods `eval` reads -/
structure OsuEvalMods where
  td : Bool
  rx : Bool
  ap : Bool
  fl : Bool
  deriving DecidableEq, Repr, Inhabited

/-- `(aim_rating, speed_rating, flashlight_rating)` after the TD and RX / AP adjustments -/
def osuAdjustRatings (m : OsuEvalMods) (aimRating speedRating flashlightRating : R) : R × R × R :=
  let (aimRating, flashlightRating) : R × R :=
    if m.td then (powf aimRating 0.8, powf flashlightRating 0.8) else (aimRating, flashlightRating)
  if m.rx then (aimRating * 0.9, 0.0, flashlightRating * 0.7)
  else if m.ap then (0.0, speedRating * 0.5, flashlightRating * 0.4)
  else (aimRating, speedRating, flashlightRating)

/-- `base_performance` -/
def osuBasePerformance (m : OsuEvalMods) (aimRating speedRating flashlightRating : R) : R :=
  let baseAimPerformance := strainDifficultyToPerformance aimRating
  let baseSpeedPerformance := strainDifficultyToPerformance speedRating
  let baseFlashlightPerformance : R :=
    if m.fl then flashlightDifficultyToPerformance flashlightRating else 0.0
  powf (powf baseAimPerformance 1.1 + powf baseSpeedPerformance 1.1 + powf baseFlashlightPerformance 1.1)
    (1.0 / 1.1)

/-- the argument of the non-constant `cbrt` of `star_rating` -/
def osuStarArg (basePerformance : R) : R := 100000.0 / powf 2.0 (1.0 / 1.1) * basePerformance

/-- `star_rating`, with the value `c` of `cbrt(osuStarArg base_performance)` supplied
(`PERFORMANCE_BASE_MULTIPLIER = 1.15`) -/
def osuStarRatingFrom (basePerformance c : R) : R :=
  if lt 0.00001 basePerformance then cbrt 1.15 * 0.027 * (c + 4.0) else 0.0

/-- `star_rating` -/
def osuStarRating (basePerformance : R) : R :=
  osuStarRatingFrom basePerformance (cbrt (osuStarArg basePerformance))

structure OsuEvalOut (R : Type) where
  aim : R
  speed : R
  flashlight : R
  sliderFactor : R
  stars : R

/-- `DifficultyValues::eval` (the fields computed from the four difficulty values) -/
def osuEval (m : OsuEvalMods) (aimDV aimNoSlidersDV speedDV flashlightDV : R) : OsuEvalOut R :=
  let aimRating := osuRating aimDV
  let aimRatingNoSliders := osuRating aimNoSlidersDV
  let sliderFactor := osuSliderFactor aimRating aimRatingNoSliders
  let speedRating := osuRating speedDV
  let flashlightRating := osuRating flashlightDV
  let adj := osuAdjustRatings m aimRating speedRating flashlightRating
  let basePerformance := osuBasePerformance m adj.1 adj.2.1 adj.2.2
  { aim := adj.1, speed := adj.2.1, flashlight := adj.2.2, sliderFactor := sliderFactor,
    stars := osuStarRating basePerformance }

def osuEvalDom (m : OsuEvalMods) (aimDV aimNoSlidersDV speedDV flashlightDV : R) : Bool :=
  let aimRating := osuRating aimDV
  let speedRating := osuRating speedDV
  let flashlightRating := osuRating flashlightDV
  let adj := osuAdjustRatings m aimRating speedRating flashlightRating
  let pa := strainDifficultyToPerformance adj.1
  let ps := strainDifficultyToPerformance adj.2.1
  let pf : R := if m.fl then flashlightDifficultyToPerformance adj.2.2 else 0.0
  le 0.0 aimDV && le 0.0 aimNoSlidersDV && le 0.0 speedDV && le 0.0 flashlightDV
  && (if lt 0.0 aimRating then nz aimRating else true)
  && (if m.td then powfDom aimRating (0.8 : R) && powfDom flashlightRating (0.8 : R) else true)
  && powfDom pa (1.1 : R) && powfDom ps (1.1 : R) && powfDom pf (1.1 : R)
  && powfDom (powf pa 1.1 + powf ps 1.1 + powf pf 1.1) (1.0 / 1.1 : R)
  && nz (powf 2.0 (1.0 / 1.1) : R)

/-! ## taiko -/

def taikoDifficultyMultiplier : R := 0.084375
def taikoRhythmMultiplier : R := 0.65 * taikoDifficultyMultiplier
def taikoReadingMultiplier : R := 0.100 * taikoDifficultyMultiplier
def taikoColorMultiplier : R := 0.375 * taikoDifficultyMultiplier
def taikoStaminaMultiplier : R := 0.445 * taikoDifficultyMultiplier

/-- `norm(p, values)`: `values.into_iter().map(|x| powf(x, p)).sum::<f64>().powf(p.recip())` -/
def norm (sum0 p : R) (values : List R) : R :=
  powf (values.foldl (fun acc x => acc + powf x p) sum0) (1.0 / p)

/-- the loop body of `combined_difficulty_value`: one peak from the four section peaks -/
def taikoComb (sum0 : R) (isRelax isConvert : Bool) (patternMultiplier strainLengthBonus : R)
    (rhythmPeak readingPeak colorPeak staminaPeak : R) : R :=
  let rhythmPeak := rhythmPeak * taikoRhythmMultiplier
  let rhythmPeak := rhythmPeak * patternMultiplier
  let readingPeak := readingPeak * taikoReadingMultiplier
  let colorPeak := colorPeak * (if isRelax then 0.0 else taikoColorMultiplier)
  let staminaPeak := staminaPeak * taikoStaminaMultiplier
  let staminaPeak := staminaPeak * strainLengthBonus
  let staminaPeak := staminaPeak / (if isConvert || isRelax then 1.5 else 1.0)
  norm sum0 2.0 [norm sum0 1.5 [colorPeak, staminaPeak], rhythmPeak, readingPeak]

/-- `rescale(stars)` -/
def taikoRescale (stars : R) : R := if lt stars 0.0 then stars else 10.43 * ln (stars / 8.0 + 1.0)

/-- `mono_stamina_factor` -/
def taikoMonoStaminaFactor (staminaRating monoStaminaRating : R) : R :=
  if le f64Epsilon (abs staminaRating) then powf (monoStaminaRating / staminaRating) 5.0 else 1.0

/-- `pattern_multiplier` -/
def taikoPatternMultiplier (staminaRating colorRating : R) : R := powf (staminaRating * colorRating) 0.10

/-- `strain_length_bonus` -/
def taikoStrainLengthBonus (staminaDifficultStrains staminaRating : R) : R :=
  1.0 + fmin (fmax ((staminaDifficultStrains - 1000.0) / 3700.0) 0.0) 0.15
    + fmin (fmax ((staminaRating - 7.0) / 1.0) 0.0) 0.05

/-- the aggregation operations of `Model/Aggregate.lean` over a `PPOps` carrier
(`nonZero`/`ge` are only used by `difficulty_value`-style sorting; `pos` is `peak > 0.0`) -/
def aggOps : Ops R :=
  { zero := 0.0, one := 1.0, add := (· + ·), mul := (· * ·)
    nonZero := fun x => !(beq x 0.0), ge := fun a b => le b a, pos := fun x => lt 0.0 x }

structure TaikoEvalOut (R : Type) where
  rhythm : R
  reading : R
  color : R
  stamina : R
  monoStaminaFactor : R
  stars : R

/-- what `eval` needs from the skills -/
structure TaikoEvalIn (R : Type) where
  rhythmDV : R
  readingDV : R
  colorDV : R
  staminaDV : R
  monoStaminaDV : R
  /-- `stamina.count_top_weighted_strains(stamina_difficulty_value)` -/
  staminaDifficultStrains : R

/-- the star rating from the combined rating: `rescale(combined_rating * 1.4)` -/
def taikoStarsOf (combinedRating : R) : R := taikoRescale (combinedRating * 1.4)

/-- `DifficultyValues::eval`; `combine pm slb` is `combined_difficulty_value(.., pattern_multiplier,
strain_length_bonus)` on the four peak vectors -/
def taikoEval (i : TaikoEvalIn R) (combine : R → R → R) : TaikoEvalOut R :=
  let rhythmRating := i.rhythmDV * taikoRhythmMultiplier
  let readingRating := i.readingDV * taikoReadingMultiplier
  let colorRating := i.colorDV * taikoColorMultiplier
  let staminaRating := i.staminaDV * taikoStaminaMultiplier
  let monoStaminaRating := i.monoStaminaDV * taikoStaminaMultiplier
  let monoStaminaFactor := taikoMonoStaminaFactor staminaRating monoStaminaRating
  let patternMultiplier := taikoPatternMultiplier staminaRating colorRating
  let strainLengthBonus := taikoStrainLengthBonus i.staminaDifficultStrains staminaRating
  let combinedRating := combine patternMultiplier strainLengthBonus
  { rhythm := rhythmRating, reading := readingRating, color := colorRating, stamina := staminaRating,
    monoStaminaFactor := monoStaminaFactor, stars := taikoStarsOf combinedRating }

/-- `combined_difficulty_value` on four exported peak lists -/
def taikoCombinedRating (sum0 : R) (isRelax isConvert : Bool) (r rd c s : List R)
    (patternMultiplier strainLengthBonus : R) : R :=
  taikoCombined aggOps (taikoComb sum0 isRelax isConvert patternMultiplier strainLengthBonus) 0.9 r rd c s

/-- side conditions of one `taikoComb` call -/
def taikoCombDom (sum0 : R) (isRelax isConvert : Bool) (patternMultiplier strainLengthBonus : R)
    (rhythmPeak readingPeak colorPeak staminaPeak : R) : Bool :=
  let rhythmPeak := rhythmPeak * taikoRhythmMultiplier * patternMultiplier
  let readingPeak := readingPeak * taikoReadingMultiplier
  let colorPeak := colorPeak * (if isRelax then 0.0 else taikoColorMultiplier)
  let staminaPeak :=
    staminaPeak * taikoStaminaMultiplier * strainLengthBonus / (if isConvert || isRelax then 1.5 else 1.0)
  powfDom colorPeak (1.5 : R) && powfDom staminaPeak (1.5 : R)
    && powfDom (sum0 + powf colorPeak 1.5 + powf staminaPeak 1.5) (1.0 / 1.5 : R)
    && powfDom (sum0 + powf (norm sum0 1.5 [colorPeak, staminaPeak]) 2.0 + powf rhythmPeak 2.0
        + powf readingPeak 2.0) (1.0 / 2.0 : R)

/-- side conditions of `eval` itself (the per-section ones are `taikoCombDom`) -/
def taikoEvalDom (i : TaikoEvalIn R) (combinedRating : R) : Bool :=
  let colorRating := i.colorDV * taikoColorMultiplier
  let staminaRating := i.staminaDV * taikoStaminaMultiplier
  (if le f64Epsilon (abs staminaRating) then nz staminaRating else true)
  && powfDom (staminaRating * colorRating) (0.10 : R)
  && (if lt (combinedRating * 1.4) 0.0 then true else lt 0.0 (combinedRating * 1.4 / 8.0 + 1.0))

/-! ## catch, mania -/

/-- catch `eval`: `movement_difficulty_value.sqrt() * DIFFICULTY_MULTIPLIER` -/
def catchStars (movementDV : R) : R := sqrt movementDV * 4.59

def catchStarsDom (movementDV : R) : Bool := le 0.0 movementDV

/-- mania: `strain.into_difficulty_value() * DIFFICULTY_MULTIPLIER` -/
def maniaStars (strainDV : R) : R := strainDV * 0.018

end

end Rosu.PerfCalc
