/-
Line protocol shared by all model drivers: parsing helpers.  Core Lean only.
-/
namespace Rosu.Wire

def splitList (s : String) (sep : String) : List String :=
  if s == "-" || s == "" then [] else s.splitOn sep

def nat! (s : String) : Nat := s.toNat?.getD 0

def natList (s : String) (sep : String := ",") : List Nat := (splitList s sep).map nat!

def optNat (s : String) : Option Nat := if s == "-" || s == "" then none else s.toNat?

def bool! (s : String) : Bool := s == "1"

def joinWith (sep : String) (l : List String) : String := sep.intercalate l

end Rosu.Wire
