/-!
# C05 — mania `ContainedColumns` bit arithmetic and `find_available_column`

Sources: src/mania/convert/pattern.rs (`ContainedColumns(u16)`: `insert`, `contains`, `len`,
`append`), src/mania/convert/pattern_generator/hit_object.rs (`find_available_column`,
`get_next_column`), path_object.rs / end_time_object.rs (`find_available_column`, random variant).

Checked operations (`none` = the Rust code panics when overflow checks are on; in a release build
the shift amount is masked instead, which silently aliases column `c` with `c mod 16`):

* `1 << column` on a `u16`: needs `column < 16`;
* `last += 1` on a `u8` in `get_next_column`: needs `last < 255`;
* `assert!(has_valid_column)`.
-/
namespace Rosu.Safety

/-- `1u16 << column` with overflow checks -/
def shl16 (column : Nat) : Option Nat := if column < 16 then some (2 ^ column) else none

/-- `ContainedColumns(u16)` as a natural number `< 2^16` -/
abbrev Cols := Nat

/-- `self.0 |= 1 << column` -/
def Cols.insert (s : Cols) (column : Nat) : Option Cols :=
  match shl16 column with
  | none => none
  | some b => some (s ||| b)

/-- `self.0 & (1 << column) != 0` -/
def Cols.contains (s : Cols) (column : Nat) : Option Bool :=
  match shl16 column with
  | none => none
  | some b => some (s &&& b != 0)

/-- `self.0.count_ones()` -/
def Cols.len (s : Cols) : Nat := ((List.range 16).filter (fun i => s.testBit i)).length

/-- `self.0 |= mem::take(&mut other.0)`: returns (self, other) -/
def Cols.append (s other : Cols) : Cols × Cols := (s ||| other, 0)

/-- `patterns.iter().all(|pattern| !pattern.column_has_obj(column))` (`column as u8`: the callers pass
values `< 256`); `none` if a shift overflows -/
def isValid (patterns : List Cols) (column : Nat) : Option Bool :=
  match patterns with
  | [] => some true
  | p :: ps =>
    match Cols.contains p column with
    | none => none
    | some true => some false   -- `all` short-circuits
    | some false => isValid ps column

/-- `(lower..upper).any(is_valid)` (short-circuits at the first valid column) -/
def hasValidColumn (patterns : List Cols) (lower : Nat) : (n : Nat) → Option Bool
  | 0 => some false
  | n + 1 =>
    match isValid patterns lower with
    | none => none
    | some true => some true
    | some false => hasValidColumn patterns (lower + 1) n

/-- `HitObjectPatternGenerator::get_next_column` in its `GATHERED` branch:
`last += 1; if last == total_columns as u8 { last = random_start as u8 }` (`u8` addition checked) -/
def nextGathered (total randomStart : Nat) (last : Nat) : Option Nat :=
  if last + 1 > 255 then none
  else if last + 1 = total then some randomStart else some (last + 1)

inductive FacResult where
  /-- returned this column -/
  | found (column : Nat)
  /-- a checked operation failed (shift ≥ 16, u8 overflow) -/
  | panic
  /-- `assert!(has_valid_column)` failed -/
  | assertFailed
  /-- the `while` loop did not finish within the fuel -/
  | outOfFuel
  deriving Repr, DecidableEq

/-- The `while { initial_column = next(..); !is_valid(initial_column) } {}` loop, for an arbitrary
column source `next : σ → Nat → Option (σ × Nat)` (`GATHERED` stepping, or draws of the PRNG). -/
def facLoop {σ : Type} (next : σ → Nat → Option (σ × Nat)) (patterns : List Cols) :
    (fuel : Nat) → σ → Nat → FacResult
  | 0, _, _ => .outOfFuel
  | fuel + 1, st, col =>
    match next st col with
    | none => .panic
    | some (st', col') =>
      match isValid patterns col' with
      | none => .panic
      | some true => .found col'
      | some false => facLoop next patterns fuel st' col'

/-- `find_available_column(initial_column, upper, next_column, patterns)` of all three generators:
`lower = random_start`, initial check, `assert!((lower..upper).any(is_valid))`, then the loop. -/
def findAvailableColumn {σ : Type} (next : σ → Nat → Option (σ × Nat)) (patterns : List Cols)
    (lower upper : Nat) (fuel : Nat) (st : σ) (initial : Nat) : FacResult :=
  match isValid patterns initial with
  | none => .panic
  | some true => .found initial
  | some false =>
    match hasValidColumn patterns lower (upper - lower) with
    | none => .panic
    | some false => .assertFailed
    | some true => facLoop next patterns fuel st initial

/-- the deterministic `GATHERED` column source (no state) -/
def gatheredNext (total randomStart : Nat) : Unit → Nat → Option (Unit × Nat) :=
  fun _ last => (nextGathered total randomStart last).map (fun c => ((), c))

/-- a column source that replays a fixed stream of draws (the PRNG-driven variants:
`get_random_column(lower, upper)` yields values in `[lower, upper)`); the state is the position -/
def streamNext (stream : Nat → Nat) : Nat → Nat → Option (Nat × Nat) :=
  fun k _ => some (k + 1, stream k)

end Rosu.Safety
