import RosuModel.Model.SkillOps

/-
osu!mania from objects to stars, statement by statement (core Lean only, generic in `FOps R`):

* `ManiaDifficultyObject::new`, `DifficultyValues::create_difficulty_objects`
                                                   — /repo/src/mania/difficulty/{object,mod}.rs
* the `Strain` skill: `Strain::new`, `strain_value_of`, `calculate_initial_strain` (the inherent
  method, which shadows the `StrainDecaySkill` default), `apply_decay`
                                                   — /repo/src/mania/difficulty/skills/strain.rs
* `StrainDecaySkill::strain_value_at`, `strain_decay` — /repo/src/util/macros.rs,
                                                     /repo/src/any/difficulty/skills.rs
* `util::difficulty::logistic`                    — /repo/src/util/difficulty.rs
* `DifficultyValues::calculate` (the `take(passed_objects)`, the skill loop) and
  `stars = difficulty_value * 0.018`              — /repo/src/mania/difficulty/mod.rs

Input: the `ManiaObject`s of the prepared map (`start_time`, `end_time`, `column`),
`total_columns` and the clock rate.  Everything is `f64`.
-/

namespace Rosu.ManiaSkill
open Rosu.SkillOps
open Rosu.Skill (Obj)
open FOps

/-- `ManiaObject` -/
structure MObj (R : Type) where
  startTime : R
  endTime : R
  column : Nat

/-- `ManiaDifficultyObject` without `idx`/`start_time` (those live in `Skill.Obj`) -/
structure DObj (R : Type) where
  baseColumn : Nat
  deltaTime : R
  endTime : R
  /-- `curr.previous(0, objects).map_or(0.0, start_time)`: resolved when the list is built
  (`objects[idx - 1].start_time`, `0.0` for `idx = 0`) -/
  prevStartTime : R

section
variable {R : Type} [FOps R]

/-- `ManiaDifficultyObject::new(base, last, clock_rate, idx)`; `prevStart` is the `start_time` of
the difficulty object created before this one (`0.0` for the first). -/
def DObj.new (base last : MObj R) (clockRate : R) (idx : Nat) (prevStart : R) : Obj R (DObj R) :=
  { idx := idx
    startTime := base.startTime / clockRate
    data :=
      { baseColumn := base.column
        deltaTime := (base.startTime - last.startTime) / clockRate
        endTime := base.endTime / clockRate
        prevStartTime := prevStart } }

/-- the `scan` of `create_difficulty_objects` -/
def scanObjects (clockRate : R) : MObj R → Nat → R → List (MObj R) → List (Obj R (DObj R))
  | _, _, _, [] => []
  | last, i, prevStart, base :: rest =>
    let d := DObj.new base last clockRate i prevStart
    d :: scanObjects clockRate base (i + 1) d.startTime rest

/-- `DifficultyValues::create_difficulty_objects(clock_rate, mania_objects)` -/
def createDifficultyObjects (clockRate : R) : List (MObj R) → List (Obj R (DObj R))
  | [] => []
  | first :: rest => scanObjects clockRate first 0 0.0 rest

/-- The private fields of `Strain` plus `strain_decay_skill_current_strain`. -/
structure St (R : Type) where
  startTimes : List R
  endTimes : List R
  individualStrains : List R
  individualStrain : R
  overallStrain : R
  currentStrain : R

/-- `Strain::new(total_columns)` -/
def St.new (totalColumns : Nat) : St R :=
  { startTimes := List.replicate totalColumns 0.0
    endTimes := List.replicate totalColumns 0.0
    individualStrains := List.replicate totalColumns 0.0
    individualStrain := 0.0
    overallStrain := 1.0
    currentStrain := 0.0 }

def individualDecayBase : R := 0.125
def overallDecayBase : R := 0.3
def releaseThreshold : R := 30.0
def skillMultiplier : R := 1.0
def strainDecayBase : R := 1.0

/-- `apply_decay(value, delta_time, decay_base)` -/
def applyDecay (value deltaTime decayBase : R) : R := value * powf decayBase (deltaTime / 1000.0)

/-- `logistic(x, midpoint_offset, multiplier, None)` -/
def logistic (x midpointOffset multiplier : R) : R :=
  1.0 / (1.0 + exp (multiplier * (midpointOffset - x)))

/-- accumulators of the column loop: `is_overlapping`, `hold_factor`, `closest_end_time` -/
structure Acc (R : Type) where
  isOverlapping : Bool
  holdFactor : R
  closestEndTime : R

/-- body of `for i in 0..self.end_times.len()` for one `i`; `none` = index out of bounds -/
def colStep (st : St R) (startTime endTime : R) (acc : Acc R) (i : Nat) : Option (Acc R) :=
  match st.endTimes[i]?, st.startTimes[i]? with
  | some e, some s =>
    some
      { isOverlapping := acc.isOverlapping ||
          (lt (startTime + 1.0) e && lt (e + 1.0) endTime && lt (s + 1.0) startTime)
        holdFactor := if lt (endTime + 1.0) e && lt (s + 1.0) startTime then 1.25 else acc.holdFactor
        closestEndTime := fmin (abs (endTime - e)) acc.closestEndTime }
  | _, _ => none

def colLoop (st : St R) (startTime endTime : R) : List Nat → Acc R → Option (Acc R)
  | [], acc => some acc
  | i :: is, acc =>
    match colStep st startTime endTime acc i with
    | none => none
    | some acc => colLoop st startTime endTime is acc

/-- `Strain::strain_value_of(curr, _)`; `none` = `self.individual_strains[column]` /
`self.start_times[column]` out of bounds. -/
def strainValueOf (st : St R) (o : Obj R (DObj R)) : Option (St R × R) :=
  let startTime := o.startTime
  let endTime := o.data.endTime
  let column := o.data.baseColumn
  let acc0 : Acc R := { isOverlapping := false, holdFactor := 1.0, closestEndTime := abs (endTime - startTime) }
  match colLoop st startTime endTime (List.range st.endTimes.length) acc0 with
  | none => none
  | some acc =>
    let holdAddition : R :=
      if acc.isOverlapping then logistic acc.closestEndTime releaseThreshold 0.27 else 0.0
    match st.individualStrains[column]?, st.startTimes[column]? with
    | some ind, some colStart =>
      let ind := applyDecay ind (startTime - colStart) individualDecayBase
      let ind := ind + 2.0 * acc.holdFactor
      let individualStrain :=
        if le o.data.deltaTime 1.0 then fmax st.individualStrain ind else ind
      let overall := applyDecay st.overallStrain o.data.deltaTime overallDecayBase
      let overall := overall + (1.0 + holdAddition) * acc.holdFactor
      if column < st.endTimes.length then
        some
          ({ st with
              individualStrains := st.individualStrains.set column ind
              individualStrain := individualStrain
              overallStrain := overall
              startTimes := st.startTimes.set column startTime
              endTimes := st.endTimes.set column endTime },
            individualStrain + overall - st.currentStrain)
      else none
    | _, _ => none

/-- `StrainDecaySkill::strain_value_at`:
`current_strain *= strain_decay(curr.delta_time); current_strain += strain_value_of(..) * SKILL_MULTIPLIER` -/
def strainValueAt (st : St R) (o : Obj R (DObj R)) : Option (St R × R) :=
  let cur := st.currentStrain * strainDecay o.data.deltaTime strainDecayBase
  match strainValueOf { st with currentStrain := cur } o with
  | none => none
  | some (st', v) =>
    let cur := cur + v * skillMultiplier
    some ({ st' with currentStrain := cur }, cur)

/-- `Strain::calculate_initial_strain(offset, curr, objects)` -/
def initialStrain (st : St R) (offset : R) (o : Obj R (DObj R)) : R :=
  applyDecay st.individualStrain (offset - o.data.prevStartTime) individualDecayBase
    + applyDecay st.overallStrain (offset - o.data.prevStartTime) overallDecayBase

def fns : FnsV R (DObj R) (St R) := ⟨strainValueAt, initialStrain⟩

/-- `DIFFICULTY_MULTIPLIER` of mania/difficulty/mod.rs -/
def difficultyMultiplier : R := 0.018
/-- `StrainSkill::DECAY_WEIGHT` (trait default) -/
def decayWeight : R := 0.9

/-- `DifficultyValues::calculate`: `take(passed_objects)`, difficulty objects, skill loop.
`zero` is the literal `0.0` of the macro's field defaults. -/
def calculate (A : SecArith R) (fuel : Nat) (clockRate : R) (totalColumns : Nat) (take : Nat)
    (objs : List (MObj R)) : Res (StateV R (St R)) :=
  processAllV A fmax fns fuel (StateV.init 0.0 (St.new totalColumns))
    (createDifficultyObjects clockRate (objs.take take))

/-- `Strain::into_difficulty_value()` as a function of the exported peaks
(`Agg.difficultyValue`, Model/Aggregate.lean) -/
def difficultyValueOf (st : StateV R (St R)) : R :=
  Rosu.Agg.difficultyValue aggOps decayWeight (exportPeaksV st)

/-- `stars: values.strain.into_difficulty_value() * DIFFICULTY_MULTIPLIER` -/
def starsOf (st : StateV R (St R)) : R := difficultyValueOf st * difficultyMultiplier

end

end Rosu.ManiaSkill
