import RosuModel.Gen.ReadSet
import RosuModel.Model.FieldEq

/-
Which fields of a `Difficulty` can influence the results of a mode (C18).

The only way code outside `impl Difficulty` can look at a `Difficulty` is through its crate-private
accessors (`get_mods`, `get_clock_rate`, …; the fields are private to src/any/difficulty/mod.rs).
`Gen/ReadSet.lean` (regenerated from the source on every run) lists

* per accessor the fields it reads (`get_clock_rate` reads `clock_rate` *and* `mods`, …),
* per mode directory the accessors called anywhere below it,
* the accessor calls in shared code — only `BeatmapAttributesBuilder::difficulty`, which copies
  `ar/od/cs/hp/mods/clock_rate` into the attribute builder —, a conservative data flow of
  `hit_windows()` / `build()` (which builder fields each output field depends on), and per mode
  which output fields of those two calls are consumed.

`readSet mode` composes these tables: a field is in the set iff the mode calls an accessor reading
it, or consumes an attribute-builder output that (transitively) depends on a builder field filled
from an accessor reading it.  Everything unknown is resolved conservatively to "all fields".
-/

namespace Rosu.ReadSet
open Rosu.Gen.ReadSet

/-- Fields an accessor reads (an accessor missing from the table reads everything). -/
def accessorFields (a : String) : List String :=
  (difficultyReaders.lookup a).getD difficultyFields

/-- `Difficulty` fields that reach a field of the attribute builder through
`BeatmapAttributesBuilder::difficulty`. -/
def builderFieldReads (bf : String) : List String :=
  match builderFromDifficulty.lookup bf with
  | some accs => accs.flatMap accessorFields
  | none => difficultyFields

/-- Sources of one field (or, for `*`, of all fields) of the `HitWindows` value. -/
def hwSources (f : String) : List Src :=
  if f == "*" then hitWindowsFlow.flatMap (·.2) else (hitWindowsFlow.lookup f).getD [.selfAll]

/-- Builder fields behind a source inside `hit_windows()` (it does not call itself). -/
def selfOnly : Src → List String
  | .self g => [g]
  | _ => builderFields

def hwBuilderFields (f : String) : List String := (hwSources f).flatMap selfOnly

def buildSources (f : String) : List Src :=
  if f == "*" then buildFlow.flatMap (·.2) else (buildFlow.lookup f).getD [.selfAll]

def buildBuilderFields (f : String) : List String :=
  (buildSources f).flatMap fun
    | .self g => [g]
    | .selfAll => builderFields
    | .hw g => hwBuilderFields g
    | .hwAll => hwBuilderFields "*"

/-- Builder fields that can influence the consumed part of one builder use. -/
def useBuilderFields (kind : String) (consumed : List String) : List String :=
  if kind == "hit_windows" then consumed.flatMap hwBuilderFields
  else if kind == "build" then consumed.flatMap buildBuilderFields
  else builderFields

/-- Fields read through accessor calls in the mode's own code. -/
def directReads (mode : String) : List String :=
  ((modeAccessorCalls.lookup mode).getD ["?"]).flatMap accessorFields

/-- Fields read through the attribute builder. -/
def builderReads (mode : String) : List String :=
  ((modeBuilderUses.lookup mode).getD [("?", ["*"])]).flatMap fun u =>
    (useBuilderFields u.1 u.2).flatMap builderFieldReads

/-- The `Difficulty` fields that can influence a mode's results. -/
def readSet (mode : String) : List String :=
  (directReads mode ++ builderReads mode).eraseDups

end Rosu.ReadSet
