import RosuModel.Model.Aggregate
import RosuModel.Model.StrainsWire
import RosuModel.Model.EvalCalc
import RosuModel.Model.PerfCalcWire

/-
Driver glue for C16: the *model side* of "re-aggregating the exported strain peaks reproduces the
reported ratings".  The aggregation functions are the generic ones of Model/Aggregate.lean
(the same definitions the theorems are about), instantiated with Lean `Float` (an IEEE double)
operations on bit patterns; the final formulas of every mode are replayed with the same `f64`
operations in the same order as the Rust code:

  STARS c <movement>                                   catch::difficulty::DifficultyValues::eval
  STARS m <strains>                                    mania::difficulty::difficulty
  STARS o <sum0> <td><rx><ap><fl> <aim> <aim_no_sliders> <speed> <flashlight> <cbrt hint>
                                                       osu::difficulty::DifficultyValues::eval
  STARS t <sum0> <rx><convert> <rhythm> <reading> <color> <stamina> <single_color_stamina> <stamina object strains>
                                                       taiko::difficulty::DifficultyValues::eval,
                                                       combined_difficulty_value, rescale,
                                                       any::difficulty::skills::count_top_weighted_strains

`sqrt`, `pow`, `log`, `log10`, `exp` are the C library's functions on both sides and agree bit for
bit.  `cbrt` does not: Rust's `f64::cbrt` and the C library's `cbrt` differ by up to two units in
the last place (e.g. `cbrt(0.3)`; the C library's value is the inexact one).  For the one
non-constant `cbrt` call (osu! star rating) the model therefore does not call a library at all:
the request carries the value `c` Rust's `f64::cbrt` returned in the harness' replay; the model
computes the argument `x` itself and checks **in exact integer arithmetic** that `c` is the
correctly rounded cube root of `x` (`((c⁻ + c)/2)³ ≤ x ≤ ((c + c⁺)/2)³`), answers `cbrt-exact`
(or `cbrt-faithful` when only `(c⁻)³ < x < (c⁺)³`, `cbrt-BAD` otherwise) and continues with `c`.
Lean `Float` appears here and nowhere in a theorem.

Since the PP workstream (round 2) the final formulas are no longer written here: this file calls the
generic definitions of `Model/EvalCalc.lean` (`PerfCalc.osuRating`, `osuSliderFactor`, `osuAdjustRatings`,
`osuBasePerformance`, `osuStarArg`, `osuStarRatingFrom`, `taikoEval`, `taikoComb`, `taikoCombinedRating`,
`catchStars`, `maniaStars`) at the `Float` instance of `PPOps` — the definitions `Props/C09c.lean` proves
sign / side-condition theorems about over ℝ.  Only the aggregation of the peaks (C16's subject) and
`count_top_weighted_strains` stay local.
-/
namespace Rosu.StarsWire
open Rosu.Wire Rosu.SV Rosu.Skill Rosu.Agg Rosu.StrainsWire

def b (f : Float) : Nat := bitsOf f

/-- `Ops` on bit patterns with IEEE double arithmetic. -/
def floatOps : Ops Nat :=
  bitOps (fun x y => b (fOf x + fOf y)) (fun x y => b (fOf x * fOf y)) (fun x => fOf x > 0.0) (b 0.0) (b 1.0)

/-- `f64::max` / `f64::min` (a NaN operand is ignored) -/
def fmax (x y : Float) : Float := if x.isNaN then y else if y.isNaN then x else if x ≥ y then x else y
def fmin (x y : Float) : Float := if x.isNaN then y else if y.isNaN then x else if x ≤ y then x else y

def lerp (start stop amount : Float) : Float := start + (stop - start) * amount

/-- `lerp(baseline, 1.0, log10(lerp(1.0, 10.0, f64::from((i as f32 / k as f32).clamp(0.0, 1.0)))))` -/
def osuFactor (k : Nat) (baseline : Float) (i : Nat) : Nat :=
  let q : Float32 := Float32.ofNat i / Float32.ofNat k
  let q : Float32 := if q < 0.0 then 0.0 else if q > 1.0 then 1.0 else q
  let scale := Float.log10 (lerp 1.0 10.0 q.toFloat)
  b (lerp baseline 1.0 scale)

def genericDV (decay : Float) (peaks : List Nat) : Float := fOf (difficultyValue floatOps (b decay) peaks)

def osuDV (k : Nat) (peaks : List Nat) : Float :=
  fOf (osuDifficultyValue floatOps (osuFactor k 0.75) k (b 0.9) peaks)

/-! ### catch, mania -/

def catchStars (movement : List Nat) : Float := PerfCalc.catchStars (genericDV 0.94 movement)

def maniaStars (strains : List Nat) : Float := PerfCalc.maniaStars (genericDV 0.9 strains)

/-! ### osu! -/

/-! exact dyadic values of positive finite doubles -/

/-- `m · 2^e` -/
structure Dy where
  m : Nat
  e : Int

/-- value of a non-negative finite pattern -/
def Dy.ofBits (x : Nat) : Dy :=
  let ex : Nat := (x / 2 ^ 52) % 2048
  let fr : Nat := x % 2 ^ 52
  if ex = 0 then ⟨fr, -1074⟩ else ⟨2 ^ 52 + fr, (ex : Int) - 1075⟩

def Dy.cube (a : Dy) : Dy := ⟨a.m ^ 3, 3 * a.e⟩

/-- `(a + b) / 2` -/
def Dy.mid (a c : Dy) : Dy :=
  let e := min a.e c.e
  ⟨a.m * 2 ^ (a.e - e).toNat + c.m * 2 ^ (c.e - e).toNat, e - 1⟩

def Dy.le (a c : Dy) : Bool :=
  let e := min a.e c.e
  a.m * 2 ^ (a.e - e).toNat ≤ c.m * 2 ^ (c.e - e).toNat

def Dy.lt (a c : Dy) : Bool := !(c.le a)

/-- 2: `c` is the round-to-nearest cube root of `x`; 1: `c` is within one unit in the last place
of the real cube root; 0: neither (positive finite normal patterns). -/
def cbrtQuality (x c : Nat) : Nat :=
  if c = 0 || c + 1 ≥ INF || x ≥ INF then 0
  else
    let X := Dy.ofBits x
    let C := Dy.ofBits c
    let lo := Dy.ofBits (c - 1)
    let hi := Dy.ofBits (c + 1)
    if ((lo.mid C).cube.le X) && (X.le (C.mid hi).cube) then 2
    else if lo.cube.lt X && X.lt hi.cube then 1
    else 0

structure OsuOut where
  aim : Float
  speed : Float
  flashlight : Float
  sliderFactor : Float
  stars : Float
  cbrtQ : Nat

/-- `osu::difficulty::DifficultyValues::eval` (the parts that depend on strain peaks): the generic
formulas of `Model/EvalCalc.lean` at `Float`; the one non-constant `cbrt` is replaced by the checked hint -/
def osuEval (sum0 : Nat) (td rx ap fl : Bool) (aim aimNoSliders speed flashlight : List Nat)
    (cbrtHint : Nat) : OsuOut :=
  let m : PerfCalc.OsuEvalMods := { td := td, rx := rx, ap := ap, fl := fl }
  let aimDV := osuDV 10 aim
  let aimNsDV := osuDV 10 aimNoSliders
  let speedDV := osuDV 5 speed
  let flDV := fOf (flashlightValue floatOps sum0 flashlight)
  -- every field except `stars` straight from the definition the theorems are about
  let e := PerfCalc.osuEval m aimDV aimNsDV speedDV flDV
  let base := PerfCalc.osuBasePerformance m e.aim e.speed e.flashlight
  let x := PerfCalc.osuStarArg base
  let q := if base > 0.00001 then cbrtQuality (b x) cbrtHint else 2
  let stars := PerfCalc.osuStarRatingFrom base (fOf cbrtHint)
  ⟨e.aim, e.speed, e.flashlight, e.sliderFactor, stars, q⟩

/-! ### taiko -/

/-- the loop body of `combined_difficulty_value` on bit patterns: `PerfCalc.taikoComb` at `Float` -/
def taikoComb (sum0 : Float) (rx conv : Bool) (patternMult lengthBonus : Float) (r rd c s : Nat) : Nat :=
  b (PerfCalc.taikoComb sum0 rx conv patternMult lengthBonus (fOf r) (fOf rd) (fOf c) (fOf s))

/-- `any::difficulty::skills::count_top_weighted_strains` -/
def countTopWeighted (sum0 : Float) (objectStrains : List Nat) (dv : Float) : Float :=
  if objectStrains.isEmpty then 0.0
  else
    let top := dv / 10.0
    if (top - 0.0).abs ≤ 2.220446049250313e-16 then objectStrains.length.toFloat
    else objectStrains.foldl
      (fun acc s => acc + 1.1 / (1.0 + Float.exp (-10.0 * (fOf s / top - 0.88)))) sum0

structure TaikoOut where
  rhythm : Float
  reading : Float
  color : Float
  stamina : Float
  monoStaminaFactor : Float
  stars : Float
  /-- the aggregation over bit patterns (C16's `Agg.taikoCombined floatOps`) and the one over `Float`
  values (`PerfCalc.taikoCombinedRating`, the definition `Props/C09c.lean` is about) gave the same bits -/
  aggAgree : Bool

/-- `taiko::difficulty::DifficultyValues::eval`: `PerfCalc.taikoEval` at `Float` -/
def taikoEval (sum0 : Nat) (rx conv : Bool) (rhythm reading color stamina mono objectStrains : List Nat) :
    TaikoOut :=
  let s0 := fOf sum0
  let staminaDV := genericDV 0.9 stamina
  let i : PerfCalc.TaikoEvalIn Float :=
    { rhythmDV := genericDV 0.9 rhythm, readingDV := genericDV 0.9 reading, colorDV := genericDV 0.9 color,
      staminaDV := staminaDV, monoStaminaDV := genericDV 0.9 mono,
      staminaDifficultStrains := countTopWeighted s0 objectStrains staminaDV }
  let combineBits : Float → Float → Float := fun pm slb =>
    fOf (taikoCombined floatOps (taikoComb s0 rx conv pm slb) (b 0.9) rhythm reading color stamina)
  let combineVals : Float → Float → Float := fun pm slb =>
    PerfCalc.taikoCombinedRating s0 rx conv (rhythm.map fOf) (reading.map fOf) (color.map fOf)
      (stamina.map fOf) pm slb
  let o := PerfCalc.taikoEval i combineBits
  let o' := PerfCalc.taikoEval i combineVals
  ⟨o.rhythm, o.reading, o.color, o.stamina, o.monoStaminaFactor, o.stars, b o.stars == b o'.stars⟩

/-! ### request handler -/

/-- zero is printed without its sign (the property ignores the sign of zero) -/
def showZ (f : Float) : String := if f == 0.0 then natToHex16 0 else showF f


def flag (s : String) (i : Nat) : Bool := (s.toList.getD i '0') == '1'

def handleSTARS (args : List String) : String :=
  match args with
  | ["c", movement] => s!"S{showZ (catchStars (hexList movement))}"
  | ["m", strains] => s!"S{showZ (maniaStars (hexList strains))}"
  | ["o", sum0, flags, aim, aimNs, speed, fl, hint] =>
    let o := osuEval (hexToNat sum0) (flag flags 0) (flag flags 1) (flag flags 2) (flag flags 3)
      (hexList aim) (hexList aimNs) (hexList speed) (hexList fl) (hexToNat hint)
    let c := if o.cbrtQ = 2 then "cbrt-exact" else if o.cbrtQ = 1 then "cbrt-faithful" else "cbrt-BAD"
    s!"A{showZ o.aim} P{showZ o.speed} F{showZ o.flashlight} L{showZ o.sliderFactor} S{showZ o.stars} {c}"
  | ["t", sum0, flags, rhythm, reading, color, stamina, mono, objs] =>
    let o := taikoEval (hexToNat sum0) (flag flags 0) (flag flags 1) (hexList rhythm) (hexList reading)
      (hexList color) (hexList stamina) (hexList mono) (hexList objs)
    s!"R{showZ o.rhythm} D{showZ o.reading} C{showZ o.color} T{showZ o.stamina} M{showZ o.monoStaminaFactor} S{showZ o.stars}{if o.aggAgree then "" else " agg-MISMATCH"}"
  | _ => "bad-stars"

end Rosu.StarsWire
