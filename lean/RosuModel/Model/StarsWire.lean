import RosuModel.Model.Aggregate
import RosuModel.Model.StrainsWire

/-
Driver glue for C16: the *model side* of "re-aggregating the exported strain peaks reproduces the
reported ratings".  The aggregation functions are the generic ones of Model/Aggregate.lean
(the same definitions the theorems are about), instantiated with Lean `Float` (an IEEE double)
operations on bit patterns; the final formulas of every mode are replayed with the same `f64`
operations in the same order as the Rust code:

  STARS c <movement>                                   catch::difficulty::DifficultyValues::eval
  STARS m <strains>                                    mania::difficulty::difficulty
  STARS o <sum0> <td><rx><ap><fl> <aim> <aim_no_sliders> <speed> <flashlight> <cbrt hint>
                                                       osu::difficulty::DifficultyValues::eval
  STARS t <sum0> <rx><convert> <rhythm> <reading> <color> <stamina> <single_color_stamina> <stamina object strains>
                                                       taiko::difficulty::DifficultyValues::eval,
                                                       combined_difficulty_value, rescale,
                                                       any::difficulty::skills::count_top_weighted_strains

`sqrt`, `pow`, `log`, `log10`, `exp` are the C library's functions on both sides and agree bit for
bit.  `cbrt` does not: Rust's `f64::cbrt` and the C library's `cbrt` differ by up to two units in
the last place (e.g. `cbrt(0.3)`; the C library's value is the inexact one).  For the one
non-constant `cbrt` call (osu! star rating) the model therefore does not call a library at all:
the request carries the value `c` Rust's `f64::cbrt` returned in the harness' replay; the model
computes the argument `x` itself and checks **in exact integer arithmetic** that `c` is the
correctly rounded cube root of `x` (`((c⁻ + c)/2)³ ≤ x ≤ ((c + c⁺)/2)³`), answers `cbrt-exact`
(or `cbrt-faithful` when only `(c⁻)³ < x < (c⁺)³`, `cbrt-BAD` otherwise) and continues with `c`.
Lean `Float` appears here and nowhere in a theorem.
-/
namespace Rosu.StarsWire
open Rosu.Wire Rosu.SV Rosu.Skill Rosu.Agg Rosu.StrainsWire

def b (f : Float) : Nat := bitsOf f

/-- `Ops` on bit patterns with IEEE double arithmetic. -/
def floatOps : Ops Nat :=
  bitOps (fun x y => b (fOf x + fOf y)) (fun x y => b (fOf x * fOf y)) (fun x => fOf x > 0.0) (b 0.0) (b 1.0)

/-- `f64::max` / `f64::min` (a NaN operand is ignored) -/
def fmax (x y : Float) : Float := if x.isNaN then y else if y.isNaN then x else if x ≥ y then x else y
def fmin (x y : Float) : Float := if x.isNaN then y else if y.isNaN then x else if x ≤ y then x else y

def lerp (start stop amount : Float) : Float := start + (stop - start) * amount

/-- `lerp(baseline, 1.0, log10(lerp(1.0, 10.0, f64::from((i as f32 / k as f32).clamp(0.0, 1.0)))))` -/
def osuFactor (k : Nat) (baseline : Float) (i : Nat) : Nat :=
  let q : Float32 := Float32.ofNat i / Float32.ofNat k
  let q : Float32 := if q < 0.0 then 0.0 else if q > 1.0 then 1.0 else q
  let scale := Float.log10 (lerp 1.0 10.0 q.toFloat)
  b (lerp baseline 1.0 scale)

def genericDV (decay : Float) (peaks : List Nat) : Float := fOf (difficultyValue floatOps (b decay) peaks)

def osuDV (k : Nat) (peaks : List Nat) : Float :=
  fOf (osuDifficultyValue floatOps (osuFactor k 0.75) k (b 0.9) peaks)

/-! ### catch, mania -/

def catchStars (movement : List Nat) : Float := Float.sqrt (genericDV 0.94 movement) * 4.59

def maniaStars (strains : List Nat) : Float := genericDV 0.9 strains * 0.018

/-! ### osu! -/

/-- `osu::difficulty::skills::strain::difficulty_to_performance` -/
def osuD2P (d : Float) : Float := Float.pow (5.0 * fmax 1.0 (d / 0.0675) - 4.0) 3.0 / 100000.0

/-! exact dyadic values of positive finite doubles -/

/-- `m · 2^e` -/
structure Dy where
  m : Nat
  e : Int

/-- value of a non-negative finite pattern -/
def Dy.ofBits (x : Nat) : Dy :=
  let ex : Nat := (x / 2 ^ 52) % 2048
  let fr : Nat := x % 2 ^ 52
  if ex = 0 then ⟨fr, -1074⟩ else ⟨2 ^ 52 + fr, (ex : Int) - 1075⟩

def Dy.cube (a : Dy) : Dy := ⟨a.m ^ 3, 3 * a.e⟩

/-- `(a + b) / 2` -/
def Dy.mid (a c : Dy) : Dy :=
  let e := min a.e c.e
  ⟨a.m * 2 ^ (a.e - e).toNat + c.m * 2 ^ (c.e - e).toNat, e - 1⟩

def Dy.le (a c : Dy) : Bool :=
  let e := min a.e c.e
  a.m * 2 ^ (a.e - e).toNat ≤ c.m * 2 ^ (c.e - e).toNat

def Dy.lt (a c : Dy) : Bool := !(c.le a)

/-- 2: `c` is the round-to-nearest cube root of `x`; 1: `c` is within one unit in the last place
of the real cube root; 0: neither (positive finite normal patterns). -/
def cbrtQuality (x c : Nat) : Nat :=
  if c = 0 || c + 1 ≥ INF || x ≥ INF then 0
  else
    let X := Dy.ofBits x
    let C := Dy.ofBits c
    let lo := Dy.ofBits (c - 1)
    let hi := Dy.ofBits (c + 1)
    if ((lo.mid C).cube.le X) && (X.le (C.mid hi).cube) then 2
    else if lo.cube.lt X && X.lt hi.cube then 1
    else 0

structure OsuOut where
  aim : Float
  speed : Float
  flashlight : Float
  sliderFactor : Float
  stars : Float
  cbrtQ : Nat

/-- `osu::difficulty::DifficultyValues::eval` (the parts that depend on strain peaks) -/
def osuEval (sum0 : Nat) (td rx ap fl : Bool) (aim aimNoSliders speed flashlight : List Nat)
    (cbrtHint : Nat) : OsuOut :=
  let mult : Float := 0.0675
  let aimRating := Float.sqrt (osuDV 10 aim) * mult
  let aimNoSl := Float.sqrt (osuDV 10 aimNoSliders) * mult
  let sliderFactor := if aimRating > 0.0 then aimNoSl / aimRating else 1.0
  let speedRating := Float.sqrt (osuDV 5 speed) * mult
  let flRating := Float.sqrt (fOf (flashlightValue floatOps sum0 flashlight)) * mult
  let (aimRating, flRating) := if td then (Float.pow aimRating 0.8, Float.pow flRating 0.8) else (aimRating, flRating)
  let (aimRating, speedRating, flRating) :=
    if rx then (aimRating * 0.9, 0.0, flRating * 0.7)
    else if ap then (0.0, speedRating * 0.5, flRating * 0.4)
    else (aimRating, speedRating, flRating)
  let pa := osuD2P aimRating
  let ps := osuD2P speedRating
  let pf := if fl then 25.0 * Float.pow flRating 2.0 else 0.0
  let base := Float.pow (Float.pow pa 1.1 + Float.pow ps 1.1 + Float.pow pf 1.1) (1.0 / 1.1)
  let x := 100000.0 / Float.pow 2.0 (1.0 / 1.1) * base
  let q := if base > 0.00001 then cbrtQuality (b x) cbrtHint else 2
  let stars := if base > 0.00001 then Float.cbrt 1.15 * 0.027 * (fOf cbrtHint + 4.0) else 0.0
  ⟨aimRating, speedRating, flRating, sliderFactor, stars, q⟩

/-! ### taiko -/

/-- `util::difficulty::norm(p, values)`: `values.map(|x| x.powf(p)).sum::<f64>().powf(p.recip())` -/
def norm (sum0 : Float) (p : Float) (values : List Float) : Float :=
  Float.pow (values.foldl (fun acc x => acc + Float.pow x p) sum0) (1.0 / p)

def taikoMult : Float := 0.084375
def rhythmMult : Float := 0.65 * taikoMult
def readingMult : Float := 0.100 * taikoMult
def colorMult : Float := 0.375 * taikoMult
def staminaMult : Float := 0.445 * taikoMult

/-- the loop body of `combined_difficulty_value` -/
def taikoComb (sum0 : Float) (rx conv : Bool) (patternMult lengthBonus : Float) (r rd c s : Nat) : Nat :=
  let rhythm := fOf r * rhythmMult * patternMult
  let reading := fOf rd * readingMult
  let color := fOf c * (if rx then 0.0 else colorMult)
  let stamina := fOf s * staminaMult * lengthBonus / (if conv || rx then 1.5 else 1.0)
  b (norm sum0 2.0 [norm sum0 1.5 [color, stamina], rhythm, reading])

/-- `any::difficulty::skills::count_top_weighted_strains` -/
def countTopWeighted (sum0 : Float) (objectStrains : List Nat) (dv : Float) : Float :=
  if objectStrains.isEmpty then 0.0
  else
    let top := dv / 10.0
    if (top - 0.0).abs ≤ 2.220446049250313e-16 then objectStrains.length.toFloat
    else objectStrains.foldl
      (fun acc s => acc + 1.1 / (1.0 + Float.exp (-10.0 * (fOf s / top - 0.88)))) sum0

/-- `taiko::difficulty::rescale` -/
def rescale (stars : Float) : Float := if stars < 0.0 then stars else 10.43 * Float.log (stars / 8.0 + 1.0)

structure TaikoOut where
  rhythm : Float
  reading : Float
  color : Float
  stamina : Float
  monoStaminaFactor : Float
  stars : Float

/-- `taiko::difficulty::DifficultyValues::eval` -/
def taikoEval (sum0 : Nat) (rx conv : Bool) (rhythm reading color stamina mono objectStrains : List Nat) :
    TaikoOut :=
  let s0 := fOf sum0
  let rhythmDV := genericDV 0.9 rhythm
  let readingDV := genericDV 0.9 reading
  let colorDV := genericDV 0.9 color
  let staminaDV := genericDV 0.9 stamina
  let rhythmRating := rhythmDV * rhythmMult
  let readingRating := readingDV * readingMult
  let colorRating := colorDV * colorMult
  let staminaRating := staminaDV * staminaMult
  let monoRating := genericDV 0.9 mono * staminaMult
  let monoFactor :=
    if staminaRating.abs ≥ 2.220446049250313e-16 then Float.pow (monoRating / staminaRating) 5.0 else 1.0
  let difficultStrains := countTopWeighted s0 objectStrains staminaDV
  let patternMult := Float.pow (staminaRating * colorRating) 0.10
  let lengthBonus :=
    1.0 + fmin (fmax ((difficultStrains - 1000.0) / 3700.0) 0.0) 0.15
      + fmin (fmax ((staminaRating - 7.0) / 1.0) 0.0) 0.05
  let combined := fOf (taikoCombined floatOps (taikoComb s0 rx conv patternMult lengthBonus) (b 0.9)
    rhythm reading color stamina)
  ⟨rhythmRating, readingRating, colorRating, staminaRating, monoFactor, rescale (combined * 1.4)⟩

/-! ### request handler -/

/-- zero is printed without its sign (the property ignores the sign of zero) -/
def showZ (f : Float) : String := if f == 0.0 then natToHex16 0 else showF f


def flag (s : String) (i : Nat) : Bool := (s.toList.getD i '0') == '1'

def handleSTARS (args : List String) : String :=
  match args with
  | ["c", movement] => s!"S{showZ (catchStars (hexList movement))}"
  | ["m", strains] => s!"S{showZ (maniaStars (hexList strains))}"
  | ["o", sum0, flags, aim, aimNs, speed, fl, hint] =>
    let o := osuEval (hexToNat sum0) (flag flags 0) (flag flags 1) (flag flags 2) (flag flags 3)
      (hexList aim) (hexList aimNs) (hexList speed) (hexList fl) (hexToNat hint)
    let c := if o.cbrtQ = 2 then "cbrt-exact" else if o.cbrtQ = 1 then "cbrt-faithful" else "cbrt-BAD"
    s!"A{showZ o.aim} P{showZ o.speed} F{showZ o.flashlight} L{showZ o.sliderFactor} S{showZ o.stars} {c}"
  | ["t", sum0, flags, rhythm, reading, color, stamina, mono, objs] =>
    let o := taikoEval (hexToNat sum0) (flag flags 0) (flag flags 1) (hexList rhythm) (hexList reading)
      (hexList color) (hexList stamina) (hexList mono) (hexList objs)
    s!"R{showZ o.rhythm} D{showZ o.reading} C{showZ o.color} T{showZ o.stamina} M{showZ o.monoStaminaFactor} S{showZ o.stars}"
  | _ => "bad-stars"

end Rosu.StarsWire
