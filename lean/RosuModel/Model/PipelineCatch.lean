import RosuModel.Model.ConvCatch
import RosuModel.Model.SliderEvents
import RosuModel.Model.CatchSkill

/-!
# osu!catch end to end: decoded objects → `CatchDifficultyAttributes` (C02 / C14 / C16).  Core only.

Composition of the existing models along `catch::difficulty::DifficultyValues::calculate` + `eval`
(`/repo/src/catch/difficulty/mod.rs`):

* `JuiceStream::new` (`/repo/src/catch/object/juice_stream.rs`): the slider events are
  `Model/SliderEvents.lean` (`catchParams`, `Params.events`, `tinyDroplets`); HERE: the
  `record_fruit / record_droplet / record_tiny_droplets` calls AND the nested objects pushed per
  event (`juiceWalk`: per event the tiny droplets, then — except for `LastTick` — one object with
  `start_time = e.time` and `pos = effective_x + path.position_at(progress).x`, the latter an INPUT
  bit pattern: the only thing taken from rosu-map's curve besides `path.dist()`);
* `convert_objects` (`Model/ConvCatch.lean`): per-object loop, hard-rock offsets with the exact
  PRNG sequence, reflection, stable sort;
* `initialize_hyper_dash`, `create_difficulty_objects` over `palpable.iter().take(take)`, the
  `Movement` skill, `stars = sqrt(difficulty_value) * 4.59` (`Model/CatchSkill.lean`);
* `ObjectCountBuilder::Regular` (`Model/Gradual.lean: catchRegular`) and, for the gradual
  calculator, `ObjectCountBuilder::Gradual` (`catchGradualRecs`) with `CatchSkill.gradualState`.

Inputs that stay inputs: `ar` and `cs` (`map.attributes().difficulty(..).build()`: the attribute
model `Model/Attrs.lean` is over ℚ, so the f64 `ar` and `cs as f32` are handed in), the clock
rate, `hardrock_offsets`, the reflection, the banana count of a spinner (`BananaShower::new`,
`Model/SafetyLoops.lean`), `map.is_convert`.
-/
namespace Rosu.PipelineCatch
open Rosu.Gradual (CatchEvent CatchCounts CatchRec catchRegular catchGradualRecs)
open Rosu.SliderEvents (SliderIn Event Kind Outcome catchParams tinyDroplets sinceLastTick recordOf)
open Rosu.SkillOps

variable {F S : Type}

/-- a decoded hit object as the catch converter reads it -/
inductive PObj (F S : Type) where
  /-- circle: `pos.x`, start time -/
  | fruit (x : S) (start : F)
  /-- slider: `pos.x`, x of the last control point (0 if none), the slider inputs, and the x position
  of every nested object that is pushed with a position (`effective_x + path.position_at(..).x`) -/
  | stream (x : S) (lastCp : S) (s : SliderIn F) (nestedX : List S)
  /-- spinner / hold: number of bananas -/
  | shower (nBananas : Nat)

/-- the `for e in events` loop of `JuiceStream::new`: records and nested objects.  `last` is
`last_event_time`, `xs` the remaining nested positions.  `none` = out of fuel (tiny-droplet loops)
or too few positions. -/
def juiceWalk (A : Rosu.SliderEvents.Arith F) (fuel : Nat) (zeroS : S) :
    Option F → List (Event F) → List S → Option (List CatchEvent × List (Rosu.ConvCatch.Nested S F))
  | _, [], _ => some ([], [])
  | last, e :: es, xs =>
    let tiny : Option (List CatchEvent × List (Rosu.ConvCatch.Nested S F)) :=
      match last with
      | none => some ([], [])
      | some l =>
        match tinyDroplets A fuel (sinceLastTick A e.time l) with
        | none => none
        | some n => some ([.tiny n], List.replicate n ⟨2, zeroS, e.time⟩)
    match tiny with
    | none => none
    | some (tr, tn) =>
      match e.kind with
      | .lastTick =>
        (juiceWalk A fuel zeroS (some e.time) es xs).map fun r => (tr ++ r.1, tn ++ r.2)
      | k =>
        match xs with
        | [] => none
        | x :: xs' =>
          (juiceWalk A fuel zeroS (some e.time) es xs').map fun r =>
            (tr ++ recordOf k ++ r.1, tn ++ [⟨if k = .tick then 1 else 0, x, e.time⟩] ++ r.2)

/-- one decoded object → what `convert_object` hands to the loop, and its `record_*` calls -/
def convertObj (A : Rosu.SliderEvents.Arith F) (fuel : Nat) (zeroS : S) :
    PObj F S → Outcome (Rosu.ConvCatch.Obj S F × List CatchEvent)
  | .fruit x start => .ok (.fruit x start, [.fruit])
  | .shower n => .ok (.shower n, [])
  | .stream x lastCp s nestedX =>
    match (catchParams A s).events A fuel with
    | .clampPanic => .clampPanic
    | .outOfFuel => .outOfFuel
    | .ok evs =>
      match juiceWalk A fuel zeroS none evs nestedX with
      | none => .outOfFuel
      | some (recs, nested) => .ok (.stream x s.start lastCp nested, recs)

def convertAll (A : Rosu.SliderEvents.Arith F) (fuel : Nat) (zeroS : S) :
    List (PObj F S) → Outcome (List (Rosu.ConvCatch.Obj S F) × List CatchEvent)
  | [] => .ok ([], [])
  | o :: os =>
    match convertObj A fuel zeroS o, convertAll A fuel zeroS os with
    | .ok (c, r), .ok (cs, rs) => .ok (c :: cs, r ++ rs)
    | .clampPanic, _ => .clampPanic
    | .outOfFuel, _ => .outOfFuel
    | .ok _, .clampPanic => .clampPanic
    | .ok _, .outOfFuel => .outOfFuel

/-- `CatchDifficultyAttributes` -/
structure CatchAttrs (F : Type) where
  stars : F
  ar : F
  nFruits : Nat
  nDroplets : Nat
  nTinyDroplets : Nat
  isConvert : Bool

/-- the settings `DifficultyValues::calculate` reads -/
structure Settings (F S : Type) where
  hrOffsets : Bool
  reflectH : Bool
  cs : S
  ar : F
  clockRate : F
  isConvert : Bool

section
variable [FOps F] [FOps S] (C : Casts F S)

/-- the sorted palpable objects of `convert_objects` before `initialize_hyper_dash` -/
def palpables (CA : Rosu.ConvCatch.CAr S F) (st : Settings F S) (start0 : F)
    (cobjs : List (Rosu.ConvCatch.Obj S F)) : List (Rosu.CatchSkill.Palpable F S) :=
  (Rosu.ConvCatch.convertObjects CA st.hrOffsets st.reflectH start0 cobjs).map
    fun p => Rosu.CatchSkill.Palpable.new p.x p.xOffset p.start

/-- **`catch::difficulty::difficulty`** from decoded objects: `passed_objects = take` -/
def catchDifficulty (A : Rosu.SliderEvents.Arith F) (CA : Rosu.ConvCatch.CAr S F) (SA : SecArith F)
    (fuel : Nat) (start0 : F) (st : Settings F S) (take : Nat) (objs : List (PObj F S)) :
    Res (CatchAttrs F) :=
  match convertAll A fuel (CA.ofInt 0) objs with
  | .clampPanic => .panic
  | .outOfFuel => .fuel
  | .ok (cobjs, recs) =>
    (Rosu.CatchSkill.calculate C SA fuel st.clockRate st.cs take (palpables CA st start0 cobjs)).bind
      fun r =>
        let c := catchRegular recs take
        .ok ⟨Rosu.CatchSkill.starsOf r.2, st.ar, c.fruits, c.droplets, c.tiny, st.isConvert⟩

/-- the attributes after the `i`-th `next()` (`i ≥ 1`) of `CatchGradualDifficulty`: counts = the
first `i` gradual records, skill = `diff_objects[0 .. i-1]` of the WHOLE map -/
def catchGradualValue (A : Rosu.SliderEvents.Arith F) (CA : Rosu.ConvCatch.CAr S F) (SA : SecArith F)
    (fuel : Nat) (start0 : F) (st : Settings F S) (i : Nat) (objs : List (PObj F S)) :
    Res (CatchAttrs F) :=
  match convertAll A fuel (CA.ofInt 0) objs with
  | .clampPanic => .panic
  | .outOfFuel => .fuel
  | .ok (cobjs, recs) =>
    (Rosu.CatchSkill.gradualState C SA fuel st.clockRate st.cs i (palpables CA st start0 cobjs)).bind
      fun sk =>
        let c := ((catchGradualRecs recs).take i).foldl CatchCounts.add CatchCounts.zero
        .ok ⟨Rosu.CatchSkill.starsOf sk, st.ar, c.fruits, c.droplets, c.tiny, st.isConvert⟩

end

end Rosu.PipelineCatch
