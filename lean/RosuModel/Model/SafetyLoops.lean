/-!
# C05 — time loops: `BananaShower::new`, the taiko hit loop, and the i32 truncations

Sources: src/catch/object/banana_shower.rs (`BananaShower::new`, as fixed by e8e374c),
src/taiko/convert.rs (`while j <= obj.start_time + duration + tick_spacing / 8.0 { …; j += tick_spacing }`).

Three models of the same control skeleton:

* `progLoop` — exact arithmetic.  All quantities are scaled to a common denominator, so the loop
  variable is `n · step` and the bound a natural number: this *is* the loop over ℚ (dyadic
  denominators for the banana shower, `tick_spacing = p/q` for taiko), written without a
  rational-number type.
* `guardedLoop` / `unguardedLoop` — the control skeleton over an ARBITRARY arithmetic (`add`, `le`):
  the fixed loop leaves as soon as `next_time <= time`; the original loop did not.
* `bananaF32` — the bit-exact `Float32` replica executed by the driver (never used in a theorem).
-/
namespace Rosu.Safety

/-- `while acc <= bound { count += 1; acc += step }` in exact arithmetic; `none` = fuel exhausted. -/
def progLoop (step bound : Nat) : (fuel : Nat) → (acc count : Nat) → Option Nat
  | 0, _, _ => none
  | fuel + 1, acc, count =>
    if acc ≤ bound then progLoop step bound fuel (acc + step) (count + 1) else some count

/-- `while spacing > 100.0 { spacing /= 2.0 }` over exact dyadics: the number `k` of halvings of
`d = end − start`, i.e. the least `k` with `d ≤ 100 · 2^k` (fuel `d` always suffices). -/
def halvings (d : Nat) : (fuel k : Nat) → Nat
  | 0, k => k
  | fuel + 1, k => if d > 100 * 2 ^ k then halvings d fuel (k + 1) else k

/-- `(end_time as i32) - (start_time as i32)` with overflow checks (`none` = debug panic); the
arguments are the already truncated `i32` values. -/
def i32Sub (a b : Int) : Option Int :=
  let r := a - b
  if -2147483648 ≤ r ∧ r ≤ 2147483647 then some r else none

/-- `BananaShower::new` in exact arithmetic: `spacing = d / 2^k`; times scaled by `2^k`, so the loop
runs `acc = n·d` against the bound `d·2^k`.  Returns the banana count; `none` = overflow panic of
the `i32` subtraction or fuel exhausted. -/
def bananaExact (start end_ : Int) (fuel : Nat) : Option Nat :=
  match i32Sub end_ start with
  | none => none
  | some d =>
    if d ≤ 0 then some 0
    else
      let dn := d.toNat
      let k := halvings dn dn 0
      progLoop dn (dn * 2 ^ k) fuel 0 0

/-- closed form: `2^k + 1` bananas -/
def bananaCount (start end_ : Int) : Nat :=
  let d := end_ - start
  if d ≤ 0 then 0 else 2 ^ halvings d.toNat d.toNat 0 + 1

/-- An abstract arithmetic for the time variable. -/
structure TimeArith (T : Type) where
  add : T → T → T
  le : T → T → Bool

/-- The loop as FIXED (e8e374c): `while time <= end { let next = time + spacing; count += 1;
if next <= time { break } time = next }`. -/
def guardedLoop {T : Type} (A : TimeArith T) (end_ spacing : T) : (fuel : Nat) → (time : T) → (count : Nat) → Option Nat
  | 0, _, _ => none
  | fuel + 1, time, count =>
    if A.le time end_ then
      let next := A.add time spacing
      if A.le next time then some (count + 1)
      else guardedLoop A end_ spacing fuel next (count + 1)
    else some count

/-- The loop BEFORE the fix: `while time <= end { count += 1; time += spacing }`. -/
def unguardedLoop {T : Type} (A : TimeArith T) (end_ spacing : T) : (fuel : Nat) → (time : T) → (count : Nat) → Option Nat
  | 0, _, _ => none
  | fuel + 1, time, count =>
    if A.le time end_ then unguardedLoop A end_ spacing fuel (A.add time spacing) (count + 1)
    else some count

/-- An arithmetic with absorption: adding anything to a value `≥ 2^24` returns the value itself
(what f32 does to `t + 1.0` for `t ≥ 2^24`, `t` even). -/
def absorbing : TimeArith Nat :=
  { add := fun t s => if t ≥ 16777216 then t else t + s, le := fun a b => decide (a ≤ b) }

/-- exact natural-number arithmetic -/
def exactNat : TimeArith Nat := { add := (· + ·), le := fun a b => decide (a ≤ b) }

/-- The taiko hit loop in exact arithmetic with `tick_spacing = p / q`, `duration` an integer
(`u32`): `j = start + n·p/q ≤ start + duration + p/(8q)` ⇔ `8·n·p ≤ 8·duration·q + p`; plus the
`if tick_spacing == 0 { break }` guard after the first push. -/
def taikoHits (p q duration : Nat) (fuel : Nat) : Option Nat :=
  if p = 0 then some 1  -- first iteration pushes one hit, then `break`
  else progLoop (8 * p) (8 * duration * q + p) fuel 0 0

/-! ### bit-exact `Float32` replica (driver only) -/

/-- `BananaShower::new` with the same f32 operations in the same order; `fuel` bounds the second
loop, `none` = fuel exhausted (= the hang of the unfixed code). `guarded` selects the fixed loop. -/
def bananaF32 (guarded : Bool) (start end_ : Int) (fuel : Nat) : Option Nat :=
  let d := end_ - start
  -- i32 subtraction wraps in release builds
  let dw : Int := ((d + 2147483648) % 4294967296) - 2147483648
  let rec halve (s : Float32) : Nat → Float32
    | 0 => s
    | n + 1 => if s > 100.0 then halve (s / 2.0) n else s
  let spacing := halve (Float32.ofInt dw) 64
  if spacing <= 0.0 then some 0
  else
    let endF := Float32.ofInt end_
    let rec go (time : Float32) (count : Nat) : Nat → Option Nat
      | 0 => none
      | n + 1 =>
        if time <= endF then
          let next := time + spacing
          if guarded && next <= time then some (count + 1)
          else go next (count + 1) n
        else some count
    go (Float32.ofInt start) 0 fuel

end Rosu.Safety
