/-!
# C09 — finite, non-negative outputs: exact models of the guard / decision logic

Transcribed from `/repo/src` (file + function cited at every definition).  Treatment of floating
point (DESIGN.md §3):

* **F-exact** (ℚ = core `Rat`): the accuracy functions, the effective-miss-count clamps,
  `difficulty_value`, the piecewise-rational helpers of `util/difficulty.rs`, the Wilson lower bound.
  Counts are `Nat` (Rust `u32`; `u32` overflow of `6 * total_hits` is outside the model, see
  `tools/props/C09.json` assumptions).
* **decision logic over an abstract IEEE value domain** `XF` (finite rational / +∞ / −∞ / NaN with
  the IEEE rules `0·∞ = NaN`, `∞−∞ = NaN`, `x/0 = ±∞`, `0/0 = NaN`, Rust's NaN-ignoring
  `f64::max/min`): the four `calculate` skeletons, `erf_inv`'s domain-end branches, the deviation
  guards, the star-rating guards.  Transcendental functions (`powf`, `ln`, `exp`, `cbrt`, `erf`)
  are *parameters*; the theorems state exactly which facts about them are used.  Rounding and
  overflow of finite arithmetic are not modelled (finite·finite is finite here); whether a
  concrete f64 expression overflows is carried by the search (harness/src/c09.rs).

Core Lean only (compiled into the driver).
-/

namespace Rosu.Finite

/-! ## 1. Accuracy functions (F-exact) -/

/-- `OsuScoreState` (src/osu/score_state.rs) -/
structure OsuState where
  maxCombo : Nat
  largeTickHits : Nat
  smallTickHits : Nat
  sliderEndHits : Nat
  n300 : Nat
  n100 : Nat
  n50 : Nat
  misses : Nat
  deriving DecidableEq, Repr, Inhabited

/-- `OsuScoreOrigin` (src/osu/score_state.rs) -/
inductive OsuOrigin
  | stable
  | withSliderAcc (maxLargeTicks maxSliderEnds : Nat)
  | withoutSliderAcc (maxLargeTicks maxSmallTicks : Nat)
  deriving DecidableEq, Repr, Inhabited

/-- `OsuScoreState::total_hits` -/
def OsuState.totalHits (s : OsuState) : Nat := s.n300 + s.n100 + s.n50 + s.misses

/-- numerator of `OsuScoreState::accuracy(origin)`; `0.6`, `0.2` are the rationals 3/5, 1/5 -/
def OsuState.accNum (s : OsuState) : OsuOrigin → Rat
  | .stable => ((6 * s.n300 + 2 * s.n100 + s.n50 : Nat) : Rat)
  | .withSliderAcc mlt mse =>
    ((6 * s.n300 + 2 * s.n100 + s.n50 : Nat) : Rat)
      + (((3 * min s.sliderEndHits mse : Nat) : Rat) + 3 / 5 * ((min s.largeTickHits mlt : Nat) : Rat))
  | .withoutSliderAcc mlt mst =>
    ((6 * s.n300 + 2 * s.n100 + s.n50 : Nat) : Rat)
      + (3 / 5 * ((min s.largeTickHits mlt : Nat) : Rat) + 1 / 5 * ((min s.smallTickHits mst : Nat) : Rat))

/-- denominator of `OsuScoreState::accuracy(origin)` -/
def OsuState.accDen (s : OsuState) : OsuOrigin → Rat
  | .stable => ((6 * s.totalHits : Nat) : Rat)
  | .withSliderAcc mlt mse =>
    ((6 * s.totalHits : Nat) : Rat) + (((3 * mse : Nat) : Rat) + 3 / 5 * ((mlt : Nat) : Rat))
  | .withoutSliderAcc mlt mst =>
    ((6 * s.totalHits : Nat) : Rat) + (3 / 5 * ((mlt : Nat) : Rat) + 1 / 5 * ((mst : Nat) : Rat))

/-- `OsuScoreState::accuracy(origin)`: `if denominator.eq(0.0) { 0.0 } else { numerator / denominator }`.
`FloatExt::eq` is `|d − 0| ≤ f64::EPSILON`; the denominator is a non-negative multiple of 1/5, so
this is `d = 0` (theorem `osu_den_zero_or_ge`). -/
def OsuState.accuracy (s : OsuState) (o : OsuOrigin) : Rat :=
  if s.accDen o = 0 then 0 else s.accNum o / s.accDen o

/-- `OsuScoreState::accuracy(Stable)` with the `u32` arithmetic of a release build (wrapping
`6 * n300 + …` and `6 * (n300 + n100 + n50 + misses)`); a debug build panics instead of wrapping. -/
def OsuState.accuracyStableWrapped (s : OsuState) : Rat :=
  let num : Nat := (6 * s.n300 + 2 * s.n100 + s.n50) % 4294967296
  let den : Nat := (6 * (s.totalHits % 4294967296)) % 4294967296
  if den = 0 then 0 else (num : Rat) / (den : Rat)

/-- `NoComboState::accuracy` (src/osu/performance/mod.rs), integer weights 300/100/50/150/30/10 -/
def OsuState.noComboAccuracy (s : OsuState) (o : OsuOrigin) : Rat :=
  let num0 := 300 * s.n300 + 100 * s.n100 + 50 * s.n50
  let den0 := 300 * s.totalHits
  let (num, den) : Nat × Nat :=
    match o with
    | .stable => (num0, den0)
    | .withSliderAcc mlt mse =>
      (num0 + (150 * min s.sliderEndHits mse + 30 * min s.largeTickHits mlt), den0 + (150 * mse + 30 * mlt))
    | .withoutSliderAcc mlt mst =>
      (num0 + (30 * min s.largeTickHits mlt + 10 * min s.smallTickHits mst), den0 + (30 * mlt + 10 * mst))
  if den = 0 then 0 else (num : Rat) / (den : Rat)

/-- `better_acc_percentage` of `OsuPerformanceCalculator::compute_accuracy_value`
(src/osu/performance/calculator.rs); `amount` = `amount_hit_objects_with_acc`; the `as i32`
arithmetic is `Int` here. -/
def OsuState.betterAccPercentage (s : OsuState) (amount : Nat) : Rat :=
  let raw : Rat :=
    if amount > 0 then
      ((((s.n300 : Int) - max ((s.totalHits : Int) - (amount : Int)) 0) * 6 + (s.n100 : Int) * 2 + (s.n50 : Int) : Int) : Rat)
        / ((amount * 6 : Nat) : Rat)
    else 0
  if raw < 0 then 0 else raw

def qmax (a b : Rat) : Rat := if a ≤ b then b else a
def qmin (a b : Rat) : Rat := if a ≤ b then a else b
/-- `f64::clamp(x, lo, hi)` -/
def qclamp (x lo hi : Rat) : Rat := if x < lo then lo else if hi < x then hi else x

/-- `relevant_acc` of `OsuPerformanceCalculator::compute_speed_value`; `snc` = `speed_note_count`
(a real number); `speed_note_count.eq(0.0)` modelled as `snc = 0`. -/
def OsuState.relevantAcc (s : OsuState) (snc : Rat) : Rat :=
  let total : Rat := (s.totalHits : Rat)
  let rtd := qmax 0 (total - snc)
  let r300 := qmax ((s.n300 : Rat) - rtd) 0
  let r100 := qmax ((s.n100 : Rat) - qmax (rtd - (s.n300 : Rat)) 0) 0
  let r50 := qmax ((s.n50 : Rat) - qmax (rtd - ((s.n300 + s.n100 : Nat) : Rat)) 0) 0
  if snc = 0 then 0 else (r300 * 6 + r100 * 2 + r50) / (snc * 6)

/-- `TaikoScoreState` (src/taiko/score_state.rs) -/
structure TaikoState where
  maxCombo : Nat
  n300 : Nat
  n100 : Nat
  misses : Nat
  deriving DecidableEq, Repr, Inhabited

def TaikoState.totalHits (s : TaikoState) : Nat := s.n300 + s.n100 + s.misses

/-- `TaikoScoreState::accuracy` (and the identical free function `accuracy` of
src/taiko/performance/mod.rs) -/
def TaikoState.accuracy (s : TaikoState) : Rat :=
  if s.totalHits = 0 then 0 else ((2 * s.n300 + s.n100 : Nat) : Rat) / ((2 * s.totalHits : Nat) : Rat)

/-- `CatchScoreState` (src/catch/score_state.rs) -/
structure CatchState where
  maxCombo : Nat
  fruits : Nat
  droplets : Nat
  tinyDroplets : Nat
  tinyDropletMisses : Nat
  misses : Nat
  deriving DecidableEq, Repr, Inhabited

def CatchState.totalHits (s : CatchState) : Nat :=
  s.fruits + s.droplets + s.tinyDroplets + s.tinyDropletMisses + s.misses

/-- `CatchScoreState::accuracy` -/
def CatchState.accuracy (s : CatchState) : Rat :=
  if s.totalHits = 0 then 0
  else ((s.fruits + s.droplets + s.tinyDroplets : Nat) : Rat) / ((s.totalHits : Nat) : Rat)

/-- the free function `accuracy` of src/catch/performance/mod.rs (used by `generate_state` only):
**no** zero guard — `none` stands for the `0/0` it evaluates on an all-zero argument. -/
def catchHelperAccuracy (fruits droplets tiny tinyMiss misses : Nat) : Option Rat :=
  let num := fruits + droplets + tiny
  let den := num + tinyMiss + misses
  if den = 0 then none else some ((num : Rat) / (den : Rat))

/-- `ManiaScoreState` (src/mania/score_state.rs) -/
structure ManiaState where
  n320 : Nat
  n300 : Nat
  n200 : Nat
  n100 : Nat
  n50 : Nat
  misses : Nat
  deriving DecidableEq, Repr, Inhabited

def ManiaState.totalHits (s : ManiaState) : Nat := s.n320 + s.n300 + s.n200 + s.n100 + s.n50 + s.misses

/-- `ManiaScoreState::accuracy(classic)`: `perfect_weight = if classic { 60 } else { 61 }` -/
def ManiaState.accuracy (s : ManiaState) (classic : Bool) : Rat :=
  if s.totalHits = 0 then 0
  else
    let pw := if classic then 60 else 61
    ((pw * s.n320 + 60 * s.n300 + 40 * s.n200 + 20 * s.n100 + 10 * s.n50 : Nat) : Rat)
      / ((pw * s.totalHits : Nat) : Rat)

/-- `ManiaPerformanceCalculator::calculate_custom_accuracy` + `custom_accuracy`
(src/mania/performance/calculator.rs) -/
def ManiaState.customAccuracy (s : ManiaState) : Rat :=
  if s.totalHits = 0 then 0
  else ((s.n320 * 32 + s.n300 * 30 + s.n200 * 20 + s.n100 * 10 + s.n50 * 5 : Nat) : Rat)
        / ((s.totalHits * 32 : Nat) : Rat)

/-! ## 2. osu! effective miss count (src/osu/performance/mod.rs `OsuPerformance::calculate`) -/

/-- what `calculate` reads of `OsuDifficultyAttributes` here -/
structure OsuCounts where
  nSliders : Nat
  nLargeTicks : Nat
  maxCombo : Nat
  deriving DecidableEq, Repr, Inhabited

/-- Rust `a - b` on `u32`: `none` = underflow (panic in debug, wrap in release) -/
def csub (a b : Nat) : Option Nat := if b ≤ a then some (a - b) else none

/-- `total_imperfect_hits` -/
def OsuState.totalImperfect (s : OsuState) : Nat := s.n100 + s.n50 + s.misses

/-- `effective_miss_count` as computed by `OsuPerformance::calculate`; `classic` =
`using_classic_slider_acc`; `none` = one of the three `u32` subtractions underflowed. -/
def effectiveMissCount (a : OsuCounts) (s : OsuState) (classic : Bool) : Option Rat :=
  let emc0 : Rat := (s.misses : Rat)
  let comboEst (threshold : Rat) (emc : Rat) : Rat :=
    if (s.maxCombo : Rat) < threshold then threshold / qmax (s.maxCombo : Rat) 1 else emc
  let inner : Option Rat :=
    if a.nSliders > 0 then
      if classic then
        let thr : Rat := (a.maxCombo : Rat) - 1 / 10 * (a.nSliders : Rat)
        some (qmin (comboEst thr emc0) (s.totalImperfect : Rat))
      else
        match csub a.nSliders s.sliderEndHits with
        | none => none
        | some dropped =>
          match csub a.maxCombo dropped with
          | none => none
          | some thrN =>
            match csub a.nLargeTicks s.largeTickHits with
            | none => none
            | some tickMiss => some (qmin (comboEst (thrN : Rat) emc0) ((tickMiss + s.misses : Nat) : Rat))
    else some emc0
  inner.map fun e => qmin (qmax e (s.misses : Rat)) (s.totalHits : Rat)

/-- the relax adjustment of `OsuPerformanceCalculator::calculate`:
`(emc + n100·m100 + n50·m50).min(total_hits)`; `m100`, `m50` are the `max(0.0)`-clamped
multipliers (parameters in `[0, 1]`). -/
def relaxEffectiveMiss (emc : Rat) (s : OsuState) (m100 m50 : Rat) : Rat :=
  qmin (emc + (s.n100 : Rat) * m100 + (s.n50 : Rat) * m50) (s.totalHits : Rat)

/-! ## 3. `difficulty_value` and `count_top_weighted_strains` (src/any/difficulty/skills.rs) -/

/-- insertion into a descending list -/
def insertDesc (x : Rat) : List Rat → List Rat
  | [] => [x]
  | y :: ys => if y ≤ x then x :: y :: ys else y :: insertDesc x ys

/-- specification of `retain_non_zero_and_sort` on values: the non-zero entries, descending -/
def sortDesc : List Rat → List Rat
  | [] => []
  | x :: xs => insertDesc x (sortDesc xs)

/-- `for strain in peaks { difficulty += strain * weight; weight *= decay_weight; }`
with running `weight`. -/
def weightedSum (w : Rat) : Rat → List Rat → Rat
  | _, [] => 0
  | weight, s :: ss => s * weight + weightedSum w (weight * w) ss

/-- `difficulty_value(current_strain_peaks, decay_weight)` -/
def difficultyValue (w : Rat) (peaks : List Rat) : Rat :=
  weightedSum w 1 (sortDesc (peaks.filter (· ≠ 0)))

/-- mutation used by a witness theorem: the zero filter skipped (the sort then sees zeros; on
`StrainsVec` this would transmute run-length entries) — value-wise it makes no difference, which
is why the check ties the *filtered length* too (`DVQ` lines print it). -/
def difficultyValueNoFilter (w : Rat) (peaks : List Rat) : Rat := weightedSum w 1 (sortDesc peaks)

/-- checked division: `none` = a division by zero would be evaluated -/
def cdiv (a b : Rat) : Option Rat := if b = 0 then none else some (a / b)

def qabs (a : Rat) : Rat := if a < 0 then -a else a

/-- `f64::EPSILON` = 2⁻⁵² -/
def f64Eps : Rat := 1 / 4503599627370496

/-- `FloatExt::eq(a, b)`: `(a - b).abs() <= EPS` -/
def floatEq (a b : Rat) : Bool := decide (qabs (a - b) ≤ f64Eps)

/-- the arithmetic `count_top_weighted_strains` performs, as a record so that the same control flow
runs over ℚ (theorems) and over IEEE doubles (driver, compared with the implementation) -/
structure CtwOps (R : Type) where
  zero : R
  ofNat : Nat → R
  add : R → R → R
  /-- `difficulty_value / 10.0` -/
  tenth : R → R
  /-- `a / b`; `none` = division by zero -/
  div : R → R → Option R
  /-- `FloatExt::eq(x, 0.0)`: `|x| <= f64::EPSILON` -/
  isZero : R → Bool
  /-- `1.1 / (1.0 + f64::exp(-10.0 * (r - 0.88)))`; `none` = division by zero -/
  term : R → Option R

/-- `Iterator::sum` over checked terms: left fold -/
def sumOptL {R : Type} (add : R → R → R) : R → List (Option R) → Option R
  | acc, [] => some acc
  | _, none :: _ => none
  | acc, some x :: xs => sumOptL add (add acc x) xs

/-- `count_top_weighted_strains(object_strains, difficulty_value)`; `none` = a division by zero
was reached. -/
def countTopG {R : Type} (O : CtwOps R) (strains : List R) (dv : R) : Option R :=
  if strains.isEmpty then some O.zero
  else
    let cts := O.tenth dv
    if O.isZero cts then some (O.ofNat strains.length)
    else
      sumOptL O.add O.zero (strains.map fun s => (O.div s cts).bind O.term)

/-- the exact instance; `exp` is the parameter `ex` -/
def ratCtwOps (ex : Rat → Rat) : CtwOps Rat :=
  { zero := 0
    ofNat := fun n => (n : Rat)
    add := (· + ·)
    tenth := fun x => x / 10
    div := cdiv
    isZero := fun x => floatEq x 0
    term := fun r => cdiv (11 / 10) (1 + ex (-10 * (r - 22 / 25))) }

/-- the IEEE instance executed by the driver (same operations, same order as the Rust code) -/
def floatCtwOps : CtwOps Float :=
  { zero := 0.0
    ofNat := fun n => n.toFloat
    add := (· + ·)
    tenth := fun x => x / 10.0
    div := fun a b => if b == 0.0 then none else some (a / b)
    isZero := fun x => Float.abs (x - 0.0) <= 2.220446049250313e-16
    term := fun r =>
      let d := 1.0 + Float.exp (-10.0 * (r - 0.88))
      if d == 0.0 then none else some (1.1 / d) }

/-- `count_top_weighted_strains` over ℚ -/
def countTopWeightedStrains (ex : Rat → Rat) (strains : List Rat) (dv : Rat) : Option Rat :=
  countTopG (ratCtwOps ex) strains dv

/-! ## 4. piecewise-rational helpers (src/util/difficulty.rs) -/

/-- `reverse_lerp(x, start, end)`: `f64::clamp((x - start) / (end - start), 0.0, 1.0)`;
`none` = `end = start` (the code then evaluates `x/0`: ±∞ clamps to 0/1, `0/0 = NaN` stays NaN). -/
def reverseLerp (x start stop : Rat) : Option Rat :=
  (cdiv (x - start) (stop - start)).map fun t => qclamp t 0 1

/-- `smoothstep` -/
def smoothstep (x start stop : Rat) : Option Rat :=
  (reverseLerp x start stop).map fun t => t * t * (3 - 2 * t)

/-- `smootherstep` -/
def smootherstep (x start stop : Rat) : Option Rat :=
  (reverseLerp x start stop).map fun t => t * t * t * (t * (6 * t - 15) + 10)

/-- `FloatExt::lerp(v1, v2, amount)` -/
def lerp (v1 v2 amount : Rat) : Rat := v1 * (1 - amount) + v2 * amount

/-- `logistic` / `logistic_exp` with `exp` a parameter: `max_value / (1 + ex e)` -/
def logisticExp (ex : Rat → Rat) (e : Rat) (maxValue : Rat) : Option Rat := cdiv maxValue (1 + ex e)

/-! ## 5. abstract IEEE values -/

/-- an f64 up to rounding: finite rational, `+∞`, `−∞`, NaN -/
inductive XF
  | fin (q : Rat)
  | pinf
  | ninf
  | nan
  deriving DecidableEq, Repr, Inhabited

namespace XF

def isFinite : XF → Bool
  | fin _ => true
  | _ => false

def isNaN : XF → Bool
  | nan => true
  | _ => false

/-- sign of a rational: -1, 0, 1 -/
def sgn (q : Rat) : Int := if q < 0 then -1 else if q = 0 then 0 else 1

def ofSign (s : Int) : XF := if s < 0 then ninf else if s = 0 then nan else pinf

def neg : XF → XF
  | fin q => fin (-q)
  | pinf => ninf
  | ninf => pinf
  | nan => nan

def mul : XF → XF → XF
  | nan, _ => nan
  | _, nan => nan
  | fin a, fin b => fin (a * b)
  | fin a, pinf => ofSign (sgn a)
  | fin a, ninf => ofSign (-sgn a)
  | pinf, fin b => ofSign (sgn b)
  | ninf, fin b => ofSign (-sgn b)
  | pinf, pinf => pinf
  | ninf, ninf => pinf
  | pinf, ninf => ninf
  | ninf, pinf => ninf

def add : XF → XF → XF
  | nan, _ => nan
  | _, nan => nan
  | fin a, fin b => fin (a + b)
  | fin _, pinf => pinf
  | fin _, ninf => ninf
  | pinf, fin _ => pinf
  | ninf, fin _ => ninf
  | pinf, pinf => pinf
  | ninf, ninf => ninf
  | pinf, ninf => nan
  | ninf, pinf => nan

def sub (a b : XF) : XF := add a (neg b)

/-- IEEE division (signed zeros not modelled: `x / 0` with `x > 0` is `+∞`, the sign the code
sees when the zero is `+0.0`) -/
def div : XF → XF → XF
  | nan, _ => nan
  | _, nan => nan
  | fin a, fin b => if b = 0 then ofSign (sgn a) else fin (a / b)
  | fin _, pinf => fin 0
  | fin _, ninf => fin 0
  | pinf, fin b => if b < 0 then ninf else pinf
  | ninf, fin b => if b < 0 then pinf else ninf
  | pinf, pinf => nan
  | pinf, ninf => nan
  | ninf, pinf => nan
  | ninf, ninf => nan

/-- `a ≤ b` as IEEE comparison (false when NaN is involved) -/
def le : XF → XF → Bool
  | nan, _ => false
  | _, nan => false
  | ninf, _ => true
  | _, pinf => true
  | fin a, fin b => decide (a ≤ b)
  | fin _, ninf => false
  | pinf, fin _ => false
  | pinf, ninf => false

def lt (a b : XF) : Bool := le a b && !(le b a)

/-- Rust `f64::max`: NaN is ignored when the other operand is a number -/
def max : XF → XF → XF
  | nan, b => b
  | a, nan => a
  | a, b => if le a b then b else a

/-- Rust `f64::min` -/
def min : XF → XF → XF
  | nan, b => b
  | a, nan => a
  | a, b => if le a b then a else b

/-- `f64::is_normal` up to subnormals: finite and non-zero -/
def isNormal : XF → Bool
  | fin q => q != 0
  | _ => false

def zero : XF := fin 0
def one : XF := fin 1

def prod : List XF → XF
  | [] => fin 1
  | x :: xs => mul x (prod xs)

end XF

/-! ## 6. `erf_inv` domain ends and the deviation guards -/

/-- `erf_inv(z)` (src/util/special_functions.rs): the explicit branches, the open interior is the
parameter `impl` (`erf_inv_impl`). -/
def erfInv (impl : Rat → XF) : XF → XF
  | .nan => .nan            -- all comparisons false → `erf_inv_impl(NaN, …)` → NaN
  | .pinf => .pinf          -- `z >= 1.0`
  | .ninf => .ninf          -- `z <= -1.0`
  | .fin z =>
    if z = 0 then .fin 0
    else if 1 ≤ z then .pinf
    else if z ≤ -1 then .ninf
    else impl z

/-- Wilson lower bound as written in `compute_deviation_upper_bound` (taiko) and
`calculate_deviation` (osu!):
`(n·p + z²/2)/(n + z²) − z/(n + z²)·sqrt(n·p·(1−p) + z²/4)`; `sq` is the value of the square root. -/
def pLowerBound (n p z sq : Rat) : Rat :=
  (n * p + z * z / 2) / (n + z * z) - z / (n + z * z) * sq

/-- the radicand handed to `f64::sqrt` -/
def wilsonRadicand (n p z : Rat) : Rat := n * p * (1 - p) + z * z / 4

/-- `TaikoPerformanceCalculator::compute_deviation_upper_bound` decision logic.
`guardN300 = true` is the code (`self.state.n300 == 0`), `false` the weakened guard
`total_successful_hits() == 0`.  `pl` = the computed `p_lower_bound`, `sqrt2` > 0. -/
def taikoDeviation (guardN300 : Bool) (impl : Rat → XF) (s : TaikoState) (ghw : XF) (pl : XF) (sqrt2 : Rat) :
    Option XF :=
  let guardCount := if guardN300 then s.n300 else s.n300 + s.n100
  if guardCount = 0 || XF.le ghw (.fin 0) then none
  else some (XF.div ghw (XF.mul (.fin sqrt2) (erfInv impl pl)))

/-- IEEE `==` (false when NaN is involved) -/
def XF.ieeeEq (a b : XF) : Bool := XF.le a b && XF.le b a

/-- osu! `OsuPerformanceCalculator::calculate_deviation`: the selection
`if p_lower_bound == 0.0 || random_value >= 1.0 || deviation > limit_value { deviation = limit_value }`.
`plb` = `p_lower_bound`, `rv` = `random_value`, `dev` = `great_hit_window / (sqrt 2 · erf_inv plb) · sqrt(1 − rv)`,
`limit` = `ok_hit_window / sqrt 3`. -/
def osuDeviationSelect (plb rv dev limit : XF) : XF :=
  if XF.ieeeEq plb (.fin 0) || XF.le (.fin 1) rv || XF.lt limit dev then limit else dev

/-- `calculate_deviation` returns `None` exactly when `great + ok + meh <= 0.0` (real-valued counts) -/
def osuDeviationIsSome (great ok meh : Rat) : Bool := !(decide (great + ok + meh ≤ 0))

/-- `calculate_speed_deviation` returns `None` when `total_successful_hits == 0`, else defers -/
def osuSpeedDeviationIsSome (s : OsuState) (great ok meh : Rat) : Bool :=
  if s.n300 + s.n100 + s.n50 = 0 then false else osuDeviationIsSome great ok meh

/-! ## 7. `calculate` skeletons: zero hits ⇒ zero pp -/

/-- `powf(·, e)` for a fixed positive exponent as a parameter -/
abbrev PowFn := XF → XF

/-- osu!: `OsuPerformanceCalculator::calculate` — the early return; `rest` is everything after it -/
def osuPP (s : OsuState) (rest : XF) : XF := if s.totalHits = 0 then .fin 0 else rest

/-- taiko: `TaikoPerformanceCalculator::calculate`.
`dev` = result of `compute_deviation_upper_bound`; `diffBody`/`accBody` = the bodies of
`compute_difficulty_value`/`compute_accuracy_value` after their early returns; `multiplier` is the
literal product `1.13·[1.075]·[0.95]`. -/
structure TaikoOut where
  pp : XF
  ppAcc : XF
  ppDifficulty : XF
  effectiveMissCount : XF
  estimatedUnstableRate : Option XF
  deriving DecidableEq, Repr

def taikoCalculate (p11 pInv : PowFn) (s : TaikoState) (ghw : XF) (dev : Option XF)
    (diffBody accBody : XF → XF) (multiplier : Rat) : TaikoOut :=
  let tsh := s.n300 + s.n100
  let eur := dev.map fun v => XF.mul v (.fin 10)
  let emc : XF :=
    if tsh > 0 then .fin (qmax (1000 / (tsh : Rat)) 1 * (s.misses : Rat)) else .fin 0
  let diffValue := match eur with
    | none => XF.fin 0
    | some u => diffBody u
  let accValue :=
    if XF.le ghw (.fin 0) then XF.fin 0
    else match eur with
      | none => XF.fin 0
      | some u => accBody u
  let pp := XF.mul (pInv (XF.add (p11 diffValue) (p11 accValue))) (.fin multiplier)
  { pp := pp, ppAcc := accValue, ppDifficulty := diffValue, effectiveMissCount := emc,
    estimatedUnstableRate := eur }

/-- catch: `CatchPerformanceCalculator::calculate`: `pp` is a running product; the factors in
order.  `accPow` = `accuracy().powf(5.5)`. -/
structure CatchFactors where
  /-- `(5·max(stars/0.0049, 1) − 4)² / 100000` — reads `attrs.stars` -/
  base : XF
  /-- `len_bonus` — reads the state's combo hits, or `attrs.max_combo()` when they are 0 -/
  lenBonus : XF
  /-- `0.97^misses` -/
  missPenalty : XF
  /-- combo scaling (1 when `state.max_combo == 0`) — reads `attrs.max_combo()` -/
  combo : XF
  /-- AR scaling — reads `attrs.ar` -/
  arFactor : XF
  /-- HD bonus (1 without HD) — reads `attrs.ar` -/
  hd : XF
  /-- FL bonus `1.35·len_bonus` (1 without FL) -/
  fl : XF
  /-- NF penalty `max(1 − 0.02·misses, 0.9)` (1 without NF) -/
  nf : XF
  deriving DecidableEq, Repr

def CatchFactors.before (f : CatchFactors) : XF :=
  -- ((((((base · len) · miss) · combo) · ar) · hd) · fl)
  XF.mul (XF.mul (XF.mul (XF.mul (XF.mul (XF.mul f.base f.lenBonus) f.missPenalty) f.combo) f.arFactor) f.hd) f.fl

def CatchFactors.allFinite (f : CatchFactors) : Bool :=
  f.base.isFinite && f.lenBonus.isFinite && f.missPenalty.isFinite && f.combo.isFinite
    && f.arFactor.isFinite && f.hd.isFinite && f.fl.isFinite && f.nf.isFinite

def catchPP (p55 : Rat → XF) (s : CatchState) (f : CatchFactors) : XF :=
  XF.mul (XF.mul f.before (p55 s.accuracy)) f.nf

/-- mania: `ManiaPerformanceCalculator::{calculate, compute_difficulty_value}`.
`starPow` = `8·powf(max(stars − 0.15, 0.05), 2.2)`, `multiplier` the literal `[0.75]·[0.5]`. -/
def maniaPP (s : ManiaState) (starPow : XF) (multiplier : Rat) : XF × XF :=
  let accTerm : XF := .fin (qmax 0 (5 * s.customAccuracy - 4))
  let lenTerm : XF := .fin (1 + 1 / 10 * qmin 1 ((s.totalHits : Rat) / 1500))
  let dv := XF.mul (XF.mul starPow accTerm) lenTerm
  (XF.mul dv (.fin multiplier), dv)

/-- `f64::max(self.attrs.stars - 0.15, 0.05)`: what reaches `powf` in mania -/
def maniaStarArg (stars : XF) : XF := XF.max (XF.sub stars (.fin (3 / 20))) (.fin (1 / 20))

/-! ## 8. star-rating guard skeletons -/

/-- osu! `DifficultyValues::eval`: `star_rating = if base_performance > 0.00001 { c·(cbrt(k·bp) + 4) } else { 0 }`;
`cb` = `cbrt(100000 / 2^(1/1.1) · ·)`, `c` = `cbrt(1.15)·0.027` (positive literals). -/
def osuStarRating (cb : Rat → Rat) (c : Rat) (basePerformance : Rat) : Rat :=
  if 1 / 100000 < basePerformance then c * (cb basePerformance + 4) else 0

/-- osu! `slider_factor = if aim_rating > 0.0 { no_sliders / aim_rating } else { 1.0 }` -/
def osuSliderFactor (aimRating aimNoSliders : Rat) : Option Rat :=
  if 0 < aimRating then cdiv aimNoSliders aimRating else some 1

/-- taiko `DifficultyValues::eval`:
`mono_stamina_factor = if stamina_rating.abs() >= EPSILON { (mono/stamina)^5 } else { 1 }` -/
def taikoMonoStaminaFactor (staminaRating monoRating : Rat) : Option Rat :=
  if f64Eps ≤ qabs staminaRating then (cdiv monoRating staminaRating).map fun r => r * r * r * r * r
  else some 1

/-- taiko `rescale(stars)`: `if stars < 0 { stars } else { 10.43·ln(stars/8 + 1) }`; `ln` a parameter -/
def taikoRescale (ln : Rat → Rat) (stars : Rat) : Rat :=
  if stars < 0 then stars else 1043 / 100 * ln (stars / 8 + 1)

/-- taiko `strain_length_bonus` (pure clamps) -/
def taikoStrainLengthBonus (staminaDifficultStrains staminaRating : Rat) : Rat :=
  1 + qmin (qmax ((staminaDifficultStrains - 1000) / 3700) 0) (3 / 20) + qmin (qmax ((staminaRating - 7) / 1) 0) (1 / 20)

/-- taiko `Rhythm::ratio_difficulty`: `ratio = if ratio.is_normal() { ratio } else { 0.0 }`,
then `terms / (1.0 + ratio)` -/
def validatedRatio (ratio : XF) : XF := if ratio.isNormal then ratio else .fin 0

def ratioTerm (terms : Rat) (ratio : XF) : XF := XF.div (.fin terms) (XF.add (.fin 1) (validatedRatio ratio))

/-- osu! `get_combo_scaling_factor` / catch combo scaling:
`if attrs.max_combo == 0 { 1 } else { min(pow(state_combo)/pow(max_combo), 1) }`; `pw` = `powf(·, 0.8)` -/
def comboScaling (pw : Nat → Rat) (stateCombo maxCombo : Nat) : Option Rat :=
  if maxCombo = 0 then some 1 else (cdiv (pw stateCombo) (pw maxCombo)).map fun r => qmin r 1

end Rosu.Finite
