/-!
# C05 — index arithmetic of osu! stacking (src/osu/convert.rs, `stacking`, version ≥ 6)

Only the index bookkeeping is modelled: every float predicate of the code (is it a spinner, is the
previous object out of stacking range, are two positions closer than `STACK_DISTANCE`) is an
arbitrary Boolean oracle, so the theorems hold whatever those predicates answer.  Every
`hit_objects[k]` is a checked access (`none` = index out of bounds panic); `n.checked_sub(1)` is
the structural recursion on `n`.
-/
namespace Rosu.Safety

structure StackOracles where
  isSpinner : Nat → Bool
  isSlider : Nat → Bool
  isCircle : Nat → Bool
  /-- `hit_objects[obj_i_idx].start_time - hit_objects[n].end_time() > stack_threshold` -/
  outOfRange : Nat → Nat → Bool
  /-- `hit_objects[n].end_pos().distance(hit_objects[obj_i_idx].pos) < STACK_DISTANCE` -/
  endClose : Nat → Nat → Bool
  /-- `hit_objects[n].pos.distance(hit_objects[obj_i_idx].pos) < STACK_DISTANCE` -/
  startClose : Nat → Nat → Bool
  stackHeightNonZero : Nat → Bool

/-- the `loop { n = n.checked_sub(1)?; … }` of the hit-circle branch; the argument is `n` BEFORE the
decrement; returns the final `obj_i_idx`, `none` on an out-of-bounds access -/
def circleLoop (O : StackOracles) (len i : Nat) : (n objIdx : Nat) → Option Nat
  | 0, objIdx => some objIdx                       -- `checked_sub` fails: break
  | n + 1, objIdx =>
    if ¬ n < len then none                          -- hit_objects[n]
    else if O.isSpinner n then circleLoop O len i n objIdx
    else if ¬ objIdx < len then none                -- hit_objects[obj_i_idx]
    else if O.outOfRange objIdx n then some objIdx
    else if O.isSlider n && O.endClose n objIdx then
      -- `for j in n + 1..=i { hit_objects[j] … }`: the largest index touched is `i`
      if n + 1 ≤ i ∧ ¬ i < len then none else some objIdx
    else if O.startClose n objIdx then circleLoop O len i n n
    else circleLoop O len i n objIdx

/-- the loop of the slider branch -/
def sliderLoop (O : StackOracles) (len : Nat) : (n objIdx : Nat) → Option Nat
  | 0, objIdx => some objIdx
  | n + 1, objIdx =>
    if ¬ n < len then none
    else if O.isSpinner n then sliderLoop O len n objIdx
    else if ¬ objIdx < len then none
    else if O.outOfRange objIdx n then some objIdx
    else if O.endClose n objIdx then sliderLoop O len n n
    else sliderLoop O len n objIdx

/-- body of `for i in (1..=extended_end_idx).rev()` -/
def stackStep (O : StackOracles) (len i : Nat) : Option Unit :=
  if ¬ i < len then none                            -- hit_objects[obj_i_idx] with obj_i_idx = i
  else if O.stackHeightNonZero i || O.isSpinner i then some ()
  else if O.isCircle i then (circleLoop O len i i i).map (fun _ => ())
  else if O.isSlider i then (sliderLoop O len i i).map (fun _ => ())
  else some ()

/-- `let Some(extended_end_idx) = hit_objects.len().checked_sub(1) else { return }; for i in (1..=extended_end_idx).rev()` -/
def stacking (O : StackOracles) (len : Nat) : Option Unit :=
  match len with
  | 0 => some ()
  | e + 1 => ((List.range' 1 e).reverse).foldlM (fun _ i => stackStep O (e + 1) i) ()

end Rosu.Safety
