import RosuModel.Model.ManiaPattern
import RosuModel.Model.PipelineMania
import RosuModel.Model.Sort
import RosuModel.Model.Rng

/-!
# osu! → mania CONVERT end to end: decoded osu! objects → `ManiaDifficultyAttributes`.  Core only.

Composition along `mania::difficulty::difficulty` for a map that is converted
(`/repo/src/mania/difficulty/mod.rs`, `/repo/src/mania/convert/mod.rs`):

* `convert`: the seed `(hp + cs).round_ties_even() as i32 * 20 + (od * 41.2) as i32 +
  ar.round_ties_even() as i32`, `target_columns` (`Model/ConvertWF.lean`), the per-object loop with
  the three pattern generators and the PRNG (`Model/ManiaPattern.lean: convertLoop`), the
  materialisation of the notes as hit objects (`column_to_pos`, circle / hold with
  `duration = end − start`), `sort_by(start_time)` (stable) and `sort::osu_legacy`
  (`Model/Sort.lean`);
* the mods applied after conversion: `apply_hold_off_to_beatmap`, `apply_invert_to_beatmap`
  (`timing_point_at(end_time)` on the timing points handed in; the `column_buf[0]` index is checked);
* `n_objects = min(passed_objects, len)`, `ManiaObject::new` on the converted objects,
  `Strain`, stars (`Model/PipelineMania.lean: oneShot`, `Model/ManiaSkill.lean`), `is_convert = true`.

Inputs that stay inputs (as in the MPT lines): per circle the `convert_type` flags
`HitObjectPatternGenerator::new` computed (time / position separation, density, kiai), per slider the
flags, span count and the `i32` start / end time / segment duration (`pathNew` models their
arithmetic from rosu-map's `expected_dist`), per spinner the two duration comparisons, and
`conversion_difficulty()`; the `Random` mod is outside this pipeline.
-/
namespace Rosu.PipelineManiaConvert
open Rosu.ManiaPattern Rosu.PipelineMania Rosu.SkillOps Rosu.ConvertWF

/-- casts the converter and the mods need besides `PrepOps` -/
structure XOps (R S : Type) where
  /-- `x as i32` for an `f32` (saturating) -/
  f32ToI32 : S → Int
  /-- `f32::from(column)` / `total_columns as f32` -/
  ofNatS : Nat → S
  /-- `f64::from(i32)` -/
  i32ToR : Int → R

/-- a source (osu!) object as the converter reads it -/
inductive SObj (R : Type) where
  | circle (x : Int) (sample ct : Nat) (start : R)
  | slider (x : Int) (sample ct : Nat) (span startT endT seg : Int) (nodes : List Nat)
  /-- spinner or hold note: sample, `end - start >= 100`, `end - start < 1000`, start, end time,
  whether it is a hold note (not counted by `target_columns`) -/
  | spinner (sample : Nat) (hold short : Bool) (start endT : R) (isHold : Bool)

/-- a converted hit object: x position, start time, `Some(duration)` for a hold note -/
structure HitObj (R S : Type) where
  x : S
  start : R
  dur : Option R

variable {R S : Type}

def SObj.toObjIn : SObj R → ObjIn R
  | .circle x sample ct _ => .circle x sample ct
  | .slider x sample ct span s e seg nodes => .slider x sample ct span s e seg nodes
  | .spinner sample hold short _ _ _ => .spinner sample hold short

def SObj.countsForColumns : SObj R → Bool
  | .circle .. => false
  | .slider .. => true
  | .spinner _ _ _ _ _ isHold => !isHold

section
variable [FOps R] [FOps S] (P : PrepOps R S) (X : XOps R S)
open FOps

/-- `column_to_pos(column, total_columns)`: `(f32::from(column) * (512.0 / total as f32)).ceil()` -/
def columnToPosS (col total : Nat) : S :=
  -- `ceil(x) = -floor(-x)`
  -(P.floor (-(X.ofNatS col * ((512.0 : S) / X.ofNatS total))))

/-- the hit object a generated note becomes (`Pattern::new_note`, `new_end_time_note`,
`new_slider_note`) -/
def noteToHit (total : Nat) (src : SObj R) (n : Note) : HitObj R S :=
  let x := columnToPosS P X n.col total
  match n.time, src with
  | .span s e, _ =>
    if s = e then ⟨x, X.i32ToR s, none⟩ else ⟨x, X.i32ToR s, some (X.i32ToR e - X.i32ToR s)⟩
  | .holdObject, .spinner _ _ _ start endT _ => ⟨x, start, some (endT - start)⟩
  | _, .circle _ _ _ start => ⟨x, start, none⟩
  | _, .spinner _ _ _ start _ _ => ⟨x, start, none⟩
  | _, .slider _ _ _ _ s _ _ _ => ⟨x, X.i32ToR s, none⟩

/-- the seed of `convert` -/
def convertSeed (hp cs od ar : S) : Int :=
  X.f32ToI32 (P.roundTiesEven (hp + cs)) * 20 + X.f32ToI32 (od * 41.2) + X.f32ToI32 (P.roundTiesEven ar)

/-- `target_columns(map, mods)` -/
def keysOf (keyMod : Option Nat) (cs od : S) (objs : List (SObj R)) : Nat :=
  targetColumns keyMod (X.f32ToI32 (P.roundTiesEven cs)) (X.f32ToI32 (P.roundTiesEven od))
    (objs.filter SObj.countsForColumns).length objs.length

/-- stable insertion by `start_time.total_cmp` -/
def insertByStart (p : HitObj R S) : List (HitObj R S) → List (HitObj R S)
  | [] => [p]
  | q :: qs => if totalGe p.start q.start then q :: insertByStart p qs else p :: q :: qs

def sortByStart (l : List (HitObj R S)) : List (HitObj R S) := l.foldl (fun acc p => insertByStart p acc) []

/-- `sort::osu_legacy` with `gt = total_cmp().is_gt()`, `lt = <` on the start times -/
def legacy (l : List (HitObj R S)) : Option (List (HitObj R S)) :=
  Rosu.Sort.legacySort (fun a b => !totalGe b.start a.start) (fun a b => lt a.start b.start) l

/-- `convert(map, mods)`: the hit objects of the converted map; `Fail` of the generators passed on -/
def convertMap (PA : PArith R) (fuel : Nat) (keys : Nat) (seed : Int) (cd : R) (objs : List (SObj R)) :
    Except Fail (Option (List (HitObj R S))) :=
  match convertLoop PA keys cd fuel (ConvSt.init seed) (objs.map SObj.toObjIn) with
  | .error e => .error e
  | .ok (trace, _) =>
    let hits := ((objs.zip trace).map fun p =>
      (p.2.1.map fun pat => pat.notes.map (noteToHit P X keys p.1)).flatten).flatten
    .ok (legacy (sortByStart hits))

/-! ## the mods applied to the converted map -/

/-- `apply_hold_off_to_beatmap`: circles kept, hold notes become circles at their start, appended
after the circles, then the stable sort by start time -/
def applyHoldOff (l : List (HitObj R S)) : List (HitObj R S) :=
  sortByStart ((l.filter (·.dur.isNone)) ++ (l.filter (·.dur.isSome)).map (fun h => { h with dur := none }))

/-- `timing_point_at(points, time)` on strictly sorted points `(time, beat_len)`: the last point at
or before `time`, else the first point -/
def beatLenAt (pts : List (R × R)) (t : R) : R :=
  match (pts.filter (fun p => totalGe t p.1)).getLast? with
  | some p => p.2
  | none => match pts.head? with
    | some p => p.2
    | none => 1000.0

/-- stable insertion sort of `f64`s by `total_cmp` -/
def insertF (x : R) : List R → List R
  | [] => [x]
  | y :: ys => if totalGe x y then y :: insertF x ys else x :: y :: ys

/-- `locations.windows(2)` -/
def windows2 {α : Type} : List α → List (α × α)
  | a :: b :: r => (a, b) :: windows2 (b :: r)
  | _ => []

/-- one column of `apply_invert_to_beatmap`; `none` = `column_buf[0]` out of bounds -/
def invertColumn (pts : List (R × R)) (buf : List (HitObj R S)) : Option (List (HitObj R S)) :=
  let notes := (buf.filter (·.dur.isNone)).map (·.start)
  let holds := ((buf.filterMap fun h => h.dur.map fun d => [h.start, h.start + d])).flatten
  let locations := (notes ++ holds).foldl (fun acc x => insertF x acc) []
  (windows2 locations).mapM fun w =>
    match buf.head? with
    | none => none
    | some first =>
      let duration := w.2 - w.1
      let beatLen := beatLenAt pts w.2
      some ⟨first.x, w.1, some (fmax (duration / 2.0) (duration - beatLen / 4.0))⟩

/-- `apply_invert_to_beatmap` (`total` = `map.cs`, `cols` = `map.cs as usize`) -/
def applyInvert (pts : List (R × R)) (total : S) (cols : Nat) (l : List (HitObj R S)) :
    Option (List (HitObj R S)) :=
  ((List.range cols).mapM fun c => invertColumn pts (l.filter fun h => column P h.x total = c)).map
    fun cs => sortByStart cs.flatten

/-! ## the Random mod (`RandomMania { seed }`): `apply_random_to_beatmap` -/

/-- `n` successive `rng.next()` draws (`sort_by_cached_key` evaluates the key once per element, in
order) -/
def csDraws : Nat → Rosu.Rng.Csharp → List Int
  | 0, _ => []
  | n + 1, s => s.next.1 :: csDraws n s.next.2

/-- stable insertion by key -/
def insertKeyed (p : Int × Nat) : List (Int × Nat) → List (Int × Nat)
  | [] => [p]
  | q :: qs => if q.1 ≤ p.1 then q :: insertKeyed p qs else p :: q :: qs

/-- `shuffled_columns`: `(0..total as u8)` stably sorted by its cached random keys -/
def shuffledColumns (seed : Int) (n : Nat) : List Nat :=
  (((csDraws n (Rosu.Rng.Csharp.new seed)).zip (List.range n)).foldl (fun acc p => insertKeyed p acc) []).map (·.2)

/-- `apply_random_to_beatmap(map, seed)`: every object moves to column `shuffled[old_column]`
(checked index); `total` = `map.cs`, `n` = `map.cs as u8` -/
def applyRandom (seed : Int) (total : S) (n : Nat) (l : List (HitObj R S)) : Option (List (HitObj R S)) :=
  let sh := shuffledColumns seed n
  l.mapM fun h =>
    (sh[column P h.x total]?).map fun c =>
      { h with x := -(P.floor (-(X.ofNatS c * ((512.0 : S) / total)))) }

/-! ## preparation and attributes -/

/-- `ManiaObject::new` on a converted object -/
def prepareHit (total : S) (h : HitObj R S) : Prepared R :=
  let col := column P h.x total
  match h.dur with
  | none => ⟨⟨h.start, h.start, col⟩, ⟨true, 1⟩⟩
  | some d => ⟨⟨h.start, h.start + d, col⟩, ⟨false, 1 + P.toU32 (d / 100.0)⟩⟩

/-- settings of the calculation -/
structure Settings (R S : Type) where
  keyMod : Option Nat
  hp : S
  cs : S
  od : S
  ar : S
  /-- `conversion_difficulty()` -/
  cd : R
  clockRate : R
  holdOff : Bool
  invert : Bool
  /-- timing points `(time, beat_len)` (read by Invert only) -/
  timing : List (R × R)
  /-- `mods.random_seed()` -/
  randomSeed : Option Int := none

inductive Out (α : Type) where
  | ok (a : α)
  /-- a generator failed: shift / arithmetic / index / assert -/
  | genPanic
  | panic
  | fuel

/-- the prepared objects of the converted (and modded) map, and `total_columns as usize` -/
def preparedOf (PA : PArith R) (fuel : Nat) (st : Settings R S) (objs : List (SObj R)) :
    Out (List (Prepared R) × Nat) :=
  let keys := keysOf P X st.keyMod st.cs st.od objs
  match convertMap P X PA fuel keys (convertSeed P X st.hp st.cs st.od st.ar) st.cd objs with
  | .error .fuel => .fuel
  | .error _ => .genPanic
  | .ok none => .panic
  | .ok (some hits) =>
    let csF : S := X.ofNatS keys
    let hits := if st.holdOff then applyHoldOff hits else hits
    let hits' := if st.invert then applyInvert P st.timing csF (P.toUsize csF) hits else some hits
    let hits'' := match hits', st.randomSeed with
      | some hs, some seed => applyRandom P X seed csF (P.toUsize csF % 256) hs
      | h, _ => h
    match hits'' with
    | none => .panic
    | some hs =>
      let total := totalColumns P csF
      .ok (hs.map (prepareHit P total), P.toUsize total)

/-- **`mania::difficulty::difficulty`** on an osu! map: convert, mods, calculate -/
def maniaConvertDifficulty (PA : PArith R) (A : SecArith R) (fuel : Nat) (st : Settings R S) (take : Nat)
    (objs : List (SObj R)) : Out (Attrs R) :=
  match preparedOf P X PA fuel st objs with
  | .genPanic => .genPanic
  | .panic => .panic
  | .fuel => .fuel
  | .ok (l, cols) =>
    match oneShot A fuel st.clockRate cols take l with
    | .ok a => .ok { a with isConvert := true }
    | .panic => .panic
    | .fuel => .fuel
    | _ => .panic

/-- the values of `ManiaGradualDifficulty` on the same prepared objects -/
def maniaConvertGradual (PA : PArith R) (A : SecArith R) (fuel : Nat) (st : Settings R S)
    (objs : List (SObj R)) : Out (List (PipelineMania.Out (Attrs R))) :=
  match preparedOf P X PA fuel st objs with
  | .genPanic => .genPanic
  | .panic => .panic
  | .fuel => .fuel
  | .ok (l, cols) => .ok (gradualValues A fuel st.clockRate cols l)

end

end Rosu.PipelineManiaConvert
