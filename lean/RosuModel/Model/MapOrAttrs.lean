/-
Model of `MapOrAttrs` (src/util/map_or_attrs.rs) and of the `generate_state` / `calculate`
skeleton shared by the four mode performance builders
(src/{osu,taiko,catch,mania}/performance/mod.rs):

    generate_state:  attrs = match map_or_attrs { Map(m) => insert_attrs(difficulty.calculate_for_mode(m)),
                                                  Attrs(a) => a };  … state from (attrs, difficulty, score spec)
    calculate:       state = generate_state();
                     attrs = match map_or_attrs { Attrs(a) => a, Map(m) => difficulty.calculate_for_mode(m) };
                     Calculator::new(attrs, mods, state).calculate()

`diff`, `gen` and `ppCalc` are opaque.
-/
namespace Rosu.MapOrAttrs

inductive Src (Map Attrs : Type) where
  | map (m : Map)
  | attrs (a : Attrs)

structure PB (Map Attrs D X : Type) where
  src : Src Map Attrs
  difficulty : D
  spec : X

variable {Map Attrs D X St R : Type}

/-- `generate_state(&mut self)`: returns the state and the builder with `insert_attrs` applied. -/
def generateState (diff : D → Map → Attrs) (gen : Attrs → D → X → St) (b : PB Map Attrs D X) :
    St × PB Map Attrs D X :=
  match b.src with
  | .map m =>
    let a := diff b.difficulty m
    (gen a b.difficulty b.spec, { b with src := .attrs a })
  | .attrs a => (gen a b.difficulty b.spec, b)

/-- `calculate(mut self)`. -/
def calculate (diff : D → Map → Attrs) (gen : Attrs → D → X → St) (ppCalc : Attrs → D → St → R)
    (b : PB Map Attrs D X) : R :=
  let (st, b') := generateState diff gen b
  let a := match b'.src with
    | .attrs a => a
    | .map m => diff b'.difficulty m
  ppCalc a b'.difficulty st

end Rosu.MapOrAttrs
