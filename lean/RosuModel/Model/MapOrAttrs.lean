import RosuModel.Gen.PerfSkeleton

/-
Model of `MapOrAttrs` (src/util/map_or_attrs.rs) and of the `generate_state` / `calculate`
skeleton shared by the four mode performance builders
(src/{osu,taiko,catch,mania}/performance/mod.rs):

    generate_state:  attrs = match map_or_attrs { Map(m) => insert_attrs(difficulty.calculate_for_mode(m)),
                                                  Attrs(a) => a };  … state from (attrs, difficulty, score spec)
    calculate:       state = generate_state();
                     attrs = match map_or_attrs { Attrs(a) => a, Map(m) => difficulty.calculate_for_mode(m) };
                     Calculator::new(attrs, mods, state).calculate()

`diff`, `gen` and `ppCalc` are opaque.
-/
namespace Rosu.MapOrAttrs

inductive Src (Map Attrs : Type) where
  | map (m : Map)
  | attrs (a : Attrs)

structure PB (Map Attrs D X : Type) where
  src : Src Map Attrs
  difficulty : D
  spec : X

variable {Map Attrs D X St R : Type}

/-- `generate_state(&mut self)`: returns the state and the builder with `insert_attrs` applied. -/
def generateState (diff : D → Map → Attrs) (gen : Attrs → D → X → St) (b : PB Map Attrs D X) :
    St × PB Map Attrs D X :=
  match b.src with
  | .map m =>
    let a := diff b.difficulty m
    (gen a b.difficulty b.spec, { b with src := .attrs a })
  | .attrs a => (gen a b.difficulty b.spec, b)

/-- `calculate(mut self)`. -/
def calculate (diff : D → Map → Attrs) (gen : Attrs → D → X → St) (ppCalc : Attrs → D → St → R)
    (b : PB Map Attrs D X) : R :=
  let (st, b') := generateState diff gen b
  let a := match b'.src with
    | .attrs a => a
    | .map m => diff b'.difficulty m
  ppCalc a b'.difficulty st

/-! ## The same skeleton as data

`Gen/PerfSkeleton.lean` holds the skeleton of the four concrete `generate_state` / `calculate`
functions as extracted from the source text on every run.  Below is the skeleton the two model
functions above were transcribed from; `Props/C04.lean` proves that every mode's extracted skeleton
conforms to it.  Reading guide (model function ↔ skeleton statement):

* `match b.src with | .map m => let a := diff b.difficulty m; (…, {b with src := .attrs a})`
  ↔ arm `MapOrAttrs::Map(ref map)`: `let v0 = self.difficulty.calculate_for_mode::<MODE>(map)?`
  (the builder's own `Difficulty`, the map held by the builder) then
  `self.map_or_attrs.insert_attrs(v0)` (local names are canonicalised; stores `Attrs(attrs)` and evaluates to a reference to it);
* `| .attrs a => (gen a …, b)` ↔ arm `MapOrAttrs::Attrs(ref attrs)`: `attrs`;
* `gen a b.difficulty b.spec` ↔ `.opaque` reading at most `attrs`, `self.difficulty` and the score
  fields (`self.spec`) — in particular not `self.map_or_attrs`;
* `calculate`: `let (st, b') := generateState …` ↔ `let state = self.generate_state()?`;
  the second `match` ↔ `let attrs = match self.map_or_attrs { Attrs(attrs) => attrs, Map(ref map) =>
  self.difficulty.calculate_for_mode::<MODE>(map)? }`; `ppCalc a b'.difficulty st` ↔ the tail
  constructing `<Mode>PerformanceCalculator::new(attrs, …)` once, reading at most `attrs`, `state`
  and `self.difficulty`, and returning `Ok(calculator.calculate())`. -/

open Rosu.Gen.PerfSkeleton

def generateStateSkeleton : List Stmt :=
  [.receiver "&mut self",
   .letMatch "attrs" "self.map_or_attrs"
     [("MapOrAttrs::Map(ref map)",
        ["let v0=self.difficulty.calculate_for_mode::<MODE>(map)?", "self.map_or_attrs.insert_attrs(v0)"]),
      ("MapOrAttrs::Attrs(ref attrs)", ["attrs"])],
   .opaque ["attrs", "self.difficulty", "self.spec"]]

def calculateSkeleton : List Stmt :=
  [.receiver "mut self",
   .letExpr "state" "self.generate_state()?",
   .letMatch "attrs" "self.map_or_attrs"
     [("MapOrAttrs::Attrs(attrs)", ["attrs"]),
      ("MapOrAttrs::Map(ref map)", ["self.difficulty.calculate_for_mode::<MODE>(map)?"])],
   .retCalc "MODEPerformanceCalculator::new" "attrs" ["attrs", "self.difficulty", "state"]]

/-- A statement extracted from the code conforms to a statement of the model skeleton: equal, except
that collapsed float-level code may read *less* than the model's opaque function is given (but the
calculator must receive both the attributes and the state). -/
def stmtConforms : Stmt → Stmt → Bool
  | .opaque r, .opaque allowed => r.all (allowed.contains ·)
  | .retCalc c a r, .retCalc c' a' allowed =>
      c == c' && a == a' && r.all (allowed.contains ·) && r.contains "attrs" && r.contains "state"
  | .unknown _, _ => false
  | s, t => s == t

def conformsAll : List Stmt → List Stmt → Bool
  | [], [] => true
  | s :: ss, t :: ts => stmtConforms s t && conformsAll ss ts
  | _, _ => false

/-- `MapOrAttrs::insert_attrs`: overwrite with `Attrs(attrs)`, hand back a reference to the stored value. -/
def insertAttrsModel : List String :=
  ["*self=Self::Attrs(attrs)", "let Self::Attrs(ref mut attrs)=self else{unreachable!()}", "attrs"]

/-- `impl From<…> for MapOrAttrs`: a map becomes `Map`, difficulty attributes become `Attrs`,
performance attributes contribute their embedded difficulty attributes. -/
def fromModel : List (String × String) :=
  [("&'map Beatmap", "Self::Map(Cow::Borrowed(map))"), ("Beatmap", "Self::Map(Cow::Owned(map))"),
   ("crate::$module::$diff", "Self::Attrs(attrs)"), ("crate::$module::$perf", "Self::Attrs(attrs.difficulty)")]

/-! ## Constructors: wrapping only

How a builder comes into being (`Performance::new`, `<Mode>Performance::{new, try_new, from}`,
`IntoPerformance` / `IntoModePerformance`, `from_map_or_attrs`): the model's `PB.mk (.map m) d₀ x₀` /
`PB.mk (.attrs a) d₀ x₀` with default settings `d₀` and an empty score specification `x₀` — the
argument is wrapped, nothing is computed, converted or consulted. -/

/-- The one statement each `into_performance` consists of, per (trait, implementing type). -/
def intoImplsModel : List (String × String × List String) :=
  let viaMode := "<mode!()as IGameMode>::Performance::from_map_or_attrs(self.into())"
  let wrapMode := "Performance::$mode(<Self as IntoModePerformance<'_,mode!()>>::into_performance(self))"
  let sig := "fn into_performance(self)"
  let table (scrut pat arg : String) : String :=
    "match " ++ scrut ++ "{" ++ ",".intercalate (["Osu", "Taiko", "Catch", "Mania"].map fun m =>
      pat ++ m ++ (if pat == "Self::" then "(attrs)" else "") ++ "=>Performance::" ++ m ++ "(" ++ arg ++ ")") ++ "}"
  [("IntoModePerformance", "crate::$module::$diff", [sig, viaMode]),
   ("IntoModePerformance", "crate::$module::$perf",
      [sig, "<mode!()as IGameMode>::Performance::from_map_or_attrs(self.difficulty.into())"]),
   ("IntoPerformance", "crate::$module::$diff", [sig, wrapMode]),
   ("IntoPerformance", "crate::$module::$perf", [sig, wrapMode]),
   ("IntoModePerformance", "&'_ Beatmap", [sig, viaMode]),
   ("IntoModePerformance", "Beatmap", [sig, viaMode]),
   ("IntoPerformance", "Beatmap", [sig, table "self.mode" "GameMode::" "self.into()"]),
   ("IntoPerformance", "&'_ Beatmap", [sig, table "self.mode" "GameMode::" "self.into()"]),
   ("IntoPerformance", "DifficultyAttributes", [sig, table "self" "Self::" "attrs.into()"]),
   ("IntoPerformance", "PerformanceAttributes", [sig, table "self" "Self::" "attrs.difficulty.into()"])]

/-- `new`, `try_new`, `From<T>::from` of a mode builder. -/
def builderConstructorsModel : List (String × List String) :=
  [("new", ["map_or_attrs.into_performance()"]),
   ("try_new", ["if let Performance::MODE(calc)=map_or_attrs.into_performance(){Some(calc)}else{None}"]),
   ("From<T>::from", ["into.into_performance()"])]

/-- `from_map_or_attrs`: the source as given, default settings, nothing provided. -/
def freshBuilderField (p : String × String) : Bool :=
  if p.1 == "map_or_attrs" then p.2 == "map_or_attrs"
  else if p.1 == "difficulty" then p.2 == "Difficulty::new()"
  else if p.1 == "hitresult_priority" then p.2 == "HitResultPriority::DEFAULT"
  else p.2 == "None"

end Rosu.MapOrAttrs
