/-
C20 — a small world model for concurrent use of the library.  Core Lean only.

* `M`  : the beatmaps, shared by reference and never written (`&Beatmap`)
* `G`  : process-global mutable state (statics, caches, global locks) — the crate has none; the
         model keeps the component so that "has none" is a hypothesis (`Isolated`) instead of
         being built into the types
* `T`  : state local to an OS thread (`thread_local!`) — likewise
* `S`  : private state of one call / one calculator value (builder, skills, gradual cursor, the
         `Rc<RefCell<_>>`/`Arc<RwLock<_>>` object graph a taiko calculator owns)

A *step* is one atomic piece of a call's work, executed by some thread.  A schedule is a list of
`(thread, call)` pairs chosen by an arbitrary scheduler.
-/
namespace Rosu.Interleave

/-- One step of call `c`: may in principle read and write globals and the executing thread's
locals besides the call's private state. -/
structure Sys (M G T S : Type) where
  step : M → Nat → G → T → S → G × T × S

structure World (G T S : Type) where
  glob : G
  tls : Nat → T
  priv : Nat → S

def upd {α} (f : Nat → α) (i : Nat) (v : α) : Nat → α := fun j => if j = i then v else f j

/-- Thread `th` executes the next step of call `c`. -/
def Sys.stepAt {M G T S} (sys : Sys M G T S) (m : M) (w : World G T S) (th c : Nat) : World G T S :=
  let r := sys.step m c w.glob (w.tls th) (w.priv c)
  { glob := r.1, tls := upd w.tls th r.2.1, priv := upd w.priv c r.2.2 }

/-- Run a schedule. -/
def Sys.exec {M G T S} (sys : Sys M G T S) (m : M) (w : World G T S) (sched : List (Nat × Nat)) : World G T S :=
  sched.foldl (fun w tc => sys.stepAt m w tc.1 tc.2) w

/-- The code-level premise: a step is a pure function of the immutable maps and the call's
private state; globals and thread-locals are neither read nor written. -/
def Isolated {M G T S} (sys : Sys M G T S) (pure : M → Nat → S → S) : Prop :=
  ∀ m c g t s, sys.step m c g t s = (g, t, pure m c s)

/-- `n` steps of call `c` run alone. -/
def iter {M S} (pure : M → Nat → S → S) (m : M) (c : Nat) : Nat → S → S
  | 0, s => s
  | n + 1, s => iter pure m c n (pure m c s)

/-- Sequential execution: every call runs to completion (its `k c` steps) one after another, all
on thread 0. -/
def seqSched (calls : List Nat) (k : Nat → Nat) : List (Nat × Nat) :=
  calls.flatMap fun c => List.replicate (k c) (0, c)

/-! ### `sync` feature: scoped lock guards (`RefCount::get` / `get_mut` in util/sync.rs)

A step that uses the object graph acquires guards and drops them before it returns; no guard is
stored in a calculator.  `held` is the set of currently held locks. -/

inductive LockOp where
  | acquire (l : Nat)
  | release (l : Nat)
deriving Repr, DecidableEq

def applyOp (held : List Nat) : LockOp → List Nat
  | .acquire l => l :: held
  | .release l => held.erase l

/-- Lexically scoped guard use: `{ let g = x.get(); body }` -/
inductive Scoped where
  | nil
  | guard (l : Nat) (body : Scoped) (rest : Scoped)

def Scoped.ops : Scoped → List LockOp
  | .nil => []
  | .guard l body rest => [.acquire l] ++ body.ops ++ [.release l] ++ rest.ops

end Rosu.Interleave
