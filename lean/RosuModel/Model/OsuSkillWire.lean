import RosuModel.Model.OsuSkill
import RosuModel.Model.PerfCalcWire

/-!
Driver glue for the `OSK` lines: `Model/OsuSkill.lean` at the `Float` instance.

  OSK <group> <limit> … see below; header = <clock_rate,scaling_factor,radius,time_preempt,time_fade_in,time_fade_in_hidden,hit_window>
      <obj;obj;…>   obj = kind:start:px:py:sx:sy:lex:ley:ltd:ltt:repeats:hasTail:tx:ty   (f64 bit patterns; f32
                    values as the f64 they convert to exactly)
  group = obj | aim | fl | spd | rhy
Response: one `key=value` token per number (`b:<bits>`, `none` for a missing angle), keys `<field><idx>`.
-/
namespace Rosu.PerfCalc
open Rosu.Wire

def parseRaw (s : String) : Option (RawObj Float) :=
  match s.splitOn ":" with
  | [k, st, px, py, sx, sy, lex, ley, ltd, ltt, rc, ht, tx, ty] =>
    some { kind := nat! k, startTime := parseF st, posX := parseF px, posY := parseF py, stackX := parseF sx,
           stackY := parseF sy, lazyEndX := parseF lex, lazyEndY := parseF ley, lazyTravelDist := parseF ltd,
           lazyTravelTime := parseF ltt, repeatCount := nat! rc, hasTail := ht == "1", tailX := parseF tx,
           tailY := parseF ty }
  | _ => none

def handleOSK (args : List String) : String :=
  match args with
  | [group, hdr, limit, objs] =>
    match floats hdr with
    | [clock, sf, radius, preempt, fadeIn, fadeInHd, hitWindow] =>
      let raws := (splitList objs ";").filterMap parseRaw
      let ds := createDiffObjs raws clock sf
      -- a truncated probe compares only the first `limit` difficulty objects (the evaluators look ahead)
      let shown := ds.take (nat! limit)
      let flSf : Float := 52.0 / radius
      let toks : List String := shown.flatMap fun d =>
        let i := toString d.idx
        if group == "obj" then
          [s!"st{i}={showF d.startTime}", s!"dt{i}={showF d.deltaTime}", s!"sn{i}={showF d.strainTime}",
           s!"lj{i}={showF d.lazyJumpDist}", s!"mj{i}={showF d.minJumpDist}", s!"mt{i}={showF d.minJumpTime}",
           s!"td{i}={showF d.travelDist}", s!"tt{i}={showF d.travelTime}", s!"an{i}={showOptF d.angle}"]
        else if group == "aim" then
          [s!"a{i}={showF (aimEvaluate ds d true)}", s!"n{i}={showF (aimEvaluate ds d false)}"]
        else if group == "fl" then
          [s!"f{i}={showF (flashlightEvaluate ds d false flSf preempt fadeIn)}",
           s!"h{i}={showF (flashlightEvaluate ds d true flSf preempt fadeInHd)}"]
        else if group == "spd" then
          [s!"s{i}={showF (speedEvaluate ds d hitWindow false)}", s!"p{i}={showF (speedEvaluate ds d hitWindow true)}"]
        else if group == "rhy" then
          [s!"r{i}={showF (rhythmEvaluate ds d hitWindow)}"]
        else ["bad-group"]
      -- coverage annotation for the rhythm lines: how many island entries / repeated islands the loops saw
      let ann : List String :=
        if group == "rhy" then
          let finals := shown.filterMap fun d => (rhythmEvaluateFull ds d hitWindow).2
          let islands := (finals.map fun st => st.counts.length).foldl (· + ·) 0
          let repeated := (finals.map fun st => (st.counts.filter fun e => e.2 > 1).length).foldl (· + ·) 0
          let under := finals.any fun st => st.underflow || st.broke
          let bucket (n : Nat) : String := if n = 0 then "0" else if n < 10 then "1-9" else if n < 100 then "10-99" else "100+"
          [s!"~islands={bucket islands}", s!"~repeated={bucket repeated}", s!"~underflow-or-break={if under then 1 else 0}"]
        else []
      " ".intercalate (s!"n={shown.length}" :: toks ++ ann)
    | _ => "bad-osk-header"
  | _ => "bad-osk"

end Rosu.PerfCalc
