import RosuModel.Model.ConvOsu
import RosuModel.Model.StackingWire

/-!
# `OCONV` wire: osu! `convert_objects` + `compute_slider_cursor_pos`, IEEE instance

`OCONV <reflection> <version> <take> <cs> <arWindow> <clock> <stackLeniency> <objects>` (floats as hex
bit patterns; `cs`, `arWindow`, `clock`, `stackLeniency` are f64).  Objects `;`-separated:
`c:x:y:start` | `p:x:y:start:duration` | `s:x:y:start:end:lex:ley:ltime:<nested>` with nested
`/`-separated `kind,x,y,time` (`-` = none).  Response: `scale radius factor preempt|maxCombo,nCircles,
nSliders,nLargeTicks,nSpinners|<objects>` with per object `x:y:height:sox:soy` and for sliders
`:lex:ley:ldist:ltime:<nested x,y /…>`.
-/
namespace Rosu.ConvOsu.Wire
open Rosu.ConvOsu Rosu.Stack.Wire

def ieee : Ar Float Float32 where
  addR := (· + ·)
  subR := (· - ·)
  mulR := (· * ·)
  divR := (· / ·)
  ltR a b := a < b
  sqrtR := Float.sqrt
  addS := (· + ·)
  subS := (· - ·)
  mulS := (· * ·)
  divS := (· / ·)
  negS a := -a
  ltS a b := a < b
  toS := Float.toFloat32
  toR := Float32.toFloat
  intS := Float32.ofInt
  intR := Float.ofInt
  assumedRadius := (50 : Float32) * 1.8
  c07 := 0.7
  cAllowance := 1.00041
  cStack := -6.4
  c3 := 3.0

def hexOf (n : Nat) : String := String.ofList (Nat.toDigits 16 n)
def h64 (x : Float) : String := hexOf x.toBits.toNat
def h32 (x : Float32) : String := hexOf x.toBits.toNat

def parseNested (s : String) : List (Nested Float Float32) :=
  if s = "-" then [] else (s.splitOn "/").filterMap (fun t =>
    match t.splitOn "," with
    | [k, x, y, tm] => some ⟨(f32 x, f32 y), f64 tm, k.toNat?.getD 9⟩
    | _ => none)

def parseObj (s : String) : Option (Obj Float Float32) :=
  match s.splitOn ":" with
  | ["c", x, y, st] => some ⟨(f32 x, f32 y), f64 st, 0, (0, 0), .circle⟩
  | ["p", x, y, st, d] => some ⟨(f32 x, f32 y), f64 st, 0, (0, 0), .spinner (f64 d)⟩
  | ["s", x, y, st, en, lx, ly, lt, ns] =>
    some ⟨(f32 x, f32 y), f64 st, 0, (0, 0), .slider ⟨f64 en, (f32 lx, f32 ly), 0, f64 lt, parseNested ns⟩⟩
  | _ => none

def showObj (o : Obj Float Float32) : String :=
  let base := s!"{h32 o.pos.1}:{h32 o.pos.2}:{o.stackHeight}:{h32 o.stackOffset.1}:{h32 o.stackOffset.2}"
  match o.kind with
  | .slider s =>
    let ns := if s.nested.isEmpty then "-" else "/".intercalate (s.nested.map (fun n => s!"{h32 n.pos.1},{h32 n.pos.2}"))
    s!"{base}:{h32 s.lazyEnd.1}:{h32 s.lazyEnd.2}:{h32 s.lazyDist}:{h64 s.lazyTime}:{ns}"
  | _ => base

def handleOCONV (refl version take cs ar clock sl objs : String) : String :=
  let os := if objs = "-" then [] else (objs.splitOn ";").map parseObj
  if os.any Option.isNone then "bad-object"
  else
    match prepare ieee (f64 cs) (f64 ar) (f64 clock) (f64 sl) (refl.toNat?.getD 0) (version.toNat?.getD 0)
        (take.toNat?.getD 0) (os.filterMap id) with
    | none => "PANIC"
    | some (os, c, sc, tp) =>
      s!"{h32 sc.scale} {h64 sc.radius} {h32 sc.factor} {h64 tp}|{c.maxCombo},{c.nCircles},{c.nSliders},{c.nLargeTicks},{c.nSpinners}|"
        ++ (if os.isEmpty then "-" else ";".intercalate (os.map showObj))

/-- `LTT <start> <duration> <nested>`: `OsuSlider::lazy_travel_time` — the time and the order of the
nested objects afterwards (as indices into the input) -/
def handleLTT (start dur ns : String) : String :=
  let nested := parseNested ns
  let tagged : List (Nested Float Float32) := (nested.zip (List.range nested.length)).map
    (fun p => { p.1 with pos := (Float32.ofNat p.2, 0) })
  let r := lazyTravelTime ieee (f64 start) (f64 dur) tagged
  s!"{h64 r.1} " ++ (if r.2.isEmpty then "-" else ",".intercalate (r.2.map (fun n => toString n.pos.1.toUInt32.toNat)))

end Rosu.ConvOsu.Wire
