import RosuModel.Model.Gradual
import RosuModel.Model.Wire

/-
Driver glue for the gradual models: request lines → response lines.

Skill instance used by the driver: the state is `(count, inOrder)`; `process s i` increments
the count and records whether objects were handed over in the order `0, 1, 2, …`.
-/
namespace Rosu.Gradual
open Rosu.Wire

def drvSkills : Skills (Nat × Bool) := ⟨(0, true), fun s i => (s.1 + 1, s.2 && i == s.1)⟩

def parseOps (s : String) : List Op :=
  (splitList s ",").map fun t =>
    if t == "N" then Op.next
    else if t == "L" then Op.len
    else Op.nth (nat! (t.drop 1).toString)

/-- Signature id of a skill state: `sig[j]` for the first one-shot `take = j` that processes the
same number of difficulty objects; `X` if the state is not an in-order prefix or has no match. -/
def sigOf (sig : List Nat) (oneShotProcessed : Nat → Nat) (s : Nat × Bool) : String :=
  if !s.2 then "X" else
  match (List.range sig.length).find? (fun j => oneShotProcessed j == s.1) with
  | some j => toString (sig.getD j 0)
  | none => "X"

def showRes {V} (f : V → String) : Res V → String
  | .some v => "S:" ++ f v
  | .none => "N"
  | .panic => "P"

def showOut {V} (f : V → String) : Out V → String
  | .val r => showRes f r
  | .len (some l) => "L" ++ toString l
  | .len none => "LU"

def showOsuCounts (c : OsuCounts) : String :=
  s!"{c.maxCombo}:{c.nCircles}:{c.nSliders}:{c.nLargeTicks}:{c.nSpinners}"

def parseOsuObjs (s : String) : List OsuObj :=
  (splitList s ";").map fun t =>
    match t.splitOn ":" with
    | [k, lt, n] =>
      { kind := if k == "0" then .circle else if k == "1" then .slider else .spinner,
        largeTicks := nat! lt, nested := nat! n }
    | _ => { kind := .circle, largeTicks := 0, nested := 0 }

def parseBools (s : String) : List Bool :=
  if s == "-" then [] else s.toList.map (· == '1')

def showCatchCounts (c : CatchCounts) : String := s!"{c.fruits}:{c.droplets}:{c.tiny}"

def parseCatchRecs (s : String) : List CatchRec :=
  (splitList s ";").map fun t =>
    match t.splitOn ":" with
    | [f, n] => { fruit := bool! f, tiny := nat! n }
    | _ => { fruit := false, tiny := 0 }

/-- Expand gradual records back into the event stream that produced them. -/
def catchEventsOfRecs (recs : List CatchRec) : List CatchEvent :=
  recs.flatMap fun r => [CatchEvent.tiny r.tiny, if r.fruit then CatchEvent.fruit else CatchEvent.droplet]

def showManiaCounts (c : ManiaCounts) : String := s!"{c.maxCombo}:{c.nObjects}:{c.nHoldNotes}"

def parseManiaObjs (s : String) : List ManiaObj :=
  (splitList s ";").map fun t =>
    match t.splitOn ":" with
    | [c, a] => { isCircle := bool! c, incOne := nat! a }
    | _ => { isCircle := true, incOne := 1 }

/-- `GRAD <mode> <objs> <sig> <ops>` -/
def handleGrad (mode objs sig ops : String) : String :=
  let sig := natList sig
  let ops := parseOps ops
  if mode == "osu" then
    let objs := parseOsuObjs objs
    let m := osuMachine drvSkills objs
    let sg := sigOf sig (fun j => (osuOneShot drvSkills objs j).2.1)
    joinWith " " ((m.run (osuNew drvSkills objs) ops).1.map
      (showOut fun v => showOsuCounts v.1 ++ ":" ++ sg v.2))
  else if mode == "taiko" then
    let objs := parseBools objs
    let m := taikoMachine drvSkills objs
    let sg := sigOf sig (fun j => (taikoOneShot drvSkills objs j).2.1)
    joinWith " " ((m.run (taikoNew drvSkills objs) ops).1.map
      (showOut fun v => toString v.1 ++ ":" ++ sg v.2))
  else if mode == "catch" then
    let recs := parseCatchRecs objs
    let evs := catchEventsOfRecs recs
    let dl := recs.length - 1
    let m := catchMachine drvSkills recs dl
    let sg := sigOf sig (fun j => (catchOneShot drvSkills evs j).2.1)
    joinWith " " ((m.run (catchNew drvSkills) ops).1.map
      (showOut fun v => showCatchCounts v.1 ++ ":" ++ sg v.2))
  else if mode == "mania" then
    let objs := parseManiaObjs objs
    let m := maniaMachine drvSkills objs
    let sg := sigOf sig (fun j => (maniaOneShot drvSkills objs j).2.1)
    joinWith " " ((m.run (maniaNew drvSkills objs) ops).1.map
      (showOut fun v => showManiaCounts v.1 ++ ":" ++ sg v.2))
  else "bad-mode"

/-- `ONE <mode> <objs> <take>`: integer part of the one-shot attributes. -/
def handleOne (mode objs take : String) : String :=
  let take := nat! take
  if mode == "osu" then
    let r := osuOneShot drvSkills (parseOsuObjs objs) take
    showOsuCounts r.1
  else if mode == "taiko" then
    let r := taikoOneShot drvSkills (parseBools objs) take
    toString r.1
  else if mode == "catch" then
    let r := catchOneShot drvSkills (catchEventsOfRecs (parseCatchRecs objs)) take
    showCatchCounts r.1
  else if mode == "mania" then
    let r := maniaOneShot drvSkills (parseManiaObjs objs) take
    showManiaCounts r.1
  else "bad-mode"

end Rosu.Gradual
