import RosuModel.Model.PipelineCatchWire
import RosuModel.Model.CurveWire
import RosuModel.Model.PipelineCurve
import RosuModel.Model.PipelineBytesWire

/-!
# `PIPE catchcurve` wire: the osu!catch pipeline with the curve INSIDE the model

Same request and response as `PIPE catch` (`Model/PipelineCatchWire.lean`) except for the sliders: where
a `PIPE catch` line hands in `path.dist()` and the x position of every nested object (both taken
from the real curve through the hook), a `PIPE catchcurve` line hands in what the decoder produced —
the control points with their path types and the expected distance — and the model computes

* the curve: `Model/Curve.lean: curveNew` (`BorrowedCurve::new(GameMode::Catch, ..)` on the ONE
  `CurveBuffers` of `convert_objects`: bezier buffers and the stale path are threaded from slider to
  slider),
* `path.dist()` = `Curve.dist`, which feeds `JuiceStream::new`'s `duration` / `SliderEventsIter::new`,
* per event except the legacy last tick: `effective_x + path.position_at(e.path_progress).x` with
  `effective_x = h.pos.x.clamp(0.0, 512.0)` (`catch/convert.rs: convert_object`).

Slider object: `S:<x>:<lastcp>:<start>:<beat_len>:<sv>:<generate_ticks>:<spans>:<expected dist|->:<control
points x~y~type,…|->` (x, lastcp and the control points hex `f32` bits; start / beat_len / sv decimal
`f64` bits as in `PIPE catch`; expected distance hex `f64` bits).
-/
namespace Rosu.PipelineCatch.Wire
open Rosu.PipelineCatch Rosu.SkillOps Rosu.SkillWire

/-- `f32::clamp(0.0, PLAYFIELD_WIDTH)` (a NaN stays NaN) -/
def clampX (x : Float32) : Float32 :=
  let x := if x < 0.0 then 0.0 else x
  if x > 512.0 then 512.0 else x

def parseCurveCP (s : String) : Rosu.Curve.CP Float32 :=
  match s.splitOn "~" with
  | [x, y, t] => { pos := ⟨Rosu.Stack.Wire.f32 x, Rosu.Stack.Wire.f32 y⟩, ty := Rosu.Curve.Wire.parseSpline t }
  | _ => { pos := ⟨0.0, 0.0⟩, ty := none }

/-- State threaded through the objects: `bufs.curve` (stale path, bezier buffers). -/
structure CurveBufs where
  path : Array (Rosu.Curve.Pos Float32)
  bez : Rosu.Curve.Bez Float32

/-- One object; sliders go through the curve model. `none` = malformed, `some (.error s)` = the curve
model or the event generator failed. -/
def parseObjCurve (version sm tr : String) (bufs : CurveBufs) (s : String) :
    Option (Except String (PObj Float Float32 × CurveBufs)) :=
  match s.splitOn ":" with
  | ["S", x, cp, start, bl, sv, gen, spans, expected, cps] =>
    let pts := ((Rosu.Wire.splitList cps ",").map parseCurveCP).toArray
    let exp : Option Float := if expected == "-" then none else some (Rosu.Stack.Wire.f64 expected)
    match Rosu.Curve.curveNew Rosu.Curve.Wire.ieee Rosu.Curve.Wire.driverFuel false pts exp bufs.path bufs.bez with
    | .error e => some (.error (Rosu.Curve.Wire.showErr e))
    | .ok (c, bez) =>
      let dist := Rosu.Curve.dist Rosu.Curve.Wire.ieee c.lengths
      match Rosu.SliderEvents.parseSliderIn version sm tr
          [start, bl, sv, gen, toString dist.toBits.toNat, spans] with
      | none => none
      | some si =>
        let A := Rosu.SliderEvents.floatArith
        match (Rosu.SliderEvents.catchParams A si).events A Rosu.SliderEvents.driverFuel with
        | .clampPanic => some (.error "PANIC")
        | .outOfFuel => some (.error "FUEL")
        | .ok evs =>
          let effX := clampX (Rosu.Stack.Wire.f32 x)
          let xs : List (Except String Float32) :=
            (evs.filter fun e => e.kind != Rosu.SliderEvents.Kind.lastTick).map fun e =>
              match Rosu.Curve.positionAt Rosu.Curve.Wire.ieee c e.progress with
              | .ok q => .ok (effX + q.x)
              | .error er => .error (Rosu.Curve.Wire.showErr er)
          match xs.mapM id with
          | .error er => some (.error er)
          | .ok nestedX =>
            some (.ok (.stream (Rosu.Stack.Wire.f32 x) (Rosu.Stack.Wire.f32 cp) si nestedX,
              { path := c.path, bez := bez }))
  | _ => (parseObj version sm tr s).map fun o => .ok (o, bufs)

def parseObjsCurve (version sm tr : String) :
    List String → CurveBufs → Option (Except String (List (PObj Float Float32)))
  | [], _ => some (.ok [])
  | s :: rest, bufs =>
    match parseObjCurve version sm tr bufs s with
    | none => none
    | some (.error e) => some (.error e)
    | some (.ok (o, bufs')) =>
      match parseObjsCurve version sm tr rest bufs' with
      | none => none
      | some (.error e) => some (.error e)
      | some (.ok os) => some (.ok (o :: os))

instance : BEq Rosu.SliderEvents.Kind := ⟨fun a b => decide (a = b)⟩

def handlePIPECC (version sm tr hr refl cs ar clock conv take gidx objs : String) : String :=
  let items := if objs = "-" then [] else objs.splitOn ";"
  match parseObjsCurve version sm tr items ⟨#[], Rosu.Curve.emptyBez⟩ with
  | none => "bad-object"
  | some (.error e) => e
  | some (.ok os) =>
    let st : Settings Float Float32 :=
      ⟨hr = "1", refl = "1", Rosu.Stack.Wire.f32 cs, Rosu.Stack.Wire.f64 ar, Rosu.Stack.Wire.f64 clock, conv = "1"⟩
    let A := Rosu.SliderEvents.floatArith
    let CA := Rosu.ConvCatch.Wire.ieee
    let SA := secArith 750.0
    let one := showRes (catchDifficulty ieeeCasts A CA SA driverFuel 0.0 st (takeOf take) os) showAttrs
    let gs := if gidx = "-" then [] else (gidx.splitOn ",").map (fun s => s.toNat?.getD 0)
    one ++ String.join (gs.map fun i =>
      s!" G{i}=" ++ showRes (catchGradualValue ieeeCasts A CA SA driverFuel 0.0 st i os)
        (fun a => s!"{Rosu.ConvOsu.Wire.h64 a.stars},{a.nFruits},{a.nDroplets},{a.nTinyDroplets}"))

/-! ## `OSLDC`: one osu! slider with the curve inside the model

`OSLDC <version> <slider_multiplier> <tick_rate> <start:beat_len:sv:generate_ticks:spans> <expected
dist|-> <control points x~y~type,…> <lazy_travel_time>` → what `OsuSlider::new` stores and what
`convert_objects` (`Model/ConvOsu.lean`, OCONV lines) takes as INPUT from the curve:
`<end_time>|<nested objects kind:time:x:y, canonical order>|<lazy_end_pos x:y>|<dist>`.
The nested positions are `path.position_at(e.path_progress)` (ticks, repeats) and
`end_path_pos = path.position_at(obj_progress_at(1.0))` (tail); `lazy_end_pos =
path.position_at(end_time_min)` with `end_time_min` folded from `lazy_travel_time / span_duration` by
the two `%` operations.  `lazy_travel_time` itself (a function of the nested times only, modelled by
`ConvOsu.lazyTravelTime`, LTT lines) is handed in. -/

/-- `x % m` on `f64` (`fmod`) for `m ∈ {1.0, 2.0}`: exact (`x / m`, `trunc`, `t · m` and the
subtraction are all exact), the sign of a zero result follows `x`. -/
def fmodPow2 (x m : Float) : Float :=
  if x.isNaN || x.isInf then Float.ofBits 0x7FF8000000000000
  else
    let q := x / m
    let t := if q >= 0.0 then q.floor else q.ceil
    let r := x - t * m
    if r == 0.0 then (if x.toBits >= 0x8000000000000000 then -0.0 else 0.0) else r

def showNestedPos (l : List (Nat × Float × Rosu.Curve.Pos Float32)) : List String :=
  let keyed := l.map fun (k, t, q) =>
    (Rosu.SliderEvents.totalKey t, k, q.x.toBits.toNat, q.y.toBits.toNat,
      s!"{k}:{Rosu.SliderEvents.showF t}:{Rosu.Curve.Wire.showPos q}")
  let sorted := keyed.mergeSort fun a b =>
    a.1 < b.1 || (a.1 == b.1 && (a.2.1 < b.2.1 || (a.2.1 == b.2.1 &&
      (a.2.2.1 < b.2.2.1 || (a.2.2.1 == b.2.2.1 && a.2.2.2.1 ≤ b.2.2.2.1)))))
  sorted.map fun x => x.2.2.2.2

def handleOSLDC (version sm tr slider expected cps ltt : String) : String :=
  match slider.splitOn ":" with
  | [start, bl, sv, gen, spans] =>
    let pts := ((Rosu.Wire.splitList cps ",").map parseCurveCP).toArray
    let exp : Option Float := if expected == "-" then none else some (Rosu.Stack.Wire.f64 expected)
    let C := Rosu.Curve.Wire.ieee
    match Rosu.Curve.curveNew C Rosu.Curve.Wire.driverFuel true pts exp #[] Rosu.Curve.emptyBez with
    | .error e => Rosu.Curve.Wire.showErr e
    | .ok (c, _) =>
      let dist := Rosu.Curve.dist C c.lengths
      match Rosu.SliderEvents.parseSliderIn version sm tr
          [start, bl, sv, gen, toString dist.toBits.toNat, spans] with
      | none => "bad-slider"
      | some si =>
        let A := Rosu.SliderEvents.floatArith
        let p := Rosu.SliderEvents.osuParams A si
        match p.events A Rosu.SliderEvents.driverFuel with
        | .clampPanic => "PANIC"
        | .outOfFuel => "FUEL"
        | .ok evs =>
          let spanCount := Float.ofNat si.spans
          let pos (pr : Float) : Rosu.Curve.Pos Float32 :=
            match Rosu.Curve.positionAt C c pr with
            | .ok q => q
            | .error _ => ⟨Float32.ofBits 0x7FC00000, Float32.ofBits 0x7FC00000⟩
          -- `obj_progress_at(1.0)`
          let p1 := fmodPow2 (1.0 * spanCount) 1.0
          let spanAt1 := Rosu.SliderEvents.f64ToI32 (1.0 * spanCount)
          let endPathPos := pos (if spanAt1.tmod 2 == 1 then 1.0 - p1 else p1)
          let nested := evs.filterMap fun e =>
            match Rosu.SliderEvents.osuNestedOf A p e with
            | none => none
            | some n =>
              some (Rosu.SliderEvents.nestedTag n.kind, n.time,
                match n.kind with
                | .tail => endPathPos
                | _ => pos e.progress)
          let lazyTime := Rosu.SliderEvents.flt (Rosu.Wire.nat! ltt)
          let etm := lazyTime / p.spanDur
          let etm := if fmodPow2 etm 2.0 >= 1.0 then 1.0 - fmodPow2 etm 1.0 else fmodPow2 etm 1.0
          let lazyEnd := pos etm
          s!"{Rosu.SliderEvents.showF p.endTime}|" ++ Rosu.SliderEvents.showLong (showNestedPos nested)
            ++ s!"|{Rosu.Curve.Wire.showPos lazyEnd}|{Rosu.SliderEvents.showF dist}"
  | _ => "bad-slider"

/-! ## `PIPE osuc`: the osu! pipeline from the bytes of the file, curve included

`PIPE osuc <file bytes hex> <reflection> <cs> <ar_window> <ar> <hp> <od_great> <od_ok> <od_meh> <clock>
<flags td rx ap fl hd> <take|-> <gradual indices|->` — the request of `PIPE osub` WITHOUT its last field:
the `CurveInputs` are `PipelineCurve.curveInputsOfModel` of the decoded sliders.  The only non-file inputs
left are the attribute-builder outputs and the settings.  Response: as `PIPE osub`. -/

def ieeeFold : Rosu.PipelineCurve.FoldOps Float where
  fmod1 x := fmodPow2 x 1.0
  fmod2 x := fmodPow2 x 2.0

def handlePIPEOC (args : List String) : String :=
  match args with
  | [bytes, refl, cs, arw, ar, hp, og, ook, om, clock, flags, take, gidx] =>
    match Rosu.PerfCalc.bits flags with
    | [td, rx, ap, fl, hd] =>
      let f64 := Rosu.Stack.Wire.f64
      let inp : Rosu.PipelineBytes.OsuInputs Float :=
        { cs := f64 cs, arWindow := f64 arw, ar := f64 ar, hp := f64 hp, odGreat := f64 og, odOk := f64 ook,
          odMeh := f64 om, clockRate := f64 clock, reflection := refl.toNat?.getD 0,
          mods := { td := td, rx := rx, ap := ap, fl := fl }, hd := hd }
      let O := Rosu.PipelineBytes.Wire.ieeeB
      let A := Rosu.ConvOsu.Wire.ieee
      let E := Rosu.SliderEvents.floatArith
      let C := Rosu.Curve.Wire.ieee
      let fuel := Rosu.SliderEvents.driverFuel
      let bs := Rosu.PipelineWire.hexBytes bytes
      let one := Rosu.PipelineBytes.Wire.showOutWith
        (Rosu.PipelineCurve.osuDifficultyFromBytesCurve O A E C ieeeFold fuel bs inp (takeOf take))
        (Rosu.PipelineOsu.Wire.showAttrs "")
      let gs := if gidx = "-" then [] else (gidx.splitOn ",").map (fun (s : String) => s.toNat?.getD 0)
      let gout := String.join (gs.map fun i =>
        match Rosu.PipelineCurve.osuGradualFromBytesCurve O A E C ieeeFold fuel bs inp i with
        | .ok (some a) => " " ++ Rosu.PipelineOsu.Wire.showAttrs s!"g{i}." a
        | .ok none => s!" g{i}=none"
        | .fuel => s!" g{i}=FUEL"
        | _ => s!" g{i}=PANIC")
      one ++ gout
    | _ => "bad-flags"
  | _ => "bad-pipe-osuc"

end Rosu.PipelineCatch.Wire
