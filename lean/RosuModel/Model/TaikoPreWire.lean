import RosuModel.Model.TaikoPre
import RosuModel.Model.Gradual
import RosuModel.Model.Decode
import RosuModel.Model.Wire

/-
Driver glue for `Model/TaikoPre.lean`: the arithmetic is instantiated with IEEE doubles, so the
model replays the `f64` computations of the taiko difficulty-object construction operation by
operation; floats cross the boundary as bit patterns (any NaN as `nan`).  The response is the same
canonical dump that the hook `taiko::verif::pre_dump` prints from the real object graph.
-/
namespace Rosu.TaikoPre
open Rosu.Wire Rosu.Decode

/-- IEEE double arithmetic, as `rustc` compiles the operations of the taiko preprocessing. -/
def floatArith : Arith Float where
  ofNat n := n.toFloat
  add x y := x + y
  sub x y := x - y
  div x y := x / y
  abs x := x.abs
  le x y := x <= y
  lt x y := x < y
  totalLe x y := keyOfBits64 x.toBits.toNat ≤ keyOfBits64 y.toBits.toNat
  inf := Float.ofBits 0x7FF0000000000000

def bitsStr (x : Float) : String := if x.isNaN then "nan" else toString x.toBits.toNat

def joinD (sep : String) (l : List String) : String := if l.isEmpty then "-" else joinWith sep l

def natsStr (l : List Nat) : String := joinD "," (l.map toString)

def parseObjs (s : String) : List (Obj Float) :=
  (splitList s ";").map fun e =>
    match e.splitOn ":" with
    | [k, t] =>
      ⟨Float.ofBits (nat! t).toUInt64, if k == "c" then .centre else if k == "r" then .rim else .nonhit⟩
    | _ => ⟨0.0, .nonhit⟩

def kindStr : Kind → String
  | .centre => "c" | .rim => "r" | .nonhit => "n"

def monoStr : MonoIdx → String
  | .centre i => s!"c{i}" | .rim i => s!"r{i}" | .none => "-"

/-- FNV-1a (64 bit) over the UTF-8 bytes; long dumps are compared through it. -/
def fnv64 (s : String) : UInt64 :=
  s.toUTF8.foldl (fun h b => (h ^^^ b.toUInt64) * 0x100000001b3) 0xcbf29ce484222325

def dumpLimit : Nat := 6000

def shorten (s : String) : String :=
  if s.length > dumpLimit then s!"H{s.length}:{(fnv64 s).toNat}" else s

def dumpPre (mc nd : Nat) (p : Pre Float) : String :=
  let st := p.store
  let n := st.objects.length
  let objIdx := fun (pos : Nat) => match st.objects[pos]? with | some o => toString o.idx | none => "x"
  let perObj := st.objects.zipIdx.map fun (o, pos) =>
    let colour := match p.colour[pos]? with
      | some (r, a, m, q) => s!"{r}.{a}.{m}.{q}.{r}.{a}"
      | none => "?"
    let rhythm := match p.rhythm[pos]? with
      | some (some (g, q)) => s!"{g}.{q}"
      | some none => "-"
      | none => "?"
    let window := match p.windows[pos]? with
      | some (lo, hi) => s!"{lo}.{hi}"
      | none => "!"
    let looks := match p.lookups[pos]? with
      | some l => joinWith "." (l.map fun (x : Option Nat) => match x with | some i => toString i | none => "-")
      | none => "?"
    s!"{o.idx}:{kindStr o.kind}:{monoStr o.mono}:{o.noteIdx}:{bitsStr o.delta}:{bitsStr o.start}:{bitsStr o.ratio}:{colour}:{rhythm}:{window}:{looks}"
  let reps := p.reps.zipIdx.map fun (rep, k) =>
    let iv := match p.repIntervals[k]? with | some v => toString v | none => "?"
    let alts := rep.map fun alt => joinD "/" (alt.map fun mono => joinD "," (mono.map objIdx))
    s!"{iv}[{joinD "|" alts}]"
  let rgs := p.rgroups.map fun g =>
    let hoi := match g.hitObjectInterval with | some v => bitsStr v | none => "-"
    s!"{joinD "," (g.members.map objIdx)}@{hoi}@{bitsStr g.hitObjectIntervalRatio}@{bitsStr g.interval}"
  let pgs := p.pgroups.zipIdx.map fun (pg, k) =>
    let gi := match p.pgInterval[k]? with | some (some v) => bitsStr v | some none => "-" | none => "?"
    let ratio := match p.pgRatio[k]? with | some v => bitsStr v | none => "?"
    s!"{natsStr pg}@{gi}@{ratio}"
  s!"mc={mc},nd={nd},dl={n}" ++
    s!"#S:c={joinD "," (st.centres.map objIdx)}!r={joinD "," (st.rims.map objIdx)}!t={joinD "," (st.notes.map objIdx)}" ++
    s!"#O:{joinD ";" perObj}#M:{joinD ";" reps}#R:{joinD ";" rgs}#P:{joinD ";" pgs}"

/-- `TKPRE <clock_rate bits> <take (u32)> <objects k:time bits;…>` → the canonical dump, `FAIL` when a
checked operation of the model fails. -/
def handleTKPRE (clock take objs : String) : String :=
  let os := parseObjs objs
  let c := Float.ofBits (nat! clock).toUInt64
  let (_, mc, nd) := Gradual.taikoCreate (os.map fun o => o.kind.isHit) (nat! take)
  match preprocess floatArith c os with
  | none => "FAIL"
  | some p => shorten (dumpPre mc nd p)

end Rosu.TaikoPre
