import RosuModel.Model.Gradual

/-
Object-visibility layer on top of `Model/Gradual.lean`: *which list of difficulty objects exists when
a strain evaluator runs*.

`Model/Gradual.lean` abstracts a skill as `process : S → Nat → S` — the skill sees the *index* of the
difficulty object it is handed.  The real evaluators receive `(curr, &diff_objects)` and index into
the list through `IDifficultyObject::previous(n, objs)` / `next(n, objs)` (osu! speed reads
`curr.next(0, …)`, one object AHEAD), and taiko's colour / rhythm data link every object to groups
that were formed over the whole list.  So "both paths feed the kernels the same arguments" also
depends on where each path truncates the object list relative to the construction of the difficulty
objects.  This file transcribes exactly that, per mode and per path:

  src/any/difficulty/object.rs        IDifficultyObject::{previous,next}
  src/osu/difficulty/mod.rs           DifficultyValues::{calculate,create_difficulty_objects}
  src/osu/difficulty/gradual.rs       OsuGradualDifficulty::new
  src/taiko/difficulty/mod.rs         DifficultyValues::{calculate,create_difficulty_objects}
  src/taiko/difficulty/gradual.rs     TaikoGradualDifficulty::new
  src/catch/difficulty/mod.rs         DifficultyValues::{calculate,create_difficulty_objects}
  src/catch/difficulty/gradual.rs     CatchGradualDifficulty::new
  src/mania/difficulty/mod.rs         DifficultyValues::{calculate,create_difficulty_objects}
  src/mania/difficulty/gradual.rs     ManiaGradualDifficulty::new

A raw (converted, mod-applied) hit object is identified by its index in the object list the
constructor iterates over (`List.range n`: conversion and the map-level mods HoldOff / Invert /
Random run over the whole map before any truncation on both paths — `Gen/GradualCtor.lean`,
`gradual_applies_same_mods_as_difficulty`).  A skill now is `process : S → Step → S` with
`Step = (index, view)`; `ViewSkills.toSkills` plugs such a skill, together with the list a path
built, into the unchanged machines of `Model/Gradual.lean`.

Core Lean only (no Mathlib): the driver links this file (`GRADV` lines).
-/

namespace Rosu.GradualView
open Rosu.Gradual

/-- A difficulty object as the bookkeeping sees it. -/
structure DObj where
  /-- the `idx` argument its constructor was given (`enumerate()` index) = `IDifficultyObject::idx()` -/
  idx : Nat
  /-- raw objects handed to its constructor, in argument order (osu!: `h, last, last_last`) -/
  reads : List Nat
deriving Repr, DecidableEq

/-- The `&diff_objects` argument of `Skill::process`: the whole list the path built. -/
abbrev View := List DObj

/-- One call of `Skill::process(curr, &diff_objects)`: `curr` is `diff_objects[idx]`. -/
structure Step where
  idx : Nat
  view : View
deriving Repr, DecidableEq

/-- Abstract strain skills that are handed the view. -/
structure ViewSkills (S : Type) where
  init : S
  process : S → Step → S

/-- A view-reading skill on a path that hands over the list `view` at every step, as a skill of
`Model/Gradual.lean` (every `.process(` call of a path passes the same list: generated obligation
`process_calls_pass_own_list`). -/
def ViewSkills.toSkills {S} (vs : ViewSkills S) (view : View) : Skills S :=
  { init := vs.init, process := fun s i => vs.process s ⟨i, view⟩ }

/-- `IDifficultyObject::next`: `diff_objects.get(self.idx() + (forwards_idx + 1))`. -/
def next (curr : DObj) (forwardsIdx : Nat) (L : View) : Option DObj :=
  L[curr.idx + (forwardsIdx + 1)]?

/-- `IDifficultyObject::previous`:
`self.idx().checked_sub(backwards_idx + 1).and_then(|idx| diff_objects.get(idx))`. -/
def previous (curr : DObj) (backwardsIdx : Nat) (L : View) : Option DObj :=
  match csub curr.idx (backwardsIdx + 1) with
  | some i => L[i]?
  | none => none

/-- How far ahead of `curr` the evaluators of a mode may look. -/
inductive Ahead where
  /-- at most `k` objects ahead (`k = 0`: backwards only), never the length of the list -/
  | bounded (k : Nat)
  /-- anything (taiko: colour / rhythm groups formed over the whole list, `next_color_change`) -/
  | unbounded
deriving Repr, DecidableEq

/-- The part of the list an evaluator with look-ahead `la` can distinguish when it processes the
object at position `i`: everything behind, `curr`, and `k` objects ahead — including whether
`next(d)` is `Some` for `d < k`. -/
def visible : Ahead → Nat → View → View
  | .bounded k, i, L => L.take (i + 1 + k)
  | .unbounded, _, L => L

/-- A skill reads at most `la` ahead: steps whose visible parts coincide are processed alike. -/
def ViewSkills.Respects {S} (vs : ViewSkills S) (la : Ahead) : Prop :=
  ∀ (s : S) (i : Nat) (L L' : View), visible la i L = visible la i L' →
    vs.process s ⟨i, L⟩ = vs.process s ⟨i, L'⟩

/-- The free instance: the trace of `(index, visible part of the view)`. -/
def traceSkills (la : Ahead) : ViewSkills (List Step) :=
  { init := [], process := fun s st => s ++ [⟨st.idx, visible la st.idx st.view⟩] }

/-- Replaying a trace with a concrete skill. -/
def replay {S} (vs : ViewSkills S) (tr : List Step) : S := tr.foldl vs.process vs.init

/-! ## Construction of the difficulty-object lists -/

/-- The `.enumerate().map(|(idx, h)| { new(h, last, last_last, …, idx, …); last_last = Some(last);
last = h; … })` closure of osu!'s `create_difficulty_objects`. -/
def osuCreateGo : Nat → Nat → Option Nat → List Nat → View
  | _, _, _, [] => []
  | idx, last, lastLast, h :: t =>
    ⟨idx, [h, last] ++ lastLast.toList⟩ :: osuCreateGo (idx + 1) h (some last) t

/-- osu! `DifficultyValues::create_difficulty_objects(difficulty, scaling_factor, osu_objects)`:
`let Some(mut last) = osu_objects_iter.next().filter(|_| take > 0) else { return Vec::new() }`. -/
def osuCreate (take : Nat) : List Nat → View
  | [] => []
  | first :: rest => if take > 0 then osuCreateGo 0 first none rest else []

/-- `for (i, curr) in iter.enumerate() { new(curr, last, …, i, …); last = curr }` — the loop shared
by catch (`.enumerate().map(..)`), mania (`.enumerate().scan(first, ..)`) and taiko. -/
def pairCreateGo : Nat → Nat → List Nat → View
  | _, _, [] => []
  | idx, last, h :: t => ⟨idx, [h, last]⟩ :: pairCreateGo (idx + 1) h t

/-- catch / mania `create_difficulty_objects(clock_rate, …, objects)`:
`let Some(first) = objects.next() else { return Box::default() }`. -/
def pairCreate : List Nat → View
  | [] => []
  | first :: rest => pairCreateGo 0 first rest

/-- taiko `create_difficulty_objects(converted, take, …)`: `hit_objects_iter … .skip(1)`,
`let Some(mut last) = hit_objects_iter.next() else { return … }`, then the loop over the rest.
`take` only gates the counters of the `inspect` closure, never the list. -/
def taikoCreateList (raw : List Nat) : View := pairCreate (raw.drop 1)

/-- A path: the list it builds and how many of its elements (from position 0, in order) the
processing loop hands to the skills. -/
structure Path where
  list : View
  loop : Nat
deriving Repr, DecidableEq

/-! ### osu!standard -/

/-- One-shot `DifficultyValues::calculate`: `osu_objects.iter_mut().map(Pin::new)` — ALL converted
objects — goes into `create_difficulty_objects`; only the loop is truncated
(`diff_objects.iter().take(take_diff_objects)`). -/
def osuOneShotPath (n take : Nat) : Path :=
  let list := osuCreate take (List.range n)
  let takeDiff := (min n take) - 1
  { list := list, loop := min takeDiff list.length }

/-- `OsuGradualDifficulty::new`: `osu_objects.iter_mut()` — all objects (`gtake` is the
`passed_objects` of the Difficulty handed to the constructor, `usize::MAX` when unset). -/
def osuGradualList (n gtake : Nat) : View := osuCreate gtake (List.range n)

/-- The design of the seeded change `C02-osu-oneshot-prefix-truncates-lookahead`:
`osu_objects.iter_mut().take(n_passed).map(Pin::new)` and an untruncated loop. -/
def osuOneShotPathHoisted (n take : Nat) : Path :=
  let nPassed := min n take
  let list := osuCreate take ((List.range n).take nPassed)
  { list := list, loop := list.length }

/-! ### osu!taiko -/

/-- One-shot: the list is built from every object; the loop is
`diff_objects.iter().take(n_diff_objects)` with the counters of `Gradual.taikoCreate`. -/
def taikoOneShotPath (objs : List Bool) (take : Nat) : Path :=
  let list := taikoCreateList (List.range objs.length)
  let nd := (taikoCreate objs take).2.2
  { list := list, loop := min (nd - 1) list.length }

/-- `TaikoGradualDifficulty::new` calls the same `create_difficulty_objects`. -/
def taikoGradualList (n : Nat) : View := taikoCreateList (List.range n)

/-! ### osu!catch (`P` = number of palpable objects) -/

/-- One-shot: `create_difficulty_objects(…, palpable_objects.iter().take(take))` — truncated BEFORE
construction; `for curr in diff_objects.iter()` processes all of them. -/
def catchOneShotPath (p take : Nat) : Path :=
  let list := pairCreate ((List.range p).take take)
  { list := list, loop := list.length }

/-- `CatchGradualDifficulty::new`: `palpable_objects.iter()`. -/
def catchGradualList (p : Nat) : View := pairCreate (List.range p)

/-! ### osu!mania -/

/-- One-shot: `map.hit_objects.iter().map(ManiaObject::new).take(take)` goes into
`create_difficulty_objects` — truncated BEFORE construction; all of the list is processed. -/
def maniaOneShotPath (n take : Nat) : Path :=
  let list := pairCreate ((List.range n).take take)
  { list := list, loop := list.length }

/-- `ManiaGradualDifficulty::new`: `mania_objects.into_iter().take(take)`. -/
def maniaGradualList (n gtake : Nat) : View := pairCreate ((List.range n).take gtake)

/-! ## The two paths with view-reading skills -/

section Paths
variable {S : Type}

def osuOneShotV (vs : ViewSkills S) (objs : List OsuObj) (take : Nat) : OsuCounts × S :=
  osuOneShot (vs.toSkills (osuOneShotPath objs.length take).list) objs take

def osuOneShotHoistedV (vs : ViewSkills S) (objs : List OsuObj) (take : Nat) : OsuCounts × S :=
  osuOneShot (vs.toSkills (osuOneShotPathHoisted objs.length take).list) objs take

def osuSkillsV (vs : ViewSkills S) (objs : List OsuObj) (gtake : Nat) : Skills S :=
  vs.toSkills (osuGradualList objs.length gtake)

def taikoOneShotV (vs : ViewSkills S) (objs : List Bool) (take : Nat) : Nat × S :=
  taikoOneShot (vs.toSkills (taikoOneShotPath objs take).list) objs take

def taikoSkillsV (vs : ViewSkills S) (objs : List Bool) : Skills S :=
  vs.toSkills (taikoGradualList objs.length)

def catchOneShotV (vs : ViewSkills S) (evs : List CatchEvent) (take : Nat) : CatchCounts × S :=
  catchOneShot (vs.toSkills (catchOneShotPath (catchPalpable evs) take).list) evs take

def catchSkillsV (vs : ViewSkills S) (evs : List CatchEvent) : Skills S :=
  vs.toSkills (catchGradualList (catchPalpable evs))

def maniaOneShotV (vs : ViewSkills S) (objs : List ManiaObj) (take : Nat) : ManiaCounts × S :=
  maniaOneShot (vs.toSkills (maniaOneShotPath objs.length take).list) objs take

def maniaSkillsV (vs : ViewSkills S) (objs : List ManiaObj) (gtake : Nat) : Skills S :=
  vs.toSkills (maniaGradualList objs.length gtake)

end Paths

/-! ## Modelled look-ahead of each mode's evaluators, and modelled path shapes

Compared with what `tools/translate.d/lookahead.py` extracts from the source on every run
(`Gen/Lookahead.lean`, obligations in `Props/C02b.lean`). -/

/-- osu!: `SpeedEvaluator::evaluate_diff_of` reads `curr.next(0, diff_objects)`; aim, flashlight
and the rhythm evaluator only read `previous(..)`. -/
def osuAhead : Ahead := .bounded 1
/-- taiko: colour / rhythm preprocessors assign every object groups formed over the whole list;
stamina reads `next_color_change`. -/
def taikoAhead : Ahead := .unbounded
/-- catch: `Movement::strain_value_of` ignores the list; the section bookkeeping reads `previous(0, ..)`. -/
def catchAhead : Ahead := .bounded 0
/-- mania: `previous(0, ..)` only. -/
def maniaAhead : Ahead := .bounded 0

/-- Where a path truncates: the iterator handed to `create_difficulty_objects` contains a
`.take(..)`, the processing loop iterates over `… .take(..)`. -/
structure Shape where
  mode : String
  path : String
  takeBeforeCtor : Bool
  takeAtLoop : Bool
deriving Repr, DecidableEq

def modelShapes : List Shape := [
  ⟨"osu", "oneshot", false, true⟩,
  ⟨"osu", "gradual", false, false⟩,
  ⟨"taiko", "oneshot", false, true⟩,
  ⟨"taiko", "gradual", false, false⟩,
  ⟨"catch", "oneshot", true, false⟩,
  ⟨"catch", "gradual", false, false⟩,
  ⟨"mania", "oneshot", true, false⟩,
  ⟨"mania", "gradual", true, false⟩
]

/-! ## Driver glue: `GRADV <mode> <n> <take>` -/

def bits (L : View) : String :=
  if L.isEmpty then "-" else String.ofList (L.map fun c => if (next c 0 L).isSome then '1' else '0')

def showList (mode : String) (L : View) : String :=
  toString L.length ++ ":" ++ (if mode == "taiko" then "-" else bits L)

/-- Length of the list each path builds and, per difficulty object, whether `next(0)` is `Some`
(not reported for taiko, whose list is not a slice).  `n`: number of objects the constructor
iterates over (hit objects; palpable objects for catch); `take`: `passed_objects` of the one-shot
call; the gradual constructor gets a Difficulty without `passed_objects` (`usize::MAX`). -/
def handleGradV (mode n take : String) : String :=
  let n := n.toNat!
  let take := take.toNat!
  let gtake := 2 ^ 64 - 1
  let (one, grad) : View × View :=
    if mode == "osu" then ((osuOneShotPath n take).list, osuGradualList n gtake)
    else if mode == "taiko" then
      ((taikoOneShotPath (List.replicate n true) take).list, taikoGradualList n)
    else if mode == "catch" then ((catchOneShotPath n take).list, catchGradualList n)
    else ((maniaOneShotPath n take).list, maniaGradualList n gtake)
  if mode == "osu" || mode == "taiko" || mode == "catch" || mode == "mania" then
    "one=" ++ showList mode one ++ " grad=" ++ showList mode grad
  else "bad-mode"

end Rosu.GradualView
