/-!
Names of rosu-mods 0.3.1 that `/repo/src/model/mods.rs` may mention.  `tools/translate.py` reads the
constructor lists of this file: a name of the source that is not listed here becomes an
`unknownShapes` entry of `Gen/Mods.lean` (which fails `C08.gen_shape_ok`).  Core Lean only.
-/
namespace Rosu.Mods

/-- `rosu_mods::GameModIntermode` variants (the legacy-bit ones, the ones `mods.rs` names, and
`Unknown` standing for every other kind). -/
inductive IMod
  | NoFail | Easy | TouchDevice | Hidden | HardRock | SuddenDeath | DoubleTime | Relax | HalfTime
  | Nightcore | Flashlight | Autoplay | SpunOut | Autopilot | Perfect | FourKeys | FiveKeys
  | SixKeys | SevenKeys | EightKeys | FadeIn | Random | Cinema | TargetPractice | NineKeys
  | DualStages | OneKey | ThreeKeys | TwoKeys | ScoreV2 | Mirror
  | Daycore | Blinds | Classic | Invert | HoldOff | Traceable | TenKeys | DifficultyAdjust
  | Unknown
  deriving DecidableEq, Repr, Inhabited

/-- `rosu_mods::GameModsLegacy` associated constants -/
inductive LName
  | NoMod | NoFail | Easy | TouchDevice | Hidden | HardRock | SuddenDeath | DoubleTime | Relax
  | HalfTime | Nightcore | Flashlight | Autoplay | SpunOut | Autopilot | Perfect | Key4 | Key5
  | Key6 | Key7 | Key8 | FadeIn | Random | Cinema | Target | Key9 | KeyCoop | Key1 | Key3 | Key2
  | ScoreV2 | Mirror
  deriving DecidableEq, Repr, Inhabited

/-- `rosu_map::section::general::GameMode` -/
inductive Mode | osu | taiko | catch | mania
  deriving DecidableEq, Repr, Inhabited

/-- `crate::model::mods::Reflection` -/
inductive Reflection | none | vertical | horizontal | both
  deriving DecidableEq, Repr, Inhabited

/-- a numeric literal of the source: exact value, the f64 it denotes, and its text -/
structure Lit where
  q : Rat
  f : Float
  s : String

/-- arm of the Lazer `clock_rate` closure -/
inductive RateArm
  /-- `return m.clock_rate()` -/
  | direct
  /-- `default * (m.clock_rate()? / default)` -/
  | scaled (default : Lit)

/-- value of an arm of the Lazer `reflection` closure (`src/model/mods.rs`) -/
inductive ReflVal
  /-- `Some(Reflection::r)` -/
  | const (r : Reflection)
  /-- `match mr.reflection.as_deref() { None => unset, Some("s") => …, Some(_) => other }` -/
  | bySetting (unset : Reflection) (cases : List (String × Reflection)) (other : Reflection)
  deriving DecidableEq, Repr

end Rosu.Mods
