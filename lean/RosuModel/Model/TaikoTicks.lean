/-
Executable model of the slider → hits part of the taiko converter (core Lean only):

* `should_convert_slider_to_taiko_hits`, `SliderParams`   — /repo/src/taiko/convert.rs
* the tick loop `while j <= start + duration + tick_spacing / 8 { … j += tick_spacing }` and the
  cycling edge-sound index of `convert`                     — /repo/src/taiko/convert.rs
* `get_precision_adjusted_beat_len`                         — /repo/src/util/mod.rs

The arithmetic is a parameter (`Arith F`): statement by statement the same operations in the same
order as the Rust code.  `ratArith` instantiates it with exact rationals (what the theorems of
`Props/C19.lean` are about); the driver instantiates it with IEEE doubles (`Float`), which replays
the `f64` computation of the code bit for bit (`Model/TaikoTicksWire.lean`).
-/
namespace Rosu.TaikoTicks

/-- The operations the converter performs on `f64` values. -/
structure Arith (F : Type) where
  /-- integer → float conversion (`as f64`, `f64::from(u32)`, integer literals) -/
  ofNat : Nat → F
  neg : F → F
  add : F → F → F
  mul : F → F → F
  div : F → F → F
  /-- `f64::min` -/
  min : F → F → F
  lt : F → F → Bool
  le : F → F → Bool
  /-- `x as u32` -/
  toU32 : F → Nat
  /-- `FloatExt::eq(x, 0.0)`: `(x - 0.0).abs() <= f64::EPSILON` -/
  eqZero : F → Bool
  /-- `f64::from((x as f32).clamp(10.0, 10_000.0))` -/
  clampF32 : F → F
  /-- `f64::from(VELOCITY_MULTIPLIER)` = `f64::from(1.4_f32)` -/
  velMul : F

variable {F : Type}

/-- What the slider code reads of the map. -/
structure MapIn (F : Type) where
  version : Nat
  sliderMultiplier : F
  tickRate : F

/-- What it reads of the slider and of the control points in effect at its start time. -/
structure SliderIn (F : Type) where
  start : F
  /-- `slider.expected_dist.unwrap_or(0.0)` -/
  dist : F
  /-- `slider.span_count()` -/
  spans : Nat
  /-- `difficulty_point_at(start).map_or(DEFAULT_SLIDER_VELOCITY, |p| p.slider_velocity)` -/
  sv : F
  /-- `timing_point_at(start).map_or(DEFAULT_BEAT_LEN, |p| p.beat_len)` -/
  timingBeatLen : F

/-- `get_precision_adjusted_beat_len(slider_velocity_multiplier, beat_len)`. -/
def precisionAdjustedBeatLen (A : Arith F) (sv beatLen : F) : F :=
  let svAsBeatLen := A.div (A.neg (A.ofNat 100)) sv
  let bpmMultiplier :=
    if A.lt svAsBeatLen (A.ofNat 0) then A.div (A.clampF32 (A.neg svAsBeatLen)) (A.ofNat 100)
    else A.ofNat 1
  A.mul beatLen bpmMultiplier

/-- `SliderParams` after `should_convert_slider_to_taiko_hits`, and its return value. -/
structure Params (F : Type) where
  duration : Nat
  tickSpacing : F
  convert : Bool

/-- `should_convert_slider_to_taiko_hits(map, &mut params)`. -/
def shouldConvert (A : Arith F) (m : MapIn F) (s : SliderIn F) : Params F :=
  let spans := A.ofNat s.spans
  -- `dist *= f64::from(VELOCITY_MULTIPLIER); dist *= spans;`
  let dist := A.mul (A.mul s.dist A.velMul) spans
  let beatLen := precisionAdjustedBeatLen A s.sv s.timingBeatLen
  let sliderScoringPointDist :=
    A.div (A.mul (A.ofNat 100) (A.mul m.sliderMultiplier A.velMul)) m.tickRate
  let taikoVel := A.mul sliderScoringPointDist m.tickRate
  let duration := A.toU32 (A.mul (A.div dist taikoVel) beatLen)
  let osuVel := A.mul taikoVel (A.div (A.ofNat 1000) beatLen)
  let beatLen' := if m.version ≥ 8 then s.timingBeatLen else beatLen
  let tickSpacing := A.min (A.div beatLen' m.tickRate) (A.div (A.ofNat duration) spans)
  { duration := duration
    tickSpacing := tickSpacing
    convert := A.lt (A.ofNat 0) tickSpacing &&
      A.lt (A.mul (A.div dist osuVel) (A.ofNat 1000)) (A.mul (A.ofNat 2) beatLen') }

/-- The loop bound `obj.start_time + f64::from(params.duration) + params.tick_spacing / 8.0`. -/
def tickBound (A : Arith F) (start : F) (duration : Nat) (ts : F) : F :=
  A.add (A.add start (A.ofNat duration)) (A.div ts (A.ofNat 8))

/--
```text
while j <= bound {
    push(j, node_sounds.get(i) or own sound);
    if params.tick_spacing.eq(0.0) { break; }
    j += params.tick_spacing;
    i = (i + 1) % edge_sound_count;
}
```
Returns the `(j, i)` of every pushed hit; `none` = out of fuel (first argument). -/
def tickLoop (A : Arith F) (bound ts : F) (edgeCount : Nat) : Nat → F → Nat → Option (List (F × Nat))
  | 0, _, _ => none
  | fuel + 1, j, i =>
    if A.le j bound then
      if A.eqZero ts then some [(j, i)]
      else
        match tickLoop A bound ts edgeCount fuel (A.add j ts) ((i + 1) % edgeCount) with
        | none => none
        | some l => some ((j, i) :: l)
    else some []

/-- Outcome for one slider. -/
inductive Outcome (F : Type) where
  /-- `should_convert…` returned `false`: the slider stays -/
  | kept
  /-- the hits (time, sound) that replace the slider (an empty list makes `convert` remove it) -/
  | hits (l : List (F × Nat))
  | outOfFuel
deriving DecidableEq

/-- The slider arm of `convert` (without the splice): decision, tick loop, sounds.
`nodeSounds` = `slider.node_sounds`, `own` = `map.hit_sounds[idx]`. -/
def sliderOutcome (A : Arith F) (fuel : Nat) (m : MapIn F) (s : SliderIn F) (nodeSounds : List Nat)
    (own : Nat) : Outcome F :=
  let p := shouldConvert A m s
  if p.convert then
    let edgeCount := max nodeSounds.length 1
    match tickLoop A (tickBound A s.start p.duration p.tickSpacing) p.tickSpacing edgeCount fuel
        s.start 0 with
    | none => .outOfFuel
    | some l => .hits (l.map fun (j, i) => (j, nodeSounds.getD i own))
  else .kept

/-! ## exact rational arithmetic -/

/-- `x as u32` on an exact value: truncation towards zero, saturating. -/
def ratToU32 (x : Rat) : Nat := min x.floor.toNat (2 ^ 32 - 1)

/-- `f64::EPSILON` = 2⁻⁵². -/
def ratEps : Rat := 1 / 2 ^ 52

/-- Exact arithmetic (division by zero yields `0`; no NaN/∞; `as f32` does not round). -/
def ratArith : Arith Rat where
  ofNat n := (n : Rat)
  neg x := -x
  add x y := x + y
  mul x y := x * y
  div x y := x / y
  min x y := if x ≤ y then x else y
  lt x y := decide (x < y)
  le x y := decide (x ≤ y)
  toU32 := ratToU32
  eqZero x := decide (-ratEps ≤ x ∧ x ≤ ratEps)
  clampF32 x := if x < 10 then 10 else if 10000 < x then 10000 else x
  velMul := 11744051 / 8388608      -- 1.4_f32 exactly

end Rosu.TaikoTicks
