import RosuModel.Model.Aggregate

/-
Arithmetic and section bookkeeping shared by the two concrete skill models
(`Model/ManiaSkill.lean`, `Model/CatchSkill.lean`).  Core Lean only.

* `FOps R` — the operations the strain evaluators of osu!mania and osu!catch perform on one float
  type (`f64` or `f32`): `+ - * /`, negation, decimal literals, `<`, `<=`, `==`, `f64::max/min`
  (receiver first, a NaN operand is ignored), `abs`, `sqrt`, `powf`, `exp`, `signum`.
  Instances: IEEE binary64 (`Float`) and binary32 (`Float32`) in `Model/SkillWire.lean` (what the
  driver runs and what is compared bit for bit with /repo), the real numbers in
  `Lemmas/SkillOpsReal.lean` (what the theorems of `Props/C16c.lean` are about).
* `Casts F S` — the conversions between `f64` (`F`), `f32` (`S`) and `i32` that osu!catch uses.
* `Res` — outcome of a computation that contains Rust operations that can panic (slice index,
  the `min <= max` assertion of `clamp`) or a loop that takes fuel.
* the VALUE-LEVEL section loop `processAllV`: the same statements as `Skill.processAll`
  (Model/Skill.lean, `define_skill!`), with the strain values kept as numbers of type `R` instead of
  64-bit patterns and the peaks kept as the plain list of pushed values.  `Skill.processAll` over
  the encoded strain functions (`encFns`) is the bit-level view; Lemmas/SkillV.lean proves the two
  run in lock step.
-/

namespace Rosu.SkillOps
open Rosu.Skill (Obj)

/-- The arithmetic of one float type. -/
class FOps (R : Type) extends OfScientific R, Add R, Sub R, Mul R, Div R, Neg R where
  /-- IEEE `<` (false on NaN) -/
  lt : R → R → Bool
  /-- IEEE `<=` (false on NaN) -/
  le : R → R → Bool
  /-- IEEE `==` -/
  beq : R → R → Bool
  /-- `a.max(b)` -/
  fmax : R → R → R
  /-- `a.min(b)` -/
  fmin : R → R → R
  abs : R → R
  sqrt : R → R
  powf : R → R → R
  exp : R → R
  cos : R → R
  /-- `x.is_normal()`: neither zero, subnormal, infinite nor NaN -/
  isNormal : R → Bool
  /-- `n as f64` for an integer `n` (`usize`, `isize`, `i32`) -/
  ofInt : Int → R
  /-- `signum`: `1.0` when the sign bit is clear (incl. `+0.0`), `-1.0` when it is set, NaN ↦ NaN -/
  signum : R → R
  /-- `value.to_bits() > 0 && value.is_sign_positive()`: what `StrainsVec::push` stores as a value
  (everything else is stored as `+0.0`) -/
  storable : R → Bool
  /-- not the pattern `+0.0` (`retain_non_zero` on the exported vector) -/
  isNonZero : R → Bool
  /-- `a.total_cmp(&b) != Ordering::Less` -/
  totalGe : R → R → Bool

attribute [instance 10] FOps.toOfScientific FOps.toAdd FOps.toSub FOps.toMul FOps.toDiv FOps.toNeg

/-- Conversions between `f64` (`F`), `f32` (`S`) and `i32`. -/
structure Casts (F S : Type) where
  /-- `f64::from(x: f32)` -/
  toF : S → F
  /-- `x as f32` (`x: f64`) -/
  toS : F → S
  /-- `x as i32` (`x: f64`): truncation toward zero, saturating, NaN ↦ 0 -/
  toI32 : F → Int
  /-- `n as f32` (`n: i32`) -/
  ofI32 : Int → S

/-- `a - b` on `i32` as release builds compute it (two's complement wrap-around); a debug build
panics when `i32SubOverflows`. -/
def i32Wrap (n : Int) : Int := (n + 2147483648) % 4294967296 - 2147483648

def i32SubOverflows (a b : Int) : Bool := a - b < -2147483648 || a - b > 2147483647

/-- Outcome of a model function whose Rust original can panic. -/
inductive Res (α : Type) where
  | ok : α → Res α
  /-- an `index out of bounds` or `assert!` panic -/
  | panic : Res α
  /-- the fuel of a `while` loop ran out (the code has no fuel) -/
  | fuel : Res α
deriving Repr

def Res.bind {α β : Type} (r : Res α) (f : α → Res β) : Res β :=
  match r with
  | .ok a => f a
  | .panic => .panic
  | .fuel => .fuel

def Res.ofOption {α : Type} : Option α → Res α
  | some a => .ok a
  | none => .panic

section
variable {R : Type} [FOps R]
open FOps

/-- `f64::EPSILON` / `f32::EPSILON` are passed where needed; `FloatExt::eq(a, b)`:
`(a - b).abs() <= EPS`. -/
def floatEq (eps a b : R) : Bool := le (abs (a - b)) eps

/-- `x.clamp(lo, hi)`: `assert!(lo <= hi)` (`none` = that panic; it also fires when a bound is
NaN), then `if x < lo { lo } else if x > hi { hi } else { x }`. -/
def clampChecked (x lo hi : R) : Option R :=
  if le lo hi then
    let x := if lt x lo then lo else x
    some (if lt hi x then hi else x)
  else none

/-- `any::difficulty::skills::strain_decay(ms, base)` = `base.powf(ms / 1000.0)` -/
def strainDecay (ms base : R) : R := powf base (ms / 1000.0)

end

/-! ## value-level section loop -/

/-- The three operations `process` applies to section times (the same record as `Skill.Arith`
without the bit-level `fmax`). -/
structure SecArith (T : Type) where
  /-- `f64::ceil(t / section_length) * section_length` -/
  ceilSec : T → T
  /-- `a > b` -/
  gt : T → T → Bool
  /-- `t + section_length` -/
  addSec : T → T

/-- Concrete strain functions of one skill with private state `σ`; `strainValueAt` may panic
(`none`). -/
structure FnsV (R P σ : Type) where
  strainValueAt : σ → Obj R P → Option (σ × R)
  initialStrain : σ → R → Obj R P → R

/-- The `StrainSkill` fields with the peaks as the plain list of pushed values. -/
structure StateV (R σ : Type) where
  sk : σ
  /-- `strain_skill_current_section_peak` -/
  sectionPeak : R
  /-- `strain_skill_current_section_end` -/
  sectionEnd : R
  /-- everything `save_current_peak` pushed, in order -/
  peaks : List R
  /-- `strain_skill_object_strains` -/
  objectStrains : List R

def StateV.init {R σ : Type} (zero : R) (s0 : σ) : StateV R σ := ⟨s0, zero, zero, [], []⟩

variable {R P σ : Type}

/-- the `while curr.start_time > self.strain_skill_current_section_end { … }` loop -/
def sectionLoopV (A : SecArith R) (F : FnsV R P σ) (o : Obj R P) : Nat → StateV R σ → Option (StateV R σ)
  | 0, st => if A.gt o.startTime st.sectionEnd then none else some st
  | fuel + 1, st =>
    if A.gt o.startTime st.sectionEnd then
      sectionLoopV A F o fuel
        { st with sectionPeak := F.initialStrain st.sk st.sectionEnd o,
                  sectionEnd := A.addSec st.sectionEnd,
                  peaks := st.peaks ++ [st.sectionPeak] }
    else some st

/-- `StrainSkill::process(curr, objects)` -/
def processV (A : SecArith R) (fmax : R → R → R) (F : FnsV R P σ) (fuel : Nat) (st : StateV R σ)
    (o : Obj R P) : Res (StateV R σ) :=
  let st := if o.idx = 0 then { st with sectionEnd := A.ceilSec o.startTime } else st
  match sectionLoopV A F o fuel st with
  | none => .fuel
  | some st =>
    match F.strainValueAt st.sk o with
    | none => .panic
    | some r =>
      .ok { st with sk := r.1, sectionPeak := fmax r.2 st.sectionPeak,
                    objectStrains := st.objectStrains ++ [r.2] }

/-- `for curr in diff_objects.iter() { skill.process(curr, &diff_objects) }` -/
def processAllV (A : SecArith R) (fmax : R → R → R) (F : FnsV R P σ) (fuel : Nat) :
    StateV R σ → List (Obj R P) → Res (StateV R σ)
  | st, [] => .ok st
  | st, o :: os =>
    match processV A fmax F fuel st o with
    | .ok st => processAllV A fmax F fuel st os
    | .panic => .panic
    | .fuel => .fuel

/-- What `StrainsVec::push` makes of a value. -/
def pushCanon [FOps R] (x : R) : R := if FOps.storable x then x else 0.0

/-- What `strains()` exports: the stored peaks plus the open section, each as `StrainsVec::push`
stores it. -/
def exportPeaksV [FOps R] (st : StateV R σ) : List R := (st.peaks ++ [st.sectionPeak]).map pushCanon

/-- The operations of Model/Aggregate.lean on values of type `R`. -/
def aggOps [FOps R] : Rosu.Agg.Ops R where
  zero := 0.0
  one := 1.0
  add := (· + ·)
  mul := (· * ·)
  nonZero := FOps.isNonZero
  ge := FOps.totalGe
  pos := fun x => FOps.lt 0.0 x

/-! ## bit-level view: the same skill as `Skill.StrainFns` -/

/-- An encoding of strain values as 64-bit patterns (`f64::to_bits` / `from_bits`). -/
structure Enc (R : Type) where
  enc : R → Nat
  dec : Nat → R

/-- The concrete skill as abstract strain functions of `Model/Skill.lean`.  A panic of
`strainValueAt` is an absorbing state (`none`), so that it stays visible in the final state. -/
def encFns (E : Enc R) (F : FnsV R P σ) : Skill.StrainFns R P (Option σ) where
  strainValueAt s o :=
    match s with
    | none => (none, 0)
    | some s =>
      match F.strainValueAt s o with
      | none => (none, 0)
      | some r => (some r.1, E.enc r.2)
  initialStrain s t o :=
    match s with
    | none => (none, 0)
    | some s' => (s, E.enc (F.initialStrain s' t o))

/-- `Skill.Arith` from the section arithmetic and `f64::max` transported to bit patterns. -/
def encArith (E : Enc R) (A : SecArith R) (fmax : R → R → R) : Skill.Arith R where
  ceilSec := A.ceilSec
  gt := A.gt
  addSec := A.addSec
  fmax a b := E.enc (fmax (E.dec a) (E.dec b))

end Rosu.SkillOps
