import RosuModel.Model.Sort

/-
Executable model of the decode post-processing of rosu-pp (core Lean only):

* `impl From<BeatmapState> for Beatmap`      — /repo/src/model/beatmap/decode.rs
  (difficulty clamps, `TandemSorter::new_stable` on the hit objects, `sorter.sort` on objects then
  on sounds, `sort::osu_legacy` for mania)
* `BeatmapState::{add_pending_point, flush_pending_points, add_control_point}`, the `Pending`
  trait, `ControlPoint::{check_already_existing, add}` for timing/difficulty/effect points
  (binary-search insert-or-replace)              — same file
* `difficulty_point_at` / `effect_point_at`      — /repo/src/model/control_point/*.rs

Floating point: times and difficulty values appear only in comparisons.  A non-NaN `f64`/`f32`
is represented by its *total-order key* `k(x)`, the signed integer `f64::total_cmp` compares
(`bits ^ (((bits as i64) >> 63) as u64 >> 1)`), so `total_cmp a b = compare (k a) (k b)`.  The
IEEE comparisons `<`, `>` agree with the key order except that `-0.0` (key `-1`) equals `+0.0`
(key `0`).  The approximate comparisons of `FloatExt` (`not_eq` on times, `eq` on slider
velocity / scroll speed) are parameters of the model (`CPParams`); the driver instantiates them
with the same IEEE double operations, the theorems hold for every instance.
-/
namespace Rosu.Decode
open Rosu.Sort

/-! ## total-order keys -/

/-- Key of a 64-bit pattern (`f64::total_cmp`). -/
def keyOfBits64 (b : Nat) : Int :=
  if b < 2 ^ 63 then (b : Int) else -((b : Int) - 2 ^ 63) - 1

/-- Key of a 32-bit pattern (`f32::total_cmp`). -/
def keyOfBits32 (b : Nat) : Int :=
  if b < 2 ^ 31 then (b : Int) else -((b : Int) - 2 ^ 31) - 1

/-- Numeric normalisation: `-0.0` and `+0.0` compare equal under `<`. -/
def norm (k : Int) : Int := if k = -1 then 0 else k

/-- IEEE `a < b` on keys of non-NaN values. -/
def fltLt (a b : Int) : Bool := decide (norm a < norm b)

/-- `cmp(a, b).is_gt()` for `total_cmp`. -/
def totGt (a b : Int) : Bool := decide (b < a)

/-! ## difficulty clamps -/

/-- `f32::clamp` / `f64::clamp` on a non-NaN value:
`if self < min { self = min } if self > max { self = max }` (with `min ≤ max`). -/
def clampKey (lo hi x : Int) : Int :=
  if fltLt x lo then lo else if fltLt hi x then hi else x

/-- The six clamped fields: `hp cs od ar` (f32 keys) and `slider_multiplier slider_tick_rate`
(f64 keys). -/
structure Diff where
  hp : Int
  cs : Int
  od : Int
  ar : Int
  sm : Int
  tr : Int
deriving Repr, BEq, DecidableEq

-- bit patterns of the clamp bounds (positive values: key = bits)
def f32_0 : Int := 0
def f32_1 : Int := 0x3F800000
def f32_10 : Int := 0x41200000
def f32_18 : Int := 0x41900000
def f64_0_4 : Int := 0x3FD999999999999A
def f64_3_6 : Int := 0x400CCCCCCCCCCCCD
def f64_0_5 : Int := 0x3FE0000000000000
def f64_8 : Int := 0x4020000000000000

/-- The clamps of `From<BeatmapState>`. -/
def clampDiff (mania : Bool) (d : Diff) : Diff :=
  { hp := clampKey f32_0 f32_10 d.hp
    cs := if mania then clampKey f32_1 f32_18 d.cs else clampKey f32_0 f32_10 d.cs
    od := clampKey f32_0 f32_10 d.od
    ar := clampKey f32_0 f32_10 d.ar
    sm := clampKey f64_0_4 f64_3_6 d.sm
    tr := clampKey f64_0_5 f64_8 d.tr }

/-! ## hit objects and hit sounds -/

/-- `lt` of `impl PartialOrd for HitObject` and `gt` of `osu_legacy::cmp`, on `(key, payload)`. -/
def objLt {τ : Type} (a b : Int × τ) : Bool := fltLt a.1 b.1
def objGt {τ : Type} (a b : Int × τ) : Bool := totGt a.1 b.1

/-- The sorting part of `From<BeatmapState>`: objects are `(start-time key, payload)`;
`none` = panic. -/
def sortObjects {τ υ : Type} (mania : Bool) (objs : List (Int × τ)) (sounds : List υ) :
    Option (List (Int × τ) × List υ) :=
  let sorter := Tandem.newStable (objs.map (·.1))
  match sorter.sort objs with
  | none => none
  | some (sorter, objs') =>
    match sorter.sort sounds with
    | none => none
    | some (_, sounds') =>
      if mania then
        match legacySort objGt objLt objs' with
        | none => none
        | some objs'' => some (objs'', sounds')
      else some (objs', sounds')

/-! ## control points -/

/-- `match v.binary_search_by(|probe| probe.time.total_cmp(&p.time)) { Err(i) => v.insert(i, p),
Ok(i) => v[i] = p }` on a vector that is strictly sorted by time key (std's binary search is
modelled by its contract). -/
def insertOrReplace {V : Type} (p : Int × V) : List (Int × V) → List (Int × V)
  | [] => [p]
  | q :: rest =>
    if q.1 < p.1 then q :: insertOrReplace p rest
    else if q.1 = p.1 then p :: rest
    else p :: q :: rest

/-- `difficulty_point_at` / `effect_point_at`: `binary_search.map_or_else(|i| i.checked_sub(1), Some)`,
i.e. the last point with `time ≤ t` (contract on a strictly sorted vector). -/
def pointAt {V : Type} (l : List (Int × V)) (t : Int) : Option (Int × V) :=
  (l.filter (fun q => decide (q.1 ≤ t))).getLast?

/-- The float predicates the control-point code uses. -/
structure CPParams (D E : Type) where
  /-- `FloatExt::not_eq` on two times -/
  timeNe : Int → Int → Bool
  /-- `DifficultyPoint::is_redundant` -/
  dRedundant : D → D → Bool
  dDefault : D
  /-- `EffectPoint::is_redundant` -/
  eRedundant : E → E → Bool
  eDefault : E

/-- The control-point part of `BeatmapState`. -/
structure CPState (T D E : Type) where
  timing : List (Int × T)
  difficulty : List (Int × D)
  effect : List (Int × E)
  pendingTime : Int
  pT : Option (Int × T)
  pD : Option (Int × D)
  pE : Option (Int × E)

/-- `DecodeState::create`: `pending_control_points_time = 0.0`. -/
def CPState.init {T D E : Type} : CPState T D E :=
  ⟨[], [], [], 0, none, none, none⟩

variable {T D E : Type}

/-- `add_control_point::<DifficultyPoint>` -/
def addDifficulty (P : CPParams D E) (l : List (Int × D)) (p : Int × D) : List (Int × D) :=
  let existing := match pointAt l p.1 with
    | some e => e.2
    | none => P.dDefault
  if P.dRedundant p.2 existing then l else insertOrReplace p l

/-- `add_control_point::<EffectPoint>` -/
def addEffect (P : CPParams D E) (l : List (Int × E)) (p : Int × E) : List (Int × E) :=
  let existing := match pointAt l p.1 with
    | some e => e.2
    | none => P.eDefault
  if P.eRedundant p.2 existing then l else insertOrReplace p l

/-- `flush_pending_points` -/
def flush (P : CPParams D E) (s : CPState T D E) : CPState T D E :=
  let s := match s.pT with
    | some p => { s with pT := none, timing := insertOrReplace p s.timing }
    | none => s
  let s := match s.pD with
    | some p => { s with pD := none, difficulty := addDifficulty P s.difficulty p }
    | none => s
  match s.pE with
    | some p => { s with pE := none, effect := addEffect P s.effect p }
    | none => s

/-- `Pending::push_front` (keep an existing pending point) / `push_back` (overwrite). -/
def pushPending {V : Type} (timingChange : Bool) (cur : Option V) (p : V) : Option V :=
  if timingChange then (match cur with | none => some p | some c => some c) else some p

/-- One accepted `[TimingPoints]` line. -/
structure Line (T D E : Type) where
  time : Int
  timingChange : Bool
  t : T
  d : D
  e : E

/-- First statement of `add_pending_point`: `if time.not_eq(self.pending_control_points_time)
{ self.flush_pending_points() }`. -/
def maybeFlush (P : CPParams D E) (s : CPState T D E) (time : Int) : CPState T D E :=
  if P.timeNe time s.pendingTime then flush P s else s

/-- `add_pending_point(time, timing_point, timing_change)` -/
def addPendingT (P : CPParams D E) (s : CPState T D E) (time : Int) (tc : Bool) (v : T) :
    CPState T D E :=
  let s := maybeFlush P s time
  { s with pT := pushPending tc s.pT (time, v), pendingTime := time }

/-- `add_pending_point(time, difficulty_point, timing_change)` -/
def addPendingD (P : CPParams D E) (s : CPState T D E) (time : Int) (tc : Bool) (v : D) :
    CPState T D E :=
  let s := maybeFlush P s time
  { s with pD := pushPending tc s.pD (time, v), pendingTime := time }

/-- `add_pending_point(time, effect_point, timing_change)` -/
def addPendingE (P : CPParams D E) (s : CPState T D E) (time : Int) (tc : Bool) (v : E) :
    CPState T D E :=
  let s := maybeFlush P s time
  { s with pE := pushPending tc s.pE (time, v), pendingTime := time }

/-- `parse_timing_points` after all fallible parsing succeeded. -/
def addLine (P : CPParams D E) (s : CPState T D E) (ln : Line T D E) : CPState T D E :=
  -- if timing_change { state.add_pending_point(time, timing, timing_change) }
  let s := if ln.timingChange then addPendingT P s ln.time ln.timingChange ln.t else s
  let s := addPendingD P s ln.time ln.timingChange ln.d
  let s := addPendingE P s ln.time ln.timingChange ln.e
  -- state.pending_control_points_time = time
  { s with pendingTime := ln.time }

/-- All accepted lines in file order, then the `flush_pending_points` of `From<BeatmapState>`. -/
def decodePoints (P : CPParams D E) (lines : List (Line T D E)) : CPState T D E :=
  flush P (lines.foldl (addLine P) CPState.init)

end Rosu.Decode
