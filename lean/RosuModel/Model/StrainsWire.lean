import RosuModel.Model.Skill
import RosuModel.Model.Wire

/-
Driver glue for `StrainsVec` (C10, C11) and the strain-section model (C16).

Request lines
  SV    <c|r> <sum0> <ops>                      operation sequence on a StrainsVec
  DV    <c|r> <g|o> <decay> <k> <factors> <pushes>   difficulty_value on a pushed vector
  SKILL <d|c> <fuel> <objs>                     probe skill: peaks, count, section times, dv
  SECT  <L> <fuel> <times>                      number of sections for the given start times

`f64` values cross the boundary as 16-digit hex bit patterns.  Lean `Float` (an IEEE double) is
used here — and only here — to replay the `f64` additions / multiplications of `sum`, the
in-place rescaling and the weighted fold, in the same order as the Rust code.
-/
namespace Rosu.StrainsWire
open Rosu.Wire Rosu.SV Rosu.Skill

def hexDigit (c : Char) : Nat :=
  if '0' ≤ c ∧ c ≤ '9' then c.toNat - '0'.toNat
  else if 'a' ≤ c ∧ c ≤ 'f' then c.toNat - 'a'.toNat + 10
  else if 'A' ≤ c ∧ c ≤ 'F' then c.toNat - 'A'.toNat + 10
  else 0

def hexToNat (s : String) : Nat := s.toList.foldl (fun acc c => acc * 16 + hexDigit c) 0

def hexChar (n : Nat) : Char :=
  if n < 10 then Char.ofNat ('0'.toNat + n) else Char.ofNat ('a'.toNat + (n - 10))

def natToHex16 (n : Nat) : String :=
  String.ofList ((List.range 16).reverse.map fun i => hexChar ((n / 16 ^ i) % 16))

/-- Parses `;`-separated hex values; `z<count>` stands for `count` zeros (see `showHexList`). -/
def hexList (s : String) (sep : String := ";") : List Nat :=
  (splitList s sep).flatMap fun t =>
    if t.startsWith "z" then List.replicate (nat! (t.drop 1).toString) 0 else [hexToNat t]

/-- Splits off the leading zeros: `(count, rest)`. -/
def spanZeros : List Nat → Nat × List Nat
  | 0 :: t => let (k, r) := spanZeros t; (k + 1, r)
  | l => (0, l)

theorem spanZeros_length_le (l : List Nat) : (spanZeros l).2.length ≤ l.length := by
  induction l with
  | nil => simp [spanZeros]
  | cons h t ih =>
    cases h with
    | zero => simp only [spanZeros, List.length_cons]; omega
    | succ n => simp [spanZeros]

/-- `;`-separated tokens; a run of 16 or more zeros is rendered `z<count>` (as `hex_list` in
harness/src/svops.rs does), so vectors with hours of empty sections stay printable. -/
def hexTokens (l : List Nat) : List String :=
  match h : l with
  | [] => []
  | 0 :: _ =>
    let p := spanZeros l
    have : p.2.length < l.length := by
      subst h
      have := spanZeros_length_le ‹List Nat›
      simp only [p, spanZeros, List.length_cons] at *
      omega
    (if p.1 ≥ 16 then [s!"z{p.1}"] else List.replicate p.1 (natToHex16 0)) ++ hexTokens p.2
  | (n + 1) :: t => natToHex16 (n + 1) :: hexTokens t
termination_by l.length

def showHexList (l : List Nat) : String := if l.isEmpty then "-" else joinWith ";" (hexTokens l)

def fOf (b : Nat) : Float := Float.ofBits (UInt64.ofNat b)
def bitsOf (f : Float) : Nat := f.toBits.toNat

/-- canonical rendering of a float result: NaN payloads are not compared -/
def showF (f : Float) : String := if f.isNaN then "nan" else natToHex16 (bitsOf f)

/-- `Iterator::sum::<f64>()`: left fold with `+` from std's identity `sum0`. -/
def sumBits (sum0 : Nat) (terms : List Nat) : Float := terms.foldl (fun acc b => acc + fOf b) (fOf sum0)

/-- `*strain *= factor_i` -/
def scaleBy (factors : List Nat) (i e : Nat) : Nat :=
  match factors[i]? with
  | some f => bitsOf (fOf e * fOf f)
  | none => e

/-- `difficulty += strain * weight; weight *= decay_weight` -/
def dvFloat (decay : Float) (terms : List Nat) : Float :=
  weightedFold (fun d s w => d + fOf s * w) (fun w d => w * d) 0.0 1.0 decay terms

/-! ### SV -/

inductive V where
  | c (s : SVec)
  | r (r : RVec)

def parseUpdate (t : String) : Nat × List Nat :=
  match (t.drop 1).toString.splitOn ":" with
  | [k, fs] => (nat! k, hexList fs)
  | _ => (0, [])

/-- `n` pushes of `+0.0` onto the plain-`Vec` variant, in one append (see `pushZerosRaw_eq`). -/
def pushZerosRaw (r : RVec) (n : Nat) : RVec := r ++ List.replicate n 0

/-- The one-append shortcut is exactly `n` calls of `RVec.push · 0`. -/
theorem pushZerosRaw_eq (r : RVec) (n : Nat) :
    pushZerosRaw r n = (List.range n).foldl (fun r _ => RVec.push r 0) r := by
  induction n generalizing r with
  | zero => simp [pushZerosRaw]
  | succ n ih =>
    rw [List.range_succ, List.foldl_append, ← ih]
    simp [pushZerosRaw, RVec.push, List.replicate_succ', List.append_assoc]

def svStep (sum0 : Nat) (st : V × List String) (t : String) : V × List String :=
  let (v, out) := st
  let tag := t.take 1 |>.toString
  let arg := (t.drop 1).toString
  match v with
  | .c s =>
    if tag == "P" then (.c (s.push (hexToNat arg)), out)
    else if tag == "Z" then (.c ((List.range (nat! arg)).foldl (fun s _ => s.push 0) s), out)
    else if tag == "L" then (v, out ++ [s!"L{s.len}"])
    else if tag == "I" then
      (v, out ++ [match s.iterCollect with | some l => "I" ++ showHexList l | none => "I!underflow"])
    else if tag == "E" then (v, out ++ [s!"E{(Iter.new s).len}"])
    else if tag == "S" then (v, out ++ ["S" ++ showF (sumBits sum0 s.sumTerms)])
    else if tag == "V" then
      (v, out ++ [match s.intoVec with | some l => "V" ++ showHexList l | none => "V!oob"])
    else if tag == "T" then (v, out ++ ["T" ++ showHexList s.retainNonZeroAndSort.transmuteIntoVec])
    else if tag == "U" then
      let (k, fs) := parseUpdate t
      (v, out ++ ["U" ++ showHexList ((s.sortedNonZeroUpdate (scaleBy fs) k).sortDesc.transmuteIntoVec)])
    else if tag == "R" then (.c s.retainNonZero, out)
    else if tag == "D" then (.c s.sortDesc, out)
    else if tag == "X" then (v, out ++ ["X" ++ showHexList s.transmuteIntoVec])
    else (v, out ++ ["?"])
  | .r r =>
    if tag == "P" then (.r (RVec.push r (hexToNat arg)), out)
    else if tag == "Z" then (.r (pushZerosRaw r (nat! arg)), out)
    else if tag == "L" then (v, out ++ [s!"L{RVec.len r}"])
    else if tag == "I" then (v, out ++ ["I" ++ showHexList (RVec.iterCollect r)])
    else if tag == "E" then (v, out ++ [s!"E{RVec.len r}"])
    else if tag == "S" then (v, out ++ ["S" ++ showF (sumBits sum0 (RVec.sumTerms r))])
    else if tag == "V" then (v, out ++ ["V" ++ showHexList (RVec.intoVec r)])
    else if tag == "T" then (v, out ++ ["T" ++ showHexList (RVec.retainNonZeroAndSort r)])
    else if tag == "U" then
      let (k, fs) := parseUpdate t
      (v, out ++ ["U" ++ showHexList (RVec.sortDesc (RVec.sortedNonZeroUpdate r (scaleBy fs) k))])
    else if tag == "R" then (.r (RVec.retainNonZero r), out)
    else if tag == "D" then (.r (RVec.sortDesc r), out)
    else if tag == "X" then (v, out ++ ["X" ++ showHexList (RVec.transmuteIntoVec r)])
    else (v, out ++ ["?"])

def handleSV (variant sum0 ops : String) : String :=
  let v0 : V := if variant == "c" then .c SVec.empty else .r []
  let (_, out) := (splitList ops ",").foldl (svStep (hexToNat sum0)) (v0, [])
  if out.isEmpty then "-" else joinWith " " out

/-! ### DV -/

def handleDV (variant kind decay k factors pushes : String) : String :=
  let bs := hexList pushes
  let fs := hexList factors
  let k := nat! k
  let decay := fOf (hexToNat decay)
  let terms :=
    if variant == "c" then
      let s := SVec.empty.pushAll bs
      if kind == "g" then dvTerms s else dvTermsOsu (scaleBy fs) k s
    else
      let r := RVec.pushAll [] bs
      if kind == "g" then RVec.retainNonZeroAndSort r
      else RVec.sortDesc (RVec.sortedNonZeroUpdate r (scaleBy fs) k)
  showF (dvFloat decay terms)

/-! ### SKILL / SECT -/

/-- probe skill: payload = (strain, initial) patterns; the skill state records every `time`
handed to `calculate_initial_strain`. -/
def probeFns (T : Type) : StrainFns T (Nat × Nat) (List T) :=
  { strainValueAt := fun s o => (s, o.data.1)
    initialStrain := fun s t o => (s ++ [t], o.data.2) }

def parseObjs (s : String) : List (Obj Float (Nat × Nat)) :=
  (splitList s ";").map fun t =>
    match t.splitOn ":" with
    | [i, tm, st, ini] => ⟨nat! i, fOf (hexToNat tm), (hexToNat st, hexToNat ini)⟩
    | _ => ⟨0, 0.0, (0, 0)⟩

def isSmallInt (f : Float) : Bool := f == f.floor && f.abs < 1.0e15

def floatToInt (f : Float) : Int := if f < 0.0 then -((-f).toUInt64.toNat : Int) else (f.toUInt64.toNat : Int)

def handleSKILL (kind fuel objs : String) : String :=
  let (L, Li, decay) : Float × Int × Float := if kind == "c" then (750.0, 750, 0.94) else (400.0, 400, 0.9)
  let fuel := nat! fuel
  let os := parseObjs objs
  match processAll (floatArith L) (probeFns Float) fuel (State.init 0.0 []) os with
  | none => "FUEL"
  | some st =>
    let cur := currentStrainPeaks st
    let peaks := match exportPeaks st with | some l => showHexList l | none => "!oob"
    let base := s!"P{peaks} N{cur.len} T{showHexList (st.sk.map bitsOf)} D{showF (dvFloat decay (dvTerms cur))}"
    -- cross-check of the two arithmetic instances on integer-valued times
    if os.all (fun o => isSmallInt o.startTime) then
      let osI : List (Obj Int (Nat × Nat)) := os.map fun o => ⟨o.idx, floatToInt o.startTime, o.data⟩
      match processAll (intArith Li) (probeFns Int) fuel (State.init 0 []) osI with
      | none => base ++ " INT-MISMATCH:fuel"
      | some sti =>
        if exportPeaks sti == exportPeaks st && sti.sk == st.sk.map floatToInt then base ++ " I="
        else base ++ " INT-MISMATCH"
    else base ++ " I-"

def handleSECT (L fuel times : String) : String :=
  let L := fOf (hexToNat L)
  let ts := hexList times
  let os : List (Obj Float (Nat × Nat)) := ts.zipIdx.map fun (t, i) => ⟨i, fOf t, (0, 0)⟩
  match processAll (floatArith L) (probeFns Float) (nat! fuel) (State.init 0.0 []) os with
  | none => "FUEL"
  | some st => s!"N{(currentStrainPeaks st).len}"

end Rosu.StrainsWire
