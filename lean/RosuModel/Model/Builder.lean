import RosuModel.Gen.Setters

/-
Model of the builders: `Difficulty` (src/any/difficulty/mod.rs), `InspectDifficulty`
(src/any/difficulty/inspect.rs), the four mode performance builders and the `Performance` enum
(src/any/performance/mod.rs).  The forwarding table of `Performance` and the effects of the mode
builders' setters are NOT written here: they are read from `Gen/Setters.lean`, which the
translator regenerates from the source on every run.

Numbers: setter arguments are exact numbers in milli-units (`Int`); `f64::clamp` on non-NaN
values is `max lo (min hi x)`.  NaN arguments are outside this model (the oracle covers them).
-/

namespace Rosu.Builder
open Rosu.Gen

/-- Setter argument. -/
inductive Arg where
  | mods (m : Nat)
  | nat (n : Nat)
  | num (x : Int)
  | attr (x : Int) (withMods : Bool)
  | flag (b : Bool)
  | state (vals : List Nat)
deriving Repr, DecidableEq

def clamp (lo hi x : Int) : Int := max lo (min hi x)

/-- `clock_rate.clamp(0.01, 100.0)` in milli-units. -/
def clampRate (x : Int) : Int := clamp 10 100000 x
/-- `value.clamp(-20.0, 20.0)` in milli-units. -/
def clampAttr (x : Int) : Int := clamp (-20000) 20000 x

/-- `Difficulty`. -/
structure Diff where
  mods : Nat
  passed : Option Nat
  clockRate : Option Int
  ar : Option (Int × Bool)
  cs : Option (Int × Bool)
  hp : Option (Int × Bool)
  od : Option (Int × Bool)
  hrOffsets : Option Bool
  lazer : Option Bool
deriving Repr, DecidableEq

/-- `Difficulty::new()`. -/
def Diff.new : Diff := ⟨0, none, none, none, none, none, none, none, none⟩

/-- The nine setters of `Difficulty`. -/
inductive DSetter where
  | mods | passedObjects | clockRate | ar | cs | hp | od | hardrockOffsets | lazer
deriving Repr, DecidableEq

def DSetter.ofString : String → Option DSetter
  | "mods" => some .mods
  | "passed_objects" => some .passedObjects
  | "clock_rate" => some .clockRate
  | "ar" => some .ar
  | "cs" => some .cs
  | "hp" => some .hp
  | "od" => some .od
  | "hardrock_offsets" => some .hardrockOffsets
  | "lazer" => some .lazer
  | _ => none

/-- The setters of `Difficulty` (src/any/difficulty/mod.rs).  A call with an argument of the
wrong shape does not type-check in Rust; the model leaves the value unchanged. -/
def Diff.applyS (d : Diff) (s : DSetter) (a : Arg) : Diff :=
  match s, a with
  | .mods, .mods m => { d with mods := m }
  | .passedObjects, .nat n => { d with passed := some n }
  | .clockRate, .num x => { d with clockRate := some (clampRate x) }
  | .ar, .attr x w => { d with ar := some (clampAttr x, w) }
  | .cs, .attr x w => { d with cs := some (clampAttr x, w) }
  | .hp, .attr x w => { d with hp := some (clampAttr x, w) }
  | .od, .attr x w => { d with od := some (clampAttr x, w) }
  | .hardrockOffsets, .flag b => { d with hrOffsets := some b }
  | .lazer, .flag b => { d with lazer := some b }
  | _, _ => d

/-- By method name (the generated tables name methods by string). -/
def Diff.apply (d : Diff) (method : String) (a : Arg) : Diff :=
  match DSetter.ofString method with
  | some s => d.applyS s a
  | none => d

/-- `InspectDifficulty` has the same fields, all public. -/
abbrev Inspect := Diff

/-- `Difficulty::inspect`: field-by-field copy (the clock rate is decoded from its bits). -/
def Diff.inspect (d : Diff) : Inspect := d

/-- `InspectDifficulty::into_difficulty`: replays the setters on `Difficulty::new()`. -/
def Inspect.intoDifficulty (i : Inspect) : Diff :=
  let d := Diff.new.applyS .mods (.mods i.mods)
  let d := match i.passed with | some n => d.applyS .passedObjects (.nat n) | none => d
  let d := match i.clockRate with | some x => d.applyS .clockRate (.num x) | none => d
  let d := match i.ar with | some (x, w) => d.applyS .ar (.attr x w) | none => d
  let d := match i.cs with | some (x, w) => d.applyS .cs (.attr x w) | none => d
  let d := match i.hp with | some (x, w) => d.applyS .hp (.attr x w) | none => d
  let d := match i.od with | some (x, w) => d.applyS .od (.attr x w) | none => d
  let d := match i.hrOffsets with | some b => d.applyS .hardrockOffsets (.flag b) | none => d
  match i.lazer with | some b => d.applyS .lazer (.flag b) | none => d

/-- A mode's performance builder: its `Difficulty`, the provided score fields (by field name),
accuracy and priority. `source` stands for the `MapOrAttrs` it was created from. -/
structure PerfB where
  source : Nat
  difficulty : Diff
  fields : List (String × Nat)
  acc : Option Int
  priority : Nat
deriving Repr, DecidableEq

/-- `from_map_or_attrs`. -/
def PerfB.new (source : Nat) : PerfB := ⟨source, Diff.new, [], none, 0⟩

def setField (fs : List (String × Nat)) (k : String) (v : Nat) : List (String × Nat) :=
  (k, v) :: fs.filter (fun p => p.1 != k)

/-- `…Performance::difficulty(d)`: the effect `.setDifficulty` with its `Difficulty` argument. -/
def PerfB.setDifficulty (b : PerfB) (d : Diff) : PerfB := { b with difficulty := d }

/-- Interpretation of a generated `Effect`. -/
def PerfB.applyEffect (b : PerfB) (e : Effect) (a : Arg) : PerfB :=
  match e, a with
  | .diff m, a => { b with difficulty := b.difficulty.apply m a }
  | .field f, .nat n => { b with fields := setField b.fields f n }
  | .priority, .nat n => { b with priority := n }
  | .acc, .num x => { b with acc := some (clamp 0 100000 x) }
  | .state fs, .state vals => { b with fields := (fs.zip vals).foldl (fun acc p => setField acc p.1 p.2) b.fields }
  | _, _ => b

def lookupEffect (mode method : String) : Option Effect :=
  (modeSetters.lookup mode).bind (·.lookup method)

def lookupArm (setter mode : String) : Option Arm :=
  (performanceSetters.lookup setter).bind (·.lookup mode)

/-- A setter of a mode builder (`OsuPerformance::ar`, …). -/
def PerfB.applyMode (b : PerfB) (mode method : String) (a : Arg) : PerfB :=
  match lookupEffect mode method with
  | some e => b.applyEffect e a
  | none => b

/-- A setter of the `Performance` enum, dispatched on the variant `mode`. -/
def PerfB.applyPerformance (b : PerfB) (mode setter : String) (a : Arg) : PerfB :=
  match lookupArm setter mode with
  | some (.forward m) => b.applyMode mode m a
  | _ => b

/-- The difficulty-level setters. -/
def diffSetters : List String :=
  ["mods", "passed_objects", "clock_rate", "ar", "cs", "hp", "od", "hardrock_offsets", "lazer"]

def modes : List String := ["Osu", "Taiko", "Catch", "Mania"]

/-- Is the setter forwarded by `Performance` for this mode? -/
def forwarded (mode setter : String) : Bool :=
  match lookupArm setter mode with
  | some (.forward _) => true
  | _ => false

end Rosu.Builder
