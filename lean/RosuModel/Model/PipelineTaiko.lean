import RosuModel.Model.DecodeBytes
import RosuModel.Model.Gradual
import RosuModel.Model.TaikoPre
import RosuModel.Model.TaikoSkill
import RosuModel.Model.ClockRate

/-
Native osu!taiko END TO END inside the model, and the interface between worker TAIKO's
preprocessing model and the skill model:

  bytes ──`DecodeLine.fromBytes`──▶ `Decoded`                      (worker DEC)
        ──`taikoObjects`──────────▶ `TaikoObject`s                  (`TaikoObject::new`: non-circle ⇒ NonHit,
                                                                     CLAP | WHISTLE ⇒ Rim, else Centre)
        ──`TaikoPre.preprocess`───▶ object store, colour and rhythm structures     (worker TAIKO)
        ──`effectiveBpms`─────────▶ `effective_bpm` per difficulty object
                                     (`timing_point_at` / `effect_point_at` lookups + arithmetic)
        ──`trecOfPre`─────────────▶ one `TRec` per difficulty object  ← THE INTERFACE (checked by `TREC` lines)
        ──`TaikoSkill.calculate`──▶ the five skill states            (round 2)
        ──peaks, difficulty values, `PerfCalc.taikoEval` (per instance) ▶ ratings, stars
        ──`Gradual.taikoOneShot`──▶ max_combo, number of processed difficulty objects

Native taiko needs no curve mathematics: a slider line is a drum roll, a spinner line a swell —
`TaikoObject::new` reads only `is_circle()`, the start time and the hit sound.  The great / ok hit
windows (attribute-builder path, C17) are inputs.  Generic in `FOps R`; core Lean only.
-/

namespace Rosu.PipelineTaiko
open Rosu.SkillOps Rosu.DecodeLine Rosu.Decode Rosu.TaikoSkill
open Rosu.Skill (Obj)

/-- what the pipeline needs besides `FOps R` -/
structure TOps (R : Type) where
  /-- `f64::from_bits` -/
  dec64 : Nat → R
  /-- the `total_cmp` key of a value (`Model/Decode.lean`: `keyOfBits64 ∘ to_bits`) -/
  keyOf : R → Int
  /-- `a.total_cmp(&b) != Greater` -/
  totalLe : R → R → Bool
  /-- `f64::INFINITY` -/
  inf : R

section
variable {R : Type} [FOps R] (O : TOps R)
open FOps

/-- the arithmetic record of `Model/TaikoPre.lean` from `FOps` -/
def preArith : TaikoPre.Arith R where
  ofNat n := ofInt n
  add := (· + ·)
  sub := (· - ·)
  div := (· / ·)
  abs := abs
  le := le
  lt := lt
  totalLe := O.totalLe
  inf := O.inf

/-! ## `TaikoObject::new` -/

/-- `HitSoundType::CLAP | HitSoundType::WHISTLE` = 8 | 2 -/
def isRimSound (sound : Nat) : Bool := sound / 2 % 2 = 1 || sound / 8 % 2 = 1

def kindOf (h : HObj) (sound : Nat) : TaikoPre.Kind :=
  match h.kind with
  | .circle => if isRimSound sound then .rim else .centre
  | _ => .nonhit

/-- `hit_objects.iter().zip(hit_sounds.iter()).map(|(h, s)| TaikoObject::new(h, *s))` -/
def taikoObjects (objs : List (Int × HObj)) (sounds : List Nat) : List (TaikoPre.Obj R) :=
  (objs.zip sounds).map fun p => ⟨O.dec64 p.1.2.time, kindOf p.1.2 p.2⟩

/-! ## `effective_bpm` -/

/-- number of leading points with `time <= t` under `total_cmp` (the lists are strictly increasing,
`Props/C06b.lean`), i.e. what `binary_search_by(total_cmp)` finds -/
def pointsLe {α : Type} (points : List (Int × α)) (k : Int) : Nat :=
  (points.takeWhile fun p => decide (p.1 ≤ k)).length

/-- `timing_point_at`: `binary_search(..).unwrap_or_else(|i| i.saturating_sub(1))`, then `points.get(i)` -/
def timingPointAt {α : Type} (points : List (Int × α)) (k : Int) : Option α :=
  (points[pointsLe points k - 1]?).map (·.2)

/-- `effect_point_at`: `binary_search(..).map_or_else(|i| i.checked_sub(1), Some)` -/
def effectPointAt {α : Type} (points : List (Int × α)) (k : Int) : Option α :=
  if pointsLe points k = 0 then none else (points[pointsLe points k - 1]?).map (·.2)

/-- `global_slider_velocity` of `create_difficulty_objects`: `slider_multiplier`, `× 1.4 * 4.0 / 3.0`
with HardRock (bit 16), else `× 0.8` with Easy (bit 2); no legacy mod has a scroll speed -/
def globalSliderVelocity (sm : R) (mods : Nat) : R :=
  if mods / 16 % 2 = 1 then sm * (1.4 * 4.0 / 3.0)
  else if mods / 2 % 2 = 1 then sm * 0.8
  else sm

/-- `effective_bpm` of `TaikoDifficultyObject::new` for an object starting at `time` (map time) -/
def effectiveBpm (d : Decoded) (clock gsv time : R) : R :=
  let startTime := time / clock
  let normalized := startTime * clock
  let k := O.keyOf normalized
  let bpm : R := match timingPointAt d.cps.timing k with
    | some beatLen => 60000.0 / O.dec64 beatLen
    | none => 60000.0 / (60000.0 / 60.0)
  let scroll : R := match effectPointAt d.cps.effect k with
    | some e => O.dec64 e.2
    | none => 1.0
  bpm * (gsv * scroll * clock)

/-! ## the interface: `TRec` records from the preprocessing structure -/

def startAt (st : TaikoPre.Store R) (i : Nat) : Option R := (st.objects[i]?).map (·.start)

/-- the `hit_object_interval` chain of a same-rhythm group and its (at most three) predecessors -/
def intervalChain (rgs : List (TaikoPre.RGroup R)) : Nat → Nat → List (Option R)
  | 0, _ => []
  | n + 1, g =>
    match rgs[g]? with
    | none => []
    | some rg => rg.hitObjectInterval :: (if g = 0 then [] else intervalChain rgs n (g - 1))

/-- one record; `none` = a checked lookup of the preprocessing model failed -/
def trecAt (P : TaikoPre.Pre R) (bpm : R) (p : Nat) : Option (TObj R) := do
  let A := preArith O
  let st := P.store
  let o ← st.objects[p]?
  let c ← P.colour[p]?
  let lk ← P.lookups[p]?
  let pm1 ← TaikoPre.previousMono st o 1
  let pm7 ← TaikoPre.previousMono st o 7
  let pcc ← lk[4]?
  let ncc ← lk[5]?
  let repIv ← P.repIntervals[c.1]?
  let isFirstMono := c.2.2.2 == 0
  let isFirstAlt := isFirstMono && c.2.2.1 == 0
  let isFirstRep := isFirstAlt && c.2.1 == 0
  let rh ← P.rhythm[p]?
  let (rhythmFirst, patternRatio) ← match rh with
    | none => some (none, none)
    | some (rg, pg) => do
      let g ← P.rgroups[rg]?
      let rf ← if g.members.head? == some p then do
            let dur ← TaikoPre.durationOf A st g.members
            some (some (⟨g.hitObjectIntervalRatio, g.members.length, dur, intervalChain P.rgroups 4 rg⟩ : RhythmGroup R))
          else some none
      let pgl ← P.pgroups[pg]?
      let g0 ← pgl[0]?
      let fg ← P.rgroups[g0]?
      let pr ← if fg.members.head? == some p then (P.pgRatio[pg]?).map some else some none
      some (rf, pr)
  some
    { idx := o.idx
      startTime := o.start
      data :=
        { isHit := o.kind.isHit
          deltaTime := o.delta
          effectiveBpm := bpm
          ratio := o.ratio
          prevStart := if o.idx ≥ 1 then startAt st (o.idx - 1) else none
          prev2Start := if o.idx ≥ 2 then startAt st (o.idx - 2) else none
          monoIndex := c.2.2.2
          prevMono2 := pm1.map (·.start)
          prevMono8 := pm7.map (·.start)
          prevColorChange := pcc.bind (startAt st)
          nextColorChange := ncc.bind (startAt st)
          monoFirst := if isFirstMono then some (c.2.2.1, some (c.2.1, some repIv)) else none
          altFirst := if isFirstAlt then some (c.2.1, some repIv) else none
          repFirst := if isFirstRep then some repIv else none
          rhythmFirst := rhythmFirst
          patternFirstRatio := patternRatio } }

/-- **`trecOfPre`**: the records the skills consume, from TAIKO's preprocessing structure and the
per-object `effective_bpm` -/
def trecOfPre (P : TaikoPre.Pre R) (bpms : List R) : Option (List (TObj R)) :=
  (List.range P.store.objects.length).mapM fun p =>
    match bpms[p]? with
    | some b => trecAt O P b p
    | none => none

/-! ## the pipeline -/

inductive Out (α : Type) where
  | ioError
  /-- the file is not a taiko map: outside this pipeline -/
  | notTaiko (mode : Nat)
  /-- a checked operation of the preprocessing / interface failed (proved impossible for the parts
  that have theorems), or a skill panicked -/
  | panic
  | fuel
  | ok (a : α)

/-- everything up to the records: `(is_hit flags of ALL objects, records of all difficulty objects)` -/
def recordsOf (d : Decoded) (clock : R) (mods : Nat) : Out (List Bool × List (TObj R)) :=
  if d.mode ≠ 1 then .notTaiko d.mode
  else
    match d.objects with
    | none => .panic
    | some (objs, sounds) =>
      let tobjs := taikoObjects O objs sounds
      match TaikoPre.preprocess (preArith O) clock tobjs with
      | none => .panic
      | some P =>
        let gsv := globalSliderVelocity (O.dec64 (unkey64 d.diff.sm)) mods
        -- difficulty object `i` belongs to hit object `i + 2`
        let bpms := (tobjs.drop 2).map fun t => effectiveBpm O d clock gsv t.time
        match trecOfPre O P bpms with
        | none => .panic
        | some recs => .ok (tobjs.map (·.kind.isHit), recs)

/-- the skills of the one-shot calculation: `DifficultyValues::calculate` processes
`diff_objects.iter().take(n_diff_objects)` -/
def oneShotSkills (A : SecArith R) (fuel : Nat) (hitWindow : R) (hits : List Bool)
    (recs : List (TObj R)) (take : Nat) : Nat × Res (Skills R) :=
  let c := Gradual.taikoCreate hits take
  -- `n_diff_objects.saturating_sub(1)`; `if take >= total hits { n_diff_objects = diff_objects.objects.len(); }`
  -- (the fix of the trailing drum rolls / swells); the iterator also ends with the list
  let n := if take ≥ (hits.filter id).length then recs.length else c.2.2 - 1
  (c.2.1, calculate A fuel hitWindow false n recs)

/-- clock rate as in `Model/PipelineMania.lean` -/
def clockRateBits (mods : Nat) (custom : Option Nat) : Nat :=
  match custom with
  | some x => Rosu.ClockRate.clockRateBits x
  | none =>
    if mods / 64 % 2 = 1 then 0x3FF8000000000000
    else if mods / 256 % 2 = 1 then 0x3FE8000000000000
    else 0x3FF0000000000000

/-- **`taikoSkillsOfBytes`**: bytes → `(max_combo, five skill states)` of
`Difficulty::new().mods(bits)[.clock_rate(x)][.passed_objects(take)]` on a native taiko file -/
def taikoSkillsOfBytes (A : SecArith R) (fuel : Nat) (bytes : List UInt8) (mods : Nat)
    (customRate : Option Nat) (take : Option Nat) (hitWindow : R) : Out (Nat × Skills R) :=
  match fromBytes bytes with
  | none => .ioError
  | some d =>
    match recordsOf O d (O.dec64 (clockRateBits mods customRate)) mods with
    | .ok (hits, recs) =>
      -- `take as u32`
      let r := oneShotSkills A fuel hitWindow hits recs ((take.getD (2 ^ 64 - 1)) % 2 ^ 32)
      match r.2 with
      | .ok sk => .ok (r.1, sk)
      | .panic => .panic
      | .fuel => .fuel
    | .ioError => .ioError
    | .notTaiko m => .notTaiko m
    | .panic => .panic
    | .fuel => .fuel

/-! ## the gradual calculator with the concrete skills -/

/-- the five skill states, each with its own outcome -/
abbrev S5 (R : Type) :=
  Res (StateV R (R × Unit)) × Res (StateV R (R × R)) × Res (StateV R (R × Unit)) × Res (StateV R R) × Res (StateV R R)

/-- `skill.process(&diff_objects[d], &diff_objects)`; a failure is absorbing -/
def stepRes {P σ : Type} (A : SecArith R) (F : FnsV R P σ) (fuel : Nat) (diffs : List (Obj R P))
    (s : Res (StateV R σ)) (d : Nat) : Res (StateV R σ) :=
  s.bind fun st =>
    match diffs[d]? with
    | some o => processV A fmax F fuel st o
    | none => .panic

/-- the skills of `TaikoGradualDifficulty`: the records come from ALL objects -/
def concreteSkills5 (A : SecArith R) (fuel : Nat) (hitWindow : R) (isConvert : Bool) (recs : List (TObj R)) :
    Gradual.Skills (S5 R) where
  init := (.ok (StateV.init 0.0 (0.0, ())), .ok (StateV.init 0.0 (0.0, 0.0)), .ok (StateV.init 0.0 (0.0, ())),
    .ok (StateV.init 0.0 0.0), .ok (StateV.init 0.0 0.0))
  process s d :=
    let ratios := recs.map fun o => o.data.ratio
    (stepRes A (rhythmFns hitWindow) fuel recs s.1 d, stepRes A readingFns fuel recs s.2.1 d,
      stepRes A (colorFns ratios) fuel recs s.2.2.1 d, stepRes A (staminaFns false isConvert) fuel recs s.2.2.2.1 d,
      stepRes A (staminaFns true isConvert) fuel recs s.2.2.2.2 d)

/-- the outcome `DifficultyValues::calculate`-style: first failure in skill order -/
def combine5 (s : S5 R) : Res (Skills R) :=
  s.1.bind fun a => s.2.1.bind fun b => s.2.2.1.bind fun c => s.2.2.2.1.bind fun d => s.2.2.2.2.bind fun e =>
    .ok ⟨a, b, c, d, e⟩

/-- the values `TaikoGradualDifficulty::next` yields until `None` (at most `hits.length` of them):
`(max_combo, skills)` each -/
def gradualValues (A : SecArith R) (fuel : Nat) (hitWindow : R) (hits : List Bool) (recs : List (TObj R)) :
    List (Gradual.Res (Nat × Res (Skills R))) :=
  let sk := concreteSkills5 A fuel hitWindow false recs
  ((Gradual.taikoMachine sk hits).nexts (Gradual.taikoNew sk hits) hits.length).1.map fun r =>
    match r with
    | .some (mc, s) => .some (mc, combine5 s)
    | .none => .none
    | .panic => .panic

end

end Rosu.PipelineTaiko
