/-
Model of `/repo/src/model/beatmap/bpm.rs` (`bpm`, `BeatLenDuration::{new, add}`).  Core Lean only.

The `HashMap<u64, (usize, f64)>` is an association list in insertion order; hash iteration order
is modelled by running the final `max_by` over an ARBITRARY reordering of the entries (the
theorems quantify over all permutations, the driver tries several).

Durations are a type parameter `D` (`f64` in the code) with `zero`/`add`; `rank : D → Int` is the
order key of `f64::total_cmp` (a total order: the sign-magnitude bit pattern mapped to a signed
integer, exactly what `total_cmp` computes).
-/
namespace Rosu.Bpm

/-- One `HashMap` entry `key ↦ (idx, dur)`: `key` = bits of the rounded beat length, `idx` = order
of first appearance (`self.map.len()` at insertion), `dur` = cumulative duration. -/
structure Entry (D : Type) where
  key : Nat
  idx : Nat
  dur : D
deriving Repr, DecidableEq

/-- `entry(key).or_insert((n_entries, 0.0))` followed by `if cond { *entry += delta }`. -/
def add {D} (zero : D) (plus : D → D → D) (m : List (Entry D)) (key : Nat) (cond : Bool) (delta : D) :
    List (Entry D) :=
  if m.any (fun e => e.key == key) then
    m.map fun e => if e.key == key ∧ cond then { e with dur := plus e.dur delta } else e
  else
    m ++ [{ key := key, idx := m.length, dur := if cond then plus zero delta else zero }]

/-- A sequence of `add` calls: `(key, cond, delta)` each. -/
def accumulate {D} (zero : D) (plus : D → D → D) (calls : List (Nat × Bool × D)) : List (Entry D) :=
  calls.foldl (fun m c => add zero plus m c.1 c.2.1 c.2.2) []

/-- `Iterator::max_by`: `reduce(|x, y| match compare(&x, &y) { Greater => x, _ => y })`
(the LAST of several equally-maximal elements wins). -/
def maxBy {α} (cmp : α → α → Ordering) : List α → Option α
  | [] => none
  | x :: xs => some (xs.foldl (fun acc y => if cmp acc y == .gt then acc else y) x)

/-- The comparator of the current code:
`a.total_cmp(b).then_with(|| idx_b.cmp(idx_a))` — longer duration wins, on equal durations the
entry that appeared first (smaller index) wins. -/
def cmpEntry {D} (rank : D → Int) (a b : Entry D) : Ordering :=
  (compare (rank a.dur) (rank b.dur)).then (compare b.idx a.idx)

/-- The comparator before commit 86d9d03 ("fix: Beatmap::bpm is deterministic …"):
`a.total_cmp(b)` only. -/
def cmpEntryOld {D} (rank : D → Int) (a b : Entry D) : Ordering :=
  compare (rank a.dur) (rank b.dur)

/-- Selection over the entries in the given (arbitrary) iteration order. -/
def select {D} (rank : D → Int) (es : List (Entry D)) : Option (Entry D) := maxBy (cmpEntry rank) es

def selectOld {D} (rank : D → Int) (es : List (Entry D)) : Option (Entry D) := maxBy (cmpEntryOld rank) es

/-! ## The f64 instance executed by the driver (replays the IEEE operations of the Rust code) -/

/-- Key of `f64::total_cmp`: `bits ^ (((bits as i64 >> 63) as u64) >> 1)` compared as `i64`. -/
def totalRank (x : Float) : Int :=
  let b := x.toBits.toNat
  if b < 2 ^ 63 then (b : Int) else -((b - 2 ^ 63 : Nat) : Int) - 1

/-- `(1000.0 * beat_len).round() / 1000.0` -/
def roundBeatLen (beatLen : Float) : Float := (1000.0 * beatLen).round / 1000.0

structure TimingPoint where
  time : Float
  beatLen : Float

/-- The `add` calls `bpm` performs, in order: `(beat_len, curr_time, next_time)`. -/
def addCalls (lastTime : Float) (tps : List TimingPoint) : List (Float × Float × Float) :=
  let first := match tps with
    | [c] => [(c.beatLen, 0.0, lastTime)]
    | c :: n :: _ => [(c.beatLen, 0.0, n.time)]
    | [] => []
  let mid := ((tps.drop 1).zip ((tps.drop 2).map (·.time))).map fun (c, nt) => (c.beatLen, c.time, nt)
  let last := match tps.reverse with
    | c :: _ :: _ => [(c.beatLen, c.time, lastTime)]
    | _ => []
  first ++ mid ++ last

/-- `last_hit_object.map(end_time).or_else(|| timing_points.last().map(|t| t.time)).unwrap_or(0.0)` -/
def lastTimeOf (lastObjEnd : Option Float) (tps : List TimingPoint) : Float :=
  match lastObjEnd with
  | some t => t
  | none => match tps.getLast? with
    | some t => t.time
    | none => 0.0

/-- The accumulated map of `bpm`, in insertion order. -/
def entriesF (lastObjEnd : Option Float) (tps : List TimingPoint) : List (Entry Float) :=
  let lastTime := lastTimeOf lastObjEnd tps
  accumulate (0.0 : Float) (· + ·)
    ((addCalls lastTime tps).map fun (bl, ct, nt) =>
      ((roundBeatLen bl).toBits.toNat, ct <= lastTime, nt - ct))

/-- `60_000.0 / most_common_beat_len` where the maximum is taken over `order entries`. -/
def bpmWith (order : List (Entry Float) → List (Entry Float)) (lastObjEnd : Option Float)
    (tps : List TimingPoint) : Float :=
  let most := match select totalRank (order (entriesF lastObjEnd tps)) with
    | some e => Float.ofBits (UInt64.ofNat e.key)
    | none => 0.0
  60000.0 / most

/-- Same with the pre-fix comparator (used to show the driver can tell the difference). -/
def bpmOldWith (order : List (Entry Float) → List (Entry Float)) (lastObjEnd : Option Float)
    (tps : List TimingPoint) : Float :=
  let most := match selectOld totalRank (order (entriesF lastObjEnd tps)) with
    | some e => Float.ofBits (UInt64.ofNat e.key)
    | none => 0.0
  60000.0 / most

end Rosu.Bpm
