/-
Bit-exact models of the two PRNGs used by the converters.  Core Lean only.

* `/repo/src/util/random/osu.rs`    — `Random` (xorshift128, osu!'s `LegacyRandom`/`FastRandom`)
* `/repo/src/util/random/csharp.rs` — `Random`/`CompatPrng` (.NET `System.Random`, Knuth subtractive)

`u32` is `UInt32` (wrapping, like the Rust operators used).  `i32` values are modelled as
unbounded `Int`; plain `+`/`-` of the Rust code (which panic on overflow in checked builds) are
unbounded here and `Lemmas/Rng.lean` proves every intermediate value stays inside `i32`, the one
`wrapping_sub` is `wrap32 (a - b)`.  Float results are computed by the driver with `Float`
(same IEEE operations); the theorems use the exact integer/rational versions defined next to them.
-/
namespace Rosu.Rng

/-! ## osu! xorshift128 -/

structure Osu where
  x : UInt32
  y : UInt32
  z : UInt32
  w : UInt32
  bitBuf : UInt32
  bitIdx : Nat
deriving Repr, DecidableEq

/-- `Random::new(seed)`: `x = seed as u32`. -/
def Osu.new (seed : Int) : Osu :=
  { x := UInt32.ofNat (seed % 4294967296).toNat, y := 842502087, z := 3579807591, w := 273326509,
    bitBuf := 0, bitIdx := 32 }

/-- `gen_unsigned` -/
def Osu.genUnsigned (s : Osu) : UInt32 × Osu :=
  let t := s.x ^^^ (s.x <<< 11)
  let w' := s.w ^^^ (s.w >>> 19) ^^^ t ^^^ (t >>> 8)
  (w', { s with x := s.y, y := s.z, z := s.w, w := w' })

/-- `next_int`: `(INT_MASK & gen_unsigned()) as i32` -/
def Osu.nextInt (s : Osu) : Nat × Osu :=
  let (u, s') := s.genUnsigned
  ((u &&& 0x7FFFFFFF).toNat, s')

/-- `next_double` as the exact rational `next_int / 2^31` is represented by its numerator. -/
def Osu.nextDoubleF (s : Osu) : Float × Osu :=
  let (n, s') := s.nextInt
  ((1.0 / (2147483647.0 + 1.0)) * Float.ofNat n, s')

/-- Exact `next_int_range`: `trunc(min + (n / 2^31) * (max - min))`, truncation towards zero as
in `as i32`; `n` is the `next_int` draw. -/
def rangeExact (lo hi : Int) (n : Nat) : Int := Int.tdiv (lo * 2147483648 + (n : Int) * (hi - lo)) 2147483648

def Osu.nextIntRangeExact (s : Osu) (lo hi : Int) : Int × Osu :=
  let (n, s') := s.nextInt
  (rangeExact lo hi n, s')

/-- `next_int_range` with the f64 operations of the code:
`(f64::from(min) + next_double() * f64::from(max - min)) as i32`. -/
def Osu.nextIntRangeF (s : Osu) (lo hi : Int) : Int × Osu :=
  let (d, s') := s.nextDoubleF
  ((Float.ofInt lo + d * Float.ofInt (hi - lo)).toInt32.toInt, s')

/-- `next_double_range`: `(min + next_double() * (max - min)) as i32`. -/
def Osu.nextDoubleRangeF (s : Osu) (lo hi : Float) : Int × Osu :=
  let (d, s') := s.nextDoubleF
  ((lo + d * (hi - lo)).toInt32.toInt, s')

/-- `next_bool` -/
def Osu.nextBool (s : Osu) : Bool × Osu :=
  if s.bitIdx == 32 then
    let (u, s') := s.genUnsigned
    ((u &&& 1) == 1, { s' with bitBuf := u, bitIdx := 1 })
  else
    let b := s.bitBuf >>> 1
    ((b &&& 1) == 1, { s with bitBuf := b, bitIdx := s.bitIdx + 1 })

/-! ## .NET `System.Random` compat generator -/

def i32Max : Int := 2147483647
def i32Min : Int := -2147483648

/-- Two's-complement wrap of an integer into `i32`. -/
def wrap32 (x : Int) : Int := (x + 2147483648) % 4294967296 - 2147483648

structure Csharp where
  /-- `seed_array: [i32; 56]` -/
  sa : List Int
  inext : Int
  inextp : Int
deriving Repr, DecidableEq

/-- `if mk < 0 { mk += i32::MAX }` -/
def fixNeg (x : Int) : Int := if x < 0 then x + i32Max else x

/-- First loop of `CompatPrng::initialize` (`for _ in 1..55`), `fuel` iterations left. -/
def initFill : Nat → List Int → Int → Int → Nat → List Int
  | 0, sa, _, _, _ => sa
  | fuel + 1, sa, mj, mk, ii =>
    let ii := if ii + 21 >= 55 then ii + 21 - 55 else ii + 21
    let sa := sa.set ii mk
    let mk' := fixNeg (mj - mk)
    -- `mj = seed_array[ii]`, which was assigned `mk` two statements earlier
    initFill fuel sa mk mk' ii

/-- One step of the second loop: `seed_array[i] = seed_array[i].wrapping_sub(seed_array[1 + n])`,
then `if seed_array[i] < 0 { seed_array[i] += i32::MAX }`. -/
def mixStep (sa : List Int) (i : Nat) : List Int :=
  let n := if i + 30 >= 55 then i + 30 - 55 else i + 30
  sa.set i (fixNeg (wrap32 (sa.getD i 0 - sa.getD (1 + n) 0)))

/-- `for i in 1..56` -/
def mixRound (sa : List Int) : List Int := (List.range' 1 55).foldl mixStep sa

/-- `subtraction`: `if seed == i32::MIN { i32::MAX } else { i32::abs(seed) }` -/
def subtraction (seed : Int) : Int := if seed = i32Min then i32Max else seed.natAbs

/-- `CompatPrng::initialize` from `mj = 161_803_398 - subtraction` on. -/
def Csharp.ofMj (mj : Int) : Csharp :=
  let sa := (List.replicate 56 (0 : Int)).set 55 mj
  let sa := initFill 54 sa mj 1 0
  let sa := mixRound (mixRound (mixRound (mixRound sa)))
  { sa := sa, inext := 0, inextp := 21 }

/-- `CompatPrng::initialize(seed)` for `seed : i32`. -/
def Csharp.new (seed : Int) : Csharp := Csharp.ofMj (161803398 - subtraction seed)

/-- `internal_sample` -/
def Csharp.internalSample (s : Csharp) : Int × Csharp :=
  let locInext := if s.inext + 1 >= 56 then 1 else s.inext + 1
  let locInextp := if s.inextp + 1 >= 56 then 1 else s.inextp + 1
  let r := s.sa.getD locInext.toNat 0 - s.sa.getD locInextp.toNat 0
  let r := if r = i32Max then r - 1 else r
  let r := if r < 0 then r + i32Max else r
  (r, { sa := s.sa.set locInext.toNat r, inext := locInext, inextp := locInextp })

/-- `next()` -/
def Csharp.next (s : Csharp) : Int × Csharp := s.internalSample

/-- Exact `next_max`: `trunc((sample / i32::MAX) * max)`. -/
def nextMaxExact (sample max : Int) : Int := Int.tdiv (sample * max) i32Max

/-- `next_max(max)` with the f64 operations of the code:
`(f64::from(internal_sample()) * (1.0 / f64::from(i32::MAX)) * f64::from(max)) as i32`. -/
def Csharp.nextMaxF (s : Csharp) (max : Int) : Int × Csharp :=
  let (r, s') := s.internalSample
  ((Float.ofInt r * (1.0 / Float.ofInt i32Max) * Float.ofInt max).toInt32.toInt, s')

end Rosu.Rng
