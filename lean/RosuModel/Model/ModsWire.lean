import RosuModel.Model.Mods
import RosuModel.Model.AttrsWire
import RosuModel.Model.Wire

/-!
Driver glue for the `GameMods` model.  Numbers are computed with `Float` (IEEE double, the same
operations in the same order as the Rust code) and printed as bit patterns, so the comparison
with the implementation is exact.
-/
namespace Rosu.Mods
open Rosu.Wire Rosu.Gen.Mods

def hex (n : Nat) : String := String.ofList (Nat.toDigits 16 n)

def fbits (x : Float) : String := hex x.toBits.toNat

def parseMode (s : String) : Mode :=
  if s == "0" then .osu else if s == "1" then .taiko else if s == "2" then .catch else .mania

def parseSpelling (s mode : String) : Spelling :=
  if s == "u32" then .u32 else if s == "legacy" then .legacy else if s == "im" then .intermode
  else if s == "imref" then .intermodeRef else .lazer (parseMode mode)

def showB (b : Bool) : String := if b then "1" else "0"

def showRefl : Reflection → String
  | .none => "0" | .vertical => "1" | .horizontal => "2" | .both => "3"

def showOptF : Option Float → String
  | some x => fbits x
  | none => "-"

def showSnapshot (rep : Rep Float) : String :=
  let flags := hasModRows.map (fun row => s!"{row.1}:{showB (rep.flag row)}")
  s!"cr={fbits (rep.clockRate numF)} mult={fbits (rep.mult numF)} hro={showB rep.hardrockOffsets} " ++
  s!"nshl={showB (rep.noSliderHeadAcc true)} nshs={showB (rep.noSliderHeadAcc false)} " ++
  s!"refl={showRefl rep.reflection} keys={showOptF (rep.maniaKeys.map (·.f))} scroll=- seed=- " ++
  s!"ar={showOptF rep.ar} cs={showOptF rep.cs} hp={showOptF rep.hp} od={showOptF rep.od} " ++
  s!"flags={joinWith "," flags}"

/-- `MODS <spelling> <mode> <bits>` -/
def handleMods (sp mode bits : String) : String :=
  showSnapshot (spell Float (parseSpelling sp mode) (nat! bits))

/-- `ORD <mode|-> <bits>`: iteration order (acronyms) of the intermode set / of the lazer set -/
def handleOrd (mode bits : String) : String :=
  let s := fromBits (nat! bits)
  let l := if mode == "-" then imIter s else (withMode (R := Float) (parseMode mode) s).map (·.kind)
  "ord=" ++ joinWith "," (l.map IMod.acronym)

def parseOptFloat (s : String) : Option Float :=
  if s == "-" then none else some (Float.ofBits (UInt64.ofNat (Attrs.hexNat s)))

def rateKind (s : String) : IMod :=
  if s == "DT" then .DoubleTime else if s == "HT" then .HalfTime
  else if s == "NC" then .Nightcore else .Daycore

/-- `LAZER <mode> <bits> <rate kind|-> <speed|-> <ar> <cs> <hp> <od>`: lazer mods of `bits` with
default settings, plus an optional rate mod with `speed_change`, plus an optional
DifficultyAdjust mod (present when any of the four values is given). -/
def handleLazer (mode bits kind speed ar cs hp od : String) : String :=
  let md := parseMode mode
  let l0 : List (LMod Float) := withMode md (fromBits (nat! bits))
  let l1 := if kind == "-" then l0 else insertL { kind := rateKind kind, speed := parseOptFloat speed } l0
  let l2 :=
    if ar == "-" && cs == "-" && hp == "-" && od == "-" then l1
    else insertL { kind := .DifficultyAdjust, ar := parseOptFloat ar, cs := parseOptFloat cs,
                   hp := parseOptFloat hp, od := parseOptFloat od } l1
  showSnapshot (.lazer md l2)

/-- `GCR <mode> <bits> <rate kind|-> <speed|-> <clock_rate|->`: `Difficulty::get_clock_rate` -/
def handleGcr (mode bits kind speed clock : String) : String :=
  let md := parseMode mode
  let l0 : List (LMod Float) := withMode md (fromBits (nat! bits))
  let l1 := if kind == "-" then l0 else insertL { kind := rateKind kind, speed := parseOptFloat speed } l0
  let d : Diff Float := { mods := .lazer md l1, clockRate := parseOptFloat clock }
  "gcr=" ++ fbits (d.getClockRate numF)

end Rosu.Mods
