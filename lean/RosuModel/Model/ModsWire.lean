import RosuModel.Model.Mods
import RosuModel.Model.AttrsWire
import RosuModel.Model.Wire

/-!
Driver glue for the `GameMods` model.  Numbers are computed with `Float` (IEEE double, the same
operations in the same order as the Rust code) and printed as bit patterns, so the comparison
with the implementation is exact.
-/
namespace Rosu.Mods
open Rosu.Wire Rosu.Gen.Mods

def hex (n : Nat) : String := String.ofList (Nat.toDigits 16 n)

def fbits (x : Float) : String := hex x.toBits.toNat

def parseMode (s : String) : Mode :=
  if s == "0" then .osu else if s == "1" then .taiko else if s == "2" then .catch else .mania

def parseSpelling (s mode : String) : Spelling :=
  if s == "u32" then .u32 else if s == "legacy" then .legacy else if s == "im" then .intermode
  else if s == "imref" then .intermodeRef else .lazer (parseMode mode)

def showB (b : Bool) : String := if b then "1" else "0"

def showRefl : Reflection → String
  | .none => "0" | .vertical => "1" | .horizontal => "2" | .both => "3"

def showOptF : Option Float → String
  | some x => fbits x
  | none => "-"

def showOptI : Option Int → String
  | some x => toString x
  | none => "-"

def showSnapshot (rep : Rep Float) : String :=
  let flags := hasModRows.map (fun row => s!"{row.1}:{showB (rep.flag row)}")
  s!"cr={fbits (rep.clockRate numF)} mult={fbits (rep.mult numF)} hro={showB rep.hardrockOffsets} " ++
  s!"nshl={showB (rep.noSliderHeadAcc true)} nshs={showB (rep.noSliderHeadAcc false)} " ++
  s!"refl={showRefl rep.reflection} keys={showOptF (rep.maniaKeys.map (·.f))} scroll={showOptF rep.scrollSpeed} seed={showOptI rep.randomSeed} " ++
  s!"ar={showOptF rep.ar} cs={showOptF rep.cs} hp={showOptF rep.hp} od={showOptF rep.od} " ++
  s!"flags={joinWith "," flags}"

/-- `MODS <spelling> <mode> <bits>` -/
def handleMods (sp mode bits : String) : String :=
  showSnapshot (spell Float (parseSpelling sp mode) (nat! bits))

/-- `ORD <mode|-> <bits>`: iteration order (acronyms) of the intermode set / of the lazer set -/
def handleOrd (mode bits : String) : String :=
  let s := fromBits (nat! bits)
  let l := if mode == "-" then imIter s else (withMode (R := Float) (parseMode mode) s).map (·.kind)
  "ord=" ++ joinWith "," (l.map IMod.acronym)

def parseOptFloat (s : String) : Option Float :=
  if s == "-" then none else some (Float.ofBits (UInt64.ofNat (Attrs.hexNat s)))

def rateKind (s : String) : IMod :=
  if s == "DT" then .DoubleTime else if s == "HT" then .HalfTime
  else if s == "NC" then .Nightcore else .Daycore

/-- `LAZER <mode> <bits> <rate kind|-> <speed|-> <ar> <cs> <hp> <od>`: lazer mods of `bits` with
default settings, plus an optional rate mod with `speed_change`, plus an optional
DifficultyAdjust mod (present when any of the four values is given). -/
def handleLazer (mode bits kind speed ar cs hp od : String) : String :=
  let md := parseMode mode
  let l0 : List (LMod Float) := withMode md (fromBits (nat! bits))
  let l1 := if kind == "-" then l0 else insertL { kind := rateKind kind, speed := parseOptFloat speed } l0
  let l2 :=
    if ar == "-" && cs == "-" && hp == "-" && od == "-" then l1
    else insertL { kind := .DifficultyAdjust, ar := parseOptFloat ar, cs := parseOptFloat cs,
                   hp := parseOptFloat hp, od := parseOptFloat od } l1
  showSnapshot (.lazer md l2)

/-- `GCR <mode> <bits> <rate kind|-> <speed|-> <clock_rate|->`: `Difficulty::get_clock_rate` -/
def handleGcr (mode bits kind speed clock : String) : String :=
  let md := parseMode mode
  let l0 : List (LMod Float) := withMode md (fromBits (nat! bits))
  let l1 := if kind == "-" then l0 else insertL { kind := rateKind kind, speed := parseOptFloat speed } l0
  let d : Diff Float := { mods := .lazer md l1, clockRate := parseOptFloat clock }
  "gcr=" ++ fbits (d.getClockRate numF)

/-! ### lazer mods with settings (`LZS`) -/

def parseOptBool (s : String) : Option Bool :=
  if s == "1" then some true else if s == "0" then some false else none

/-- the mod with the given acronym (`GameModIntermode::from_acronym`), `Unknown` otherwise -/
def imodOfAcronym (a : String) : IMod :=
  (orderAll.find? (fun m => m.acronym == a)).getD .Unknown

/-- one tag of an `LZS` request:
* `A.<acronym>`            a mod with default settings (as `GameMod::new(acronym, mode)`)
* `CL.<u|0|1>`             `ClassicOsu { no_slider_head_accuracy }`
* `MR.u` / `MR.s<text>`    `MirrorOsu { reflection: None / Some(text) }`
* `DA.<u|0|1>.<-|f64 bits>` `DifficultyAdjust{Catch { hard_rock_offsets }, Taiko { scroll_speed }}`
* `RD.<u|integer>`         `Random{Taiko,Mania} { seed }` -/
def parseTag (t : String) : Option (LMod Float) :=
  match t.splitOn "." with
  | ["A", a] => let k := imodOfAcronym a; if k == .Unknown then none else some { kind := k }
  | ["CL", v] => some { kind := .Classic, nsha := parseOptBool v }
  | ["MR", v] =>
    if v == "u" then some { kind := .Mirror }
    else some { kind := .Mirror, mirror := some (String.ofList (v.toList.drop 1)) }
  | ["DA", h, sc] => some { kind := .DifficultyAdjust, hro := parseOptBool h, scroll := parseOptFloat sc }
  | ["RD", v] => some { kind := .Random, seed := if v == "u" then none else v.toInt? }
  | _ => none

/-- `LZS <mode> <bits> <tags|-> <hardrock_offsets|-> <lazer|->`: the lazer mods of `bits` (default
settings) plus the tagged mods (comma separated, inserted in the order given); then a `Difficulty`
with the two optional setters.  Reports every accessor and the `Difficulty` getters. -/
def handleLzs (mode bits tags hro lz : String) : String :=
  let md := parseMode mode
  let l0 : List (LMod Float) := withMode md (fromBits (nat! bits))
  let ts := if tags == "-" then [] else tags.splitOn ","
  let l := ts.foldl (fun acc t => match parseTag t with
    | some m => insertL m acc
    | none => acc) l0
  let d : Diff Float :=
    { mods := .lazer md l, clockRate := none, hardrockOffsets := parseOptBool hro, lazer := parseOptBool lz }
  showSnapshot d.mods ++
    s!" | ghro={showB d.getHardrockOffsets} glazer={showB d.getLazer} ucsa={showB d.usingClassicSliderAcc} " ++
    s!"mclassic={showB d.maniaClassic}"

/-- `IMS <ref|own> <acronyms|->`: an intermode set given by acronyms, owned or through
`From<&GameModsIntermode>` (`checked_bits`) -/
def handleIms (how acrs : String) : String :=
  let s := (if acrs == "-" then [] else acrs.splitOn ",").map imodOfAcronym
  let rep : Rep Float :=
    if how == "ref" then
      match checkedBits s with
      | some b => .legacy (legacyFromBits b)
      | none => .intermode s
    else .intermode s
  let tag := match rep with | .legacy _ => "legacy" | .intermode _ => "intermode" | .lazer .. => "lazer"
  s!"rep={tag} " ++ showSnapshot rep

end Rosu.Mods
