import RosuModel.Model.Decode

/-
String and number layer under the line parsers of the decoder (core Lean only).

Sources
* rosu-map 0.2.1 `src/util/parse_number.rs` (`ParseNumber::{parse, parse_with_limits}` for i32/f32/f64,
  `MAX_PARSE_VALUE = i32::MAX`), `src/util/str_ext.rs` (`trim_comment`), `src/util/key_value.rs`.
* Rust std: `str::trim/trim_end/trim_start` (Unicode `White_Space`), `str::split(char)`,
  `i32::from_str` (optional `+`/`-`, at least one ASCII digit, range check),
  `f32/f64::from_str` (`core::num::dec2flt`): optional sign, then either
  `digits [. digits] [(e|E) [+|-] digits]` with at least one digit in the integer or fraction part and
  at least one exponent digit when an `e` is present, or case-insensitive `inf` / `infinity` / `nan`;
  no whitespace, no `_`, no hex; the whole input must be consumed.  The decimal exponent accumulator
  saturates (`if exp < 0x10000 { exp = 10*exp + d }`).  The result is the correctly rounded
  (nearest, ties to even) binary32 / binary64 value of the decimal `mant * 10^exp`.

A string is a `List Char` (`Str`).  A float is its IEEE bit pattern (`Nat`); every operation the
parsers perform on floats (`<`, `>`, `is_nan`, unary minus, `-`, `/`, `max`, `clamp`, `as f32`,
`as i32`) is modelled EXACTLY on bit patterns through exact rational arithmetic + nearest-even
rounding (`roundPos`), so model and implementation are compared bit for bit and no Lean `Float` is
involved.
-/
namespace Rosu.DecodeLine
open Rosu.Decode

abbrev Str := List Char

deriving instance DecidableEq for Except

/-! ## strings -/

/-- `char::is_whitespace` (Unicode `White_Space`). -/
def isWs (c : Char) : Bool :=
  let n := c.toNat
  (9 ≤ n && n ≤ 13) || n == 32 || n == 0x85 || n == 0xA0 || n == 0x1680 ||
  (0x2000 ≤ n && n ≤ 0x200A) || n == 0x2028 || n == 0x2029 || n == 0x202F || n == 0x205F ||
  n == 0x3000

def trimStart (s : Str) : Str := s.dropWhile isWs
def trimEnd (s : Str) : Str := (s.reverse.dropWhile isWs).reverse
def trim (s : Str) : Str := trimEnd (trimStart s)

/-- first piece and remaining pieces of `s.split(c)` -/
def splitAux (c : Char) : Str → Str × List Str
  | [] => ([], [])
  | x :: xs =>
    let r := splitAux c xs
    if x = c then ([], r.1 :: r.2) else (x :: r.1, r.2)

/-- `s.split(c).collect()`: always at least one piece. -/
def splitC (c : Char) (s : Str) : List Str := (splitAux c s).1 :: (splitAux c s).2

/-- `s.find("//").map_or(s, |i| &s[..i])` -/
def beforeComment : Str → Str
  | [] => []
  | x :: xs => if x = '/' ∧ xs.head? = some '/' then [] else x :: beforeComment xs

/-- `StrExt::trim_comment` -/
def trimComment (s : Str) : Str := trimEnd (beforeComment s)

/-- `s.split_once(c)` -/
def splitOnce (c : Char) : Str → Option (Str × Str)
  | [] => none
  | x :: xs =>
    if x = c then some ([], xs)
    else match splitOnce c xs with
      | some (a, b) => some (x :: a, b)
      | none => none

def startsWith (p : Str) (s : Str) : Bool := s.take p.length == p

/-! ## integers -/

def digitVal (c : Char) : Option Nat :=
  if 48 ≤ c.toNat ∧ c.toNat ≤ 57 then some (c.toNat - 48) else none

/-- all characters are ASCII digits: the value (`acc` = value so far). -/
def digitsVal (acc : Nat) : Str → Option Nat
  | [] => some acc
  | c :: cs =>
    match digitVal c with
    | some d => digitsVal (acc * 10 + d) cs
    | none => none

/-- `str::parse::<i32>()` (no trimming): `none` = `ParseIntError` of any kind. -/
def parseI32Raw (s : Str) : Option Int :=
  match s with
  | [] => none
  | c :: cs =>
    let neg := c = '-'
    let ds := if c = '-' ∨ c = '+' then cs else s
    match ds with
    | [] => none
    | _ =>
      match digitsVal 0 ds with
      | none => none
      | some v =>
        let n : Int := if neg then -(v : Int) else (v : Int)
        if -2147483648 ≤ n ∧ n ≤ 2147483647 then some n else none

inductive NumErr
  | invalidFloat | invalidInteger | nan | overflow | underflow
deriving Repr, DecidableEq, BEq

/-- `MAX_PARSE_VALUE` -/
def maxParse : Int := 2147483647

/-- `<i32 as ParseNumber>::parse_with_limits(s, limit)` -/
def parseI32Lim (s : Str) (limit : Int) : Except NumErr Int :=
  match parseI32Raw (trim s) with
  | none => .error .invalidInteger
  | some n =>
    if n < -limit then .error .underflow
    else if n > limit then .error .overflow
    else .ok n

/-- `<i32 as ParseNumber>::parse(s)` -/
def parseI32 (s : Str) : Except NumErr Int := parseI32Lim s maxParse

/-- bits of an `i32` as an unsigned 32-bit number (two's complement) -/
def u32OfI32 (n : Int) : Nat := (n % 4294967296).toNat

/-- `(n & flag) != 0` on `i32` -/
def hasFlag (n : Int) (flag : Nat) : Bool := Nat.land (u32OfI32 n) flag != 0

/-! ## binary floating point formats, as bit patterns -/

/-- `p` = precision (with hidden bit), `emin` = minimal normal exponent, `w` = exponent width. -/
structure Fmt where
  p : Nat
  emin : Int
  w : Nat

def F64 : Fmt := ⟨53, -1022, 11⟩
def F32 : Fmt := ⟨24, -126, 8⟩

def Fmt.signBit (F : Fmt) : Nat := 2 ^ (F.p - 1 + F.w)
def Fmt.infBits (F : Fmt) : Nat := (2 ^ F.w - 1) * 2 ^ (F.p - 1)
/-- the canonical quiet NaN (`f64::NAN`) -/
def Fmt.nanBits (F : Fmt) : Nat := F.infBits + 2 ^ (F.p - 2)

def Fmt.mag (F : Fmt) (b : Nat) : Nat := b % F.signBit
def Fmt.isNeg (F : Fmt) (b : Nat) : Bool := b / F.signBit % 2 == 1
def Fmt.isNaN (F : Fmt) (b : Nat) : Bool := decide (F.mag b > F.infBits)
def Fmt.isFinite (F : Fmt) (b : Nat) : Bool := decide (F.mag b < F.infBits)
def Fmt.isZero (F : Fmt) (b : Nat) : Bool := F.mag b == 0
def Fmt.withSign (F : Fmt) (neg : Bool) (m : Nat) : Nat := if neg then F.signBit + m else m
/-- unary minus -/
def Fmt.neg (F : Fmt) (b : Nat) : Nat := F.withSign (!F.isNeg b) (F.mag b)

/-- numeric order key of a non-NaN value: `a < b` (IEEE) iff `num a < num b`; both zeros map to 0. -/
def Fmt.num (F : Fmt) (b : Nat) : Int := if F.isNeg b then -(F.mag b : Int) else (F.mag b : Int)

/-- IEEE `a < b` (false when either is NaN) -/
def Fmt.lt (F : Fmt) (a b : Nat) : Bool := !F.isNaN a && !F.isNaN b && decide (F.num a < F.num b)

/-- Nearest-even rounding of the positive rational `num / den` (`num, den > 0`) to the format, before
the overflow test: exponent field and fraction as one number. -/
def roundCore (F : Fmt) (num den : Nat) : Nat :=
  let b : Int := (num.log2 : Int) - (den.log2 : Int)
  let ge : Bool := if b ≥ 0 then decide (den * 2 ^ b.toNat ≤ num) else decide (den ≤ num * 2 ^ (-b).toNat)
  let e : Int := if ge then b else b - 1            -- floor(log2(num/den))
  let ee : Int := if e < F.emin then F.emin else e
  let s : Int := ee - ((F.p : Int) - 1)             -- exponent of one ulp
  let n := if s ≥ 0 then num else num * 2 ^ (-s).toNat
  let d := if s ≥ 0 then den * 2 ^ s.toNat else den
  let q := n / d
  let r := n % d
  let m := if 2 * r > d ∨ (2 * r = d ∧ q % 2 = 1) then q + 1 else q
  if m < 2 ^ (F.p - 1) then m
  else (ee - F.emin + 1).toNat * 2 ^ (F.p - 1) + (m - 2 ^ (F.p - 1))

/-- Nearest-even rounding of the non-negative rational `num / den` (`den > 0`) to the format: the
magnitude bits (`infBits` on overflow). -/
def roundPos (F : Fmt) (num den : Nat) : Nat :=
  if num = 0 then 0
  else if roundCore F num den ≥ F.infBits then F.infBits else roundCore F num den

/-- finite bit pattern → `(negative, m, e)` with value `±m·2^e` -/
def Fmt.frac (F : Fmt) (b : Nat) : Bool × Nat × Int :=
  let be := F.mag b / 2 ^ (F.p - 1)
  let fr := F.mag b % 2 ^ (F.p - 1)
  if be = 0 then (F.isNeg b, fr, F.emin - ((F.p : Int) - 1))
  else (F.isNeg b, fr + 2 ^ (F.p - 1), (be : Int) - 1 + F.emin - ((F.p : Int) - 1))

/-- round `±m·2^e` to the format -/
def Fmt.ofBin (F : Fmt) (neg : Bool) (m : Nat) (e : Int) : Nat :=
  F.withSign neg (if e ≥ 0 then roundPos F (m * 2 ^ e.toNat) 1 else roundPos F m (2 ^ (-e).toNat))

/-- exact difference `a - b` of two finite values as `d · 2^e`: `(d, e)` -/
def Fmt.subExact (F : Fmt) (a b : Nat) : Int × Int :=
  let fa := F.frac a
  let fb := F.frac b
  let e := if fa.2.2 ≤ fb.2.2 then fa.2.2 else fb.2.2
  let va : Int := (if fa.1 then -1 else 1) * ((fa.2.1 * 2 ^ (fa.2.2 - e).toNat : Nat) : Int)
  let vb : Int := (if fb.1 then -1 else 1) * ((fb.2.1 * 2 ^ (fb.2.2 - e).toNat : Nat) : Int)
  (va - vb, e)

/-- IEEE `a - b` on finite values -/
def Fmt.sub (F : Fmt) (a b : Nat) : Nat :=
  if (F.subExact a b).1 = 0 then
    (if F.isNeg a && !F.isNeg b && F.mag a == 0 && F.mag b == 0 then F.signBit else 0)
  else F.ofBin (decide ((F.subExact a b).1 < 0)) (F.subExact a b).1.natAbs (F.subExact a b).2

/-- IEEE `a / b` on finite values, `b ≠ 0` -/
def Fmt.div (F : Fmt) (a b : Nat) : Nat :=
  let fa := F.frac a
  let fb := F.frac b
  let e := fa.2.2 - fb.2.2
  F.withSign (fa.1 != fb.1)
    (if e ≥ 0 then roundPos F (fa.2.1 * 2 ^ e.toNat) fb.2.1 else roundPos F fa.2.1 (fb.2.1 * 2 ^ (-e).toNat))

/-- `a.max(b)` on non-NaN values (which zero is returned for `±0` is not specified by Rust; the
correspondence normalises derived zeros) -/
def Fmt.max (F : Fmt) (a b : Nat) : Nat := if F.lt a b then b else a

/-- `x.clamp(lo, hi)`: `if x < lo {lo} else if x > hi {hi} else {x}` (NaN stays NaN) -/
def Fmt.clamp (F : Fmt) (x lo hi : Nat) : Nat := if F.lt x lo then lo else if F.lt hi x then hi else x

/-- `x as f32` for an `f64` (nearest even; NaN → NaN, ±inf → ±inf) -/
def f64ToF32 (b : Nat) : Nat :=
  if F64.isNaN b then F32.nanBits
  else if !F64.isFinite b then F32.withSign (F64.isNeg b) F32.infBits
  else let (n, m, e) := F64.frac b; F32.ofBin n m e

/-- `f64::from(x)` for an `f32` (exact) -/
def f32ToF64 (b : Nat) : Nat :=
  if F32.isNaN b then F64.nanBits
  else if !F32.isFinite b then F64.withSign (F32.isNeg b) F64.infBits
  else let (n, m, e) := F32.frac b; F64.ofBin n m e

/-- integer part of the magnitude of a finite value -/
def Fmt.truncMag (F : Fmt) (b : Nat) : Nat :=
  if (F.frac b).2.2 ≥ 0 then (F.frac b).2.1 * 2 ^ (F.frac b).2.2.toNat
  else (F.frac b).2.1 / 2 ^ (-(F.frac b).2.2).toNat

/-- `x as i32` (truncation toward zero, saturating, NaN → 0) -/
def Fmt.toI32 (F : Fmt) (b : Nat) : Int :=
  if F.isNaN b then 0
  else if !F.isFinite b then (if F.isNeg b then -2147483648 else 2147483647)
  else
    let v : Int := if F.isNeg b then -(F.truncMag b : Int) else (F.truncMag b : Int)
    if v < -2147483648 then -2147483648 else if v > 2147483647 then 2147483647 else v

/-! ## the float grammar of `dec2flt` -/

inductive FLit
  /-- `mant * 10^exp`; `nd` = number of mantissa digit characters (so `mant < 10^nd`) -/
  | dec (neg : Bool) (mant : Nat) (exp : Int) (nd : Nat)
  | inf (neg : Bool)
  | nan
deriving Repr

/-- consume ASCII digits: `(value, number of digits, rest)` -/
def takeDigits (acc cnt : Nat) : Str → Nat × Nat × Str
  | [] => (acc, cnt, [])
  | c :: cs =>
    match digitVal c with
    | some d => takeDigits (acc * 10 + d) (cnt + 1) cs
    | none => (acc, cnt, c :: cs)

/-- exponent digits with the saturating accumulator; `none` if a non-digit follows -/
def expDigits (acc : Nat) : Str → Option Nat
  | [] => some acc
  | c :: cs =>
    match digitVal c with
    | some d => expDigits (if acc < 0x10000 then 10 * acc + d else acc) cs
    | none => none

def lower (c : Char) : Char := if 65 ≤ c.toNat ∧ c.toNat ≤ 90 then Char.ofNat (c.toNat + 32) else c

/-- `parse_inf_nan` -/
def infNan (neg : Bool) (s : Str) : Option FLit :=
  let l := s.map lower
  if l = ['n', 'a', 'n'] then some .nan
  else if l = ['i', 'n', 'f'] ∨ l = ['i', 'n', 'f', 'i', 'n', 'i', 't', 'y'] then some (.inf neg)
  else none

/-- `parse_number` after the sign: digits, optional fraction, optional exponent, nothing else. -/
def decimalLit (neg : Bool) (s : Str) : Option FLit :=
  let (m1, n1, r1) := takeDigits 0 0 s
  let (m2, n2, r2) := match r1 with
    | '.' :: r => takeDigits m1 0 r
    | _ => (m1, 0, r1)
  if n1 + n2 = 0 then none else
  match r2 with
  | [] => some (.dec neg m2 (-(n2 : Int)) (n1 + n2))
  | c :: r =>
    if c = 'e' ∨ c = 'E' then
      let (eneg, r') := match r with
        | '-' :: t => (true, t)
        | '+' :: t => (false, t)
        | _ => (false, r)
      match r' with
      | [] => none
      | _ =>
        match expDigits 0 r' with
        | none => none
        | some ex => some (.dec neg m2 (-(n2 : Int) + (if eneg then -(ex : Int) else (ex : Int))) (n1 + n2))
    else none

/-- `str::parse::<f32/f64>()` grammar (no trimming): `none` = `ParseFloatError`. -/
def parseFloatLit (s : Str) : Option FLit :=
  match s with
  | [] => none
  | c :: cs =>
    let neg := c = '-'
    let r := if c = '-' ∨ c = '+' then cs else s
    match r with
    | [] => none
    | _ =>
      match decimalLit neg r with
      | some l => some l
      | none => infNan neg r

/-- correctly rounded magnitude of `mant * 10^exp` (`mant < 10^nd`); the two cut-offs only skip
huge powers where the result is certainly infinite / zero in both formats -/
def decMag (F : Fmt) (mant : Nat) (exp : Int) (nd : Nat) : Nat :=
  if mant = 0 then 0
  else if exp > 330 then F.infBits
  else if (nd : Int) + exp < -330 then 0
  else if exp ≥ 0 then roundPos F (mant * 10 ^ exp.toNat) 1
  else roundPos F mant (10 ^ (-exp).toNat)

def Fmt.ofLit (F : Fmt) : FLit → Nat
  | .nan => F.nanBits
  | .inf neg => F.withSign neg F.infBits
  | .dec neg m e nd => F.withSign neg (decMag F m e nd)

/-- `s.trim().parse::<f>()` -/
def Fmt.parseRaw (F : Fmt) (s : Str) : Option Nat := (parseFloatLit (trim s)).map F.ofLit

/-- `<f as ParseNumber>::parse_with_limits(s, limit)` (`limit` as bits, positive finite) -/
def Fmt.parseLim (F : Fmt) (s : Str) (limit : Nat) : Except NumErr Nat :=
  match F.parseRaw s with
  | none => .error .invalidFloat
  | some n =>
    if F.lt n (F.neg limit) then .error .underflow
    else if F.lt limit n then .error .overflow
    else if F.isNaN n then .error .nan
    else .ok n

/-- `f64::from(MAX_PARSE_VALUE)` = 2147483647.0 -/
def maxParse64 : Nat := 0x41DFFFFFFFC00000
/-- `MAX_PARSE_VALUE as f32` = 2147483648.0 -/
def maxParse32 : Nat := 0x4F000000
/-- `MAX_COORDINATE_VALUE` = 131072 as f64 / f32 -/
def maxCoord64 : Nat := 0x4100000000000000
def maxCoord32 : Nat := 0x48000000

def parseF64 (s : Str) : Except NumErr Nat := F64.parseLim s maxParse64
def parseF32 (s : Str) : Except NumErr Nat := F32.parseLim s maxParse32

/-- `f64::EPSILON` -/
def eps64 : Nat := 0x3CB0000000000000

/-- `FloatExt::not_eq` on finite `f64`: `(a - b).abs() >= EPS` -/
def notEq64 (a b : Nat) : Bool := decide (F64.mag (F64.sub a b) ≥ eps64)
/-- `FloatExt::eq` on finite `f64`: `(a - b).abs() <= EPS` -/
def eq64 (a b : Nat) : Bool := decide (F64.mag (F64.sub a b) ≤ eps64)

/-- inverse of `keyOfBits64` -/
def unkey64 (k : Int) : Nat := if k ≥ 0 then k.toNat else (2 ^ 63 + (-(k + 1)).toNat)

end Rosu.DecodeLine
