import RosuModel.Model.DecodeNum

/-!
`Difficulty::clock_rate` at the bit level: `clock_rate.clamp(0.01, 100.0).to_bits()`, the argument of
`NonZeroU64::new_unchecked` (property C11, theorems in `Props/C11d.lean`). Floats are 64-bit patterns,
`Fmt.clamp` of `Model/DecodeNum.lean` is `f64::clamp`.
-/

namespace Rosu.ClockRate
open Rosu.DecodeLine

/-- `0.01_f64.to_bits()` -/
def loBits : Nat := 0x3F847AE147AE147B
/-- `100.0_f64.to_bits()` -/
def hiBits : Nat := 0x4059000000000000

/-- what the setter stores: `clock_rate.clamp(0.01, 100.0).to_bits()` -/
def clockRateBits (x : Nat) : Nat := F64.clamp x loBits hiBits

/-- `CRB <bits, decimal>` → the stored bits, decimal -/
def handleCRB (x : String) : String :=
  match x.toNat? with
  | some b => if b < 2 ^ 64 then toString (clockRateBits b) else "bad-op"
  | none => "bad-op"

end Rosu.ClockRate
