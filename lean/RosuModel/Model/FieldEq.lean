import RosuModel.Model.Builder

/-
Field-wise agreement of two `Difficulty` values (fields named as in src/any/difficulty/mod.rs).
Kept apart from Model/ReadSet.lean so that the frame lemmas (Lemmas/ReadSet.lean) do not depend on
the generated read-set tables.
-/

namespace Rosu.ReadSet

open Rosu.Builder in
def fieldEq (f : String) (a b : Diff) : Bool :=
  match f with
  | "mods" => a.mods == b.mods
  | "passed_objects" => a.passed == b.passed
  | "clock_rate" => a.clockRate == b.clockRate
  | "ar" => a.ar == b.ar
  | "cs" => a.cs == b.cs
  | "hp" => a.hp == b.hp
  | "od" => a.od == b.od
  | "hardrock_offsets" => a.hrOffsets == b.hrOffsets
  | "lazer" => a.lazer == b.lazer
  | _ => false

open Rosu.Builder in
def agreeOn (fs : List String) (a b : Diff) : Prop := ∀ f ∈ fs, fieldEq f a b = true

end Rosu.ReadSet
