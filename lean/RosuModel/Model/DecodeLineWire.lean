import RosuModel.Model.DecodeBytes
import RosuModel.Model.Wire

/-
Driver glue for the line-level decoder model: request lines → response lines.
Raw lines cross the boundary as `x<hex of the UTF-8 bytes>`, `;`-separated.
-/
namespace Rosu.DecodeLine
open Rosu.Wire Rosu.Decode

def hexVal (c : Char) : Nat :=
  if '0' ≤ c ∧ c ≤ '9' then c.toNat - 48 else if 'a' ≤ c ∧ c ≤ 'f' then c.toNat - 87 else 0

def hexBytes : List Char → List UInt8
  | a :: b :: r => (hexVal a * 16 + hexVal b).toUInt8 :: hexBytes r
  | _ => []

/-- `x<hex>` → the line -/
def unhex (s : String) : Str :=
  match String.fromUTF8? ⟨(hexBytes (s.toList.drop 1)).toArray⟩ with
  | some t => t.toList
  | none => "<bad-utf8>".toList

def unhexLines (s : String) : List Str := (splitList s ";").map unhex

def numErrName : NumErr → String
  | .invalidFloat => "InvalidFloat" | .invalidInteger => "InvalidInteger" | .nan => "NaN"
  | .overflow => "NumberOverflow" | .underflow => "NumberUnderflow"

def errName : Err → String
  | .effectFlags => "EffectFlags" | .eventType => "EventType" | .hitObjectType => "HitObjectType"
  | .hitSoundType => "HitSoundType" | .invalidEventLine => "InvalidEventLine"
  | .invalidRepeatCount => "InvalidRepeatCount" | .invalidTimingPointLine => "InvalidTimingPointLine"
  | .invalidHitObjectLine => "InvalidHitObjectLine" | .mode => "Mode"
  | .number e => "Number:" ++ numErrName e | .timeSignature => "TimeSignature"
  | .timingControlPointNaN => "TimingControlPointNaN" | .unknownHitObjectType => "UnknownHitObjectType"
  | .panic => "PANIC"

def resName : Except Err Unit → String
  | .ok () => "ok"
  | .error e => "E:" ++ errName e

def showL (sep : String) (l : List String) : String := if l.isEmpty then "-" else joinWith sep l

def ptName : Option PT → String
  | none => "n" | some .catmull => "C" | some (.bezier none) => "B"
  | some (.bezier (some k)) => s!"B{k}" | some .linear => "L" | some .perfect => "P"

def cpDump (c : CP) : String := s!"{c.x}.{c.y}.{ptName c.ty}"

def objDump (o : HObj) (snd : Nat) : String :=
  let head := s!"{o.x}/{o.y}/{o.time}/{snd}"
  match o.kind with
  | .circle => "c/" ++ head
  | .slider r len ns cps =>
    let l := match len with | some b => toString b | none => "-"
    s!"s/{head}/{r}/{l}/{showL "." (ns.map toString)}/{showL "_" (cps.map cpDump)}"
  | .spinner d => s!"p/{head}/{d}"
  | .hold d => s!"h/{head}/{d}"

def b01' (b : Bool) : String := if b then "1" else "0"

def bitsOfKey32' (k : Int) : Nat := if k ≥ 0 then k.toNat else (2 ^ 31 + (-(k + 1)).toNat)

def dumpDecoded (d : Decoded) : String :=
  let objs := match d.objects with
    | none => "PANIC"
    | some (os, ss) => showL ";" ((os.zip ss).map fun p => objDump p.1.2 p.2)
  let df := d.diff
  s!"v={d.version} m={d.mode} sl={d.stackLeniency} " ++
  s!"d={bitsOfKey32' df.hp},{bitsOfKey32' df.cs},{bitsOfKey32' df.od},{bitsOfKey32' df.ar},{unkey64 df.sm},{unkey64 df.tr} " ++
  "b=" ++ showL ";" (d.breaks.map fun b => s!"{b.1}:{b.2}") ++ " " ++
  "T=" ++ showL ";" (d.cps.timing.map fun p => s!"{unkey64 p.1}:{p.2}") ++ " " ++
  "D=" ++ showL ";" (d.cps.difficulty.map fun p => s!"{unkey64 p.1}:{p.2.1}:{p.2.2.1}:{b01' p.2.2.2}") ++ " " ++
  "E=" ++ showL ";" (d.cps.effect.map fun p => s!"{unkey64 p.1}:{b01' p.2.1}:{p.2.2}") ++ " " ++
  "O=" ++ objs

def secOfTag (s : String) : Sec :=
  match s with
  | "G" => .general | "D" => .difficulty | "E" => .events | "T" => .timingPoints | "H" => .hitObjects
  | _ => .editor

/-- `DLN <sec> <mode> <lines>`: the lines through ONE parser on a fresh state (version 14, given
mode): per-line result codes, then the dump of `Beatmap::from(state)`. -/
def handleDLN (sec mode lines : String) : String :=
  let sc := secOfTag sec
  let st0 : BState := { BState.init 14 with mode := nat! mode }
  let (st, codes) := (unhexLines lines).foldl
    (fun (acc : BState × List String) l =>
      let r := stepLine sc acc.1 l
      (r.1, acc.2 ++ [resName r.2])) (st0, [])
  showL "," codes ++ " " ++ dumpDecoded (finish st)

/-- `DFILE <lines>`: whole-file decode -/
def handleDFILE (lines : String) : String := dumpDecoded (decodeFile (unhexLines lines))

/-- `DNUM <kind> <string>`: the number parsers -/
def handleDNUM (kind s : String) : String :=
  let str := unhex s
  let showN (r : Except NumErr Nat) : String :=
    match r with | .ok b => s!"ok:{b}" | .error e => "E:" ++ numErrName e
  match kind with
  | "i32" => (match parseI32 str with | .ok v => s!"ok:{v}" | .error e => "E:" ++ numErrName e)
  | "raw" => (match parseI32Raw str with | some v => s!"ok:{v}" | none => "E")
  | "f64" => showN (parseF64 str)
  | "f32" => showN (parseF32 str)
  | "c64" => showN (F64.parseLim str maxCoord64)
  | "c32" => showN (F32.parseLim str maxCoord32)
  | "r64" => (match F64.parseRaw str with
      | some b => if F64.isNaN b then "ok:nan" else s!"ok:{b}" | none => "E")
  | "r32" => (match F32.parseRaw str with
      | some b => if F32.isNaN b then "ok:nan" else s!"ok:{b}" | none => "E")
  | _ => "bad-kind"

/-- `DBYTES x<hex>`: `Beatmap::from_bytes` on raw bytes through the modelled reader -/
def handleDBYTES (s : String) : String :=
  match fromBytes (hexBytes (s.toList.drop 1)) with
  | none => "ioerr"
  | some d => dumpDecoded d

def hexDigit (n : Nat) : Char := if n < 10 then Char.ofNat (48 + n) else Char.ofNat (87 + n)

def hexOf (s : Str) : String :=
  "x" ++ String.ofList ((String.ofList s).toUTF8.toList.flatMap fun b =>
    [hexDigit (b.toNat / 16), hexDigit (b.toNat % 16)])

def secTag : Sec → String
  | .general => "General" | .editor => "Editor" | .metadata => "Metadata" | .difficulty => "Difficulty"
  | .events => "Events" | .timingPoints => "TimingPoints" | .colors => "Colors"
  | .hitObjects => "HitObjects" | .variables => "Variables" | .catchTheBeat => "CatchTheBeat"
  | .mania => "Mania"

/-- `DROUTE <lines>`: the version handed to `DecodeState::create` and the (section, line) pairs
that reach a `parse_*` method, in order -/
def handleDROUTE (lines : String) : String :=
  let ls := readerLines (unhexLines lines)
  let (v, rest) := parseVersion ls
  let r := match firstSection rest with
    | none => []
    | some (sec, body) => route sec body
  s!"{v.getD 14} " ++ showL ";" (r.map fun p => secTag p.1 ++ ":" ++ hexOf p.2)

end Rosu.DecodeLine
