import RosuModel.Model.ConvCatch
import RosuModel.Model.ConvOsuWire

/-!
# `CCONV` wire: catch `convert_objects` (positions, HR offsets, PRNG consumption), IEEE instance

`CCONV <hr 0/1> <reflect 0/1> <objects>`; objects `;`-separated: `f:x:start` | `s:x:start:lastcp:<nested>`
(nested `/`-separated `kind,x,time`, `-` = none) | `b:<n_bananas>`; floats as hex bit patterns.
Response: per object `<palpables>@<last_pos|n>@<last_start>@x:y:z:w:bitbuf:bitidx` (palpables
`/`-separated `x,xoff,start`), `;`-separated, then `|` and the final sorted list.
-/
namespace Rosu.ConvCatch.Wire
open Rosu.ConvCatch Rosu.Rng Rosu.Stack.Wire Rosu.ConvOsu.Wire

/-- the key `f64::total_cmp` compares -/
def totalKey (x : Float) : Int :=
  let b := x.toBits.toNat
  if b < 9223372036854775808 then (b : Int) else -((b : Int) - 9223372036854775808) - 1

def ieee : CAr Float32 Float where
  add := (· + ·)
  sub := (· - ·)
  neg a := -a
  lt a b := a < b
  le a b := a ≤ b
  abs := Float32.abs
  ofInt := Float32.ofInt
  eps := Float32.ofBits 0x34000000
  timeDiff a b := (a - b).toInt32.toInt
  rand td n :=
    let d : Float := (1.0 / (2147483647.0 + 1.0)) * Float.ofNat n
    let q := Float.ofInt td / 4.0
    let m := if q < 0.0 then 0.0 else q
    let v := (0.0 + d * (m - 0.0)).toInt32.toInt
    let r := Float32.ofInt v
    if (20.0 : Float32) < r then 20.0 else r
  timeLe a b := totalKey a ≤ totalKey b

def parseNested (s : String) : List (Nested Float32 Float) :=
  if s = "-" then [] else (s.splitOn "/").filterMap (fun t =>
    match t.splitOn "," with
    | [k, x, tm] => some ⟨k.toNat?.getD 9, f32 x, f64 tm⟩
    | _ => none)

def parseObj (s : String) : Option (Obj Float32 Float) :=
  match s.splitOn ":" with
  | ["f", x, st] => some (.fruit (f32 x) (f64 st))
  | ["s", x, st, cp, ns] => some (.stream (f32 x) (f64 st) (f32 cp) (parseNested ns))
  | ["b", n] => some (.shower (n.toNat?.getD 0))
  | _ => none

def showPalp (p : Palpable Float32 Float) : String := s!"{h32 p.x},{h32 p.xOffset},{h64 p.start}"

def showList (l : List (Palpable Float32 Float)) : String :=
  if l.isEmpty then "-" else "/".intercalate (l.map showPalp)

def showStep (r : List (Palpable Float32 Float) × St Float32 Float) : String :=
  let lp := match r.2.lastPos with | none => "n" | some p => h32 p
  let g := r.2.rng
  s!"{showList r.1}@{lp}@{h64 r.2.lastStart}@{g.x.toNat}:{g.y.toNat}:{g.z.toNat}:{g.w.toNat}:{g.bitBuf.toNat}:{g.bitIdx}"

def handleCCONV (hr refl objs : String) : String :=
  let os := if objs = "-" then [] else (objs.splitOn ";").map parseObj
  if os.any Option.isNone then "bad-object"
  else
    let os := os.filterMap id
    let steps := convertLoop ieee (hr = "1") ⟨none, 0.0, Osu.new 1337⟩ os
    let final := convertObjects ieee (hr = "1") (refl = "1") 0.0 os
    (if steps.isEmpty then "-" else ";".intercalate (steps.map showStep)) ++ "|" ++ showList final

end Rosu.ConvCatch.Wire
