/-
Executable model of the *bookkeeping* of rosu-pp's gradual difficulty calculators and of
the one-shot `DifficultyValues::calculate` paths they must agree with.

Sources transcribed (statement by statement):
  src/osu/convert.rs            convert_objects (the `inspect` closure with `take -= 1`)
  src/osu/difficulty/mod.rs     DifficultyValues::calculate, create_difficulty_objects
  src/osu/difficulty/gradual.rs OsuGradualDifficulty::{new,next,nth,len}
  src/taiko/difficulty/mod.rs   DifficultyValues::{calculate,create_difficulty_objects}
  src/taiko/difficulty/gradual.rs
  src/catch/attributes.rs       ObjectCountBuilder::{record_fruit,record_droplet,record_tiny_droplets}
  src/catch/difficulty/mod.rs   DifficultyValues::calculate
  src/catch/difficulty/gradual.rs
  src/mania/object.rs           ManiaObject::new (combo / hold-note counting)
  src/mania/difficulty/mod.rs   DifficultyValues::calculate, difficulty
  src/mania/difficulty/gradual.rs

Floating point never enters: the strain skills are an abstract state `S` with an abstract
`process : S → Nat → S` (the argument is the index of the difficulty object handed to
`Skill::process`).  Everything proved about this model holds for every such `S`.

Core Lean only (no Mathlib) so that the driver links as a native executable.
-/

namespace Rosu.Gradual

/-- Abstract strain skills: initial state and `process(curr)` where `curr` is identified by
the index of the difficulty object. -/
structure Skills (S : Type) where
  init : S
  process : S → Nat → S

/-- Outcome of a call that in Rust returns `Option<T>` but may also panic (debug) or wrap
(release) on an unchecked `usize` subtraction. -/
inductive Res (α : Type) where
  | some (a : α)
  | none
  | panic
deriving Repr, DecidableEq

/-- Checked `usize` subtraction. -/
def csub (a b : Nat) : Option Nat := if b ≤ a then some (a - b) else none

/-- Processing the difficulty objects `lo, lo+1, …, lo+k-1` in order. -/
def processFrom {S} (sk : Skills S) (s : S) (lo : Nat) : Nat → S
  | 0 => s
  | k + 1 => processFrom sk (sk.process s lo) (lo + 1) k

/-- Processing the first `k` difficulty objects from the initial state. -/
def processedPrefix {S} (sk : Skills S) (k : Nat) : S := processFrom sk sk.init 0 k

/-! ## osu!standard -/

inductive OsuKind where
  | circle | slider | spinner
deriving Repr, DecidableEq

/-- What the counting code reads of an `OsuObject`. -/
structure OsuObj where
  kind : OsuKind
  /-- `slider.large_tick_count()` -/
  largeTicks : Nat
  /-- `slider.nested_objects.len()` -/
  nested : Nat
deriving Repr, DecidableEq

structure OsuCounts where
  maxCombo : Nat
  nCircles : Nat
  nSliders : Nat
  nLargeTicks : Nat
  nSpinners : Nat
deriving Repr, DecidableEq

def OsuCounts.zero : OsuCounts := ⟨0, 0, 0, 0, 0⟩

/-- Body shared by `convert_objects`' inspect closure and `increment_combo`. -/
def OsuCounts.incr (c : OsuCounts) (h : OsuObj) : OsuCounts :=
  match h.kind with
  | .circle => { c with maxCombo := c.maxCombo + 1, nCircles := c.nCircles + 1 }
  | .slider => { c with maxCombo := c.maxCombo + 1 + h.nested, nSliders := c.nSliders + 1,
                        nLargeTicks := c.nLargeTicks + h.largeTicks }
  | .spinner => { c with maxCombo := c.maxCombo + 1, nSpinners := c.nSpinners + 1 }

/-- `convert_objects`: the `inspect` closure, literally (`if take == 0 { return }; take -= 1; …`). -/
def osuConvertStep (st : Nat × OsuCounts) (h : OsuObj) : Nat × OsuCounts :=
  if st.1 = 0 then st else (st.1 - 1, st.2.incr h)

def osuConvertCount (objs : List OsuObj) (take : Nat) : OsuCounts :=
  (objs.foldl osuConvertStep (take, OsuCounts.zero)).2

/-- `create_difficulty_objects`: one object per hit object after the first, none if there is no
first object or `take == 0`. -/
def osuDiffLen (n take : Nat) : Nat := if n = 0 ∨ take = 0 then 0 else n - 1

/-- One-shot `DifficultyValues::calculate` with `passed_objects = take`
(`take` is `usize::MAX` when unset; any `take ≥ n` behaves alike). -/
def osuOneShot {S} (sk : Skills S) (objs : List OsuObj) (take : Nat) : OsuCounts × S :=
  let n := objs.length
  let takeDiff := (min n take) - 1          -- `cmp::min(len, take).saturating_sub(1)`
  (osuConvertCount objs take, processedPrefix sk (min takeDiff (osuDiffLen n take)))

structure OsuGrad (S : Type) where
  idx : Nat
  counts : OsuCounts
  skills : S

/-- `OsuGradualDifficulty::new` (Difficulty without `passed_objects`). -/
def osuNew {S} (sk : Skills S) (objs : List OsuObj) : OsuGrad S :=
  { idx := 0
    counts := match objs.head? with
      | some h => OsuCounts.zero.incr h
      | none => OsuCounts.zero
    skills := sk.init }

/-- `Iterator::next`.  The difficulty object with index `i` has `base = objs[i+1]`, i.e. the
list of bases is `objs.tail`. -/
def osuNext {S} (sk : Skills S) (objs : List OsuObj) (g : OsuGrad S) :
    Option (OsuCounts × S) × OsuGrad S :=
  if g.idx > 0 then
    match objs.tail[g.idx - 1]? with
    | none => (none, g)
    | some base =>
      let g' : OsuGrad S :=
        { idx := g.idx + 1, counts := g.counts.incr base, skills := sk.process g.skills (g.idx - 1) }
      (some (g'.counts, g'.skills), g')
  else if objs.isEmpty then (none, g)
  else
    let g' := { g with idx := g.idx + 1 }
    (some (g'.counts, g'.skills), g')

/-- `ExactSizeIterator::len`: `diff_objects.len() + usize::from(!osu_objects.is_empty()) - idx`,
checked. -/
def osuLen {S} (objs : List OsuObj) (g : OsuGrad S) : Option Nat :=
  csub (objs.tail.length + (if objs.isEmpty then 0 else 1)) g.idx

/-- The `for curr in skip_iter.take(take)` loop: `pos` is the iterator position. -/
def osuNthLoop {S} (sk : Skills S) (bases : List OsuObj) : Nat → Nat → OsuGrad S → OsuGrad S
  | 0, _, g => g
  | k + 1, pos, g =>
    match bases[pos]? with
    | none => g
    | some base =>
      osuNthLoop sk bases k (pos + 1)
        { idx := g.idx + 1, counts := g.counts.incr base, skills := sk.process g.skills pos }

/-- `Iterator::nth` (as fixed by `fix: gradual difficulty nth(n) returns None when fewer than n+1 values
remain`: `take = min(n, len())`; with `n ≥ len()` everything that remains is consumed and the final
`next()` returns `None`). -/
def osuNth {S} (sk : Skills S) (objs : List OsuObj) (g : OsuGrad S) (n : Nat) :
    Res (OsuCounts × S) × OsuGrad S :=
  match osuLen objs g with
  | none => (.panic, g)
  | some len =>
    let skip := g.idx - 1                    -- `self.idx.saturating_sub(1)`
    let take := min n len                    -- `cmp::min(n, self.len())`
    let (g1, take1) := if g.idx = 0 ∧ take > 0 then ({ g with idx := g.idx + 1 }, take - 1) else (g, take)
    let g2 := osuNthLoop sk objs.tail take1 skip g1
    match osuNext sk objs g2 with
    | (some v, g3) => (.some v, g3)
    | (none, g3) => (.none, g3)

/-- `Iterator::nth` before that fix (`take = min(n, len() - 1)`: `nth(n)` with `n ≥ remaining ≥ 1` returned the
last value) — kept only for the counter-witness `C15.osu_nth_contract_fails`. -/
def Old.osuNth {S} (sk : Skills S) (objs : List OsuObj) (g : OsuGrad S) (n : Nat) :
    Res (OsuCounts × S) × OsuGrad S :=
  match osuLen objs g with
  | none => (.panic, g)
  | some len =>
    let skip := g.idx - 1                    -- `self.idx.saturating_sub(1)`
    let take := min n (len - 1)              -- `cmp::min(n, self.len().saturating_sub(1))`
    let (g1, take1) := if g.idx = 0 ∧ take > 0 then ({ g with idx := g.idx + 1 }, take - 1) else (g, take)
    let g2 := osuNthLoop sk objs.tail take1 skip g1
    match osuNext sk objs g2 with
    | (some v, g3) => (.some v, g3)
    | (none, g3) => (.none, g3)

/-! ## osu!taiko

Objects are `Bool`s: `true` for a hit (circle), `false` for a drum roll / swell. -/

/-- `create_difficulty_objects`' `inspect` closure: `(max_combo, n_diff_objects)`. -/
def taikoInspectStep (take : Nat) (st : Nat × Nat) (isHit : Bool) : Nat × Nat :=
  if st.1 < take then (st.1 + (if isHit then 1 else 0), st.2 + 1) else st

/-- Returns `(diff_objects.len(), max_combo, n_diff_objects)` as left by
`create_difficulty_objects`. -/
def taikoCreate (objs : List Bool) (take : Nat) : Nat × Nat × Nat :=
  let (mc, nd) := objs.foldl (taikoInspectStep take) (0, 0)
  if objs.length < 2 then
    -- `let Some(mut last) = hit_objects_iter.next() else { return … }`: only the first
    -- `min(len, 2)` objects were pulled through `inspect`, which is all of them.
    (0, mc, nd)
  else
    (objs.length - 2, mc, if take > 0 ∧ nd > 0 then nd - 1 else nd)

/-- One-shot `DifficultyValues::calculate`: `(max_combo, skills)` (as fixed by `fix: taiko
passed_objects(total hits) and the last gradual value include the drum rolls and swells after the
last hit`: `if take >= total hits { n_diff_objects = diff_objects.objects.len(); }`). -/
def taikoOneShot {S} (sk : Skills S) (objs : List Bool) (take : Nat) : Nat × S :=
  let (dl, mc, nd) := taikoCreate objs take
  let nd' := nd - 1                          -- `n_diff_objects.saturating_sub(1)`
  let nd'' := if take ≥ (objs.filter id).length then dl else nd'
  (mc, processedPrefix sk (min nd'' dl))

/-- One-shot before that fix (`passed_objects(total hits)` stopped at the last hit while the unlimited
calculation went on over the trailing drum rolls / swells) — kept only for the counter-witness
`C02.taiko_trailing_nonhit_fails`. -/
def Old.taikoOneShot {S} (sk : Skills S) (objs : List Bool) (take : Nat) : Nat × S :=
  let (dl, mc, nd) := taikoCreate objs take
  let nd' := nd - 1
  (mc, processedPrefix sk (min nd' dl))

inductive FirstTwoCombos where
  | none | onlyFirst | onlySecond | both
deriving Repr, DecidableEq

def taikoFirstCombos (objs : List Bool) : FirstTwoCombos :=
  match objs.head?, objs.tail.head? with
  | Option.none, _ => .none
  | some false, some false => .none
  | some false, Option.none => .none
  | some true, some false => .onlyFirst
  | some true, Option.none => .onlyFirst
  | some false, some true => .onlySecond
  | some true, some true => .both

structure TaikoGrad (S : Type) where
  idx : Nat
  maxCombo : Nat
  /-- position of `diff_objects_iter` -/
  iterPos : Nat
  skills : S

def taikoNew {S} (sk : Skills S) (_objs : List Bool) : TaikoGrad S :=
  { idx := 0, maxCombo := 0, iterPos := 0, skills := sk.init }

/-- The inner `loop { let curr = iter.next()?; process; if hit { … break } }`.  Difficulty
object `i` has base `objs[i+2]`; `bases = objs.drop 2`.  Returns `none` when the iterator ran
dry (`?`), together with the state mutated so far.  `fuel` bounds the loop by the number of
remaining difficulty objects plus one. -/
def taikoHitLoop {S} (sk : Skills S) (bases : List Bool) :
    Nat → TaikoGrad S → Bool × TaikoGrad S
  | 0, g => (false, g)
  | fuel + 1, g =>
    match bases[g.iterPos]? with
    | none => (false, g)
    | some isHit =>
      let g' := { g with iterPos := g.iterPos + 1, skills := sk.process g.skills g.iterPos }
      if isHit then (true, g') else taikoHitLoop sk bases fuel g'

/-- `FirstTwoCombos::n_hits` (added by the fix `fix: taiko gradual difficulty counts the first two
objects like every other hit`): the number of hits among the first two objects, which have no
difficulty object. -/
def FirstTwoCombos.nHits : FirstTwoCombos → Nat
  | .none => 0
  | .onlyFirst => 1
  | .onlySecond => 1
  | .both => 2

/-- `Iterator::next` up to and including `self.idx += 1` (as fixed by `fix: taiko gradual difficulty counts
the first two objects like every other hit`):
```text
if self.idx >= self.first_combos.n_hits() {
    loop { let curr = self.diff_objects_iter.next()?; …process…;
           if curr.is_hit() { self.attrs.max_combo += 1; break; } }
} else {
    self.attrs.max_combo += 1;          // a hit among the first two objects: nothing to process
}
self.idx += 1;
``` -/
def taikoNextCore {S} (sk : Skills S) (objs : List Bool) (g : TaikoGrad S) :
    Option (Nat × S) × TaikoGrad S :=
  let bases := objs.drop 2
  if g.idx ≥ (taikoFirstCombos objs).nHits then
    match taikoHitLoop sk bases (bases.length + 1) g with
    | (false, g') => (none, g')
    | (true, g') =>
      let g'' := { g' with maxCombo := g'.maxCombo + 1, idx := g'.idx + 1 }
      (some (g''.maxCombo, g''.skills), g'')
  else
    let g' := { g with maxCombo := g.maxCombo + 1, idx := g.idx + 1 }
    (some (g'.maxCombo, g'.skills), g')

/-- The rest of `Iterator::next` (added by `fix: taiko passed_objects(total hits) and the last gradual
value include the drum rolls and swells after the last hit`):
```text
if self.idx == self.total_hits {
    for curr in self.diff_objects_iter.by_ref() { …process… }
}
``` -/
def taikoDrain {S} (sk : Skills S) (objs : List Bool) (g : TaikoGrad S) : TaikoGrad S :=
  let bases := objs.drop 2
  if g.idx = (objs.filter id).length then
    { g with skills := processFrom sk g.skills g.iterPos (bases.length - g.iterPos),
             iterPos := g.iterPos + (bases.length - g.iterPos) }
  else g

/-- `Iterator::next`: `taikoNextCore` (a `None` of the hit loop's `?` returns at once), the drain once the
last hit is reported, then the attributes of the value are computed. -/
def taikoNext {S} (sk : Skills S) (objs : List Bool) (g : TaikoGrad S) :
    Option (Nat × S) × TaikoGrad S :=
  match taikoNextCore sk objs g with
  | (none, g') => (none, g')
  | (some _, g') =>
    let g'' := taikoDrain sk objs g'
    (some (g''.maxCombo, g''.skills), g'')

/-- `len`: `self.total_hits - self.idx`, checked. -/
def taikoLen {S} (objs : List Bool) (g : TaikoGrad S) : Option Nat :=
  csub (objs.filter id).length g.idx

/-- `for _ in 0..take { loop { … self.idx += 1; break } }` of `nth`; `none` when `?` fired. -/
def taikoNthLoop {S} (sk : Skills S) (bases : List Bool) : Nat → TaikoGrad S → Bool × TaikoGrad S
  | 0, g => (true, g)
  | k + 1, g =>
    match taikoHitLoop sk bases (bases.length + 1) g with
    | (false, g') => (false, g')
    | (true, g') => taikoNthLoop sk bases k { g' with maxCombo := g'.maxCombo + 1, idx := g'.idx + 1 }

/-- `Iterator::nth` (as fixed); `len()` is checked — `.panic` = `total_hits - idx` would underflow
(it never does: `C15.taiko_never_panics`).
```text
let mut take = cmp::min(n, self.len());
while take > 0 && self.idx < self.first_combos.n_hits() {
    take -= 1; self.idx += 1; self.attrs.max_combo += 1;
}
for _ in 0..take { loop { … } }
self.next()
``` -/
def taikoNth {S} (sk : Skills S) (objs : List Bool) (g : TaikoGrad S) (n : Nat) :
    Res (Nat × S) × TaikoGrad S :=
  match taikoLen objs g with
  | none => (.panic, g)
  | some len =>
    let take := min n len
    let skip := min take ((taikoFirstCombos objs).nHits - g.idx)
    let g1 := { g with idx := g.idx + skip, maxCombo := g.maxCombo + skip }
    match taikoNthLoop sk (objs.drop 2) (take - skip) g1 with
    | (false, g2) => (.none, g2)
    | (true, g2) =>
      match taikoNext sk objs g2 with
      | (some v, g3) => (.some v, g3)
      | (none, g3) => (.none, g3)

/-! ### The machine before the fix (kept only for the counter-witnesses that document the defect)

`TaikoGradualDifficulty::{next, nth}` as they were before `fix: taiko gradual difficulty counts the
first two objects like every other hit`: `idx < 2` was special-cased through `FirstTwoCombos` match
arms that are only right when the first two objects are both hits and a third object exists. -/
namespace Old

def taikoNext {S} (sk : Skills S) (objs : List Bool) (g : TaikoGrad S) :
    Option (Nat × S) × TaikoGrad S :=
  let bases := objs.drop 2
  if g.idx ≥ 2 then
    match taikoHitLoop sk bases (bases.length + 1) g with
    | (false, g') => (none, g')
    | (true, g') =>
      let g'' := { g' with maxCombo := g'.maxCombo + 1, idx := g'.idx + 1 }
      (some (g''.maxCombo, g''.skills), g'')
  else if bases.isEmpty then (none, g)
  else
    let mc :=
      match taikoFirstCombos objs, g.idx with
      | .onlyFirst, _ => 1
      | .onlySecond, 1 => 1
      | .both, 0 => 1
      | .both, 1 => 2
      | _, _ => g.maxCombo
    let g' := { g with maxCombo := mc, idx := g.idx + 1 }
    (some (g'.maxCombo, g'.skills), g')

/-- `usize` subtraction as compiled without overflow checks (release profile): wraps. -/
def wsub (a b : Nat) : Nat := if b ≤ a then a - b else 2 ^ 64 - (b - a)

/-- `Iterator::nth`.  `checked = true` models a build with overflow checks (the subtraction in
`len()` panics), `checked = false` the release profile (it wraps). -/
def taikoNth {S} (sk : Skills S) (objs : List Bool) (g : TaikoGrad S) (n : Nat)
    (checked : Bool := false) : Res (Nat × S) × TaikoGrad S :=
  match (if checked then taikoLen objs g else some (wsub (objs.filter id).length g.idx)) with
  | none => (.panic, g)
  | some len =>
    let take := min n (len - 1)
    let fc := taikoFirstCombos objs
    let (g1, take1) : TaikoGrad S × Nat :=
      if g.idx ≥ 2 ∨ take = 0 then (g, take)
      else if take = 1 ∧ g.idx = 0 then
        ({ g with idx := g.idx + 1,
                  maxCombo := match fc with
                    | .none => g.maxCombo | .onlyFirst => 1 | .onlySecond => g.maxCombo | .both => 1 },
         take - 1)
      else if g.idx = 0 then
        ({ g with idx := g.idx + 2,
                  maxCombo := match fc with
                    | .none => g.maxCombo | .onlyFirst => 1 | .onlySecond => 1 | .both => 2 },
         take - 2)
      else
        ({ g with idx := g.idx + 1,
                  maxCombo := match fc with
                    | .none => g.maxCombo | .onlyFirst => 1 | .onlySecond => 1 | .both => 2 },
         take - 1)
    match taikoNthLoop sk (objs.drop 2) take1 g1 with
    | (false, g2) => (.none, g2)
    | (true, g2) =>
      match taikoNext sk objs g2 with
      | (some v, g3) => (.some v, g3)
      | (none, g3) => (.none, g3)

end Old

/-! ## osu!catch

The converter emits, in generation order, a sequence of events. -/

inductive CatchEvent where
  | fruit
  | droplet
  | tiny (n : Nat)
deriving Repr, DecidableEq

structure CatchCounts where
  fruits : Nat
  droplets : Nat
  tiny : Nat
deriving Repr, DecidableEq

def CatchCounts.zero : CatchCounts := ⟨0, 0, 0⟩

/-- `ObjectCountBuilder::Regular { count, take }`. -/
def catchRegularStep (st : Nat × CatchCounts) : CatchEvent → Nat × CatchCounts
  | .fruit => if st.1 > 0 then (st.1 - 1, { st.2 with fruits := st.2.fruits + 1 }) else st
  | .droplet => if st.1 > 0 then (st.1 - 1, { st.2 with droplets := st.2.droplets + 1 }) else st
  | .tiny n => if st.1 > 0 then (st.1, { st.2 with tiny := st.2.tiny + n }) else st

def catchRegular (evs : List CatchEvent) (take : Nat) : CatchCounts :=
  (evs.foldl catchRegularStep (take, CatchCounts.zero)).2

/-- `GradualObjectCount { fruit, tiny_droplets }`. -/
structure CatchRec where
  fruit : Bool
  tiny : Nat
deriving Repr, DecidableEq

/-- `ObjectCountBuilder::Gradual { count, all }`. -/
def catchGradualStep (st : CatchRec × List CatchRec) : CatchEvent → CatchRec × List CatchRec
  | .fruit => (⟨false, 0⟩, st.2 ++ [{ st.1 with fruit := true }])
  | .droplet => (⟨false, 0⟩, st.2 ++ [st.1])
  | .tiny n => ({ st.1 with tiny := st.1.tiny + n }, st.2)

def catchGradualRecs (evs : List CatchEvent) : List CatchRec :=
  (evs.foldl catchGradualStep (⟨false, 0⟩, [])).2

/-- `CatchDifficultyAttributes::add_object_count`. -/
def CatchCounts.add (c : CatchCounts) (r : CatchRec) : CatchCounts :=
  if r.fruit then { c with fruits := c.fruits + 1, tiny := c.tiny + r.tiny }
  else { c with droplets := c.droplets + 1, tiny := c.tiny + r.tiny }

/-- Number of palpable objects = number of fruit/droplet events. -/
def catchPalpable (evs : List CatchEvent) : Nat :=
  (evs.filter fun e => match e with | .tiny _ => false | _ => true).length

/-- One-shot `DifficultyValues::calculate`: difficulty objects are built from
`palpable_objects.iter().take(take)` and all of them are processed. -/
def catchOneShot {S} (sk : Skills S) (evs : List CatchEvent) (take : Nat) : CatchCounts × S :=
  (catchRegular evs take, processedPrefix sk ((min (catchPalpable evs) take) - 1))

structure CatchGrad (S : Type) where
  idx : Nat
  counts : CatchCounts
  skills : S

def catchNew {S} (sk : Skills S) : CatchGrad S := { idx := 0, counts := CatchCounts.zero, skills := sk.init }

/-- `next`.  `recs` is `self.count`, `dl` is `self.diff_objects.len()`.  `self.count[self.idx]`
panics when out of bounds. -/
def catchNext {S} (sk : Skills S) (recs : List CatchRec) (dl : Nat) (g : CatchGrad S) :
    Res (CatchCounts × S) × CatchGrad S :=
  let go (s : S) : Res (CatchCounts × S) × CatchGrad S :=
    match recs[g.idx]? with
    | none => (.panic, g)
    | some r =>
      let g' : CatchGrad S := { idx := g.idx + 1, counts := g.counts.add r, skills := s }
      (.some (g'.counts, g'.skills), g')
  if g.idx > 0 then
    if g.idx - 1 < dl then go (sk.process g.skills (g.idx - 1)) else (.none, g)
  else if recs.isEmpty then (.none, g)
  else go g.skills

def catchLen {S} (recs : List CatchRec) (dl : Nat) (g : CatchGrad S) : Option Nat :=
  csub (dl + (if recs.isEmpty then 0 else 1)) g.idx

/-- The loop of `nth`; `none` when `self.count[self.idx]` would be out of bounds. -/
def catchNthLoop {S} (sk : Skills S) (recs : List CatchRec) (dl : Nat) :
    Nat → Nat → CatchGrad S → Option (CatchGrad S)
  | 0, _, g => some g
  | k + 1, pos, g =>
    if pos < dl then
      match recs[g.idx]? with
      | none => none
      | some r =>
        catchNthLoop sk recs dl k (pos + 1)
          { idx := g.idx + 1, counts := g.counts.add r, skills := sk.process g.skills pos }
    else some g

def catchNth {S} (sk : Skills S) (recs : List CatchRec) (dl : Nat) (g : CatchGrad S) (n : Nat) :
    Res (CatchCounts × S) × CatchGrad S :=
  match catchLen recs dl g with
  | none => (.panic, g)
  | some len =>
    let skip := g.idx - 1
    let take := min n len
    let first : Option (CatchGrad S × Nat) :=
      if g.idx = 0 ∧ take > 0 then
        match recs[g.idx]? with
        | none => none
        | some r => some ({ g with idx := g.idx + 1, counts := g.counts.add r }, take - 1)
      else some (g, take)
    match first with
    | none => (.panic, g)
    | some (g1, take1) =>
      match catchNthLoop sk recs dl take1 skip g1 with
      | none => (.panic, g1)
      | some g2 => catchNext sk recs dl g2

/-! ## osu!mania -/

/-- What the counting code reads of a mania hit object. -/
structure ManiaObj where
  isCircle : Bool
  /-- combo added by `ManiaObject::new`: `1 + (duration / 100) as u32` (1 for a circle). Since
  /repo 1b784a7 the gradual calculator stores exactly this value per object (`objects_combo`,
  read off `ObjectParams::max_combo` while the objects are created) instead of recomputing it
  from the difficulty object's clock-rate-scaled times. -/
  incOne : Nat
deriving Repr, DecidableEq

structure ManiaCounts where
  maxCombo : Nat
  nObjects : Nat
  nHoldNotes : Nat
deriving Repr, DecidableEq

/-- One-shot: `.map(ManiaObject::new).take(take)` is lazy, so `params` only sees the first
`min(take, len)` objects; `n_objects = min(take, len)`. -/
def maniaOneShot {S} (sk : Skills S) (objs : List ManiaObj) (take : Nat) : ManiaCounts × S :=
  let seen := objs.take take
  ({ maxCombo := (seen.map (·.incOne)).sum
     nObjects := min take objs.length
     nHoldNotes := (seen.filter (fun o => !o.isCircle)).length },
   processedPrefix sk (seen.length - 1))

structure ManiaGrad (S : Type) where
  idx : Nat
  currCombo : Nat
  nHoldNotes : Nat
  skills : S

/-- `increment_combo(is_circle, combo, state)`: `curr_combo += combo; if !is_circle { n_hold_notes += 1 }` -/
def ManiaGrad.incr {S} (g : ManiaGrad S) (o : ManiaObj) : ManiaGrad S :=
  if o.isCircle then { g with currCombo := g.currCombo + o.incOne }
  else { g with currCombo := g.currCombo + o.incOne, nHoldNotes := g.nHoldNotes + 1 }

def maniaNew {S} (sk : Skills S) (objs : List ManiaObj) : ManiaGrad S :=
  let g : ManiaGrad S := { idx := 0, currCombo := 0, nHoldNotes := 0, skills := sk.init }
  match objs.head? with
  | some o => g.incr o
  | none => g

def maniaOut {S} (g : ManiaGrad S) : ManiaCounts × S :=
  ({ maxCombo := g.currCombo, nObjects := g.idx, nHoldNotes := g.nHoldNotes }, g.skills)

/-- `next`: `self.objects_is_circle[self.idx]` panics out of bounds. -/
def maniaNext {S} (sk : Skills S) (objs : List ManiaObj) (g : ManiaGrad S) :
    Res (ManiaCounts × S) × ManiaGrad S :=
  if g.idx > 0 then
    if g.idx - 1 < objs.length - 1 then
      match objs[g.idx]? with
      | none => (.panic, g)
      | some o =>
        let g' := { (g.incr o) with idx := g.idx + 1, skills := sk.process g.skills (g.idx - 1) }
        (.some (maniaOut g'), g')
    else (.none, g)
  else if objs.isEmpty then (.none, g)
  else
    let g' := { g with idx := g.idx + 1 }
    (.some (maniaOut g'), g')

def maniaLen {S} (objs : List ManiaObj) (g : ManiaGrad S) : Option Nat :=
  csub ((objs.length - 1) + (if objs.isEmpty then 0 else 1)) g.idx

/-- `diff_objects.iter().zip(objects_is_circle.iter().skip(1)).skip(..).take(take)`. -/
def maniaNthLoop {S} (sk : Skills S) (bases : List ManiaObj) : Nat → Nat → ManiaGrad S → ManiaGrad S
  | 0, _, g => g
  | k + 1, pos, g =>
    match bases[pos]? with
    | none => g
    | some o =>
      maniaNthLoop sk bases k (pos + 1)
        { (g.incr o) with idx := g.idx + 1, skills := sk.process g.skills pos }

def maniaNth {S} (sk : Skills S) (objs : List ManiaObj) (g : ManiaGrad S) (n : Nat) :
    Res (ManiaCounts × S) × ManiaGrad S :=
  match maniaLen objs g with
  | none => (.panic, g)
  | some len =>
    let skip := g.idx - 1
    let take := min n len
    let (g1, take1) := if g.idx = 0 ∧ take > 0 then ({ g with idx := g.idx + 1 }, take - 1) else (g, take)
    let g2 := maniaNthLoop sk objs.tail take1 skip g1
    maniaNext sk objs g2

end Rosu.Gradual

/-! ## Operation sequences (the iterator protocol) -/

namespace Rosu.Gradual

/-- A gradual calculator seen as a state machine. -/
structure Machine (St V : Type) where
  next : St → Res V × St
  nth : St → Nat → Res V × St
  len : St → Option Nat

inductive Op where
  | next
  | nth (k : Nat)
  | len
deriving Repr, DecidableEq

inductive Out (V : Type) where
  | val (r : Res V)
  | len (l : Option Nat)

def Machine.step {St V} (m : Machine St V) (st : St) : Op → Out V × St
  | .next => let r := m.next st; (.val r.1, r.2)
  | .nth k => let r := m.nth st k; (.val r.1, r.2)
  | .len => (.len (m.len st), st)

def Machine.run {St V} (m : Machine St V) : St → List Op → List (Out V) × St
  | st, [] => ([], st)
  | st, op :: ops =>
    let r := m.step st op
    let rs := m.run r.2 ops
    (r.1 :: rs.1, rs.2)

/-- State after an operation sequence. -/
def Machine.exec {St V} (m : Machine St V) (st : St) (ops : List Op) : St := (m.run st ops).2

/-- `k` calls of `next`: all results. -/
def Machine.nexts {St V} (m : Machine St V) : St → Nat → List (Res V) × St
  | st, 0 => ([], st)
  | st, k + 1 =>
    let r := m.next st
    let rs := m.nexts r.2 k
    (r.1 :: rs.1, rs.2)

def optToRes {α} : Option α → Res α
  | some a => .some a
  | none => .none

def osuMachine {S} (sk : Skills S) (objs : List OsuObj) : Machine (OsuGrad S) (OsuCounts × S) where
  next g := let r := osuNext sk objs g; (optToRes r.1, r.2)
  nth g k := osuNth sk objs g k
  len g := osuLen objs g

/-- The osu! machine before the `nth` fix. -/
def Old.osuMachine {S} (sk : Skills S) (objs : List OsuObj) : Machine (OsuGrad S) (OsuCounts × S) where
  next g := let r := osuNext sk objs g; (optToRes r.1, r.2)
  nth g k := Old.osuNth sk objs g k
  len g := osuLen objs g

def taikoMachine {S} (sk : Skills S) (objs : List Bool) : Machine (TaikoGrad S) (Nat × S) where
  next g := let r := taikoNext sk objs g; (optToRes r.1, r.2)
  nth g k := taikoNth sk objs g k
  len g := taikoLen objs g

/-- The machine before the fix (release profile: `len()` wraps inside `nth`). -/
def Old.taikoMachine {S} (sk : Skills S) (objs : List Bool) : Machine (TaikoGrad S) (Nat × S) where
  next g := let r := Old.taikoNext sk objs g; (optToRes r.1, r.2)
  nth g k := Old.taikoNth sk objs g k
  len g := taikoLen objs g

def catchMachine {S} (sk : Skills S) (recs : List CatchRec) (dl : Nat) :
    Machine (CatchGrad S) (CatchCounts × S) where
  next g := catchNext sk recs dl g
  nth g k := catchNth sk recs dl g k
  len g := catchLen recs dl g

def maniaMachine {S} (sk : Skills S) (objs : List ManiaObj) :
    Machine (ManiaGrad S) (ManiaCounts × S) where
  next g := maniaNext sk objs g
  nth g k := maniaNth sk objs g k
  len g := maniaLen objs g

end Rosu.Gradual
