import RosuModel.Model.PipelinePerf
import RosuModel.Model.PipelinePerfObjs
import RosuModel.Model.PipelineOsuWire
import RosuModel.Model.PipelineCatchWire
import RosuModel.Model.PipelineWire
import RosuModel.Model.FullPerfWire

/-!
# `PIPEP` wire: performance end to end (map path) and gradual performance values, IEEE instances

`PIPEP mania <bytes> <mods> <rate|-> <take|-> <lazer> <prio> <acc|-> <n320> <n300> <n200> <n100> <n50> <misses>
<gradual indices|-> <gradual state n320,n300,n200,n100,n50,misses>` (builder fields `-` = not provided; `acc` = the
stored accuracy bits as in FP lines).  Response: `pp=… diff=… st=<stars> mc= no= nh=` (or `GSPANIC` when
`generate_state` fails, `IOERR` / `NOTMANIA m` / `UNSUPPORTED` / `PANIC` / `FUEL` from the pipeline), then per
gradual index `g<i>.pp= g<i>.diff= g<i>.st= …` or `g<i>=none`.
-/
namespace Rosu.PipelinePerf.Wire
open Rosu.PipelinePerf Rosu.PipelineMania Rosu.PipelineWire Rosu.SkillWire Rosu.GenState Rosu.PerfCalc Rosu.Wire
open Rosu.StrainsWire (fOf hexToNat)

def showManiaPerf (pre : String) (r : GenState.Res (ManiaPerfAttrs Float)) : String :=
  match r with
  | .panic => s!"{pre}GSPANIC"
  | .ok p =>
    s!"{pre}pp={showF p.pp} {pre}diff={showF p.ppDifficulty} {pre}st={showF p.difficulty.stars} {pre}mc={p.difficulty.maxCombo} {pre}no={p.difficulty.nObjects} {pre}nh={p.difficulty.nHoldNotes}"

def showOutWith {α : Type} (o : PipelineMania.Out α) (f : α → String) : String :=
  match o with
  | .ok a => f a
  | .ioError => "IOERR"
  | .notMania m => s!"NOTMANIA {m}"
  | .unsupported => "UNSUPPORTED"
  | .panic => "PANIC"
  | .fuel => "FUEL"

def handlePIPEPmania (args : List String) : String :=
  match args with
  | [bytes, mods, rate, take, lazer, prio, acc, n320, n300, n200, n100, n50, misses, gidx, gstate] =>
    let A := secArith 400.0
    let bs := hexBytes bytes
    let modsN := nat! mods
    let custom := if rate == "-" then none else some (hexToNat rate)
    let tk := if take == "-" then none else some (nat! take)
    let b : ManiaB Float :=
      { acc := optFloat acc, n320 := optNat n320, n300 := optNat n300, n200 := optNat n200, n100 := optNat n100,
        n50 := optNat n50, misses := optNat misses }
    let one := showOutWith (maniaPerfFromMap ieeePrep A driverFuel bs modsN custom tk (bool! lazer) (parsePrio prio) b)
      (showManiaPerf "")
    let gs := if gidx == "-" then [] else (gidx.splitOn ",").map (fun s => s.toNat?.getD 0)
    let st : ManiaState :=
      match natList gstate with
      | [a, b, c, d, e, f] => ⟨a, b, c, d, e, f⟩
      | _ => ⟨0, 0, 0, 0, 0, 0⟩
    let gout := String.join (gs.map fun i =>
      " " ++ showOutWith (maniaGradualPerfValue ieeePrep A driverFuel bs modsN custom (bool! lazer) i st) fun v =>
        match v with
        | none => s!"g{i}=none"
        | some r => showManiaPerf s!"g{i}." r)
    one ++ gout
  | _ => "bad-pipep-mania"

/-! ## taiko

`PIPEP taiko <bytes> <mods> <rate|-> <take|-> <great hit window> <prio> <acc|-> <combo> <n300> <n100> <misses>
<gradual indices|-> <gradual state combo,n300,n100,misses>` → `pp= acc= diff= emc= eur= st= msf= mc=` … -/

def showTaikoPerf (pre : String) (r : GenState.Res (TaikoPerfAttrs Float)) : String :=
  match r with
  | .panic => s!"{pre}GSPANIC"
  | .ok p =>
    s!"{pre}pp={showF p.out.pp} {pre}acc={showF p.out.ppAcc} {pre}diff={showF p.out.ppDifficulty} {pre}emc={showF p.out.effectiveMissCount} {pre}eur={showOptF p.out.estimatedUnstableRate} {pre}st={showF p.difficulty.stars} {pre}msf={showF p.difficulty.monoStaminaFactor} {pre}mc={p.difficulty.maxCombo}"

def showTOutWith {α : Type} (o : Rosu.PipelineTaiko.Out α) (f : α → String) : String :=
  match o with
  | .ok a => f a
  | .ioError => "IOERR"
  | .notTaiko m => s!"NOTTAIKO {m}"
  | .panic => "PANIC"
  | .fuel => "FUEL"

def handlePIPEPtaiko (args : List String) : String :=
  match args with
  | [bytes, mods, rate, take, hw, prio, acc, combo, n300, n100, misses, gidx, gstate] =>
    let A := secArith 400.0
    let bs := hexBytes bytes
    let modsN := nat! mods
    let custom := if rate == "-" then none else some (hexToNat rate)
    let tk := if take == "-" then none else some (nat! take)
    let ghw := fOf (hexToNat hw)
    let b : TaikoB Float :=
      { acc := optFloat acc, combo := optNat combo, n300 := optNat n300, n100 := optNat n100, misses := optNat misses }
    let one := showTOutWith (taikoPerfFromMap ieeeTOps A driverFuel bs modsN custom tk ghw (parsePrio prio) b)
      (showTaikoPerf "")
    let gs := if gidx == "-" then [] else (gidx.splitOn ",").map (fun s => s.toNat?.getD 0)
    let st : TaikoState :=
      match natList gstate with
      | [a, b, c, d] => ⟨a, b, c, d⟩
      | _ => ⟨0, 0, 0, 0⟩
    let gout := String.join (gs.map fun i =>
      " " ++ showTOutWith (taikoGradualPerfValue ieeeTOps A driverFuel bs modsN custom ghw i st) fun v =>
        match v with
        | none => s!"g{i}=none"
        | some r => showTaikoPerf s!"g{i}." r)
    one ++ gout
  | _ => "bad-pipep-taiko"

/-! ## osu!standard (decoded objects)

`PIPEP osu <nf so bl tc lazer nsha> <prio> <acc|-> <combo> <large ticks> <small ticks> <slider ends> <n300> <n100>
<n50> <misses> <gradual state, 8 numbers> <the 17 arguments of a PIPE osu request>` -/

def showOsuPerf (pre : String) (r : GenState.Res (OsuPerfAttrs Float)) : String :=
  match r with
  | .panic => s!"{pre}GSPANIC"
  | .ok p =>
    s!"{pre}pp={showF p.out.pp} {pre}acc={showF p.out.ppAcc} {pre}aim={showF p.out.ppAim} {pre}fl={showF p.out.ppFlashlight} {pre}speed={showF p.out.ppSpeed} {pre}emc={showF p.out.effectiveMissCount} {pre}sd={showOptF p.out.speedDeviation} {pre}st={showF p.difficulty.stars} {pre}mc={p.difficulty.maxCombo} {pre}ns={p.difficulty.nSliders}"

def handlePIPEPosu (args : List String) : String :=
  match args with
  | [extra, prio, acc, combo, lt, stt, se, n300, n100, n50, misses, gstate,
      version, sm, tr, refl, cs, arw, ar, hp, og, ook, om, clock, sl, flags, take, gidx, objs] =>
    let parsed := if objs = "-" then [] else (objs.splitOn ";").map (Rosu.PipelineOsu.Wire.parseObj version sm tr)
    if parsed.any Option.isNone then "bad-object"
    else
      let os := parsed.filterMap id
      match bits flags, bits extra with
      | [td, rx, ap, fl, hd], [nf, so, bl, tc, lazer, nsha] =>
        let f64 := Rosu.Stack.Wire.f64
        let st : Rosu.PipelineOsu.Settings Float :=
          { cs := f64 cs, arWindow := f64 arw, ar := f64 ar, hp := f64 hp, odGreat := f64 og, odOk := f64 ook,
            odMeh := f64 om, clockRate := f64 clock, stackLeniency := f64 sl, version := version.toNat?.getD 0,
            reflection := refl.toNat?.getD 0, mods := { td := td, rx := rx, ap := ap, fl := fl }, hd := hd }
        let x : OsuPerfExtra := ⟨nf, so, bl, tc, lazer, nsha⟩
        let b : OsuB Float :=
          { acc := optFloat acc, combo := optNat combo, largeTickHits := optNat lt, smallTickHits := optNat stt,
            sliderEndHits := optNat se, n300 := optNat n300, n100 := optNat n100, n50 := optNat n50,
            misses := optNat misses }
        let A := Rosu.ConvOsu.Wire.ieee
        let E := Rosu.SliderEvents.floatArith
        let fuel := Rosu.SliderEvents.driverFuel
        let tk := if take == "-" then none else some (nat! take)
        let one := showRes (osuPerfFromMap A E fuel st x tk (parsePrio prio) b os) (showOsuPerf "")
        let gs := if gidx = "-" then [] else (gidx.splitOn ",").map (fun s => s.toNat?.getD 0)
        let s8 : OsuState :=
          match natList gstate with
          | [a, b, c, d, e, f, g, h] => ⟨a, b, c, d, e, f, g, h⟩
          | _ => ⟨0, 0, 0, 0, 0, 0, 0, 0⟩
        let gout := String.join (gs.map fun i =>
          " " ++ showRes (osuGradualPerfValue A E fuel st x i s8 os) fun v =>
            match v with
            | none => s!"g{i}=none"
            | some r => showOsuPerf s!"g{i}." r)
        one ++ gout
      | _, _ => "bad-flags"
  | _ => "bad-pipep-osu"

/-! ## osu!catch (decoded objects)

`PIPEP catch <mods> <acc|-> <combo> <fruits> <droplets> <tiny> <tiny misses> <misses> <gradual state, 6 numbers>
<the 12 arguments of a PIPE catch request>` -/

def showCatchPerf (pre : String) (r : GenState.Res (CatchPerfAttrs Float)) : String :=
  match r with
  | .panic => s!"{pre}GSPANIC"
  | .ok p =>
    s!"{pre}pp={showF p.pp} {pre}st={showF p.difficulty.stars} {pre}nf={p.difficulty.nFruits} {pre}nd={p.difficulty.nDroplets} {pre}nt={p.difficulty.nTinyDroplets}"

def handlePIPEPcatch (args : List String) : String :=
  match args with
  | [mods, acc, combo, fruits, droplets, tiny, tinyMisses, misses, gstate,
      version, sm, tr, hr, refl, cs, ar, clock, conv, take, gidx, objs] =>
    let parsed := if objs = "-" then [] else (objs.splitOn ";").map (Rosu.PipelineCatch.Wire.parseObj version sm tr)
    if parsed.any Option.isNone then "bad-object"
    else
      let os := parsed.filterMap id
      let st : Rosu.PipelineCatch.Settings Float Float32 :=
        ⟨hr = "1", refl = "1", Rosu.Stack.Wire.f32 cs, Rosu.Stack.Wire.f64 ar, Rosu.Stack.Wire.f64 clock, conv = "1"⟩
      let A := Rosu.SliderEvents.floatArith
      let CA := Rosu.ConvCatch.Wire.ieee
      let SA := secArith 750.0
      let b : CatchB Float :=
        { acc := optFloat acc, combo := optNat combo, fruits := optNat fruits, droplets := optNat droplets,
          tiny := optNat tiny, tinyMisses := optNat tinyMisses, misses := optNat misses }
      let tk := if take == "-" then none else some (nat! take)
      let one := showRes (catchPerfFromMap ieeeCasts A CA SA driverFuel 0.0 st (nat! mods) tk b os) (showCatchPerf "")
      let gs := if gidx = "-" then [] else (gidx.splitOn ",").map (fun s => s.toNat?.getD 0)
      let s6 : CatchState :=
        match natList gstate with
        | [a, b, c, d, e, f] => ⟨a, b, c, d, e, f⟩
        | _ => ⟨0, 0, 0, 0, 0, 0⟩
      let gout := String.join (gs.map fun i =>
        " " ++ showRes (catchGradualPerfValue ieeeCasts A CA SA driverFuel 0.0 st (nat! mods) i s6 os)
          (showCatchPerf s!"g{i}."))
      one ++ gout
  | _ => "bad-pipep-catch"

def handlePIPEP (args : List String) : String :=
  match args with
  | "mania" :: rest => handlePIPEPmania rest
  | "taiko" :: rest => handlePIPEPtaiko rest
  | "osu" :: rest => handlePIPEPosu rest
  | "catch" :: rest => handlePIPEPcatch rest
  | _ => "bad-pipep"

end Rosu.PipelinePerf.Wire
