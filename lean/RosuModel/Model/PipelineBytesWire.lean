import RosuModel.Model.PipelineBytes
import RosuModel.Model.PipelineOsuWire
import RosuModel.Model.PipelineCatchWire
import RosuModel.Model.PipelineWire

/-
`PIPE osub` / `PIPE catchb`: the from-bytes pipelines with the IEEE instances.

  PIPE osub <file bytes hex> <reflection> <cs> <ar_window> <ar> <hp> <od_great> <od_ok> <od_meh> <clock>
            <flags td rx ap fl hd> <take|-> <gradual indices|-> <curve inputs>
     curve inputs `;`-separated, one per slider of the sorted object list:
     `<dist, decimal bits>:<lazy end x>:<lazy end y>:<nested x,y slash-separated | ->`
     → the response of `PIPE osu` (every attribute field, gradual values) | IOERR | OTHERMODE m | MISSING
  PIPE catchb <file bytes hex> <hr offsets> <reflect> <cs f32> <ar> <clock> <take|-> <gradual indices|->
            <banana counts ,|-> <curve inputs: `<dist>:<nested x ,|->`>
     → the response of `PIPE catch`
-/
namespace Rosu.PipelineBytes.Wire
open Rosu.PipelineBytes Rosu.SkillOps Rosu.SkillWire Rosu.Stack.Wire Rosu.ConvOsu.Wire Rosu.PerfCalc
open Rosu.StrainsWire (fOf hexToNat)

def ieeeB : BOps Float Float32 where
  dec64 := fOf
  dec32R b := (Float32.ofBits (UInt32.ofNat b)).toFloat
  ofI32 n := (Float.ofInt n).toFloat32
  keyOf x := Rosu.Decode.keyOfBits64 x.toBits.toNat

def parseCurveOsu (s : String) : Option (SliderCurve Float Float32) :=
  match s.splitOn ":" with
  | [dist, lx, ly, ns] =>
    let ps := if ns = "-" then [] else (ns.splitOn "/").map Rosu.PipelineOsu.Wire.parsePos
    if ps.any Option.isNone then none
    else some ⟨Float.ofBits (dist.toNat?.getD 0).toUInt64, ps.filterMap id, (f32 lx, f32 ly)⟩
  | _ => none

def parseCurveCatch (s : String) : Option (SliderCurve Float Float32) :=
  match s.splitOn ":" with
  | [dist, xs] =>
    some ⟨Float.ofBits (dist.toNat?.getD 0).toUInt64,
      (if xs = "-" then [] else (xs.splitOn ",").map fun x => (f32 x, (0.0 : Float32))), (0.0, 0.0)⟩
  | _ => none

def showOutWith {α : Type} (o : Out α) (f : α → String) : String :=
  match o with
  | .ok a => f a
  | .ioError => "IOERR"
  | .otherMode m => s!"OTHERMODE {m}"
  | .missingInputs => "MISSING"
  | .panic => "PANIC"
  | .fuel => "FUEL"

def handlePIPEOB (args : List String) : String :=
  match args with
  | [bytes, refl, cs, arw, ar, hp, og, ook, om, clock, flags, take, gidx, curves] =>
    let parsed := if curves = "-" then [] else (curves.splitOn ";").map parseCurveOsu
    if parsed.any Option.isNone then "bad-curve"
    else
      match bits flags with
      | [td, rx, ap, fl, hd] =>
        let inp : OsuInputs Float :=
          { cs := f64 cs, arWindow := f64 arw, ar := f64 ar, hp := f64 hp, odGreat := f64 og, odOk := f64 ook,
            odMeh := f64 om, clockRate := f64 clock, reflection := refl.toNat?.getD 0,
            mods := { td := td, rx := rx, ap := ap, fl := fl }, hd := hd }
        let A := Rosu.ConvOsu.Wire.ieee
        let E := Rosu.SliderEvents.floatArith
        let fuel := Rosu.SliderEvents.driverFuel
        let bs := Rosu.PipelineWire.hexBytes bytes
        let cv := parsed.filterMap id
        let one := showOutWith (osuDifficultyFromBytes ieeeB A E fuel bs inp (takeOf take) cv)
          (Rosu.PipelineOsu.Wire.showAttrs "")
        let gs := if gidx = "-" then [] else (gidx.splitOn ",").map (fun s => s.toNat?.getD 0)
        let gout := String.join (gs.map fun i =>
          match osuGradualFromBytes ieeeB A E fuel bs inp i cv with
          | .ok (some a) => " " ++ Rosu.PipelineOsu.Wire.showAttrs s!"g{i}." a
          | .ok none => s!" g{i}=none"
          | .fuel => s!" g{i}=FUEL"
          | _ => s!" g{i}=PANIC")
        one ++ gout
      | _ => "bad-flags"
  | _ => "bad-pipe-osub"

def handlePIPECB (args : List String) : String :=
  match args with
  | [bytes, hr, refl, cs, ar, clock, take, gidx, bananas, curves] =>
    let parsed := if curves = "-" then [] else (curves.splitOn ";").map parseCurveCatch
    if parsed.any Option.isNone then "bad-curve"
    else
      let inp : CatchInputs Float Float32 :=
        ⟨hr = "1", refl = "1", f32 cs, f64 ar, f64 clock,
          if bananas = "-" then [] else (bananas.splitOn ",").map fun s => s.toNat?.getD 0⟩
      let A := Rosu.SliderEvents.floatArith
      let CA := Rosu.ConvCatch.Wire.ieee
      let SA := secArith 750.0
      let bs := Rosu.PipelineWire.hexBytes bytes
      let cv := parsed.filterMap id
      let one := showOutWith (catchDifficultyFromBytes ieeeB ieeeCasts A CA SA driverFuel 0.0 bs inp (takeOf take) cv)
        Rosu.PipelineCatch.Wire.showAttrs
      let gs := if gidx = "-" then [] else (gidx.splitOn ",").map (fun s => s.toNat?.getD 0)
      one ++ String.join (gs.map fun i =>
        s!" G{i}=" ++ showOutWith (catchGradualFromBytes ieeeB ieeeCasts A CA SA driverFuel 0.0 bs inp i cv)
          (fun a => match a with
            | some a => s!"{h64 a.stars},{a.nFruits},{a.nDroplets},{a.nTinyDroplets}"
            | none => "none"))
  | _ => "bad-pipe-catchb"

end Rosu.PipelineBytes.Wire
