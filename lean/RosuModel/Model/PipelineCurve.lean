import RosuModel.Model.PipelineBytes
import RosuModel.Model.Curve

/-
The LAST input of the osu! from-bytes pipeline, computed inside the model: `CurveInputs` — per slider
`path.dist()`, the positions of the nested objects in their sorted order and the raw lazy end position —
from the decoded control points and expected distance, by `Model/Curve.lean` (rosu-map's `curve.rs`) and
the slider-event model, exactly as `OsuSlider::new` (`/repo/src/osu/object.rs`) obtains them:

* `path = slider.curve(GameMode::Osu, curve_bufs)` — ONE `CurveBuffers` for the whole map: the stale
  path and the bezier buffers are threaded from slider to slider;
* `path.dist()`;
* per event: tick / repeat `path.position_at(e.path_progress)`, tail `end_path_pos =
  path.position_at(obj_progress_at(1.0))`; then `sort::csharp` by start time (the same insertion rule as
  `PipelineOsu.sortNested`, applied to the (nested, position) pairs);
* `lazy_end_pos = path.position_at(end_time_min)`, `end_time_min = lazy_travel_time / span_duration` folded
  by `if x % 2.0 >= 1.0 { 1.0 - x % 1.0 } else { x % 1.0 }`.

`osuDifficultyFromBytesCurve` is `PipelineBytes.osuDifficultyFromBytes` with that `CurveInputs`: the only
inputs left that do not come from the file are the attribute-builder outputs and the settings.  Core only.
-/
namespace Rosu.PipelineCurve
open Rosu.DecodeLine Rosu.PipelineBytes
open Rosu.SliderEvents (SliderIn osuParams osuNestedOf)

/-- the operations `OsuSlider::new` performs on `f64` besides those of the two arithmetic classes -/
structure FoldOps (R : Type) where
  /-- `x % 1.0` -/
  fmod1 : R → R
  /-- `x % 2.0` -/
  fmod2 : R → R

section
variable {R S : Type}

def splineOf : PT → Rosu.Curve.Spline
  | .catmull => .catmull
  | .bezier _ => .bspline
  | .linear => .linear
  | .perfect => .perfect

/-- `PathControlPoint`s of a decoded slider -/
def controlPoints (O : BOps R S) (cps : List CP) : Array (Rosu.Curve.CP S) :=
  (cps.map fun c => ({ pos := ⟨O.ofI32 c.x, O.ofI32 c.y⟩, ty := c.ty.map splineOf } : Rosu.Curve.CP S)).toArray

/-- `bufs.curve` between two sliders -/
structure Bufs (S : Type) where
  path : Array (Rosu.Curve.Pos S)
  bez : Rosu.Curve.Bez S

def Bufs.empty : Bufs S := ⟨#[], Rosu.Curve.emptyBez⟩

/-- insertion behind every element that is not later: `PipelineOsu.insertNested` on pairs -/
def insertPair (E : Rosu.SliderEvents.Arith R) (x : Rosu.SliderEvents.Nested R × (S × S)) :
    List (Rosu.SliderEvents.Nested R × (S × S)) → List (Rosu.SliderEvents.Nested R × (S × S))
  | [] => [x]
  | y :: ys => if E.lt x.1.time y.1.time then x :: y :: ys else y :: insertPair E x ys

def sortPairs (E : Rosu.SliderEvents.Arith R) (l : List (Rosu.SliderEvents.Nested R × (S × S))) :
    List (Rosu.SliderEvents.Nested R × (S × S)) :=
  l.foldl (fun acc x => insertPair E x acc) []

/-- what went wrong in the curve stage -/
inductive Fail where
  /-- a checked operation of the curve model failed (never: `Props/C05f.curve_new_never_panics`) -/
  | panic
  | fuel
  /-- `SliderEventsIter::new`'s `clamp` assertion (`path.dist() < 0` or NaN) -/
  | clampPanic
deriving DecidableEq, Repr

def ofCurveErr : Rosu.Curve.Err → Fail
  | .fuel => .fuel
  | _ => .panic

/-- One slider: the curve, then everything `OsuSlider::new` reads of it. -/
def sliderCurve (O : BOps R S) (A : Rosu.ConvOsu.Ar R S) (E : Rosu.SliderEvents.Arith R)
    (C : Rosu.Curve.Arith S R) (F : FoldOps R) (fuel : Nat) (d : Decoded) (start repeats : Nat)
    (len : Option Nat) (cps : List CP) (bufs : Bufs S) : Except Fail (SliderCurve R S × Bufs S) :=
  match Rosu.Curve.curveNew C fuel true (controlPoints O cps) (len.map O.dec64) bufs.path bufs.bez with
  | .error e => .error (ofCurveErr e)
  | .ok (c, bez) =>
    let dist := Rosu.Curve.dist C c.lengths
    let s := sliderIn O d start repeats dist
    let p := osuParams E s
    match p.events E fuel with
    | .clampPanic => .error .clampPanic
    | .outOfFuel => .error .fuel
    | .ok evs =>
      let pos (pr : R) : Except Fail (S × S) :=
        match Rosu.Curve.positionAt C c pr with
        | .ok q => .ok (q.x, q.y)
        | .error e => .error (ofCurveErr e)
      let spanCount := E.ofInt s.spans
      -- `obj_progress_at(1.0)`
      let one := E.ofInt 1
      let p1 := F.fmod1 (E.mul one spanCount)
      let spanAt1 := E.toI32 (E.mul one spanCount)
      match pos (if spanAt1.tmod 2 == 1 then E.sub one p1 else p1) with
      | .error e => .error e
      | .ok endPathPos =>
        let pairs : Except Fail (List (Rosu.SliderEvents.Nested R × (S × S))) :=
          evs.foldr (fun e acc =>
            match acc with
            | .error er => .error er
            | .ok l =>
              match osuNestedOf E p e with
              | none => .ok l
              | some n =>
                match n.kind with
                | .tail => .ok ((n, endPathPos) :: l)
                | _ =>
                  match pos e.progress with
                  | .ok q => .ok ((n, q) :: l)
                  | .error er => .error er) (.ok [])
        match pairs with
        | .error e => .error e
        | .ok ps =>
          let sorted := sortPairs E ps
          let nestedPos := sorted.map (·.2)
          let nested := Rosu.PipelineOsu.zipNested (sorted.map (·.1)) nestedPos
          let lazyTime := (Rosu.ConvOsu.lazyTravelTime A s.start (A.subR p.endTime s.start) nested).1
          let etm := E.div lazyTime p.spanDur
          let etm := if E.le one (F.fmod2 etm) then E.sub one (F.fmod1 etm) else F.fmod1 etm
          match pos etm with
          | .error e => .error e
          | .ok lazyEnd =>
            .ok ({ dist := dist, nestedPos := nestedPos, lazyEndRaw := lazyEnd }, { path := c.path, bez := bez })

/-- **`curveInputsOfModel`**: the `CurveInputs` of the decoded (sorted) objects, one entry per slider. -/
def curveInputsOfModel (O : BOps R S) (A : Rosu.ConvOsu.Ar R S) (E : Rosu.SliderEvents.Arith R)
    (C : Rosu.Curve.Arith S R) (F : FoldOps R) (fuel : Nat) (d : Decoded) :
    List HObj → Bufs S → Except Fail (CurveInputs R S)
  | [], _ => .ok []
  | h :: t, bufs =>
    match h.kind with
    | .slider repeats len _ cps =>
      match sliderCurve O A E C F fuel d h.time repeats len cps bufs with
      | .error e => .error e
      | .ok (sc, bufs') =>
        match curveInputsOfModel O A E C F fuel d t bufs' with
        | .error e => .error e
        | .ok l => .ok (sc :: l)
    | _ => curveInputsOfModel O A E C F fuel d t bufs

/-- number of slider lines -/
def nSliders : List HObj → Nat
  | [] => 0
  | h :: t => (match h.kind with | .slider .. => 1 | _ => 0) + nSliders t

variable [Rosu.PerfCalc.PPOps R]

/-- **The osu! pipeline from the bytes of the file, curve included.** -/
def osuDifficultyFromBytesCurve (O : BOps R S) (A : Rosu.ConvOsu.Ar R S)
    (E : Rosu.SliderEvents.Arith R) (C : Rosu.Curve.Arith S R) (F : FoldOps R) (fuel : Nat)
    (bytes : List UInt8) (i : OsuInputs R) (take : Nat) : Out (Rosu.PipelineOsu.Attrs R) :=
  match fromBytes bytes with
  | none => .ioError
  | some d =>
    if d.mode ≠ 0 then .otherMode d.mode
    else
      match d.objects with
      | none => .panic
      | some (objs, _) =>
        match curveInputsOfModel O A E C F fuel d (objs.map (·.2)) Bufs.empty with
        | .error .fuel => .fuel
        | .error _ => .panic
        | .ok curves => osuDifficultyFromBytes O A E fuel bytes i take curves

/-- the `k`-th gradual value, curve included -/
def osuGradualFromBytesCurve (O : BOps R S) (A : Rosu.ConvOsu.Ar R S)
    (E : Rosu.SliderEvents.Arith R) (C : Rosu.Curve.Arith S R) (F : FoldOps R) (fuel : Nat)
    (bytes : List UInt8) (i : OsuInputs R) (k : Nat) : Out (Option (Rosu.PipelineOsu.Attrs R)) :=
  match fromBytes bytes with
  | none => .ioError
  | some d =>
    if d.mode ≠ 0 then .otherMode d.mode
    else
      match d.objects with
      | none => .panic
      | some (objs, _) =>
        match curveInputsOfModel O A E C F fuel d (objs.map (·.2)) Bufs.empty with
        | .error .fuel => .fuel
        | .error _ => .panic
        | .ok curves => osuGradualFromBytes O A E fuel bytes i k curves

end

end Rosu.PipelineCurve
