import RosuModel.Model.Builder
import RosuModel.Model.Wire

namespace Rosu.Builder
open Rosu.Wire

def int! (s : String) : Int := s.toInt?.getD 0

def parseCall (t : String) : String × Arg :=
  match t.splitOn ":" with
  | [n, "m", v] => (n, .mods (nat! v))
  | [n, "n", v] => (n, .nat (nat! v))
  | [n, "x", v] => (n, .num (int! v))
  | [n, "a", v, w] => (n, .attr (int! v) (bool! w))
  | [n, "f", v] => (n, .flag (bool! v))
  | _ => ("?", .nat 0)

def showAttr : Option (Int × Bool) → String
  | none => "-"
  | some (v, w) => s!"{v}/{if w then 1 else 0}"

def showOptNat : Option Nat → String
  | none => "-"
  | some n => toString n

def showOptInt : Option Int → String
  | none => "-"
  | some n => toString n

def showOptFlag : Option Bool → String
  | none => "-"
  | some b => if b then "1" else "0"

def showDiff (d : Diff) : String :=
  s!"mods={d.mods} passed={showOptNat d.passed} rate={showOptInt d.clockRate} ar={showAttr d.ar} cs={showAttr d.cs} hp={showAttr d.hp} od={showAttr d.od} hr={showOptFlag d.hrOffsets} lazer={showOptFlag d.lazer}"

/-- `BLD perf|diff <Mode> <calls>` -/
def handleBld (kind mode calls : String) : String :=
  let cs := (splitList calls ",").map parseCall
  if kind == "perf" then
    showDiff (cs.foldl (fun b c => b.applyPerformance mode c.1 c.2) (PerfB.new 0)).difficulty
  else
    showDiff (cs.foldl (fun d c => d.apply c.1 c.2) Diff.new)

end Rosu.Builder
