import RosuModel.Model.SliderEvents
import RosuModel.Model.Wire

/-
Driver glue for `Model/SliderEvents.lean`: the arithmetic is instantiated with IEEE doubles, which
replays the `f64` computations of `SliderEventsIter`, `OsuSlider::new` and `JuiceStream::new`
operation by operation.  Floats cross the boundary as bit patterns (a NaN as `nan`: its sign and
payload are not specified by IEEE 754 / LLVM constant folding).
-/
namespace Rosu.SliderEvents
open Rosu.Wire Rosu.Gradual

def flt (bits : Nat) : Float := Float.ofBits bits.toUInt64

/-- `f64::min`: if one argument is NaN the other is returned. -/
def fmin (x y : Float) : Float :=
  if x.isNaN then y else if y.isNaN then x else if x < y then x else y

/-- `f64::max`: if one argument is NaN the other is returned. -/
def fmax (x y : Float) : Float :=
  if x.isNaN then y else if y.isNaN then x else if x < y then y else x

/-- `f32::clamp(10.0, 10_000.0)` (a NaN stays NaN). -/
def clamp32 (x : Float32) : Float32 :=
  let x := if x < 10.0 then 10.0 else x
  if x > 10000.0 then 10000.0 else x

/-- `x as i32`: saturating, NaN ↦ 0. -/
def f64ToI32 (x : Float) : Int :=
  if x.isNaN then 0
  else if x <= -2147483648.0 then -2147483648
  else if x >= 2147483647.0 then 2147483647
  else x.toInt64.toInt

/-- IEEE double arithmetic, as `rustc` compiles the operations. -/
def floatArith : Arith Float where
  ofInt n := Float.ofInt n
  neg x := -x
  add x y := x + y
  sub x y := x - y
  mul x y := x * y
  div x y := x / y
  min := fmin
  max := fmax
  lt x y := x < y
  le x y := x <= y
  toI32 := f64ToI32
  clampF32 x := (clamp32 x.toFloat32).toFloat
  inf := Float.ofBits 0x7FF0000000000000

/-- Fuel of the loops in the driver (the loops of the code have none). -/
def driverFuel : Nat := 4000000

def showF (x : Float) : String := if x.isNaN then "nan" else toString x.toBits.toNat

def kindTag : Kind → Nat
  | .head => 0 | .tick => 1 | .rep => 2 | .lastTick => 3 | .tail => 4

def showI (i : Int) : String := if i < 0 then "m" ++ toString i.natAbs else toString i.natAbs

def showEvent (e : Event Float) : String :=
  s!"{kindTag e.kind}:{showI e.span}:{showF e.spanStart}:{showF e.time}:{showF e.progress}"

/-- Order-sensitive 64-bit checksum of strings (FNV-1a over the UTF-8 bytes, `;` between items). -/
def fnv (h : UInt64) (s : String) : UInt64 :=
  s.toUTF8.foldl (fun h b => (h ^^^ b.toUInt64) * 0x100000001b3) h

def checksum (l : List String) : UInt64 :=
  l.foldl (fun h s => fnv (fnv h s) ";") 0xcbf29ce484222325

/-- Count, checksum over all items, and the items themselves when there are at most 48 (else the
first and the last 24). -/
def showLong (l : List String) : String :=
  let n := l.length
  let shown := if n ≤ 48 then l else l.take 24 ++ ["..."] ++ l.drop (n - 24)
  s!"{n}#{(checksum l).toNat}#" ++ (if shown.isEmpty then "-" else joinWith ";" shown)

/-- `SLEV <start> <span_duration> <velocity> <tick_dist> <total_dist> <span_count>` (f64 bits) →
all events of the real iterator. -/
def handleSLEV (start spanDur vel tickDist totalDist spans : String) : String :=
  match sliderEvents floatArith driverFuel (flt (nat! start)) (flt (nat! spanDur)) (flt (nat! vel))
      (flt (nat! tickDist)) (flt (nat! totalDist)) (nat! spans) with
  | .clampPanic => "PANIC"
  | .outOfFuel => "FUEL"
  | .ok l => showLong (l.map showEvent)

def parseSliderIn (version sm tr : String) (fields : List String) : Option (SliderIn Float) :=
  match fields with
  | [start, beatLen, sv, gen, dist, spans] =>
    some { version := nat! version, sliderMultiplier := flt (nat! sm), tickRate := flt (nat! tr),
           start := flt (nat! start), beatLen := flt (nat! beatLen), sv := flt (nat! sv),
           generateTicks := bool! gen, dist := flt (nat! dist), spans := nat! spans }
  | _ => none

def showParams (p : Params Float) : String :=
  s!"{showF p.start}:{showF p.spanDur}:{showF p.velocity}:{showF p.tickDist}:{showF p.totalDist}:{p.spanCount}"

def nestedTag : NestedKind → Nat
  | .rep => 0 | .tail => 1 | .tick => 2

/-- total order of `f64::total_cmp` on bit patterns -/
def totalKey (x : Float) : Int :=
  let b := x.toBits.toNat
  if b < 2 ^ 63 then (b : Int) else -((b : Int) - 2 ^ 63) - 1

/-- Canonical rendering of nested objects: sorted by (`total_cmp` key of the time, kind). The real
`sort::csharp` is unstable, so among equal times the order is not part of the comparison. -/
def showNested (l : List (Nested Float)) : List String :=
  let keyed := l.map fun n => (totalKey n.time, nestedTag n.kind, showF n.time)
  let sorted := keyed.mergeSort fun a b => a.1 < b.1 || (a.1 == b.1 && a.2.1 ≤ b.2.1)
  sorted.map fun (_, k, t) => s!"{k}:{t}"

/-- `OSLD <version> <slider_multiplier> <tick_rate> <start:beat_len:sv:generate_ticks:dist:spans>` →
`<end_time>|<large ticks>|<nested count>|<nested objects, canonical order>`. -/
def handleOSLD (version sm tr slider : String) : String :=
  match parseSliderIn version sm tr (slider.splitOn ":") with
  | none => "bad-slider"
  | some s =>
    let p := osuParams floatArith s
    match p.events floatArith driverFuel with
    | .clampPanic => "PANIC"
    | .outOfFuel => "FUEL"
    | .ok evs =>
      let n := osuNested floatArith p evs
      let o := osuSliderObj floatArith p evs
      s!"{showF p.endTime}|{o.largeTicks}|{o.nested}|" ++ showLong (showNested n)

def showCatchEvent : CatchEvent → String
  | .fruit => "F"
  | .droplet => "D"
  | .tiny n => s!"t{n}"

def parseRawObjs (version sm tr objs : String) : Option (List (RawObj Float)) :=
  (splitList objs ";").foldr (fun o acc =>
    match acc with
    | none => none
    | some l =>
      if o == "c" then some (.circle :: l)
      else if o == "p" then some (.spinner :: l)
      else (parseSliderIn version sm tr (o.splitOn ":")).map fun s => .slider s :: l) (some [])

/-- `JUICE <version> <slider_multiplier> <tick_rate> <objects>` with objects separated by `;`:
`c` (circle: one fruit), `p` (spinner / hold: no record), or a slider
`start:beat_len:sv:generate_ticks:dist:spans` → the gradual records `fruit:tiny_before;…` of the
whole map (`catch::verif::record_sequence`). -/
def handleJUICE (version sm tr objs : String) : String :=
  match parseRawObjs version sm tr objs with
  | none => "bad-slider"
  | some raw =>
    match catchMapEvents floatArith driverFuel raw with
    | .clampPanic => "PANIC"
    | .outOfFuel => "FUEL"
    | .ok evs => showLong ((catchGradualRecs evs).map fun r => s!"{if r.fruit then 1 else 0}:{r.tiny}")

/-- `ONER <osu|catch> <version> <slider_multiplier> <tick_rate> <objects> <take>`: the one-shot
counting model of `Model/Gradual.lean` fed with descriptors computed from the raw slider inputs
(`osuMapObjs` / `catchMapEvents`). -/
def handleONER (mode version sm tr objs take : String) : String :=
  let take := nat! take
  let skills : Skills Unit := ⟨(), fun _ _ => ()⟩
  match parseRawObjs version sm tr objs with
  | none => "bad-slider"
  | some raw =>
    if mode == "osu" then
      match osuMapObjs floatArith driverFuel raw with
      | .clampPanic => "PANIC"
      | .outOfFuel => "FUEL"
      | .ok l =>
        let c := (osuOneShot skills l take).1
        s!"{c.maxCombo}:{c.nCircles}:{c.nSliders}:{c.nLargeTicks}:{c.nSpinners}"
    else if mode == "catch" then
      match catchMapEvents floatArith driverFuel raw with
      | .clampPanic => "PANIC"
      | .outOfFuel => "FUEL"
      | .ok evs =>
        let c := (catchOneShot skills evs take).1
        s!"{c.fruits}:{c.droplets}:{c.tiny}"
    else "bad-mode"

end Rosu.SliderEvents
