import RosuModel.Model.Suspicion

/-!
# C05 wire for `TooSuspicious::new`

* `SUSP <mode> <groups>` — IEEE replay: `mode` 0 osu / 1 taiko / 2 catch / 3 mania; `groups` is `-` (no
  object) or `;`-separated groups `t:k:rep:x:y` (one object) or `t:k:rep:x:y:count:step` (`count` objects, the
  `j`-th with start time `t + (j as f64) * step`, computed in `f64` on both sides).  `t`, `step` = hex bits of
  an `f64`; `x`, `y` = hex bits of an `f32`; `k` = `s` for a slider, anything else otherwise; `rep` decimal.
* `SUSPX <mode> <groups>` — the same over exact integers (`exact Int`): `t`, `x`, `y`, `step` decimal integers.

Response: `ok` or the `Debug` name of the `TooSuspicious` variant.
-/
namespace Rosu.Susp.Wire
open Rosu.Susp

def hexDigit (c : Char) : Nat :=
  if '0' ≤ c ∧ c ≤ '9' then c.toNat - '0'.toNat
  else if 'a' ≤ c ∧ c ≤ 'f' then c.toNat - 'a'.toNat + 10
  else if 'A' ≤ c ∧ c ≤ 'F' then c.toNat - 'A'.toNat + 10
  else 0

def hexNat (s : String) : Nat := s.toList.foldl (fun a c => a * 16 + hexDigit c) 0

def f64 (s : String) : Float := Float.ofBits (UInt64.ofNat (hexNat s))
def f32 (s : String) : Float32 := Float32.ofBits (UInt32.ofNat (hexNat s))
def nat (s : String) : Nat := s.toNat?.getD 0
def int (s : String) : Int := s.toInt?.getD 0

/-- IEEE instance: the same operations as the Rust code (`f64` subtraction and `<`, `f32::abs` and `>`) -/
def floatArith : Arith Float Float32 where
  sub a b := a - b
  lt a b := a < b
  day := 86400000.0
  ms1000 := 1000.0
  ms10000 := 10000.0
  absBeyond v := v.abs > 10000.0

def parseMode (s : String) : Mode :=
  match s with
  | "1" => .taiko
  | "2" => .catch_
  | "3" => .mania
  | _ => .osu

def showVerdict : Verdict → String
  | .ok => "ok"
  | .density => "Density"
  | .length => "Length"
  | .objectCount => "ObjectCount"
  | .redFlag => "RedFlag"
  | .sliderPositions => "SliderPositions"
  | .sliderRepeats => "SliderRepeats"

/-- appends the objects of one group -/
def pushGroup {T P : Type} (pt : String → T) (pp : String → P) (stepTime : T → Nat → T → T)
    (acc : Array (Obj T P)) (g : String) : Array (Obj T P) :=
  match g.splitOn ":" with
  | [t, k, r, x, y] => acc.push ⟨pt t, k == "s", nat r, pp x, pp y⟩
  | [t, k, r, x, y, count, step] =>
    let t0 := pt t
    let st := pt step
    let sl := k == "s"
    let rp := nat r
    let px := pp x
    let py := pp y
    (List.range (nat count)).foldl (fun a j => a.push ⟨stepTime t0 j st, sl, rp, px, py⟩) acc
  | _ => acc

def parseObjs {T P : Type} (pt : String → T) (pp : String → P) (stepTime : T → Nat → T → T) (s : String) :
    List (Obj T P) :=
  if s == "-" then [] else ((s.splitOn ";").foldl (pushGroup pt pp stepTime) #[]).toList

def handleSUSP (mode objs : String) : String :=
  showVerdict (check floatArith (parseMode mode)
    (parseObjs f64 f32 (fun t0 j st => t0 + Float.ofNat j * st) objs))

def handleSUSPX (mode objs : String) : String :=
  showVerdict (check (exact Int) (parseMode mode)
    (parseObjs int int (fun t0 j st => t0 + (j : Int) * st) objs))

end Rosu.Susp.Wire
