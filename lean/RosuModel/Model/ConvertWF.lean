/-
Executable models of the structural parts of mode conversion (core Lean only):

* taiko: the in-place splice loop of `taiko::convert::convert`   — /repo/src/taiko/convert.rs
* mania: `target_columns`                                        — /repo/src/mania/convert/mod.rs
         `ManiaObject::column`                                   — /repo/src/mania/object.rs
         `column_to_pos`                                         — /repo/src/mania/convert/pattern.rs

Floating point: the slider arithmetic of the taiko conversion (`should_convert_slider_to_taiko_hits`,
the tick loop) is a parameter (`TaikoOps`).  The mania column arithmetic is modelled exactly over
integers: object x-positions are integral f32 values (`as i32 as f32` in the decoder, `ceil` in
`column_to_pos`), `x / (512 / total)` is the rational `x * total / 512`.
-/
namespace Rosu.ConvertWF

/-! ## taiko splice loop -/

inductive TaikoKind where
  /-- `Circle | Spinner(_)`: untouched -/
  | plain
  /-- `Slider(_)` -/
  | slider
  /-- `Hold(_)`: replaced in place by a spinner -/
  | hold
deriving Repr, BEq, DecidableEq

/-- What the float code decides for an object. -/
structure TaikoOps (α β : Type) where
  kind : α → TaikoKind
  /-- `should_convert_slider_to_taiko_hits` -/
  shouldConvert : α → Bool
  /-- the hits (`new_objects`/`new_sounds`, pushed pairwise) generated for a slider whose own
  sound is the second argument (`map.hit_sounds[idx]`) -/
  generate : α → β → List (α × β)
  toSpinner : α → α

/-- `vec.splice(idx..=idx, new)`. -/
def spliceOne {γ : Type} (l : List γ) (idx : Nat) (new : List γ) : List γ :=
  l.take idx ++ new ++ l.drop (idx + 1)

/-- `while idx < map.hit_objects.len() { … idx += 1 }`; first argument is fuel; `none` = panic
(`hit_sounds[idx]` out of bounds, or `idx -= 1` at `idx = 0`). -/
def taikoLoop {α β : Type} (O : TaikoOps α β) :
    Nat → Nat → List α → List β → Option (List α × List β)
  | 0, _, _, _ => none
  | fuel + 1, idx, objs, sounds =>
    match objs[idx]? with
    | none => some (objs, sounds)            -- loop condition `idx < len` is false
    | some o =>
      match O.kind o with
      | .plain => taikoLoop O fuel (idx + 1) objs sounds
      | .hold => taikoLoop O fuel (idx + 1) (objs.set idx (O.toSpinner o)) sounds
      | .slider =>
        if O.shouldConvert o then
          match sounds[idx]? with
          | none => none
          | some s =>
            let new := O.generate o s
            -- `if let Some(len) = new_objects.len().checked_sub(1)`
            if new.length ≥ 1 then
              let objs' := spliceOne objs idx (new.map (·.1))
              let sounds' := spliceOne sounds idx (new.map (·.2))
              taikoLoop O fuel (idx + (new.length - 1) + 1) objs' sounds'
            else
              -- remove(idx); idx -= 1; … idx += 1
              if idx = 0 then none
              else taikoLoop O fuel (idx - 1 + 1) (objs.eraseIdx idx) (sounds.eraseIdx idx)
        else taikoLoop O fuel (idx + 1) objs sounds

/-- The loop of `taiko::convert::convert` (fuel: one iteration per original object). -/
def taikoSplice {α β : Type} (O : TaikoOps α β) (objs : List α) (sounds : List β) :
    Option (List α × List β) :=
  taikoLoop O (objs.length + 1) 0 objs sounds

/-! ## mania -/

/-- `target_columns`: `keys` = `mods.mania_keys()`, `rcs`/`rod` = `round_ties_even` of cs/od as
integers, `count`/`len` = sliders-or-spinners / all objects.  `count as f64 / len as f64 < 0.2`
etc. are decided exactly (`5·count < len`); IEEE division is correctly rounded and the constants
are the nearest doubles of 1/5, 3/10, 3/5, so both agree for every `len < 2^50`. -/
def targetColumns (keys : Option Nat) (rcs rod : Int) (count len : Nat) : Nat :=
  match keys with
  | some k => k
  | none =>
    let dflt : Nat := (max 4 (min 7 (rod + 1))).toNat
    if len ≠ 0 then
      if count * 5 < len then 7
      else if count * 10 < 3 * len ∨ rcs ≥ 5 then 6 + (if rod > 5 then 1 else 0)
      else if count * 10 > 6 * len then 4 + (if rod > 4 then 1 else 0)
      else dflt
    else dflt

/-- `ManiaObject::column(x, total_columns)` for an integral `x`:
`(x / (512 / total)).floor().min(total - 1) as usize` (the cast saturates negatives to 0). -/
def column (x : Int) (total : Nat) : Nat :=
  min (x.toNat * total / 512) (total - 1)

/-- `column_to_pos(column, total_columns)`: `(column * (512 / total)).ceil()`. -/
def columnToPos (c total : Nat) : Nat :=
  (c * 512 + total - 1) / total

end Rosu.ConvertWF
