import RosuModel.Model.PipelineMania
import RosuModel.Model.PipelineTaiko
import RosuModel.Model.TaikoPreWire
import RosuModel.Model.SkillWire
import RosuModel.Model.SliderEventsWire

/-
Driver glue for the end-to-end pipelines: the IEEE instance of `PrepOps` and the `PIPE` request.

  PIPE mania <file bytes, hex> <legacy mod bits> <custom clock rate bits|-> <passed_objects|->
     → S<stars> C<max_combo> N<n_objects> H<n_hold_notes> V<is_convert> [G<gradual values>]
       | IOERR | NOTMANIA <mode> | UNSUPPORTED | PANIC | FUEL
  the gradual values (`ManiaGradualDifficulty::next` until `None`) are listed when no
  `passed_objects` is given: count # checksum # `stars:max_combo:n_objects:n_hold_notes` per step.
-/
namespace Rosu.PipelineWire
open Rosu.Wire Rosu.SkillOps Rosu.StrainsWire Rosu.SkillWire Rosu.PipelineMania

/-- `f32::round_ties_even` -/
def roundTiesEven32 (x : Float32) : Float32 :=
  if x.isNaN || !x.isFinite then x
  else
    let r := x.floor
    let d := x - r
    if d < 0.5 then r
    else if d > 0.5 then r + 1.0
    else if (r / 2.0).floor * 2.0 == r then r else r + 1.0

/-- `x as usize` for `x: f32` -/
def f32ToUsize (x : Float32) : Nat :=
  if x.isNaN then 0
  else if x ≤ 0.0 then 0
  else if x ≥ 18446744073709551616.0 then 18446744073709551615
  else x.toFloat.toUInt64.toNat

/-- `x as u32` for `x: f64` -/
def f64ToU32 (x : Float) : Nat :=
  if x.isNaN then 0
  else if x ≤ 0.0 then 0
  else if x ≥ 4294967295.0 then 4294967295
  else x.toUInt32.toNat

def ieeePrep : PrepOps Float Float32 where
  dec64 := fOf
  dec32 b := Float32.ofBits (UInt32.ofNat b)
  ofI32 n := (Float.ofInt n).toFloat32
  roundTiesEven := roundTiesEven32
  floor := Float32.floor
  toUsize := f32ToUsize
  toU32 := f64ToU32

def hexBytes (s : String) : List UInt8 :=
  let rec go : List Char → List UInt8
    | a :: b :: r => UInt8.ofNat (hexDigit a * 16 + hexDigit b) :: go r
    | _ => []
  if s == "-" then [] else go s.toList

def showAttrs (a : Attrs Float) : String :=
  s!"S{StarsWire.showZ a.stars} C{a.maxCombo} N{a.nObjects} H{a.nHoldNotes} V{if a.isConvert then 1 else 0}"

def showOut (o : Out (Attrs Float)) : String :=
  match o with
  | .ok a => showAttrs a
  | .ioError => "IOERR"
  | .notMania m => s!"NOTMANIA {m}"
  | .unsupported => "UNSUPPORTED"
  | .panic => "PANIC"
  | .fuel => "FUEL"

def showStep (o : Out (Attrs Float)) : String :=
  match o with
  | .ok a => s!"{StarsWire.showZ a.stars}:{a.maxCombo}:{a.nObjects}:{a.nHoldNotes}"
  | _ => "X"

/-- `PIPE mania <bytes> <mods> <rate|-> <take|->` -/
def handlePIPE (mode bytes mods rate take : String) : String :=
  if mode != "mania" then "bad-pipe"
  else
    let A := secArith 400.0
    let bs := hexBytes bytes
    let mods := nat! mods
    let custom := if rate == "-" then none else some (hexToNat rate)
    let tk := if take == "-" then none else some (nat! take)
    let one := maniaDifficulty ieeePrep A driverFuel bs mods custom tk
    let grad :=
      if take != "-" then ""
      else match prepared ieeePrep bs with
        | .ok (l, cols) =>
          let vals := gradualValues A driverFuel (fOf (clockRateBits mods custom)) cols l
          " G" ++ SliderEvents.showLong (vals.map showStep)
        | _ => ""
    showOut one ++ grad

/-! ## osu!taiko -/

open Rosu.PipelineTaiko Rosu.TaikoSkill in
def ieeeTOps : TOps Float where
  dec64 := fOf
  keyOf x := Rosu.Decode.keyOfBits64 x.toBits.toNat
  totalLe x y := Rosu.Decode.keyOfBits64 x.toBits.toNat ≤ Rosu.Decode.keyOfBits64 y.toBits.toNat
  inf := Float.ofBits 0x7FF0000000000000

def hexN (x : Float) : String := if x.isNaN then "nan" else natToHex16 (bitsOf x)
def optHex (x : Option Float) : String := match x with | some v => hexN v | none => "-"
def optNat (x : Option Nat) : String := match x with | some v => toString v | none => "-"

/-- one record in the field order of the `TSKILL` request (NaNs as `nan`) -/
def showTRec (o : Rosu.TaikoSkill.TObj Float) : String :=
  let d := o.data
  let mf := match d.monoFirst with
    | none => "-:-:-"
    | some (m, none) => s!"{m}:-:-"
    | some (m, some (a, r)) => s!"{m}:{a}:{optNat r}"
  let af := match d.altFirst with
    | none => "-:-"
    | some (a, r) => s!"{a}:{optNat r}"
  let rh := match d.rhythmFirst with
    | none => "-"
    | some g =>
      let ch := if g.chain.isEmpty then "e" else joinWith "/" (g.chain.map fun x => match x with | some v => hexN v | none => "n")
      s!"{hexN g.intervalRatio}:{g.len}:{optHex g.duration}:{ch}"
  joinWith "," [hexN o.startTime, hexN d.deltaTime, (if d.isHit then "1" else "0"), hexN d.effectiveBpm, hexN d.ratio,
    optHex d.prevStart, optHex d.prev2Start, toString d.monoIndex, optHex d.prevMono2, optHex d.prevMono8,
    optHex d.prevColorChange, optHex d.nextColorChange, mf, af, optNat d.repFirst, rh, optHex d.patternFirstRatio]

/-- `TREC <clock rate> <k:time;…> <effective_bpm;…>`: TAIKO's preprocessing model on the real
`TaikoObject`s, mapped through `trecOfPre` → the records, to be compared with the records the hook
`taiko::verif::skill_trace` dumps from the real object graph (the interface check) -/
def handleTREC (clock objs bpms : String) : String :=
  let os := Rosu.TaikoPre.parseObjs objs
  let bs := (splitList bpms ";").map fun t => fOf (hexToNat t)
  match Rosu.TaikoPre.preprocess (Rosu.PipelineTaiko.preArith ieeeTOps) (Float.ofBits (nat! clock).toUInt64) os with
  | none => "PRE-FAILED"
  | some P =>
    match Rosu.PipelineTaiko.trecOfPre ieeeTOps P bs with
    | none => "TREC-FAILED"
    | some recs => SliderEvents.showLong (recs.map showTRec)

/-- `PIPE taiko <bytes> <mods> <rate|-> <take|-> <sum0> <great hit window> <ok hit window>` →
`R<rhythm> D<reading> C<color> T<stamina> M<mono_stamina_factor> S<stars> X<max_combo> V<is_convert>` -/
def taikoStarsOfSkills (sum0 : Nat) (rx : Bool) (sk : Rosu.TaikoSkill.Skills Float) : StarsWire.TaikoOut :=
  let bitsOfPeaks := fun {σ : Type} (st : StateV Float σ) => (exportPeaksV st).map bitsOf
  StarsWire.taikoEval sum0 rx false (bitsOfPeaks sk.rhythm) (bitsOfPeaks sk.reading)
    (bitsOfPeaks sk.color) (bitsOfPeaks sk.stamina) (bitsOfPeaks sk.singleColorStamina)
    (sk.stamina.objectStrains.map bitsOf)

/-- the gradual values of a native taiko file: `stars:max_combo` per `next()` until `None` -/
def taikoGradual (bytes mods rate sum0 hw : String) : String :=
  let A := secArith 400.0
  let custom := if rate == "-" then none else some (hexToNat rate)
  let rx := (nat! mods) / 128 % 2 == 1
  match Rosu.DecodeLine.fromBytes (hexBytes bytes) with
  | none => "-"
  | some d =>
    match Rosu.PipelineTaiko.recordsOf ieeeTOps d (fOf (Rosu.PipelineTaiko.clockRateBits (nat! mods) custom)) (nat! mods) with
    | .ok (hits, recs) =>
      let vals := Rosu.PipelineTaiko.gradualValues A driverFuel (fOf (hexToNat hw)) hits recs
      let steps := vals.filterMap fun v =>
        match v with
        | .some (mc, .ok sk) => some s!"{StarsWire.showZ (taikoStarsOfSkills (hexToNat sum0) rx sk).stars}:{mc}"
        | .some (_, _) => some "X"
        | .none => none
        | .panic => some "P"
      SliderEvents.showLong steps
    | _ => "-"

def handlePIPEtaiko (bytes mods rate take sum0 hw : String) : String :=
  let A := secArith 400.0
  let custom := if rate == "-" then none else some (hexToNat rate)
  let tk := if take == "-" then none else some (nat! take)
  match Rosu.PipelineTaiko.taikoSkillsOfBytes ieeeTOps A driverFuel (hexBytes bytes) (nat! mods) custom tk (fOf (hexToNat hw)) with
  | .ioError => "IOERR"
  | .notTaiko m => s!"NOTTAIKO {m}"
  | .panic => "PANIC"
  | .fuel => "FUEL"
  | .ok (mc, sk) =>
    let bitsOfPeaks := fun {σ : Type} (st : StateV Float σ) => (exportPeaksV st).map bitsOf
    let rx := (nat! mods) / 128 % 2 == 1
    let o := StarsWire.taikoEval (hexToNat sum0) rx false (bitsOfPeaks sk.rhythm) (bitsOfPeaks sk.reading)
      (bitsOfPeaks sk.color) (bitsOfPeaks sk.stamina) (bitsOfPeaks sk.singleColorStamina)
      (sk.stamina.objectStrains.map bitsOf)
    s!"R{StarsWire.showZ o.rhythm} D{StarsWire.showZ o.reading} C{StarsWire.showZ o.color} T{StarsWire.showZ o.stamina} M{StarsWire.showZ o.monoStaminaFactor} S{StarsWire.showZ o.stars} X{mc} V0"

def handlePIPEtaikoG (bytes mods rate take sum0 hw : String) : String :=
  handlePIPEtaiko bytes mods rate take sum0 hw ++ " G" ++ taikoGradual bytes mods rate sum0 hw

end Rosu.PipelineWire
