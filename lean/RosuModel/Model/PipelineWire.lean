import RosuModel.Model.PipelineMania
import RosuModel.Model.SkillWire
import RosuModel.Model.SliderEventsWire

/-
Driver glue for the end-to-end pipelines: the IEEE instance of `PrepOps` and the `PIPE` request.

  PIPE mania <file bytes, hex> <legacy mod bits> <custom clock rate bits|-> <passed_objects|->
     → S<stars> C<max_combo> N<n_objects> H<n_hold_notes> V<is_convert> [G<gradual values>]
       | IOERR | NOTMANIA <mode> | UNSUPPORTED | PANIC | FUEL
  the gradual values (`ManiaGradualDifficulty::next` until `None`) are listed when no
  `passed_objects` is given: count # checksum # `stars:max_combo:n_objects:n_hold_notes` per step.
-/
namespace Rosu.PipelineWire
open Rosu.Wire Rosu.SkillOps Rosu.StrainsWire Rosu.SkillWire Rosu.PipelineMania

/-- `f32::round_ties_even` -/
def roundTiesEven32 (x : Float32) : Float32 :=
  if x.isNaN || !x.isFinite then x
  else
    let r := x.floor
    let d := x - r
    if d < 0.5 then r
    else if d > 0.5 then r + 1.0
    else if (r / 2.0).floor * 2.0 == r then r else r + 1.0

/-- `x as usize` for `x: f32` -/
def f32ToUsize (x : Float32) : Nat :=
  if x.isNaN then 0
  else if x ≤ 0.0 then 0
  else if x ≥ 18446744073709551616.0 then 18446744073709551615
  else x.toFloat.toUInt64.toNat

/-- `x as u32` for `x: f64` -/
def f64ToU32 (x : Float) : Nat :=
  if x.isNaN then 0
  else if x ≤ 0.0 then 0
  else if x ≥ 4294967295.0 then 4294967295
  else x.toUInt32.toNat

def ieeePrep : PrepOps Float Float32 where
  dec64 := fOf
  dec32 b := Float32.ofBits (UInt32.ofNat b)
  ofI32 n := (Float.ofInt n).toFloat32
  roundTiesEven := roundTiesEven32
  floor := Float32.floor
  toUsize := f32ToUsize
  toU32 := f64ToU32

def hexBytes (s : String) : List UInt8 :=
  let rec go : List Char → List UInt8
    | a :: b :: r => UInt8.ofNat (hexDigit a * 16 + hexDigit b) :: go r
    | _ => []
  if s == "-" then [] else go s.toList

def showAttrs (a : Attrs Float) : String :=
  s!"S{StarsWire.showZ a.stars} C{a.maxCombo} N{a.nObjects} H{a.nHoldNotes} V{if a.isConvert then 1 else 0}"

def showOut (o : Out (Attrs Float)) : String :=
  match o with
  | .ok a => showAttrs a
  | .ioError => "IOERR"
  | .notMania m => s!"NOTMANIA {m}"
  | .unsupported => "UNSUPPORTED"
  | .panic => "PANIC"
  | .fuel => "FUEL"

def showStep (o : Out (Attrs Float)) : String :=
  match o with
  | .ok a => s!"{StarsWire.showZ a.stars}:{a.maxCombo}:{a.nObjects}:{a.nHoldNotes}"
  | _ => "X"

/-- `PIPE mania <bytes> <mods> <rate|-> <take|->` -/
def handlePIPE (mode bytes mods rate take : String) : String :=
  if mode != "mania" then "bad-pipe"
  else
    let A := secArith 400.0
    let bs := hexBytes bytes
    let mods := nat! mods
    let custom := if rate == "-" then none else some (hexToNat rate)
    let tk := if take == "-" then none else some (nat! take)
    let one := maniaDifficulty ieeePrep A driverFuel bs mods custom tk
    let grad :=
      if take != "-" then ""
      else match prepared ieeePrep bs with
        | .ok (l, cols) =>
          let vals := gradualValues A driverFuel (fOf (clockRateBits mods custom)) cols l
          " G" ++ SliderEvents.showLong (vals.map showStep)
        | _ => ""
    showOut one ++ grad

end Rosu.PipelineWire
