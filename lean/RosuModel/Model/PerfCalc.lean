import RosuModel.Model.Finite
import RosuModel.Gen.PerfConsts

/-!
# C09 — the four performance (pp) calculators, formula by formula

Transcribed statement by statement from

* `src/osu/performance/mod.rs` (`OsuPerformance::calculate`: effective miss count, score origin),
  `src/osu/score_state.rs` (`accuracy`), `src/osu/performance/calculator.rs` (every function),
  `src/osu/difficulty/skills/{strain,flashlight}.rs` (`difficulty_to_performance`),
  `src/osu/attributes.rs` (`od`), `src/model/beatmap/attributes.rs` (`osu_great_hit_window_to_od`);
* `src/taiko/performance/calculator.rs`, `src/catch/performance/calculator.rs`,
  `src/mania/performance/calculator.rs`, the four `score_state.rs` (`accuracy`, `total_hits`);
* `src/util/special_functions.rs` (`erf`, `erf_inv`, `erf_imp`, `erf_inv_impl`, `evaluate_polynomial`;
  the coefficient tables are *generated* from the source: `Gen/PerfConsts.lean`),
  `src/util/difficulty.rs` (`reverse_lerp`), `src/util/float_ext.rs` (`eq`, `lerp`).

Treatment of floating point: **F-generic** (DESIGN.md §3).  Everything is written once over the
class `PPOps R`.  The `Float` instance (`Model/PerfCalcWire.lean`) performs the same IEEE operations in
the same order as the Rust code (libm for `powf/ln/log10/exp`) and is compared with the real
calculators on every run (`PP` lines); the instance over ℝ (`Lemmas/PerfCalcReal.lean`) is what the
theorems are about.

Partial operations.  Next to every function `f` there is `fDom : Bool` — the conjunction of the side
conditions of every partial operation `f` evaluates **on the path taken** (non-zero denominator,
positive argument of `ln`/`log10`, non-negative radicand, `powf` with a non-integer exponent only on a
non-negative base and never `0^negative`, `u32` subtractions that do not underflow, the `min <= max`
assertion of `f64::clamp`).  Divisions by non-zero literals and `powf` with a literal integer exponent
(2, 3, 5, 16, 24: total on ℝ and on f64) carry no condition.  The driver evaluates `fDom` with IEEE
doubles on every `PP` line (`dom=`), and the check counts "dom holds ⇒ every output is finite".

`u32` arithmetic is `Nat` (no overflow: assumption listed in tools/props/C09.json), `i32` is `Int`.
Core Lean only.
-/

namespace Rosu.PerfCalc
open Rosu.Finite (OsuState TaikoState CatchState ManiaState)
open Rosu.Gen.PerfConsts

/-- The arithmetic the calculators use on `f64`.  Literals are `OfScientific` (for `Float`: correctly
rounded like rustc's, see `PerfCalcWire.lean`); `fmax`/`fmin` are `f64::max`/`f64::min` (receiver
first), `beq` is IEEE `==`, `lt`/`le` are IEEE `<`/`<=` (false on NaN). -/
class PPOps (R : Type) extends OfScientific R, Add R, Sub R, Mul R, Div R, Neg R where
  /-- `f64::from(u32)` / `u32 as f64` -/
  ofNat : Nat → R
  /-- `f64::from(i32)` -/
  ofInt : Int → R
  lt : R → R → Bool
  le : R → R → Bool
  beq : R → R → Bool
  fmax : R → R → R
  fmin : R → R → R
  abs : R → R
  powf : R → R → R
  ln : R → R
  log10 : R → R
  exp : R → R
  sqrt : R → R
  /-- `f64::cbrt` (total: the real cube root) -/
  cbrt : R → R
  /-- `f64::sin`, `f64::atan2(y, x)` (receiver `y`) -/
  sin : R → R
  atan2 : R → R → R
  /-- `x as f32` followed by `f64::from`: rounding to the nearest binary32 value (identity over ℝ).
  An `f32` operation on `f32` operands is `r32 (a op b)`: for `+ - * /` and `sqrt` rounding the exact
  binary64 result again to binary32 equals the directly rounded binary32 result (53 ≥ 2·24 + 2). -/
  r32 : R → R
  /-- `x as i32`: truncation toward zero, saturating at the `i32` range, NaN ↦ 0 -/
  truncI32 : R → Int
  /-- `f64::ceil` -/
  ceil : R → R
  /-- `std::f64::consts::PI` -/
  pi : R
  /-- `f64::INFINITY`, `f64::NEG_INFINITY`, `f64::NAN` as *results* -/
  posInf : R
  negInf : R
  nan : R
  /-- `x == f64::INFINITY`, `x == f64::NEG_INFINITY`, `x.is_nan()` -/
  isPosInf : R → Bool
  isNegInf : R → Bool
  isNaN : R → Bool

/- The parent projections are instances of low priority: for a concrete carrier that has its own
arithmetic instances (`Float`, ℝ) ordinary notation keeps meaning the carrier's own operations; only the
generic code below (where nothing else is available) resolves `+ - * /` and literals through `PPOps`. -/
attribute [instance 10] PPOps.toOfScientific PPOps.toAdd PPOps.toSub PPOps.toMul PPOps.toDiv PPOps.toNeg

section
variable {R : Type} [PPOps R]
open PPOps

/-- value of a generated decimal literal -/
def dval (d : DLit) : R :=
  let v : R := OfScientific.ofScientific d.2.1 true d.2.2
  if d.1 then -v else v

def tbl (l : List DLit) : List R := l.map dval

/-- `f64::EPSILON` -/
def f64Epsilon : R := 2.220446049250313e-16

/-- `FloatExt::eq(a, b)`: `(a - b).abs() <= EPS` -/
def floatEq (a b : R) : Bool := le (abs (a - b)) f64Epsilon

/-- `f64::clamp(x, lo, hi)` (asserts `lo <= hi`: part of the caller's `Dom`) -/
def clamp (x lo hi : R) : R :=
  let x := if lt x lo then lo else x
  if lt hi x then hi else x

/-- `reverse_lerp(x, start, end)` (src/util/difficulty.rs) -/
def reverseLerp (x start stop : R) : R := clamp ((x - start) / (stop - start)) 0.0 1.0

/-- `FloatExt::lerp(value1, value2, amount)` -/
def lerp (v1 v2 amount : R) : R := (v1 * (1.0 - amount)) + (v2 * amount)

/-- side condition of `powf(x, y)` with a non-integer (or non-literal) exponent:
`x > 0`, or `x = 0` with `y >= 0` -/
def powfDom (x y : R) : Bool := lt 0.0 x || (beq x 0.0 && le 0.0 y)

/-- `d != 0` as a side condition of `_ / d` -/
def nz (d : R) : Bool := !(beq d 0.0)

/-! ## `src/util/special_functions.rs` -/

/-- `evaluate_polynomial(z, coefficients)` -/
def evalPoly (z : R) (coefficients : List R) : R :=
  match coefficients.reverse with
  | [] => 0.0
  | last :: rest => rest.foldl (fun sum coefficient => (sum * z) + coefficient) last

/-- the `i`-th `f64::from(<lit>_f32)` constant of `erf_imp` -/
def erfB (i : Nat) : R := dval (erfImpB.getD i (false, 0, 0))
/-- the `i`-th `const Y: f32` of `erf_inv_impl` -/
def erfInvYc (i : Nat) : R := dval (erfInvY.getD i (false, 0, 0))

/-- one row of the `(r, b)` chain of `erf_imp` -/
def erfRow (z shift : R) (n d : List DLit) (b : Nat) : R × R :=
  (evalPoly (z - shift) (tbl n) / evalPoly (z - shift) (tbl d), erfB b)

/-- `erf_imp(z, invert)` for an argument that is not `< 0` (everything after the first `if`) -/
def erfImpNonneg (z : R) (invert : Bool) : R :=
  let (result, invert) : R × Bool :=
    if lt z 0.5 then
      (if lt z 1e-10 then
        (z * 1.125) + (z * 0.003379167095512573896158903121545171688)
      else
        (z * 1.125) + (z * evalPoly z (tbl ERF_IMP_AN) / evalPoly z (tbl ERF_IMP_AD)), invert)
    else if lt z 110.0 then
      let (r, b) : R × R :=
        if lt z 0.75 then erfRow z 0.5 ERF_IMP_BN ERF_IMP_BD 0
        else if lt z 1.25 then erfRow z 0.75 ERF_IMP_CN ERF_IMP_CD 1
        else if lt z 2.25 then erfRow z 1.25 ERF_IMP_DN ERF_IMP_DD 2
        else if lt z 3.5 then erfRow z 2.25 ERF_IMP_EN ERF_IMP_ED 3
        else if lt z 5.25 then erfRow z 3.5 ERF_IMP_FN ERF_IMP_FD 4
        else if lt z 8.0 then erfRow z 5.25 ERF_IMP_GN ERF_IMP_GD 5
        else if lt z 11.5 then erfRow z 8.0 ERF_IMP_HN ERF_IMP_HD 6
        else if lt z 17.0 then erfRow z 11.5 ERF_IMP_IN ERF_IMP_ID 7
        else if lt z 24.0 then erfRow z 17.0 ERF_IMP_JN ERF_IMP_JD 8
        else if lt z 38.0 then erfRow z 24.0 ERF_IMP_KN ERF_IMP_KD 9
        else if lt z 60.0 then erfRow z 38.0 ERF_IMP_LN ERF_IMP_LD 10
        else if lt z 85.0 then erfRow z 60.0 ERF_IMP_MN ERF_IMP_MD 11
        else erfRow z 85.0 ERF_IMP_NN ERF_IMP_ND 12
      let g := exp ((-z) * z) / z
      ((g * b) + (g * r), !invert)
    else
      (0.0, !invert)
  if invert then 1.0 - result else result

/-- `erf_imp(z, invert)`; the recursive calls are on `-z` with `z < 0`, which never recurse again -/
def erfImp (z : R) (invert : Bool) : R :=
  if lt z 0.0 then
    if !invert then -(erfImpNonneg (-z) false)
    else if lt z (-0.5) then 2.0 - erfImpNonneg (-z) true
    else 1.0 + erfImpNonneg (-z) false
  else erfImpNonneg z invert

/-- `erf(x)` -/
def erf (x : R) : R :=
  if beq x 0.0 then 0.0
  else if isPosInf x then 1.0
  else if isNegInf x then -1.0
  else if isNaN x then nan
  else erfImp x false

/-- `erf_inv_impl(p, q, s)` -/
def erfInvImpl (p q s : R) : R :=
  let result : R :=
    if le p 0.5 then
      let g := p * (p + 10.0)
      let r := evalPoly p (tbl ERV_INV_IMP_AN) / evalPoly p (tbl ERV_INV_IMP_AD)
      (g * erfInvYc 0) + (g * r)
    else if le 0.25 q then
      let g := sqrt (-2.0 * ln q)
      let xs := q - 0.25
      let r := evalPoly xs (tbl ERV_INV_IMP_BN) / evalPoly xs (tbl ERV_INV_IMP_BD)
      g / (erfInvYc 1 + r)
    else
      let x := sqrt (-(ln q))
      if lt x 3.0 then
        let xs := x - 1.125
        let r := evalPoly xs (tbl ERV_INV_IMP_CN) / evalPoly xs (tbl ERV_INV_IMP_CD)
        (erfInvYc 2 * x) + (r * x)
      else if lt x 6.0 then
        let xs := x - 3.0
        let r := evalPoly xs (tbl ERV_INV_IMP_DN) / evalPoly xs (tbl ERV_INV_IMP_DD)
        (erfInvYc 3 * x) + (r * x)
      else if lt x 18.0 then
        let xs := x - 6.0
        let r := evalPoly xs (tbl ERV_INV_IMP_EN) / evalPoly xs (tbl ERV_INV_IMP_ED)
        (erfInvYc 4 * x) + (r * x)
      else if lt x 44.0 then
        let xs := x - 18.0
        let r := evalPoly xs (tbl ERV_INV_IMP_FN) / evalPoly xs (tbl ERV_INV_IMP_FD)
        (erfInvYc 5 * x) + (r * x)
      else
        let xs := x - 44.0
        let r := evalPoly xs (tbl ERV_INV_IMP_GN) / evalPoly xs (tbl ERV_INV_IMP_GD)
        (erfInvYc 6 * x) + (r * x)
  result * s

/-- `erf_inv(z)` -/
def erfInv (z : R) : R :=
  if beq z 0.0 then 0.0
  else if le 1.0 z then posInf
  else if le z (-1.0) then negInf
  else if lt z 0.0 then erfInvImpl (-z) (1.0 - (-z)) (-1.0)
  else erfInvImpl z (1.0 - z) 1.0

/-- the special functions a calculator calls.  The calculators below take them as a parameter: the
`Float` driver and the ℝ instance pass the transcriptions above (`stdSpecial`); the theorems are stated
for any `sf` satisfying the sign/range facts they list (`Lemmas/PerfCalcReal.lean: ErfFacts`). -/
structure Special (R : Type) where
  erf : R → R
  erfInv : R → R

/-- the transcribed `erf` / `erf_inv` -/
def stdSpecial : Special R := { erf := erf, erfInv := erfInv }

/-- 99% critical value (`const Z: f64 = 2.32634787404`), osu! and taiko -/
def zCrit : R := 2.32634787404

/-- Wilson lower bound as written in both `calculate_deviation` and `compute_deviation_upper_bound` -/
def pLowerBound (n p : R) : R :=
  (n * p + zCrit * zCrit / 2.0) / (n + zCrit * zCrit)
    - zCrit / (n + zCrit * zCrit) * sqrt (n * p * (1.0 - p) + zCrit * zCrit / 4.0)

/-- side conditions of `pLowerBound` -/
def pLowerBoundDom (n p : R) : Bool :=
  nz (n + zCrit * zCrit) && le 0.0 (n * p * (1.0 - p) + zCrit * zCrit / 4.0)

/-! ## osu! -/

/-- the fields of `OsuDifficultyAttributes` the performance calculation reads -/
structure OsuAttrs (R : Type) where
  aim : R
  aimDifficultSliderCount : R
  speed : R
  flashlight : R
  sliderFactor : R
  speedNoteCount : R
  aimDifficultStrainCount : R
  speedDifficultStrainCount : R
  ar : R
  greatHitWindow : R
  okHitWindow : R
  mehHitWindow : R
  hp : R
  nCircles : Nat
  nSliders : Nat
  nLargeTicks : Nat
  nSpinners : Nat
  maxCombo : Nat

/-- the `GameMods` accessors the osu! calculator calls -/
structure OsuMods where
  nf : Bool
  so : Bool
  rx : Bool
  ap : Bool
  bl : Bool
  hd : Bool
  tc : Bool
  fl : Bool
  deriving DecidableEq, Repr, Inhabited

/-- `OsuDifficultyAttributes::od` = `osu_great_hit_window_to_od`: `(OSU_GREAT.min - hit_window) / 6.0` -/
def OsuAttrs.od (a : OsuAttrs R) : R := (80.0 - a.greatHitWindow) / 6.0

/-- `(numerator, denominator)` of `OsuScoreState::accuracy(origin)` over `f64`; the origin is determined
by `(lazer, classic)` as in `OsuPerformance::calculate` -/
def osuAccuracyParts (a : OsuAttrs R) (s : OsuState) (lazer classic : Bool) : R × R :=
  let numerator : R := ofNat (6 * s.n300 + 2 * s.n100 + s.n50)
  let denominator : R := ofNat (6 * (s.n300 + s.n100 + s.n50 + s.misses))
  if !lazer then (numerator, denominator)
  else if !classic then
    -- WithSliderAcc { max_large_ticks: n_large_ticks, max_slider_ends: n_sliders }
    let sliderEndHits := min s.sliderEndHits a.nSliders
    let largeTickHits := min s.largeTickHits a.nLargeTicks
    (numerator + (ofNat (3 * sliderEndHits) + 0.6 * ofNat largeTickHits),
     denominator + (ofNat (3 * a.nSliders) + 0.6 * ofNat a.nLargeTicks))
  else
    -- WithoutSliderAcc { max_large_ticks: n_sliders + n_large_ticks, max_small_ticks: n_sliders }
    let largeTickHits := min s.largeTickHits (a.nSliders + a.nLargeTicks)
    let smallTickHits := min s.smallTickHits a.nSliders
    (numerator + (0.6 * ofNat largeTickHits + 0.2 * ofNat smallTickHits),
     denominator + (0.6 * ofNat (a.nSliders + a.nLargeTicks) + 0.2 * ofNat a.nSliders))

/-- `OsuScoreState::accuracy(origin)`: `if denominator.eq(0.0) { 0.0 } else { numerator / denominator }` -/
def osuAccuracy (a : OsuAttrs R) (s : OsuState) (lazer classic : Bool) : R :=
  let nd := osuAccuracyParts a s lazer classic
  if floatEq nd.2 0.0 then 0.0 else nd.1 / nd.2

/-- `total_imperfect_hits` -/
def totalImperfectHits (s : OsuState) : R := ofNat (s.n100 + s.n50 + s.misses)

/-- `effective_miss_count` of `OsuPerformance::calculate` (src/osu/performance/mod.rs) -/
def osuEffectiveMissCount (a : OsuAttrs R) (s : OsuState) (classic : Bool) : R :=
  let emc : R := ofNat s.misses
  let emc : R :=
    if a.nSliders > 0 then
      if classic then
        let fullComboThreshold : R := ofNat a.maxCombo - 0.1 * ofNat a.nSliders
        let emc :=
          if lt (ofNat s.maxCombo) fullComboThreshold then
            fullComboThreshold / fmax (ofNat s.maxCombo) 1.0
          else emc
        fmin emc (totalImperfectHits s)
      else
        let fullComboThreshold : R := ofNat (a.maxCombo - (a.nSliders - s.sliderEndHits))
        let emc :=
          if lt (ofNat s.maxCombo) fullComboThreshold then
            fullComboThreshold / fmax (ofNat s.maxCombo) 1.0
          else emc
        fmin emc (ofNat ((a.nLargeTicks - s.largeTickHits) + s.misses))
    else emc
  let emc := fmax emc (ofNat s.misses)
  fmin emc (ofNat s.totalHits)

/-- side conditions of `osuEffectiveMissCount`: the `u32` subtractions of the lazer branch and the
(never zero: `max(·, 1.0)`) denominators -/
def osuEffectiveMissCountDom (a : OsuAttrs R) (s : OsuState) (classic : Bool) : Bool :=
  if a.nSliders > 0 then
    if classic then nz (fmax (ofNat s.maxCombo : R) 1.0)
    else
      decide (s.sliderEndHits ≤ a.nSliders) && decide (a.nSliders - s.sliderEndHits ≤ a.maxCombo)
        && decide (s.largeTickHits ≤ a.nLargeTicks) && nz (fmax (ofNat s.maxCombo : R) 1.0)
  else true

/-- the fields of `OsuPerformanceCalculator` -/
structure OsuCalc (R : Type) where
  attrs : OsuAttrs R
  mods : OsuMods
  acc : R
  state : OsuState
  effectiveMissCount : R
  usingClassicSliderAcc : Bool

/-- `OsuStrainSkill::difficulty_to_performance` (Aim, Speed) -/
def strainDifficultyToPerformance (difficulty : R) : R :=
  powf (5.0 * fmax 1.0 (difficulty / 0.0675) - 4.0) 3.0 / 100000.0

/-- `Flashlight::difficulty_to_performance` -/
def flashlightDifficultyToPerformance (difficulty : R) : R := 25.0 * powf difficulty 2.0

/-- `calculate_miss_penalty(miss_count, diff_strain_count)` -/
def calculateMissPenalty (missCount diffStrainCount : R) : R :=
  0.96 / ((missCount / (4.0 * powf (ln diffStrainCount) 0.94)) + 1.0)

def calculateMissPenaltyDom (missCount diffStrainCount : R) : Bool :=
  lt 0.0 diffStrainCount && powfDom (ln diffStrainCount) (0.94 : R)
    && nz (4.0 * powf (ln diffStrainCount) 0.94)
    && nz ((missCount / (4.0 * powf (ln diffStrainCount) 0.94)) + 1.0)

/-- `self.total_hits()` of the calculator: `state.total_hits() as f64` -/
def OsuCalc.totalHits (c : OsuCalc R) : R := ofNat c.state.totalHits

/-- the length bonus shared by aim and speed -/
def osuLenBonus (totalHits : R) : R :=
  0.95 + 0.4 * fmin (totalHits / 2000.0) 1.0
    + (if lt 2000.0 totalHits then 1.0 else 0.0) * log10 (totalHits / 2000.0) * 0.5

def osuLenBonusDom (totalHits : R) : Bool := lt 0.0 (totalHits / 2000.0)

/-- `estimate_improperly_followed_difficult_sliders` of `compute_aim_value` -/
def osuSliderEstimate (c : OsuCalc R) : R :=
  if c.usingClassicSliderAcc then
    let maximumPossibleDroppedSliders : R := totalImperfectHits c.state
    clamp (fmin maximumPossibleDroppedSliders (ofNat (c.attrs.maxCombo - c.state.maxCombo))) 0.0
      c.attrs.aimDifficultSliderCount
  else
    clamp (ofNat ((c.attrs.nSliders - c.state.sliderEndHits) + (c.attrs.nLargeTicks - c.state.largeTickHits)))
      0.0 c.attrs.aimDifficultSliderCount

/-- `compute_aim_value` after the `if self.mods.ap() { return 0.0 }` -/
def computeAimBody (c : OsuCalc R) : R :=
    let aimDifficulty := c.attrs.aim
    let aimDifficulty :=
      if c.attrs.nSliders > 0 && lt 0.0 c.attrs.aimDifficultSliderCount then
        let est := osuSliderEstimate c
        let sliderNerfFactor :=
          (1.0 - c.attrs.sliderFactor) * powf (1.0 - est / c.attrs.aimDifficultSliderCount) 3.0
            + c.attrs.sliderFactor
        aimDifficulty * sliderNerfFactor
      else aimDifficulty
    let aimValue := strainDifficultyToPerformance aimDifficulty
    let totalHits := c.totalHits
    let lenBonus := osuLenBonus totalHits
    let aimValue := aimValue * lenBonus
    let aimValue :=
      if lt 0.0 c.effectiveMissCount then
        aimValue * calculateMissPenalty c.effectiveMissCount c.attrs.aimDifficultStrainCount
      else aimValue
    let arFactor : R :=
      if c.mods.rx then 0.0
      else if lt 10.33 c.attrs.ar then 0.3 * (c.attrs.ar - 10.33)
      else if lt c.attrs.ar 8.0 then 0.05 * (8.0 - c.attrs.ar)
      else 0.0
    let aimValue := aimValue * (1.0 + arFactor * lenBonus)
    let aimValue :=
      if c.mods.bl then
        aimValue * (1.3
          + (totalHits * (0.0016 / (1.0 + 2.0 * c.effectiveMissCount)) * powf c.acc 16.0)
            * (1.0 - 0.003 * c.attrs.hp * c.attrs.hp))
      else if c.mods.hd || c.mods.tc then
        aimValue * (1.0 + 0.04 * (12.0 - c.attrs.ar))
      else aimValue
    let aimValue := aimValue * c.acc
    aimValue * (0.98 + powf (fmax 0.0 c.attrs.od) 2.0 / 2500.0)

/-- `compute_aim_value` -/
def computeAimValue (c : OsuCalc R) : R :=
  if c.mods.ap then 0.0 else computeAimBody c

def computeAimBodyDom (c : OsuCalc R) : Bool :=
    (if c.attrs.nSliders > 0 && lt 0.0 c.attrs.aimDifficultSliderCount then
      (if c.usingClassicSliderAcc then decide (c.state.maxCombo ≤ c.attrs.maxCombo)
       else decide (c.state.sliderEndHits ≤ c.attrs.nSliders) && decide (c.state.largeTickHits ≤ c.attrs.nLargeTicks))
        && le 0.0 c.attrs.aimDifficultSliderCount && nz c.attrs.aimDifficultSliderCount
    else true)
    && osuLenBonusDom c.totalHits
    && (if lt 0.0 c.effectiveMissCount then
          calculateMissPenaltyDom c.effectiveMissCount c.attrs.aimDifficultStrainCount
        else true)
    && (if c.mods.bl then nz (1.0 + 2.0 * c.effectiveMissCount) else true)

def computeAimValueDom (c : OsuCalc R) : Bool :=
  if c.mods.ap then true else computeAimBodyDom c

/-- `calculate_speed_high_deviation_nerf` -/
def calculateSpeedHighDeviationNerf (c : OsuCalc R) (speedDeviation : R) : R :=
  let speedValue := strainDifficultyToPerformance c.attrs.speed
  let excessSpeedDifficultyCutoff := 100.0 + 220.0 * powf (22.0 / speedDeviation) 6.5
  if le speedValue excessSpeedDifficultyCutoff then 1.0
  else
    let scale : R := 50.0
    let adjustedSpeedValue :=
      scale * (ln ((speedValue - excessSpeedDifficultyCutoff) / scale + 1.0) + excessSpeedDifficultyCutoff / scale)
    let lerpAmount := 1.0 - reverseLerp speedDeviation 22.0 27.0
    let adjustedSpeedValue := lerp adjustedSpeedValue speedValue lerpAmount
    adjustedSpeedValue / speedValue

def calculateSpeedHighDeviationNerfDom (c : OsuCalc R) (speedDeviation : R) : Bool :=
  let speedValue := strainDifficultyToPerformance c.attrs.speed
  let cutoff : R := 100.0 + 220.0 * powf (22.0 / speedDeviation) 6.5
  nz speedDeviation && powfDom (22.0 / speedDeviation) (6.5 : R)
    && (if le speedValue cutoff then true
        else lt 0.0 ((speedValue - cutoff) / 50.0 + 1.0) && nz speedValue)

/-- `relevant_acc` of `compute_speed_value` -/
def osuRelevantAcc (c : OsuCalc R) : R :=
  let totalHits := c.totalHits
  let s := c.state
  let relevantTotalDiff := fmax 0.0 (totalHits - c.attrs.speedNoteCount)
  let relevantN300 := fmax (ofNat s.n300 - relevantTotalDiff) 0.0
  let relevantN100 := fmax (ofNat s.n100 - fmax (relevantTotalDiff - ofNat s.n300) 0.0) 0.0
  let relevantN50 := fmax (ofNat s.n50 - fmax (relevantTotalDiff - ofNat (s.n300 + s.n100)) 0.0) 0.0
  if floatEq c.attrs.speedNoteCount 0.0 then 0.0
  else (relevantN300 * 6.0 + relevantN100 * 2.0 + relevantN50) / (c.attrs.speedNoteCount * 6.0)

/-- `compute_speed_value` after `let Some(speed_deviation) = … else { return 0.0 }` -/
def computeSpeedBody (c : OsuCalc R) (speedDeviation : R) : R :=
    let speedValue := strainDifficultyToPerformance c.attrs.speed
    let totalHits := c.totalHits
    let lenBonus := osuLenBonus totalHits
    let speedValue := speedValue * lenBonus
    let speedValue :=
      if lt 0.0 c.effectiveMissCount then
        speedValue * calculateMissPenalty c.effectiveMissCount c.attrs.speedDifficultStrainCount
      else speedValue
    let arFactor : R :=
      if c.mods.ap then 0.0
      else if lt 10.33 c.attrs.ar then 0.3 * (c.attrs.ar - 10.33)
      else 0.0
    let speedValue := speedValue * (1.0 + arFactor * lenBonus)
    let speedValue :=
      if c.mods.bl then speedValue * 1.12
      else if c.mods.hd || c.mods.tc then speedValue * (1.0 + 0.04 * (12.0 - c.attrs.ar))
      else speedValue
    let speedHighDeviationMult := calculateSpeedHighDeviationNerf c speedDeviation
    let speedValue := speedValue * speedHighDeviationMult
    let relevantAcc := osuRelevantAcc c
    let od := c.attrs.od
    speedValue * ((0.95 + powf (fmax 0.0 od) 2.0 / 750.0)
      * powf ((c.acc + relevantAcc) / 2.0) ((14.5 - od) / 2.0))

/-- `compute_speed_value(speed_deviation)`: `speed_deviation.filter(|_| !self.mods.rx())` -/
def computeSpeedValue (c : OsuCalc R) (speedDeviation : Option R) : R :=
  match (if c.mods.rx then none else speedDeviation) with
  | none => 0.0
  | some speedDeviation => computeSpeedBody c speedDeviation

def computeSpeedBodyDom (c : OsuCalc R) (speedDeviation : R) : Bool :=
    osuLenBonusDom c.totalHits
    && (if lt 0.0 c.effectiveMissCount then
          calculateMissPenaltyDom c.effectiveMissCount c.attrs.speedDifficultStrainCount
        else true)
    && calculateSpeedHighDeviationNerfDom c speedDeviation
    && (if floatEq c.attrs.speedNoteCount 0.0 then true else nz (c.attrs.speedNoteCount * 6.0))
    && powfDom ((c.acc + osuRelevantAcc c) / 2.0) ((14.5 - c.attrs.od) / 2.0)

def computeSpeedValueDom (c : OsuCalc R) (speedDeviation : Option R) : Bool :=
  match (if c.mods.rx then none else speedDeviation) with
  | none => true
  | some speedDeviation => computeSpeedBodyDom c speedDeviation

/-- `amount_hit_objects_with_acc` -/
def OsuCalc.amountHitObjectsWithAcc (c : OsuCalc R) : Nat :=
  if !c.usingClassicSliderAcc then c.attrs.nCircles + c.attrs.nSliders else c.attrs.nCircles

/-- `compute_accuracy_value` after the `if self.mods.rx() { return 0.0 }` -/
def computeAccuracyBody (c : OsuCalc R) : R :=
    let amount := c.amountHitObjectsWithAcc
    let s := c.state
    let betterAccPercentage : R :=
      if amount > 0 then
        ofInt ((((s.n300 : Int) - max ((s.totalHits : Int) - (amount : Int)) 0) * 6 + (s.n100 : Int) * 2 + (s.n50 : Int)))
          / ofNat (amount * 6)
      else 0.0
    let betterAccPercentage := if lt betterAccPercentage 0.0 then 0.0 else betterAccPercentage
    let accValue := powf 1.52163 c.attrs.od * powf betterAccPercentage 24.0 * 2.83
    let accValue := accValue * fmin (powf (ofNat amount / 1000.0) 0.3) 1.15
    let accValue :=
      if c.mods.bl then accValue * 1.14
      else if c.mods.hd || c.mods.tc then accValue * 1.08
      else accValue
    if c.mods.fl then accValue * 1.02 else accValue

/-- `compute_accuracy_value` -/
def computeAccuracyValue (c : OsuCalc R) : R :=
  if c.mods.rx then 0.0 else computeAccuracyBody c

def computeAccuracyBodyDom (c : OsuCalc R) : Bool :=
    (if c.amountHitObjectsWithAcc > 0 then nz (ofNat (c.amountHitObjectsWithAcc * 6) : R) else true)
    && powfDom (ofNat c.amountHitObjectsWithAcc / 1000.0) (0.3 : R)

def computeAccuracyValueDom (c : OsuCalc R) : Bool :=
  if c.mods.rx then true else computeAccuracyBodyDom c

/-- `get_combo_scaling_factor` -/
def getComboScalingFactor (c : OsuCalc R) : R :=
  if c.attrs.maxCombo = 0 then 1.0
  else fmin (powf (ofNat c.state.maxCombo) 0.8 / powf (ofNat c.attrs.maxCombo) 0.8) 1.0

def getComboScalingFactorDom (c : OsuCalc R) : Bool :=
  if c.attrs.maxCombo = 0 then true
  else powfDom (ofNat c.state.maxCombo) (0.8 : R) && powfDom (ofNat c.attrs.maxCombo) (0.8 : R)
    && nz (powf (ofNat c.attrs.maxCombo) 0.8 : R)

/-- `compute_flashlight_value` after the `if !self.mods.fl() { return 0.0 }` -/
def computeFlashlightBody (c : OsuCalc R) : R :=
    let flashlightValue := flashlightDifficultyToPerformance c.attrs.flashlight
    let totalHits := c.totalHits
    let flashlightValue :=
      if lt 0.0 c.effectiveMissCount then
        flashlightValue * (0.97
          * powf (1.0 - powf (c.effectiveMissCount / totalHits) 0.775) (powf c.effectiveMissCount 0.875))
      else flashlightValue
    let flashlightValue := flashlightValue * getComboScalingFactor c
    let flashlightValue := flashlightValue * (0.7
      + 0.1 * fmin (totalHits / 200.0) 1.0
      + (if lt 200.0 totalHits then 1.0 else 0.0) * 0.2 * fmin ((totalHits - 200.0) / 200.0) 1.0)
    let flashlightValue := flashlightValue * (0.5 + c.acc / 2.0)
    flashlightValue * (0.98 + powf (fmax 0.0 c.attrs.od) 2.0 / 2500.0)

/-- `compute_flashlight_value` -/
def computeFlashlightValue (c : OsuCalc R) : R :=
  if !c.mods.fl then 0.0 else computeFlashlightBody c

def computeFlashlightBodyDom (c : OsuCalc R) : Bool :=
    (if lt 0.0 c.effectiveMissCount then
      nz c.totalHits && powfDom (c.effectiveMissCount / c.totalHits) (0.775 : R)
        && powfDom c.effectiveMissCount (0.875 : R)
        && powfDom (1.0 - powf (c.effectiveMissCount / c.totalHits) 0.775) (powf c.effectiveMissCount 0.875)
     else true)
    && getComboScalingFactorDom c

def computeFlashlightValueDom (c : OsuCalc R) : Bool :=
  if !c.mods.fl then true else computeFlashlightBodyDom c

/-- `total_successful_hits(state)` -/
def osuTotalSuccessfulHits (s : OsuState) : Nat := s.n300 + s.n100 + s.n50

/-- the part of `calculate_deviation` between `p_lower_bound` and the selection of `deviation`:
returns `(deviation after the selection, p_lower_bound, random_value, deviation before the selection)` -/
def osuDeviationCore (sf : Special R) (c : OsuCalc R) (n p : R) : R × R × R × R :=
  let pLower := pLowerBound n p
  let greatHitWindow := c.attrs.greatHitWindow
  let okHitWindow := c.attrs.okHitWindow
  let deviation := greatHitWindow / (sqrt 2.0 * sf.erfInv pLower)
  let randomValue :=
    sqrt (2.0 / pi) * okHitWindow * exp (-0.5 * powf (okHitWindow / deviation) 2.0)
      / (deviation * sf.erf (okHitWindow / (sqrt 2.0 * deviation)))
  let deviation := deviation * sqrt (1.0 - randomValue)
  let limitValue := okHitWindow / sqrt 3.0
  let selected :=
    if beq pLower 0.0 || le 1.0 randomValue || lt limitValue deviation then limitValue else deviation
  (selected, pLower, randomValue, deviation)

/-- `calculate_deviation(great, ok, meh, miss)` -/
def calculateDeviation (sf : Special R) (c : OsuCalc R) (great ok meh miss : R) : Option R :=
  if le (great + ok + meh) 0.0 then none
  else
    let objectCount := great + ok + meh + miss
    let n := fmax 1.0 (objectCount - miss - meh)
    let p := great / n
    let deviation := (osuDeviationCore sf c n p).1
    let okHitWindow := c.attrs.okHitWindow
    let mehHitWindow := c.attrs.mehHitWindow
    let mehVariance :=
      (mehHitWindow * mehHitWindow + okHitWindow * mehHitWindow + okHitWindow * okHitWindow) / 3.0
    let deviation :=
      sqrt (((great + ok) * powf deviation 2.0 + meh * mehVariance) / (great + ok + meh))
    some deviation

/-- side conditions of `calculate_deviation`.  The block between `p_lower_bound` and the selection is
evaluated unconditionally by the code but its result is *discarded* when `p_lower_bound == 0.0` (then
`erf_inv` returns 0 and the first division is `x / 0`) — its conditions are required only when
`p_lower_bound != 0.0`.  `sqrt(1.0 - random_value)` carries no condition: a negative radicand means
`random_value >= 1.0`, in which case the selection overwrites the value. -/
def calculateDeviationDom (sf : Special R) (c : OsuCalc R) (great ok meh miss : R) : Bool :=
  if le (great + ok + meh) 0.0 then true
  else
    let objectCount := great + ok + meh + miss
    let n := fmax 1.0 (objectCount - miss - meh)
    let p := great / n
    let pLower := pLowerBound n p
    let dev0 := c.attrs.greatHitWindow / (sqrt 2.0 * sf.erfInv pLower)
    let selected := (osuDeviationCore sf c n p).1
    let mehVariance :=
      (c.attrs.mehHitWindow * c.attrs.mehHitWindow + c.attrs.okHitWindow * c.attrs.mehHitWindow
        + c.attrs.okHitWindow * c.attrs.okHitWindow) / 3.0
    nz n && pLowerBoundDom n p
    && (if beq pLower 0.0 then true
        else lt (-1.0) pLower && lt pLower 1.0 && nz (sqrt 2.0 * sf.erfInv pLower)
          && nz dev0 && nz (sqrt 2.0 * dev0)
          && nz (dev0 * sf.erf (c.attrs.okHitWindow / (sqrt 2.0 * dev0))))
    && nz (great + ok + meh)
    && le 0.0 (((great + ok) * powf selected 2.0 + meh * mehVariance) / (great + ok + meh))

/-- the relevant counts of `calculate_speed_deviation`: `(great, ok, meh, miss)` -/
def osuRelevantCounts (c : OsuCalc R) : R × R × R × R :=
  let s := c.state
  let speedNoteCount := c.attrs.speedNoteCount
  let speedNoteCount := speedNoteCount + (ofNat s.totalHits - c.attrs.speedNoteCount) * 0.1
  let relevantCountMiss := fmin (ofNat s.misses) speedNoteCount
  let relevantCountMeh := fmin (ofNat s.n50) (speedNoteCount - relevantCountMiss)
  let relevantCountOk := fmin (ofNat s.n100) (speedNoteCount - relevantCountMiss - relevantCountMeh)
  let relevantCountGreat :=
    fmax 0.0 (speedNoteCount - relevantCountMiss - relevantCountMeh - relevantCountOk)
  (relevantCountGreat, relevantCountOk, relevantCountMeh, relevantCountMiss)

/-- `calculate_speed_deviation` -/
def calculateSpeedDeviation (sf : Special R) (c : OsuCalc R) : Option R :=
  if osuTotalSuccessfulHits c.state = 0 then none
  else
    let (great, ok, meh, miss) := osuRelevantCounts c
    calculateDeviation sf c great ok meh miss

def calculateSpeedDeviationDom (sf : Special R) (c : OsuCalc R) : Bool :=
  if osuTotalSuccessfulHits c.state = 0 then true
  else
    let (great, ok, meh, miss) := osuRelevantCounts c
    calculateDeviationDom sf c great ok meh miss

/-- `OsuPerformanceAttributes` without the difficulty attributes -/
structure OsuOut (R : Type) where
  pp : R
  ppAcc : R
  ppAim : R
  ppFlashlight : R
  ppSpeed : R
  effectiveMissCount : R
  speedDeviation : Option R

/-- `multiplier` of `OsuPerformanceCalculator::calculate` (NF and SO penalties) -/
def osuMultiplier (c : OsuCalc R) : R :=
  let totalHits : R := ofNat c.state.totalHits
  let multiplier : R := 1.15
  let multiplier :=
    if c.mods.nf then multiplier * fmax (1.0 - 0.02 * c.effectiveMissCount) 0.9 else multiplier
  if c.mods.so && lt 0.0 totalHits then
    multiplier * (1.0 - powf (ofNat c.attrs.nSpinners / totalHits) 0.85)
  else multiplier

/-- `(n100_mult, n50_mult)` of the relax branch -/
def osuRelaxMultipliers (od : R) : R × R :=
  if lt 0.0 od then
    (fmax (1.0 - powf (od / 13.33) 1.8) 0.0, fmax (1.0 - powf (od / 13.33) 5.0) 0.0)
  else (1.0, 1.0)

/-- `self.effective_miss_count` after the `if self.mods.rx() { … }` block -/
def osuRelaxMisses (c : OsuCalc R) : R :=
  let totalHits : R := ofNat c.state.totalHits
  if c.mods.rx then
    let od := c.attrs.od
    let mults := osuRelaxMultipliers od
    fmin (c.effectiveMissCount + ofNat c.state.n100 * mults.1 + ofNat c.state.n50 * mults.2) totalHits
  else c.effectiveMissCount

/-- multiplier and relax adjustment of `OsuPerformanceCalculator::calculate`:
`(multiplier, effective_miss_count)` -/
def osuMultiplierAndMisses (c : OsuCalc R) : R × R := (osuMultiplier c, osuRelaxMisses c)

def osuMultiplierAndMissesDom (c : OsuCalc R) : Bool :=
  let totalHits : R := ofNat c.state.totalHits
  (if c.mods.so && lt 0.0 totalHits then
    nz totalHits && powfDom (ofNat c.attrs.nSpinners / totalHits) (0.85 : R) else true)
  && (if c.mods.rx && lt 0.0 c.attrs.od then powfDom (c.attrs.od / 13.33) (1.8 : R) else true)

/-- `OsuPerformanceCalculator::calculate` -/
def osuCalculatorCalculate (sf : Special R) (c : OsuCalc R) : OsuOut R :=
  if c.state.totalHits = 0 then
    { pp := 0.0, ppAcc := 0.0, ppAim := 0.0, ppFlashlight := 0.0, ppSpeed := 0.0,
      effectiveMissCount := 0.0, speedDeviation := none }
  else
    let (multiplier, emc) := osuMultiplierAndMisses c
    let c := { c with effectiveMissCount := emc }
    let speedDeviation := calculateSpeedDeviation sf c
    let aimValue := computeAimValue c
    let speedValue := computeSpeedValue c speedDeviation
    let accValue := computeAccuracyValue c
    let flashlightValue := computeFlashlightValue c
    let pp :=
      powf (powf aimValue 1.1 + powf speedValue 1.1 + powf accValue 1.1 + powf flashlightValue 1.1)
        (1.0 / 1.1) * multiplier
    { pp := pp, ppAcc := accValue, ppAim := aimValue, ppFlashlight := flashlightValue,
      ppSpeed := speedValue, effectiveMissCount := c.effectiveMissCount, speedDeviation := speedDeviation }

def osuCalculatorCalculateDom (sf : Special R) (c : OsuCalc R) : Bool :=
  if c.state.totalHits = 0 then true
  else
    let (_, emc) := osuMultiplierAndMisses c
    let c' := { c with effectiveMissCount := emc }
    let speedDeviation := calculateSpeedDeviation sf c'
    let aimValue := computeAimValue c'
    let speedValue := computeSpeedValue c' speedDeviation
    let accValue := computeAccuracyValue c'
    let flashlightValue := computeFlashlightValue c'
    osuMultiplierAndMissesDom c
    && calculateSpeedDeviationDom sf c'
    && computeAimValueDom c' && computeSpeedValueDom c' speedDeviation
    && computeAccuracyValueDom c' && computeFlashlightValueDom c'
    && powfDom aimValue (1.1 : R) && powfDom speedValue (1.1 : R) && powfDom accValue (1.1 : R)
    && powfDom flashlightValue (1.1 : R)
    && powfDom (powf aimValue 1.1 + powf speedValue 1.1 + powf accValue 1.1 + powf flashlightValue 1.1)
        (1.0 / 1.1 : R)

/-- `OsuPerformance::calculate` after `generate_state`: effective miss count, origin/accuracy, then
the calculator.  `lazer` = `difficulty.get_lazer()`, `classic` = `mods.no_slider_head_acc(lazer)`. -/
def osuCalculate (sf : Special R) (a : OsuAttrs R) (m : OsuMods) (s : OsuState) (lazer classic : Bool) : OsuOut R :=
  osuCalculatorCalculate sf
    { attrs := a, mods := m, acc := osuAccuracy a s lazer classic, state := s,
      effectiveMissCount := osuEffectiveMissCount a s classic, usingClassicSliderAcc := classic }

def osuCalculateDom (sf : Special R) (a : OsuAttrs R) (m : OsuMods) (s : OsuState) (lazer classic : Bool) : Bool :=
  osuEffectiveMissCountDom a s classic
  && osuCalculatorCalculateDom sf
    { attrs := a, mods := m, acc := osuAccuracy a s lazer classic, state := s,
      effectiveMissCount := osuEffectiveMissCount a s classic, usingClassicSliderAcc := classic }

/-! ## taiko -/

structure TaikoAttrs (R : Type) where
  greatHitWindow : R
  monoStaminaFactor : R
  stars : R
  maxCombo : Nat
  isConvert : Bool

structure TaikoMods where
  hd : Bool
  ez : Bool
  fl : Bool
  deriving DecidableEq, Repr, Inhabited

structure TaikoOut (R : Type) where
  pp : R
  ppAcc : R
  ppDifficulty : R
  effectiveMissCount : R
  estimatedUnstableRate : Option R

/-- `compute_deviation_upper_bound` -/
def taikoDeviationUpperBound (sf : Special R) (a : TaikoAttrs R) (s : TaikoState) : Option R :=
  if s.n300 = 0 || le a.greatHitWindow 0.0 then none
  else
    let n : R := ofNat s.totalHits
    let p := ofNat s.n300 / n
    let pLower := pLowerBound n p
    some (a.greatHitWindow / (sqrt 2.0 * sf.erfInv pLower))

def taikoDeviationUpperBoundDom (sf : Special R) (a : TaikoAttrs R) (s : TaikoState) : Bool :=
  if s.n300 = 0 || le a.greatHitWindow 0.0 then true
  else
    let n : R := ofNat s.totalHits
    let p := ofNat s.n300 / n
    let pLower := pLowerBound n p
    nz n && pLowerBoundDom n p && lt (-1.0) pLower && lt pLower 1.0 && nz (sqrt 2.0 * sf.erfInv pLower)

/-- `compute_difficulty_value` after `let Some(estimated_unstable_rate) = … else { return 0.0 }` -/
def taikoDifficultyBody (sf : Special R) (a : TaikoAttrs R) (m : TaikoMods) (effectiveMissCount : R)
    (estimatedUnstableRate : R) : R :=
  let baseDifficulty := 5.0 * fmax 1.0 (a.stars / 0.110) - 4.0
  let difficultyValue := fmin (powf baseDifficulty 3.0 / 69052.51) (powf baseDifficulty 2.25 / 1250.0)
  let difficultyValue := difficultyValue * (1.0 + 0.10 * fmax 0.0 (a.stars - 10.0))
  let lengthBonus := 1.0 + 0.1 * fmin 1.0 (ofNat a.maxCombo / 1500.0)
  let difficultyValue := difficultyValue * lengthBonus
  let difficultyValue := difficultyValue * powf 0.986 effectiveMissCount
  let difficultyValue := if m.ez then difficultyValue * 0.9 else difficultyValue
  let difficultyValue := if m.hd then difficultyValue * 1.025 else difficultyValue
  let difficultyValue :=
    if m.fl then
      difficultyValue * fmax 1.0 (1.05 - fmin (a.monoStaminaFactor / 50.0) 1.0 * lengthBonus)
    else difficultyValue
  let accScalingExp := ofNat 2 + a.monoStaminaFactor
  let accScalingShift := ofNat 500 - ofNat 100 * (a.monoStaminaFactor * ofNat 3)
  difficultyValue
    * powf (sf.erf (accScalingShift / (sqrt 2.0 * estimatedUnstableRate))) accScalingExp

/-- `compute_difficulty_value(effective_miss_count, estimated_unstable_rate)` -/
def taikoDifficultyValue (sf : Special R) (a : TaikoAttrs R) (m : TaikoMods) (effectiveMissCount : R)
    (estimatedUnstableRate : Option R) : R :=
  match estimatedUnstableRate with
  | none => 0.0
  | some estimatedUnstableRate => taikoDifficultyBody sf a m effectiveMissCount estimatedUnstableRate

def taikoDifficultyBodyDom (sf : Special R) (a : TaikoAttrs R) (eur : R) : Bool :=
  let baseDifficulty : R := 5.0 * fmax 1.0 (a.stars / 0.110) - 4.0
  let accScalingExp := ofNat 2 + a.monoStaminaFactor
  let accScalingShift := ofNat 500 - ofNat 100 * (a.monoStaminaFactor * ofNat 3)
  powfDom baseDifficulty (2.25 : R) && nz (sqrt 2.0 * eur)
    && powfDom (sf.erf (accScalingShift / (sqrt 2.0 * eur))) accScalingExp

def taikoDifficultyValueDom (sf : Special R) (a : TaikoAttrs R) (_m : TaikoMods) (_effectiveMissCount : R)
    (estimatedUnstableRate : Option R) : Bool :=
  match estimatedUnstableRate with
  | none => true
  | some eur => taikoDifficultyBodyDom sf a eur

/-- `compute_accuracy_value` after both early returns -/
def taikoAccuracyBody (a : TaikoAttrs R) (m : TaikoMods) (s : TaikoState) (estimatedUnstableRate : R) : R :=
  let accValue := powf (70.0 / estimatedUnstableRate) 1.1 * powf a.stars 0.4 * 100.0
  let lengthBonus := fmin 1.15 (powf (ofNat s.totalHits / 1500.0) 0.3)
  if m.hd && m.fl && !a.isConvert then accValue * fmax 1.0 (1.05 * lengthBonus) else accValue

/-- `compute_accuracy_value(estimated_unstable_rate)` -/
def taikoAccuracyValue (a : TaikoAttrs R) (m : TaikoMods) (s : TaikoState) (estimatedUnstableRate : Option R) : R :=
  if le a.greatHitWindow 0.0 then 0.0
  else
    match estimatedUnstableRate with
    | none => 0.0
    | some estimatedUnstableRate => taikoAccuracyBody a m s estimatedUnstableRate

def taikoAccuracyBodyDom (a : TaikoAttrs R) (s : TaikoState) (eur : R) : Bool :=
  nz eur && powfDom (70.0 / eur) (1.1 : R) && powfDom a.stars (0.4 : R)
    && powfDom (ofNat s.totalHits / 1500.0) (0.3 : R)

def taikoAccuracyValueDom (a : TaikoAttrs R) (_m : TaikoMods) (s : TaikoState) (estimatedUnstableRate : Option R) : Bool :=
  if le a.greatHitWindow 0.0 then true
  else
    match estimatedUnstableRate with
    | none => true
    | some eur => taikoAccuracyBodyDom a s eur

/-- `TaikoPerformanceCalculator::calculate` -/
def taikoCalculate (sf : Special R) (a : TaikoAttrs R) (m : TaikoMods) (s : TaikoState) : TaikoOut R :=
  let totalSuccessfulHits := s.n300 + s.n100
  let estimatedUnstableRate := (taikoDeviationUpperBound sf a s).map fun v => v * 10.0
  let effectiveMissCount : R :=
    if totalSuccessfulHits > 0 then fmax (1000.0 / ofNat totalSuccessfulHits) 1.0 * ofNat s.misses else 0.0
  let multiplier : R := 1.13
  let multiplier := if m.hd && !a.isConvert then multiplier * 1.075 else multiplier
  let multiplier := if m.ez then multiplier * 0.95 else multiplier
  let diffValue := taikoDifficultyValue sf a m effectiveMissCount estimatedUnstableRate
  let accValue := taikoAccuracyValue a m s estimatedUnstableRate
  let pp := powf (powf diffValue 1.1 + powf accValue 1.1) (1.0 / 1.1) * multiplier
  { pp := pp, ppAcc := accValue, ppDifficulty := diffValue, effectiveMissCount := effectiveMissCount,
    estimatedUnstableRate := estimatedUnstableRate }

def taikoCalculateDom (sf : Special R) (a : TaikoAttrs R) (m : TaikoMods) (s : TaikoState) : Bool :=
  let totalSuccessfulHits := s.n300 + s.n100
  let estimatedUnstableRate := (taikoDeviationUpperBound sf a s).map fun v => v * 10.0
  let effectiveMissCount : R :=
    if totalSuccessfulHits > 0 then fmax (1000.0 / ofNat totalSuccessfulHits) 1.0 * ofNat s.misses else 0.0
  let diffValue := taikoDifficultyValue sf a m effectiveMissCount estimatedUnstableRate
  let accValue := taikoAccuracyValue a m s estimatedUnstableRate
  taikoDeviationUpperBoundDom sf a s
  && (if totalSuccessfulHits > 0 then nz (ofNat totalSuccessfulHits : R) else true)
  && taikoDifficultyValueDom sf a m effectiveMissCount estimatedUnstableRate
  && taikoAccuracyValueDom a m s estimatedUnstableRate
  && powfDom diffValue (1.1 : R) && powfDom accValue (1.1 : R)
  && powfDom (powf diffValue 1.1 + powf accValue 1.1) (1.0 / 1.1 : R)

/-! ## catch -/

structure CatchAttrs (R : Type) where
  stars : R
  ar : R
  nFruits : Nat
  nDroplets : Nat

structure CatchMods where
  hd : Bool
  fl : Bool
  nf : Bool
  deriving DecidableEq, Repr, Inhabited

/-- `CatchDifficultyAttributes::max_combo` -/
def CatchAttrs.maxCombo (a : CatchAttrs R) : Nat := a.nFruits + a.nDroplets

/-- `CatchScoreState::accuracy` over `f64` -/
def catchAccuracy (s : CatchState) : R :=
  if s.totalHits = 0 then 0.0
  else ofNat (s.fruits + s.droplets + s.tinyDroplets) / ofNat s.totalHits

/-- `(5.0 * (stars / 0.0049).max(1.0) - 4.0).powf(2.0) / 100_000.0` -/
def catchBase (stars : R) : R := powf (5.0 * fmax (stars / 0.0049) 1.0 - 4.0) 2.0 / 100000.0

/-- `combo_hits` after the `if combo_hits == 0 { combo_hits = max_combo }` -/
def catchComboHits (a : CatchAttrs R) (s : CatchState) : Nat :=
  let comboHits := s.fruits + s.droplets + s.misses
  if comboHits = 0 then a.maxCombo else comboHits

/-- `len_bonus` -/
def catchLenBonus (comboHits : Nat) : R :=
  let lenBonus : R := 0.95 + 0.3 * fmin (ofNat comboHits / 2500.0) 1.0
  if comboHits > 2500 then lenBonus + log10 (ofNat comboHits / 2500.0) * 0.475 else lenBonus

/-- the combo scaling factor (evaluated when `state.max_combo > 0`) -/
def catchComboScaling (stateCombo maxCombo : Nat) : R :=
  fmin (powf (ofNat stateCombo) 0.8 / powf (ofNat maxCombo) 0.8) 1.0

/-- `ar_factor` -/
def catchArFactor (ar : R) : R :=
  let arFactor : R := 1.0
  if lt 9.0 ar then
    arFactor + (0.1 * (ar - 9.0) + (if lt 10.0 ar then 1.0 else 0.0) * 0.1 * (ar - 10.0))
  else if lt ar 8.0 then arFactor + 0.025 * (8.0 - ar)
  else arFactor

/-- HD bonus for `ar <= 10.0` / for `ar > 10.0` -/
def catchHdLow (ar : R) : R := 1.05 + 0.075 * (10.0 - ar)
def catchHdHigh (ar : R) : R := 1.01 + 0.04 * (11.0 - fmin ar 11.0)

/-- NF penalty -/
def catchNfFactor (misses : Nat) : R := fmax (1.0 - 0.02 * ofNat misses) 0.9

/-- `CatchPerformanceCalculator::calculate` (returns `pp`) -/
def catchCalculate (a : CatchAttrs R) (m : CatchMods) (s : CatchState) : R :=
  let maxCombo := a.maxCombo
  let pp := catchBase a.stars
  let comboHits := catchComboHits a s
  let lenBonus : R := catchLenBonus comboHits
  let pp := pp * lenBonus
  let pp := pp * powf 0.97 (ofNat s.misses)
  let pp := if s.maxCombo > 0 then pp * catchComboScaling s.maxCombo maxCombo else pp
  let ar := a.ar
  let pp := pp * catchArFactor ar
  let pp :=
    if m.hd then
      if le ar 10.0 then pp * catchHdLow ar
      else if lt 10.0 ar then pp * catchHdHigh ar
      else pp
    else pp
  let pp := if m.fl then pp * (1.35 * lenBonus) else pp
  let pp := pp * powf (catchAccuracy s) 5.5
  if m.nf then pp * catchNfFactor s.misses else pp

def catchCalculateDom (a : CatchAttrs R) (_m : CatchMods) (s : CatchState) : Bool :=
  let comboHits := catchComboHits a s
  (if comboHits > 2500 then lt 0.0 (ofNat comboHits / 2500.0 : R) else true)
  && (if s.maxCombo > 0 then
        powfDom (ofNat s.maxCombo) (0.8 : R) && powfDom (ofNat a.maxCombo) (0.8 : R)
          && nz (powf (ofNat a.maxCombo) 0.8 : R)
      else true)
  && (if s.totalHits = 0 then true else nz (ofNat s.totalHits : R))
  && powfDom (catchAccuracy s) (5.5 : R)

/-! ## mania -/

structure ManiaMods where
  nf : Bool
  ez : Bool
  deriving DecidableEq, Repr, Inhabited

/-- `calculate_custom_accuracy` + `custom_accuracy` -/
def maniaCustomAccuracy (s : ManiaState) : R :=
  if s.totalHits = 0 then 0.0
  else
    ofNat (s.n320 * 32 + s.n300 * 30 + s.n200 * 20 + s.n100 * 10 + s.n50 * 5) / ofNat (s.totalHits * 32)

/-- `compute_difficulty_value` -/
def maniaDifficultyValue (stars : R) (s : ManiaState) : R :=
  8.0 * powf (fmax (stars - 0.15) 0.05) 2.2
    * fmax 0.0 (5.0 * maniaCustomAccuracy s - 4.0)
    * (1.0 + 0.1 * fmin 1.0 (ofNat s.totalHits / 1500.0))

/-- `ManiaPerformanceCalculator::calculate`: `(pp, pp_difficulty)` -/
def maniaCalculate (stars : R) (m : ManiaMods) (s : ManiaState) : R × R :=
  let multiplier : R := 1.0
  let multiplier := if m.nf then multiplier * 0.75 else multiplier
  let multiplier := if m.ez then multiplier * 0.5 else multiplier
  let difficultyValue := maniaDifficultyValue stars s
  (difficultyValue * multiplier, difficultyValue)

def maniaCalculateDom (stars : R) (_m : ManiaMods) (s : ManiaState) : Bool :=
  powfDom (fmax (stars - 0.15) 0.05) (2.2 : R)
  && (if s.totalHits = 0 then true else nz (ofNat (s.totalHits * 32) : R))

end

end Rosu.PerfCalc
