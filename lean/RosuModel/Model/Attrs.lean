import RosuModel.Gen.AttrConsts
import RosuModel.Model.ModNames

/-!
# Attribute builder (C17, used by C08) — exact model over ℚ

Transcribes `/repo/src/model/beatmap/attributes.rs`:
`BeatmapAttributesBuilder::{difficulty, hit_windows, build}`, `difficulty_range`,
`ModsDependentKind::{with_mods, value}`, `osu_great_hit_window_to_od`, and the part of
`Difficulty` (`/repo/src/any/difficulty/mod.rs`) that feeds the builder.

Every f32/f64 of the Rust code is a rational here (treatment F-exact of DESIGN.md §3): the
formulas are piecewise linear / rational plus `floor`, `ceil`, `round_ties_even`, `min`, `clamp`.
Numeric constants come from `Gen/AttrConsts.lean`, regenerated from the source on every run.
Core Lean only (compiled into the driver).
-/

namespace Rosu.Attrs
open Rosu.Gen

export Rosu.Mods (Mode)

/-- `ModsDependent { value, with_mods }` -/
structure ModsDependent where
  value : Rat
  withMods : Bool
  deriving DecidableEq, Repr, Inhabited

/-- `ModsDependentKind` -/
inductive Kind
  | dflt (m : ModsDependent)
  | custom (m : ModsDependent)
  deriving DecidableEq, Repr, Inhabited

/-- `ModsDependentKind::with_mods` -/
def Kind.withMods : Kind → Bool
  | .dflt m => m.withMods
  | .custom m => m.withMods

/-- `ModsDependentKind::value(mods, mods_fn)`; `fromMods = mods_fn(mods)`. -/
def Kind.value (k : Kind) (fromMods : Option Rat) : Rat :=
  match k with
  | .dflt m => match fromMods with
    | some n => n
    | none => m.value
  | .custom m => m.value

/-- What the builder reads from `GameMods` (the accessors are modelled in `Model/Mods.lean`). -/
structure ModsView where
  clockRate : Rat
  hr : Bool
  ez : Bool
  ar : Option Rat
  cs : Option Rat
  hp : Option Rat
  od : Option Rat
  /-- `od_ar_hp_multiplier()` -/
  mult : Rat
  deriving DecidableEq, Repr, Inhabited

/-- `BeatmapAttributesBuilder` -/
structure Builder where
  mode : Mode
  isConvert : Bool
  ar : Kind
  od : Kind
  cs : Kind
  hp : Kind
  mods : ModsView
  clockRate : Option Rat
  deriving DecidableEq, Repr, Inhabited

/-- The part of `Difficulty` the builder reads. -/
structure DifficultyView where
  mods : ModsView
  /-- `Difficulty::clock_rate` as stored (already clamped) -/
  clockRate : Option Rat
  ar : Option ModsDependent
  cs : Option ModsDependent
  hp : Option ModsDependent
  od : Option ModsDependent
  deriving DecidableEq, Repr, Inhabited

def rmin (a b : Rat) : Rat := if a ≤ b then a else b
def rmax (a b : Rat) : Rat := if a ≤ b then b else a
/-- `f32::clamp(lo, hi)` (`lo ≤ hi`) -/
def rclamp (x lo hi : Rat) : Rat := if x < lo then lo else if hi < x then hi else x
def rfloor (x : Rat) : Int := x.floor
def rceil (x : Rat) : Int := -((-x).floor)

/-- `f32::round_ties_even` -/
def roundTiesEven (x : Rat) : Int :=
  let f := rfloor x
  let d := x - (f : Rat)
  if d < 1 / 2 then f else if 1 / 2 < d then f + 1 else if f % 2 = 0 then f else f + 1

/-- `Difficulty::clock_rate(r)`: `r.clamp(0.01, 100.0)` -/
def clampClockRate (r : Rat) : Rat := rclamp r (1 / 100) 100

/-- `Difficulty::{ar,cs,hp,od}(v, with_mods)`: `v.clamp(-20.0, 20.0)` -/
def clampAttr (v : Rat) : Rat := rclamp v (-20) 20

/-- `Difficulty::get_clock_rate` -/
def DifficultyView.getClockRate (d : DifficultyView) : Rat :=
  match d.clockRate with
  | some r => r
  | none => d.mods.clockRate

/-- `BeatmapAttributesBuilder::difficulty` -/
def Builder.difficulty (b : Builder) (d : DifficultyView) : Builder :=
  { mode := b.mode
    isConvert := b.isConvert
    ar := match d.ar with | some m => .custom m | none => b.ar
    od := match d.od with | some m => .custom m | none => b.od
    cs := match d.cs with | some m => .custom m | none => b.cs
    hp := match d.hp with | some m => .custom m | none => b.hp
    mods := d.mods
    clockRate := some d.getClockRate }

/-- `difficulty_range(difficulty, GameModeHitWindows { min, avg, max })` -/
def difficultyRange (d : Rat) (w : Rat × Rat × Rat) : Rat :=
  let min := w.1
  let mid := w.2.1
  let max := w.2.2
  if 5 < d then mid + (max - mid) * (d - 5) / 5
  else if d < 5 then mid - (mid - min) * (5 - d) / 5
  else mid

structure HitWindows where
  ar : Rat
  odGreat : Rat
  odOk : Option Rat
  odMeh : Option Rat
  deriving DecidableEq, Repr, Inhabited

structure Attributes where
  ar : Rat
  od : Rat
  cs : Rat
  hp : Rat
  clockRate : Rat
  hitWindows : HitWindows
  deriving DecidableEq, Repr, Inhabited

/-- the closure `mod_mult` of `hit_windows` -/
def modMult (m : ModsView) (v : Rat) : Rat :=
  if m.hr then rmin (v * AttrConsts.hrMult) AttrConsts.hrCap
  else if m.ez then v * AttrConsts.ezMult
  else v

/-- effective clock rate: `self.clock_rate.unwrap_or_else(|| mods.clock_rate())` -/
def Builder.rate (b : Builder) : Rat :=
  match b.clockRate with
  | some r => r
  | none => b.mods.clockRate

def Builder.arClock (b : Builder) : Rat := if b.ar.withMods then 1 else b.rate
def Builder.odClock (b : Builder) : Rat := if b.od.withMods then 1 else b.rate

def Builder.rawAr (b : Builder) : Rat :=
  if b.ar.withMods then b.ar.value b.mods.ar else modMult b.mods (b.ar.value b.mods.ar)

/-- `raw_od` of the osu!/catch and taiko arms -/
def Builder.rawOd (b : Builder) : Rat :=
  if b.od.withMods then b.od.value b.mods.od else modMult b.mods (b.od.value b.mods.od)

/-- `value` of the mania arm, after the HR/EZ adjustment -/
def Builder.maniaValue (b : Builder) : Rat :=
  let odv := b.od.value b.mods.od
  let v0 :=
    if !b.isConvert then
      AttrConsts.maniaBase + AttrConsts.maniaSlope * rclamp (AttrConsts.maniaTen - odv) 0 10
    else if AttrConsts.maniaConvThreshold < (roundTiesEven odv : Rat) then AttrConsts.maniaConvHard
    else AttrConsts.maniaConvEasy
  if !b.od.withMods then
    if b.mods.hr then v0 / AttrConsts.maniaHrDiv
    else if b.mods.ez then v0 * AttrConsts.maniaEzMult
    else v0
  else v0

/-- `((value * od_clock_rate).floor() / od_clock_rate).ceil()` -/
def maniaGreat (value rate : Rat) : Rat := (rceil ((rfloor (value * rate) : Rat) / rate) : Rat)

/-- `BeatmapAttributesBuilder::hit_windows` -/
def Builder.hitWindows (b : Builder) : HitWindows :=
  let preempt := difficultyRange b.rawAr AttrConsts.AR_WINDOWS / b.arClock
  match b.mode with
  | .osu | .catch =>
    { ar := preempt
      odGreat := difficultyRange b.rawOd AttrConsts.OSU_GREAT / b.odClock
      odOk := some (difficultyRange b.rawOd AttrConsts.OSU_OK / b.odClock)
      odMeh := some (difficultyRange b.rawOd AttrConsts.OSU_MEH / b.odClock) }
  | .taiko =>
    { ar := preempt
      odGreat := difficultyRange b.rawOd AttrConsts.TAIKO_GREAT / b.odClock
      odOk := some (difficultyRange b.rawOd AttrConsts.TAIKO_OK / b.odClock)
      odMeh := none }
  | .mania =>
    { ar := preempt
      odGreat := maniaGreat b.maniaValue b.odClock
      odOk := none
      odMeh := none }

/-- HP of `build` -/
def Builder.hpOut (b : Builder) : Rat :=
  let hp := b.hp.value b.mods.hp
  let hp := if !b.hp.withMods then hp * b.mods.mult else hp
  rmin hp AttrConsts.hpCap

/-- CS of `build` -/
def Builder.csOut (b : Builder) : Rat :=
  let cs := b.cs.value b.mods.cs
  if !b.cs.withMods then
    if b.mods.hr then rmin (cs * AttrConsts.csHrMult) AttrConsts.csHrCap
    else if b.mods.ez then cs * AttrConsts.csEzMult
    else cs
  else cs

/-- the AR inverse of `build` -/
def arOfPreempt (ar : Rat) : Rat :=
  if 1200 < ar then (1800 - ar) / 120 else (1200 - ar) / 150 + 5

/-- `osu_great_hit_window_to_od` -/
def osuGreatToOd (w : Rat) : Rat := (AttrConsts.OSU_GREAT.1 - w) / 6

/-- the OD `match` of `build` -/
def Builder.odOut (b : Builder) (odGreat : Rat) : Rat :=
  match b.mode with
  | .osu => osuGreatToOd odGreat
  | .taiko =>
    (AttrConsts.TAIKO_GREAT.1 - odGreat) / (AttrConsts.TAIKO_GREAT.1 - AttrConsts.TAIKO_GREAT.2.1) * 5
  | .catch | .mania => b.od.value b.mods.od

/-- `BeatmapAttributesBuilder::build` -/
def Builder.build (b : Builder) : Attributes :=
  let hw := b.hitWindows
  { ar := arOfPreempt hw.ar
    od := b.odOut hw.odGreat
    cs := b.csOut
    hp := b.hpOut
    clockRate := b.rate
    hitWindows := hw }

end Rosu.Attrs
