import RosuModel.Model.Gradual

/-
Model of the *proposed* repair of `TaikoGradualDifficulty::{next, nth}`
(docs/proposed-fix-taiko-gradual-first-two.patch — NOT part of /repo): instead of special-casing
`idx < 2` through `FirstTwoCombos` match arms, a hit among the first two objects (which have no
difficulty object) is reported without processing anything, and the hit loop starts as soon as
`idx` has reached the number of hits among the first two objects.

```text
fn next(&mut self) -> Option<Self::Item> {
    if self.idx >= self.first_combos.n_hits() {
        loop { let curr = self.diff_objects_iter.next()?; …process…;
               if curr.is_hit() { self.attrs.max_combo += 1; break; } }
    } else {
        self.attrs.max_combo += 1;
    }
    self.idx += 1;
    …
}
fn nth(&mut self, n: usize) -> Option<Self::Item> {
    let mut take = cmp::min(n, self.len().saturating_sub(1));
    while take > 0 && self.idx < self.first_combos.n_hits() {
        take -= 1; self.idx += 1; self.attrs.max_combo += 1;
    }
    for _ in 0..take { loop { … } }
    self.next()
}
```
`len()` stays `self.total_hits - self.idx` (checked here).  Core Lean only.
-/
namespace Rosu.Gradual

/-- `FirstTwoCombos::n_hits` -/
def FirstTwoCombos.nHits : FirstTwoCombos → Nat
  | .none => 0
  | .onlyFirst => 1
  | .onlySecond => 1
  | .both => 2

/-- `Iterator::next` as repaired. -/
def taikoNextFixed {S} (sk : Skills S) (objs : List Bool) (g : TaikoGrad S) :
    Option (Nat × S) × TaikoGrad S :=
  let bases := objs.drop 2
  if g.idx ≥ (taikoFirstCombos objs).nHits then
    match taikoHitLoop sk bases (bases.length + 1) g with
    | (false, g') => (none, g')
    | (true, g') =>
      let g'' := { g' with maxCombo := g'.maxCombo + 1, idx := g'.idx + 1 }
      (some (g''.maxCombo, g''.skills), g'')
  else
    let g' := { g with maxCombo := g.maxCombo + 1, idx := g.idx + 1 }
    (some (g'.maxCombo, g'.skills), g')

/-- `Iterator::nth` as repaired (`len()` checked: `none` = the subtraction would underflow). -/
def taikoNthFixed {S} (sk : Skills S) (objs : List Bool) (g : TaikoGrad S) (n : Nat) :
    Res (Nat × S) × TaikoGrad S :=
  match taikoLen objs g with
  | none => (.panic, g)
  | some len =>
    let take := min n (len - 1)
    -- `while take > 0 && self.idx < n_hits { take -= 1; self.idx += 1; self.attrs.max_combo += 1; }`
    let skip := min take ((taikoFirstCombos objs).nHits - g.idx)
    let g1 := { g with idx := g.idx + skip, maxCombo := g.maxCombo + skip }
    match taikoNthLoop sk (objs.drop 2) (take - skip) g1 with
    | (false, g2) => (.none, g2)
    | (true, g2) =>
      match taikoNextFixed sk objs g2 with
      | (some v, g3) => (.some v, g3)
      | (none, g3) => (.none, g3)

def taikoMachineFixed {S} (sk : Skills S) (objs : List Bool) : Machine (TaikoGrad S) (Nat × S) where
  next g := let r := taikoNextFixed sk objs g; (optToRes r.1, r.2)
  nth g k := taikoNthFixed sk objs g k
  len g := taikoLen objs g

end Rosu.Gradual
