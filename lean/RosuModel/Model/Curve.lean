/-
Executable model of the slider path mathematics (core Lean only):

* `Curve::new` / `BorrowedCurve::new`, `calculate_path` (segmentation of the control points into
  sub-paths at every point that carries a path type), `calculate_subpath` (linear, perfect curve with
  its three-point circular arc and the fallback to bezier, catmull with the osu!-only optimisation
  pass, b-spline = bezier), `approximate_bspline` (the explicit stack of not-yet-flat curves),
  `bezier_is_flat_enough`, `bezier_subdivide`, `bezier_approximate`, `approximate_catmull`,
  `catmull_subpath`, `approximate_circular_arc`, `circular_arc_properties`, `calculate_length`
  (cumulative lengths, the expected-distance cut / extension of the last segment), `position_at`,
  `progress_to_dist`, `dist`, `idx_of_dist` (`slice::binary_search_by` of std 1.82+, the branch-free
  halving loop), `interpolate_vertices`
      — rosu-map 0.2.1, src/section/hit_objects/slider/curve.rs
* `Pos` and its operators (`length` goes through `f64`) — rosu-map 0.2.1, src/util/pos.rs

The arithmetic is a parameter (`Arith S D`: `S` = the `f32` operations, `D` = the `f64` operations,
the two casts, and the libm calls `acosf`, `atan2`, `sin`, `cos`, `sqrt`): statement by statement the
same operations in the same order as the Rust code.  The driver instantiates it with IEEE
`Float32`/`Float` (`Model/CurveWire.lean`), which replays the computation bit for bit; the theorems
of `Props/C05f.lean` / `Props/C09g.lean` are either about EVERY arithmetic (no checked operation
fails, vertex counts) or about an ordered field (`Lemmas/Curve*.lean`).

Every index, slice range, `usize` subtraction, `pop`/`unwrap` of the code is a CHECKED operation here
(`Err.oob` / `Err.underflow`); every loop without a syntactic bound (`while let Some(..) =
to_flatten.pop()`, `while theta_end < theta_start`) takes fuel (`Err.fuel`).
-/
namespace Rosu.Curve

inductive Err where
  /-- index / slice range out of bounds, `copy_from_slice` length mismatch -/
  | oob
  /-- `usize` subtraction below zero -/
  | underflow
  /-- `unreachable!()` -/
  | unreachable
  /-- a loop ran out of fuel (the code has no such limit: a hang) -/
  | fuel
deriving DecidableEq, Repr

abbrev R := Except Err

/-- `Pos { x: f32, y: f32 }`. -/
structure Pos (S : Type) where
  x : S
  y : S

/-- The operations the curve code performs. `S` = `f32`, `D` = `f64`. -/
structure Arith (S D : Type) where
  /-- `f32` literals that are integers, `usize as f32` -/
  sOfInt : Int → S
  sNeg : S → S
  sAdd : S → S → S
  sSub : S → S → S
  sMul : S → S → S
  sDiv : S → S → S
  sAbs : S → S
  sLt : S → S → Bool
  sLe : S → S → Bool
  /-- `f32 == f32` (what the derived `PartialEq` of `Pos` uses) -/
  sEq : S → S → Bool
  /-- `f32::acos` -/
  sAcos : S → S
  /-- `f64` literals that are integers, `usize as f64` -/
  dOfInt : Int → D
  dAdd : D → D → D
  dSub : D → D → D
  dMul : D → D → D
  dDiv : D → D → D
  dAbs : D → D
  dLt : D → D → Bool
  dLe : D → D → Bool
  dSqrt : D → D
  /-- `y.atan2(x)` -/
  dAtan2 : D → D → D
  dSin : D → D
  dCos : D → D
  /-- `x.ceil() as usize` (saturating, NaN ↦ 0) -/
  dCeilUsize : D → Nat
  /-- `std::f64::consts::PI` -/
  dPi : D
  /-- `f64::from(f32)` -/
  toD : S → D
  /-- `f64 as f32` -/
  toS : D → S

/-! ## checked container operations -/

def getC {α : Type} (a : Array α) (i : Nat) : R α :=
  match a[i]? with
  | some v => .ok v
  | none => .error .oob

def setC {α : Type} (a : Array α) (i : Nat) (v : α) : R (Array α) :=
  if i < a.size then .ok (a.setIfInBounds i v) else .error .oob

/-- `a - b` on `usize`. -/
def subC (a b : Nat) : R Nat := if b ≤ a then .ok (a - b) else .error .underflow

/-- `cond` must hold or the slice operation panics. -/
def need (cond : Bool) : R Unit := if cond then .ok () else .error .oob

section
variable {S D : Type} (A : Arith S D)

/-! ## `Pos` -/

def zero : Pos S := ⟨A.sOfInt 0, A.sOfInt 0⟩
def padd (a b : Pos S) : Pos S := ⟨A.sAdd a.x b.x, A.sAdd a.y b.y⟩
def psub (a b : Pos S) : Pos S := ⟨A.sSub a.x b.x, A.sSub a.y b.y⟩
def pmul (a : Pos S) (k : S) : Pos S := ⟨A.sMul a.x k, A.sMul a.y k⟩
def pdiv (a : Pos S) (k : S) : Pos S := ⟨A.sDiv a.x k, A.sDiv a.y k⟩
def dot (a b : Pos S) : S := A.sAdd (A.sMul a.x b.x) (A.sMul a.y b.y)
def lenSq (a : Pos S) : S := dot A a a
/-- `f64::from(self.x * self.x + self.y * self.y).sqrt() as f32` -/
def length (a : Pos S) : S := A.toS (A.dSqrt (A.toD (A.sAdd (A.sMul a.x a.x) (A.sMul a.y a.y))))
def distance (a b : Pos S) : S := length A (psub A a b)
/-- `let scale = self.length().recip(); self.x *= scale; self.y *= scale` -/
def normalize (a : Pos S) : Pos S :=
  let scale := A.sDiv (A.sOfInt 1) (length A a)
  ⟨A.sMul a.x scale, A.sMul a.y scale⟩
/-- derived `PartialEq` -/
def peq (a b : Pos S) : Bool := A.sEq a.x b.x && A.sEq a.y b.y

def two : S := A.sOfInt 2
/-- `0.25` / `BEZIER_TOLERANCE` (exact in `f32`) -/
def quarter : S := A.sDiv (A.sOfInt 1) (A.sOfInt 4)
def half : S := A.sDiv (A.sOfInt 1) (A.sOfInt 2)
/-- `CIRCULAR_ARC_TOLERANCE = 0.1f32` (the correctly rounded quotient is the literal) -/
def tenth : S := A.sDiv (A.sOfInt 1) (A.sOfInt 10)
/-- `f32::EPSILON = 2^-23` -/
def sEps : S := A.sDiv (A.sOfInt 1) (A.sOfInt 8388608)
/-- `f64::EPSILON = 2^-52` -/
def dEps : D := A.dDiv (A.dOfInt 1) (A.dOfInt 4503599627370496)
/-- `2.0 * PI` -/
def twoPi : D := A.dMul (A.dOfInt 2) A.dPi

/-! ## bezier -/

/-- `BEZIER_TOLERANCE * BEZIER_TOLERANCE * 4.0` -/
def flatLimit : S := A.sMul (A.sMul (quarter A) (quarter A)) (A.sOfInt 4)

/-- `(prev - curr * 2.0 + next).length_squared()` -/
def secondDiffSq (prev curr next : Pos S) : S :=
  lenSq A (padd A (psub A prev (pmul A curr (two A))) next)

/-- `.any(|((prev, curr), next)| (prev - curr * 2.0 + next).length_squared() > limit)` over the
windows of three consecutive points. -/
def anyNotFlat : List (Pos S) → Bool
  | a :: b :: c :: rest =>
    A.sLt (flatLimit A) (secondDiffSq A a b c) || anyNotFlat (b :: c :: rest)
  | _ => false

def isFlatEnough (pts : Array (Pos S)) : Bool := !anyNotFlat A pts.toList

/-- `for j in 0..i { midpoints[j] = (midpoints[j] + midpoints[j + 1]) / 2.0 }` — `n` iterations
from `j`. -/
def midLoop : (n j : Nat) → Array (Pos S) → R (Array (Pos S))
  | 0, _, mid => .ok mid
  | n + 1, j, mid => do
    let a ← getC mid j
    let b ← getC mid (j + 1)
    let mid ← setC mid j (pdiv A (padd A a b) (two A))
    midLoop n (j + 1) mid

/-- `for i in (1..count).rev() { l[count - i - 1] = midpoints[0]; r[i] = midpoints[i]; for j … }`:
the iterations `i, i-1, …, 1`. -/
def subLoop (count : Nat) : (i : Nat) → (l r mid : Array (Pos S)) →
    R (Array (Pos S) × Array (Pos S) × Array (Pos S))
  | 0, l, r, mid => .ok (l, r, mid)
  | i + 1, l, r, mid => do
    let m0 ← getC mid 0
    let ci ← subC count (i + 1)
    let li ← subC ci 1
    let l ← setC l li m0
    let mi ← getC mid (i + 1)
    let r ← setC r (i + 1) mi
    let mid ← midLoop A (i + 1) 0 mid
    subLoop count i l r mid

/-- `midpoints[..count].copy_from_slice(&points[..count])` -/
def copyPrefix (dst src : Array (Pos S)) (count : Nat) : R (Array (Pos S)) := do
  need (decide (count ≤ dst.size) && decide (count ≤ src.size))
  .ok (src.extract 0 count ++ dst.extract count dst.size)

/-- `bezier_subdivide(points, l, r, midpoints)`; returns the three buffers. -/
def subdivide (pts l r mid : Array (Pos S)) :
    R (Array (Pos S) × Array (Pos S) × Array (Pos S)) := do
  let count := pts.size
  let mid ← copyPrefix mid pts count
  let (l, r, mid) ← subLoop A count (count - 1) l r mid
  let m0 ← getC mid 0
  let cm1 ← subC count 1
  let l ← setC l cm1 m0
  let r ← setC r 0 m0
  .ok (l, r, mid)

/-- `.skip(1).zip(skip(2)).zip(skip(3)).step_by(2).map(|((prev, curr), next)| (prev + curr * 2.0 +
next) * 0.25)`, the chain given from its element 1 on (`a` = the current `prev`). -/
def approxFrom (a : Pos S) : List (Pos S) → List (Pos S)
  | b :: c :: rest =>
    pmul A (padd A (padd A a (pmul A b (two A))) c) (quarter A) :: approxFrom c rest
  | _ => []

/-- The four `BezierBuffers`. -/
structure Bez (S : Type) where
  left : Array (Pos S)
  right : Array (Pos S)
  mid : Array (Pos S)
  leftChild : Array (Pos S)

/-- `bezier_approximate(points, path, left, right, midpoints)` -/
def approximate (pts : Array (Pos S)) (path : Array (Pos S)) (b : Bez S) :
    R (Array (Pos S) × Bez S) := do
  let count := pts.size
  let (l, r, mid) ← subdivide A pts b.left b.right b.mid
  let p0 ← getC pts 0
  let path := path.push p0
  -- `&l[..count]`, `&r[1..count]`
  need (decide (count ≤ l.size) && decide (1 ≤ count) && decide (count ≤ r.size))
  let chain := (l.extract 0 count).toList ++ (r.extract 1 count).toList
  let out := match chain with
    | _ :: c1 :: rest => approxFrom A c1 rest
    | _ => []
  .ok (path ++ out.toArray, { b with left := l, right := r, mid := mid })

/-- `while let Some(parent) = to_flatten.pop() { … }` of `approximate_bspline`; the stack is a list
with its top first.  `free_bufs` only recycles allocations: `bezier_subdivide` overwrites all `p`
entries of `right_child`, so a fresh zeroed vector is the same. -/
def bsplineLoop (p : Nat) : (fuel : Nat) → List (Array (Pos S)) → Array (Pos S) → Bez S →
    R (Array (Pos S) × Bez S)
  | _, [], path, b => .ok (path, b)
  | 0, _ :: _, _, _ => .error .fuel
  | fuel + 1, parent :: rest, path, b =>
    if isFlatEnough A parent then do
      let (path, b) ← approximate A parent path b
      bsplineLoop p fuel rest path b
    else do
      let rc : Array (Pos S) := Array.replicate p (zero A)
      let (lc, rc, mid) ← subdivide A parent b.leftChild rc b.mid
      -- `parent.to_mut().copy_from_slice(&left_child[..p])`
      need (decide (p ≤ lc.size) && decide (parent.size = p))
      let parent' := lc.extract 0 p
      bsplineLoop p fuel (parent' :: rc :: rest) path { b with leftChild := lc, mid := mid }

/-- `BezierBuffers::extend_exact(len)` -/
def extendExact (b : Bez S) (len : Nat) : Bez S :=
  if len ≤ b.left.size then b
  else
    let add := Array.replicate (len - b.left.size) (zero A)
    { left := b.left ++ add, right := b.right ++ add, mid := b.mid ++ add,
      leftChild := b.leftChild ++ add }

/-- `approximate_bezier` = `extend_exact` + `approximate_bspline`. -/
def approximateBezier (fuel : Nat) (path : Array (Pos S)) (pts : Array (Pos S)) (b : Bez S) :
    R (Array (Pos S) × Bez S) := do
  let b := extendExact A b pts.size
  let p := pts.size
  let (path, b) ← bsplineLoop A p fuel [pts] path b
  let pm1 ← subC p 1
  let last ← getC pts pm1
  .ok (path.push last, b)

/-! ## catmull -/

/-- One coordinate of `catmull_subpath`: `0.5 * (x1 + x2 * t1 + x3 * t2 + x4 * t3)`. -/
def catmullCoord (x1 x2 x3 x4 t1 : S) : S :=
  let t2 := A.sMul t1 t1
  let t3 := A.sMul t2 t1
  A.sMul (half A)
    (A.sAdd (A.sAdd (A.sAdd x1 (A.sMul x2 t1)) (A.sMul x3 t2)) (A.sMul x4 t3))

/-- The two points `catmull_subpath` emits for `c`. -/
def catmullPair (v1 v2 v3 v4 : Pos S) (c : Nat) : List (Pos S) :=
  let x1 := A.sMul (two A) v2.x
  let x2 := A.sAdd (A.sNeg v1.x) v3.x
  let x3 := A.sSub (A.sAdd (A.sSub (A.sMul (two A) v1.x) (A.sMul (A.sOfInt 5) v2.x))
    (A.sMul (A.sOfInt 4) v3.x)) v4.x
  let x4 := A.sAdd (A.sAdd (A.sNeg v1.x) (A.sMul (A.sOfInt 3) (A.sSub v2.x v3.x))) v4.x
  let y1 := A.sMul (two A) v2.y
  let y2 := A.sAdd (A.sNeg v1.y) v3.y
  let y3 := A.sSub (A.sAdd (A.sSub (A.sMul (two A) v1.y) (A.sMul (A.sOfInt 5) v2.y))
    (A.sMul (A.sOfInt 4) v3.y)) v4.y
  let y4 := A.sAdd (A.sAdd (A.sNeg v1.y) (A.sMul (A.sOfInt 3) (A.sSub v2.y v3.y))) v4.y
  let detail := A.sOfInt 50
  let cf := A.sOfInt c
  let ta := A.sDiv cf detail
  let tb := A.sDiv (A.sAdd cf (A.sOfInt 1)) detail
  [⟨catmullCoord A x1 x2 x3 x4 ta, catmullCoord A y1 y2 y3 y4 ta⟩,
   ⟨catmullCoord A x1 x2 x3 x4 tb, catmullCoord A y1 y2 y3 y4 tb⟩]

/-- `CATMULL_DETAIL` -/
def catmullDetail : Nat := 50

/-- `catmull_subpath`: `2 * CATMULL_DETAIL` points. -/
def catmullSubpath (v1 v2 v3 v4 : Pos S) : List (Pos S) :=
  (List.range catmullDetail).flatMap (catmullPair A v1 v2 v3 v4)

/-- The `for (i, (&v1, &v2)) in (2..len).zip(points.iter().zip(points.iter().skip(1)))` loop:
`n` iterations from `k` (`i = k + 2`). -/
def catmullLoop (pts : Array (Pos S)) : (n k : Nat) → Array (Pos S) → R (Array (Pos S))
  | 0, _, path => .ok path
  | n + 1, k, path => do
    let v1 ← getC pts k
    let v2 ← getC pts (k + 1)
    let v3 := match pts[k + 2]? with
      | some v => v
      | none => psub A (pmul A v2 (two A)) v1
    let v4 := match pts[k + 3]? with
      | some v => v
      | none => psub A (pmul A v3 (two A)) v2
    catmullLoop pts n (k + 1) (path ++ (catmullSubpath A v1 v2 v3 v4).toArray)

/-- `approximate_catmull` -/
def approximateCatmull (path : Array (Pos S)) (pts : Array (Pos S)) : R (Array (Pos S)) := do
  if pts.size = 1 then .ok path
  else
    -- `path.reserve((points.len() - 1) * CATMULL_DETAIL * 2)`
    let _ ← subC pts.size 1
    let v1 ← getC pts 0
    let v2 := v1
    let v3 := match pts[1]? with
      | some v => v
      | none => v2
    let v4 := match pts[2]? with
      | some v => v
      | none => psub A (pmul A v3 (two A)) v2
    let path := path ++ (catmullSubpath A v1 v2 v3 v4).toArray
    catmullLoop A pts (pts.size - 2) 0 path

/-- State of the osu!-only pass over the catmull sub-path. -/
structure CatOpt (S D : Type) where
  path : Array (Pos S)
  lastStart : Option (Pos S)
  lenRemoved : D
  optimized : D

/-- One iteration of `for (i, curr) in sub_path.iter().copied().enumerate()`. -/
def catOptStep (sub : Array (Pos S)) (st : CatOpt S D) (i : Nat) (curr : Pos S) :
    R (CatOpt S D) :=
  match st.lastStart with
  | none => .ok { st with path := st.path.push curr, lastStart := some curr }
  | some ls => do
    let distFromStart := A.toD (distance A ls curr)
    let im1 ← subC i 1
    let prev ← getC sub im1
    let lenRemoved := A.dAdd st.lenRemoved (A.toD (distance A prev curr))
    let lm1 ← subC sub.size 1
    if A.dLt (A.dOfInt 6) distFromStart || (i + 1) % (catmullDetail * 2) == 0 || i == lm1 then
      .ok { path := st.path.push curr,
            optimized := A.dAdd st.optimized (A.dSub lenRemoved distFromStart),
            lastStart := none, lenRemoved := A.dOfInt 0 }
    else .ok { st with lenRemoved := lenRemoved }

def catOptLoop (sub : Array (Pos S)) : List (Pos S) → Nat → CatOpt S D → R (CatOpt S D)
  | [], _, st => .ok st
  | curr :: rest, i, st => do
    let st ← catOptStep A sub st i curr
    catOptLoop sub rest (i + 1) st

/-! ## circular arc -/

/-- `CircularArcProperties` -/
structure ArcProps (S D : Type) where
  thetaStart : D
  thetaRange : D
  direction : D
  radius : S
  centre : Pos S

/-- `while theta_end < theta_start { theta_end += 2.0 * PI }` -/
def thetaLoop (thetaStart : D) : Nat → D → R D
  | 0, te => if A.dLt te thetaStart then .error .fuel else .ok te
  | fuel + 1, te =>
    if A.dLt te thetaStart then thetaLoop thetaStart fuel (A.dAdd te (twoPi A)) else .ok te

/-- `circular_arc_properties`; `none` = the degenerate-triangle early return. -/
def arcProperties (fuel : Nat) (a b c : Pos S) : R (Option (ArcProps S D)) :=
  let det := A.sSub (A.sMul (A.sSub b.y a.y) (A.sSub c.x a.x))
    (A.sMul (A.sSub b.x a.x) (A.sSub c.y a.y))
  if A.sLe (A.sAbs det) (sEps A) then .ok none
  else do
    let bc := psub A b c
    let ca := psub A c a
    let ab := psub A a b
    let d := A.sMul (two A)
      (A.sAdd (A.sAdd (A.sMul a.x bc.y) (A.sMul b.x ca.y)) (A.sMul c.x ab.y))
    let aSq := lenSq A a
    let bSq := lenSq A b
    let cSq := lenSq A c
    let cb := psub A c b
    let ac := psub A a c
    let ba := psub A b a
    let centre : Pos S :=
      ⟨A.sDiv (A.sAdd (A.sAdd (A.sMul aSq bc.y) (A.sMul bSq ca.y)) (A.sMul cSq ab.y)) d,
       A.sDiv (A.sAdd (A.sAdd (A.sMul aSq cb.x) (A.sMul bSq ac.x)) (A.sMul cSq ba.x)) d⟩
    let dA := psub A a centre
    let dC := psub A c centre
    let radius := length A dA
    let thetaStart := A.dAtan2 (A.toD dA.y) (A.toD dA.x)
    let thetaEnd0 := A.dAtan2 (A.toD dC.y) (A.toD dC.x)
    let thetaEnd ← thetaLoop A thetaStart fuel thetaEnd0
    let thetaRange := A.dSub thetaEnd thetaStart
    let ortho : Pos S := ⟨ca.y, A.sNeg ca.x⟩
    if A.sLt (dot A ortho ba) (A.sOfInt 0) then
      .ok (some { thetaStart := thetaStart, thetaRange := A.dSub (twoPi A) thetaRange,
                  direction := A.dOfInt (-1), radius := radius, centre := centre })
    else
      .ok (some { thetaStart := thetaStart, thetaRange := thetaRange,
                  direction := A.dOfInt 1, radius := radius, centre := centre })

/-- The number of points of the arc. -/
def arcSubPoints (pr : ArcProps S D) : Nat :=
  if A.sLe (A.sMul (two A) pr.radius) (tenth A) then 2
  else
    let divisor := A.sMul (two A) (A.sAcos (A.sSub (A.sOfInt 1) (A.sDiv (tenth A) pr.radius)))
    if A.sLe (A.sAbs divisor) (sEps A) then 2
    else Nat.max (A.dCeilUsize (A.dDiv pr.thetaRange (A.toD divisor))) 2

/-- The `i`-th point of the arc. -/
def arcPoint (pr : ArcProps S D) (divisor directedRange : D) (i : Nat) : Pos S :=
  let fract := A.dDiv (A.dOfInt i) divisor
  let theta := A.dAdd pr.thetaStart (A.dMul fract directedRange)
  let origin : Pos S := ⟨A.toS (A.dCos theta), A.toS (A.dSin theta)⟩
  padd A pr.centre (pmul A origin pr.radius)

/-- The arc cap: `if sub_points >= 1000 { return false }`. -/
def arcCap : Nat := 1000

/-- `approximate_circular_arc`; `none` = it returned `false` (the caller falls back to bezier). -/
def approximateArc (fuel : Nat) (path : Array (Pos S)) (a b c : Pos S) :
    R (Option (Array (Pos S))) := do
  match ← arcProperties A fuel a b c with
  | none => .ok none
  | some pr =>
    let n := arcSubPoints A pr
    if arcCap ≤ n then .ok none
    else do
      let nm1 ← subC n 1
      let divisor := A.dOfInt nm1
      let directed := A.dMul pr.direction pr.thetaRange
      .ok (some (path ++ ((List.range n).map (arcPoint A pr divisor directed)).toArray))

/-! ## `calculate_subpath`, `calculate_path` -/

/-- `SplineType` -/
inductive Spline where
  | catmull | bspline | linear | perfect
deriving DecidableEq, Repr

/-- `PathControlPoint` (the b-spline degree is not read by `curve.rs`). -/
structure CP (S : Type) where
  pos : Pos S
  ty : Option Spline

/-- What `calculate_path` threads through: `path`, `optimized_len`, the bezier buffers. -/
structure PathSt (S D : Type) where
  path : Array (Pos S)
  optimized : D
  bez : Bez S

/-- `calculate_subpath` -/
def calculateSubpath (fuel : Nat) (isOsu : Bool) (st : PathSt S D) (sub : Array (Pos S))
    (kind : Spline) : R (PathSt S D) :=
  match kind with
  | .linear => .ok { st with path := st.path ++ sub }
  | .perfect => do
    let arc ← (if sub.size = 3 then do
        let a ← getC sub 0
        let b ← getC sub 1
        let c ← getC sub 2
        approximateArc A fuel st.path a b c
      else .ok none)
    match arc with
    | some path => .ok { st with path := path }
    | none =>
      let (path, bez) ← approximateBezier A fuel st.path sub st.bez
      .ok { st with path := path, bez := bez }
  | .catmull => do
    let startLen := st.path.size
    let path ← approximateCatmull A st.path sub
    if !isOsu then .ok { st with path := path }
    else
      -- `path.split_off(start_len)`
      need (decide (startLen ≤ path.size))
      let subPath := path.extract startLen path.size
      let init : CatOpt S D :=
        { path := path.extract 0 startLen, lastStart := none, lenRemoved := A.dOfInt 0,
          optimized := st.optimized }
      let r ← catOptLoop A subPath subPath.toList 0 init
      .ok { st with path := r.path, optimized := r.optimized }
  | .bspline => do
    let (path, bez) ← approximateBezier A fuel st.path sub st.bez
    .ok { st with path := path, bez := bez }

/-- One iteration `i` of the `for i in 0..points.len()` loop of `calculate_path`; the state also
carries `start`. -/
def pathStep (fuel : Nat) (isOsu : Bool) (pts : Array (CP S)) (vertices : Array (Pos S))
    (st : PathSt S D) (start i : Nat) : R (PathSt S D × Nat) := do
  let pi ← getC pts i
  let nm1 ← subC pts.size 1
  if pi.ty.isNone && decide (i < nm1) then .ok (st, start)
  else
    -- `&vertices[start..=i]`
    need (decide (start ≤ i + 1) && decide (i < vertices.size))
    let seg := vertices.extract start (i + 1)
    if seg.size = 0 then .error .unreachable
    else if seg.size = 1 then do
      let v ← getC seg 0
      .ok ({ st with path := st.path.push v }, i)
    else do
      let ps ← getC pts start
      let kind := match ps.ty with
        | none => Spline.linear
        | some k => k
      let pathLen := st.path.size
      let st ← calculateSubpath A fuel isOsu st seg kind
      -- `path_len.checked_sub(1).zip(path.get(path_len)).map_or(false, |(idx, first)| &path[idx] == first)`
      let skipFirst ← (if pathLen = 0 then .ok false
        else match st.path[pathLen]? with
          | none => .ok false
          | some first => do
            let prev ← getC st.path (pathLen - 1)
            .ok (peq A prev first))
      if skipFirst then
        -- `path[path_len..].rotate_left(1); path.pop()`
        .ok ({ st with path := st.path.extract 0 pathLen ++ st.path.extract (pathLen + 1) st.path.size }, i)
      else .ok (st, i)

def pathLoop (fuel : Nat) (isOsu : Bool) (pts : Array (CP S)) (vertices : Array (Pos S)) :
    (n i : Nat) → PathSt S D → Nat → R (PathSt S D)
  | 0, _, st, _ => .ok st
  | n + 1, i, st, start => do
    let (st, start) ← pathStep A fuel isOsu pts vertices st start i
    pathLoop fuel isOsu pts vertices n (i + 1) st start

/-- `calculate_path(mode, points, bufs, &mut optimized_len)`: with no control points NOTHING is
touched (not even `path.clear()`: `bufs.path` keeps what the previous call left there). -/
def calculatePath (fuel : Nat) (isOsu : Bool) (pts : Array (CP S)) (st : PathSt S D) :
    R (PathSt S D) :=
  if pts.size = 0 then .ok st
  else
    let vertices := pts.map (·.pos)
    pathLoop A fuel isOsu pts vertices pts.size 0
      { st with path := #[], optimized := A.dOfInt 0 } 0

/-! ## `calculate_length` -/

/-- The `length_iter`: cumulative lengths of the consecutive vertex pairs; returns the pushed values
(in order) and the final `calculated_len`. -/
def cumLengths (acc : D) : List (Pos S) → List D × D
  | curr :: next :: rest =>
    let acc := A.dAdd acc (A.toD (length A (psub A next curr)))
    let (l, fin) := cumLengths acc (next :: rest)
    (acc :: l, fin)
  | _ => ([], acc)

/-- `cumulative_len.iter().rev().position(|l| *l < expected_len).map_or(0, |idx| len - idx)`:
one past the index of the last entry `< expected`. -/
def lastValid (expected : D) (cum : Array D) : Nat :=
  match cum.toList.reverse.findIdx? (fun l => A.dLt l expected) with
  | none => 0
  | some idx => cum.size - idx

/-- `calculate_length(bufs, expected_len, optimized_len)`; returns `(path, lengths)`. -/
def calculateLength (path : Array (Pos S)) (expected : Option D) (optimized : D) :
    R (Array (Pos S) × Array D) := do
  let (ls, calculated) := cumLengths A optimized path.toList
  let cum : Array D := (A.dOfInt 0 :: ls).toArray
  match expected with
  | none => .ok (path, cum)
  | some e =>
    -- `.filter(|&len| (calculated_len - len).abs() >= f64::EPSILON)`
    if !(A.dLe (dEps A) (A.dAbs (A.dSub calculated e))) then .ok (path, cum)
    else
      let lastTwoEqual := match path.toList.reverse with
        | b :: a :: _ => peq A a b
        | _ => false
      if lastTwoEqual && A.dLt calculated e then .ok (path, cum.push calculated)
      else if cum.size = 1 then .ok (path, cum)
      else
        let cum := cum.pop
        let lv := lastValid A e cum
        let trunc := decide (lv < cum.size)
        let cum := if trunc then cum.extract 0 lv else cum
        let path := if trunc then path.extract 0 (lv + 1) else path
        if trunc && cum.size = 0 then .ok (path, #[A.dOfInt 0])
        else do
          let endIdx := cum.size
          let prevIdx ← subC endIdx 1
          let pe ← getC path endIdx
          let pp ← getC path prevIdx
          let dir := normalize A (psub A pe pp)
          let cp ← getC cum prevIdx
          let newEnd := padd A pp (pmul A dir (A.toS (A.dSub e cp)))
          let path ← setC path endIdx newEnd
          .ok (path, cum.push e)

/-! ## `Curve` -/

structure Curve (S D : Type) where
  path : Array (Pos S)
  lengths : Array D

/-- `BorrowedCurve::new(mode, points, expected_len, bufs)`; `prev` = `bufs.path` before the call
(`Curve::new` on fresh buffers: `#[]`), `bez` = the bezier buffers before the call. -/
def curveNew (fuel : Nat) (isOsu : Bool) (pts : Array (CP S)) (expected : Option D)
    (prev : Array (Pos S)) (bez : Bez S) : R (Curve S D × Bez S) := do
  let st ← calculatePath A fuel isOsu pts { path := prev, optimized := A.dOfInt 0, bez := bez }
  let (path, lengths) ← calculateLength A st.path expected st.optimized
  .ok ({ path := path, lengths := lengths }, st.bez)

def emptyBez : Bez S := ⟨#[], #[], #[], #[]⟩

/-- `dist(lengths)`: `lengths.last().copied().unwrap_or(0.0)` -/
def dist (lengths : Array D) : D :=
  match lengths.back? with
  | some d => d
  | none => A.dOfInt 0

/-- `progress.clamp(0.0, 1.0) * dist(lengths)` (`f64::clamp`: a NaN stays NaN) -/
def progressToDist (lengths : Array D) (progress : D) : D :=
  let p := if A.dLt progress (A.dOfInt 0) then A.dOfInt 0
    else if A.dLt (A.dOfInt 1) progress then A.dOfInt 1 else progress
  A.dMul p (dist A lengths)

/-- `len.partial_cmp(&d).unwrap_or(Ordering::Equal)` -/
def cmpLen (len d : D) : Ordering :=
  if A.dLt len d then .lt else if A.dLt d len then .gt else .eq

/-- `while size > 1 { half = size / 2; mid = base + half; base = if cmp(mid) == Greater { base }
else { mid }; size -= half }` of `slice::binary_search_by`. -/
def bsLoop (lengths : Array D) (d : D) : (fuel size base : Nat) → R Nat
  | 0, size, base => if 1 < size then .error .fuel else .ok base
  | fuel + 1, size, base =>
    if 1 < size then do
      let half := size / 2
      let mid := base + half
      let len ← getC lengths mid
      let base := if cmpLen A len d == .gt then base else mid
      bsLoop lengths d fuel (size - half) base
    else .ok base

/-- `idx_of_dist`: `binary_search_by(..).map_or_else(identity, identity)` -/
def idxOfDist (lengths : Array D) (d : D) : R Nat :=
  if lengths.size = 0 then .ok 0
  else do
    let base ← bsLoop A lengths d lengths.size lengths.size 0
    let len ← getC lengths base
    match cmpLen A len d with
    | .eq => .ok base
    | .lt => .ok (base + 1)
    | .gt => .ok base

/-- `interpolate_vertices(path, lengths, i, d)` -/
def interpolateVertices (path : Array (Pos S)) (lengths : Array D) (i : Nat) (d : D) :
    R (Pos S) :=
  if path.size = 0 then .ok (zero A)
  else if i = 0 then getC path 0
  else
    match path[i]? with
    | none => do
      let l ← subC path.size 1
      getC path l
    | some p1 => do
      let im1 ← subC i 1
      let p0 ← getC path im1
      let d0 ← getC lengths im1
      let d1 ← getC lengths i
      if A.dLe (A.dAbs (A.dSub d0 d1)) (dEps A) then .ok p0
      else
        let w := A.dDiv (A.dSub d d0) (A.dSub d1 d0)
        .ok (padd A p0 (pmul A (psub A p1 p0) (A.toS w)))

/-- `position_at(path, lengths, progress)` -/
def positionAt (c : Curve S D) (progress : D) : R (Pos S) := do
  let d := progressToDist A c.lengths progress
  let i ← idxOfDist A c.lengths d
  interpolateVertices A c.path c.lengths i d

end

end Rosu.Curve
