/-
Executable, bit-level model of `StrainsVec` (src/util/strains_vec.rs), both variants.

* compact variant (`#[cfg(not(feature = "raw_strains"))]`): `inner: Vec<StrainsEntry>` where
  `StrainsEntry` is a `union { value: f64, zero_count: u64 }`, plus `len: usize` and the
  debug-only flag `has_zero`.
* raw variant (`#[cfg(feature = "raw_strains")]`): a plain `Vec<f64>`.

An entry / an `f64` is represented by its 64-bit pattern as a `Nat` (`< 2^64`); the model never
interprets a float beyond what the Rust code itself does on the bits:

  `f64::is_sign_negative`  = bit 63 set                    (`SIGN ≤ e`)
  `f64::to_bits() > 0`     = pattern non-zero
  `zero_count & MASK`      = `e % 2^63`
  `a > 0.0`                = `0 < a ≤ bits(+∞)`             (raw variant's `retain`)
  `f64::total_cmp`         = comparison of `tcKey` (the signed key std computes)

`u64`/`usize` arithmetic that can overflow in Rust is modelled on unbounded `Nat`; the theorems
(Lemmas/StrainsVec.lean, Props/C11.lean) show the bounds under which no wrap-around / panic can
occur (`incr_zero_count` stays `< 2^64`, `len -= 1` never underflows, `from_raw_parts(ptr, count)`
has `count ≤ slice.len()`).  Where the Rust code would read out of bounds the model returns
`none`.

Core Lean only.
-/

namespace Rosu.SV

/-- `1 << 63`: the sign bit of an `f64` / the discriminating bit of a `StrainsEntry`. -/
def SIGN : Nat := 9223372036854775808

/-- `2^64` -/
def TWO64 : Nat := 18446744073709551616

/-- bit pattern of `f64::INFINITY` -/
def INF : Nat := 9218868437227405312

/-! ## `mod entry` -/

/-- `StrainsEntry::new_zero()`: `zero_count: !ZERO_COUNT_MASK + 1` -/
def newZero : Nat := SIGN + 1

/-- `StrainsEntry::is_zero`: `self.value.is_sign_negative()` -/
def isZero (e : Nat) : Bool := decide (SIGN ≤ e)

/-- `StrainsEntry::is_value` -/
def isValue (e : Nat) : Bool := !isZero e

/-- `StrainsEntry::zero_count`: `self.zero_count & ZERO_COUNT_MASK` -/
def zeroCount (e : Nat) : Nat := e % SIGN

/-- `StrainsEntry::incr_zero_count`: `self.zero_count += 1` on the raw `u64` -/
def incrZero (e : Nat) : Nat := e + 1

/-- `StrainsEntry::decr_zero_count`: `self.zero_count -= 1` on the raw `u64` -/
def decrZero (e : Nat) : Nat := e - 1

/-! ## compact `StrainsVec` -/

structure SVec where
  inner : List Nat
  len : Nat
  /-- `#[cfg(debug_assertions)] has_zero` -/
  hasZero : Bool
deriving Repr, DecidableEq

/-- `StrainsVec::with_capacity` -/
def SVec.empty : SVec := ⟨[], 0, false⟩

/-- The test of `push`: `value.to_bits() > 0 && value.is_sign_positive()` -/
def isValueBits (b : Nat) : Bool := decide (0 < b) && decide (b < SIGN)

/-- `self.inner.last_mut().filter(|e| e.is_zero())` is `Some` -/
def lastIsZero : List Nat → Bool
  | [] => false
  | [e] => isZero e
  | _ :: es => lastIsZero es

/-- The two `else` branches of `push` on `inner`: increment the trailing run or append a new
run entry. -/
def pushZero : List Nat → List Nat
  | [] => [newZero]
  | [e] => if isZero e then [incrZero e] else [e, newZero]
  | e :: es => e :: pushZero es

/-- `StrainsVec::push(value)` with `b = value.to_bits()` -/
def SVec.push (s : SVec) (b : Nat) : SVec :=
  if isValueBits b then
    { s with inner := s.inner ++ [b], len := s.len + 1 }
  else if lastIsZero s.inner then
    { s with inner := pushZero s.inner, len := s.len + 1 }
  else
    { inner := pushZero s.inner, len := s.len + 1, hasZero := true }

def SVec.pushAll (s : SVec) (bs : List Nat) : SVec := bs.foldl SVec.push s

/-- The signed 64-bit key `f64::total_cmp` compares:
`left ^= (((left >> 63) as u64) >> 1) as i64`. -/
def tcKey (b : Nat) : Int :=
  if b < SIGN then (b : Int) else -1 - ((b - SIGN : Nat) : Int)

/-- `sort_by(|a, b| b.total_cmp(a))` on bit patterns: a stable sort, descending in `tcKey`.
(`tcKey` is injective on patterns `< 2^64`, so the result is the unique descending
arrangement; `List.mergeSort` is core Lean's verified stable merge sort.) -/
def sortDescBits (l : List Nat) : List Nat := l.mergeSort (fun a b => decide (tcKey b ≤ tcKey a))

/-- `StrainsVec::sort_desc`; the `debug_assert!(!self.has_zero)` outcome is reported by
`sortDescAssertOk`. -/
def SVec.sortDesc (s : SVec) : SVec := { s with inner := sortDescBits s.inner }

def SVec.sortDescAssertOk (s : SVec) : Bool := !s.hasZero

/-- `StrainsVec::retain_non_zero` (note: `len` is left untouched by the Rust code) -/
def SVec.retainNonZero (s : SVec) : SVec :=
  { s with inner := s.inner.filter isValue, hasZero := false }

/-- `StrainsVec::retain_non_zero_and_sort` -/
def SVec.retainNonZeroAndSort (s : SVec) : SVec := s.retainNonZero.sortDesc

/-- `sorted_non_zero_iter_mut()` followed by a caller loop that overwrites the first `k` yielded
`&mut f64` with `f i old` (`.take(k).enumerate()` as in `osu::…::strain::difficulty_value`). -/
def mapPrefix (f : Nat → Nat → Nat) (k : Nat) (l : List Nat) : List Nat :=
  l.zipIdx.map fun (e, i) => if i < k then f i e else e

def SVec.sortedNonZeroUpdate (s : SVec) (f : Nat → Nat → Nat) (k : Nat) : SVec :=
  let s := s.retainNonZeroAndSort
  { s with inner := mapPrefix f k s.inner }

/-- The summands of `StrainsVec::sum`, in order:
`inner.iter().copied().filter_map(StrainsEntry::try_as_value)`; the caller folds them with
`f64` addition (`Iterator::sum`). -/
def SVec.sumTerms (s : SVec) : List Nat := s.inner.filter isValue

/-- `unsafe fn transmute_into_vec`: every entry is reinterpreted as an `f64`. -/
def SVec.transmuteIntoVec (s : SVec) : List Nat := s.inner

/-- Safety precondition of `transmute_into_vec` ("`self` may not include *any* zeros"). -/
def SVec.transmutePre (s : SVec) : Bool := s.inner.all isValue

/-! ### `into_vec` -/

/-- `copy_slice(slice, count, dst)`: `slice::from_raw_parts(slice.as_ptr().cast(), count)` then
`extend_from_slice`.  `none` = the raw slice would exceed the allocation (`count > slice.len()`). -/
def copySlice (slice : List Nat) (count : Nat) (dst : List Nat) : Option (List Nat) :=
  if count = 0 then some dst
  else if count ≤ slice.length then some (dst ++ slice.take count)
  else none

/-- `into_vec`'s `while let Some(zero_count) = copy_non_zero(&mut iter, &mut vec)` loop with
`copy_non_zero` inlined: `slice` is `iter.as_slice()` at the last (re)start, `count` the number of
entries stepped over since, `rest` what the iterator still holds. -/
def intoVecGo : List Nat → Nat → List Nat → List Nat → Option (List Nat)
  | slice, count, [], dst => copySlice slice count dst
  | slice, count, e :: es, dst =>
    if isZero e then
      match copySlice slice count dst with
      | none => none
      | some d => intoVecGo es 0 es (d ++ List.replicate (zeroCount e) 0)
    else intoVecGo slice (count + 1) es dst

/-- `StrainsVec::into_vec` (`none` = out-of-bounds raw slice) -/
def SVec.intoVec (s : SVec) : Option (List Nat) := intoVecGo s.inner 0 s.inner []

/-! ### `StrainsIter` -/

structure Iter where
  /-- `inner: Copied<Iter<StrainsEntry>>` — what it still holds -/
  rest : List Nat
  curr : Option Nat
  len : Nat
deriving Repr, DecidableEq

/-- `StrainsIter::new` -/
def Iter.new (s : SVec) : Iter := ⟨s.inner.tail, s.inner.head?, s.len⟩

inductive Step where
  | done
  | item (v : Nat) (it : Iter)
  /-- `self.len -= 1` with `self.len == 0` -/
  | underflow
deriving Repr, DecidableEq

/-- `<StrainsIter as Iterator>::next` (the `loop`) -/
def iterNext : Option Nat → List Nat → Nat → Step
  | none, _, _ => .done
  | some c, rest, len =>
    if isValue c then
      if len = 0 then .underflow else .item c ⟨rest.tail, rest.head?, len - 1⟩
    else if 0 < zeroCount c then
      if len = 0 then .underflow else .item 0 ⟨rest, some (decrZero c), len - 1⟩
    else
      match rest with
      | [] => .done
      | e :: es => iterNext (some e) es len

def Iter.next (it : Iter) : Step := iterNext it.curr it.rest it.len

/-- Drive the iterator at most `fuel` times; `none` = `len` underflow. Returns the items and
the final iterator. -/
def Iter.collect : Nat → Iter → Option (List Nat × Iter)
  | 0, it => some ([], it)
  | fuel + 1, it =>
    match it.next with
    | .done => some ([], it)
    | .underflow => none
    | .item v it' =>
      match Iter.collect fuel it' with
      | none => none
      | some (vs, itf) => some (v :: vs, itf)

/-- `vec.iter().collect()` -/
def SVec.iterCollect (s : SVec) : Option (List Nat) :=
  (Iter.collect (s.len + 1) (Iter.new s)).map (·.1)

/-! ## raw variant (`feature = "raw_strains"`): `Vec<f64>` -/

abbrev RVec := List Nat

/-- `|&a| a > 0.0` on the bit pattern -/
def rawPos (b : Nat) : Bool := decide (0 < b) && decide (b ≤ INF)

/-- `push`: `if value.to_bits() > 0 && value.is_sign_positive() { push(value) } else { push(0.0) }` -/
def RVec.push (r : RVec) (b : Nat) : RVec := r ++ [if decide (0 < b) && decide (b < SIGN) then b else 0]
def RVec.pushAll (r : RVec) (bs : List Nat) : RVec := bs.foldl RVec.push r
def RVec.len (r : RVec) : Nat := r.length
def RVec.sortDesc (r : RVec) : RVec := sortDescBits r
def RVec.retainNonZero (r : RVec) : RVec := r.filter rawPos
def RVec.retainNonZeroAndSort (r : RVec) : RVec := RVec.sortDesc (RVec.retainNonZero r)
def RVec.sortedNonZeroUpdate (r : RVec) (f : Nat → Nat → Nat) (k : Nat) : RVec :=
  mapPrefix f k (RVec.retainNonZeroAndSort r)
def RVec.sumTerms (r : RVec) : List Nat := r
def RVec.iterCollect (r : RVec) : List Nat := r
def RVec.intoVec (r : RVec) : List Nat := r
def RVec.transmuteIntoVec (r : RVec) : List Nat := r

/-! ## abstraction to the plain list of values -/

/-- What an entry stands for: a run of `+0.0` (pattern `0`) or the value itself. -/
def expandEntry (e : Nat) : List Nat := if isZero e then List.replicate (zeroCount e) 0 else [e]

/-- Abstraction function: the list of `f64` bit patterns a compact vector represents. -/
def absList (l : List Nat) : List Nat := l.flatMap expandEntry

def SVec.abs (s : SVec) : List Nat := absList s.inner

/-- What `push` stores of a pushed pattern: itself if strictly positive and sign-positive,
`+0.0` otherwise (negative numbers, `-0.0`, `-NaN`, `-∞` are *counted as zero*). -/
def canon (b : Nat) : Nat := if isValueBits b then b else 0

/-- `x.to_bits() != 0`: not the pattern of `+0.0`. -/
def nonZeroBits (b : Nat) : Bool := decide (b ≠ 0)

/-- The pushes on which the two variants are designed to agree: `+0.0` and every pattern in
`(0, +∞]` — positive subnormal, normal and `+∞`. -/
def goodPush (b : Nat) : Bool := decide (b ≤ INF)

end Rosu.SV
