/-
Executable model of osu!taiko's difficulty-object construction and of its colour / rhythm
preprocessing — everything between the converted map and the strain skills (core Lean only).

Sources transcribed (statement by statement):
  src/taiko/object.rs                                   TaikoObject, HitType
  src/taiko/difficulty/mod.rs                           DifficultyValues::create_difficulty_objects
  src/taiko/difficulty/object.rs                        TaikoDifficultyObject::new, TaikoDifficultyObjects
                                                        (previous_note / next_note / previous_mono)
  src/taiko/difficulty/rhythm/rhythm_data.rs            RhythmData::new (closest COMMON_RATIOS entry)
  src/taiko/difficulty/color/preprocessor.rs            encode_mono_streaks, encode_alternating_mono_pattern,
                                                        encode_repeating_hit_patterns, process_and_assign
  src/taiko/difficulty/color/data/*.rs                  run_len, hit_type, is_repetition_of,
                                                        has_identical_mono_len, find_repetition_interval
  src/util/interval_grouping.rs                         GroupedByIntervalIter::{next, create_next_group}
  src/taiko/difficulty/rhythm/preprocessor.rs           create_same_rhythm_grouped_hit_objects,
                                                        create_same_pattern_grouped_hit_objects, process_and_assign
  src/taiko/difficulty/rhythm/data/*.rs                 SameRhythmHitObjectGrouping::new,
                                                        SamePatternsGroupedHitObjects::{group_interval, interval_ratio}
  src/taiko/difficulty/skills/color.rs                  the slice `objects[idx.saturating_sub(128)..=idx]`
  src/taiko/difficulty/color/color_data.rs              previous_color_change, next_color_change

Pointers (`RefCount<T>` / `Weak<T>`) are *positions* in the list that owns the pointee
(`TaikoDifficultyObjects::objects`, the vector of mono streaks / alternating patterns / repeating
patterns, the vector of rhythm groups / pattern groups).  Every dereference, every `v[i]`,
`a - b` on `usize`, `unwrap()`, `drain(..2)` and every `Weak::upgrade` whose failure would silently
change a value is a *checked* operation: the model functions return `Option` and `none` means
"the real code would panic here (or read a dead pointer)".  `Props/C05e.lean` proves that `none`
never happens.  Loops that are `while` loops in the code carry fuel; fuel exhaustion is `none` too.

The `f64` arithmetic is a parameter (`Arith T`): same operations in the same order.  The driver
instantiates it with IEEE doubles (`Model/TaikoPreWire.lean`); no theorem inspects `T`.
-/
namespace Rosu.TaikoPre

/-- `HitType` -/
inductive Kind where
  | centre | rim | nonhit
deriving Repr, DecidableEq

def Kind.isHit : Kind → Bool
  | .nonhit => false
  | _ => true

/-- The `f64` operations the code performs. -/
structure Arith (T : Type) where
  ofNat : Nat → T
  add : T → T → T
  sub : T → T → T
  div : T → T → T
  abs : T → T
  /-- `a <= b` -/
  le : T → T → Bool
  /-- `a < b` -/
  lt : T → T → Bool
  /-- `a.total_cmp(&b) != Ordering::Greater` -/
  totalLe : T → T → Bool
  /-- `f64::INFINITY` -/
  inf : T

variable {T : Type}

/-- `TaikoObject`: what the difficulty code reads of a converted hit object. -/
structure Obj (T : Type) where
  time : T
  kind : Kind

/-- Checked `usize` subtraction. -/
def csub (a b : Nat) : Option Nat := if b ≤ a then some (a - b) else none

/-! ## `RhythmData::new` -/

/-- `COMMON_RATIOS` (the entries are `f64` divisions of small integer literals). -/
def commonRatios (A : Arith T) : List T :=
  [(1, 1), (2, 1), (1, 2), (3, 1), (1, 3), (3, 2), (2, 3), (5, 4), (4, 5)].map
    fun p => A.div (A.ofNat p.1) (A.ofNat p.2)

/-- `COMMON_RATIOS.iter().min_by(|r1, r2| diff(r1).total_cmp(&diff(r2))).unwrap()`; `min_by` keeps the
earlier element on ties. -/
def closestRatio (A : Arith T) (actual : T) : Option T :=
  let diff := fun r => A.abs (A.sub r actual)
  match commonRatios A with
  | [] => none
  | r0 :: rs => some (rs.foldl (fun best r => if A.totalLe (diff best) (diff r) then best else r) r0)

def rhythmRatio (A : Arith T) (delta : T) : Option T → Option T
  | none => some (A.ofNat 1)
  | some prev => closestRatio A (A.div delta prev)

/-! ## `TaikoDifficultyObject::new` and the object store -/

inductive MonoIdx where
  | centre (i : Nat)
  | rim (i : Nat)
  | none
deriving Repr, DecidableEq

structure DObj (T : Type) where
  idx : Nat
  delta : T
  start : T
  kind : Kind
  mono : MonoIdx
  noteIdx : Nat
  /-- `rhythm_data.ratio` -/
  ratio : T

/-- `TaikoDifficultyObjects`: the three index vectors hold positions into `objects`. -/
structure Store (T : Type) where
  objects : List (DObj T) := []
  centres : List Nat := []
  rims : List Nat := []
  notes : List Nat := []

/-- `TaikoDifficultyObject::new(hit_object, last_object, clock_rate, idx, …, objects)` followed by
`diff_objects.push(diff_object)`. -/
def newObj (A : Arith T) (clock : T) (st : Store T) (i : Nat) (curr last : Obj T) :
    Option (Store T) := do
  let delta := A.div (A.sub curr.time last.time) clock
  -- `idx.checked_sub(1).map(|i| objects.objects[i].get().delta_time)`
  let prevDelta ← match i with
    | 0 => some none
    | j + 1 => (st.objects[j]?).map fun o => some o.delta
  let ratio ← rhythmRatio A delta prevDelta
  let noteIdx := if curr.kind.isHit then st.notes.length else 0
  let mono := match curr.kind with
    | .centre => MonoIdx.centre st.centres.length
    | .rim => MonoIdx.rim st.rims.length
    | .nonhit => MonoIdx.none
  let start := A.div curr.time clock
  let o : DObj T := ⟨i, delta, start, curr.kind, mono, noteIdx, ratio⟩
  -- the `RefCount` pushed into the index vectors points to the object that lands at `objects.len()`
  let p := st.objects.length
  some { objects := st.objects ++ [o]
         centres := if curr.kind = .centre then st.centres ++ [p] else st.centres
         rims := if curr.kind = .rim then st.rims ++ [p] else st.rims
         notes := if curr.kind.isHit then st.notes ++ [p] else st.notes }

/-- `for (i, curr) in hit_objects_iter.enumerate() { …; last = curr; }` -/
def buildLoop (A : Arith T) (clock : T) : List (Obj T) → Obj T → Nat → Store T → Option (Store T)
  | [], _, _, st => some st
  | curr :: rest, last, i, st => do
    let st' ← newObj A clock st i curr last
    buildLoop A clock rest curr (i + 1) st'

/-- The object-construction part of `create_difficulty_objects` (`skip(1)`, the first `next()`,
`with_capacity(len - 2)`, the loop). -/
def build (A : Arith T) (clock : T) (objs : List (Obj T)) : Option (Store T) :=
  match objs with
  | _ :: last :: rest => do
    let _cap ← csub objs.length 2
    buildLoop A clock rest last 0 {}
  | _ => some {}

/-- `TaikoDifficultyObjects::previous_note(curr, backwards_idx)`; the outer `Option` is the checked
dereference of the note pointer. -/
def previousNote (st : Store T) (o : DObj T) (back : Nat) : Option (Option (DObj T)) :=
  if o.noteIdx < back + 1 then some none
  else
    match st.notes[o.noteIdx - (back + 1)]? with
    | none => some none
    | some p => (st.objects[p]?).map some

/-- `TaikoDifficultyObjects::next_note(curr, forwards_idx)`. -/
def nextNote (st : Store T) (o : DObj T) (fwd : Nat) : Option (Option (DObj T)) :=
  match st.notes[o.noteIdx + (fwd + 1)]? with
  | none => some none
  | some p => (st.objects[p]?).map some

/-- `TaikoDifficultyObjects::previous_mono(curr, backwards_idx)`. -/
def previousMono (st : Store T) (o : DObj T) (back : Nat) : Option (Option (DObj T)) :=
  let look := fun (v : List Nat) (i : Nat) =>
    if i < back + 1 then some none
    else match v[i - (back + 1)]? with
      | none => some none
      | some p => (st.objects[p]?).map some
  match o.mono with
  | .centre i => look st.centres i
  | .rim i => look st.rims i
  | .none => some none

/-! ## Colour: mono streaks → alternating mono patterns → repeating hit patterns -/

/-- A mono streak: the positions of its hit objects. -/
abbrev Mono := List Nat
/-- An alternating mono pattern: its mono streaks. -/
abbrev Alt := List Mono
/-- A repeating hit pattern: its alternating mono patterns (`prev` = the pattern before it). -/
abbrev Rep := List Alt

/-- The `condition.is_none()` test of `encode_mono_streaks` for the object `o`: is there a previous
note of the same type? -/
def sameAsPrevNote (st : Store T) (o : DObj T) : Option Bool := do
  match (← previousNote st o 0) with
  | none => some false
  | some prev => some (decide (o.kind = prev.kind))

/-- The loop of `encode_mono_streaks` after the first object: `cur` is the streak that
`mono_streaks.last()` denotes. -/
def monoGo (st : Store T) : List (DObj T × Nat) → Mono → Option (List Mono)
  | [], cur => some [cur]
  | (o, p) :: rest, cur => do
    if (← sameAsPrevNote st o) then monoGo st rest (cur ++ [p])
    else
      let r ← monoGo st rest [p]
      some (cur :: r)

/-- `encode_mono_streaks` -/
def encodeMono (st : Store T) : Option (List Mono) :=
  match st.objects.zipIdx with
  | [] => some []
  | (_, p) :: rest => monoGo st rest [p]

/-- The loop of `encode_alternating_mono_pattern` after the first streak. -/
def altGo : List Mono → Alt → Nat → List Alt
  | [], cur, _ => [cur]
  | m :: rest, cur, prevRunLen =>
    if m.length ≠ prevRunLen then cur :: altGo rest [m] m.length
    else altGo rest (cur ++ [m]) m.length

/-- `encode_alternating_mono_pattern` -/
def encodeAlt : List Mono → List Alt
  | [] => []
  | m :: rest => altGo rest [m] m.length

/-- `MonoStreak::hit_type()` -/
def monoHitType (st : Store T) : Mono → Option (Option Kind)
  | [] => some none
  | p :: _ => (st.objects[p]?).map fun o => some o.kind

/-- `self.mono_streaks[0].get().run_len()` — a checked index. -/
def altFirstRunLen (a : Alt) : Option Nat := (a[0]?).map List.length

/-- `AlternatingMonoPattern::has_identical_mono_len` -/
def altIdenticalMonoLen (a b : Alt) : Option Bool := do
  let x ← altFirstRunLen a
  let y ← altFirstRunLen b
  some (x == y)

/-- `AlternatingMonoPattern::is_repetition_of` (`&&` short-circuits). -/
def altIsRepetitionOf (st : Store T) (a b : Alt) : Option Bool := do
  if !(← altIdenticalMonoLen a b) then some false
  else if a.length ≠ b.length then some false
  else
    let ma ← a[0]?
    let mb ← b[0]?
    let ta ← monoHitType st ma
    let tb ← monoHitType st mb
    some (decide (ta = tb))

/-- `data.get(2).is_some_and(|other| data[0].get().is_repetition_of(&other.get()))` -/
def isCoupled (st : Store T) (data : List Alt) : Option Bool :=
  match data[2]? with
  | none => some false
  | some other => do
    let d0 ← data[0]?
    altIsRepetitionOf st d0 other

/-- `while is_coupled { cur.push(data.pop_front().unwrap()); is_coupled = …; }` (entered with
`is_coupled = true`). -/
def coupledLoop (st : Store T) : Nat → List Alt → Rep → Option (List Alt × Rep)
  | 0, _, _ => none
  | fuel + 1, data, cur =>
    match data with
    | [] => none                                   -- `pop_front().unwrap()`
    | front :: data' => do
      let cur' := cur ++ [front]
      if (← isCoupled st data') then coupledLoop st fuel data' cur' else some (data', cur')

/-- One iteration of `while !data.is_empty() { … }`: the rest of the deque and the new pattern. -/
def repStep (st : Store T) (data : List Alt) : Option (List Alt × Rep) := do
  if (← isCoupled st data) then
    let (d1, cur) ← coupledLoop st (data.length + 1) data []
    match d1 with
    | x :: y :: r => some (r, cur ++ [x, y])      -- `data.drain(..2)`
    | _ => none
  else
    match data with
    | [] => none                                   -- `pop_front().unwrap()`
    | x :: r => some (r, [x])

/-- `while !data.is_empty() { … hit_patterns.push(…) }` -/
def repLoop (st : Store T) : Nat → List Alt → Option (List Rep)
  | 0, _ => none
  | fuel + 1, data =>
    if data.isEmpty then some []
    else do
      let (data', cur) ← repStep st data
      let rest ← repLoop st fuel data'
      some (cur :: rest)

def maxRepetitionInterval : Nat := 16

/-- `RepeatingHitPatterns::is_repetition_of`: `zip(..).take(2).all(has_identical_mono_len)`. -/
def repIsRepetitionOf (a b : Rep) : Option Bool :=
  if a.length ≠ b.length then some false
  else
    ((a.zip b).take 2).foldlM (init := true) fun acc (p : Alt × Alt) =>
      if acc then altIdenticalMonoLen p.1 p.2 else some false

/-- The `while interval < MAX { … }` walk of `find_repetition_interval` along the `prev` chain;
`other` is the position of the pattern compared next. -/
def findWalk (reps : List Rep) (self : Rep) : Nat → Nat → Option Nat
  | other, interval =>
    if interval < maxRepetitionInterval then do
      let o ← reps[other]?                           -- `Weak::upgrade`
      if (← repIsRepetitionOf self o) then some (min interval maxRepetitionInterval)
      else
        match other with
        | 0 => some (maxRepetitionInterval + 1)      -- no `prev`: `break`
        | o' + 1 => findWalk reps self o' (interval + 1)
    else some (maxRepetitionInterval + 1)

/-- `find_repetition_interval` of the pattern at position `k`. -/
def findInterval (reps : List Rep) (k : Nat) : Option Nat :=
  match k with
  | 0 => some (maxRepetitionInterval + 1)
  | k' + 1 => do
    let self ← reps[k]?
    findWalk reps self k' 1

/-- Per object: `(position of its repeating pattern, alternating_mono_pattern.idx, mono_streak.idx,
position inside the mono streak)`. -/
abbrev ColourOf := Nat × Nat × Nat × Nat

/-- All `(object position, colour data)` assignments of `process_and_assign`, in program order. -/
def colourEntries (reps : List Rep) : List (Nat × ColourOf) :=
  reps.zipIdx.flatMap fun (rep, r) =>
    rep.zipIdx.flatMap fun (alt, a) =>
      alt.zipIdx.flatMap fun (mono, m) =>
        mono.zipIdx.map fun (p, pos) => (p, (r, a, m, pos))

/-- What `process_and_assign` leaves in the object at position `p` (last write wins); `none` = the
object was never assigned (the code would leave `None`s — and every evaluator read is then off). -/
def lookupLast {α : Type} (entries : List (Nat × α)) (p : Nat) : Option α :=
  (entries.reverse.find? fun e => e.1 == p).map (·.2)

/-! ## `group_by_interval` -/

/-- `a.almost_eq(b, MARGIN_OF_ERROR)` -/
def almostEq (A : Arith T) (a b : T) : Bool := A.le (A.abs (A.sub a b)) (A.ofNat 5)

/-- The `while *i < objects.len() - 1 { … }` loop of `create_next_group` over the intervals `iv`;
returns `(returned from inside the loop?, group, i)`. -/
def groupWhile (A : Arith T) (iv : List T) (lenM1 : Nat) : Nat → Nat → List Nat → Option (Bool × List Nat × Nat)
  | 0, _, _ => none
  | fuel + 1, i, g =>
    if i < lenM1 then do
      let a ← iv[i]?
      let b ← iv[i + 1]?
      if !(almostEq A a b) then
        -- `objects[i + 1].interval() > objects[i].interval() + MARGIN_OF_ERROR`
        if A.lt (A.add a (A.ofNat 5)) b then some (true, g ++ [i], i + 1)
        else some (true, g, i)
      else groupWhile A iv lenM1 fuel (i + 1) (g ++ [i])
    else some (false, g, i)

/-- `create_next_group`: the group (positions into `iv`) and the new `i`. -/
def createNextGroup (A : Arith T) (iv : List T) (i : Nat) : Option (List Nat × Nat) := do
  let _ ← iv[i]?                                      -- `objects[*i]`
  let lenM1 ← csub iv.length 1                        -- `objects.len() - 1`
  let (ret, g, i') ← groupWhile A iv lenM1 (iv.length + 1) (i + 1) [i]
  if ret then some (g, i')
  else if 2 < iv.length ∧ i' < iv.length then do
    let l1 ← csub iv.length 1
    let l2 ← csub iv.length 2
    let x ← iv[l1]?
    let y ← iv[l2]?
    if almostEq A x y then
      let _ ← iv[i']?
      some (g ++ [i'], i' + 1)
    else some (g, i')
  else some (g, i')

/-- The whole iterator: `next()` until `i >= len`. -/
def groupAll (A : Arith T) (iv : List T) : Nat → Nat → Option (List (List Nat))
  | 0, _ => none
  | fuel + 1, i =>
    if i < iv.length then do
      let (g, i') ← createNextGroup A iv i
      let rest ← groupAll A iv fuel i'
      some (g :: rest)
    else some []

def groupByInterval (A : Arith T) (iv : List T) : Option (List (List Nat)) :=
  groupAll A iv (iv.length + 1) 0

/-! ## Rhythm: same-rhythm groups and same-pattern groups -/

structure RGroup (T : Type) where
  /-- positions (into `objects`) of the hit objects -/
  members : List Nat
  hitObjectInterval : Option T
  hitObjectIntervalRatio : T
  interval : T

/-- `start_time(&hit_objects)` (outer `Option`: checked dereference). -/
def startTimeOf (st : Store T) : List Nat → Option (Option T)
  | [] => some none
  | p :: _ => (st.objects[p]?).map fun o => some o.start

/-- `duration(&hit_objects)` -/
def durationOf (A : Arith T) (st : Store T) (ms : List Nat) : Option (Option T) := do
  match ms.getLast? with
  | none => some none
  | some pl =>
    let last ← st.objects[pl]?
    match (← startTimeOf st ms) with
    | none => some none
    | some s => some (some (A.sub last.start s))

/-- `SameRhythmHitObjectGrouping::new(previous, hit_objects)` -/
def newRGroup (A : Arith T) (st : Store T) (prev : Option (RGroup T)) (ms : List Nat) :
    Option (RGroup T) := do
  let hoi ← if ms.length < 2 then some none
    else do
      let dur ← durationOf A st ms
      let n1 ← csub ms.length 1
      some (dur.map fun d => A.div d (A.ofNat n1))
  let ratio := match prev.bind (·.hitObjectInterval), hoi with
    | some p, some c => A.div c p
    | _, _ => A.ofNat 1
  let prevStart ← match prev with
    | none => some none
    | some g => startTimeOf st g.members
  let st0 ← startTimeOf st ms
  let interval := match prevStart, st0 with
    | some p, some c => A.sub c p
    | _, _ => A.inf
  some ⟨ms, hoi, ratio, interval⟩

/-- `create_same_rhythm_grouped_hit_objects`: `groups` are positions into `notes`. -/
def buildRGroups (A : Arith T) (st : Store T) : List (List Nat) → List (RGroup T) → Option (List (RGroup T))
  | [], acc => some acc
  | g :: rest, acc => do
    let ms ← g.mapM fun i => st.notes[i]?             -- `objects[i].downgrade()`
    let rg ← newRGroup A st acc.getLast? ms
    buildRGroups A st rest (acc ++ [rg])

/-- `SamePatternsGroupedHitObjects::group_interval`: `self.groups.get(1).unwrap_or(&self.groups[0])`
evaluates `self.groups[0]` eagerly. -/
def groupInterval (rgs : List (RGroup T)) (pg : List Nat) : Option (Option T) := do
  let g0 ← pg[0]?
  let g := match pg[1]? with | some g1 => g1 | none => g0
  let rg ← rgs[g]?                                    -- `Weak::upgrade`
  some (some rg.interval)

/-- `SamePatternsGroupedHitObjects::interval_ratio` of the pattern group at position `k`. -/
def intervalRatio (A : Arith T) (rgs : List (RGroup T)) (pgs : List (List Nat)) (k : Nat) : Option T := do
  let pg ← pgs[k]?
  let this ← groupInterval rgs pg
  let prev ← match k with
    | 0 => some none
    | k' + 1 => do
      let ppg ← pgs[k']?                              -- `previous.upgrade()`
      groupInterval rgs ppg
  match this, prev with
  | some a, some b => some (A.div a b)
  | _, _ => some (A.ofNat 1)

/-- `(object position, rhythm group position)` assignments, in program order. -/
def rhythmEntries (rgs : List (RGroup T)) : List (Nat × Nat) :=
  rgs.zipIdx.flatMap fun (rg, k) => rg.members.map fun p => (p, k)

/-- `(object position, pattern group position)` assignments, in program order; the group pointers
are dereferenced (`upgraded_groups`). -/
def patternEntries (rgs : List (RGroup T)) (pgs : List (List Nat)) : Option (List (Nat × Nat)) := do
  let per ← pgs.zipIdx.mapM fun (pg, k) => do
    let gs ← pg.mapM fun g => rgs[g]?
    some (gs.flatMap fun rg => rg.members.map fun p => (p, k))
  some per.flatten

/-! ## The slice of the colour evaluator -/

/-- `&objects.objects[curr.idx.saturating_sub(2 * 64)..=curr.idx]`: the bounds, checked. -/
def colourWindow (st : Store T) (o : DObj T) : Option (Nat × Nat) :=
  if o.idx < st.objects.length then some (o.idx - 128, o.idx) else none

/-! ## Evaluator-time lookups through the colour data -/

/-- The mono streak an object's colour data points to (`color_data.mono_streak.upgrade()`), through the
positions `process_and_assign` recorded (`repeating pattern`, `alternating.idx`, `mono.idx`); every
index is checked. -/
def monoOf (reps : List Rep) (c : ColourOf) : Option Mono := do
  let rep ← reps[c.1]?
  let alt ← rep[c.2.1]?
  alt[c.2.2.1]?

/-- `ColorData::previous_color_change`: `mono.first_hit_object()` then `previous_note(.., 0)`. -/
def prevColourChange (st : Store T) (reps : List Rep) (c : ColourOf) : Option (Option (DObj T)) := do
  let mono ← monoOf reps c
  match mono.head? with
  | none => some none
  | some f =>
    let fo ← st.objects[f]?
    previousNote st fo 0

/-- `ColorData::next_color_change`: `mono.last_hit_object()` then `next_note(.., 0)`. -/
def nextColourChange (st : Store T) (reps : List Rep) (c : ColourOf) : Option (Option (DObj T)) := do
  let mono ← monoOf reps c
  match mono.getLast? with
  | none => some none
  | some l =>
    let lo ← st.objects[l]?
    nextNote st lo 0

/-- Per object, the `idx` of what the evaluators look up: `previous_note(0)`, `next_note(0)`,
`previous_mono(0)`, `previous_mono(1)`, `previous_color_change`, `next_color_change`. -/
def lookupsOf (st : Store T) (reps : List Rep) (colour : List ColourOf) :
    Option (List (List (Option Nat))) :=
  st.objects.zipIdx.mapM fun (op : DObj T × Nat) => do
    let c ← colour[op.2]?
    let a ← previousNote st op.1 0
    let b ← nextNote st op.1 0
    let d ← previousMono st op.1 0
    let e ← previousMono st op.1 1
    let f ← prevColourChange st reps c
    let g ← nextColourChange st reps c
    some ([a, b, d, e, f, g].map fun x => x.map (·.idx))

/-! ## Everything `create_difficulty_objects` builds -/

structure Pre (T : Type) where
  store : Store T
  monos : List Mono
  alts : List Alt
  reps : List Rep
  repIntervals : List Nat
  /-- per object position -/
  colour : List ColourOf
  rgroups : List (RGroup T)
  pgroups : List (List Nat)
  pgInterval : List (Option T)
  pgRatio : List T
  /-- per object position: `(rhythm group, pattern group)`; `none` for objects that are not notes -/
  rhythm : List (Option (Nat × Nat))
  windows : List (Nat × Nat)
  /-- per object position: the evaluator-time lookups (`lookupsOf`) -/
  lookups : List (List (Option Nat))

/-- Colour preprocessing of a store. -/
def colourOf (st : Store T) : Option (List Mono × List Alt × List Rep × List Nat × List ColourOf) := do
  let monos ← encodeMono st
  let alts := encodeAlt monos
  let reps ← repLoop st (alts.length + 1) alts
  let ivs ← (List.range reps.length).mapM (findInterval reps)
  let entries := colourEntries reps
  -- the hit objects of a streak are dereferenced when they are assigned
  let _ ← entries.mapM fun e => st.objects[e.1]?
  let colour ← (List.range st.objects.length).mapM (lookupLast entries)
  some (monos, alts, reps, ivs, colour)

/-- Rhythm preprocessing of a store. -/
def rhythmOf (A : Arith T) (st : Store T) :
    Option (List (RGroup T) × List (List Nat) × List (Option T) × List T × List (Option (Nat × Nat))) := do
  let noteIv ← st.notes.mapM fun p => (st.objects[p]?).map (·.delta)
  let groups ← groupByInterval A noteIv
  let rgs ← buildRGroups A st groups []
  let pgs ← groupByInterval A (rgs.map (·.interval))
  let pgi ← pgs.mapM (groupInterval rgs)
  let pgr ← (List.range pgs.length).mapM (intervalRatio A rgs pgs)
  let re := rhythmEntries rgs
  let _ ← re.mapM fun e => st.objects[e.1]?
  let pe ← patternEntries rgs pgs
  let _ ← pe.mapM fun e => st.objects[e.1]?
  let rhythm ← (List.range st.objects.length).mapM fun p =>
    match lookupLast re p, lookupLast pe p with
    | some r, some q => some (some (r, q))
    | none, none => some none
    | _, _ => none                                   -- a note in a rhythm group but in no pattern group
  some (rgs, pgs, pgi, pgr, rhythm)

/-- `DifficultyValues::create_difficulty_objects(converted, take, clock_rate, …)`: the structure it
returns does not depend on `take` (the `inspect` closure only counts). -/
def preprocess (A : Arith T) (clock : T) (objs : List (Obj T)) : Option (Pre T) := do
  let st ← build A clock objs
  let (monos, alts, reps, ivs, colour) ← colourOf st
  let (rgs, pgs, pgi, pgr, rhythm) ← rhythmOf A st
  let windows ← st.objects.mapM (colourWindow st)
  let lookups ← lookupsOf st reps colour
  some ⟨st, monos, alts, reps, ivs, colour, rgs, pgs, pgi, pgr, rhythm, windows, lookups⟩

end Rosu.TaikoPre
