import RosuModel.Model.FullPerf
import RosuModel.Model.GenStateWire
import RosuModel.Model.PerfCalcWire

/-!
Driver glue for the `FP` lines: `Model/FullPerf.lean` with the `Float` instances of `NumOps`
(`GenStateWire.lean`) and `PPOps` (`PerfCalcWire.lean`).  Request = attribute fields (as in the `PP` lines) +
settings + the *builder inputs* (as in the `GS` lines: stored accuracy, combo, partial hit results, `-` =
not provided); response = the pp outputs of the `PP` lines, or `PANIC` when `generate_state` would underflow.
-/
namespace Rosu.FullPerf
open Rosu.Wire Rosu.GenState Rosu.PerfCalc

def handleFP (args : List String) : String :=
  match args with
  | ["osu", fs, ns, ms, passed, lazer, nsha, prio, acc, combo, lt, st, se, n300, n100, n50, misses] =>
    match floats fs, natList ns, bits ms with
    | [aim, adsc, speed, flashlight, sf, snc, adstc, sdstc, ar, ghw, ohw, mhw, hp], [nc, nsl, nlt, nsp, mc],
      [nf, so, rx, ap, bl, hd, tc, flm] =>
      let a : OsuAttrs Float :=
        { aim := aim, aimDifficultSliderCount := adsc, speed := speed, flashlight := flashlight,
          sliderFactor := sf, speedNoteCount := snc, aimDifficultStrainCount := adstc,
          speedDifficultStrainCount := sdstc, ar := ar, greatHitWindow := ghw, okHitWindow := ohw,
          mehHitWindow := mhw, hp := hp, nCircles := nc, nSliders := nsl, nLargeTicks := nlt,
          nSpinners := nsp, maxCombo := mc }
      let d : OsuSettings :=
        { mods := { nf := nf, so := so, rx := rx, ap := ap, bl := bl, hd := hd, tc := tc, fl := flm },
          lazer := bool! lazer, noSliderHeadAcc := bool! nsha, passed := optNat passed, prio := parsePrio prio }
      let b : OsuB Float :=
        { acc := optFloat acc, combo := optNat combo, largeTickHits := optNat lt, smallTickHits := optNat st,
          sliderEndHits := optNat se, n300 := optNat n300, n100 := optNat n100, n50 := optNat n50,
          misses := optNat misses }
      match osuFull stdSpecial a d b with
      | .panic => "PANIC"
      | .ok o =>
        s!"pp={showF o.pp} acc={showF o.ppAcc} aim={showF o.ppAim} fl={showF o.ppFlashlight} speed={showF o.ppSpeed} emc={showF o.effectiveMissCount} sd={showOptF o.speedDeviation}"
    | _, _, _ => "bad-fp-osu"
  | ["taiko", fs, ns, ms, passed, prio, acc, combo, n300, n100, misses] =>
    match floats fs, natList ns, bits ms with
    | [ghw, msf, stars], [mc, conv], [hd, ez, flm] =>
      let a : TaikoAttrs Float :=
        { greatHitWindow := ghw, monoStaminaFactor := msf, stars := stars, maxCombo := mc, isConvert := conv == 1 }
      let d : TaikoSettings := { mods := { hd := hd, ez := ez, fl := flm }, passed := optNat passed, prio := parsePrio prio }
      let b : TaikoB Float :=
        { acc := optFloat acc, combo := optNat combo, n300 := optNat n300, n100 := optNat n100, misses := optNat misses }
      match taikoFull stdSpecial a d b with
      | .panic => "PANIC"
      | .ok o =>
        s!"pp={showF o.pp} acc={showF o.ppAcc} diff={showF o.ppDifficulty} emc={showF o.effectiveMissCount} eur={showOptF o.estimatedUnstableRate}"
    | _, _, _ => "bad-fp-taiko"
  | ["catch", fs, ns, ms, acc, combo, fruits, droplets, tiny, tinyMisses, misses] =>
    match floats fs, natList ns, bits ms with
    | [stars, ar], [nfr, ndr, ntd], [hd, flm, nf] =>
      let a : CatchFullAttrs Float :=
        { base := { stars := stars, ar := ar, nFruits := nfr, nDroplets := ndr }, nTinyDroplets := ntd }
      let d : CatchSettings := { mods := { hd := hd, fl := flm, nf := nf } }
      let b : CatchB Float :=
        { acc := optFloat acc, combo := optNat combo, fruits := optNat fruits, droplets := optNat droplets,
          tiny := optNat tiny, tinyMisses := optNat tinyMisses, misses := optNat misses }
      match catchFull a d b with
      | .panic => "PANIC"
      | .ok pp => s!"pp={showF pp}"
    | _, _, _ => "bad-fp-catch"
  | ["mania", fs, ns, ms, passed, classic, prio, acc, n320, n300, n200, n100, n50, misses] =>
    match floats fs, natList ns, bits ms with
    | [stars], [no, nh], [nf, ez] =>
      let a : ManiaAttrs Float := { stars := stars, nObjects := no, nHoldNotes := nh }
      let d : ManiaSettings :=
        { mods := { nf := nf, ez := ez }, passed := optNat passed, classic := bool! classic, prio := parsePrio prio }
      let b : ManiaB Float :=
        { acc := optFloat acc, n320 := optNat n320, n300 := optNat n300, n200 := optNat n200, n100 := optNat n100,
          n50 := optNat n50, misses := optNat misses }
      match maniaFull a d b with
      | .panic => "PANIC"
      | .ok (pp, dv) => s!"pp={showF pp} diff={showF dv}"
    | _, _, _ => "bad-fp-mania"
  | _ => "bad-fp"

end Rosu.FullPerf
