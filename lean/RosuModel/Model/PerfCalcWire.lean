import RosuModel.Model.PerfCalc
import RosuModel.Model.AttrsWire
import RosuModel.Model.Wire

/-!
Driver glue for the `PP` lines: the `Float` (IEEE double) instance of `PPOps` and request → response.

`Float` is the platform's IEEE-754 binary64; `+ - * / sqrt` are correctly rounded, `Float.pow/log/log10/
exp` call the C library (the same functions rustc's `powf/ln/log10/exp` lower to).  Literals are NOT
taken from `Float.ofScientific` (which truncates to 64 bits before rounding, i.e. rounds twice) but
from `roundRat`, an exact round-to-nearest-even of the decimal value, which is what rustc does.

Responses print every f64 as its bit pattern (`b:<16 hex digits>`); `./check` first compares the
lines textually (bit-exact) and otherwise numerically with the tolerance of tools/props/C09.json.
Tokens starting with `~` are annotations (`~dom=` = the `…Dom` side-condition predicate evaluated in
IEEE arithmetic): they are not compared, only counted against the implementation's `fin=` token.
-/
namespace Rosu.PerfCalc
open Rosu.Wire
open Rosu.Attrs (hexNat)
open Rosu.Finite (OsuState TaikoState CatchState ManiaState)

/-- the double nearest to `n / d` (`d > 0`), ties to even; normal range only (all literals are) -/
def roundRat (n d : Nat) : Float :=
  if n == 0 then 0.0
  else
    let sh : Int := 54 - (n.log2 : Int) + (d.log2 : Int)
    let (num, den) : Nat × Nat := if sh ≥ 0 then (n <<< sh.toNat, d) else (n, d <<< (-sh).toNat)
    let q := num / den
    let r := num % den
    let extra := q.log2 - 52
    let mant := q >>> extra
    let rem := q % (2 ^ extra)
    let half := 2 ^ (extra - 1)
    let roundUp : Bool :=
      if rem > half then true else if rem < half then false else (r != 0 || mant % 2 == 1)
    let mant := if roundUp then mant + 1 else mant
    Float.scaleB mant.toFloat ((extra : Int) - sh)

def fInf : Float := Float.ofBits 0x7FF0000000000000
def fNegInf : Float := Float.ofBits 0xFFF0000000000000
def fNaN : Float := Float.ofBits 0x7FF8000000000000

instance : PPOps Float where
  ofScientific m s e := if s then roundRat m (10 ^ e) else roundRat (m * 10 ^ e) 1
  add := Float.add
  sub := Float.sub
  mul := Float.mul
  div := Float.div
  neg := Float.neg
  ofNat n := n.toFloat
  ofInt i := Float.ofInt i
  lt a b := a < b
  le a b := a ≤ b
  beq a b := a == b
  -- `f64::max` / `f64::min`: a NaN operand is ignored
  fmax a b := if a.isNaN then b else if b.isNaN then a else if a < b then b else a
  fmin a b := if a.isNaN then b else if b.isNaN then a else if b < a then b else a
  abs := Float.abs
  powf a b := if b == 2.0 then a * a else if b == 0.5 then (if a == fNegInf then fInf else (Float.sqrt a).abs) else Float.pow a b
  ln := Float.log
  log10 := Float.log10
  exp := Float.exp
  sqrt := Float.sqrt
  cbrt := Float.cbrt
  sin := Float.sin
  atan2 := Float.atan2
  r32 x := x.toFloat32.toFloat
  truncI32 x := x.toInt32.toInt
  ceil := Float.ceil
  pi := Float.ofBits 0x400921FB54442D18
  posInf := fInf
  negInf := fNegInf
  nan := fNaN
  isPosInf x := x == fInf
  isNegInf x := x == fNegInf
  isNaN x := x.isNaN

def hexDigitChar (n : Nat) : Char := "0123456789abcdef".toList.getD n '0'

def hex16 (n : Nat) : String :=
  String.ofList ((List.range 16).reverse.map fun i => hexDigitChar ((n >>> (4 * i)) % 16))

/-- `b:<bits>`; every NaN is printed as `nan` (payload/sign of a NaN are not compared) -/
def showF (x : Float) : String := if x.isNaN then "nan" else s!"b:{hex16 x.toBits.toNat}"

def showOptF : Option Float → String
  | none => "none"
  | some x => showF x

def parseF (s : String) : Float := Float.ofBits (UInt64.ofNat (hexNat s))

def floats (s : String) : List Float := (splitList s ",").map parseF

def bits (s : String) : List Bool := s.toList.map (· == '1')

def allFinite (l : List Float) : Bool := l.all Float.isFinite

def b01 (b : Bool) : String := if b then "1" else "0"

def handlePP (args : List String) : String :=
  match args with
  | ["osu", fs, ns, st, ms, fl] =>
    match floats fs, natList ns, natList st, bits ms, bits fl with
    | [aim, adsc, speed, flashlight, sf, snc, adstc, sdstc, ar, ghw, ohw, mhw, hp],
      [nc, nsl, nlt, nsp, mc], [smc, slt, sst, sse, n300, n100, n50, miss],
      [nf, so, rx, ap, bl, hd, tc, flm], [lazer, classic] =>
      let a : OsuAttrs Float :=
        { aim := aim, aimDifficultSliderCount := adsc, speed := speed, flashlight := flashlight,
          sliderFactor := sf, speedNoteCount := snc, aimDifficultStrainCount := adstc,
          speedDifficultStrainCount := sdstc, ar := ar, greatHitWindow := ghw, okHitWindow := ohw,
          mehHitWindow := mhw, hp := hp, nCircles := nc, nSliders := nsl, nLargeTicks := nlt,
          nSpinners := nsp, maxCombo := mc }
      let m : OsuMods := { nf := nf, so := so, rx := rx, ap := ap, bl := bl, hd := hd, tc := tc, fl := flm }
      let s : OsuState := ⟨smc, slt, sst, sse, n300, n100, n50, miss⟩
      let o := osuCalculate stdSpecial a m s lazer classic
      let dom := osuCalculateDom stdSpecial a m s lazer classic
      let fin := allFinite [o.pp, o.ppAcc, o.ppAim, o.ppFlashlight, o.ppSpeed, o.effectiveMissCount]
        && (o.speedDeviation.map Float.isFinite).getD true
      s!"pp={showF o.pp} acc={showF o.ppAcc} aim={showF o.ppAim} fl={showF o.ppFlashlight} speed={showF o.ppSpeed} emc={showF o.effectiveMissCount} sd={showOptF o.speedDeviation} fin={b01 fin} ~dom={b01 dom}"
    | _, _, _, _, _ => "bad-pp-osu"
  | ["taiko", fs, ns, st, ms] =>
    match floats fs, natList ns, natList st, bits ms with
    | [ghw, msf, stars], [mc, conv], [smc, n300, n100, miss], [hd, ez, flm] =>
      let a : TaikoAttrs Float :=
        { greatHitWindow := ghw, monoStaminaFactor := msf, stars := stars, maxCombo := mc, isConvert := conv == 1 }
      let m : TaikoMods := { hd := hd, ez := ez, fl := flm }
      let s : TaikoState := ⟨smc, n300, n100, miss⟩
      let o := taikoCalculate stdSpecial a m s
      let dom := taikoCalculateDom stdSpecial a m s
      let fin := allFinite [o.pp, o.ppAcc, o.ppDifficulty, o.effectiveMissCount]
        && (o.estimatedUnstableRate.map Float.isFinite).getD true
      s!"pp={showF o.pp} acc={showF o.ppAcc} diff={showF o.ppDifficulty} emc={showF o.effectiveMissCount} eur={showOptF o.estimatedUnstableRate} fin={b01 fin} ~dom={b01 dom}"
    | _, _, _, _ => "bad-pp-taiko"
  | ["catch", fs, ns, st, ms] =>
    match floats fs, natList ns, natList st, bits ms with
    | [stars, ar], [nfr, ndr], [smc, fr, dr, td, tdm, miss], [hd, flm, nf] =>
      let a : CatchAttrs Float := { stars := stars, ar := ar, nFruits := nfr, nDroplets := ndr }
      let m : CatchMods := { hd := hd, fl := flm, nf := nf }
      let s : CatchState := ⟨smc, fr, dr, td, tdm, miss⟩
      let pp := catchCalculate a m s
      s!"pp={showF pp} fin={b01 pp.isFinite} ~dom={b01 (catchCalculateDom a m s)}"
    | _, _, _, _ => "bad-pp-catch"
  | ["mania", fs, st, ms] =>
    match floats fs, natList st, bits ms with
    | [stars], [n320, n300, n200, n100, n50, miss], [nf, ez] =>
      let m : ManiaMods := { nf := nf, ez := ez }
      let s : ManiaState := ⟨n320, n300, n200, n100, n50, miss⟩
      let (pp, dv) := maniaCalculate stars m s
      s!"pp={showF pp} diff={showF dv} fin={b01 (pp.isFinite && dv.isFinite)} ~dom={b01 (maniaCalculateDom stars m s)}"
    | _, _, _ => "bad-pp-mania"
  | ["erf", x] => s!"erf={showF (erf (parseF x))}"
  | ["erfinv", x] => s!"erfinv={showF (erfInv (parseF x))}"
  | ["lit", m, e] =>
    -- decimal literal m·10^(−e) as rustc parses it
    s!"lit={showF (OfScientific.ofScientific (nat! m) true (nat! e) : Float)}"
  | _ => "bad-pp"

end Rosu.PerfCalc
