import RosuModel.Model.StackingFull

/-!
# C05 wire for the osu! stacking passes

`STK <new|old> <thr> <objs>` — `thr` = hex bits of the `f64` stack threshold; `objs` = `-` or `;`-separated
`kind:x:y:start:end:ex:ey:rc:tail:frep` with `kind` 0/1/2, `x y ex ey` hex bits of `f32`, `start end` hex bits of
`f64`, `rc` decimal, `tail` / `frep` = `-` or `x,y` (hex `f32` bits).  Response: the stack heights joined by `,`
(`e` for none) or `PANIC`.
-/
namespace Rosu.Stack.Wire
open Rosu.Stack

def hexDigit (c : Char) : Nat :=
  if '0' ≤ c ∧ c ≤ '9' then c.toNat - '0'.toNat
  else if 'a' ≤ c ∧ c ≤ 'f' then c.toNat - 'a'.toNat + 10
  else if 'A' ≤ c ∧ c ≤ 'F' then c.toNat - 'A'.toNat + 10
  else 0

def hexNat (s : String) : Nat := s.toList.foldl (fun a c => a * 16 + hexDigit c) 0
def f64 (s : String) : Float := Float.ofBits (UInt64.ofNat (hexNat s))
def f32 (s : String) : Float32 := Float32.ofBits (UInt32.ofNat (hexNat s))

abbrev Pos := Float32 × Float32

/-- `Pos::distance`: `(a - b).length()`, `length = f64::from(x * x + y * y).sqrt() as f32` (rosu-map util/pos.rs) -/
def distance (a b : Pos) : Float32 :=
  let dx := a.1 - b.1
  let dy := a.2 - b.2
  (Float.sqrt (dx * dx + dy * dy).toFloat).toFloat32

def floatArith : Arith Float Pos where
  sub a b := a - b
  gt a b := a > b
  close a b := distance a b < 3.0

def optPos (s : String) : Option Pos :=
  match s.splitOn "," with
  | [x, y] => some (f32 x, f32 y)
  | _ => none

def parseObj (s : String) : Option (SObj Float Pos) :=
  match s.splitOn ":" with
  | [k, x, y, st, en, ex, ey, rc, tl, fr] =>
    some ⟨k.toNat?.getD 0, (f32 x, f32 y), f64 st, f64 en, (f32 ex, f32 ey), rc.toNat?.getD 0, optPos tl, optPos fr⟩
  | _ => none

def handleSTK (which thr objs : String) : String :=
  let os : List (SObj Float Pos) := if objs == "-" then [] else (objs.splitOn ";").filterMap parseObj
  let r := if which == "old" then oldStacking floatArith (f64 thr) os else stacking floatArith (f64 thr) os
  match r with
  | none => "PANIC"
  | some h => if h.isEmpty then "e" else ",".intercalate (h.map toString)

end Rosu.Stack.Wire
