import RosuModel.Model.FullPerf
import RosuModel.Model.PipelineMania
import RosuModel.Model.PipelineTaiko
import RosuModel.Model.PipelineOsu

/-!
# C04 / C03 — performance END TO END on the map path, nothing abstract.  Core only.

`*Performance::calculate` with `MapOrAttrs::Map` (`/repo/src/<mode>/performance/mod.rs`):

    generate_state:  attrs = self.difficulty.calculate_for_mode::<Mode>(map)?   -- the builder's OWN Difficulty,
                     insert_attrs(attrs); … state from (attrs, difficulty.passed_objects, score fields)
    calculate:       state = generate_state()?; attrs (cached); <Mode>PerformanceCalculator::new(attrs, mods, state)

= the difficulty pipeline of the mode (with the builder's `passed_objects`) followed by `Model/FullPerf.lean`
(`generate_state` ∘ pp formula on the attributes path).  The gradual performance calculators
(`/repo/src/<mode>/performance/gradual.rs: nth`, chains in `Gen/GradualPerf.lean`):

    self.difficulty.nth(n')?.performance().state(state).difficulty(self.difficulty.difficulty.clone())
        .passed_objects(self.difficulty.idx as u32).calculate()

= the `i`-th gradual difficulty value of the pipeline, then the attributes path with `passed_objects(i)` and the
builder `fresh.state(state)`.

This file: osu!mania from FILE BYTES (`Model/PipelineMania.lean`).  The other modes are in
`Model/PipelinePerfObjs.lean` (decoded objects).  Three arithmetic classes on one number type `R`: `FOps`
(pipeline), `NumOps` (`generate_state`), `PPOps` (formulas); the driver runs the three IEEE instances.
-/
namespace Rosu.PipelinePerf
open Rosu.SkillOps Rosu.PipelineMania Rosu.FullPerf Rosu.GenState Rosu.PerfCalc

section mania
variable {R S : Type} [FOps R] [FOps S] [NumOps R] [PPOps R] (P : PrepOps R S)

/-- `ManiaPerformanceAttributes` -/
structure ManiaPerfAttrs (R : Type) where
  difficulty : Attrs R
  pp : R
  ppDifficulty : R

/-- what the builder's `Difficulty` (legacy mod bits, `passed_objects`, lazer flag) and priority give the two
halves: NF = bit 1, EZ = bit 2; legacy bits cannot express Classic, so `classic = !lazer` -/
def maniaSettingsOf (mods : Nat) (take : Option Nat) (lazer : Bool) (prio : Prio) : ManiaSettings :=
  { mods := { nf := mods % 2 = 1, ez := mods / 2 % 2 = 1 }, passed := take, classic := !lazer, prio := prio }

/-- the attribute record both halves of `FullPerf.maniaFull` read -/
def maniaAttrsOf (a : Attrs R) : FullPerf.ManiaAttrs R := ⟨a.stars, a.nObjects, a.nHoldNotes⟩

/-- **attributes path**: `ManiaPerformance::new(attrs).mods(..).passed_objects(take)….calculate()` -/
def maniaPerfFromAttrs (a : Attrs R) (mods : Nat) (take : Option Nat) (lazer : Bool) (prio : Prio)
    (b : ManiaB R) : GenState.Res (ManiaPerfAttrs R) :=
  (maniaFull (maniaAttrsOf a) (maniaSettingsOf mods take lazer prio) b).map fun r => ⟨a, r.1, r.2⟩

/-- functorial action on the pipeline's outcome -/
def outMap {α β : Type} (f : α → β) : Out α → Out β
  | .ok a => .ok (f a)
  | .ioError => .ioError
  | .notMania m => .notMania m
  | .unsupported => .unsupported
  | .panic => .panic
  | .fuel => .fuel

/-- **map path**: `ManiaPerformance::new(&Beatmap::from_bytes(bytes)?)` with the same settings: the difficulty
pipeline with the builder's `passed_objects`, then the attributes path -/
def maniaPerfFromMap (A : SecArith R) (fuel : Nat) (bytes : List UInt8) (mods : Nat) (customRate : Option Nat)
    (take : Option Nat) (lazer : Bool) (prio : Prio) (b : ManiaB R) : Out (GenState.Res (ManiaPerfAttrs R)) :=
  outMap (fun a => maniaPerfFromAttrs a mods take lazer prio b) (maniaDifficulty P A fuel bytes mods customRate take)

/-- a builder on which nothing has been set -/
def ManiaB.fresh : ManiaB R := ⟨none, none, none, none, none, none, none⟩

/-- **`ManiaGradualPerformance`**: the attributes after advancing to the `i`-th object (`i ≥ 1`) with score
state `s`: `difficulty.nth(..)` value number `i`, `.performance().state(s).difficulty(..).passed_objects(i)
.calculate()` (default priority).  `none` = the iterator is exhausted. -/
def maniaGradualPerfValue (A : SecArith R) (fuel : Nat) (bytes : List UInt8) (mods : Nat)
    (customRate : Option Nat) (lazer : Bool) (i : Nat) (s : ManiaState) :
    Out (Option (GenState.Res (ManiaPerfAttrs R))) :=
  match prepared P bytes with
  | .ok (l, cols) =>
    if i = 0 then .ok none
    else
      match (gradualValues A fuel (P.dec64 (clockRateBits mods customRate)) cols l)[i - 1]? with
      | none => .ok none
      | some v => outMap (fun a => some (maniaPerfFromAttrs a mods (some i) lazer .best (ManiaB.fresh.update s))) v
  | .ioError => .ioError
  | .notMania m => .notMania m
  | .unsupported => .unsupported
  | .panic => .panic
  | .fuel => .fuel

end mania

/-! ## osu!taiko from FILE BYTES (`Model/PipelineTaiko.lean`) -/

section taikoEval
variable {R : Type} [PPOps R]

/-- `taiko::difficulty::DifficultyValues::eval` on the exported peak vectors and the stamina object strains, at
value level (`Model/EvalCalc.lean: taikoEval`, `taikoCombinedRating`; `Iterator::sum` starts from `-0.0`), and the
attribute record the pp calculator reads -/
def taikoAttrsOfPeaks (rx : Bool) (greatHitWindow : R) (maxCombo : Nat)
    (rhythm reading color stamina mono staminaObjectStrains : List R) : TaikoAttrs R :=
  let dv := fun (l : List R) => Rosu.Agg.difficultyValue PerfCalc.aggOps 0.9 l
  let staminaDV := dv stamina
  let i : TaikoEvalIn R :=
    { rhythmDV := dv rhythm, readingDV := dv reading, colorDV := dv color, staminaDV := staminaDV,
      monoStaminaDV := dv mono,
      staminaDifficultStrains := Rosu.PipelineOsu.countTopWeighted staminaObjectStrains staminaDV }
  let e := PerfCalc.taikoEval i fun pm slb =>
    taikoCombinedRating (-(0.0 : R)) rx false rhythm reading color stamina pm slb
  { greatHitWindow := greatHitWindow, monoStaminaFactor := e.monoStaminaFactor, stars := e.stars,
    maxCombo := maxCombo, isConvert := false }

end taikoEval

section taiko
variable {R : Type} [FOps R] [NumOps R] [PPOps R] (O : Rosu.PipelineTaiko.TOps R)
open Rosu.PipelineTaiko (taikoSkillsOfBytes recordsOf)

/-- `TaikoPerformanceAttributes` -/
structure TaikoPerfAttrs (R : Type) where
  difficulty : TaikoAttrs R
  out : TaikoOut R

/-- the attributes from the final skill states (`eval`) -/
def taikoAttrsOfSkills (rx : Bool) (greatHitWindow : R) (maxCombo : Nat) (sk : Rosu.TaikoSkill.Skills R) :
    TaikoAttrs R :=
  taikoAttrsOfPeaks rx greatHitWindow maxCombo (exportPeaksV sk.rhythm) (exportPeaksV sk.reading)
    (exportPeaksV sk.color) (exportPeaksV sk.stamina) (exportPeaksV sk.singleColorStamina)
    sk.stamina.objectStrains

/-- legacy bits: EZ 2, HD 8, RX 128, FL 1024 -/
def taikoSettingsOf (mods : Nat) (take : Option Nat) (prio : Prio) : TaikoSettings :=
  { mods := { hd := mods / 8 % 2 = 1, ez := mods / 2 % 2 = 1, fl := mods / 1024 % 2 = 1 }, passed := take, prio := prio }

def taikoOutMap {α β : Type} (f : α → β) : Rosu.PipelineTaiko.Out α → Rosu.PipelineTaiko.Out β
  | .ok a => .ok (f a)
  | .ioError => .ioError
  | .notTaiko m => .notTaiko m
  | .panic => .panic
  | .fuel => .fuel

/-- **one-shot difficulty attributes** of a native taiko file (what the pp calculator reads of them) -/
def taikoDifficultyAttrs (A : SecArith R) (fuel : Nat) (bytes : List UInt8) (mods : Nat) (customRate take : Option Nat)
    (greatHitWindow : R) : Rosu.PipelineTaiko.Out (TaikoAttrs R) :=
  taikoOutMap (fun r => taikoAttrsOfSkills (mods / 128 % 2 = 1) greatHitWindow r.1 r.2)
    (taikoSkillsOfBytes O A fuel bytes mods customRate take greatHitWindow)

/-- attributes path -/
def taikoPerfFromAttrs (a : TaikoAttrs R) (mods : Nat) (take : Option Nat) (prio : Prio) (b : TaikoB R) :
    GenState.Res (TaikoPerfAttrs R) :=
  (taikoFull stdSpecial a (taikoSettingsOf mods take prio) b).map fun o => ⟨a, o⟩

/-- **map path**: `TaikoPerformance::new(&Beatmap::from_bytes(bytes)?)…calculate()` -/
def taikoPerfFromMap (A : SecArith R) (fuel : Nat) (bytes : List UInt8) (mods : Nat) (customRate take : Option Nat)
    (greatHitWindow : R) (prio : Prio) (b : TaikoB R) : Rosu.PipelineTaiko.Out (GenState.Res (TaikoPerfAttrs R)) :=
  taikoOutMap (fun a => taikoPerfFromAttrs a mods take prio b)
    (taikoDifficultyAttrs O A fuel bytes mods customRate take greatHitWindow)

def TaikoB.fresh : TaikoB R := ⟨none, none, none, none, none⟩

/-- the values `TaikoGradualDifficulty::next` yields for the `hitsIn hits` hits of the map (the gradual machine of
`Model/Gradual.lean` with the concrete five skills; `Props/C02g.lean` is about exactly this list) -/
def taikoGradualList (A : SecArith R) (fuel : Nat) (hw : R) (hits : List Bool) (recs : List (Rosu.TaikoSkill.TObj R)) :
    List (Gradual.Res (Nat × SkillOps.Res (Rosu.TaikoSkill.Skills R))) :=
  ((Gradual.taikoMachine (Rosu.PipelineTaiko.concreteSkills5 A fuel hw false recs) hits).nexts
      (Gradual.taikoNew (Rosu.PipelineTaiko.concreteSkills5 A fuel hw false recs) hits) ((hits.filter id).length)).1.map
    fun r => match r with
      | Gradual.Res.some (mc, s) => Gradual.Res.some (mc, Rosu.PipelineTaiko.combine5 s)
      | Gradual.Res.none => Gradual.Res.none
      | Gradual.Res.panic => Gradual.Res.panic

/-- **`TaikoGradualPerformance`** advanced to the `i`-th HIT (`i ≥ 1`; taiko's `passed_objects` counts hits) with
state `s`; `none` = exhausted -/
def taikoGradualPerfValue (A : SecArith R) (fuel : Nat) (bytes : List UInt8) (mods : Nat) (customRate : Option Nat)
    (greatHitWindow : R) (i : Nat) (s : TaikoState) : Rosu.PipelineTaiko.Out (Option (GenState.Res (TaikoPerfAttrs R))) :=
  match Rosu.DecodeLine.fromBytes bytes with
  | none => .ioError
  | some d =>
    match recordsOf O d (O.dec64 (Rosu.PipelineTaiko.clockRateBits mods customRate)) mods with
    | .ok (hits, recs) =>
      if i = 0 then .ok none
      else
        match (taikoGradualList A fuel greatHitWindow hits recs)[i - 1]? with
        | none => .ok none
        | some .none => .ok none
        | some .panic => .panic
        | some (.some (mc, .ok sk)) =>
          .ok (some (taikoPerfFromAttrs (taikoAttrsOfSkills (mods / 128 % 2 = 1) greatHitWindow mc sk) mods (some i)
            .best (TaikoB.fresh.update s)))
        | some (.some (_, .panic)) => .panic
        | some (.some (_, .fuel)) => .fuel
    | .ioError => .ioError
    | .notTaiko m => .notTaiko m
    | .panic => .panic
    | .fuel => .fuel

end taiko

end Rosu.PipelinePerf
