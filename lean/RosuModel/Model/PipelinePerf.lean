import RosuModel.Model.FullPerf
import RosuModel.Model.PipelineMania

/-!
# C04 / C03 — performance END TO END on the map path, nothing abstract.  Core only.

`*Performance::calculate` with `MapOrAttrs::Map` (`/repo/src/<mode>/performance/mod.rs`):

    generate_state:  attrs = self.difficulty.calculate_for_mode::<Mode>(map)?   -- the builder's OWN Difficulty,
                     insert_attrs(attrs); … state from (attrs, difficulty.passed_objects, score fields)
    calculate:       state = generate_state()?; attrs (cached); <Mode>PerformanceCalculator::new(attrs, mods, state)

= the difficulty pipeline of the mode (with the builder's `passed_objects`) followed by `Model/FullPerf.lean`
(`generate_state` ∘ pp formula on the attributes path).  The gradual performance calculators
(`/repo/src/<mode>/performance/gradual.rs: nth`, chains in `Gen/GradualPerf.lean`):

    self.difficulty.nth(n')?.performance().state(state).difficulty(self.difficulty.difficulty.clone())
        .passed_objects(self.difficulty.idx as u32).calculate()

= the `i`-th gradual difficulty value of the pipeline, then the attributes path with `passed_objects(i)` and the
builder `fresh.state(state)`.

This file: osu!mania from FILE BYTES (`Model/PipelineMania.lean`).  The other modes are in
`Model/PipelinePerfObjs.lean` (decoded objects).  Three arithmetic classes on one number type `R`: `FOps`
(pipeline), `NumOps` (`generate_state`), `PPOps` (formulas); the driver runs the three IEEE instances.
-/
namespace Rosu.PipelinePerf
open Rosu.SkillOps Rosu.PipelineMania Rosu.FullPerf Rosu.GenState Rosu.PerfCalc

section mania
variable {R S : Type} [FOps R] [FOps S] [NumOps R] [PPOps R] (P : PrepOps R S)

/-- `ManiaPerformanceAttributes` -/
structure ManiaPerfAttrs (R : Type) where
  difficulty : Attrs R
  pp : R
  ppDifficulty : R

/-- what the builder's `Difficulty` (legacy mod bits, `passed_objects`, lazer flag) and priority give the two
halves: NF = bit 1, EZ = bit 2; legacy bits cannot express Classic, so `classic = !lazer` -/
def maniaSettingsOf (mods : Nat) (take : Option Nat) (lazer : Bool) (prio : Prio) : ManiaSettings :=
  { mods := { nf := mods % 2 = 1, ez := mods / 2 % 2 = 1 }, passed := take, classic := !lazer, prio := prio }

/-- the attribute record both halves of `FullPerf.maniaFull` read -/
def maniaAttrsOf (a : Attrs R) : FullPerf.ManiaAttrs R := ⟨a.stars, a.nObjects, a.nHoldNotes⟩

/-- **attributes path**: `ManiaPerformance::new(attrs).mods(..).passed_objects(take)….calculate()` -/
def maniaPerfFromAttrs (a : Attrs R) (mods : Nat) (take : Option Nat) (lazer : Bool) (prio : Prio)
    (b : ManiaB R) : GenState.Res (ManiaPerfAttrs R) :=
  (maniaFull (maniaAttrsOf a) (maniaSettingsOf mods take lazer prio) b).map fun r => ⟨a, r.1, r.2⟩

/-- functorial action on the pipeline's outcome -/
def outMap {α β : Type} (f : α → β) : Out α → Out β
  | .ok a => .ok (f a)
  | .ioError => .ioError
  | .notMania m => .notMania m
  | .unsupported => .unsupported
  | .panic => .panic
  | .fuel => .fuel

/-- **map path**: `ManiaPerformance::new(&Beatmap::from_bytes(bytes)?)` with the same settings: the difficulty
pipeline with the builder's `passed_objects`, then the attributes path -/
def maniaPerfFromMap (A : SecArith R) (fuel : Nat) (bytes : List UInt8) (mods : Nat) (customRate : Option Nat)
    (take : Option Nat) (lazer : Bool) (prio : Prio) (b : ManiaB R) : Out (GenState.Res (ManiaPerfAttrs R)) :=
  outMap (fun a => maniaPerfFromAttrs a mods take lazer prio b) (maniaDifficulty P A fuel bytes mods customRate take)

/-- a builder on which nothing has been set -/
def ManiaB.fresh : ManiaB R := ⟨none, none, none, none, none, none, none⟩

/-- **`ManiaGradualPerformance`**: the attributes after advancing to the `i`-th object (`i ≥ 1`) with score
state `s`: `difficulty.nth(..)` value number `i`, `.performance().state(s).difficulty(..).passed_objects(i)
.calculate()` (default priority).  `none` = the iterator is exhausted. -/
def maniaGradualPerfValue (A : SecArith R) (fuel : Nat) (bytes : List UInt8) (mods : Nat)
    (customRate : Option Nat) (lazer : Bool) (i : Nat) (s : ManiaState) :
    Out (Option (GenState.Res (ManiaPerfAttrs R))) :=
  match prepared P bytes with
  | .ok (l, cols) =>
    if i = 0 then .ok none
    else
      match (gradualValues A fuel (P.dec64 (clockRateBits mods customRate)) cols l)[i - 1]? with
      | none => .ok none
      | some v => outMap (fun a => some (maniaPerfFromAttrs a mods (some i) lazer .best (ManiaB.fresh.update s))) v
  | .ioError => .ioError
  | .notMania m => .notMania m
  | .unsupported => .unsupported
  | .panic => .panic
  | .fuel => .fuel

end mania

end Rosu.PipelinePerf
