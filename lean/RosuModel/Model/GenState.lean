/-
Score-state generators (`generate_state`) of the four performance builders, transcribed branch
by branch.  Core Lean only.

Sources (all in /repo/src):
  osu/performance/mod.rs    `OsuPerformance::generate_state`, `NoComboState::accuracy`, `state`
  taiko/performance/mod.rs  `TaikoPerformance::generate_state`, `accuracy`
  catch/performance/mod.rs  `CatchPerformance::generate_state`, `accuracy`
  mania/performance/mod.rs  `ManiaPerformance::generate_state`; mania/score_state.rs `accuracy`

Conventions
* counts are `Nat`; `saturating_sub` is `Nat` subtraction; `cmp::min` is `min`;
* a plain `a - b` on `u32` is *checked*: the raw function records `b ≤ a` in the `ok` flag of its
  result (and goes on with the truncated value); `osuGen`/… turn `ok = false` into `Res.panic`.
  Plain `+=` on **unclamped provided values** (catch only) is checked against `u32::MAX` the same way;
  `saturating_add` is `satAdd` (catch, since 9eb418a);
* the float parts are generic in `NumOps R` (DESIGN.md section 3, F-generic).  `Float` instance:
  `GenStateWire.lean`; exact ordered-field instance: `Lemmas/GenStateExact.lean`;
* `for x in lo..=hi` is a left fold over `rangeIncl lo hi`; `if dist < best_dist {…}` is `Acc.offer`;
  the `hit` bit of the accumulator records whether any candidate was accepted;
* the trailing `self.n300 = Some(n300); …` is `*B.update`, so that a second call is expressible:
  `osuGen c b = ok (state, b')` and `osuGen c b'` is the second call.
-/
namespace Rosu.GenState

/-- `HitResultPriority` (any/performance/mod.rs). -/
inductive Prio where
  | best
  | worst
deriving DecidableEq, Repr, Inhabited

/-- The arithmetic the generators use on `f64`.  `floorU32`/`ceilU32` are `x.floor() as u32` /
`x.ceil() as u32` (saturating casts).  `maxVal` is `f64::MAX`, `infVal` is `f64::INFINITY`. -/
class NumOps (R : Type) where
  ofNat : Nat → R
  add : R → R → R
  sub : R → R → R
  mul : R → R → R
  div : R → R → R
  abs : R → R
  lt : R → R → Bool
  floorU32 : R → Nat
  ceilU32 : R → Nat
  maxVal : R
  infVal : R

/-- Outcome of a generator: a value or a `u32` underflow/overflow panic. -/
inductive Res (α : Type) where
  | ok : α → Res α
  | panic : Res α
deriving DecidableEq, Repr

def Res.map {α β} (f : α → β) : Res α → Res β
  | .ok a => .ok (f a)
  | .panic => .panic

def u32Max : Nat := 4294967295

/-- `a.saturating_add(b)` on `u32` -/
def satAdd (a b : Nat) : Nat := min (a + b) u32Max

/-- `self.difficulty.get_passed_objects() as u32` (`usize::MAX as u32` when unset). -/
def passedU32 (p : Option Nat) : Nat := p.getD u32Max

/-- `opt.map_or(0, |n| cmp::min(n, cap))` -/
def optMin (o : Option Nat) (cap : Nat) : Nat :=
  match o with
  | none => 0
  | some n => min n cap

/-- `opt.map_or(cap, |n| cmp::min(n, cap))` -/
def optMinOr (o : Option Nat) (cap : Nat) : Nat :=
  match o with
  | none => cap
  | some n => min n cap

/-- Search accumulator: `best_dist`, the variables assigned on acceptance, whether any candidate
was accepted, and the conjunction of the checked-subtraction conditions met so far. -/
structure Acc (R A : Type) where
  dist : R
  val : A
  hit : Bool
  ok : Bool

def rangeIncl (lo hi : Nat) : List Nat := List.range' lo (hi + 1 - lo)

section
variable {R : Type} [NumOps R]
open NumOps

/-- `if d < best_dist { best_dist = d; vars = v }` -/
def Acc.offer {A : Type} (a : Acc R A) (d : R) (v : A) : Acc R A :=
  if lt d a.dist then { dist := d, val := v, hit := true, ok := a.ok } else a

def Acc.check {A : Type} (a : Acc R A) (c : Bool) : Acc R A := { a with ok := a.ok && c }

/-! ## osu!standard -/

/-- `OsuScoreOrigin` -/
inductive OsuOrigin where
  | stable
  | withSliderAcc (maxLargeTicks maxSliderEnds : Nat)
  | withoutSliderAcc (maxLargeTicks maxSmallTicks : Nat)
deriving DecidableEq, Repr

/-- Attributes and settings read by `OsuPerformance::generate_state`. -/
structure OsuCfg where
  maxCombo : Nat
  /-- `attrs.n_objects()` -/
  nObjects : Nat
  nSliders : Nat
  nLargeTicks : Nat
  passed : Option Nat
  lazer : Bool
  /-- `mods.no_slider_head_acc(lazer)` -/
  noSliderHeadAcc : Bool
  prio : Prio
deriving Repr

/-- The optional builder fields. -/
structure OsuB (R : Type) where
  acc : Option R
  combo : Option Nat
  largeTickHits : Option Nat
  smallTickHits : Option Nat
  sliderEndHits : Option Nat
  n300 : Option Nat
  n100 : Option Nat
  n50 : Option Nat
  misses : Option Nat

structure OsuState where
  maxCombo : Nat
  largeTickHits : Nat
  smallTickHits : Nat
  sliderEndHits : Nat
  n300 : Nat
  n100 : Nat
  n50 : Nat
  misses : Nat
deriving DecidableEq, Repr

/-- `OsuPerformance::state(s)`; also the field update at the end of `generate_state`. -/
def OsuB.update (b : OsuB R) (s : OsuState) : OsuB R :=
  { acc := b.acc, combo := some s.maxCombo, largeTickHits := some s.largeTickHits,
    smallTickHits := some s.smallTickHits, sliderEndHits := some s.sliderEndHits,
    n300 := some s.n300, n100 := some s.n100, n50 := some s.n50, misses := some s.misses }

def osuAccNum (o : OsuOrigin) (n300 n100 n50 lt st se : Nat) : Nat :=
  300 * n300 + 100 * n100 + 50 * n50 +
    match o with
    | .stable => 0
    | .withSliderAcc ml me => 150 * min se me + 30 * min lt ml
    | .withoutSliderAcc ml ms => 30 * min lt ml + 10 * min st ms

def osuAccDen (o : OsuOrigin) (n300 n100 n50 misses : Nat) : Nat :=
  300 * (n300 + n100 + n50 + misses) +
    match o with
    | .stable => 0
    | .withSliderAcc ml me => 150 * me + 30 * ml
    | .withoutSliderAcc ml ms => 30 * ml + 10 * ms

/-- `NoComboState::accuracy` -/
def osuAcc (o : OsuOrigin) (n300 n100 n50 misses lt st se : Nat) : R :=
  if osuAccDen o n300 n100 n50 misses = 0 then ofNat 0
  else div (ofNat (osuAccNum o n300 n100 n50 lt st se)) (ofNat (osuAccDen o n300 n100 n50 misses))

/-- Result of the hit-result part of a generator. -/
structure OsuHits where
  n300 : Nat
  n100 : Nat
  n50 : Nat
  accepted : Bool
  ok : Bool
deriving DecidableEq, Repr

/-- Context shared by the accuracy arms. -/
structure OsuCtx (R : Type) where
  acc : R
  targetTotal : R
  origin : OsuOrigin
  nObjects : Nat
  nRemaining : Nat
  misses : Nat
  lt : Nat
  st : Nat
  se : Nat
  /-- `slider_acc_value` -/
  sav : Nat

def OsuCtx.distOf (x : OsuCtx R) (n300 n100 n50 : Nat) : R :=
  abs (sub x.acc (osuAcc x.origin n300 n100 n50 x.misses x.lt x.st x.se))

/-- arm `(Some(_), None, None)`: n300 given, search n100 -/
def osuArm100 (x : OsuCtx R) (n300₀ : Nat) : OsuHits :=
  let n300 := min n300₀ x.nRemaining
  let nRem := x.nRemaining - n300
  let raw := div (sub x.targetTotal (ofNat (50 * nRem + 300 * n300 + x.sav))) (ofNat 50)
  let lo := min nRem (floorU32 raw)
  let hi := min nRem (ceilU32 raw)
  let init : Acc R (Nat × Nat) := { dist := maxVal, val := (0, 0), hit := false, ok := decide (n300 ≤ x.nRemaining) }
  let best := (rangeIncl lo hi).foldl (fun a new100 =>
    let new50 := nRem - new100
    (a.check (decide (new100 ≤ nRem))).offer (x.distOf n300 new100 new50) (new100, new50)) init
  { n300 := n300, n100 := best.val.1, n50 := best.val.2, accepted := best.hit, ok := best.ok }

/-- arm `(None, Some(_), None)`: n100 given, search n300 -/
def osuArm300a (x : OsuCtx R) (n100₀ : Nat) : OsuHits :=
  let n100 := min n100₀ x.nRemaining
  let nRem := x.nRemaining - n100
  let raw := div (sub x.targetTotal (ofNat (50 * nRem + 100 * n100 + x.sav))) (ofNat 250)
  let lo := min nRem (floorU32 raw)
  let hi := min nRem (ceilU32 raw)
  let init : Acc R (Nat × Nat) := { dist := maxVal, val := (0, 0), hit := false, ok := decide (n100 ≤ x.nRemaining) }
  let best := (rangeIncl lo hi).foldl (fun a new300 =>
    let new50 := nRem - new300
    (a.check (decide (new300 ≤ nRem))).offer (x.distOf new300 n100 new50) (new300, new50)) init
  { n300 := best.val.1, n100 := n100, n50 := best.val.2, accepted := best.hit, ok := best.ok }

/-- arm `(None, None, Some(_))`: n50 given, search n300 -/
def osuArm300b (x : OsuCtx R) (n50₀ : Nat) : OsuHits :=
  let n50 := min n50₀ x.nRemaining
  let nRem := x.nRemaining - n50
  let raw := div (sub (add x.targetTotal (ofNat (100 * x.misses + 50 * n50)))
    (ofNat (100 * x.nObjects + x.sav))) (ofNat 200)
  let lo := min nRem (floorU32 raw)
  let hi := min nRem (ceilU32 raw)
  let init : Acc R (Nat × Nat) := { dist := maxVal, val := (0, 0), hit := false, ok := decide (n50 ≤ x.nRemaining) }
  let best := (rangeIncl lo hi).foldl (fun a new300 =>
    let new100 := nRem - new300
    (a.check (decide (new300 ≤ nRem))).offer (x.distOf new300 new100 n50) (new300, new100)) init
  { n300 := best.val.1, n100 := best.val.2, n50 := n50, accepted := best.hit, ok := best.ok }

/-- the priority adjustment after the `(None, None, None)` search -/
def osuShift (prio : Prio) (n300 n100 n50 : Nat) : (Nat × Nat × Nat) × Bool :=
  match prio with
  | .best =>
    let n := min n300 (n50 / 4)
    ((n300 - n, n100 + 5 * n, n50 - 4 * n), decide (n ≤ n300) && decide (4 * n ≤ n50))
  | .worst =>
    let n := n100 / 5
    ((n300 + n, n100 - 5 * n, n50 + 4 * n), decide (5 * n ≤ n100))

/-- the nested search of arm `(None, None, None)` (before the priority adjustment) -/
def osuSearch2 (x : OsuCtx R) : Acc R (Nat × Nat × Nat) :=
  let nRem := x.nRemaining
  let raw300 := div (sub x.targetTotal (ofNat (50 * nRem + x.sav))) (ofNat 250)
  let lo300 := min nRem (floorU32 raw300)
  let hi300 := min nRem (ceilU32 raw300)
  let init : Acc R (Nat × Nat × Nat) := { dist := maxVal, val := (0, 0, 0), hit := false, ok := true }
  (rangeIncl lo300 hi300).foldl (fun a new300 =>
    let raw100 := div (sub x.targetTotal (ofNat (50 * nRem + 250 * new300 + x.sav))) (ofNat 50)
    let lo100 := min (floorU32 raw100) (nRem - new300)
    let hi100 := min (ceilU32 raw100) (nRem - new300)
    (rangeIncl lo100 hi100).foldl (fun a new100 =>
      let new50 := nRem - new300 - new100
      (a.check (decide (new300 + new100 ≤ nRem))).offer (x.distOf new300 new100 new50)
        (new300, new100, new50)) (a.check (decide (new300 ≤ nRem)))) init

/-- arm `(None, None, None)` -/
def osuArmNone (x : OsuCtx R) (prio : Prio) : OsuHits :=
  let best := osuSearch2 x
  let sh := osuShift prio best.val.1 best.val.2.1 best.val.2.2
  { n300 := sh.1.1, n100 := sh.1.2.1, n50 := sh.1.2.2, accepted := best.hit, ok := best.ok && sh.2 }

/-- the `else` branch (no accuracy): distribute the remainder by priority -/
def osuNoAcc (prio : Prio) (g300 g100 g50 : Bool) (nObjects misses n300 n100 n50 : Nat) : OsuHits :=
  let remaining := nObjects - (n300 + n100 + n50 + misses)
  match prio with
  | .best =>
    if !g300 then ⟨remaining, n100, n50, true, true⟩
    else if !g100 then ⟨n300, remaining, n50, true, true⟩
    else if !g50 then ⟨n300, n100, remaining, true, true⟩
    else ⟨n300 + remaining, n100, n50, true, true⟩
  | .worst =>
    if !g50 then ⟨n300, n100, remaining, true, true⟩
    else if !g100 then ⟨n300, remaining, n50, true, true⟩
    else if !g300 then ⟨remaining, n100, n50, true, true⟩
    else ⟨n300, n100, n50 + remaining, true, true⟩

structure OsuOut where
  state : OsuState
  accepted : Bool
  ok : Bool
deriving DecidableEq, Repr

/-- `(origin, slider_end_hits, large_tick_hits, small_tick_hits)` -/
def osuSliderParts (c : OsuCfg) (b : OsuB R) : OsuOrigin × Nat × Nat × Nat :=
  match c.lazer, c.noSliderHeadAcc with
  | false, _ => (.stable, 0, 0, 0)
  | true, false =>
    (.withSliderAcc c.nLargeTicks c.nSliders,
      optMinOr b.sliderEndHits c.nSliders, optMinOr b.largeTickHits c.nLargeTicks, 0)
  | true, true =>
    (.withoutSliderAcc (c.nSliders + c.nLargeTicks) c.nSliders,
      0, optMinOr b.largeTickHits (c.nSliders + c.nLargeTicks), optMinOr b.smallTickHits c.nSliders)

/-- `(slider_acc_value, max_slider_acc_value)` -/
def osuSliderAccValues (origin : OsuOrigin) (se lt st : Nat) : Nat × Nat :=
  match origin with
  | .stable => (0, 0)
  | .withSliderAcc ml me => (150 * se + 30 * lt, 150 * me + 30 * ml)
  | .withoutSliderAcc ml ms => (30 * lt + 10 * st, 30 * ml + 10 * ms)

/-- the `if let Some(acc) = self.acc { match (self.n300, self.n100, self.n50) {…} } else {…}` part;
`n300 n100 n50` are the clamped provided values (`0` when absent) -/
def osuHitResults (prio : Prio) (b : OsuB R) (origin : OsuOrigin) (se lt st : Nat)
    (nObjects misses : Nat) : OsuHits :=
  let nRemaining := nObjects - misses
  let n300 := optMin b.n300 nRemaining
  let n100 := optMin b.n100 nRemaining
  let n50 := optMin b.n50 nRemaining
  let sv := osuSliderAccValues origin se lt st
  match b.acc with
  | some acc =>
    let x : OsuCtx R :=
      { acc := acc, targetTotal := mul acc (ofNat (300 * nObjects + sv.2)), origin := origin,
        nObjects := nObjects, nRemaining := nRemaining, misses := misses, lt := lt, st := st,
        se := se, sav := sv.1 }
    match b.n300, b.n100, b.n50 with
    | some _, some _, some _ =>
      let remaining := nObjects - (n300 + n100 + n50 + misses)
      match prio with
      | .best => ⟨n300 + remaining, n100, n50, true, true⟩
      | .worst => ⟨n300, n100, n50 + remaining, true, true⟩
    | some _, some _, none => ⟨n300, n100, nObjects - (n300 + n100 + misses), true, true⟩
    | some _, none, some _ => ⟨n300, nObjects - (n300 + n50 + misses), n50, true, true⟩
    | none, some _, some _ => ⟨nObjects - (n100 + n50 + misses), n100, n50, true, true⟩
    | some _, none, none => osuArm100 x n300
    | none, some _, none => osuArm300a x n100
    | none, none, some _ => osuArm300b x n50
    | none, none, none => osuArmNone x prio
  | none =>
    osuNoAcc prio b.n300.isSome b.n100.isSome b.n50.isSome nObjects misses n300 n100 n50

/-- `OsuPerformance::generate_state`, the part before the builder update. -/
def osuGenRaw (c : OsuCfg) (b : OsuB R) : OsuOut :=
  let nObjects := min (passedU32 c.passed) c.nObjects
  let misses := optMin b.misses nObjects
  -- `let n_remaining = n_objects - misses;` (checked)
  let ok0 := decide (misses ≤ nObjects)
  let sp := osuSliderParts c b
  let hits := osuHitResults c.prio b sp.1 sp.2.1 sp.2.2.1 sp.2.2.2 nObjects misses
  let maxPossibleCombo := c.maxCombo - misses
  let maxCombo := optMinOr b.combo maxPossibleCombo
  { state := { maxCombo := maxCombo, largeTickHits := sp.2.2.1, smallTickHits := sp.2.2.2,
               sliderEndHits := sp.2.1, n300 := hits.n300, n100 := hits.n100, n50 := hits.n50,
               misses := misses },
    accepted := hits.accepted, ok := ok0 && hits.ok }

/-- `generate_state(&mut self)`: the state and the updated builder, or a panic. -/
def osuGen (c : OsuCfg) (b : OsuB R) : Res (OsuState × OsuB R) :=
  let o := osuGenRaw c b
  if o.ok then .ok (o.state, b.update o.state) else .panic

/-- `calculate(mut self)` = `generate_state` followed by the (uninterpreted) calculator, which
reads the attributes/mods (`c`) and the state only. -/
def osuCalculate {Out : Type} (perfCalc : OsuCfg → OsuState → Out) (c : OsuCfg) (b : OsuB R) : Res Out :=
  (osuGen c b).map fun p => perfCalc c p.1

/-! ## osu!taiko -/

structure TaikoCfg where
  maxCombo : Nat
  passed : Option Nat
  prio : Prio
deriving Repr

structure TaikoB (R : Type) where
  acc : Option R
  combo : Option Nat
  n300 : Option Nat
  n100 : Option Nat
  misses : Option Nat

structure TaikoState where
  maxCombo : Nat
  n300 : Nat
  n100 : Nat
  misses : Nat
deriving DecidableEq, Repr

def TaikoB.update (b : TaikoB R) (s : TaikoState) : TaikoB R :=
  { acc := b.acc, combo := some s.maxCombo, n300 := some s.n300, n100 := some s.n100,
    misses := some s.misses }

/-- taiko `accuracy(n300, n100, misses)` -/
def taikoAcc (n300 n100 misses : Nat) : R :=
  if n300 + n100 + misses = 0 then ofNat 0
  else div (ofNat (2 * n300 + n100)) (ofNat (2 * (n300 + n100 + misses)))

structure TaikoOut where
  state : TaikoState
  accepted : Bool
  ok : Bool
deriving DecidableEq, Repr

/-- arm `(None, None)` with accuracy -/
def taikoSearch (acc : R) (total nRemaining misses : Nat) : Acc R (Nat × Nat) :=
  let targetTotal := mul acc (ofNat (2 * total))
  let raw := sub targetTotal (ofNat nRemaining)
  let lo := min nRemaining (floorU32 raw)
  let hi := min nRemaining (ceilU32 raw)
  let init : Acc R (Nat × Nat) := { dist := maxVal, val := (0, 0), hit := false, ok := true }
  (rangeIncl lo hi).foldl (fun a new300 =>
    let new100 := nRemaining - new300
    (a.check (decide (new300 ≤ nRemaining))).offer (abs (sub acc (taikoAcc new300 new100 misses)))
      (new300, new100)) init

/-- the hit-result part: `(n300, n100, accepted, ok)` -/
def taikoHitResults (prio : Prio) (b : TaikoB R) (total misses : Nat) : Nat × Nat × Bool × Bool :=
  let nRemaining := total - misses
  let n300 := optMin b.n300 nRemaining
  let n100 := optMin b.n100 nRemaining
  match b.acc with
  | some acc =>
    match b.n300, b.n100 with
    | some _, some _ =>
      let remaining := total - (n300 + n100 + misses)
      match prio with
      | .best => (n300 + remaining, n100, true, true)
      | .worst => (n300, n100 + remaining, true, true)
    | some _, none => (n300, n100 + (total - (n300 + misses)), true, true)
    | none, some _ => (n300 + (total - (n100 + misses)), n100, true, true)
    | none, none =>
      let best := taikoSearch acc total nRemaining misses
      (best.val.1, best.val.2, best.hit, best.ok)
  | none =>
    let remaining := total - (n300 + n100 + misses)
    match prio with
    | .best =>
      if b.n300.isNone then (remaining, n100, true, true)
      else if b.n100.isNone then (n300, remaining, true, true)
      else (n300 + remaining, n100, true, true)
    | .worst =>
      if b.n100.isNone then (n300, remaining, true, true)
      else if b.n300.isNone then (remaining, n100, true, true)
      else (n300, n100 + remaining, true, true)

/-- `TaikoPerformance::generate_state` before the builder update. -/
def taikoGenRaw (c : TaikoCfg) (b : TaikoB R) : TaikoOut :=
  let total := min (passedU32 c.passed) c.maxCombo
  let misses := optMin b.misses total
  -- `let n_remaining = total_result_count - misses;` (checked)
  let ok0 := decide (misses ≤ total)
  let h := taikoHitResults c.prio b total misses
  let maxPossibleCombo := c.maxCombo - misses
  let maxCombo := optMinOr b.combo maxPossibleCombo
  { state := { maxCombo := maxCombo, n300 := h.1, n100 := h.2.1, misses := misses },
    accepted := h.2.2.1, ok := ok0 && h.2.2.2 }

def taikoGen (c : TaikoCfg) (b : TaikoB R) : Res (TaikoState × TaikoB R) :=
  let o := taikoGenRaw c b
  if o.ok then .ok (o.state, b.update o.state) else .panic

def taikoCalculate {Out : Type} (perfCalc : TaikoCfg → TaikoState → Out) (c : TaikoCfg) (b : TaikoB R) :
    Res Out :=
  (taikoGen c b).map fun p => perfCalc c p.1

/-! ## osu!catch  (`generate_state` never reads `passed_objects`) -/

structure CatchCfg where
  nFruits : Nat
  nDroplets : Nat
  nTiny : Nat
deriving Repr

structure CatchB (R : Type) where
  acc : Option R
  combo : Option Nat
  fruits : Option Nat
  droplets : Option Nat
  tiny : Option Nat
  tinyMisses : Option Nat
  misses : Option Nat

structure CatchState where
  maxCombo : Nat
  fruits : Nat
  droplets : Nat
  tiny : Nat
  tinyMisses : Nat
  misses : Nat
deriving DecidableEq, Repr

def CatchB.update (b : CatchB R) (s : CatchState) : CatchB R :=
  { acc := b.acc, combo := some s.maxCombo, fruits := some s.fruits, droplets := some s.droplets,
    tiny := some s.tiny, tinyMisses := some s.tinyMisses, misses := some s.misses }

/-- catch `accuracy(..)`: no guard against a zero denominator -/
def catchAcc (fruits droplets tiny tinyMisses misses : Nat) : R :=
  div (ofNat (fruits + droplets + tiny)) (ofNat (fruits + droplets + tiny + tinyMisses + misses))

structure CatchOut where
  state : CatchState
  accepted : Bool
  ok : Bool
deriving DecidableEq, Repr

/-- the `(n_fruits, n_droplets)` match; the third component collects the checked operations -/
def catchFruitsDroplets (F D misses : Nat) (fruits droplets : Option Nat) : Nat × Nat × Bool :=
  match fruits, droplets with
  | some f, some d =>
    let nRemaining := (F + D) - satAdd (satAdd f d) misses
    let newDroplets := min nRemaining (D - d)
    let d1 := d + newDroplets
    let f1 := f + (nRemaining - newDroplets)
    let f2 := min f1 ((F + D) - satAdd d1 misses)
    let d2 := min d1 (F + D - f2 - misses)
    (f2, d2,
      decide (newDroplets ≤ nRemaining) && decide (d1 ≤ u32Max) && decide (f1 ≤ u32Max)
        && decide (f2 ≤ F + D) && decide (misses ≤ F + D - f2))
  | some f, none =>
    let d := D - (misses - (F - f))
    (F + D - misses - d, d, decide (misses ≤ F + D) && decide (d ≤ F + D - misses))
  | none, some d =>
    let f := F - (misses - (D - d))
    (f, F + D - misses - f, decide (misses ≤ F + D) && decide (f ≤ F + D - misses))
  | none, none =>
    let d := D - misses
    (F - (misses - (D - d)), d, decide (D - d ≤ misses) && decide (misses - (D - d) ≤ F))

/-- `find_best_tiny_droplets` -/
def catchFindTiny (acc : R) (F D T fruits droplets misses : Nat) : Acc R (Nat × Nat) :=
  let raw := sub (mul acc (ofNat (F + D + T))) (ofNat (fruits + droplets))
  let lo := min T (floorU32 raw)
  let hi := min T (ceilU32 raw)
  let init : Acc R (Nat × Nat) := { dist := infVal, val := (0, 0), hit := false, ok := true }
  (rangeIncl lo hi).foldl (fun a t =>
    let tm := T - t
    (a.check (decide (t ≤ T))).offer (abs (sub acc (catchAcc fruits droplets t tm misses))) (t, tm)) init

/-- the `match (self.tiny_droplets, self.tiny_droplet_misses)` part:
`(tiny, tiny_misses, accepted, ok)` -/
def catchTiny (b : CatchB R) (F D T fruits droplets misses : Nat) : Nat × Nat × Bool × Bool :=
  match b.tiny, b.tinyMisses with
  | some t, some tm =>
    match b.acc with
    | some acc =>
      if satAdd t tm = T then (t, tm, true, true)
      else
        let best := catchFindTiny acc F D T fruits droplets misses
        (best.val.1, best.val.2, best.hit, best.ok)
    | none =>
      let nRemaining := T - satAdd t tm
      (t + nRemaining, tm, true, decide (t + nRemaining ≤ u32Max))
  | some t, none => (min T t, T - t, true, true)
  | none, some tm => (T - tm, min T tm, true, true)
  | none, none =>
    match b.acc with
    | some acc =>
      let best := catchFindTiny acc F D T fruits droplets misses
      (best.val.1, best.val.2, best.hit, best.ok)
    | none => (T, 0, true, true)

/-- `CatchPerformance::generate_state` before the builder update. -/
def catchGenRaw (c : CatchCfg) (b : CatchB R) : CatchOut :=
  let F := c.nFruits
  let D := c.nDroplets
  let T := c.nTiny
  let misses := optMin b.misses (F + D)
  -- `attrs.max_combo() - misses` (checked)
  let maxPossibleCombo := (F + D) - misses
  let ok0 := decide (misses ≤ F + D)
  let maxCombo := optMinOr b.combo maxPossibleCombo
  let fd := catchFruitsDroplets F D misses b.fruits b.droplets
  let tn := catchTiny b F D T fd.1 fd.2.1 misses
  { state := { maxCombo := maxCombo, fruits := fd.1, droplets := fd.2.1, tiny := tn.1,
               tinyMisses := tn.2.1, misses := misses },
    accepted := tn.2.2.1, ok := ok0 && fd.2.2 && tn.2.2.2 }

def catchGen (c : CatchCfg) (b : CatchB R) : Res (CatchState × CatchB R) :=
  let o := catchGenRaw c b
  if o.ok then .ok (o.state, b.update o.state) else .panic

def catchCalculate {Out : Type} (perfCalc : CatchCfg → CatchState → Out) (c : CatchCfg) (b : CatchB R) :
    Res Out :=
  (catchGen c b).map fun p => perfCalc c p.1

/-! ## osu!mania -/

structure ManiaCfg where
  nObjects : Nat
  nHoldNotes : Nat
  passed : Option Nat
  /-- `!get_lazer() || mods.cl()` -/
  classic : Bool
  prio : Prio
deriving Repr

structure ManiaB (R : Type) where
  acc : Option R
  n320 : Option Nat
  n300 : Option Nat
  n200 : Option Nat
  n100 : Option Nat
  n50 : Option Nat
  misses : Option Nat

structure ManiaState where
  n320 : Nat
  n300 : Nat
  n200 : Nat
  n100 : Nat
  n50 : Nat
  misses : Nat
deriving DecidableEq, Repr

def ManiaB.update (b : ManiaB R) (s : ManiaState) : ManiaB R :=
  { acc := b.acc, n320 := some s.n320, n300 := some s.n300, n200 := some s.n200,
    n100 := some s.n100, n50 := some s.n50, misses := some s.misses }

def ManiaState.totalHits (s : ManiaState) : Nat :=
  s.n320 + s.n300 + s.n200 + s.n100 + s.n50 + s.misses

def maniaAccNum (classic : Bool) (s : ManiaState) : Nat :=
  (if classic then 60 else 61) * s.n320 + 60 * s.n300 + 40 * s.n200 + 20 * s.n100 + 10 * s.n50

/-- `ManiaScoreState::accuracy(classic)` -/
def maniaAcc (classic : Bool) (s : ManiaState) : R :=
  if s.totalHits = 0 then ofNat 0
  else div (ofNat (maniaAccNum classic s)) (ofNat ((if classic then 60 else 61) * s.totalHits))

structure ManiaOut where
  state : ManiaState
  accepted : Bool
  ok : Bool
deriving DecidableEq, Repr

/-- the inputs of the nested search: clamped provided values (`0` when absent) and which are given -/
structure ManiaCtx (R : Type) where
  acc : R
  target : R
  classic : Bool
  nObjects : Nat
  nRemaining : Nat
  misses : Nat
  g320 : Option Nat
  g300 : Option Nat
  g200 : Option Nat
  g100 : Option Nat
  g50 : Option Nat
  n320 : Nat
  n300 : Nat
  n200 : Nat
  n100 : Nat
  n50 : Nat

/-- `if curr.total_hits() < n_objects { … }` inside the innermost loop -/
def maniaFill (x : ManiaCtx R) (curr : ManiaState) : ManiaState :=
  if curr.totalHits < x.nObjects then
    let remaining := x.nObjects - curr.totalHits
    if x.g50.isNone then { curr with n50 := curr.n50 + remaining }
    else if x.g100.isNone then { curr with n100 := curr.n100 + remaining }
    else if x.g200.isNone then { curr with n200 := curr.n200 + remaining }
    else if x.g300.isNone then { curr with n300 := curr.n300 + remaining }
    else if x.g320.isNone then { curr with n320 := curr.n320 + remaining }
    else { curr with n50 := curr.n50 + remaining }
  else curr

/-- innermost `for n100 in n100s` body for fixed `n320 n300 n200` -/
def maniaLoop100 (x : ManiaCtx R) (n320 n300 n200 : Nat) (a : Acc R ManiaState) : Acc R ManiaState :=
  let nRem := x.nRemaining
  let mr := fun n => min n nRem
  let n100s : List Nat :=
    match x.g100 with
    | some n100 => [mr n100, mr n100]
    | none =>
      let remaining := nRem - (n320 + n300 + n200 + x.n50)
      let raw : R :=
        if x.g50.isSome then
          add (sub x.target (ofNat (19 * nRem + (if x.classic then 41 else 42) * n320 + 41 * n300 + 21 * n200)))
            (ofNat (9 * x.n50))
        else
          div (sub x.target (ofNat (10 * nRem + (if x.classic then 50 else 51) * n320 + 50 * n300 + 30 * n200)))
            (ofNat 10)
      [min (floorU32 raw) remaining, min (ceilU32 raw) remaining]
  n100s.foldl (fun a n100 =>
    let n50 := match x.g50 with
      | some n50 => mr n50
      | none => nRem - (n320 + n300 + n200 + n100)
    let curr := maniaFill x { n320 := n320, n300 := n300, n200 := n200, n100 := n100, n50 := n50, misses := x.misses }
    a.offer (abs (sub x.acc (maniaAcc x.classic curr))) curr) a

/-- `for n200 in min_n200..=max_n200` for fixed `n320 n300` -/
def maniaLoop200 (x : ManiaCtx R) (n320 n300 : Nat) (a : Acc R ManiaState) : Acc R ManiaState :=
  let nRem := x.nRemaining
  let mr := fun n => min n nRem
  let remaining := nRem - (n320 + n300 + x.n100 + x.n50)
  let w := if x.classic then 50 else 51
  let lo₀ := min (floorU32 (div (add (sub x.target (ofNat (20 * nRem + w * n320 + 50 * n300)))
      (ofNat (10 * x.n50))) (ofNat 30))) remaining
  let hi₀ := min (ceilU32 (div (sub x.target (ofNat (10 * nRem + w * n320 + 50 * n300 + 10 * x.n100)))
      (ofNat 30))) remaining
  let (lo, hi) := match x.g200 with
    | some n200 => (mr n200, mr n200)
    | none => (lo₀, hi₀)
  (rangeIncl lo hi).foldl (fun a n200 => maniaLoop100 x n320 n300 n200 a) a

/-- `for n300 in min_n300..=max_n300` for fixed `n320` -/
def maniaLoop300 (x : ManiaCtx R) (n320 : Nat) (a : Acc R ManiaState) : Acc R ManiaState :=
  let nRem := x.nRemaining
  let mr := fun n => min n nRem
  let remaining := nRem - (n320 + x.n200 + x.n100 + x.n50)
  let skip := x.classic && x.g320.isNone
  let lo₀ := min (floorU32 (if skip then (ofNat 0 : R) else
      div (add (sub x.target (ofNat (40 * nRem + (if x.classic then 20 else 21) * n320)))
        (ofNat (20 * x.n100 + 30 * x.n50))) (ofNat 20))) remaining
  let hi₀ := min (ceilU32 (if skip then (ofNat 0 : R) else
      div (sub x.target (ofNat (10 * nRem + (if x.classic then 50 else 51) * n320 + 30 * x.n200 + 10 * x.n100)))
        (ofNat 50))) remaining
  let (lo, hi) := match x.g300 with
    | some n300 => (mr n300, mr n300)
    | none => (lo₀, hi₀)
  (rangeIncl lo hi).foldl (fun a n300 => maniaLoop200 x n320 n300 a) a

/-- the whole nested search of the `_` arm ("at least two hitresults are unknown") -/
def maniaSearch (x : ManiaCtx R) : Acc R ManiaState :=
  let nRem := x.nRemaining
  let mr := fun n => min n nRem
  let best₀ : ManiaState :=
    { n320 := x.n320, n300 := x.n300, n200 := x.n200, n100 := x.n100,
      n50 := nRem - (x.n320 + x.n300 + x.n200 + x.n100), misses := x.misses }
  let remaining := nRem - (x.n300 + x.n200 + x.n100 + x.n50)
  let lo₀ := min (floorU32 (if x.classic then
      sub (div (add (sub x.target (ofNat (40 * nRem))) (ofNat (20 * x.n100 + 30 * x.n50))) (ofNat 20))
        (ofNat x.n300)
    else
      add (sub x.target (ofNat (60 * nRem))) (ofNat (20 * x.n200 + 40 * x.n100 + 50 * x.n50)))) remaining
  let hi₀ := min (ceilU32 (div (sub x.target (ofNat (10 * nRem + 50 * x.n300 + 30 * x.n200 + 10 * x.n100)))
      (ofNat (if x.classic then 50 else 51)))) remaining
  let (lo, hi) := match x.g320 with
    | some n320 => (mr n320, mr n320)
    | none => (lo₀, hi₀)
  let init : Acc R ManiaState := { dist := infVal, val := best₀, hit := false, ok := true }
  (rangeIncl lo hi).foldl (fun a n320 => maniaLoop300 x n320 a) init

/-- "Only n320 have an increased effect on performance calculation so we adjust them based on
priority"; the Boolean collects the checked subtractions. -/
def maniaShift (x : ManiaCtx R) (prio : Prio) (s : ManiaState) : ManiaState × Bool :=
  if x.classic && x.g320.isNone then
    let s := if x.g300.isNone then { s with n320 := s.n320 + s.n300, n300 := 0 } else s
    match prio with
    | .best =>
      let (s, k1) : ManiaState × Bool := if x.g100.isNone && x.g200.isNone then
          let n := s.n200 / 2
          ({ s with n320 := s.n320 + n, n200 := s.n200 - 2 * n, n100 := s.n100 + n }, decide (2 * n ≤ s.n200))
        else (s, true)
      let (s, k2) : ManiaState × Bool := if x.g50.isNone && x.g200.isNone then
          let n := s.n200 / 5
          ({ s with n320 := s.n320 + n * 3, n200 := s.n200 - n * 5, n50 := s.n50 + n * 2 }, decide (n * 5 ≤ s.n200))
        else (s, true)
      let s := if x.g300.isNone then { s with n320 := s.n320 + s.n300, n300 := 0 } else s
      (s, k1 && k2)
    | .worst =>
      let (s, k1) : ManiaState × Bool := if x.g100.isNone && x.g200.isNone then
          let n := min s.n320 s.n100
          ({ s with n320 := s.n320 - n, n200 := s.n200 + 2 * n, n100 := s.n100 - n },
            decide (n ≤ s.n320) && decide (n ≤ s.n100))
        else (s, true)
      let (s, k2) : ManiaState × Bool := if x.g50.isNone && x.g200.isNone then
          let n := min (s.n320 / 3) (s.n50 / 2)
          ({ s with n320 := s.n320 - n * 3, n200 := s.n200 + n * 5, n50 := s.n50 - n * 2 },
            decide (n * 3 ≤ s.n320) && decide (n * 2 ≤ s.n50))
        else (s, true)
      let s := if x.g300.isNone then { s with n300 := s.n300 + s.n320, n320 := 0 } else s
      (s, k1 && k2)
  else (s, true)

/-- the `else` branch (no accuracy) -/
def maniaNoAcc (prio : Prio) (g320 g300 g200 g100 g50 : Bool) (nRemaining misses n320 n300 n200 n100 n50 : Nat) :
    ManiaState :=
  let remaining := nRemaining - (n320 + n300 + n200 + n100 + n50)
  match prio with
  | .best =>
    if !g320 then ⟨remaining, n300, n200, n100, n50, misses⟩
    else if !g300 then ⟨n320, remaining, n200, n100, n50, misses⟩
    else if !g200 then ⟨n320, n300, remaining, n100, n50, misses⟩
    else if !g100 then ⟨n320, n300, n200, remaining, n50, misses⟩
    else if !g50 then ⟨n320, n300, n200, n100, remaining, misses⟩
    else ⟨n320 + remaining, n300, n200, n100, n50, misses⟩
  | .worst =>
    if !g50 then ⟨n320, n300, n200, n100, remaining, misses⟩
    else if !g100 then ⟨n320, n300, n200, remaining, n50, misses⟩
    else if !g200 then ⟨n320, n300, remaining, n100, n50, misses⟩
    else if !g300 then ⟨n320, remaining, n200, n100, n50, misses⟩
    else if !g320 then ⟨remaining, n300, n200, n100, n50, misses⟩
    else ⟨n320, n300, n200, n100, n50 + remaining, misses⟩

/-- `ManiaPerformance::generate_state` before the builder update. -/
def maniaGenRaw (c : ManiaCfg) (b : ManiaB R) : ManiaOut :=
  let nObjects₀ := min (passedU32 c.passed) c.nObjects
  let misses := optMin b.misses nObjects₀
  let nObjects := if c.classic then nObjects₀ else nObjects₀ + c.nHoldNotes
  let nRemaining := nObjects - misses
  let ok0 := decide (misses ≤ nObjects)
  let n320 := optMin b.n320 nRemaining
  let n300 := optMin b.n300 nRemaining
  let n200 := optMin b.n200 nRemaining
  let n100 := optMin b.n100 nRemaining
  let n50 := optMin b.n50 nRemaining
  match b.acc with
  | some acc =>
    match b.n320, b.n300, b.n200, b.n100, b.n50 with
    | some _, some _, some _, some _, some _ =>
      let remaining := nObjects - (n320 + n300 + n200 + n100 + n50 + misses)
      match c.prio with
      | .best => ⟨⟨n320 + remaining, n300, n200, n100, n50, misses⟩, true, ok0⟩
      | .worst => ⟨⟨n320, n300, n200, n100, n50 + remaining, misses⟩, true, ok0⟩
    | none, some _, some _, some _, some _ =>
      ⟨⟨nRemaining - (n300 + n200 + n100 + n50), n300, n200, n100, n50, misses⟩, true, ok0⟩
    | some _, none, some _, some _, some _ =>
      ⟨⟨n320, nRemaining - (n320 + n200 + n100 + n50), n200, n100, n50, misses⟩, true, ok0⟩
    | some _, some _, none, some _, some _ =>
      ⟨⟨n320, n300, nRemaining - (n320 + n300 + n100 + n50), n100, n50, misses⟩, true, ok0⟩
    | some _, some _, some _, none, some _ =>
      ⟨⟨n320, n300, n200, nRemaining - (n320 + n300 + n200 + n50), n50, misses⟩, true, ok0⟩
    | some _, some _, some _, some _, none =>
      ⟨⟨n320, n300, n200, n100, nRemaining - (n320 + n300 + n200 + n100), misses⟩, true, ok0⟩
    | _, _, _, _, _ =>
      let x : ManiaCtx R :=
        { acc := acc, target := mul acc (ofNat ((if c.classic then 60 else 61) * nObjects)),
          classic := c.classic, nObjects := nObjects, nRemaining := nRemaining, misses := misses,
          g320 := b.n320, g300 := b.n300, g200 := b.n200, g100 := b.n100, g50 := b.n50,
          n320 := n320, n300 := n300, n200 := n200, n100 := n100, n50 := n50 }
      let best := maniaSearch x
      let sh := maniaShift x c.prio best.val
      ⟨sh.1, best.hit, ok0 && best.ok && sh.2⟩
  | none =>
    ⟨maniaNoAcc c.prio b.n320.isSome b.n300.isSome b.n200.isSome b.n100.isSome b.n50.isSome
        nRemaining misses n320 n300 n200 n100 n50, true, ok0⟩

def maniaGen (c : ManiaCfg) (b : ManiaB R) : Res (ManiaState × ManiaB R) :=
  let o := maniaGenRaw c b
  if o.ok then .ok (o.state, b.update o.state) else .panic

def maniaCalculate {Out : Type} (perfCalc : ManiaCfg → ManiaState → Out) (c : ManiaCfg) (b : ManiaB R) :
    Res Out :=
  (maniaGen c b).map fun p => perfCalc c p.1

end

end Rosu.GenState
