/-!
# C05 — `TooSuspicious::new` (src/model/beatmap/suspicious.rs), the filter `check_suspicion`

Transcription of the whole decision function, statement by statement.  The property C05 quantifies
over "decodable, NON-SUSPICIOUS maps": this function is the definition of that domain.

The arithmetic is a parameter (`Arith T P`): the code only subtracts two `f64` start times and
compares the difference with a constant, and compares `f32::abs` of a coordinate with a constant.
`exact` instantiates it with exact arithmetic over any type with `-`, `<` and numerals (the theorems
of `Props/C05.lean` use ℚ); the driver instantiates it with IEEE `Float` / `Float32`
(`Model/SuspicionWire.lean`), which replays the `f64`/`f32` operations of the code bit for bit.

Index bookkeeping: the Rust loop is `for (i, h) in hit_objects.iter().enumerate()` and reads
`hit_objects[i + PER]` after testing `hit_objects.len() > i + PER`.  The model recurses on the
suffix `hit_objects[i..]`, in which that access is `suffix[PER]?` (`none` ⇔ the length test fails);
`Props/C05.lean` (`non_suspicious_density_index`) re-states the result with indices into the whole list.
-/
namespace Rosu.Susp

/-- `GameMode` -/
inductive Mode | osu | taiko | catch_ | mania
  deriving DecidableEq, Repr

/-- the six variants of `TooSuspicious`, and `ok` for `None` -/
inductive Verdict | ok | density | length | objectCount | redFlag | sliderPositions | sliderRepeats
  deriving DecidableEq, Repr

/-- what the function reads of a `HitObject` -/
structure Obj (T P : Type) where
  /-- `h.start_time` -/
  start : T
  /-- `matches!(h.kind, HitObjectKind::Slider(_))` -/
  isSlider : Bool
  /-- `slider.repeats` (0 for non-sliders; never read for them) -/
  repeats : Nat
  /-- `h.pos.x`, `h.pos.y` -/
  x : P
  y : P

/-- the operations performed on times (`f64`) and coordinates (`f32`) -/
structure Arith (T P : Type) where
  /-- `a - b` on `f64` -/
  sub : T → T → T
  /-- `a < b` on `f64` -/
  lt : T → T → Bool
  /-- `DAY_MS as f64` = 86 400 000 -/
  day : T
  /-- `1000.0` -/
  ms1000 : T
  /-- `10_000.0` -/
  ms10000 : T
  /-- `f32::abs(v) > 10_000.0` -/
  absBeyond : P → Bool

/-- exact arithmetic over any carrier with subtraction, a decidable `<` and numerals -/
def exact (T : Type) [Sub T] [Neg T] [LT T] [DecidableLT T] [NatCast T] : Arith T T where
  sub a b := a - b
  lt a b := decide (a < b)
  day := ((86400000 : Nat) : T)
  ms1000 := ((1000 : Nat) : T)
  ms10000 := ((10000 : Nat) : T)
  absBeyond v := decide (((10000 : Nat) : T) < v) || decide (((10000 : Nat) : T) < -v)

/-! ### thresholds (the `const`s of the nested functions) -/

def thresholdObjects : Nat := 500000
def thresholdObjectsTaiko : Nat := 20000
def thresholdRepeats : Nat := 1000
def thresholdFlagged : Nat := 256

/-- `THRESHOLD_1S` of `too_dense` -/
def per1s : Mode → Nat
  | .mania => 200
  | _ => 100

/-- `THRESHOLD_10S` of `too_dense` -/
def per10s : Mode → Nat
  | .mania => 500
  | _ => 250

variable {T P : Type}

/-- `too_many_objects(map)` -/
def tooManyObjects (mode : Mode) (len : Nat) : Bool :=
  match mode with
  | .taiko => decide (len > thresholdObjectsTaiko)
  | _ => decide (len > thresholdObjects)

/-- `too_long(hit_objects)`: `len < 2 → false`; else `last.start_time - first.start_time > DAY_MS` -/
def tooLong (A : Arith T P) (objs : List (Obj T P)) : Bool :=
  match objs with
  | [] => false
  | [_] => false
  | first :: second :: rest =>
    A.lt A.day (A.sub ((second :: rest).getLast (List.cons_ne_nil _ _)).start first.start)

/-- one disjunct of the inner `too_dense::<PER_1S, PER_10S>`: `len > i + PER && hit_objects[i + PER].start_time -
curr.start_time < limit`, on the suffix `hit_objects[i..]` -/
def denseWithin (A : Arith T P) (per : Nat) (limit : T) (curr : Obj T P) (suffix : List (Obj T P)) : Bool :=
  match suffix[per]? with
  | some o => A.lt (A.sub o.start curr.start) limit
  | none => false

/-- `too_dense(i, curr, map)`; `suffix = hit_objects[i..]` (so `curr` is its head) -/
def tooDense (A : Arith T P) (mode : Mode) (curr : Obj T P) (suffix : List (Obj T P)) : Bool :=
  denseWithin A (per1s mode) A.ms1000 curr suffix || denseWithin A (per10s mode) A.ms10000 curr suffix

/-- `check_pos(h.pos)` -/
def checkPos (A : Arith T P) (o : Obj T P) : Bool := A.absBeyond o.x || A.absBeyond o.y

/-- `check_repeats(slider.repeats)` -/
def checkRepeats (r : Nat) : Bool := decide (r > thresholdRepeats)

/-- `matches!(map.mode, GameMode::Osu | GameMode::Catch)` -/
def osuOrCatch : Mode → Bool
  | .osu | .catch_ => true
  | _ => false

/-- the code after the loop -/
def final (mode : Mode) (posBeyond repeatsBeyond : Nat) : Verdict :=
  match mode with
  | .taiko | .mania => .ok
  | _ =>
    if posBeyond > thresholdFlagged then .sliderPositions
    else if repeatsBeyond > thresholdFlagged then .sliderRepeats
    else .ok

/-- the `for (i, h) in map.hit_objects.iter().enumerate()` loop followed by the final rules;
the list argument is the not yet visited suffix -/
def scan (A : Arith T P) (mode : Mode) : List (Obj T P) → (posBeyond repeatsBeyond : Nat) → Verdict
  | [], pb, rb => final mode pb rb
  | h :: t, pb, rb =>
    if tooDense A mode h (h :: t) then .density
    else if h.isSlider then
      if checkRepeats h.repeats then
        if checkPos A h && osuOrCatch mode then .redFlag
        else scan A mode t pb (rb + 1)
      else if checkPos A h then scan A mode t (pb + 1) rb
      else scan A mode t pb rb
    else scan A mode t pb rb

/-- `TooSuspicious::new(map)` (`ok` = `None`) -/
def check (A : Arith T P) (mode : Mode) (objs : List (Obj T P)) : Verdict :=
  if tooManyObjects mode objs.length then .objectCount
  else if tooLong A objs then .length
  else scan A mode objs 0 0

end Rosu.Susp
