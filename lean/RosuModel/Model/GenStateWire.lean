import RosuModel.Model.GenState
import RosuModel.Model.Wire

/-
Driver glue for the score-state generators.  The `Float` instance replays the IEEE double
operations of the Rust code in the same order (`u32 → f64` is exact, `as u32` saturates).

Request lines (fields are decimal, `-` = not provided, the accuracy is the bit pattern of
`self.acc`, i.e. of `acc.clamp(0, 100) / 100`, as 16 hex digits):
  GS osu   maxCombo nObjects nSliders nLargeTicks passed lazer noSliderHeadAcc prio acc combo largeTicks smallTicks sliderEnds n300 n100 n50 misses
  GS taiko maxCombo passed prio acc combo n300 n100 misses
  GS catch nFruits nDroplets nTiny acc combo fruits droplets tiny tinyMisses misses
  GS mania nObjects nHoldNotes passed classic prio acc n320 n300 n200 n100 n50 misses
Response: the state fields followed by `a1`/`a0` (was a candidate accepted), or `PANIC`.
-/
namespace Rosu.GenState
open Rosu.Wire

instance floatOps : NumOps Float where
  ofNat := Float.ofNat
  add := (· + ·)
  sub := (· - ·)
  mul := (· * ·)
  div := (· / ·)
  abs := Float.abs
  lt := fun a b => decide (a < b)
  floorU32 := fun x => x.floor.toUInt32.toNat
  ceilU32 := fun x => x.ceil.toUInt32.toNat
  maxVal := Float.ofBits 0x7FEFFFFFFFFFFFFF
  infVal := Float.ofBits 0x7FF0000000000000

def hexDigit (c : Char) : Nat :=
  if '0' ≤ c && c ≤ '9' then c.toNat - '0'.toNat
  else if 'a' ≤ c && c ≤ 'f' then c.toNat - 'a'.toNat + 10
  else if 'A' ≤ c && c ≤ 'F' then c.toNat - 'A'.toNat + 10
  else 0

def hexNat (s : String) : Nat := s.toList.foldl (fun n c => 16 * n + hexDigit c) 0

def optFloat (s : String) : Option Float :=
  if s == "-" || s == "" then none else some (Float.ofBits (UInt64.ofNat (hexNat s)))

def parsePrio (s : String) : Prio := if s == "W" then .worst else .best

def bit (b : Bool) : String := if b then "a1" else "a0"

def handleOsu : List String → String
  | [mc, no, ns, nlt, passed, lazer, nsha, prio, acc, combo, lt, st, se, n300, n100, n50, misses] =>
    let c : OsuCfg := {
      maxCombo := nat! mc, nObjects := nat! no, nSliders := nat! ns,
      nLargeTicks := nat! nlt, passed := optNat passed, lazer := bool! lazer,
      noSliderHeadAcc := bool! nsha, prio := parsePrio prio }
    let b : OsuB Float := {
      acc := optFloat acc, combo := optNat combo, largeTickHits := optNat lt,
      smallTickHits := optNat st, sliderEndHits := optNat se, n300 := optNat n300,
      n100 := optNat n100, n50 := optNat n50, misses := optNat misses }
    let o := osuGenRaw c b
    if o.ok then
      let s := o.state
      s!"{s.maxCombo} {s.largeTickHits} {s.smallTickHits} {s.sliderEndHits} {s.n300} {s.n100} {s.n50} {s.misses} {bit o.accepted}"
    else "PANIC"
  | _ => "bad-args"

def handleTaiko : List String → String
  | [mc, passed, prio, acc, combo, n300, n100, misses] =>
    let c : TaikoCfg := {
      maxCombo := nat! mc, passed := optNat passed, prio := parsePrio prio }
    let b : TaikoB Float := {
      acc := optFloat acc, combo := optNat combo, n300 := optNat n300,
      n100 := optNat n100, misses := optNat misses }
    let o := taikoGenRaw c b
    if o.ok then
      let s := o.state
      s!"{s.maxCombo} {s.n300} {s.n100} {s.misses} {bit o.accepted}"
    else "PANIC"
  | _ => "bad-args"

def handleCatch : List String → String
  | [f, d, t, acc, combo, fruits, droplets, tiny, tinyMisses, misses] =>
    let c : CatchCfg := {
      nFruits := nat! f, nDroplets := nat! d, nTiny := nat! t }
    let b : CatchB Float := {
      acc := optFloat acc, combo := optNat combo, fruits := optNat fruits,
      droplets := optNat droplets, tiny := optNat tiny, tinyMisses := optNat tinyMisses,
      misses := optNat misses }
    let o := catchGenRaw c b
    if o.ok then
      let s := o.state
      s!"{s.maxCombo} {s.fruits} {s.droplets} {s.tiny} {s.tinyMisses} {s.misses} {bit o.accepted}"
    else "PANIC"
  | _ => "bad-args"

def handleMania : List String → String
  | [no, nh, passed, classic, prio, acc, n320, n300, n200, n100, n50, misses] =>
    let c : ManiaCfg := {
      nObjects := nat! no, nHoldNotes := nat! nh, passed := optNat passed,
      classic := bool! classic, prio := parsePrio prio }
    let b : ManiaB Float := {
      acc := optFloat acc, n320 := optNat n320, n300 := optNat n300,
      n200 := optNat n200, n100 := optNat n100, n50 := optNat n50, misses := optNat misses }
    let o := maniaGenRaw c b
    if o.ok then
      let s := o.state
      s!"{s.n320} {s.n300} {s.n200} {s.n100} {s.n50} {s.misses} {bit o.accepted}"
    else "PANIC"
  | _ => "bad-args"

def handleGS (mode : String) (args : List String) : String :=
  if mode == "osu" then handleOsu args
  else if mode == "taiko" then handleTaiko args
  else if mode == "catch" then handleCatch args
  else if mode == "mania" then handleMania args
  else "bad-mode"

end Rosu.GenState
