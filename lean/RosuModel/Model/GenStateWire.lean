import RosuModel.Model.GenState
import RosuModel.Model.Wire

/-
Driver glue for the score-state generators.  The `Float` instance replays the IEEE double
operations of the Rust code in the same order (`u32 → f64` is exact, `as u32` saturates).

Request lines (fields are decimal, `-` = not provided, the accuracy is the bit pattern of
`self.acc`, i.e. of `acc.clamp(0, 100) / 100`, as 16 hex digits):
  GS osu   maxCombo nObjects nSliders nLargeTicks passed lazer noSliderHeadAcc prio acc combo largeTicks smallTicks sliderEnds n300 n100 n50 misses
  GS taiko maxCombo passed prio acc combo n300 n100 misses
  GS catch nFruits nDroplets nTiny acc combo fruits droplets tiny tinyMisses misses
  GS mania nObjects nHoldNotes passed classic prio acc n320 n300 n200 n100 n50 misses
Response: the state fields followed by `a1`/`a0` (was a candidate accepted), or `PANIC`.
-/
namespace Rosu.GenState
open Rosu.Wire

instance floatOps : NumOps Float where
  ofNat := Float.ofNat
  add := (· + ·)
  sub := (· - ·)
  mul := (· * ·)
  div := (· / ·)
  abs := Float.abs
  lt := fun a b => decide (a < b)
  floorU32 := fun x => x.floor.toUInt32.toNat
  ceilU32 := fun x => x.ceil.toUInt32.toNat
  maxVal := Float.ofBits 0x7FEFFFFFFFFFFFFF
  infVal := Float.ofBits 0x7FF0000000000000

def hexDigit (c : Char) : Nat :=
  if '0' ≤ c && c ≤ '9' then c.toNat - '0'.toNat
  else if 'a' ≤ c && c ≤ 'f' then c.toNat - 'a'.toNat + 10
  else if 'A' ≤ c && c ≤ 'F' then c.toNat - 'A'.toNat + 10
  else 0

def hexNat (s : String) : Nat := s.toList.foldl (fun n c => 16 * n + hexDigit c) 0

def optFloat (s : String) : Option Float :=
  if s == "-" || s == "" then none else some (Float.ofBits (UInt64.ofNat (hexNat s)))

def parsePrio (s : String) : Prio := if s == "W" then .worst else .best

def bit (b : Bool) : String := if b then "a1" else "a0"

def handleOsu : List String → String
  | [mc, no, ns, nlt, passed, lazer, nsha, prio, acc, combo, lt, st, se, n300, n100, n50, misses] =>
    let c : OsuCfg := {
      maxCombo := nat! mc, nObjects := nat! no, nSliders := nat! ns,
      nLargeTicks := nat! nlt, passed := optNat passed, lazer := bool! lazer,
      noSliderHeadAcc := bool! nsha, prio := parsePrio prio }
    let b : OsuB Float := {
      acc := optFloat acc, combo := optNat combo, largeTickHits := optNat lt,
      smallTickHits := optNat st, sliderEndHits := optNat se, n300 := optNat n300,
      n100 := optNat n100, n50 := optNat n50, misses := optNat misses }
    let o := osuGenRaw c b
    if o.ok then
      let s := o.state
      s!"{s.maxCombo} {s.largeTickHits} {s.smallTickHits} {s.sliderEndHits} {s.n300} {s.n100} {s.n50} {s.misses} {bit o.accepted}"
    else "PANIC"
  | _ => "bad-args"

def handleTaiko : List String → String
  | [mc, passed, prio, acc, combo, n300, n100, misses] =>
    let c : TaikoCfg := {
      maxCombo := nat! mc, passed := optNat passed, prio := parsePrio prio }
    let b : TaikoB Float := {
      acc := optFloat acc, combo := optNat combo, n300 := optNat n300,
      n100 := optNat n100, misses := optNat misses }
    let o := taikoGenRaw c b
    if o.ok then
      let s := o.state
      s!"{s.maxCombo} {s.n300} {s.n100} {s.misses} {bit o.accepted}"
    else "PANIC"
  | _ => "bad-args"

def handleCatch : List String → String
  | [f, d, t, acc, combo, fruits, droplets, tiny, tinyMisses, misses] =>
    let c : CatchCfg := {
      nFruits := nat! f, nDroplets := nat! d, nTiny := nat! t }
    let b : CatchB Float := {
      acc := optFloat acc, combo := optNat combo, fruits := optNat fruits,
      droplets := optNat droplets, tiny := optNat tiny, tinyMisses := optNat tinyMisses,
      misses := optNat misses }
    let o := catchGenRaw c b
    if o.ok then
      let s := o.state
      s!"{s.maxCombo} {s.fruits} {s.droplets} {s.tiny} {s.tinyMisses} {s.misses} {bit o.accepted}"
    else "PANIC"
  | _ => "bad-args"

def handleMania : List String → String
  | [no, nh, passed, classic, prio, acc, n320, n300, n200, n100, n50, misses] =>
    let c : ManiaCfg := {
      nObjects := nat! no, nHoldNotes := nat! nh, passed := optNat passed,
      classic := bool! classic, prio := parsePrio prio }
    let b : ManiaB Float := {
      acc := optFloat acc, n320 := optNat n320, n300 := optNat n300,
      n200 := optNat n200, n100 := optNat n100, n50 := optNat n50, misses := optNat misses }
    let o := maniaGenRaw c b
    if o.ok then
      let s := o.state
      s!"{s.n320} {s.n300} {s.n200} {s.n100} {s.n50} {s.misses} {bit o.accepted}"
    else "PANIC"
  | _ => "bad-args"

/-! ## the exact instance (core `Rat`), for the f64-vs-exact gap measurement of C13

`ratOps` is the ordered-field instance `fieldOps 2` of `Lemmas/GenStateExact.lean` at `K = ℚ`
(`Lemmas/GenStateExactRat.lean` proves the equality), i.e. the instance the C13 optimality theorems
are about, made executable.  A `GSQ` line has the arguments of the `GS` line; the response is
  `misses judged |acc − accuracy(exact-instance state)| |acc − accuracy(Float-instance state)|`
with both distances as reduced fractions `n/d`. -/

instance ratOps : NumOps Rat where
  ofNat := fun n => (n : Rat)
  add := (· + ·)
  sub := (· - ·)
  mul := (· * ·)
  div := (· / ·)
  abs := fun a => if a < 0 then -a else a
  lt := fun a b => decide (a < b)
  floorU32 := fun x => min (Rat.floor x).toNat u32Max
  ceilU32 := fun x => min (-(Rat.floor (-x))).toNat u32Max
  maxVal := 2
  infVal := 2

/-- the rational value of a finite double given by its bit pattern -/
def ratOfBits (b : Nat) : Rat :=
  let frac : Nat := b % 2 ^ 52
  let exp : Nat := (b / 2 ^ 52) % 2048
  let neg := b / 2 ^ 63 % 2 == 1
  let m : Nat := if exp == 0 then frac else frac + 2 ^ 52
  let e : Int := if exp == 0 then -1074 else (exp : Int) - 1075
  let v : Rat := if e ≥ 0 then ((m * 2 ^ e.toNat : Nat) : Rat) else mkRat m (2 ^ (-e).toNat)
  if neg then -v else v

def optRat (s : String) : Option Rat :=
  if s == "-" || s == "" then none else some (ratOfBits (hexNat s))

def fmtRat (q : Rat) : String := s!"{q.num}/{q.den}"

/-- `|acc − num/den|` -/
def ratDist (acc : Option Rat) (num den : Nat) : String :=
  if den == 0 then "den0"
  else
    let d : Rat := acc.getD 0 - mkRat num den
    fmtRat (if d < 0 then -d else d)

def handleOsuQ : List String → String
  | [mc, no, ns, nlt, passed, lazer, nsha, prio, acc, combo, lt, st, se, n300, n100, n50, misses] =>
    let c : OsuCfg := {
      maxCombo := nat! mc, nObjects := nat! no, nSliders := nat! ns,
      nLargeTicks := nat! nlt, passed := optNat passed, lazer := bool! lazer,
      noSliderHeadAcc := bool! nsha, prio := parsePrio prio }
    let mk := fun {R : Type} (a : Option R) => ({
      acc := a, combo := optNat combo, largeTickHits := optNat lt,
      smallTickHits := optNat st, sliderEndHits := optNat se, n300 := optNat n300,
      n100 := optNat n100, n50 := optNat n50, misses := optNat misses } : OsuB R)
    let q := osuGenRaw c (mk (optRat acc))
    let f := osuGenRaw c (mk (optFloat acc))
    let origin := (osuSliderParts c (mk (optRat acc))).1
    let dist := fun (s : OsuState) =>
      ratDist (optRat acc) (osuAccNum origin s.n300 s.n100 s.n50 s.largeTickHits s.smallTickHits s.sliderEndHits)
        (osuAccDen origin s.n300 s.n100 s.n50 s.misses)
    if q.ok && f.ok then
      s!"{q.state.misses} {q.state.n300 + q.state.n100 + q.state.n50 + q.state.misses} {dist q.state} {dist f.state}"
    else "PANIC"
  | _ => "bad-args"

def handleTaikoQ : List String → String
  | [mc, passed, prio, acc, combo, n300, n100, misses] =>
    let c : TaikoCfg := {
      maxCombo := nat! mc, passed := optNat passed, prio := parsePrio prio }
    let mk := fun {R : Type} (a : Option R) => ({
      acc := a, combo := optNat combo, n300 := optNat n300,
      n100 := optNat n100, misses := optNat misses } : TaikoB R)
    let q := taikoGenRaw c (mk (optRat acc))
    let f := taikoGenRaw c (mk (optFloat acc))
    let dist := fun (s : TaikoState) =>
      ratDist (optRat acc) (2 * s.n300 + s.n100) (2 * (s.n300 + s.n100 + s.misses))
    if q.ok && f.ok then
      s!"{q.state.misses} {q.state.n300 + q.state.n100 + q.state.misses} {dist q.state} {dist f.state}"
    else "PANIC"
  | _ => "bad-args"

def handleCatchQ : List String → String
  | [f, d, t, acc, combo, fruits, droplets, tiny, tinyMisses, misses] =>
    let c : CatchCfg := {
      nFruits := nat! f, nDroplets := nat! d, nTiny := nat! t }
    let mk := fun {R : Type} (a : Option R) => ({
      acc := a, combo := optNat combo, fruits := optNat fruits,
      droplets := optNat droplets, tiny := optNat tiny, tinyMisses := optNat tinyMisses,
      misses := optNat misses } : CatchB R)
    let q := catchGenRaw c (mk (optRat acc))
    let fl := catchGenRaw c (mk (optFloat acc))
    let dist := fun (s : CatchState) =>
      ratDist (optRat acc) (s.fruits + s.droplets + s.tiny)
        (s.fruits + s.droplets + s.tiny + s.tinyMisses + s.misses)
    if q.ok && fl.ok then
      s!"{q.state.misses} {q.state.fruits + q.state.droplets + q.state.misses + q.state.tiny + q.state.tinyMisses} {dist q.state} {dist fl.state}"
    else "PANIC"
  | _ => "bad-args"

def handleManiaQ : List String → String
  | [no, nh, passed, classic, prio, acc, n320, n300, n200, n100, n50, misses] =>
    let c : ManiaCfg := {
      nObjects := nat! no, nHoldNotes := nat! nh, passed := optNat passed,
      classic := bool! classic, prio := parsePrio prio }
    let mk := fun {R : Type} (a : Option R) => ({
      acc := a, n320 := optNat n320, n300 := optNat n300,
      n200 := optNat n200, n100 := optNat n100, n50 := optNat n50, misses := optNat misses } : ManiaB R)
    let q := maniaGenRaw c (mk (optRat acc))
    let f := maniaGenRaw c (mk (optFloat acc))
    let dist := fun (s : ManiaState) =>
      ratDist (optRat acc) (maniaAccNum c.classic s) ((if c.classic then 60 else 61) * s.totalHits)
    if q.ok && f.ok then
      s!"{q.state.misses} {q.state.totalHits} {dist q.state} {dist f.state}"
    else "PANIC"
  | _ => "bad-args"

def handleGSQ (mode : String) (args : List String) : String :=
  if mode == "osu" then handleOsuQ args
  else if mode == "taiko" then handleTaikoQ args
  else if mode == "catch" then handleCatchQ args
  else if mode == "mania" then handleManiaQ args
  else "bad-mode"

def handleGS (mode : String) (args : List String) : String :=
  if mode == "osu" then handleOsu args
  else if mode == "taiko" then handleTaiko args
  else if mode == "catch" then handleCatch args
  else if mode == "mania" then handleMania args
  else "bad-mode"

end Rosu.GenState
