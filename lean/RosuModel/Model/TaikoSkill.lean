import RosuModel.Model.SkillOps

/-
The four osu!taiko skills (five instances) over the PREPROCESSED difficulty objects, statement by
statement (core Lean only, generic in `FOps R`):

* `Stamina` (`strain_value_at`, `calculate_initial_strain`, both variants `single_color`),
  `StaminaEvaluator::{evaluate_diff_of, available_fingers_for, speed_bonus}`
                                                    — /repo/src/taiko/difficulty/skills/stamina.rs
* `Reading::strain_value_of`, `ReadingEvaluator::evaluate_diff_of`, `VelocityRange`
                                                    — …/skills/reading.rs
* `Color::strain_value_of`, `ColorEvaluator::{evaluate_difficulty_of, consistent_ratio_penalty,
  eval_mono_streak_diff, eval_alternating_mono_pattern_diff, eval_repeating_hit_patterns_diff}`
                                                    — …/skills/color.rs
* `Rhythm::strain_value_of`, `RhythmEvaluator::{evaluate_diff_of, evaluate_diff_of_,
  repeated_interval_penalty, ratio_difficulty, term_penalty}`   — …/skills/rhythm.rs
* `StrainDecaySkill::{strain_value_at, calculate_initial_strain}` (macro defaults for colour,
  reading, rhythm)                                  — /repo/src/util/macros.rs
* `logistic`, `logistic_exp`, `bell_curve`          — /repo/src/util/difficulty.rs
* the skill loop of `DifficultyValues::calculate`   — /repo/src/taiko/difficulty/mod.rs

The preprocessing (difficulty-object construction, colour encoding, rhythm grouping) is NOT
modelled here: what the skills read of it is the plain per-object record `TRec` (every `Weak`
link resolved to the value read through it), obtained from the real code by the hook
`taiko::verif::skill_trace`.
-/

namespace Rosu.TaikoSkill
open Rosu.SkillOps
open Rosu.Skill (Obj)
open FOps

/-- the first object of a `SameRhythmHitObjectGrouping`: what `RhythmEvaluator` reads of the group -/
structure RhythmGroup (R : Type) where
  /-- `hit_object_interval_ratio` -/
  intervalRatio : R
  /-- `hit_objects.len()` -/
  len : Nat
  /-- `duration()` -/
  duration : Option R
  /-- `hit_object_interval` of the group, its previous group, … (at most four groups) -/
  chain : List (Option R)

/-- what the skills read of one preprocessed `TaikoDifficultyObject` (besides `idx`, `start_time`) -/
structure TRec (R : Type) where
  isHit : Bool
  deltaTime : R
  effectiveBpm : R
  /-- `rhythm_data.ratio` -/
  ratio : R
  /-- `previous(0)` / `previous(1)` start times -/
  prevStart : Option R
  prev2Start : Option R
  /-- position in the mono streak (`0` without one) -/
  monoIndex : Nat
  /-- start times of `previous_mono(curr, 1)` / `previous_mono(curr, 7)` -/
  prevMono2 : Option R
  prevMono8 : Option R
  /-- start times of `previous_color_change` / `next_color_change` -/
  prevColorChange : Option R
  nextColorChange : Option R
  /-- first object of its mono streak: `(idx, parent pattern (idx, parent repetition interval))` -/
  monoFirst : Option (Nat × Option (Nat × Option Nat))
  /-- first object of its alternating mono pattern -/
  altFirst : Option (Nat × Option Nat)
  /-- first object of its repeating hit patterns: `repetition_interval` -/
  repFirst : Option Nat
  /-- first object of its same-rhythm group -/
  rhythmFirst : Option (RhythmGroup R)
  /-- first object of its same-patterns group: `interval_ratio()` -/
  patternFirstRatio : Option R

section
variable {R : Type} [FOps R]

abbrev TObj (R : Type) := Obj R (TRec R)

/-- `std::f64::consts::E` -/
def constE : R := 2.71828182845904523536028747135266250
/-- `std::f64::consts::PI` -/
def constPi : R := 3.14159265358979323846264338327950288

/-- `logistic(x, midpoint_offset, multiplier, max_value)` -/
def logistic (x midpointOffset multiplier maxValue : R) : R :=
  maxValue / (1.0 + exp (multiplier * (midpointOffset - x)))

/-- `logistic_exp(exp, max_value)` -/
def logisticExp (e maxValue : R) : R := maxValue / (1.0 + exp e)

/-- `bell_curve(x, mean, width, None)` -/
def bellCurve (x mean width : R) : R :=
  1.0 * exp (constE * -(powf (x - mean) 2.0 / powf width 2.0))

/-! ## stamina -/

/-- `StaminaEvaluator::speed_bonus` -/
def speedBonus (interval : R) : R := 20.0 / fmax interval 1.0

def optAny {α : Type} (o : Option α) (p : α → Bool) : Bool :=
  match o with
  | some a => p a
  | none => false

/-- `StaminaEvaluator::available_fingers_for` -/
def availableFingers (o : TObj R) : Nat :=
  if optAny o.data.prevColorChange fun c => lt (o.startTime - c) 300.0 then 2
  else if optAny o.data.nextColorChange fun c => lt (c - o.startTime) 300.0 then 2
  else 8

/-- `StaminaEvaluator::evaluate_diff_of` -/
def staminaEval (o : TObj R) : R :=
  if !o.data.isHit then 0.0
  else
    let prevMono := if availableFingers o = 2 then o.data.prevMono2 else o.data.prevMono8
    match o.data.prev2Start with
    | none => 0.5
    | some prev =>
      match prevMono with
      | some pm => 0.5 + (speedBonus (o.startTime - pm) + 0.5 * speedBonus (o.startTime - prev))
      | none => 0.5

def staminaMultiplier : R := 1.1
def staminaDecayBase : R := 0.4

/-- `monolength_bonus = 1.0 + f64::min(f64::max((index - 5) as f64 / 50.0, 0.0), 0.30)` -/
def monolengthBonus (index : Int) : R := 1.0 + fmin (fmax (ofInt (index - 5) / 50.0) 0.0) 0.30

/-- `Stamina::strain_value_at`; the state is `current_strain` -/
def staminaValueAt (singleColor isConvert : Bool) (cur : R) (o : TObj R) : R × R :=
  let cur := cur * strainDecay o.data.deltaTime staminaDecayBase
  let cur := cur + staminaEval o * staminaMultiplier
  let index : Int := o.data.monoIndex
  let v :=
    if singleColor then logisticExp (ofInt (-(index - 10)) / 2.0) cur
    else if isConvert then cur
    else cur * monolengthBonus index
  (cur, v)

/-- `Stamina::calculate_initial_strain` -/
def staminaInitial (singleColor : Bool) (cur : R) (time : R) (o : TObj R) : R :=
  if singleColor then 0.0
  else cur * strainDecay (time - o.data.prevStart.getD 0.0) staminaDecayBase

def staminaFns (singleColor isConvert : Bool) : FnsV R (TRec R) R :=
  ⟨fun cur o => some (staminaValueAt singleColor isConvert cur o), staminaInitial singleColor⟩

/-! ## the macro-generated decay skill (colour, reading, rhythm) -/

/-- `StrainDecaySkill::strain_value_at` around a `strain_value_of` with private state `σ`;
the first component of the state is `strain_decay_skill_current_strain` -/
def decayValueAt {σ : Type} (mult base : R) (valueOf : σ → TObj R → Option (σ × R)) (st : R × σ)
    (o : TObj R) : Option ((R × σ) × R) :=
  let cur := st.1 * strainDecay o.data.deltaTime base
  match valueOf st.2 o with
  | none => none
  | some (s', v) =>
    let cur := cur + v * mult
    some ((cur, s'), cur)

/-- `StrainDecaySkill::calculate_initial_strain` (macro default) -/
def decayInitial {σ : Type} (base : R) (st : R × σ) (time : R) (o : TObj R) : R :=
  st.1 * strainDecay (time - o.data.prevStart.getD 0.0) base

def decayFns {σ : Type} (mult base : R) (valueOf : σ → TObj R → Option (σ × R)) :
    FnsV R (TRec R) (R × σ) :=
  ⟨decayValueAt mult base valueOf, decayInitial base⟩

/-! ## reading -/

/-- `effective_bpm = f64::max(1.0, note_object.effective_bpm)` -/
def cappedBpm (o : TObj R) : R := fmax 1.0 o.data.effectiveBpm

/-- `mid_velocity_diff` (`VelocityRange::new(360.0, 480.0)`: centre `(max + min) / 2.0`, range `max - min`) -/
def midVelocityDiff (o : TObj R) : R :=
  let midCenter : R := (480.0 + 360.0) / 2.0
  let midRange : R := 480.0 - 360.0
  0.5 * logistic (cappedBpm o) midCenter (1.0 / (midRange / 10.0)) 1.0

/-- `density_penalty = logistic(expected_delta_time / max(1.0, delta_time), 0.925, 15.0, None)` -/
def densityPenalty (o : TObj R) : R :=
  let expectedDeltaTime := 21000.0 / cappedBpm o
  let objectDensity := expectedDeltaTime / fmax 1.0 o.data.deltaTime
  logistic objectDensity 0.925 15.0 1.0

/-- `high_velocity_diff` (`VelocityRange::new(480.0, 640.0)`) -/
def highVelocityDiff (o : TObj R) : R :=
  let highCenter : R := (640.0 + 480.0) / 2.0
  let highRange : R := 640.0 - 480.0
  let densityPenalty := densityPenalty o
  (1.0 - 0.33 * densityPenalty)
    * logistic (cappedBpm o) (highCenter + 8.0 * densityPenalty)
        ((1.0 + 0.5 * densityPenalty) / (highRange / 10.0)) 1.0

/-- `ReadingEvaluator::evaluate_diff_of` -/
def readingEval (o : TObj R) : R := midVelocityDiff o + highVelocityDiff o

/-- `Reading::strain_value_of`; the state is the skill's own `current_strain` -/
def readingValueOf (cur : R) (o : TObj R) : Option (R × R) :=
  if !o.data.isHit then some (cur, 0.0)
  else
    let index : Int := o.data.monoIndex
    let cur := cur * (logistic (ofInt index) 4.0 (-1.0 / 25.0) 0.5 + 0.5)
    let cur := cur * 0.4
    let cur := cur + readingEval o * 1.0
    some (cur, cur)

def readingFns : FnsV R (TRec R) (R × R) := decayFns 1.0 0.4 readingValueOf

/-! ## colour -/

/-- the argument `E * idx as f64 - 2.0 * E` of the three pattern logistics -/
def patternArg (i : Nat) : R := constE * ofInt i - 2.0 * constE

/-- `eval_repeating_hit_patterns_diff` -/
def evalRep (interval : Nat) : R := 2.0 * (1.0 - logisticExp (patternArg interval) 1.0)

/-- `parent.map_or(1.0, eval_repeating_hit_patterns_diff)` -/
def altParentEval (p : Option Nat) : R :=
  match p with
  | some i => evalRep i
  | none => 1.0

/-- `eval_alternating_mono_pattern_diff` -/
def evalAlt (a : Nat × Option Nat) : R := logisticExp (patternArg a.1) 1.0 * altParentEval a.2

/-- `parent.map_or(1.0, eval_alternating_mono_pattern_diff)` -/
def monoParentEval (p : Option (Nat × Option Nat)) : R :=
  match p with
  | some a => evalAlt a
  | none => 1.0

/-- `eval_mono_streak_diff` -/
def evalMono (m : Nat × Option (Nat × Option Nat)) : R :=
  logisticExp (patternArg m.1) 1.0 * monoParentEval m.2 * 0.5

/-- `if let Some(..) = .. { difficulty += term }` -/
def addOpt (difficulty : R) (term : Option R) : R :=
  match term with
  | some v => difficulty + v
  | none => difficulty

/-- `difficulty` of `evaluate_difficulty_of` before the consistency penalty: the three
`if … first_hit_object == hit_object { difficulty += … }` blocks in order -/
def colorTerms (d : TRec R) : R :=
  addOpt (addOpt (addOpt 0.0 (d.monoFirst.map evalMono)) (d.altFirst.map evalAlt)) (d.repFirst.map evalRep)

/-- the loop of `consistent_ratio_penalty`: windows `[objects[k-2], _, objects[k]]` for
`k = idx, idx - 2, …` while `k - 2 ≥ lo`; returns `total_ratio_count` and whether a consistent
pair was found (`none` = an index out of the record list) -/
def ratioLoop (ratios : List R) (lo : Nat) : Nat → Nat → Option (Option R)
  | 0, _ => some none
  | fuel + 1, k =>
    if k < lo + 2 then some none
    else
      match ratios[k]?, ratios[k - 2]? with
      | some currRatio, some prevRatio =>
        if le (abs (1.0 - currRatio / prevRatio)) 0.01 then some (some (0.0 + currRatio))
        else ratioLoop ratios lo fuel (k - 2)
      | _, _ => none

/-- `consistent_ratio_penalty(hit_object, objects, None, None)` -/
def consistentRatioPenalty (ratios : List R) (idx : Nat) : Option R :=
  match ratioLoop ratios (idx - 128) 65 idx with
  | none => none
  | some none => some (1.0 - 0.0 / 1.0 * 0.8)
  | some (some total) => some (1.0 - total / 2.0 * 0.8)

/-- `ColorEvaluator::evaluate_difficulty_of` -/
def colorEval (ratios : List R) (o : TObj R) : Option R :=
  match consistentRatioPenalty ratios o.idx with
  | none => none
  | some penalty => some (colorTerms o.data * penalty)

def colorFns (ratios : List R) : FnsV R (TRec R) (R × Unit) :=
  decayFns 0.12 0.8 fun _ o => (colorEval ratios o).map fun v => ((), v)

/-! ## rhythm -/

/-- `term_penalty(ratio, denominator, 4.0, 1.0)` -/
def termPenalty (ratio : R) (denominator : Nat) : R :=
  -1.0 * powf (cos (ofInt denominator * constPi * ratio)) 4.0

/-- `ratio_difficulty(ratio, None)` -/
def ratioDifficulty (ratio : R) : R :=
  let ratio := if isNormal ratio then ratio else 0.0
  let difficulty : R := (List.range 8).foldl (fun d i => d + termPenalty ratio (i + 1)) 0.0
  let difficulty := difficulty + 8.0 / (1.0 + ratio)
  let difficulty := difficulty + bellCurve ratio 1.0 0.5
  let difficulty := difficulty - bellCurve ratio 1.0 0.3
  let difficulty := fmax difficulty 0.0
  difficulty / sqrt 8.0

/-- some pair `i < j` with `|1 - intervals[i] / intervals[j]| <= threshold` -/
def similarPair : List R → Bool
  | [] => false
  | a :: rest => rest.any (fun b => le (abs (1.0 - a / b)) 0.1) || similarPair rest

/-- the closure `same_interval(start_object, interval_count)` on the interval chain -/
def sameInterval (chain : List (Option R)) (intervalCount : Nat) : R :=
  let intervals := (chain.take intervalCount).filterMap id
  if intervals.length < intervalCount then 1.0
  else if similarPair intervals then 0.8
  else 1.0

/-- `repeated_interval_penalty(group, hit_window, None)` -/
def repeatedIntervalPenalty (g : RhythmGroup R) (hitWindow : R) : R :=
  let longIntervalPenalty := sameInterval g.chain 3
  let shortIntervalPenalty := if g.len < 6 then sameInterval g.chain 4 else 1.0
  let durationPenalty : R := match g.duration with
    | none => 0.5
    | some duration => fmax (1.0 - duration * 2.0 / hitWindow) 0.5
  fmin longIntervalPenalty shortIntervalPenalty * durationPenalty

/-- `upgraded_previous().and_then(|h| h.hit_object_interval)` -/
def prevInterval (g : RhythmGroup R) : Option R :=
  match g.chain with
  | _ :: p :: _ => p
  | _ => none

/-- the `if let Some(prev_interval) = prev_interval.filter(|_| len > 1) { if let Some(duration) … }` step -/
def applyDurationDiff (g : RhythmGroup R) (hitWindow intervalDiff : R) : R :=
  match (if g.len > 1 then prevInterval g else none), g.duration with
  | some prev, some duration =>
    let expected := prev * ofInt g.len
    let durationDiff := duration - expected
    if lt 0.0 durationDiff then intervalDiff * logistic (durationDiff / hitWindow) 0.7 1.0 1.0
    else intervalDiff
  | _, _ => intervalDiff

/-- the `if let Some(duration) = duration { interval_diff *= logistic(duration / hit_window, 0.6, 1.0, Some(1.0)) }` step -/
def applyDuration (g : RhythmGroup R) (hitWindow intervalDiff : R) : R :=
  match g.duration with
  | some duration => intervalDiff * logistic (duration / hitWindow) 0.6 1.0 1.0
  | none => intervalDiff

/-- `evaluate_diff_of_(group, hit_window)` -/
def evaluateGroup (g : RhythmGroup R) (hitWindow : R) : R :=
  let intervalDiff := ratioDifficulty g.intervalRatio
  let intervalDiff := intervalDiff * repeatedIntervalPenalty g hitWindow
  let intervalDiff := applyDurationDiff g hitWindow intervalDiff
  let intervalDiff := applyDuration g hitWindow intervalDiff
  powf intervalDiff 0.75

/-- `(same_rhythm, interval_penalty)` after the first block of `evaluate_diff_of` -/
def sameRhythmPart (o : TObj R) (hitWindow : R) : R × R :=
  match o.data.rhythmFirst with
  | some g => (0.0 + 10.0 * evaluateGroup g hitWindow, repeatedIntervalPenalty g hitWindow)
  | none => (0.0, 0.0)

/-- `same_pattern` after the second block -/
def samePatternPart (o : TObj R) : R :=
  match o.data.patternFirstRatio with
  | some r => 0.0 + 1.15 * ratioDifficulty r
  | none => 0.0

/-- `RhythmEvaluator::evaluate_diff_of(hit_object, hit_window)` -/
def rhythmEval (o : TObj R) (hitWindow : R) : R :=
  let p := sameRhythmPart o hitWindow
  0.0 + fmax p.1 (samePatternPart o) * p.2

/-- `Rhythm::strain_value_of` -/
def rhythmValueOf (hitWindow : R) (o : TObj R) : R :=
  let difficulty := rhythmEval o hitWindow
  let staminaDifficulty := staminaEval o - 0.5
  difficulty * logistic staminaDifficulty (1.0 / 15.0) 50.0 1.0

def rhythmFns (hitWindow : R) : FnsV R (TRec R) (R × Unit) :=
  decayFns 1.0 0.4 fun _ o => some ((), rhythmValueOf hitWindow o)

/-! ## the skill loop -/

/-- `StrainSkill::DECAY_WEIGHT` (trait default, all taiko skills) -/
def decayWeight : R := 0.9

/-- the five final skill states of `DifficultyValues::calculate` -/
structure Skills (R : Type) where
  rhythm : StateV R (R × Unit)
  reading : StateV R (R × R)
  color : StateV R (R × Unit)
  stamina : StateV R R
  singleColorStamina : StateV R R

/-- `for hit_object in diff_objects.iter().take(n_diff_objects) { skills.*.process(..) }`: the five
skills do not interact, so each is run over the same prefix. -/
def calculate (A : SecArith R) (fuel : Nat) (hitWindow : R) (isConvert : Bool) (nProcessed : Nat)
    (objs : List (TObj R)) : Res (Skills R) :=
  let os := objs.take nProcessed
  let ratios := objs.map fun o => o.data.ratio
  (processAllV A fmax (rhythmFns hitWindow) fuel (StateV.init 0.0 (0.0, ())) os).bind fun rhythm =>
  (processAllV A fmax readingFns fuel (StateV.init 0.0 (0.0, 0.0)) os).bind fun reading =>
  (processAllV A fmax (colorFns ratios) fuel (StateV.init 0.0 (0.0, ())) os).bind fun color =>
  (processAllV A fmax (staminaFns false isConvert) fuel (StateV.init 0.0 0.0) os).bind fun stamina =>
  (processAllV A fmax (staminaFns true isConvert) fuel (StateV.init 0.0 0.0) os).bind fun mono =>
  .ok ⟨rhythm, reading, color, stamina, mono⟩

/-- `difficulty_value(peaks, 0.9)` of a skill state, as a function of its exported peaks -/
def difficultyValueOf {σ : Type} (st : StateV R σ) : R :=
  Rosu.Agg.difficultyValue aggOps decayWeight (exportPeaksV st)

end

end Rosu.TaikoSkill
