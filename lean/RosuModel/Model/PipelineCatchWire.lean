import RosuModel.Model.PipelineCatch
import RosuModel.Model.ConvCatchWire
import RosuModel.Model.SliderEventsWire
import RosuModel.Model.SkillWire

/-!
# `PIPE catch` wire: catch from decoded objects to attributes, IEEE instance

`PIPE catch <version> <slider_multiplier> <tick_rate> <hr> <reflect> <cs> <ar> <clock> <is_convert>
<take|-> <gradual indices|-> <objects>` — `slider_multiplier`, `tick_rate` and the slider fields are
decimal bit patterns (as in JUICE lines), `cs` (f32), `ar`, `clock` and the positions hex bit
patterns (as in CCONV lines).  Objects `;`-separated: `f:<x>:<start>` | `b:<n_bananas>` |
`s:<x>:<lastcp>:<start>:<beat_len>:<sv>:<generate_ticks>:<dist>:<spans>:<nested x ,-separated|->`.
Response: `<stars> <ar> <fruits> <droplets> <tiny> <is_convert>` and, per gradual index `i`,
` G<i>=<stars>,<fruits>,<droplets>,<tiny>`.
-/
namespace Rosu.PipelineCatch.Wire
open Rosu.PipelineCatch Rosu.SkillOps Rosu.SkillWire Rosu.Stack.Wire Rosu.ConvOsu.Wire

def parseObj (version sm tr : String) (s : String) : Option (PObj Float Float32) :=
  match s.splitOn ":" with
  | ["f", x, st] => some (.fruit (f32 x) (f64 st))
  | ["b", n] => some (.shower (n.toNat?.getD 0))
  | ["s", x, cp, start, bl, sv, gen, dist, spans, xs] =>
    (Rosu.SliderEvents.parseSliderIn version sm tr [start, bl, sv, gen, dist, spans]).map fun si =>
      .stream (f32 x) (f32 cp) si (if xs = "-" then [] else (xs.splitOn ",").map f32)
  | _ => none

def showAttrs (a : CatchAttrs Float) : String :=
  s!"{h64 a.stars} {h64 a.ar} {a.nFruits} {a.nDroplets} {a.nTinyDroplets} {if a.isConvert then 1 else 0}"

def handlePIPEC (version sm tr hr refl cs ar clock conv take gidx objs : String) : String :=
  let parsed := if objs = "-" then [] else (objs.splitOn ";").map (parseObj version sm tr)
  if parsed.any Option.isNone then "bad-object"
  else
    let os := parsed.filterMap id
    let st : Settings Float Float32 := ⟨hr = "1", refl = "1", f32 cs, f64 ar, f64 clock, conv = "1"⟩
    let A := Rosu.SliderEvents.floatArith
    let CA := Rosu.ConvCatch.Wire.ieee
    let SA := secArith 750.0
    let one := showRes (catchDifficulty ieeeCasts A CA SA driverFuel 0.0 st (takeOf take) os) showAttrs
    let gs := if gidx = "-" then [] else (gidx.splitOn ",").map (fun s => s.toNat?.getD 0)
    one ++ String.join (gs.map fun i =>
      s!" G{i}=" ++ showRes (catchGradualValue ieeeCasts A CA SA driverFuel 0.0 st i os)
        (fun a => s!"{h64 a.stars},{a.nFruits},{a.nDroplets},{a.nTinyDroplets}"))

end Rosu.PipelineCatch.Wire
