import RosuModel.Model.PipelinePerf
import RosuModel.Model.PipelineCatch

/-!
# C04 / C03 — performance end to end from DECODED OBJECTS: osu!standard and osu!catch.  Core only.

Same composition as `Model/PipelinePerf.lean` (difficulty pipeline with the builder's `passed_objects`, then
`Model/FullPerf.lean`; gradual: the pipeline's `i`-th gradual value, then the attributes path with
`passed_objects(i)` and `fresh.state(s)`), over `Model/PipelineOsu.lean` and `Model/PipelineCatch.lean`.
-/
namespace Rosu.PipelinePerf
open Rosu.SkillOps Rosu.FullPerf Rosu.GenState Rosu.PerfCalc

/-! ## osu!standard -/

section osu
variable {R S : Type} [NumOps R] [PPOps R]
open Rosu.PipelineOsu (osuDifficulty osuGradualValue)

/-- what the performance calculation reads of the builder's `Difficulty` beyond what the difficulty pipeline
already takes (`PipelineOsu.Settings` carries RX / AP / FL / HD): NF, SO, BL, TC, the lazer flag and
`mods.no_slider_head_acc(lazer)` -/
structure OsuPerfExtra where
  nf : Bool
  so : Bool
  bl : Bool
  tc : Bool
  lazer : Bool
  noSliderHeadAcc : Bool

def osuSettingsOf (st : Rosu.PipelineOsu.Settings R) (x : OsuPerfExtra) (take : Option Nat) (prio : Prio) : OsuSettings :=
  { mods := { nf := x.nf, so := x.so, rx := st.mods.rx, ap := st.mods.ap, bl := x.bl, hd := st.hd, tc := x.tc,
              fl := st.mods.fl },
    lazer := x.lazer, noSliderHeadAcc := x.noSliderHeadAcc, passed := take, prio := prio }

/-- the attribute record the pp calculator and `generate_state` read (everything but `stars`) -/
def osuAttrsOf (a : Rosu.PipelineOsu.Attrs R) : OsuAttrs R :=
  { aim := a.aim, aimDifficultSliderCount := a.aimDifficultSliderCount, speed := a.speed, flashlight := a.flashlight,
    sliderFactor := a.sliderFactor, speedNoteCount := a.speedNoteCount,
    aimDifficultStrainCount := a.aimDifficultStrainCount, speedDifficultStrainCount := a.speedDifficultStrainCount,
    ar := a.ar, greatHitWindow := a.greatHitWindow, okHitWindow := a.okHitWindow, mehHitWindow := a.mehHitWindow,
    hp := a.hp, nCircles := a.nCircles, nSliders := a.nSliders, nLargeTicks := a.nLargeTicks,
    nSpinners := a.nSpinners, maxCombo := a.maxCombo }

/-- `OsuPerformanceAttributes` -/
structure OsuPerfAttrs (R : Type) where
  difficulty : Rosu.PipelineOsu.Attrs R
  out : OsuOut R

def osuPerfFromAttrs (a : Rosu.PipelineOsu.Attrs R) (st : Rosu.PipelineOsu.Settings R) (x : OsuPerfExtra)
    (take : Option Nat) (prio : Prio) (b : OsuB R) : GenState.Res (OsuPerfAttrs R) :=
  (osuFull stdSpecial (osuAttrsOf a) (osuSettingsOf st x take prio) b).map fun o => ⟨a, o⟩

def resMap {α β : Type} (f : α → β) : SkillOps.Res α → SkillOps.Res β
  | .ok a => .ok (f a)
  | .panic => .panic
  | .fuel => .fuel

/-- **map path** (decoded objects): `OsuPerformance::new(&map)…calculate()`; an unset `passed_objects` is
`usize::MAX` for the difficulty calculation -/
def osuPerfFromMap (A : Rosu.ConvOsu.Ar R S) (E : Rosu.SliderEvents.Arith R) (fuel : Nat)
    (st : Rosu.PipelineOsu.Settings R) (x : OsuPerfExtra) (take : Option Nat) (prio : Prio) (b : OsuB R)
    (objs : List (Rosu.PipelineOsu.PObj R S)) : SkillOps.Res (GenState.Res (OsuPerfAttrs R)) :=
  resMap (fun a => osuPerfFromAttrs a st x take prio b) (osuDifficulty A E fuel st (take.getD (2 ^ 64 - 1)) objs)

def OsuB.fresh : OsuB R := ⟨none, none, none, none, none, none, none, none, none⟩

/-- **`OsuGradualPerformance`** advanced to the `i`-th object with state `s` -/
def osuGradualPerfValue (A : Rosu.ConvOsu.Ar R S) (E : Rosu.SliderEvents.Arith R) (fuel : Nat)
    (st : Rosu.PipelineOsu.Settings R) (x : OsuPerfExtra) (i : Nat) (s : OsuState)
    (objs : List (Rosu.PipelineOsu.PObj R S)) : SkillOps.Res (Option (GenState.Res (OsuPerfAttrs R))) :=
  resMap (fun v => v.map fun a => osuPerfFromAttrs a st x (some i) .best (OsuB.fresh.update s))
    (osuGradualValue A E fuel st i objs)

end osu

/-! ## osu!catch -/

section catchMode
variable {F S : Type} [FOps F] [FOps S] [NumOps F] [PPOps F]
open Rosu.PipelineCatch (catchDifficulty catchGradualValue)

/-- legacy bits: NF 1, HD 8, FL 1024 -/
def catchSettingsOf (mods : Nat) : CatchSettings :=
  { mods := { hd := mods / 8 % 2 = 1, fl := mods / 1024 % 2 = 1, nf := mods % 2 = 1 } }

def catchAttrsOf (a : Rosu.PipelineCatch.CatchAttrs F) : CatchFullAttrs F :=
  { base := { stars := a.stars, ar := a.ar, nFruits := a.nFruits, nDroplets := a.nDroplets },
    nTinyDroplets := a.nTinyDroplets }

/-- `CatchPerformanceAttributes` -/
structure CatchPerfAttrs (F : Type) where
  difficulty : Rosu.PipelineCatch.CatchAttrs F
  pp : F

def catchPerfFromAttrs (a : Rosu.PipelineCatch.CatchAttrs F) (mods : Nat) (b : CatchB F) :
    GenState.Res (CatchPerfAttrs F) :=
  (catchFull (catchAttrsOf a) (catchSettingsOf mods) b).map fun pp => ⟨a, pp⟩

/-- **map path** (decoded objects) -/
def catchPerfFromMap (C : Casts F S) (A : Rosu.SliderEvents.Arith F) (CA : Rosu.ConvCatch.CAr S F) (SA : SecArith F)
    (fuel : Nat) (start0 : F) (st : Rosu.PipelineCatch.Settings F S) (mods : Nat) (take : Option Nat) (b : CatchB F)
    (objs : List (Rosu.PipelineCatch.PObj F S)) : SkillOps.Res (GenState.Res (CatchPerfAttrs F)) :=
  resMap (fun a => catchPerfFromAttrs a mods b)
    (catchDifficulty C A CA SA fuel start0 st (take.getD (2 ^ 64 - 1)) objs)

def CatchB.fresh : CatchB F := ⟨none, none, none, none, none, none, none⟩

/-- **`CatchGradualPerformance`** advanced to the `i`-th palpable object with state `s` -/
def catchGradualPerfValue (C : Casts F S) (A : Rosu.SliderEvents.Arith F) (CA : Rosu.ConvCatch.CAr S F)
    (SA : SecArith F) (fuel : Nat) (start0 : F) (st : Rosu.PipelineCatch.Settings F S) (mods : Nat) (i : Nat)
    (s : CatchState) (objs : List (Rosu.PipelineCatch.PObj F S)) : SkillOps.Res (GenState.Res (CatchPerfAttrs F)) :=
  resMap (fun a => catchPerfFromAttrs a mods (CatchB.fresh.update s))
    (catchGradualValue C A CA SA fuel start0 st i objs)

end catchMode

end Rosu.PipelinePerf
