/-
C11 (b), (c): executable model of the *pointer discipline* of rosu-pp's two lifetime-extending
`unsafe` sites and of the decoder's raw-pointer scratch buffer.

Sources modelled
  src/osu/difficulty/gradual.rs    OsuGradualDifficulty { …, diff_objects: Box<[OsuDifficultyObject<'static>]>,
                                   osu_objects: OsuObjects { objects: Box<[OsuObject]> }, … }
                                   new / extend_lifetime (mem::transmute to 'static) / next / nth / len
  src/taiko/difficulty/gradual.rs  TaikoGradualDifficulty { …, diff_objects: TaikoDifficultyObjects { objects: Vec<..>, .. },
                                   diff_objects_iter: slice::Iter<'static, RefCount<..>>, … }
                                   new / extend_lifetime / next / nth / len
  src/model/beatmap/decode.rs      BeatmapState::point_split (Vec<*const str> viewed as &[&str])
  rosu-map 0.2.1 src/decode.rs     parse_section: read_line (clear + refill of the line buffer), the
                                   `Result` of the per-line parse function is ignored and the loop goes on

What is modelled: an abstract heap (blocks with liveness, a generation counter bumped by every
write/reallocation, a frozen flag), pointers `(block id, generation)`, the calculators as *handles*
(the struct value, which may move) plus heap blocks (which never move), Rust's field-by-field drop in
declaration order, and the statement sequence of `point_split`.  A dereference of a pointer whose
block is dead or whose generation differs from the block's is a *fault*.

What is NOT modelled: Rust's aliasing rules (Stacked / Tree Borrows: retags, uniqueness of `Box`),
layout (`*const str` vs `&str`), the allocator.  This is a model of the discipline the SAFETY
comments describe, not of the abstract machine.

The facts about the source the model depends on (field order, absence of Clone, read-only uses of
the owned storage, statement sequence of `point_split`) are regenerated on every run into
`Gen/Lifetime.lean` and compared in `Props/C11.lean`.

Core Lean only.
-/

namespace Rosu.Lifetime

/-! ## abstract heap -/

structure Ptr where
  block : Nat
  gen : Nat
deriving DecidableEq, Repr

structure Block where
  live : Bool
  /-- bumped by every write / reallocation of the block's contents -/
  gen : Nat
  /-- shared-borrowed: pointers into the block are stored somewhere -/
  frozen : Bool
  /-- ghost: index of the calculator instance the block was allocated for -/
  tag : Nat
deriving DecidableEq, Repr

inductive Fault where
  | outOfHeap | useAfterFree | staleGeneration | doubleFree | writeWhileFrozen | unknownShape
deriving DecidableEq, Repr

/-- Dereference check of one pointer. -/
def derefFault (h : List Block) (p : Ptr) : Option Fault :=
  match h[p.block]? with
  | none => some .outOfHeap
  | some b =>
    if b.live = false then some .useAfterFree
    else if b.gen = p.gen then none else some .staleGeneration

/-- First fault among the dereferences of a list of pointers. -/
def firstFault (h : List Block) : List Ptr → Option Fault
  | [] => none
  | p :: ps => match derefFault h p with
    | some f => some f
    | none => firstFault h ps

def validPtr (h : List Block) (p : Ptr) : Prop :=
  ∃ b, h[p.block]? = some b ∧ b.live = true ∧ b.gen = p.gen

/-- `drop` of an owning handle (`Box`, `Vec`): the block dies; a second free is a fault. -/
def free (h : List Block) (b : Nat) : Except Fault (List Block) :=
  match h[b]? with
  | none => .error .outOfHeap
  | some blk =>
    if blk.live = true then .ok (h.set b { blk with live := false, frozen := false })
    else .error .doubleFree

/-! ## (b) self-referential gradual calculators -/

inductive Field where
  | borrower   -- osu: `diff_objects`, taiko: `diff_objects_iter`
  | owner      -- osu: `osu_objects`,  taiko: `diff_objects`
deriving DecidableEq, Repr

/-- What the model needs to know about a calculator struct; the values for the real structs are
computed from `Gen/Lifetime.lean` in `Props/C11.lean`. -/
structure Layout where
  /-- declaration order of the two fields = order in which Rust drops them -/
  order : List Field
  /-- the stored pointers sit in a heap block of their own (osu: `Box<[OsuDifficultyObject]>`);
  `false`: inline in the struct (taiko: `slice::Iter`) -/
  holderBoxed : Bool
  /-- the borrower's drop glue dereferences the stored pointers (no `Drop` impl in the crate, and
  `slice::Iter` / `&T` have none: `false`) -/
  glueDerefs : Bool
  /-- the owned object storage lives inline in the struct instead of behind `Box`/`Vec`: a move of
  the struct then moves the storage -/
  ownerInline : Bool
deriving DecidableEq, Repr

def osuLayout : Layout := ⟨[.borrower, .owner], true, false, false⟩
def taikoLayout : Layout := ⟨[.owner, .borrower], false, false, false⟩
/-- catch / mania calculators: everything owned, no stored pointers -/
def plainLayout : Layout := ⟨[.borrower, .owner], false, false, false⟩

/-- Layouts for which the discipline is sound: heap-allocated owner, and either the borrower is
dropped first or its drop glue does not look at the pointers. -/
def Layout.safe (l : Layout) : Bool :=
  !l.ownerInline &&
  (l.order == [.borrower, .owner] || (l.order == [.owner, .borrower] && !l.glueDerefs))

structure Inst where
  layout : Layout
  alive : Bool
  /-- block of the owned object storage -/
  owner : Nat
  /-- block that physically holds the stored pointers, if boxed -/
  holder : Option Nat
  /-- the stored lifetime-extended pointers -/
  ptrs : List Ptr
  /-- where the struct value itself currently is (stack slot, `Box`, element of a `Vec`, another
  thread's stack): changed by a move, irrelevant for the heap blocks -/
  handle : Nat
deriving DecidableEq, Repr

def Inst.blocks (inst : Inst) : List Nat := inst.owner :: inst.holder.toList

/-- access through the owning `Box` handle of the holder block (its generation is never bumped) -/
def Inst.holderPtrs (inst : Inst) : List Ptr :=
  match inst.holder with
  | some hb => [⟨hb, 0⟩]
  | none => []

structure World where
  heap : List Block
  insts : List Inst
deriving DecidableEq, Repr

def World.empty : World := ⟨[], []⟩

inductive Op where
  /-- `X::new`: allocate the owned storage (+ the box of difficulty objects), store `nPtrs`
  pointers into the storage, freeze it -/
  | construct (l : Layout) (nPtrs : Nat)
  /-- move of the struct value (into a `Box`, a `Vec` that reallocates, a closure, a thread) -/
  | moveStruct (i : Nat) (to : Nat)
  | next (i : Nat)
  | nth (i : Nat) (k : Nat)
  | len (i : Nat)
  | dropStruct (i : Nat)
  /-- NOT an operation of the real types (premise `ownerUsesReadOnly`): a write / push / sort on
  the owned storage after construction -/
  | mutateOwner (i : Nat)
  /-- NOT an operation of the real types (premise `notClone`): field-wise clone, the stored
  pointers are copied bit by bit and keep pointing into the original's storage -/
  | cloneBitwise (i : Nat)
deriving DecidableEq, Repr

/-- Operations the real types offer, with layouts for which the discipline is sound. -/
def Op.admissible : Op → Bool
  | .construct l _ => l.safe
  | .mutateOwner _ => false
  | .cloneBitwise _ => false
  | _ => true

def ownerBlk (i : Nat) : Block := ⟨true, 0, true, i⟩
def holderBlk (i : Nat) : Block := ⟨true, 0, false, i⟩

/-- the instance `construct` creates: index `w.insts.length`, blocks `w.heap.length` (storage)
and, if boxed, `w.heap.length + 1` (the box of difficulty objects) -/
def newInst (w : World) (l : Layout) (n : Nat) : Inst :=
  { layout := l, alive := true, owner := w.heap.length,
    holder := if l.holderBoxed then some (w.heap.length + 1) else none,
    ptrs := List.replicate n ⟨w.heap.length, 0⟩, handle := 0 }

def newBlocks (i : Nat) (boxed : Bool) : List Block :=
  if boxed then [ownerBlk i, holderBlk i] else [ownerBlk i]

def construct (w : World) (l : Layout) (n : Nat) : World :=
  { heap := w.heap ++ newBlocks w.insts.length l.holderBoxed
    insts := w.insts ++ [newInst w l n] }

/-- Pointers dereferenced by `next` / `nth` / `len` on a live instance: the holder box is read
(`self.diff_objects.get(..)`, `.len()`), and — over-approximating — every stored pointer
(`curr.base`, the skills look back at previous difficulty objects). -/
def Inst.usePtrs (inst : Inst) : List Ptr := inst.holderPtrs ++ inst.ptrs

def bumpGen (h : List Block) (b : Nat) : List Block :=
  match h[b]? with
  | some blk => h.set b { blk with gen := blk.gen + 1 }
  | none => h

def moveInst (w : World) (i to : Nat) : World :=
  match w.insts[i]? with
  | none => w
  | some inst =>
    if inst.alive = false then w else
    { heap := if inst.layout.ownerInline then bumpGen w.heap inst.owner else w.heap
      insts := w.insts.set i { inst with handle := to } }

def useInst (w : World) (i : Nat) : Except Fault World :=
  match w.insts[i]? with
  | none => .ok w
  | some inst =>
    if inst.alive = false then .ok w else
    match firstFault w.heap inst.usePtrs with
    | some f => .error f
    | none => .ok w

/-- Drop glue of one field; the state is (heap, pointers still stored). -/
def dropField (inst : Inst) (st : List Block × List Ptr) : Field → Except Fault (List Block × List Ptr)
  | .borrower =>
    match (if inst.layout.glueDerefs then firstFault st.1 st.2 else none) with
    | some f => .error f
    | none =>
      match inst.holder with
      | none => .ok (st.1, [])
      | some hb =>
        match free st.1 hb with
        | .error f => .error f
        | .ok h' => .ok (h', [])
  | .owner =>
    match free st.1 inst.owner with
    | .error f => .error f
    | .ok h' => .ok (h', st.2)

def dropFields (inst : Inst) (st : List Block × List Ptr) : List Field → Except Fault (List Block × List Ptr)
  | [] => .ok st
  | f :: fs =>
    match dropField inst st f with
    | .error e => .error e
    | .ok st' => dropFields inst st' fs

/-- Dropping the struct: fields in declaration order. -/
def dropInst (w : World) (i : Nat) : Except Fault World :=
  match w.insts[i]? with
  | none => .ok w
  | some inst =>
    if inst.alive = false then .ok w else
    match dropFields inst (w.heap, inst.ptrs) inst.layout.order with
    | .error f => .error f
    | .ok (h', ps) => .ok ⟨h', w.insts.set i { inst with alive := false, ptrs := ps }⟩

def mutateOwner (w : World) (i : Nat) : Except Fault World :=
  match w.insts[i]? with
  | none => .ok w
  | some inst =>
    if inst.alive = false then .ok w else
    match w.heap[inst.owner]? with
    | none => .error .outOfHeap
    | some blk =>
      if blk.frozen = true then .error .writeWhileFrozen
      else .ok { w with heap := bumpGen w.heap inst.owner }

def cloneBitwise (w : World) (i : Nat) : World :=
  match w.insts[i]? with
  | none => w
  | some inst =>
    if inst.alive = false then w else
    { heap := w.heap ++ newBlocks w.insts.length inst.holder.isSome
      insts := w.insts ++ [{ inst with owner := w.heap.length,
                                       holder := if inst.holder.isSome then some (w.heap.length + 1) else none }] }

/-- Ops addressed to an index that does not exist or to a dropped instance are not expressible
in Rust (ownership): they are no-ops here. -/
def step (w : World) : Op → Except Fault World
  | .construct l n => .ok (construct w l n)
  | .moveStruct i to => .ok (moveInst w i to)
  | .next i => useInst w i
  | .nth i _ => useInst w i
  | .len i => useInst w i
  | .dropStruct i => dropInst w i
  | .mutateOwner i => mutateOwner w i
  | .cloneBitwise i => .ok (cloneBitwise w i)

def run (w : World) : List Op → Except Fault World
  | [] => .ok w
  | op :: ops =>
    match step w op with
    | .error f => .error f
    | .ok w' => run w' ops

/-- Pointers an operation dereferences (drop glue included). -/
def derefs (w : World) : Op → List Ptr
  | .next i | .nth i _ | .len i =>
    match w.insts[i]? with
    | some inst => if inst.alive then inst.usePtrs else []
    | none => []
  | .dropStruct i =>
    match w.insts[i]? with
    | some inst => if inst.alive && inst.layout.glueDerefs then inst.ptrs else []
    | none => []
  | _ => []

def faultOf {α} : Except Fault α → Option Fault
  | .error f => some f
  | .ok _ => none

def liveBlocks (w : World) : Nat := (w.heap.filter (·.live)).length

def liveInsts (w : World) : List Nat :=
  (List.range w.insts.length).filter fun i => match w.insts[i]? with
    | some inst => inst.alive
    | none => false

/-! ## (c) the decoder's scratch buffer -/

/-- What the closure handed to `point_split` returns (a `Result` *value*), or a panic. -/
inductive FRes where
  | ok | err | panic
deriving DecidableEq, Repr

/-- Statement shapes of `fn point_split`, as classified by the translator. -/
inductive PStmt where
  | extend      -- self.point_split.extend(iter.map(std::ptr::from_ref));
  | asPtr       -- let ptr = self.point_split.as_ptr();
  | len         -- let len = self.point_split.len();
  | fromRaw     -- let s = unsafe { slice::from_raw_parts(ptr.cast(), len) };
  | callF       -- let res = f(self, s);            the Result is a value, no early exit
  | callFTry    -- f(self, s)?;                     early return on Err
  | clear       -- self.point_split.clear();
  | ret         -- tail expression / return of the kept result
  | unknown     -- anything else
deriving DecidableEq, Repr

def PStmt.ofTag (s : String) : PStmt :=
  if s == "extend" then .extend else if s == "as_ptr" then .asPtr else if s == "len" then .len
  else if s == "from_raw_parts" then .fromRaw else if s == "call_f" then .callF
  else if s == "call_f_try" then .callFTry else if s == "clear" then .clear
  else if s == "ret" then .ret else .unknown

/-- `fn point_split` as it is in the source. -/
def realProg : List PStmt := [.extend, .asPtr, .len, .fromRaw, .callF, .clear, .ret]
/-- The variant that skips `clear()` when `f` fails (`f(self, s)?; self.point_split.clear(); Ok(())`). -/
def skipClearOnErrProg : List PStmt := [.extend, .asPtr, .len, .fromRaw, .callFTry, .clear, .ret]

structure Dec where
  /-- the `BeatmapState` still exists (a panic inside `f` unwinds out of `decode` and drops it) -/
  alive : Bool
  /-- generation of the reader's line buffer: `read_line` clears and refills it -/
  lineGen : Nat
  inLine : Bool
  /-- `point_split: Vec<*const str>`; each pointer is represented by the generation of the line
  buffer it points into -/
  scratch : List Nat
  /-- generation of the scratch vector's own buffer (bumped by `extend`: may reallocate) -/
  scratchGen : Nat
deriving DecidableEq, Repr

def Dec.init : Dec := ⟨true, 0, false, [], 0⟩

structure Frame where
  d : Dec
  ptr : Option Nat
  len : Option Nat
  /-- the `&[&str]` made by `from_raw_parts`: (generation of the scratch buffer, length) -/
  view : Option (Nat × Nat)
  done : Bool
deriving DecidableEq, Repr

/-- `f` reads the pieces through the slice: the slice's memory must still be the scratch buffer
it was made from, and every piece must point into the *current* line. -/
def viewFault (fr : Frame) : Option Fault :=
  match fr.view with
  | none => some .unknownShape
  | some (g, n) =>
    if g ≠ fr.d.scratchGen then some .staleGeneration
    else if n > fr.d.scratch.length then some .outOfHeap
    else if (fr.d.scratch.take n).all (· == fr.d.lineGen) then none else some .staleGeneration

def execStmt (k : Nat) (r : FRes) (fr : Frame) : PStmt → Except Fault Frame
  | .extend => .ok { fr with d := { fr.d with scratch := fr.d.scratch ++ List.replicate k fr.d.lineGen,
                                               scratchGen := fr.d.scratchGen + 1 } }
  | .asPtr => .ok { fr with ptr := some fr.d.scratchGen }
  | .len => .ok { fr with len := some fr.d.scratch.length }
  | .fromRaw =>
    match fr.ptr, fr.len with
    | some g, some n => .ok { fr with view := some (g, n) }
    | _, _ => .error .unknownShape
  | .callF =>
    match viewFault fr with
    | some f => .error f
    | none =>
      if r = .panic then .ok { fr with d := { fr.d with alive := false, scratch := [] }, done := true }
      else .ok fr
  | .callFTry =>
    match viewFault fr with
    | some f => .error f
    | none =>
      if r = .panic then .ok { fr with d := { fr.d with alive := false, scratch := [] }, done := true }
      else if r = .err then .ok { fr with done := true }
      else .ok fr
  | .clear => .ok { fr with d := { fr.d with scratch := [], scratchGen := fr.d.scratchGen + 1 } }
  | .ret => .ok { fr with done := true }
  | .unknown => .error .unknownShape

def execProg (k : Nat) (r : FRes) (fr : Frame) : List PStmt → Except Fault Frame
  | [] => .ok fr
  | s :: ss =>
    if fr.done then .ok fr else
    match execStmt k r fr s with
    | .error f => .error f
    | .ok fr' => execProg k r fr' ss

inductive DOp where
  /-- `read_line`: the line buffer is cleared and refilled -/
  | enterLine
  /-- one call of `point_split` with `k` pieces whose closure returns `r` -/
  | pointSplit (k : Nat) (r : FRes)
  /-- the per-line parse function returns (its `Result` is ignored by the decode loop) -/
  | leaveLine
deriving DecidableEq, Repr

def stepD (prog : List PStmt) (d : Dec) : DOp → Except Fault Dec
  | .enterLine => .ok (if d.alive then { d with lineGen := d.lineGen + 1, inLine := true } else d)
  | .leaveLine => .ok (if d.alive then { d with inLine := false } else d)
  | .pointSplit k r =>
    if d.alive = false || d.inLine = false then .ok d else
    match execProg k r ⟨d, none, none, none, false⟩ prog with
    | .error f => .error f
    | .ok fr => .ok fr.d

def runD (prog : List PStmt) (d : Dec) : List DOp → Except Fault Dec
  | [] => .ok d
  | op :: ops =>
    match stepD prog d op with
    | .error f => .error f
    | .ok d' => runD prog d' ops

end Rosu.Lifetime

/-! ## from the facts the translator extracts to the model's parameters -/

namespace Rosu.Lifetime

/-- Drop order of the two fields, read off the declared field list. -/
def orderOf (fields : List String) (borrower owner : String) : List Field :=
  fields.filterMap fun f =>
    if f == borrower then some Field.borrower else if f == owner then some Field.owner else none

/-- Storage types that are heap allocations whose address does not change when the owning handle
moves. -/
def heapStorageTypes : List String :=
  ["Box<[OsuObject]>", "NonNull<[OsuObject]>", "Vec<RefCount<TaikoDifficultyObject>>"]

/-- `Drop` impls that have been reviewed as "frees exactly the heap block its storage field owns and
dereferences nothing else" — (impl header, statements of `fn drop`).  `OsuObjects` owns its allocation
through `NonNull<[OsuObject]>` (from `Box::leak`) since `fix: OsuGradualDifficulty owns its objects
through a raw pointer …`; its `Drop` rebuilds the `Box` and drops it, which is what the model's drop of
the owner field does (free the block). -/
def reviewedDrops : List (String × String) :=
  [("src/osu/difficulty/gradual.rs: impl Drop for OsuObjects",
    "drop(unsafe\x20{ Box::from_raw(self.objects.as_ptr()) });")]

/-- Storage types that are raw pointers: they free their block only through a reviewed `Drop` impl. -/
def rawStorageTypes : List (String × String) :=
  [("NonNull<[OsuObject]>", "src/osu/difficulty/gradual.rs: impl Drop for OsuObjects")]

/-- Borrower types whose pointers sit in a heap block of their own. -/
def boxedBorrowerTypes : List String := ["Box<[OsuDifficultyObject<'static>]>"]

/-- The layout the model uses for a calculator struct, computed from the source facts:
declared field names, the borrower's type, the type of the storage field the pointers point into,
and the crate's `impl Drop` list with bodies (any `Drop` impl other than the reviewed ones is
conservatively taken to dereference the borrower's pointers). -/
def layoutOf (fields : List (String × String × String)) (borrower owner : String)
    (storageTy : String) (dropBodies : List (String × String)) : Layout :=
  { order := orderOf (fields.map (·.2.1)) borrower owner
    holderBoxed := (fields.filter (·.2.1 == borrower)).any (boxedBorrowerTypes.contains ·.2.2)
    glueDerefs := !(dropBodies.filter fun d => !reviewedDrops.contains d).isEmpty
    ownerInline := !(heapStorageTypes.contains storageTy) }

end Rosu.Lifetime
