import RosuModel.Model.Skill

/-
Executable model of the functions that turn strain peaks into difficulty values, generic in the
number type `α` (the operations are the fields of `Ops`):

* `difficultyValue`      — `any::difficulty::skills::difficulty_value` (src/any/difficulty/skills.rs):
                           drop `+0.0`, sort descending (`total_cmp`), `Σ peak · weight`, `weight *= decay`
* `osuDifficultyValue`   — `osu::difficulty::skills::strain::difficulty_value`
                           (src/osu/difficulty/skills/strain.rs): the `k = REDUCED_SECTION_COUNT` highest
                           peaks are multiplied by `factor i`, everything is sorted again, weighted sum
* `flashlightValue`      — `Flashlight::difficulty_value` = `StrainsVec::sum` (src/osu/difficulty/skills/flashlight.rs)
* `taikoCombined`        — `taiko::difficulty::combined_difficulty_value` (src/taiko/difficulty/mod.rs):
                           the four peak iterators zipped, one value per section (`comb`, abstract here),
                           `if peak > 0.0 { push }`, sort descending, weighted sum with `0.9`

and of the versions that read the crate's compact `StrainsVec` (`…Internal`), which
Lemmas/Aggregate.lean proves equal to the versions on the exported `Vec<f64>`.

Three instances are used:
* `bitOps`   — `α = Nat` (f64 bit patterns) with the arithmetic as parameters; theorems about the
               real data flow are stated for it, the driver runs it with Lean `Float` operations;
* a linearly ordered field (Lemmas/AggregateField.lean) for sign / bound / monotonicity facts.

Core Lean only.
-/

namespace Rosu.Agg
open Rosu.SV Rosu.Skill

/-- The operations the aggregation functions apply to numbers. -/
structure Ops (α : Type) where
  zero : α
  one : α
  add : α → α → α
  mul : α → α → α
  /-- not the pattern `+0.0` (`retain_non_zero`; for the compact vector: not a zero-run entry) -/
  nonZero : α → Bool
  /-- `a.total_cmp(b) != Less` -/
  ge : α → α → Bool
  /-- `x > 0.0` -/
  pos : α → Bool

variable {α : Type}

/-- `sort_by(|a, b| b.total_cmp(a))`: stable, descending. -/
def sortDesc (O : Ops α) (l : List α) : List α := l.mergeSort (fun a b => O.ge a b)

/-- `for strain in peaks { difficulty += strain * weight; weight *= decay_weight; }` -/
def weightedSum (O : Ops α) (decay : α) (terms : List α) : α :=
  (terms.foldl (fun (acc : α × α) s => (O.add acc.1 (O.mul s acc.2), O.mul acc.2 decay))
    (O.zero, O.one)).1

/-- the terms `difficulty_value` folds over, from an exported peak list -/
def dvTermsOf (O : Ops α) (peaks : List α) : List α := sortDesc O (peaks.filter O.nonZero)

/-- `any::difficulty::skills::difficulty_value(peaks, decay_weight)` on an exported peak list. -/
def difficultyValue (O : Ops α) (decay : α) (peaks : List α) : α :=
  weightedSum O decay (dvTermsOf O peaks)

/-- `for (i, strain) in peaks_iter.take(k).enumerate() { *strain *= factor i }` -/
def scalePrefix (O : Ops α) (factor : Nat → α) (k : Nat) (l : List α) : List α :=
  l.zipIdx.map fun (e, i) => if i < k then O.mul e (factor i) else e

/-- the terms `osu::…::strain::difficulty_value` folds over -/
def osuTermsOf (O : Ops α) (factor : Nat → α) (k : Nat) (peaks : List α) : List α :=
  sortDesc O (scalePrefix O factor k (dvTermsOf O peaks))

/-- `osu::difficulty::skills::strain::difficulty_value(peaks, k, baseline, decay_weight)`;
`factor i = lerp(baseline, 1.0, log10(lerp(1.0, 10.0, clamp(i / k))))` is a parameter. -/
def osuDifficultyValue (O : Ops α) (factor : Nat → α) (k : Nat) (decay : α) (peaks : List α) : α :=
  weightedSum O decay (osuTermsOf O factor k peaks)

/-- `StrainsVec::sum`: `Iterator::sum` (left fold from std's identity `sum0`) of the non-zero peaks. -/
def flashlightValue (O : Ops α) (sum0 : α) (peaks : List α) : α :=
  (peaks.filter O.nonZero).foldl O.add sum0

/-- `rhythm.iter().zip(reading.iter()).zip(color.iter()).zip(stamina.iter())` mapped through the
per-section arithmetic `comb rhythm reading color stamina`. -/
def zip4With {β : Type} (comb : α → α → α → α → β) (r rd c s : List α) : List β :=
  (((r.zip rd).zip c).zip s).map fun (((a, b), c), d) => comb a b c d

/-- the terms `combined_difficulty_value` folds over -/
def taikoTermsOf (O : Ops α) (comb : α → α → α → α → α) (r rd c s : List α) : List α :=
  sortDesc O ((zip4With comb r rd c s).filter O.pos)

/-- `taiko::difficulty::combined_difficulty_value` on four exported peak lists. -/
def taikoCombined (O : Ops α) (comb : α → α → α → α → α) (decay : α) (r rd c s : List α) : α :=
  weightedSum O decay (taikoTermsOf O comb r rd c s)

/-- `cmp::min(rhythm.len(), min(reading.len(), min(color.len(), stamina.len())))` -/
def taikoCap (r rd c s : List α) : Nat := min r.length (min rd.length (min c.length s.length))

/-! ## the bit-pattern instance and the versions on the compact vector -/

/-- `α = Nat` (f64 bit patterns); `total_cmp` is the signed-key comparison of
Model/StrainsVec.lean, the arithmetic is a parameter. -/
def bitOps (add mul : Nat → Nat → Nat) (pos : Nat → Bool) (z o : Nat) : Ops Nat :=
  { zero := z, one := o, add := add, mul := mul
    nonZero := nonZeroBits
    ge := fun a b => decide (tcKey b ≤ tcKey a)
    pos := pos }

/-- `difficulty_value(current_strain_peaks, decay)`: what the crate computes on its own vector
(`retain_non_zero_and_sort`, `transmute_into_vec`, weighted loop). -/
def difficultyValueInternal (O : Ops Nat) (decay : Nat) (sv : SVec) : Nat :=
  weightedSum O decay (dvTerms sv)

/-- osu!'s variant on the crate's own vector (`sorted_non_zero_iter_mut().take(k)`, `sort_desc`,
`transmute_into_vec`, weighted loop). -/
def osuDifficultyValueInternal (O : Ops Nat) (factor : Nat → Nat) (k : Nat) (decay : Nat) (sv : SVec) : Nat :=
  weightedSum O decay (dvTermsOsu (fun i e => O.mul e (factor i)) k sv)

/-- `StrainsVec::sum` on the crate's own vector. -/
def flashlightValueInternal (O : Ops Nat) (sum0 : Nat) (sv : SVec) : Nat :=
  sv.sumTerms.foldl O.add sum0

/-- `combined_difficulty_value` on the crate's own four vectors: it walks them with
`StrainsVec::iter()` (zero runs re-expanded by `StrainsIter`); `none` = the iterator's `len`
bookkeeping underflowed (never for well-formed vectors, Lemmas/Aggregate.lean). -/
def taikoCombinedInternal (O : Ops Nat) (comb : Nat → Nat → Nat → Nat → Nat) (decay : Nat)
    (r rd c s : SVec) : Option Nat :=
  match r.iterCollect, rd.iterCollect, c.iterCollect, s.iterCollect with
  | some r', some rd', some c', some s' => some (taikoCombined O comb decay r' rd' c' s')
  | _, _, _, _ => none

/-- the `cap` the code computes from the four `len()`s -/
def taikoCapInternal (r rd c s : SVec) : Nat := min r.len (min rd.len (min c.len s.len))

end Rosu.Agg
