import RosuModel.Model.StrainsVec

/-
Executable model of the strain-section bookkeeping that `define_skill!` generates
(src/util/macros.rs, `@impl StrainSkill`): `process` (section loop), `save_current_peak`,
`start_new_section_from`, `into_current_strain_peaks` / `get_current_strain_peaks`
(src/any/difficulty/skills.rs), `difficulty_value` (src/any/difficulty/skills.rs),
`osu::difficulty::skills::strain::difficulty_value` and Flashlight's `sum`
(src/osu/difficulty/skills/{strain,flashlight}.rs).

Treatment of floating point (DESIGN.md section 3):
* strain *values* are opaque `f64` bit patterns (`Nat`) produced by abstract strain functions
  (`StrainFns`); the only operation the bookkeeping applies to them is `f64::max`, a parameter
  (`Arith.fmax`).
* section *times* are a type parameter `T` with the three operations the loop uses
  (`Arith`): theorems hold for every instance; the driver runs the `Float` instance (same IEEE
  operations in the same order as the Rust code) and the exact `Int` instance.
* the `while` loop takes a fuel argument; `none` = fuel exhausted.  For the `Int` instance a
  sufficient fuel is proved (Lemmas/Skill.lean).

Core Lean only.
-/

namespace Rosu.Skill
open Rosu.SV

/-- The arithmetic `process` performs. -/
structure Arith (T : Type) where
  /-- `f64::ceil(t / section_length) * section_length` -/
  ceilSec : T → T
  /-- `a > b` -/
  gt : T → T → Bool
  /-- `t + section_length` -/
  addSec : T → T
  /-- `f64::max` on bit patterns -/
  fmax : Nat → Nat → Nat

/-- What `process` reads of the current difficulty object (`curr.idx`, `curr.start_time`) plus
an opaque payload standing for everything the strain evaluators read. -/
structure Obj (T P : Type) where
  idx : Nat
  startTime : T
  data : P

/-- Abstract strain functions of one skill with private state `σ`
(`strain_value_at`, `calculate_initial_strain`); results are `f64` bit patterns. -/
structure StrainFns (T P σ : Type) where
  strainValueAt : σ → Obj T P → σ × Nat
  initialStrain : σ → T → Obj T P → σ × Nat

/-- The fields `define_skill!` adds for `StrainSkill`, plus the skill's own state. -/
structure State (T σ : Type) where
  sk : σ
  /-- `strain_skill_current_section_peak` (initially `0.0`) -/
  sectionPeak : Nat
  /-- `strain_skill_current_section_end` (initially `0.0`) -/
  sectionEnd : T
  /-- `strain_skill_strain_peaks` -/
  peaks : SVec
  /-- `strain_skill_object_strains` -/
  objectStrains : List Nat

def State.init {T σ} (zero : T) (s0 : σ) : State T σ := ⟨s0, 0, zero, SVec.empty, []⟩

variable {T P σ : Type}

/-- `while curr.start_time > self.strain_skill_current_section_end { save_current_peak();
start_new_section_from(section_end, curr, objects); section_end += section_length; }` -/
def sectionLoop (A : Arith T) (F : StrainFns T P σ) (o : Obj T P) : Nat → State T σ → Option (State T σ)
  | 0, st => if A.gt o.startTime st.sectionEnd then none else some st
  | fuel + 1, st =>
    if A.gt o.startTime st.sectionEnd then
      let peaks := st.peaks.push st.sectionPeak
      let r := F.initialStrain st.sk st.sectionEnd o
      sectionLoop A F o fuel
        { st with sk := r.1, sectionPeak := r.2, sectionEnd := A.addSec st.sectionEnd, peaks := peaks }
    else some st

/-- `StrainSkill::process(curr, objects)` -/
def process (A : Arith T) (F : StrainFns T P σ) (fuel : Nat) (st : State T σ) (o : Obj T P) :
    Option (State T σ) :=
  let st := if o.idx = 0 then { st with sectionEnd := A.ceilSec o.startTime } else st
  match sectionLoop A F o fuel st with
  | none => none
  | some st =>
    let r := F.strainValueAt st.sk o
    some { st with sk := r.1, sectionPeak := A.fmax r.2 st.sectionPeak,
                   objectStrains := st.objectStrains ++ [r.2] }

/-- `for curr in diff_objects { skill.process(curr, &diff_objects) }` -/
def processAll (A : Arith T) (F : StrainFns T P σ) (fuel : Nat) :
    State T σ → List (Obj T P) → Option (State T σ)
  | st, [] => some st
  | st, o :: os =>
    match process A F fuel st o with
    | none => none
    | some st => processAll A F fuel st os

/-- `into_current_strain_peaks` = `get_current_strain_peaks(peaks, current_section_peak)`:
the open section is pushed before either export or aggregation. -/
def currentStrainPeaks (st : State T σ) : SVec := st.peaks.push st.sectionPeak

/-- What `strains()` returns for the skill: `into_current_strain_peaks().into_vec()`. -/
def exportPeaks (st : State T σ) : Option (List Nat) := (currentStrainPeaks st).intoVec

/-! ## aggregation -/

/-- The list `difficulty_value` folds over: `retain_non_zero_and_sort` + `transmute_into_vec`. -/
def dvTerms (sv : SVec) : List Nat := sv.retainNonZeroAndSort.transmuteIntoVec

/-- The list `osu::…::strain::difficulty_value` folds over:
`sorted_non_zero_iter_mut().take(k)` overwritten with `f i old`, `sort_desc`, `transmute`. -/
def dvTermsOsu (f : Nat → Nat → Nat) (k : Nat) (sv : SVec) : List Nat :=
  (sv.sortedNonZeroUpdate f k).sortDesc.transmuteIntoVec

/-- Re-aggregation from the exported vector as documented: drop zeros, sort descending. -/
def dvTermsExported (v : List Nat) : List Nat := sortDescBits (v.filter nonZeroBits)

def dvTermsOsuExported (f : Nat → Nat → Nat) (k : Nat) (v : List Nat) : List Nat :=
  sortDescBits (mapPrefix f k (dvTermsExported v))

/-- `for strain in peaks { difficulty += strain * weight; weight *= decay_weight; }` over an
abstract arithmetic (`α` = `f64`). -/
def weightedFold {α : Type} (mulAdd : α → Nat → α → α) (mul : α → α → α) (zero one decay : α)
    (terms : List Nat) : α :=
  (terms.foldl (fun (acc : α × α) s => (mulAdd acc.1 s acc.2, mul acc.2 decay)) (zero, one)).1

/-! ## instances -/

/-- Exact integer times (ms) with section length `L > 0`:
`ceil(t / L) * L = t + ((-t) mod L)`. -/
def intArith (L : Int) : Arith Int :=
  { ceilSec := fun t => t + (-t) % L
    gt := fun a b => decide (a > b)
    addSec := fun t => t + L
    fmax := Nat.max }

/-- IEEE double times: the same operations in the same order as the Rust code.
`fmax` on bit patterns is `Nat.max`, valid for non-negative non-NaN strains (unsigned order of
the patterns = numeric order). -/
def floatArith (L : Float) : Arith Float :=
  { ceilSec := fun t => Float.ceil (t / L) * L
    gt := fun a b => a > b
    addSec := fun t => t + L
    fmax := Nat.max }

end Rosu.Skill
