import RosuModel.Model.DecodeBytes
import RosuModel.Model.Gradual
import RosuModel.Model.ManiaSkill
import RosuModel.Model.ClockRate

/-
Native osu!mania END TO END inside the model: from the bytes of the `.osu` file to the difficulty
attributes, and the gradual calculator next to it.  Composition of

  bytes ──`DecodeLine.fromBytes`──▶ `Decoded`            (worker DEC: reader, line parsers, clamps, sort)
        ──`prepare`──────────────▶ `ManiaObject`s         (`ManiaObject::new`: column from x and
                                                           `cs.round_ties_even().max(1.0)`, end time,
                                                           combo / hold-note increments)
        ──`ManiaSkill.calculate`─▶ strain skill state     (round 1: difficulty objects, `Strain`, section loop)
        ──`ManiaSkill.starsOf`───▶ stars                  (aggregation of Model/Aggregate.lean · 0.018)
        ──`Gradual.maniaOneShot`─▶ n_objects, n_hold_notes, max_combo   (C14's counting model)

and, for the gradual calculator, `Gradual.maniaMachine` instantiated with the CONCRETE skill.

Scope: files whose `Mode` is 3 (no conversion), settings = legacy mod bits (only DT / NC / HT / DC
change a mania difficulty result: clock rate) + optional custom clock rate + `passed_objects`;
no HoldOff / Invert / Random (lazer-only mods).  A slider line in a mania file makes
`ManiaObject::new` evaluate the slider's curve (`slider.curve(..).dist()`): curve mathematics is
outside the model, such files answer `unsupported`.

Generic in the `f64` arithmetic `FOps R`; the `f32` computations of the preparation (`cs`, x
positions, column) are a record of operations `PrepOps`.  Core Lean only.
-/

namespace Rosu.PipelineMania
open Rosu.SkillOps Rosu.DecodeLine Rosu.Decode
open Rosu.Skill (Obj)

/-- what the preparation needs besides `FOps R`: reinterpretation of bit patterns and the `f32`
operations of `ManiaObject::column` / `DifficultyValues::calculate` -/
structure PrepOps (R S : Type) where
  /-- `f64::from_bits` -/
  dec64 : Nat → R
  /-- `f32::from_bits` -/
  dec32 : Nat → S
  /-- `x as f32` for the `i32` position the decoder stored -/
  ofI32 : Int → S
  /-- `f32::round_ties_even` -/
  roundTiesEven : S → S
  /-- `f32::floor` -/
  floor : S → S
  /-- `x as usize` (`x: f32`): truncation, saturating, NaN ↦ 0 -/
  toUsize : S → Nat
  /-- `x as u32` (`x: f64`): truncation, saturating, NaN ↦ 0 -/
  toU32 : R → Nat

/-- inverse of `keyOfBits32` (the decoded difficulty settings are `total_cmp` keys) -/
def unkey32 (k : Int) : Nat := if k ≥ 0 then k.toNat else (2 ^ 31 + (-(k + 1)).toNat)

section
variable {R S : Type} [FOps R] [FOps S] (P : PrepOps R S)
open FOps

/-- `total_columns = map.cs.round_ties_even().max(1.0)` -/
def totalColumns (cs : S) : S := fmax (P.roundTiesEven cs) 1.0

/-- `ManiaObject::column(x, total_columns)`:
`let x_divisor = 512.0 / total_columns; (x / x_divisor).floor().min(total_columns - 1.0) as usize` -/
def column (x total : S) : Nat :=
  let xDivisor : S := 512.0 / total
  P.toUsize (fmin (P.floor (x / xDivisor)) (total - 1.0))

/-- one prepared object: what the skill reads and what the counting reads -/
structure Prepared (R : Type) where
  obj : ManiaSkill.MObj R
  count : Gradual.ManiaObj

/-- `ManiaObject::new(h, total_columns, params)`; `none` = a slider (curve mathematics) -/
def prepareOne (total : S) (h : HObj) : Option (Prepared R) :=
  let col := column P (P.ofI32 h.x) total
  let start := P.dec64 h.time
  match h.kind with
  | .circle => some ⟨⟨start, start, col⟩, ⟨true, 1⟩⟩
  | .slider _ _ _ _ => none
  | .spinner d | .hold d =>
    let duration := P.dec64 d
    some ⟨⟨start, start + duration, col⟩, ⟨false, 1 + P.toU32 (duration / 100.0)⟩⟩

def prepareAll (total : S) : List HObj → Option (List (Prepared R))
  | [] => some []
  | h :: t =>
    match prepareOne P total h, prepareAll total t with
    | some p, some l => some (p :: l)
    | _, _ => none

/-- `ManiaDifficultyAttributes` -/
structure Attrs (R : Type) where
  stars : R
  maxCombo : Nat
  nObjects : Nat
  nHoldNotes : Nat
  isConvert : Bool

/-- outcome of the pipeline -/
inductive Out (α : Type) where
  /-- `Beatmap::from_bytes` returned `Err(io::Error)` -/
  | ioError
  /-- the file is not a mania map (mode as decoded): outside this pipeline -/
  | notMania (mode : Nat)
  /-- a slider line: `ManiaObject::new` needs the slider's curve -/
  | unsupported
  /-- a Rust panic (proved impossible) / the section loop's fuel ran out -/
  | panic
  | fuel
  | ok (a : α)

/-- clock rate the calculation uses: `Difficulty::clock_rate(x)` stores `x.clamp(0.01, 100.0)`,
otherwise `GameModsLegacy::clock_rate`: 1.5 with DoubleTime (bit 64; Nightcore implies it), else
0.75 with HalfTime (bit 256), else 1.0 -/
def clockRateBits (mods : Nat) (custom : Option Nat) : Nat :=
  match custom with
  | some x => Rosu.ClockRate.clockRateBits x
  | none =>
    if mods / 64 % 2 = 1 then 0x3FF8000000000000
    else if mods / 256 % 2 = 1 then 0x3FE8000000000000
    else 0x3FF0000000000000

/-- the preparation of a decoded map: the prepared objects and `total_columns as usize` -/
def preparedOf (d : Decoded) : Out (List (Prepared R) × Nat) :=
  if d.mode ≠ 3 then .notMania d.mode
  else
    match d.objects with
    | none => .panic
    | some (objs, _) =>
      let total := totalColumns P (P.dec32 (unkey32 d.diff.cs))
      match prepareAll P total (objs.map (·.2)) with
      | none => .unsupported
      | some l => .ok (l, P.toUsize total)

/-- decode + prepare -/
def prepared (bytes : List UInt8) : Out (List (Prepared R) × Nat) :=
  match fromBytes bytes with
  | none => .ioError
  | some d => preparedOf P d

/-- attributes from the counting model and the final skill state -/
def attrsOf (c : Gradual.ManiaCounts) (st : StateV R (ManiaSkill.St R)) : Attrs R :=
  ⟨ManiaSkill.starsOf st, c.maxCombo, c.nObjects, c.nHoldNotes, false⟩

/-- the one-shot calculation on prepared objects: `mania::difficulty::difficulty` -/
def oneShot (A : SecArith R) (fuel : Nat) (rate : R) (cols : Nat) (take : Nat)
    (l : List (Prepared R)) : Out (Attrs R) :=
  let counts := (Gradual.maniaOneShot (⟨(), fun _ _ => ()⟩ : Gradual.Skills Unit) (l.map (·.count)) take).1
  match ManiaSkill.calculate A fuel rate cols take (l.map (·.obj)) with
  | .ok st => .ok (attrsOf counts st)
  | .panic => .panic
  | .fuel => .fuel

/-- **`maniaDifficulty bytes settings take`**: `Difficulty::new().mods(bits)[.clock_rate(x)]
[.passed_objects(take)].calculate_for_mode::<Mania>(&Beatmap::from_bytes(bytes)?)` -/
def maniaDifficulty (A : SecArith R) (fuel : Nat) (bytes : List UInt8) (mods : Nat)
    (customRate : Option Nat) (take : Option Nat) : Out (Attrs R) :=
  match prepared P bytes with
  | .ok (l, cols) =>
    oneShot A fuel (P.dec64 (clockRateBits mods customRate)) cols (take.getD (2 ^ 64 - 1)) l
  | .ioError => .ioError
  | .notMania m => .notMania m
  | .unsupported => .unsupported
  | .panic => .panic
  | .fuel => .fuel

/-! ## the gradual calculator with the concrete skill -/

/-- the skill of `ManiaGradualDifficulty`: the difficulty objects are created from ALL objects in
`new`; `next` processes `diff_objects[idx - 1]`.  A failure (panic / fuel) is absorbing. -/
def concreteSkills (A : SecArith R) (fuel : Nat) (rate : R) (cols : Nat) (objs : List (ManiaSkill.MObj R)) :
    Gradual.Skills (Res (StateV R (ManiaSkill.St R))) where
  init := .ok (StateV.init 0.0 (ManiaSkill.St.new cols))
  process s d :=
    s.bind fun st =>
      match (ManiaSkill.createDifficultyObjects rate objs)[d]? with
      | some o => processV A fmax ManiaSkill.fns fuel st o
      | none => .panic

/-- the values `ManiaGradualDifficulty::next` yields, in order (all `objs.length` of them) -/
def gradualValues (A : SecArith R) (fuel : Nat) (rate : R) (cols : Nat) (l : List (Prepared R)) :
    List (Out (Attrs R)) :=
  let sk := concreteSkills A fuel rate cols (l.map (·.obj))
  let objs := l.map (·.count)
  ((Gradual.maniaMachine sk objs).nexts (Gradual.maniaNew sk objs) objs.length).1.map fun r =>
    match r with
    | .some (c, .ok st) => .ok (attrsOf c st)
    | .some (_, .panic) => .panic
    | .some (_, .fuel) => .fuel
    | .none => .panic
    | .panic => .panic

end

end Rosu.PipelineMania
