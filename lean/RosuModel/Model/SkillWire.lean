import RosuModel.Model.ManiaSkill
import RosuModel.Model.CatchSkill
import RosuModel.Model.TaikoSkill
import RosuModel.Model.StarsWire

/-
Driver glue for the concrete skill models: the IEEE instances of `FOps` (binary64 = Lean `Float`,
binary32 = Lean `Float32`), the casts between them, and the `MSKILL` request.

`+ - * / sqrt`, comparisons, `abs`, casts are correctly rounded / exact IEEE operations on both
sides.  `powf` and `exp` are the C library's `pow` / `exp` on both sides (rustc lowers
`f64::powf/exp` to them).  Decimal literals are rounded ONCE from their exact value (`roundLit`),
as rustc does — not through `Float.ofScientific`, which rounds twice.

  MSKILL <clock_rate> <total_columns> <take|-> <start:end:column;…>
     → O<object strains> P<exported peaks> D<difficulty value> S<stars> X<bit-level view agrees>
  CSKILL <clock_rate> <cs (f32)> <take|-> <x:x_offset:start_time;…>   (x, x_offset: f32 patterns)
     → W<half catcher width (f32)> H<hyper-dash flag per palpable object> G<dist_to_hyper_dash per
       object (f32)> O<object strains> P<exported peaks> D<difficulty value> S<stars> X<…>
-/
namespace Rosu.SkillWire
open Rosu.Wire Rosu.SV Rosu.Skill Rosu.SkillOps Rosu.StrainsWire

/-- The binary floating-point number with `p` significant bits nearest to `n / d` (`d > 0`), ties
to even, as a double (exact for `p ≤ 53`); normal range only (all literals are). -/
def roundLit (p : Nat) (n d : Nat) : Float :=
  if n == 0 then 0.0
  else
    let sh : Int := (p + 1 : Nat) - (n.log2 : Int) + (d.log2 : Int)
    let (num, den) : Nat × Nat := if sh ≥ 0 then (n <<< sh.toNat, d) else (n, d <<< (-sh).toNat)
    let q := num / den
    let r := num % den
    let extra := q.log2 - (p - 1)
    let mant := q >>> extra
    let rem := q % (2 ^ extra)
    let half := 2 ^ (extra - 1)
    let roundUp : Bool :=
      if rem > half then true else if rem < half then false else (r != 0 || mant % 2 == 1)
    let mant := if roundUp then mant + 1 else mant
    Float.scaleB mant.toFloat ((extra : Int) - sh)

def litOf (p : Nat) (m : Nat) (s : Bool) (e : Nat) : Float :=
  if s then roundLit p m (10 ^ e) else roundLit p (m * 10 ^ e) 1

def signBit64 (x : Float) : Bool := x.toBits >>> 63 == 1
def signBit32 (x : Float32) : Bool := x.toBits >>> 31 == 1

/-- `f64::powf` as compiled: LLVM's libcall simplifier rewrites `pow(C, x)` with a constant base
`C = 2^n` (`|n| ≥ 1`) into `exp2(n * x)` — no fast-math flag needed —, so `0.125f64.powf(x)`
(mania's `INDIVIDUAL_DECAY_BASE`, the only power-of-two base in the two skills) is executed as
`exp2(-3.0 * x)`; every other call reaches the C library's `pow`. -/
def powf64 (a b : Float) : Float :=
  if a == 0.125 then Float.exp2 (b * -3.0)
  else if b == 2.0 then a * a  -- `pow(x, 2.0) -> x * x`, same simplifier, unconditional
  else Float.pow a b

instance : FOps Float where
  ofScientific m s e := litOf 53 m s e
  add := Float.add
  sub := Float.sub
  mul := Float.mul
  div := Float.div
  neg := Float.neg
  lt a b := a < b
  le a b := a ≤ b
  beq a b := a == b
  fmax a b := if a.isNaN then b else if b.isNaN then a else if a < b then b else a
  fmin a b := if a.isNaN then b else if b.isNaN then a else if b < a then b else a
  abs := Float.abs
  sqrt := Float.sqrt
  powf := powf64
  exp := Float.exp
  cos := Float.cos
  isNormal x := x.isFinite && x.abs ≥ Float.ofBits 0x0010000000000000
  ofInt := Float.ofInt
  signum x := if x.isNaN then x else if signBit64 x then -1.0 else 1.0
  storable x := isValueBits x.toBits.toNat
  isNonZero x := x.toBits != 0
  totalGe a b := decide (tcKey b.toBits.toNat ≤ tcKey a.toBits.toNat)

instance : FOps Float32 where
  ofScientific m s e := (litOf 24 m s e).toFloat32
  add := Float32.add
  sub := Float32.sub
  mul := Float32.mul
  div := Float32.div
  neg := Float32.neg
  lt a b := a < b
  le a b := a ≤ b
  beq a b := a == b
  fmax a b := if a.isNaN then b else if b.isNaN then a else if a < b then b else a
  fmin a b := if a.isNaN then b else if b.isNaN then a else if b < a then b else a
  abs := Float32.abs
  sqrt := Float32.sqrt
  powf := Float32.pow
  exp := Float32.exp
  cos := Float32.cos
  isNormal x := x.isFinite && x.abs ≥ Float32.ofBits 0x00800000
  ofInt n := (Float.ofInt n).toFloat32
  signum x := if x.isNaN then x else if signBit32 x then -1.0 else 1.0
  -- the three `StrainsVec` operations exist for `f64` only
  storable x := x.toBits != 0 && !signBit32 x
  isNonZero x := x.toBits != 0
  totalGe a b := decide (tcKey b.toFloat.toBits.toNat ≤ tcKey a.toFloat.toBits.toNat)

/-- `x as i32` (`x: f64`): saturating, NaN ↦ 0 -/
def f64ToI32 (x : Float) : Int :=
  if x.isNaN then 0
  else if x <= -2147483648.0 then -2147483648
  else if x >= 2147483647.0 then 2147483647
  else x.toInt64.toInt

def ieeeCasts : Casts Float Float32 where
  toF x := x.toFloat
  toS x := x.toFloat32
  toI32 := f64ToI32
  ofI32 n := (Float.ofInt n).toFloat32  -- |n| < 2^31 is exact in f64; one rounding to f32

/-- section arithmetic on IEEE doubles: `ceil(t / L) * L`, `>`, `+ L` -/
def secArith (L : Float) : SecArith Float :=
  { ceilSec := fun t => Float.ceil (t / L) * L
    gt := fun a b => a > b
    addSec := fun t => t + L }

def bitsEnc : Enc Float := ⟨bitsOf, fOf⟩

def driverFuel : Nat := 400000

def showFs (l : List Float) : String := showHexList (l.map bitsOf)

def showRes {α : Type} (r : Res α) (f : α → String) : String :=
  match r with
  | .ok a => f a
  | .panic => "PANIC"
  | .fuel => "FUEL"

/-- the bit-level view (`Skill.processAll` over `encFns`) exports the same vector -/
def bitViewAgrees {P σ : Type} (A : SecArith Float) (F : FnsV Float P σ) (s0 : σ)
    (objs : List (Obj Float P)) (want : List Nat) : Bool :=
  match Skill.processAll (encArith bitsEnc A FOps.fmax) (encFns bitsEnc F) driverFuel
      (Skill.State.init 0.0 (some s0)) objs with
  | none => false
  | some st => st.sk.isSome && Skill.exportPeaks st == some want

def parseMObj (s : String) : Option (ManiaSkill.MObj Float) :=
  match s.splitOn ":" with
  | [a, b, c] => some ⟨fOf (hexToNat a), fOf (hexToNat b), nat! c⟩
  | _ => none

def takeOf (s : String) : Nat := if s == "-" then 1000000000000 else nat! s

/-- `MSKILL <clock_rate> <total_columns> <take|-> <objects>` -/
def handleMSKILL (rate cols take objs : String) : String :=
  let parsed := (splitList objs ";").map parseMObj
  if parsed.any Option.isNone then "bad-mskill"
  else
    let os := parsed.filterMap id
    let rate := fOf (hexToNat rate)
    let cols := nat! cols
    let A := secArith 400.0
    showRes (ManiaSkill.calculate A driverFuel rate cols (takeOf take) os) fun st =>
      let peaks := (exportPeaksV st).map bitsOf
      let dv := ManiaSkill.difficultyValueOf st
      let stars := ManiaSkill.starsOf st
      -- cross-checks: the bit-level view of Model/Skill.lean + Model/StarsWire.lean
      let x := bitViewAgrees A ManiaSkill.fns (ManiaSkill.St.new cols)
          (ManiaSkill.createDifficultyObjects rate (os.take (takeOf take))) peaks
        && bitsOf (StarsWire.maniaStars peaks) == bitsOf stars
      s!"O{showFs st.objectStrains} P{showHexList peaks} D{StarsWire.showZ dv} S{StarsWire.showZ stars} X{if x then 1 else 0}"

def s32 (s : String) : Float32 := Float32.ofBits (UInt32.ofNat (hexToNat s))

def hex8 (n : Nat) : String :=
  String.ofList ((List.range 8).reverse.map fun i => hexChar ((n / 16 ^ i) % 16))

def show32 (x : Float32) : String := if x.isNaN then "nan" else hex8 x.toBits.toNat

def parsePalpable (s : String) : Option (CatchSkill.Palpable Float Float32) :=
  match s.splitOn ":" with
  | [a, b, c] => some (CatchSkill.Palpable.new (s32 a) (s32 b) (fOf (hexToNat c)))
  | _ => none

/-- `CSKILL <clock_rate> <cs> <take|-> <objects>` -/
def handleCSKILL (rate cs take objs : String) : String :=
  let parsed := (splitList objs ";").map parsePalpable
  if parsed.any Option.isNone then "bad-cskill"
  else
    let os := parsed.filterMap id
    let rate := fOf (hexToNat rate)
    let cs := s32 cs
    let A := secArith 750.0
    let C := ieeeCasts
    showRes (CatchSkill.calculate C A driverFuel rate cs (takeOf take) os) fun (palpable, st) =>
      let hcw := CatchSkill.halfCatcherWidth C cs
      let peaks := (exportPeaksV st).map bitsOf
      let dv := CatchSkill.difficultyValueOf st
      let stars := CatchSkill.starsOf st
      let x := bitViewAgrees A (CatchSkill.fns C hcw rate) CatchSkill.St.new
          (CatchSkill.createDifficultyObjects rate hcw (palpable.take (takeOf take))) peaks
        && bitsOf (StarsWire.catchStars peaks) == bitsOf stars
      let h := String.ofList (palpable.map fun p => if p.hyperDash then '1' else '0')
      let g := joinWith ";" (palpable.map fun p => show32 p.distToHyperDash)
      s!"W{show32 hcw} H{if palpable.isEmpty then "-" else h} G{if palpable.isEmpty then "-" else g} O{showFs st.objectStrains} P{showHexList peaks} D{StarsWire.showZ dv} S{StarsWire.showZ stars} X{if x then 1 else 0}"

/-! ### taiko -/

def optF (s : String) : Option Float := if s == "-" then none else some (fOf (hexToNat s))
def optN (s : String) : Option Nat := if s == "-" then none else some (nat! s)

def parseAlt (a r : String) : Option (Nat × Option Nat) :=
  if a == "-" then none else some (nat! a, optN r)

def parseRhythmGroup (s : String) : Option (Option (TaikoSkill.RhythmGroup Float)) :=
  if s == "-" then some none
  else match s.splitOn ":" with
    | [ratio, len, dur, chain] =>
      let ch := (if chain == "e" then [] else chain.splitOn "/").map fun t => if t == "n" then none else some (fOf (hexToNat t))
      some (some ⟨fOf (hexToNat ratio), nat! len, optF dur, ch⟩)
    | _ => none

def parseTRec (i : Nat) (s : String) : Option (TaikoSkill.TObj Float) :=
  match s.splitOn "," with
  | [start, delta, hit, bpm, ratio, p1, p2, mi, pm2, pm8, pcc, ncc, mf, af, rf, rh, pr] =>
    match parseRhythmGroup rh, mf.splitOn ":", af.splitOn ":" with
    | some g, [m, ma, mr], [a, ar] =>
      some { idx := i, startTime := fOf (hexToNat start),
             data := { isHit := bool! hit, deltaTime := fOf (hexToNat delta), effectiveBpm := fOf (hexToNat bpm),
                       ratio := fOf (hexToNat ratio), prevStart := optF p1, prev2Start := optF p2,
                       monoIndex := nat! mi, prevMono2 := optF pm2, prevMono8 := optF pm8,
                       prevColorChange := optF pcc, nextColorChange := optF ncc,
                       monoFirst := if m == "-" then none else some (nat! m, parseAlt ma mr),
                       altFirst := parseAlt a ar, repFirst := optN rf, rhythmFirst := g,
                       patternFirstRatio := optF pr } }
    | _, _, _ => none
  | _ => none

def canonList (l : List Float) : List Nat := l.map bitsOf

/-- `TSKILL <sum0> <great hit window> <rx><convert> <n_processed> <records>` →
per-object strains and exported peaks of the five skill instances, then the ratings and stars
`DifficultyValues::eval` derives from them (`StarsWire.taikoEval`) -/
def handleTSKILL (sum0 hw flags n recs : String) : String :=
  let toks := splitList recs ";"
  let parsed := (List.range toks.length).zip toks |>.map fun (i, t) => parseTRec i t
  if parsed.any Option.isNone then "bad-tskill"
  else
    let os := parsed.filterMap id
    let rx := StarsWire.flag flags 0
    let conv := StarsWire.flag flags 1
    showRes (TaikoSkill.calculate (secArith 400.0) driverFuel (fOf (hexToNat hw)) conv (nat! n) os) fun sk =>
      let pr := canonList (exportPeaksV sk.rhythm)
      let pd := canonList (exportPeaksV sk.reading)
      let pc := canonList (exportPeaksV sk.color)
      let ps := canonList (exportPeaksV sk.stamina)
      let pm := canonList (exportPeaksV sk.singleColorStamina)
      let o := StarsWire.taikoEval (hexToNat sum0) rx conv pr pd pc ps pm (sk.stamina.objectStrains.map bitsOf)
      s!"R{showFs sk.rhythm.objectStrains} D{showFs sk.reading.objectStrains} C{showFs sk.color.objectStrains} T{showFs sk.stamina.objectStrains} M{showFs sk.singleColorStamina.objectStrains} " ++
      s!"PR{showHexList pr} PD{showHexList pd} PC{showHexList pc} PT{showHexList ps} PM{showHexList pm} " ++
      s!"R{StarsWire.showZ o.rhythm} D{StarsWire.showZ o.reading} C{StarsWire.showZ o.color} T{StarsWire.showZ o.stamina} M{StarsWire.showZ o.monoStaminaFactor} S{StarsWire.showZ o.stars}"

end Rosu.SkillWire
