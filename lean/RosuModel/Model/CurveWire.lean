import RosuModel.Model.Curve
import RosuModel.Model.SliderEventsWire

/-
Driver glue for `Model/Curve.lean`: the arithmetic is instantiated with IEEE `Float32` / `Float`,
which replays rosu-map's curve computation operation by operation (x86-64: no fused multiply-add,
`f32` operations are single roundings).  libm calls (`acosf`, `atan2`, `sin`, `cos`) go to the same
system libm the Rust side links.  Floats cross the boundary as bit patterns (a NaN as `nan`).
-/
namespace Rosu.Curve.Wire
open Rosu.Wire Rosu.Curve

def f32 (bits : Nat) : Float32 := Float32.ofBits bits.toUInt32
def f64 (bits : Nat) : Float := Float.ofBits bits.toUInt64

/-- `x.ceil() as usize`: saturating, NaN ↦ 0. -/
def ceilUsize (x : Float) : Nat :=
  let c := x.ceil
  if c.isNaN then 0
  else if c <= 0.0 then 0
  else if c >= 18446744073709551615.0 then 18446744073709551615
  else c.toUInt64.toNat

/-- IEEE single / double arithmetic, as `rustc` compiles the operations. -/
def ieee : Arith Float32 Float where
  sOfInt n := Float32.ofInt n
  sNeg x := -x
  sAdd x y := x + y
  sSub x y := x - y
  sMul x y := x * y
  sDiv x y := x / y
  sAbs x := x.abs
  sLt x y := x < y
  sLe x y := x <= y
  sEq x y := x == y
  sAcos x := x.acos
  dOfInt n := Float.ofInt n
  dAdd x y := x + y
  dSub x y := x - y
  dMul x y := x * y
  dDiv x y := x / y
  dAbs x := x.abs
  dLt x y := x < y
  dLe x y := x <= y
  dSqrt x := x.sqrt
  dAtan2 y x := Float.atan2 y x
  dSin x := x.sin
  dCos x := x.cos
  dCeilUsize := ceilUsize
  dPi := Float.ofBits 0x400921FB54442D18
  toD x := x.toFloat
  toS x := x.toFloat32

/-- Fuel of the loops in the driver (the loops of the code have none). -/
def driverFuel : Nat := 4000000

def showS (x : Float32) : String := if x.isNaN then "nan" else toString x.toBits.toNat
def showD (x : Float) : String := if x.isNaN then "nan" else toString x.toBits.toNat
def showPos (p : Pos Float32) : String := s!"{showS p.x}:{showS p.y}"

def showErr : Err → String
  | .oob => "PANIC:oob"
  | .underflow => "PANIC:underflow"
  | .unreachable => "PANIC:unreachable"
  | .fuel => "FUEL"

def parseSpline (s : String) : Option Spline :=
  if s == "C" then some .catmull else if s == "B" then some .bspline
  else if s == "L" then some .linear else if s == "P" then some .perfect else none

def parseCP (s : String) : CP Float32 :=
  match s.splitOn ":" with
  | [x, y, t] => { pos := ⟨f32 (nat! x), f32 (nat! y)⟩, ty := parseSpline t }
  | _ => { pos := ⟨0.0, 0.0⟩, ty := none }

def parsePos (s : String) : Pos Float32 :=
  match s.splitOn ":" with
  | [x, y] => ⟨f32 (nat! x), f32 (nat! y)⟩
  | _ => ⟨0.0, 0.0⟩

def showCurve (c : Curve Float32 Float) (progress : List Float) : String :=
  let verts := SliderEvents.showLong (c.path.toList.map showPos)
  let lens := SliderEvents.showLong (c.lengths.toList.map showD)
  let pos := progress.map fun p =>
    match positionAt ieee c p with
    | .ok q => showPos q
    | .error e => showErr e
  s!"{verts}|{lens}|{showD (dist ieee c.lengths)}|{joinWith ";" pos}"

/-- `CURVE <mode 0..3> <control points x:y:type;…> <expected_dist bits or -> <stale path x:y;… or ->
<progress values as f64 bits, comma separated>` → vertices, cumulative lengths, `dist()`,
`position_at(p)` for every progress value. -/
def handleCURVE (mode cps expected prev progress : String) : String :=
  let pts := ((splitList cps ";").map parseCP).toArray
  let exp : Option Float := (optNat expected).map f64
  let prevPath := ((splitList prev ";").map parsePos).toArray
  let ps := (natList progress).map f64
  match curveNew ieee driverFuel (mode == "0") pts exp prevPath emptyBez with
  | .error e => showErr e
  | .ok (c, _) => showCurve c ps

/-- `CURVES <mode> <slider>/<slider>/… <progress>` with `<slider> = <control points>@<expected>`:
a sequence of `BorrowedCurve::new` calls on ONE `CurveBuffers` (what the converters of rosu-pp do):
the bezier buffers and the stale `path` are carried from slider to slider. One response per slider,
separated by `/`. -/
def handleCURVES (mode sliders progress : String) : String :=
  let ps := (natList progress).map f64
  let rec go (l : List String) (prev : Array (Pos Float32)) (bez : Bez Float32) : List String :=
    match l with
    | [] => []
    | s :: rest =>
      match s.splitOn "@" with
      | [cps, expected] =>
        let pts := ((splitList cps ";").map parseCP).toArray
        let exp : Option Float := (optNat expected).map f64
        match curveNew ieee driverFuel (mode == "0") pts exp prev bez with
        | .error e => [showErr e]
        | .ok (c, bez) => showCurve c ps :: go rest c.path bez
      | _ => ["bad-slider"]
  joinWith "/" (go (sliders.splitOn "/") #[] emptyBez)

end Rosu.Curve.Wire
