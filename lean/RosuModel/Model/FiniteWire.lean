import RosuModel.Model.Finite
import RosuModel.Model.AttrsWire
import RosuModel.Model.Wire

/-!
Driver glue for C09: request lines → what `Model/Finite.lean` predicts.

Exact rationals are printed as `num/den`; the implementation's f64 is compared numerically by
`./check` (`"compare": "numeric"` in tools/props/C09.json).  f64 inputs arrive as IEEE bit
patterns and denote the rationals they are.
-/
namespace Rosu.Finite
open Rosu.Wire
open Rosu.Attrs (hexNat f64ToRat showRat)

def parseOsuState (s : String) : OsuState :=
  match natList s with
  | [mc, lt, st, se, a, b, c, d] => ⟨mc, lt, st, se, a, b, c, d⟩
  | _ => default

def parseOrigin (s : String) : OsuOrigin :=
  match s.splitOn ":" with
  | ["A", a, b] => .withSliderAcc (nat! a) (nat! b)
  | ["N", a, b] => .withoutSliderAcc (nat! a) (nat! b)
  | _ => .stable

/-- IEEE double bits → abstract value -/
def xfOfBits (bits : Nat) : XF :=
  let e := (bits >>> 52) % 2048
  let m := bits % (2 ^ 52)
  if e = 2047 then
    if m ≠ 0 then .nan else if (bits >>> 63) % 2 = 1 then .ninf else .pinf
  else .fin (f64ToRat bits)

def showXF : XF → String
  | .fin q => showRat q
  | .pinf => "+inf"
  | .ninf => "-inf"
  | .nan => "nan"

def showOptRat : Option Rat → String
  | some q => showRat q
  | none => "div0"

def ratOfFloat (f : Float) : String :=
  if f.isNaN then "nan"
  else if f.isInf then (if f > 0.0 then "+inf" else "-inf")
  else showRat (f64ToRat f.toBits.toNat)

/-- integer square root by bisection: greatest `r` with `r² ≤ n` -/
def isqrt (n : Nat) : Nat :=
  let rec go (fuel lo hi : Nat) : Nat :=
    match fuel with
    | 0 => lo
    | fuel + 1 =>
      if hi ≤ lo + 1 then lo
      else
        let mid := (lo + hi) / 2
        if mid * mid ≤ n then go fuel mid hi else go fuel lo mid
  go 400 0 (n + 1)

/-- a rational `s ≥ sqrt r` with `s − sqrt r ≤ 10⁻¹⁵` (`r ≥ 0`) -/
def sqrtUpper (r : Rat) : Rat :=
  let scale : Nat := 10 ^ 30
  let n : Nat := ((r * (scale : Rat)).ceil).toNat
  mkRat (isqrt n + 1) (10 ^ 15)

/-- 99% critical value as the rational the f64 literal `2.32634787404` denotes (up to 1e-16) -/
def zCrit : Rat := 232634787404 / 100000000000

def handleFinite (args : List String) : String :=
  match args with
  | ["ACCO", o, st] => s!"acc={showRat ((parseOsuState st).accuracy (parseOrigin o))}"
  | ["ACCW", st] => s!"acc={showRat (parseOsuState st).accuracyStableWrapped}"
  | ["ACCN", o, st] => s!"acc={showRat ((parseOsuState st).noComboAccuracy (parseOrigin o))}"
  | ["ACCT", st] =>
    match natList st with
    | [a, b, c] => s!"acc={showRat (TaikoState.accuracy ⟨0, a, b, c⟩)}"
    | _ => "bad"
  | ["ACCC", st] =>
    match natList st with
    | [f, d, t, tm, m] => s!"acc={showRat (CatchState.accuracy ⟨0, f, d, t, tm, m⟩)}"
    | _ => "bad"
  | ["ACCM", cl, st] =>
    match natList st with
    | [a, b, c, d, e, f] => s!"acc={showRat (ManiaState.accuracy ⟨a, b, c, d, e, f⟩ (bool! cl))}"
    | _ => "bad"
  | ["EMC", classic, cnt, st] =>
    match natList cnt with
    | [ns, nlt, mc] =>
      match effectiveMissCount ⟨ns, nlt, mc⟩ (parseOsuState st) (bool! classic) with
      | some e => s!"emc={showRat e}"
      | none => "emc=underflow"
    | _ => "bad"
  | ["DVQ", w, peaks] =>
    let ps := (splitList peaks ",").map fun h => f64ToRat (hexNat h)
    s!"dv={showRat (difficultyValue (f64ToRat (hexNat w)) ps)}"
  | ["CTW", dv, strains] =>
    let ss := (splitList strains ",").map fun h => Float.ofBits (UInt64.ofNat (hexNat h))
    match countTopG floatCtwOps ss (Float.ofBits (UInt64.ofNat (hexNat dv))) with
    | some c => s!"count={ratOfFloat c}"
    | none => "count=div0"
  | ["RLERP", x, a, b] =>
    let (x, a, b) := (f64ToRat (hexNat x), f64ToRat (hexNat a), f64ToRat (hexNat b))
    s!"rl={showOptRat (reverseLerp x a b)} ss={showOptRat (smoothstep x a b)} sss={showOptRat (smootherstep x a b)}"
  | ["LERP", a, b, t] =>
    s!"lerp={showRat (lerp (f64ToRat (hexNat a)) (f64ToRat (hexNat b)) (f64ToRat (hexNat t)))}"
  | ["ERFINV", z] =>
    -- the interior is `erf_inv_impl`; its sign is that of the argument (odd function)
    let impl : Rat → XF := fun q => .fin (if q < 0 then -1 else 1)
    match xfOfBits (hexNat z), erfInv impl (xfOfBits (hexNat z)) with
    | _, .nan => "nan"
    | _, .pinf => "+inf"
    | _, .ninf => "-inf"
    | .fin q, .fin r => if q = 0 then "zero" else if r < 0 then "impl:neg" else "impl:pos"
    | _, .fin _ => "?"
  | ["TKG", st, ghw] =>
    match natList st with
    | [a, b, c] =>
      let s : TaikoState := ⟨0, a, b, c⟩
      let g : XF := if bool! ghw then .fin 1 else .fin 0
      let dev := taikoDeviation true (fun _ => .fin 1) s g (.fin (1 / 2)) 1
      -- bodies return a non-zero value: a zero result can only come from the guards
      let out := taikoCalculate id id s g dev (fun _ => .fin 1) (fun _ => .fin 1) 1
      let zero := out.pp == .fin 0 && out.ppAcc == .fin 0 && out.ppDifficulty == .fin 0
      s!"eur={if out.estimatedUnstableRate.isSome then "some" else "none"} zero={if zero then "1" else "?"}"
    | _ => "bad"
  | ["ZPP", mode, total] =>
    let t := nat! total
    let zero : Bool :=
      if mode == "osu" then osuPP ⟨0, 0, 0, 0, t, 0, 0, 0⟩ (.fin 1) == .fin 0
      else if mode == "catch" then
        catchPP (fun q => .fin q) ⟨0, t, 0, 0, 0, 0⟩ ⟨.fin 1, .fin 1, .fin 1, .fin 1, .fin 1, .fin 1, .fin 1, .fin 1⟩ == .fin 0
      else (maniaPP ⟨t, 0, 0, 0, 0, 0⟩ (.fin 1) 1).1 == .fin 0
    s!"zero={if zero then "1" else "?"}"
  | ["WILSON", n, n300] =>
    let n : Rat := (nat! n : Nat)
    let p : Rat := (nat! n300 : Nat) / n
    let sq := sqrtUpper (wilsonRadicand n p zCrit)
    let lo := pLowerBound n p zCrit sq
    -- `sq` over-estimates the root, so `lo` under-estimates the bound; the bound is below
    -- `(n·p + z²/2)/(n + z²) < 1` whatever the root
    let inside := decide (0 < lo) && decide ((n * p + zCrit * zCrit / 2) / (n + zCrit * zCrit) < 1)
    s!"inside={if inside then "1" else "0"}"
  | _ => "bad-finite"

end Rosu.Finite
