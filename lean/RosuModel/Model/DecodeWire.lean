import RosuModel.Model.Decode
import RosuModel.Model.ConvertWF
import RosuModel.Model.Wire

/-
Driver glue for the sort / decode / convert models: request lines → response lines.
Floats cross the boundary as bit patterns (decimal `u64`/`u32`).
-/
namespace Rosu.Decode
open Rosu.Wire Rosu.Sort

def showNats (l : List Nat) : String := if l.isEmpty then "-" else joinWith "," (l.map toString)

/-- inverse of `keyOfBits64` -/
def bitsOfKey64 (k : Int) : Nat := if k ≥ 0 then k.toNat else (2 ^ 63 + (-(k + 1)).toNat)

def bitsOfKey32 (k : Int) : Nat := if k ≥ 0 then k.toNat else (2 ^ 31 + (-(k + 1)).toNat)

/-- `TANDEM <time bits> <payload>`: builds the sorter from the times and applies it to the times,
to the payload and to `0..n` (three uses of one sorter). -/
def handleTandem (keys payload : String) : String :=
  let bits := natList keys
  let pay := natList payload
  let ks := bits.map keyOfBits64
  let s0 := Tandem.newStable ks
  match s0.sort bits with
  | none => "P"
  | some (s1, a) =>
    match s1.sort pay with
    | none => "P"
    | some (s2, b) =>
      match s2.sort (List.range bits.length) with
      | none => "P"
      | some (_, c) => showNats a ++ "|" ++ showNats b ++ "|" ++ showNats c

/-- `LEGACY <depth> <time bits>`: `osu_legacy::sort` on objects `(time, tag = position)`. -/
def handleLegacy (depth keys : String) : String :=
  let bits := natList keys
  let objs := (bits.map keyOfBits64).zipIdx
  match legacySortDepth objGt objLt (nat! depth) objs with
  | none => "P"
  | some r => showNats (r.map (·.2))

/-- `LEGACYFB <time bits>`: is the heap-sort fallback reached? -/
def handleLegacyFb (keys : String) : String :=
  let objs := ((natList keys).map keyOfBits64).zipIdx
  if legacyReachesFallback objGt objLt objs then "1" else "0"

/-- `DECODE <mania> <time bits> <tags> <sounds>` → `tags|sounds` after `From<BeatmapState>`. -/
def handleDecode (mania times tags sounds : String) : String :=
  let objs := ((natList times).map keyOfBits64).zip (natList tags)
  match sortObjects (bool! mania) objs (natList sounds) with
  | none => "P"
  | some (o, s) => showNats (o.map (·.2)) ++ "|" ++ showNats s

/-- `CLAMP <mania> <hp,cs,od,ar bits32> <sm,tr bits64>` -/
def handleClamp (mania f32s f64s : String) : String :=
  match natList f32s, natList f64s with
  | [hp, cs, od, ar], [sm, tr] =>
    let d := clampDiff (bool! mania)
      ⟨keyOfBits32 hp, keyOfBits32 cs, keyOfBits32 od, keyOfBits32 ar, keyOfBits64 sm, keyOfBits64 tr⟩
    showNats [bitsOfKey32 d.hp, bitsOfKey32 d.cs, bitsOfKey32 d.od, bitsOfKey32 d.ar] ++ " " ++
      showNats [bitsOfKey64 d.sm, bitsOfKey64 d.tr]
  | _, _ => "bad-clamp"

/-! control points: values are carried as bit patterns; the `FloatExt` predicates are replayed
with IEEE doubles -/

def fl (bits : Nat) : Float := Float.ofBits bits.toUInt64

/-- `f64::EPSILON` -/
def eps : Float := Float.ofBits 0x3CB0000000000000

/-- `FloatExt::not_eq`: `(a - b).abs() >= EPS` -/
def fNotEq (a b : Float) : Bool := (a - b).abs >= eps

/-- `FloatExt::eq`: `(a - b).abs() <= EPS` -/
def fEq (a b : Float) : Bool := (a - b).abs <= eps

/-- difficulty point value: slider_velocity bits, bpm_multiplier bits, generate_ticks -/
abbrev DVal := Nat × Nat × Bool
/-- effect point value: kiai, scroll_speed bits -/
abbrev EVal := Bool × Nat

def one64 : Nat := 0x3FF0000000000000

def drvParams : CPParams DVal EVal where
  timeNe a b := fNotEq (fl (bitsOfKey64 a)) (fl (bitsOfKey64 b))
  dRedundant a b := a.2.2 == b.2.2 && fEq (fl a.1) (fl b.1)
  dDefault := (one64, one64, true)
  eRedundant a b := a.1 == b.1 && fEq (fl a.2) (fl b.2)
  eDefault := (false, one64)

/-- `time:tc:beatlen:sv:bpm:gen:kiai:scroll` -/
def parseLine (s : String) : Line Nat DVal EVal :=
  match s.splitOn ":" with
  | [t, tc, bl, sv, bpm, g, k, sc] =>
    ⟨keyOfBits64 (nat! t), bool! tc, nat! bl, (nat! sv, nat! bpm, bool! g), (bool! k, nat! sc)⟩
  | _ => ⟨0, false, 0, (0, 0, false), (false, 0)⟩

def b01 (b : Bool) : String := if b then "1" else "0"

/-- `CPTS <lines ;-separated>` → `T…|D…|E…` -/
def handlePoints (lines : String) : String :=
  let ls := (splitList lines ";").map parseLine
  let s := decodePoints drvParams ls
  let showL (l : List String) := if l.isEmpty then "-" else joinWith ";" l
  showL (s.timing.map fun p => s!"{bitsOfKey64 p.1}:{p.2}") ++ "|" ++
  showL (s.difficulty.map fun p => s!"{bitsOfKey64 p.1}:{p.2.1}:{p.2.2.1}:{b01 p.2.2.2}") ++ "|" ++
  showL (s.effect.map fun p => s!"{bitsOfKey64 p.1}:{b01 p.2.1}:{p.2.2}")

def int! (s : String) : Int := s.toInt?.getD 0

/-- `COL <total> <x…>` → columns -/
def handleCol (total xs : String) : String :=
  showNats ((splitList xs ",").map fun x => ConvertWF.column (int! x) (nat! total))

/-- `C2P <total>` → `column_to_pos(c, total)` for `c = 0..total-1` -/
def handleC2P (total : String) : String :=
  let t := nat! total
  showNats ((List.range t).map fun c => ConvertWF.columnToPos c t)

/-- `C2PSET <total> <x…>`: for each generated x the column `c` with `column_to_pos(c, total) = x`
(`X` if `x` is not a column position). -/
def handleC2PSet (total xs : String) : String :=
  let t := nat! total
  joinWith "," ((splitList xs ",").map fun x =>
    match (List.range t).find? (fun c => (ConvertWF.columnToPos c t : Int) == int! x) with
    | some c => toString c
    | none => "X")

/-- `TCOL <keys|-> <rcs> <rod> <count> <len>` -/
def handleTargetColumns (keys rcs rod count len : String) : String :=
  toString (ConvertWF.targetColumns (optNat keys) (int! rcs) (int! rod) (nat! count) (nat! len))

end Rosu.Decode
