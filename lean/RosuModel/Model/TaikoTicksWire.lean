import RosuModel.Model.TaikoTicks
import RosuModel.Model.Decode
import RosuModel.Model.Wire

/-
Driver glue for `Model/TaikoTicks.lean`: the arithmetic is instantiated with IEEE doubles, which
replays the `f64` computation of `taiko::convert` operation by operation.  Floats cross the
boundary as bit patterns.
-/
namespace Rosu.TaikoTicks
open Rosu.Wire Rosu.Decode

def flt (bits : Nat) : Float := Float.ofBits bits.toUInt64

/-- `f64::min`: if one argument is NaN the other is returned. -/
def fmin (x y : Float) : Float :=
  if x.isNaN then y else if y.isNaN then x else if x < y then x else y

/-- `f32::clamp(10.0, 10_000.0)` (a NaN stays NaN). -/
def clamp32 (x : Float32) : Float32 :=
  let x := if x < 10.0 then 10.0 else x
  if x > 10000.0 then 10000.0 else x

/-- IEEE double arithmetic, as `rustc` compiles the operations of `taiko/convert.rs`. -/
def floatArith : Arith Float where
  ofNat n := n.toFloat
  neg x := -x
  add x y := x + y
  mul x y := x * y
  div x y := x / y
  min := fmin
  lt x y := x < y
  le x y := x <= y
  toU32 x := x.toUInt32.toNat
  eqZero x := (x - 0.0).abs <= Float.ofBits 0x3CB0000000000000
  clampF32 x := (clamp32 x.toFloat32).toFloat
  velMul := Float.ofBits 0x3FF6666660000000

/-- `timing_point_at`: `binary_search_by(total_cmp)`, `Err(i) → i.saturating_sub(1)`, `points.get(i)`
on a strictly sorted vector: the last point at or before `t`, else the first point. -/
def timingAt {V : Type} (l : List (Int × V)) (t : Int) : Option (Int × V) :=
  match pointAt l t with
  | some p => some p
  | none => l.head?

def parsePoints (s : String) : List (Int × Nat) :=
  (splitList s ";").map fun e =>
    match e.splitOn ":" with
    | [t, v] => (keyOfBits64 (nat! t), nat! v)
    | _ => (0, 0)

/-- Fuel of the tick loop in the driver (the loop of the code has none). -/
def driverFuel : Nat := 1000000

def pairLe (a b : Int × Nat) : Bool := a.1 < b.1 || (a.1 == b.1 && a.2 ≤ b.2)

/-- `TTICKS <version> <slider_multiplier> <tick_rate> <default beat_len> <default sv> <timing points>
<difficulty points> <sliders>` → `<tags of kept sliders>|<generated (time:sound), sorted>`.
Slider: `tag:start:dist:spans:own sound:node sounds (separated by a slash)`. -/
def handleTTicks (version sm tr dbl dsv tps dps sliders : String) : String :=
  let m : MapIn Float := ⟨nat! version, flt (nat! sm), flt (nat! tr)⟩
  let tpl := parsePoints tps
  let dpl := parsePoints dps
  let res := (splitList sliders ";").map fun e =>
    match e.splitOn ":" with
    | [tag, start, dist, spans, own, nodes] =>
      let k := keyOfBits64 (nat! start)
      let sv := match pointAt dpl k with | some p => p.2 | none => nat! dsv
      let bl := match timingAt tpl k with | some p => p.2 | none => nat! dbl
      let s : SliderIn Float := ⟨flt (nat! start), flt (nat! dist), nat! spans, flt sv, flt bl⟩
      (nat! tag, sliderOutcome floatArith driverFuel m s (natList nodes "/") (nat! own))
    | _ => (0, Outcome.outOfFuel)
  let kept := (res.filterMap fun (tag, o) => match o with | .kept => some tag | _ => none).mergeSort (fun a b => decide (a ≤ b))
  let fuelOut := res.any fun (_, o) => match o with | .outOfFuel => true | _ => false
  let hits : List (Int × Nat) := res.flatMap fun (_, o) =>
    match o with
    | .hits l => l.map fun (j, s) => (keyOfBits64 j.toBits.toNat, s)
    | _ => []
  let sorted := hits.mergeSort pairLe
  let showL (l : List String) := if l.isEmpty then "-" else joinWith ";" l
  if fuelOut then "FUEL"
  else showL (kept.map toString) ++ "|" ++ showL (sorted.map fun p => s!"{p.1}:{p.2}")

end Rosu.TaikoTicks
