import RosuModel.Model.Attrs
import RosuModel.Model.Wire

/-!
Driver glue for the attribute builder: `ATTR …` request lines → exact rationals.

Inputs arrive as IEEE bit patterns (f32 for attribute values, f64 for clock rates and mod
provided values) and are converted to the rationals they denote; outputs are printed as
`num/den`.  The mania great window is integer valued and discontinuous in `value`, so it is
printed as the interval `lo..hi` obtained from `value·(1 ∓ 2⁻²⁰)` (both ends coincide away from a
floor/ceil boundary); `check` accepts an implementation value inside the interval.
-/
namespace Rosu.Attrs
open Rosu.Wire

def hexDigit (c : Char) : Nat :=
  if '0' ≤ c ∧ c ≤ '9' then c.toNat - '0'.toNat
  else if 'a' ≤ c ∧ c ≤ 'f' then c.toNat - 'a'.toNat + 10
  else if 'A' ≤ c ∧ c ≤ 'F' then c.toNat - 'A'.toNat + 10
  else 0

def hexNat (s : String) : Nat := s.toList.foldl (fun acc c => acc * 16 + hexDigit c) 0

/-- value of a finite IEEE-754 binary float with `eb` exponent bits and `mb` mantissa bits -/
def ieeeToRat (eb mb : Nat) (bits : Nat) : Rat :=
  let sign := (bits >>> (eb + mb)) % 2
  let e := (bits >>> mb) % (2 ^ eb)
  let m := bits % (2 ^ mb)
  let bias := 2 ^ (eb - 1) - 1
  -- value = mant * 2^(ex - bias - mb)
  let mant : Nat := if e = 0 then m else 2 ^ mb + m
  let ex : Nat := if e = 0 then 1 else e
  let mag : Rat :=
    if ex ≥ bias + mb then ((mant * 2 ^ (ex - (bias + mb)) : Nat) : Rat)
    else mkRat mant (2 ^ (bias + mb - ex))
  if sign = 1 then -mag else mag

def f32ToRat (bits : Nat) : Rat := ieeeToRat 8 23 bits
def f64ToRat (bits : Nat) : Rat := ieeeToRat 11 52 bits

def showRat (r : Rat) : String :=
  if r.den = 1 then toString r.num else s!"{r.num}/{r.den}"

def showOptRat : Option Rat → String
  | some r => showRat r
  | none => "-"

def parseKind (s : String) : Kind :=
  if s.startsWith "D" then .dflt ⟨f32ToRat (hexNat (s.drop 1).toString), false⟩
  else
    match (s.drop 1).toString.splitOn ":" with
    | [v, w] => .custom ⟨f32ToRat (hexNat v), bool! w⟩
    | _ => .dflt ⟨5, false⟩

def parseOptF64 (s : String) : Option Rat :=
  if s == "-" then none else some (f64ToRat (hexNat s))

def parseMode (s : String) : Mode :=
  if s == "0" then .osu else if s == "1" then .taiko else if s == "2" then .catch else .mania

def eps : Rat := mkRat 1 (2 ^ 20)

def delta : Rat := mkRat 1 (2 ^ 19)

def Kind.scale (k : Kind) (f d : Rat) : Kind :=
  match k with
  | .dflt m => .dflt { m with value := m.value * f + d }
  | .custom m => .custom { m with value := m.value * f + d }

/-- all attribute values (given and mod-provided) mapped to `v·f + d` -/
def Builder.scale (b : Builder) (f d : Rat) : Builder :=
  { b with
    ar := b.ar.scale f d, od := b.od.scale f d, cs := b.cs.scale f d, hp := b.hp.scale f d,
    mods := { b.mods with ar := b.mods.ar.map (· * f + d), cs := b.mods.cs.map (· * f + d),
                          hp := b.mods.hp.map (· * f + d), od := b.mods.od.map (· * f + d) } }

/-- the exact value, or `lo..hi` over the exact and the two perturbed evaluations -/
def showIv (xs : List Rat) : String :=
  match xs with
  | [] => "-"
  | x :: rest =>
    let lo := rest.foldl rmin x
    let hi := rest.foldl rmax x
    if lo = hi then showRat x else s!"{showRat lo}..{showRat hi}"

def showOptIv (xs : List (Option Rat)) : String :=
  if xs.all Option.isSome then showIv (xs.filterMap id) else "-"

def showWindows (hws : List HitWindows) : String :=
  s!"war={showIv (hws.map (·.ar))} wgreat={showIv (hws.map (·.odGreat))} " ++
  s!"wok={showOptIv (hws.map (·.odOk))} wmeh={showOptIv (hws.map (·.odMeh))}"

/-- `ATTR mode conv ar od cs hp hr ez mult mcr mar mcs mhp mod clock`.

Every output is monotone in the attribute value it depends on, so evaluating the exact model at
the given values `v` and at the four corners `v·(1 ∓ 2⁻²⁰) ∓ 2⁻¹⁹` brackets whatever the f32
roundings of the implementation (`val * 1.4f32`, `value / 1.4f32`, `10.0 - od`, …: relative error
< 2⁻²², absolute error < 2⁻²⁰ for |v| ≤ 32) can produce; discontinuous outputs (mania's
floor/ceil, `round_ties_even`) show up as genuine intervals, all others as narrow intervals. -/
def handleAttr (args : List String) : String :=
  match args with
  | [mode, conv, ar, od, cs, hp, hr, ez, mult, mcr, mar, mcs, mhp, mod, clock] =>
    let mv : ModsView :=
      { clockRate := f64ToRat (hexNat mcr), hr := bool! hr, ez := bool! ez,
        ar := parseOptF64 mar, cs := parseOptF64 mcs, hp := parseOptF64 mhp, od := parseOptF64 mod,
        mult := f64ToRat (hexNat mult) }
    let b : Builder :=
      { mode := parseMode mode, isConvert := bool! conv, ar := parseKind ar, od := parseKind od,
        cs := parseKind cs, hp := parseKind hp, mods := mv, clockRate := parseOptF64 clock }
    let bs := [b, b.scale (1 - eps) (-delta), b.scale (1 - eps) delta, b.scale (1 + eps) (-delta),
      b.scale (1 + eps) delta]
    let as := bs.map Builder.build
    s!"ar={showIv (as.map (·.ar))} od={showIv (as.map (·.od))} cs={showIv (as.map (·.cs))} " ++
    s!"hp={showIv (as.map (·.hp))} cr={showIv (as.map (·.clockRate))} " ++
      showWindows (as.map (·.hitWindows)) ++ " | " ++ showWindows (bs.map Builder.hitWindows)
  | _ => "bad-attr"

end Rosu.Attrs
