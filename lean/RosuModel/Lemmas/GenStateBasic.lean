import RosuModel.Model.GenState

/-!
Helper lemmas for C12, valid for **every** `NumOps` instance (nothing here inspects `R`).
-/
namespace Rosu.GenState
set_option linter.unusedSectionVars false

variable {R : Type} [NumOps R]

theorem foldl_inv {α β : Type} (P : β → Prop) (f : β → α → β) (l : List α) (init : β)
    (h0 : P init) (hstep : ∀ a x, x ∈ l → P a → P (f a x)) : P (l.foldl f init) := by
  induction l generalizing init with
  | nil => simpa using h0
  | cons x xs ih =>
    simp only [List.foldl_cons]
    apply ih
    · exact hstep init x (by simp) h0
    · intro a y hy hp
      exact hstep a y (by simp [hy]) hp

theorem mem_rangeIncl {lo hi x : Nat} (h : x ∈ rangeIncl lo hi) : lo ≤ x ∧ x ≤ hi := by
  unfold rangeIncl at h
  rw [List.mem_range'_1] at h
  omega

/-- What an accepting step does to an invariant of the shape "still the initial value, or a
good accepted value". -/
theorem offer_cases {A : Type} (a : Acc R A) (d : R) (v : A) :
    (a.offer d v = a) ∨ (a.offer d v = { dist := d, val := v, hit := true, ok := a.ok }) := by
  unfold Acc.offer
  split
  · right; rfl
  · left; rfl

@[simp] theorem offer_ok {A : Type} (a : Acc R A) (d : R) (v : A) : (a.offer d v).ok = a.ok := by
  rcases offer_cases a d v with h | h <;> rw [h]

@[simp] theorem check_val {A : Type} (a : Acc R A) (c : Bool) : (a.check c).val = a.val := rfl
@[simp] theorem check_hit {A : Type} (a : Acc R A) (c : Bool) : (a.check c).hit = a.hit := rfl
@[simp] theorem check_dist {A : Type} (a : Acc R A) (c : Bool) : (a.check c).dist = a.dist := rfl
@[simp] theorem check_ok {A : Type} (a : Acc R A) (c : Bool) : (a.check c).ok = (a.ok && c) := rfl

/-- Invariant of a search fold: all checks passed, and the value is the initial one (nothing
accepted) or satisfies `Good` (something accepted). -/
def SearchInv {A : Type} (v0 : A) (Good : A → Prop) (a : Acc R A) : Prop :=
  a.ok = true ∧ ((a.hit = false ∧ a.val = v0) ∨ (a.hit = true ∧ Good a.val))

theorem searchInv_step {A : Type} (v0 : A) (Good : A → Prop) (a : Acc R A) (c : Bool) (d : R) (v : A)
    (ha : SearchInv v0 Good a) (hc : c = true) (hv : Good v) :
    SearchInv v0 Good ((a.check c).offer d v) := by
  obtain ⟨hok, hcase⟩ := ha
  rcases offer_cases (a.check c) d v with h | h
  · rw [h]; exact ⟨by simp [hok, hc], by simpa using hcase⟩
  · rw [h]; exact ⟨by simp [hok, hc], Or.inr ⟨rfl, hv⟩⟩

theorem u32Max_eq : u32Max = 4294967295 := rfl

theorem optMin_le (o : Option Nat) (cap : Nat) : optMin o cap ≤ cap := by
  unfold optMin; split <;> omega

theorem optMinOr_le (o : Option Nat) (cap : Nat) : optMinOr o cap ≤ cap := by
  unfold optMinOr; split <;> omega

@[simp] theorem optMin_none (cap : Nat) : optMin none cap = 0 := rfl
@[simp] theorem optMin_some (n cap : Nat) : optMin (some n) cap = min n cap := rfl
@[simp] theorem optMinOr_none (cap : Nat) : optMinOr none cap = cap := rfl
@[simp] theorem optMinOr_some (n cap : Nat) : optMinOr (some n) cap = min n cap := rfl

end Rosu.GenState
