import RosuModel.Lemmas.GradualOsu

/-! Helper lemmas for the osu!catch gradual model. -/

namespace Rosu.Gradual

variable {S : Type}

/-- Counts of the first `k` records. -/
def catchPrefixCounts (recs : List CatchRec) (k : Nat) : CatchCounts :=
  (recs.take k).foldl CatchCounts.add CatchCounts.zero

theorem catchPrefixCounts_succ (recs : List CatchRec) (k : Nat) (r : CatchRec)
    (hk : recs[k]? = some r) :
    catchPrefixCounts recs (k + 1) = (catchPrefixCounts recs k).add r := by
  unfold catchPrefixCounts
  rw [List.take_add_one, hk]
  simp [List.foldl_append]

theorem catchPrefixCounts_ge (recs : List CatchRec) (k : Nat) (hk : recs.length ≤ k) :
    catchPrefixCounts recs k = catchPrefixCounts recs recs.length := by
  unfold catchPrefixCounts
  rw [List.take_of_length_le hk, List.take_of_length_le (Nat.le_refl _)]

/-- Canonical state after `i` values; `dl` is the number of difficulty objects. -/
structure CatchCanon (sk : Skills S) (recs : List CatchRec) (g : CatchGrad S) (i : Nat) : Prop where
  idx : g.idx = i
  counts : g.counts = catchPrefixCounts recs i
  skills : g.skills = processedPrefix sk (i - 1)
  le : i ≤ recs.length

theorem catchNew_canon (sk : Skills S) (recs : List CatchRec) : CatchCanon sk recs (catchNew sk) 0 :=
  ⟨rfl, by simp [catchNew, catchPrefixCounts], rfl, Nat.zero_le _⟩

def catchValue (sk : Skills S) (recs : List CatchRec) (i : Nat) : CatchCounts × S :=
  (catchPrefixCounts recs i, processedPrefix sk (i - 1))

theorem catchNext_spec (sk : Skills S) (recs : List CatchRec) (g : CatchGrad S) (i : Nat)
    (hc : CatchCanon sk recs g i) :
    (i < recs.length →
      (catchNext sk recs (recs.length - 1) g).1 = .some (catchValue sk recs (i + 1)) ∧
      CatchCanon sk recs (catchNext sk recs (recs.length - 1) g).2 (i + 1)) ∧
    (i = recs.length → catchNext sk recs (recs.length - 1) g = (.none, g)) := by
  obtain ⟨hidx, hcnt, hsk, hle⟩ := hc
  constructor
  · intro hlt
    obtain ⟨r, hr⟩ : ∃ r, recs[i]? = some r := by
      rw [List.getElem?_eq_getElem hlt]; exact ⟨_, rfl⟩
    cases i with
    | zero =>
      have hne : recs.isEmpty = false := by
        cases recs with
        | nil => simp at hlt
        | cons _ _ => rfl
      simp only [catchNext, hidx, Nat.lt_irrefl, ↓reduceIte, hne, Bool.false_eq_true, hr, gt_iff_lt]
      refine ⟨?_, ⟨rfl, ?_, ?_, by omega⟩⟩
      · simp only [catchValue, hcnt, hsk]
        rw [catchPrefixCounts_succ recs 0 r hr]
      · simp only [hcnt]; rw [catchPrefixCounts_succ recs 0 r hr]
      · simp [hsk]
    | succ j =>
      have hdl : j + 1 - 1 < recs.length - 1 := by omega
      simp only [catchNext, hidx, gt_iff_lt, Nat.zero_lt_succ, ↓reduceIte, hdl, hr]
      refine ⟨?_, ⟨rfl, ?_, ?_, by omega⟩⟩
      · simp only [catchValue, hcnt, hsk, Nat.add_sub_cancel]
        rw [catchPrefixCounts_succ recs (j + 1) r hr, processedPrefix_succ]
      · simp only [hcnt]; rw [catchPrefixCounts_succ recs (j + 1) r hr]
      · simp only [hsk, Nat.add_sub_cancel]; rw [processedPrefix_succ]
  · intro heq
    cases i with
    | zero =>
      have hne : recs.isEmpty = true := by
        cases recs with
        | nil => rfl
        | cons _ _ => simp at heq
      simp [catchNext, hidx, hne]
    | succ j =>
      have hdl : ¬ (j < recs.length - 1) := by omega
      simp [catchNext, hidx, hdl]

theorem catchLen_spec (sk : Skills S) (recs : List CatchRec) (g : CatchGrad S) (i : Nat)
    (hc : CatchCanon sk recs g i) : catchLen recs (recs.length - 1) g = some (recs.length - i) := by
  obtain ⟨hidx, _, _, hle⟩ := hc
  unfold catchLen csub
  cases recs with
  | nil => simp at hle; simp [hidx, hle]
  | cons h t =>
    simp only [List.isEmpty_cons, Bool.false_eq_true, ↓reduceIte, hidx, List.length_cons] at *
    simp [hle]

theorem catchNthLoop_spec (sk : Skills S) (recs : List CatchRec) (k : Nat) (g : CatchGrad S) (i : Nat)
    (hc : CatchCanon sk recs g i) (hi : 1 ≤ i) :
    ∃ g', catchNthLoop sk recs (recs.length - 1) k (i - 1) g = some g' ∧
      CatchCanon sk recs g' (i + min k (recs.length - i)) := by
  induction k generalizing g i with
  | zero => exact ⟨g, rfl, by simpa using hc⟩
  | succ k ih =>
    obtain ⟨hidx, hcnt, hsk, hle⟩ := hc
    unfold catchNthLoop
    by_cases hlt : i < recs.length
    · obtain ⟨r, hr⟩ : ∃ r, recs[i]? = some r := by
        rw [List.getElem?_eq_getElem hlt]; exact ⟨_, rfl⟩
      have hdl : i - 1 < recs.length - 1 := by omega
      simp only [hdl, ↓reduceIte, hidx, hr]
      have hi1 : i - 1 + 1 = i := by omega
      rw [hi1]
      obtain ⟨g', hg', hc'⟩ := ih
        { idx := g.idx + 1, counts := g.counts.add r, skills := sk.process g.skills (i - 1) }
        (i + 1) ⟨by simp [hidx], by
          simp only [hcnt]; rw [catchPrefixCounts_succ recs i r hr], by
          simp only [hsk, Nat.add_sub_cancel]
          have : i = (i - 1) + 1 := by omega
          conv => rhs; rw [this]
          rw [processedPrefix_succ], by omega⟩ (by omega)
      simp only [Nat.add_sub_cancel] at hg'
      refine ⟨g', ?_, ?_⟩
      · simpa [hidx] using hg'
      · have e : i + 1 + min k (recs.length - (i + 1)) = i + min (k + 1) (recs.length - i) := by omega
        rw [e] at hc'; exact hc'
    · have hdl : ¬ (i - 1 < recs.length - 1) := by omega
      simp only [hdl, ↓reduceIte]
      have e : i + min (k + 1) (recs.length - i) = i := by omega
      rw [e]
      exact ⟨g, rfl, ⟨hidx, hcnt, hsk, hle⟩⟩

/-- `nth k` (as fixed): value `i + k + 1` when more than `k` values remain, otherwise `None` and the
exhausted state. -/
theorem catchNth_spec (sk : Skills S) (recs : List CatchRec) (g : CatchGrad S) (i k : Nat)
    (hc : CatchCanon sk recs g i) :
    (i + k < recs.length →
      (catchNth sk recs (recs.length - 1) g k).1 = .some (catchValue sk recs (i + k + 1)) ∧
        CatchCanon sk recs (catchNth sk recs (recs.length - 1) g k).2 (i + k + 1)) ∧
    (recs.length ≤ i + k → (catchNth sk recs (recs.length - 1) g k).1 = .none ∧
        CatchCanon sk recs (catchNth sk recs (recs.length - 1) g k).2 recs.length) := by
  have hle := hc.le
  have hlen := catchLen_spec sk recs g i hc
  have hidx := hc.idx
  -- state before the final `next`
  have hpre : ∃ g2, CatchCanon sk recs g2 (i + min k (recs.length - i)) ∧
      catchNth sk recs (recs.length - 1) g k = catchNext sk recs (recs.length - 1) g2 := by
    unfold catchNth
    simp only [hlen]
    by_cases h0 : g.idx = 0 ∧ min k (recs.length - i) > 0
    · have hi0 : i = 0 := by omega
      subst hi0
      have hn : 0 < recs.length := by omega
      obtain ⟨r, hr⟩ : ∃ r, recs[0]? = some r := by
        rw [List.getElem?_eq_getElem hn]; exact ⟨_, rfl⟩
      have hc1 : CatchCanon sk recs { g with idx := g.idx + 1, counts := g.counts.add r } 1 :=
        ⟨by simp [hidx], by
          simp only [hc.counts]; rw [catchPrefixCounts_succ recs 0 r hr], by simpa using hc.skills, hn⟩
      obtain ⟨g', hg', hc'⟩ := catchNthLoop_spec sk recs (min k (recs.length - 0) - 1) _ 1 hc1 (Nat.le_refl _)
      have e : 1 + min (min k (recs.length - 0) - 1) (recs.length - 1) = 0 + min k (recs.length - 0) := by omega
      rw [e] at hc'
      refine ⟨g', hc', ?_⟩
      have hg0 : g.idx = 0 := h0.1
      rw [if_pos h0]
      simp only [hg0, hr]
      simp only [hg0] at hg'
      simp only [Nat.sub_zero] at hg' ⊢
      rw [hg']
    · by_cases hi : 1 ≤ i
      · obtain ⟨g', hg', hc'⟩ := catchNthLoop_spec sk recs (min k (recs.length - i)) g i hc hi
        have e : i + min (min k (recs.length - i)) (recs.length - i) = i + min k (recs.length - i) := by omega
        rw [e] at hc'
        refine ⟨g', hc', ?_⟩
        rw [if_neg h0]
        simp only [hidx, hg']
      · have hi0 : i = 0 := by omega
        subst hi0
        have ht : min k (recs.length - 0) = 0 := by
          have : ¬ (min k (recs.length - 0) > 0) := fun h => h0 ⟨hidx, h⟩
          omega
        refine ⟨g, by rw [ht]; exact hc, ?_⟩
        rw [if_neg h0]
        simp only [ht, catchNthLoop]
  obtain ⟨g2, hc2, heq2⟩ := hpre
  rw [heq2]
  constructor
  · intro hlt
    have e : i + min k (recs.length - i) = i + k := by omega
    rw [e] at hc2
    exact (catchNext_spec sk recs g2 _ hc2).1 hlt
  · intro hge
    have e : i + min k (recs.length - i) = recs.length := by omega
    rw [e] at hc2
    have hn := (catchNext_spec sk recs g2 _ hc2).2 rfl
    rw [hn]
    exact ⟨rfl, hc2⟩

end Rosu.Gradual

namespace Rosu.Gradual

variable {S : Type}

/-! ### The two object-count builders agree -/

def CatchCounts.addTiny (c : CatchCounts) (n : Nat) : CatchCounts := { c with tiny := c.tiny + n }

theorem catchPrefix_append_lt (all : List CatchRec) (r : CatchRec) (take : Nat) (h : all.length < take) :
    catchPrefixCounts (all ++ [r]) take = (catchPrefixCounts all take).add r := by
  unfold catchPrefixCounts
  have h1 : (all ++ [r]).take take = all ++ [r] := List.take_of_length_le (by simp; omega)
  have h2 : all.take take = all := List.take_of_length_le (by omega)
  rw [h1, h2]
  simp [List.foldl_append]

theorem catchPrefix_append_ge (all : List CatchRec) (r : CatchRec) (take : Nat) (h : take ≤ all.length) :
    catchPrefixCounts (all ++ [r]) take = catchPrefixCounts all take := by
  unfold catchPrefixCounts
  rw [List.take_append_of_le_length h]

/-- Joint invariant of the regular and the gradual builder over the same event stream. -/
structure CatchBuilders (take : Nat) (reg : Nat × CatchCounts) (gr : CatchRec × List CatchRec) : Prop where
  pendFruit : gr.1.fruit = false
  t : reg.1 = take - gr.2.length
  c : reg.2 = (catchPrefixCounts gr.2 take).addTiny (if reg.1 > 0 then gr.1.tiny else 0)

theorem catchBuilders_step (take : Nat) (reg : Nat × CatchCounts) (gr : CatchRec × List CatchRec)
    (e : CatchEvent) (h : CatchBuilders take reg gr) :
    CatchBuilders take (catchRegularStep reg e) (catchGradualStep gr e) := by
  obtain ⟨hpf, ht, hc⟩ := h
  obtain ⟨t, c⟩ := reg
  obtain ⟨pend, all⟩ := gr
  simp only at hpf ht hc
  cases e with
  | tiny n =>
    by_cases hpos : t > 0
    · simp only [catchRegularStep, hpos, ↓reduceIte, catchGradualStep]
      refine ⟨hpf, ht, ?_⟩
      simp only [hc, hpos, ↓reduceIte, CatchCounts.addTiny]
      simp [Nat.add_assoc]
    · simp only [catchRegularStep, hpos, ↓reduceIte, catchGradualStep]
      refine ⟨hpf, ht, ?_⟩
      simp only [hc, hpos, ↓reduceIte]
  | fruit =>
    by_cases hpos : t > 0
    · have hl : all.length < take := by omega
      simp only [catchRegularStep, hpos, ↓reduceIte, catchGradualStep]
      refine ⟨rfl, by simp; omega, ?_⟩
      simp only [hc, hpos, ↓reduceIte]
      rw [catchPrefix_append_lt all _ take hl]
      simp [CatchCounts.addTiny, CatchCounts.add, Nat.add_assoc]
    · have hl : take ≤ all.length := by omega
      simp only [catchRegularStep, hpos, ↓reduceIte, catchGradualStep]
      refine ⟨rfl, by simp; omega, ?_⟩
      simp only [hc, hpos, ↓reduceIte]
      rw [catchPrefix_append_ge all _ take hl]
  | droplet =>
    by_cases hpos : t > 0
    · have hl : all.length < take := by omega
      simp only [catchRegularStep, hpos, ↓reduceIte, catchGradualStep]
      refine ⟨rfl, by simp; omega, ?_⟩
      simp only [hc, hpos, ↓reduceIte]
      rw [catchPrefix_append_lt all _ take hl]
      simp [CatchCounts.addTiny, CatchCounts.add, hpf, Nat.add_assoc]
    · have hl : take ≤ all.length := by omega
      simp only [catchRegularStep, hpos, ↓reduceIte, catchGradualStep]
      refine ⟨rfl, by simp; omega, ?_⟩
      simp only [hc, hpos, ↓reduceIte]
      rw [catchPrefix_append_ge all _ take hl]

theorem catchBuilders_fold (take : Nat) (evs : List CatchEvent) (reg : Nat × CatchCounts)
    (gr : CatchRec × List CatchRec) (h : CatchBuilders take reg gr) :
    CatchBuilders take (evs.foldl catchRegularStep reg) (evs.foldl catchGradualStep gr) := by
  induction evs generalizing reg gr with
  | nil => simpa using h
  | cons e es ih => simp only [List.foldl_cons]; exact ih _ _ (catchBuilders_step take reg gr e h)

theorem catchBuilders_init (take : Nat) :
    CatchBuilders take (take, CatchCounts.zero) (⟨false, 0⟩, []) :=
  ⟨rfl, by simp, by simp [catchPrefixCounts, CatchCounts.addTiny, CatchCounts.zero]⟩

/-- The number of records the gradual builder produces is the number of palpable objects. -/
theorem catchGradual_length (evs : List CatchEvent) (gr : CatchRec × List CatchRec) :
    (evs.foldl catchGradualStep gr).2.length = gr.2.length + catchPalpable evs := by
  induction evs generalizing gr with
  | nil => simp [catchPalpable]
  | cons e es ih =>
    simp only [List.foldl_cons]
    rw [ih]
    cases e <;> simp [catchGradualStep, catchPalpable, List.filter_cons] <;> omega

end Rosu.Gradual

namespace Rosu.Gradual

variable {S : Type}

theorem catch_nexts_spec (sk : Skills S) (recs : List CatchRec) (k : Nat) (g : CatchGrad S) (i : Nat)
    (hc : CatchCanon sk recs g i) (hk : i + k ≤ recs.length) :
    ((catchMachine sk recs (recs.length - 1)).nexts g k).1 =
      (List.range k).map (fun d => Res.some (catchValue sk recs (i + d + 1))) ∧
    CatchCanon sk recs ((catchMachine sk recs (recs.length - 1)).nexts g k).2 (i + k) := by
  induction k generalizing g i with
  | zero => simpa [Machine.nexts] using hc
  | succ k ih =>
    have hlt : i < recs.length := by omega
    obtain ⟨hv, hc'⟩ := (catchNext_spec sk recs g i hc).1 hlt
    have ih' := ih _ (i + 1) hc' (by omega)
    simp only [Machine.nexts]
    have hn : (catchMachine sk recs (recs.length - 1)).next g =
        (Res.some (catchValue sk recs (i + 1)), (catchNext sk recs (recs.length - 1) g).2) := by
      show catchNext sk recs (recs.length - 1) g = _
      rw [← hv]
    rw [hn]
    refine ⟨?_, ?_⟩
    · simp only
      rw [ih'.1, List.range_succ_eq_map]
      simp only [List.map_cons, List.map_map, Nat.add_zero]
      congr 1
      apply List.map_congr_left
      intro d _
      simp only [Function.comp]
      congr 2
      omega
    · have e : i + (k + 1) = i + 1 + k := by omega
      rw [e]; exact ih'.2

theorem catchMachine_next_exhausted (sk : Skills S) (recs : List CatchRec) (g : CatchGrad S)
    (hc : CatchCanon sk recs g recs.length) :
    (catchMachine sk recs (recs.length - 1)).next g = (.none, g) :=
  (catchNext_spec sk recs g _ hc).2 rfl

end Rosu.Gradual
