import RosuModel.Lemmas.TaikoPreColour

/-!
`encode_repeating_hit_patterns` and `find_repetition_interval` of `Model/TaikoPre.lean` never fail
on non-empty alternating patterns whose positions are valid; the repeating patterns are non-empty and
partition the alternating patterns in order; repetition intervals are in `1 … 17`.
-/

namespace Rosu.TaikoPre

variable {T : Type}

/-- What the repeating-pattern code needs of an alternating pattern: `mono_streaks[0]` exists and
the hit objects of its streaks can be dereferenced. -/
def AltOK (st : Store T) (a : Alt) : Prop := a ≠ [] ∧ ∀ m ∈ a, ∀ p ∈ m, p < st.objects.length

theorem altFirstRunLen_isSome {a : Alt} (h : a ≠ []) : ∃ n, altFirstRunLen a = some n := by
  cases a with
  | nil => exact absurd rfl h
  | cons m r => exact ⟨m.length, by simp [altFirstRunLen]⟩

theorem altIdenticalMonoLen_isSome {a b : Alt} (ha : a ≠ []) (hb : b ≠ []) :
    ∃ r, altIdenticalMonoLen a b = some r := by
  obtain ⟨x, hx⟩ := altFirstRunLen_isSome ha
  obtain ⟨y, hy⟩ := altFirstRunLen_isSome hb
  exact ⟨x == y, by simp [altIdenticalMonoLen, hx, hy]⟩

theorem monoHitType_isSome (st : Store T) (m : Mono) (h : ∀ p ∈ m, p < st.objects.length) :
    ∃ r, monoHitType st m = some r := by
  cases m with
  | nil => exact ⟨none, rfl⟩
  | cons p r =>
    have hp : p < st.objects.length := h p (List.mem_cons_self ..)
    exact ⟨some st.objects[p].kind, by simp [monoHitType, List.getElem?_eq_getElem hp]⟩

theorem altIsRepetitionOf_isSome (st : Store T) {a b : Alt} (ha : AltOK st a) (hb : AltOK st b) :
    ∃ r, altIsRepetitionOf st a b = some r := by
  obtain ⟨r, hr⟩ := altIdenticalMonoLen_isSome ha.1 hb.1
  cases a with
  | nil => exact absurd rfl ha.1
  | cons ma ra =>
    cases b with
    | nil => exact absurd rfl hb.1
    | cons mb rb =>
      obtain ⟨ta, hta⟩ := monoHitType_isSome st ma (ha.2 ma (List.mem_cons_self ..))
      obtain ⟨tb, htb⟩ := monoHitType_isSome st mb (hb.2 mb (List.mem_cons_self ..))
      unfold altIsRepetitionOf
      cases r with
      | false => exact ⟨false, by simp [hr]⟩
      | true =>
        by_cases hl : ra.length = rb.length
        · exact ⟨decide (ta = tb), by simp [hr, hl, hta, htb]⟩
        · exact ⟨false, by simp [hr, hl]⟩

theorem isCoupled_isSome (st : Store T) (data : List Alt) (h : ∀ a ∈ data, AltOK st a) :
    ∃ b, isCoupled st data = some b := by
  unfold isCoupled
  cases h2 : data[2]? with
  | none => exact ⟨false, rfl⟩
  | some other =>
    have hlen : 2 < data.length := lt_of_getElem?_eq_some h2
    have h0 : data[0]? = some data[0] := List.getElem?_eq_getElem (by omega)
    obtain ⟨r, hr⟩ := altIsRepetitionOf_isSome st (h data[0] (List.getElem_mem _))
      (h other (List.mem_of_getElem? h2))
    exact ⟨r, by simp [h0, hr]⟩

theorem isCoupled_true_len (st : Store T) (data : List Alt) (h : isCoupled st data = some true) :
    3 ≤ data.length := by
  unfold isCoupled at h
  cases h2 : data[2]? with
  | none => simp [h2] at h
  | some other => have := lt_of_getElem?_eq_some h2; omega

/-- The inner `while is_coupled` loop never hits `pop_front().unwrap()` on an empty deque and leaves
at least two elements for `drain(..2)`. -/
theorem coupledLoop_spec (st : Store T) :
    ∀ (fuel : Nat) (data : List Alt) (cur : Rep), (∀ a ∈ data, AltOK st a) → 3 ≤ data.length →
      data.length ≤ fuel →
      ∃ d1 cur', coupledLoop st fuel data cur = some (d1, cur') ∧ 2 ≤ d1.length ∧
        cur' ++ d1 = cur ++ data ∧ cur' ≠ []
  | 0, data, cur, _, h3, hf => by omega
  | fuel + 1, [], cur, _, h3, _ => by simp at h3
  | fuel + 1, front :: data', cur, hok, h3, hf => by
    have hok' : ∀ a ∈ data', AltOK st a := fun a ha => hok a (List.mem_cons_of_mem _ ha)
    obtain ⟨b, hb⟩ := isCoupled_isSome st data' hok'
    cases b with
    | false =>
      refine ⟨data', cur ++ [front], by simp [coupledLoop, hb], ?_, by simp, by simp⟩
      simp at h3; omega
    | true =>
      have hl := isCoupled_true_len st data' hb
      obtain ⟨d1, cur', h1, h2, h4, h5⟩ := coupledLoop_spec st fuel data' (cur ++ [front]) hok' hl
        (by simp at hf; omega)
      exact ⟨d1, cur', by simp [coupledLoop, hb, h1], h2, by simp [h4], h5⟩

/-- One iteration of the outer loop: no failing `data[0]`, `pop_front().unwrap()` or `drain(..2)`;
it moves a non-empty prefix of the deque into the new pattern. -/
theorem repStep_spec (st : Store T) (data : List Alt) (hne : data ≠ []) (hok : ∀ a ∈ data, AltOK st a) :
    ∃ data' cur, repStep st data = some (data', cur) ∧ cur ++ data' = data ∧ cur ≠ [] := by
  obtain ⟨b, hb⟩ := isCoupled_isSome st data hok
  cases b with
  | false =>
    cases data with
    | nil => exact absurd rfl hne
    | cons x r => exact ⟨r, [x], by simp [repStep, hb], by simp, by simp⟩
  | true =>
    have hl := isCoupled_true_len st data hb
    obtain ⟨d1, cur, h1, h2, h3, _⟩ := coupledLoop_spec st (data.length + 1) data [] hok hl (by omega)
    match d1, h2 with
    | x :: y :: r, _ =>
      refine ⟨r, cur ++ [x, y], by simp [repStep, hb, h1], ?_, by simp⟩
      simpa using h3

/-- `encode_repeating_hit_patterns`' loop never fails; the patterns are non-empty and partition the
alternating patterns in order. -/
theorem repLoop_spec (st : Store T) :
    ∀ (fuel : Nat) (data : List Alt), (∀ a ∈ data, AltOK st a) → data.length < fuel →
      ∃ reps, repLoop st fuel data = some reps ∧ reps.flatten = data ∧ ∀ r ∈ reps, r ≠ []
  | 0, data, _, hf => by omega
  | fuel + 1, data, hok, hf => by
    by_cases he : data = []
    · subst he; exact ⟨[], by simp [repLoop], by simp, by simp⟩
    · obtain ⟨data', cur, h1, h2, h3⟩ := repStep_spec st data he hok
      have hlen : data'.length < data.length := by
        rw [← h2]
        cases cur with
        | nil => exact absurd rfl h3
        | cons c cs => simp; omega
      have hok' : ∀ a ∈ data', AltOK st a := by
        intro a ha; apply hok; rw [← h2]; exact List.mem_append_right _ ha
      obtain ⟨reps, h4, h5, h6⟩ := repLoop_spec st fuel data' hok' (by omega)
      have hemp : data.isEmpty = false := by
        cases data with
        | nil => exact absurd rfl he
        | cons _ _ => rfl
      refine ⟨cur :: reps, by simp [repLoop, hemp, h1, h4], by simp [h5, h2], ?_⟩
      intro r hr
      rcases List.mem_cons.mp hr with hr | hr
      · subst hr; exact h3
      · exact h6 r hr

/-! ### `find_repetition_interval` -/

theorem foldlM_identical_isSome :
    ∀ (l : List (Alt × Alt)) (acc : Bool), (∀ p ∈ l, p.1 ≠ [] ∧ p.2 ≠ []) →
      ∃ r, l.foldlM (init := acc)
        (fun acc (p : Alt × Alt) => if acc then altIdenticalMonoLen p.1 p.2 else some false) = some r
  | [], acc, _ => ⟨acc, rfl⟩
  | p :: l, acc, h => by
    have hp := h p (List.mem_cons_self ..)
    have hl : ∀ q ∈ l, q.1 ≠ [] ∧ q.2 ≠ [] := fun q hq => h q (List.mem_cons_of_mem _ hq)
    simp only [List.foldlM_cons]
    cases acc with
    | false =>
      obtain ⟨r, hr⟩ := foldlM_identical_isSome l false hl
      exact ⟨r, by simpa using hr⟩
    | true =>
      obtain ⟨v, hv⟩ := altIdenticalMonoLen_isSome hp.1 hp.2
      obtain ⟨r, hr⟩ := foldlM_identical_isSome l v hl
      exact ⟨r, by simpa [hv] using hr⟩

theorem repIsRepetitionOf_isSome (a b : Rep) (ha : ∀ x ∈ a, x ≠ []) (hb : ∀ x ∈ b, x ≠ []) :
    ∃ r, repIsRepetitionOf a b = some r := by
  unfold repIsRepetitionOf
  by_cases hl : a.length ≠ b.length
  · exact ⟨false, by simp [hl]⟩
  · rw [if_neg hl]
    apply foldlM_identical_isSome
    intro p hp
    have hz := List.mem_of_mem_take hp
    exact ⟨ha _ (List.of_mem_zip hz).1, hb _ (List.of_mem_zip hz).2⟩

theorem findWalk_spec (reps : List Rep) (self : Rep) (hs : ∀ x ∈ self, x ≠ [])
    (hr : ∀ r ∈ reps, ∀ x ∈ r, x ≠ []) :
    ∀ (other interval : Nat), other < reps.length → 1 ≤ interval →
      ∃ v, findWalk reps self other interval = some v ∧ 1 ≤ v ∧ v ≤ maxRepetitionInterval + 1
  | other, interval, ho, hi => by
    unfold findWalk
    by_cases hlt : interval < maxRepetitionInterval
    · rw [if_pos hlt]
      have hget : reps[other]? = some reps[other] := List.getElem?_eq_getElem ho
      obtain ⟨b, hb⟩ := repIsRepetitionOf_isSome self reps[other] hs (hr _ (List.getElem_mem _))
      cases b with
      | true =>
        refine ⟨min interval maxRepetitionInterval, by simp [hget, hb], ?_, ?_⟩
        · simp [maxRepetitionInterval] at hlt ⊢; omega
        · simp [maxRepetitionInterval]; omega
      | false =>
        cases other with
        | zero => exact ⟨maxRepetitionInterval + 1, by simp [hget, hb], by simp, by simp⟩
        | succ o' =>
          obtain ⟨v, h1, h2, h3⟩ := findWalk_spec reps self hs hr o' (interval + 1) (by omega) (by omega)
          exact ⟨v, by simp [hget, hb, h1], h2, h3⟩
    · exact ⟨maxRepetitionInterval + 1, by rw [if_neg hlt], by simp, by simp⟩

/-- `find_repetition_interval` never reads a dead `prev` pointer or an empty pattern, and
`repetition_interval ≤ MAX_REPETITION_INTERVAL + 1`. -/
theorem findInterval_spec (reps : List Rep) (hr : ∀ r ∈ reps, ∀ x ∈ r, x ≠ []) (k : Nat)
    (hk : k < reps.length) :
    ∃ v, findInterval reps k = some v ∧ 1 ≤ v ∧ v ≤ maxRepetitionInterval + 1 := by
  cases k with
  | zero => exact ⟨maxRepetitionInterval + 1, rfl, by simp, by simp⟩
  | succ k' =>
    have hget : reps[k' + 1]? = some reps[k' + 1] := List.getElem?_eq_getElem hk
    obtain ⟨v, h1, h2, h3⟩ := findWalk_spec reps reps[k' + 1] (hr _ (List.getElem_mem _)) hr k' 1
      (by omega) (by omega)
    exact ⟨v, by simp [findInterval, hget, h1], h2, h3⟩

end Rosu.TaikoPre
