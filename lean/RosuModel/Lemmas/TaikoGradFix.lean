import RosuModel.Model.TaikoGradFix
import RosuModel.Lemmas.GradualTaiko

/-!
The repaired taiko gradual machine (`Model/TaikoGradFix.lean`) on **arbitrary** object lists:
canonical state after `i` values, `next`, one-shot value, `len`.
-/

namespace Rosu.Gradual

variable {S : Type}

/-- Hits among the first two objects (the objects without a difficulty object). -/
def firstHits (objs : List Bool) : Nat := hitsIn (objs.take 2)

theorem nHits_eq (objs : List Bool) : (taikoFirstCombos objs).nHits = firstHits objs := by
  match objs with
  | [] => rfl
  | [a] => cases a <;> rfl
  | a :: b :: rest => cases a <;> cases b <;> rfl

theorem hitsIn_append (l₁ l₂ : List Bool) : hitsIn (l₁ ++ l₂) = hitsIn l₁ + hitsIn l₂ := by
  simp [hitsIn, List.filter_append]

theorem hitsIn_split (objs : List Bool) : hitsIn objs = firstHits objs + hitsIn (objs.drop 2) := by
  have := hitsIn_append (objs.take 2) (objs.drop 2)
  rw [List.take_append_drop] at this
  exact this

/-- Canonical state of the repaired machine after `i` values. -/
structure FixCanon (sk : Skills S) (objs : List Bool) (g : TaikoGrad S) (i : Nat) : Prop where
  idx : g.idx = i
  combo : g.maxCombo = i
  pos : g.iterPos = cutLen (objs.drop 2) (i - firstHits objs)
  skills : g.skills = processedPrefix sk (cutLen (objs.drop 2) (i - firstHits objs))
  le : i ≤ hitsIn objs

/-- The `i`-th value. -/
def fixValue (sk : Skills S) (objs : List Bool) (i : Nat) : Nat × S :=
  (i, processedPrefix sk (cutLen (objs.drop 2) (i - firstHits objs)))

theorem fixCanon_new (sk : Skills S) (objs : List Bool) : FixCanon sk objs (taikoNew sk objs) 0 :=
  ⟨rfl, rfl, by simp [taikoNew, cutLen_zero], by simp [taikoNew, cutLen_zero, processedPrefix, processFrom],
    Nat.zero_le _⟩

theorem taikoNextFixed_spec (sk : Skills S) (objs : List Bool) (g : TaikoGrad S) (i : Nat)
    (hc : FixCanon sk objs g i) :
    (i < hitsIn objs →
      (taikoNextFixed sk objs g).1 = some (fixValue sk objs (i + 1)) ∧
      FixCanon sk objs (taikoNextFixed sk objs g).2 (i + 1)) ∧
    (i = hitsIn objs → (taikoNextFixed sk objs g).1 = none ∧ (taikoNextFixed sk objs g).2.idx = i) := by
  obtain ⟨hidx, hcombo, hpos, hsk, hle⟩ := hc
  have hH := hitsIn_split objs
  have hn := nHits_eq objs
  by_cases hk : i < firstHits objs
  · -- a hit among the first two objects: nothing is processed
    have hcond : ¬ (g.idx ≥ (taikoFirstCombos objs).nHits) := by rw [hn, hidx]; omega
    have e0 : i - firstHits objs = 0 := by omega
    have e1 : i + 1 - firstHits objs = 0 := by omega
    constructor
    · intro _
      simp only [taikoNextFixed, hcond, if_false]
      refine ⟨?_, ⟨by simp [hidx], by simp [hcombo], ?_, ?_, by omega⟩⟩
      · simp [fixValue, hcombo, hsk, e0, e1]
      · simp [hpos, e0, e1]
      · simp [hsk, e0, e1]
    · intro heq; omega
  · have hcond : g.idx ≥ (taikoFirstCombos objs).nHits := by rw [hn, hidx]; omega
    have hqle : cutLen (objs.drop 2) (i - firstHits objs) ≤ (objs.drop 2).length := cutLen_le _ _
    have hrem : hitsIn ((objs.drop 2).drop (cutLen (objs.drop 2) (i - firstHits objs))) =
        hitsIn (objs.drop 2) - (i - firstHits objs) :=
      hitsIn_drop_cutLen (objs.drop 2) (i - firstHits objs) (by omega)
    constructor
    · intro hlt
      have hh : 1 ≤ hitsIn ((objs.drop 2).drop (cutLen (objs.drop 2) (i - firstHits objs))) := by omega
      have hf : cutLen ((objs.drop 2).drop (cutLen (objs.drop 2) (i - firstHits objs))) 1 ≤
          (objs.drop 2).length + 1 := by
        have h1 := cutLen_le ((objs.drop 2).drop (cutLen (objs.drop 2) (i - firstHits objs))) 1
        have h2 : ((objs.drop 2).drop (cutLen (objs.drop 2) (i - firstHits objs))).length ≤
            (objs.drop 2).length := by rw [List.length_drop]; omega
        omega
      have hl := taikoHitLoop_hit sk (objs.drop 2) ((objs.drop 2).length + 1) g _ hpos hsk hh hf
      have hnext : cutLen (objs.drop 2) (i - firstHits objs) +
          cutLen ((objs.drop 2).drop (cutLen (objs.drop 2) (i - firstHits objs))) 1 =
          cutLen (objs.drop 2) (i + 1 - firstHits objs) := by
        rw [← cutLen_add]; congr 1; omega
      simp only [taikoNextFixed, hcond, if_true, hl, hnext]
      refine ⟨?_, ⟨by simp [hidx], by simp [hcombo], rfl, rfl, by omega⟩⟩
      simp [fixValue, hcombo]
    · intro heq
      have hh : hitsIn ((objs.drop 2).drop (cutLen (objs.drop 2) (i - firstHits objs))) = 0 := by omega
      have hl := taikoHitLoop_dry sk (objs.drop 2) ((objs.drop 2).length + 1) g _ hpos hsk hqle hh
        (by omega)
      simp only [taikoNextFixed, hcond, if_true, hl]
      refine ⟨?_, ?_⟩ <;> simp [hidx]

theorem taikoFixed_nexts_spec (sk : Skills S) (objs : List Bool) (k : Nat) (g : TaikoGrad S) (i : Nat)
    (hc : FixCanon sk objs g i) (hk : i + k ≤ hitsIn objs) :
    ((taikoMachineFixed sk objs).nexts g k).1 =
      (List.range k).map (fun d => Res.some (fixValue sk objs (i + d + 1))) ∧
    FixCanon sk objs ((taikoMachineFixed sk objs).nexts g k).2 (i + k) := by
  induction k generalizing g i with
  | zero => simpa [Machine.nexts] using hc
  | succ k ih =>
    have hlt : i < hitsIn objs := by omega
    obtain ⟨hv, hc'⟩ := (taikoNextFixed_spec sk objs g i hc).1 hlt
    have ih' := ih _ (i + 1) hc' (by omega)
    simp only [Machine.nexts]
    have hn : (taikoMachineFixed sk objs).next g =
        (Res.some (fixValue sk objs (i + 1)), (taikoNextFixed sk objs g).2) := by
      show (optToRes (taikoNextFixed sk objs g).1, _) = _
      rw [hv]; rfl
    rw [hn]
    refine ⟨?_, ?_⟩
    · simp only
      rw [ih'.1, List.range_succ_eq_map]
      simp only [List.map_cons, List.map_map, Nat.add_zero]
      congr 1
      apply List.map_congr_left
      intro d _
      simp only [Function.comp]
      congr 2
      omega
    · have e : i + (k + 1) = i + 1 + k := by omega
      rw [e]; exact ih'.2

theorem cutLen_nil (t : Nat) : cutLen [] t = 0 := by cases t <;> rfl

/-- `cutLen` of a list with at least two objects, beyond the hits of the first two. -/
theorem cutLen_beyond_first (a b : Bool) (rest : List Bool) (m : Nat) :
    cutLen (a :: b :: rest) (m + firstHits (a :: b :: rest) + 1) = 2 + cutLen rest (m + 1) := by
  cases a <;> cases b <;> simp [firstHits, hitsIn, cutLen] <;> omega

/-- … and up to the hits of the first two objects the cut stays inside them. -/
theorem cutLen_within_first (a b : Bool) (rest : List Bool) (i : Nat) (hi : i ≤ firstHits (a :: b :: rest)) :
    cutLen (a :: b :: rest) i ≤ 2 := by
  cases a <;> cases b <;> simp [firstHits, hitsIn] at hi
  · subst hi; simp [cutLen_zero]
  · rcases (by omega : i = 0 ∨ i = 1) with h | h <;> subst h <;> simp [cutLen, cutLen_zero]
  · rcases (by omega : i = 0 ∨ i = 1) with h | h <;> subst h <;> simp [cutLen, cutLen_zero]
  · rcases (by omega : i = 0 ∨ i = 1 ∨ i = 2) with h | h | h <;> subst h <;> simp [cutLen, cutLen_zero]

/-- One-shot with `passed_objects = i`, `1 ≤ i ≤ hits`, on an arbitrary map. -/
theorem taikoOneShot_general (sk : Skills S) (objs : List Bool) (i : Nat) (h1 : 1 ≤ i)
    (hle : i ≤ hitsIn objs) :
    taikoOneShot sk objs i = fixValue sk objs i := by
  have hmc := taiko_inspect_fold i objs 0 0 (Nat.zero_le _)
  have hnd := taiko_inspect_fold_nd i objs 0 0 (Nat.zero_le _)
  simp only [Nat.zero_add, Nat.sub_zero] at hmc hnd
  have hmin : min i (hitsIn objs) = i := by omega
  unfold taikoOneShot taikoCreate
  generalize objs.foldl (taikoInspectStep i) (0, 0) = r at hmc hnd
  obtain ⟨mc, nd⟩ := r
  simp only at hmc hnd
  match objs, hle, hmc, hnd with
  | [], hle, _, _ => simp [hitsIn] at hle; omega
  | [a], hle, hmc, hnd =>
    simp only [List.length_singleton, show (1 : Nat) < 2 by omega, if_true]
    rw [hmc, hmin]
    simp [fixValue, cutLen_nil]
  | a :: b :: rest, hle, hmc, hnd =>
    have hlen : ¬ ((a :: b :: rest).length < 2) := by simp
    simp only [hlen, if_false]
    rw [hmc, hmin, hnd]
    simp only [fixValue, List.drop_succ_cons, List.drop_zero, List.length_cons]
    congr 2
    have hq := cutLen_le rest (i - firstHits (a :: b :: rest))
    by_cases hk : i ≤ firstHits (a :: b :: rest)
    · have := cutLen_within_first a b rest i hk
      have e0 : i - firstHits (a :: b :: rest) = 0 := by omega
      rw [e0, cutLen_zero]
      split <;> omega
    · obtain ⟨m, hm⟩ : ∃ m, i = m + firstHits (a :: b :: rest) + 1 :=
        ⟨i - firstHits (a :: b :: rest) - 1, by omega⟩
      have := cutLen_beyond_first a b rest m
      rw [← hm] at this
      have e1 : i - firstHits (a :: b :: rest) = m + 1 := by omega
      rw [e1] at hq ⊢
      rw [this]
      have hpos : 0 < i ∧ 0 < 2 + cutLen rest (m + 1) := by omega
      simp only [hpos, and_self, if_true]
      omega

end Rosu.Gradual
