import RosuModel.Lemmas.PipelineOsu
import RosuModel.Lemmas.OsuSkillRhythm
import RosuModel.Lemmas.EvalCalcReal
import RosuModel.Lemmas.AggregateField
import RosuModel.Lemmas.ConvOsuReal

/-!
Signs along the osu! pipeline over ℝ (`Model/PipelineOsu.lean` with `instPPOpsReal`): the skill state machines
keep `current_strain`, every stored peak and every object strain `≥ 0` when the evaluator outputs are `≥ 0`; the
aggregations, strain counts and `eval` then give non-negative attributes.
-/
namespace Rosu.PipelineOsu
open Rosu.PerfCalc Rosu.SkillOps

/-- section peak, stored peaks and object strains are `≥ 0` -/
def StOK {σ : Type} (st : StateV ℝ σ) : Prop :=
  0 ≤ st.sectionPeak ∧ (∀ x ∈ st.peaks, 0 ≤ x) ∧ ∀ x ∈ st.objectStrains, 0 ≤ x

theorem StOK_init {σ : Type} (s0 : σ) : StOK (StateV.init (0.0 : ℝ) s0) := by
  refine ⟨?_, ?_, ?_⟩
  · show (0 : ℝ) ≤ (0.0 : ℝ); norm_num
  · intro x hx; cases hx
  · intro x hx; cases hx

variable {σ : Type}

theorem sectionLoopV_ok (F : FnsV ℝ (DiffObj ℝ) σ) (I : σ → Prop)
    (hI0 : ∀ s t o, I s → 0 ≤ F.initialStrain s t o) (o : SObj ℝ) :
    ∀ (fuel : Nat) (st st' : StateV ℝ σ), I st.sk → StOK st → sectionLoopV secArith F o fuel st = some st' →
      st'.sk = st.sk ∧ StOK st'
  | 0, st, st', _, hok, h => by
    unfold sectionLoopV at h
    split at h
    · cases h
    · simp only [Option.some.injEq] at h; subst h; exact ⟨rfl, hok⟩
  | fuel + 1, st, st', hi, hok, h => by
    unfold sectionLoopV at h
    split at h
    · exact sectionLoopV_ok F I hI0 o fuel
        { st with sectionPeak := F.initialStrain st.sk st.sectionEnd o,
                  sectionEnd := secArith.addSec st.sectionEnd,
                  peaks := st.peaks ++ [st.sectionPeak] } st' hi
        ⟨hI0 _ _ _ hi, by
          intro x hx
          simp only [List.mem_append, List.mem_singleton] at hx
          rcases hx with hx | rfl
          · exact hok.2.1 x hx
          · exact hok.1, hok.2.2⟩ h
    · simp only [Option.some.injEq] at h; subst h; exact ⟨rfl, hok⟩

theorem processV_ok (F : FnsV ℝ (DiffObj ℝ) σ) (I : σ → Prop)
    (hI0 : ∀ s t o, I s → 0 ≤ F.initialStrain s t o) (fuel : Nat) (st st' : StateV ℝ σ) (o : SObj ℝ)
    (hsv : ∀ s, I s → ∀ r, F.strainValueAt s o = some r → I r.1 ∧ 0 ≤ r.2)
    (hi : I st.sk) (hok : StOK st) (h : processV secArith PPOps.fmax F fuel st o = .ok st') :
    I st'.sk ∧ StOK st' := by
  unfold processV at h
  simp only at h
  split at h
  · cases h
  · rename_i st1 hs
    have h1 := sectionLoopV_ok F I hI0 o fuel _ st1
      (by split <;> exact hi) (by split <;> [exact ⟨hok.1, hok.2.1, hok.2.2⟩; exact hok]) hs
    have hsk : st1.sk = st.sk := by rw [h1.1]; split <;> rfl
    split at h
    · cases h
    · rename_i r hr
      simp only [Res.ok.injEq] at h
      subst h
      obtain ⟨hi', hv⟩ := hsv st1.sk (by rw [hsk]; exact hi) r hr
      refine ⟨hi', ?_, h1.2.2.1, ?_⟩
      · show 0 ≤ max r.2 st1.sectionPeak
        exact le_max_of_le_left hv
      · intro x hx
        simp only [List.mem_append, List.mem_singleton] at hx
        rcases hx with hx | rfl
        · exact h1.2.2.2 x hx
        · exact hv

theorem decay_pos (ms base : ℝ) (hb : 0 < base) : 0 < aimFns.strainDecayPP ms base := by
  unfold aimFns.strainDecayPP
  show 0 < base ^ (ms / 1000.0)
  exact Real.rpow_pos_of_pos hb _

theorem lit015 : (0 : ℝ) < (0.15 : ℝ) := by norm_num
theorem lit03 : (0 : ℝ) < (0.3 : ℝ) := by norm_num

/-- what the skills need of the evaluators at one difficulty object -/
def EvOK (ds : List (DiffObj ℝ)) (c : SkillCfg ℝ) (d : DiffObj ℝ) : Prop :=
  0 ≤ aimEvaluate ds d true ∧ 0 ≤ aimEvaluate ds d false ∧ 0 ≤ speedEvaluate ds d c.hitWindow c.hasAutopilot
    ∧ 0 ≤ rhythmEvaluate ds d c.hitWindow
    ∧ 0 ≤ flashlightEvaluate ds d c.hasHidden c.flScaling c.timePreempt c.timeFadeIn

def AimI (s : ℝ × List ℝ) : Prop := 0 ≤ s.1 ∧ ∀ x ∈ s.2, 0 ≤ x
def SpeedI (s : ℝ × ℝ) : Prop := 0 ≤ s.1 ∧ 0 ≤ s.2
def FlI (s : ℝ) : Prop := 0 ≤ s

/-- every skill's private state and `StrainSkill` fields are `≥ 0` -/
def SkOK (sk : Skills ℝ) : Prop :=
  (AimI sk.aim.sk ∧ StOK sk.aim) ∧ (AimI sk.aimNoSliders.sk ∧ StOK sk.aimNoSliders)
    ∧ (SpeedI sk.speed.sk ∧ StOK sk.speed) ∧ (FlI sk.flashlight.sk ∧ StOK sk.flashlight)

theorem lit_nonneg_256 : (0 : ℝ) ≤ (25.6 : ℝ) := by norm_num
theorem lit_nonneg_146 : (0 : ℝ) ≤ (1.46 : ℝ) := by norm_num
theorem lit_nonneg_fl : (0 : ℝ) ≤ (0.05512 : ℝ) := by norm_num
theorem lit_zero : ((0.0 : ℝ)) = 0 := by norm_num

theorem SkOK_init : SkOK (Skills.init : Skills ℝ) := by
  have z : (0 : ℝ) ≤ (0.0 : ℝ) := le_of_eq lit_zero.symm
  exact ⟨⟨⟨z, by intro x hx; cases hx⟩, StOK_init _⟩, ⟨⟨z, by intro x hx; cases hx⟩, StOK_init _⟩,
    ⟨⟨z, z⟩, StOK_init _⟩, ⟨z, StOK_init _⟩⟩

theorem aim_step (ds : List (DiffObj ℝ)) (b : Bool) (o : SObj ℝ) (he : 0 ≤ aimEvaluate ds o.data b) :
    ∀ s, AimI s → ∀ r, (aimFns ds b).strainValueAt s o = some r → AimI r.1 ∧ 0 ≤ r.2 := by
  intro s hs r hr
  simp only [aimFns, Option.some.injEq] at hr
  subst hr
  have hcs : 0 ≤ s.1 * aimFns.strainDecayPP o.data.deltaTime 0.15 + aimEvaluate ds o.data b * 25.6 :=
    add_nonneg (mul_nonneg hs.1 (decay_pos _ _ lit015).le) (mul_nonneg he lit_nonneg_256)
  refine ⟨⟨hcs, ?_⟩, hcs⟩
  intro x hx
  simp only at hx
  split at hx
  · simp only [List.mem_append, List.mem_singleton] at hx
    rcases hx with hx | rfl
    · exact hs.2 x hx
    · exact hcs
  · exact hs.2 x hx

theorem aim_init (ds : List (DiffObj ℝ)) (b : Bool) :
    ∀ s t o, AimI s → 0 ≤ (aimFns ds b).initialStrain s t o := by
  intro s t o hs
  exact mul_nonneg hs.1 (decay_pos _ _ lit015).le

theorem speed_step (ds : List (DiffObj ℝ)) (c : SkillCfg ℝ) (o : SObj ℝ)
    (he : 0 ≤ speedEvaluate ds o.data c.hitWindow c.hasAutopilot) (hr' : 0 ≤ rhythmEvaluate ds o.data c.hitWindow) :
    ∀ s, SpeedI s → ∀ r, (speedFns ds c).strainValueAt s o = some r → SpeedI r.1 ∧ 0 ≤ r.2 := by
  intro s hs r hr
  simp only [speedFns, Option.some.injEq] at hr
  subst hr
  have hcs : 0 ≤ s.1 * aimFns.strainDecayPP o.data.strainTime 0.3
      + speedEvaluate ds o.data c.hitWindow c.hasAutopilot * 1.46 :=
    add_nonneg (mul_nonneg hs.1 (decay_pos _ _ lit03).le) (mul_nonneg he lit_nonneg_146)
  exact ⟨⟨hcs, hr'⟩, mul_nonneg hcs hr'⟩

theorem speed_init (ds : List (DiffObj ℝ)) (c : SkillCfg ℝ) :
    ∀ s t o, SpeedI s → 0 ≤ (speedFns ds c).initialStrain s t o := by
  intro s t o hs
  exact mul_nonneg (mul_nonneg hs.1 hs.2) (decay_pos _ _ lit03).le

theorem fl_step (ds : List (DiffObj ℝ)) (c : SkillCfg ℝ) (o : SObj ℝ)
    (he : 0 ≤ flashlightEvaluate ds o.data c.hasHidden c.flScaling c.timePreempt c.timeFadeIn) :
    ∀ s, FlI s → ∀ r, (flashlightFns ds c).strainValueAt s o = some r → FlI r.1 ∧ 0 ≤ r.2 := by
  intro s hs r hr
  simp only [flashlightFns, Option.some.injEq] at hr
  subst hr
  have hcs : 0 ≤ s * aimFns.strainDecayPP o.data.deltaTime 0.15
      + flashlightEvaluate ds o.data c.hasHidden c.flScaling c.timePreempt c.timeFadeIn * 0.05512 :=
    add_nonneg (mul_nonneg hs (decay_pos _ _ lit015).le) (mul_nonneg he lit_nonneg_fl)
  exact ⟨hcs, hcs⟩

theorem fl_init (ds : List (DiffObj ℝ)) (c : SkillCfg ℝ) :
    ∀ s t o, FlI s → 0 ≤ (flashlightFns ds c).initialStrain s t o := by
  intro s t o hs
  exact mul_nonneg hs (decay_pos _ _ lit015).le

theorem process_ok (ds : List (DiffObj ℝ)) (c : SkillCfg ℝ) (fuel : Nat) (sk sk' : Skills ℝ) (d : DiffObj ℝ)
    (he : EvOK ds c d) (hok : SkOK sk) (h : Skills.process ds c fuel sk d = .ok sk') : SkOK sk' := by
  unfold Skills.process at h
  obtain ⟨e1, e2, e3, e4, e5⟩ := he
  obtain ⟨⟨a1, a2⟩, ⟨b1, b2⟩, ⟨c1, c2⟩, ⟨d1, d2⟩⟩ := hok
  cases ha : processV secArith PPOps.fmax (aimFns ds true) fuel sk.aim (sobj d) with
  | panic => rw [ha] at h; cases h
  | fuel => rw [ha] at h; cases h
  | ok a =>
    cases hb : processV secArith PPOps.fmax (aimFns ds false) fuel sk.aimNoSliders (sobj d) with
    | panic => rw [ha, hb] at h; cases h
    | fuel => rw [ha, hb] at h; cases h
    | ok an =>
      cases hc : processV secArith PPOps.fmax (speedFns ds c) fuel sk.speed (sobj d) with
      | panic => rw [ha, hb, hc] at h; cases h
      | fuel => rw [ha, hb, hc] at h; cases h
      | ok sp =>
        cases hd : processV secArith PPOps.fmax (flashlightFns ds c) fuel sk.flashlight (sobj d) with
        | panic => rw [ha, hb, hc, hd] at h; cases h
        | fuel => rw [ha, hb, hc, hd] at h; cases h
        | ok fl =>
          rw [ha, hb, hc, hd] at h
          simp only [Res.bind, Res.ok.injEq] at h
          subst h
          exact ⟨processV_ok _ AimI (aim_init ds true) fuel _ _ _ (aim_step ds true (sobj d) e1) a1 a2 ha,
            processV_ok _ AimI (aim_init ds false) fuel _ _ _ (aim_step ds false (sobj d) e2) b1 b2 hb,
            processV_ok _ SpeedI (speed_init ds c) fuel _ _ _ (speed_step ds c (sobj d) e3 e4) c1 c2 hc,
            processV_ok _ FlI (fl_init ds c) fuel _ _ _ (fl_step ds c (sobj d) e5) d1 d2 hd⟩

theorem processAll_ok (ds : List (DiffObj ℝ)) (c : SkillCfg ℝ) (fuel : Nat) :
    ∀ (l : List (DiffObj ℝ)) (sk sk' : Skills ℝ), (∀ d ∈ l, EvOK ds c d) → SkOK sk →
      Skills.processAll ds c fuel sk l = .ok sk' → SkOK sk'
  | [], sk, sk', _, hok, h => by
    simp only [Skills.processAll, Res.ok.injEq] at h; subst h; exact hok
  | d :: rest, sk, sk', he, hok, h => by
    unfold Skills.processAll at h
    cases hp : Skills.process ds c fuel sk d with
    | panic => rw [hp] at h; cases h
    | fuel => rw [hp] at h; cases h
    | ok sk1 =>
      rw [hp] at h
      exact processAll_ok ds c fuel rest sk1 sk' (fun x hx => he x (List.mem_cons_of_mem _ hx))
        (process_ok ds c fuel sk sk1 d (he d List.mem_cons_self) hok hp) h

/-! ## aggregation and `eval` -/

theorem lit_one : ((1.0 : ℝ)) = 1 := by norm_num

theorem aggOpsPP_eq : (aggOpsPP : Rosu.Agg.Ops ℝ) = Rosu.Agg.fieldOps ℝ := by
  have e3 : (fun x : ℝ => !(PPOps.beq x (0.0 : ℝ))) = fun x => decide (x ≠ 0) := by
    funext x
    by_cases hx : x = 0
    · subst hx
      have : PPOps.beq (0 : ℝ) 0.0 = true := by rw [r_beq]; exact lit_zero.symm
      simp [this]
    · have : PPOps.beq x (0.0 : ℝ) = false := by rw [r_beq_false, lit_zero]; exact hx
      simp [this, hx]
  have e4 : (fun a b : ℝ => PPOps.le b a) = fun a b => decide (b ≤ a) := by
    funext a b
    by_cases h : b ≤ a
    · have : PPOps.le b a = true := (r_le b a).mpr h
      simp [this, h]
    · have : PPOps.le b a = false := (r_le_false b a).mpr h
      simp [this, h]
  have e5 : (fun x : ℝ => PPOps.lt (0.0 : ℝ) x) = fun x => decide (0 < x) := by
    funext x
    rw [lit_zero]
    by_cases h : (0 : ℝ) < x
    · have : PPOps.lt (0 : ℝ) x = true := (r_lt 0 x).mpr h
      simp [this, h]
    · have : PPOps.lt (0 : ℝ) x = false := (r_lt_false 0 x).mpr h
      simp [this, h]
  unfold aggOpsPP Rosu.Agg.fieldOps
  simp only [Rosu.Agg.Ops.mk.injEq]
  exact ⟨lit_zero, lit_one, trivial, trivial, e3, e4, e5⟩

theorem pushCanonPP_nonneg (x : ℝ) : 0 ≤ pushCanonPP x := by
  unfold pushCanonPP
  split
  · rename_i h
    simp only [r_isNaN, Bool.or_false, r_lt] at h
    rw [lit_zero] at h
    exact h.le
  · exact le_of_eq lit_zero.symm

theorem currentPeaks_nonneg (st : StateV ℝ σ) : ∀ x ∈ currentPeaks st, 0 ≤ x := by
  intro x hx
  unfold currentPeaks at hx
  obtain ⟨y, _, rfl⟩ := List.mem_map.mp hx
  exact pushCanonPP_nonneg y

theorem reducedFactor_nonneg (k i : Nat) : (0 : ℝ) ≤ reducedFactor k i := by
  unfold reducedFactor
  extract_lets q0 q scale
  have hq : 0 ≤ q ∧ q ≤ 1 := by
    show 0 ≤ (if PPOps.lt q0 (0.0 : ℝ) then (0.0 : ℝ) else if PPOps.lt (1.0 : ℝ) q0 then (1.0 : ℝ) else q0)
      ∧ (if PPOps.lt q0 (0.0 : ℝ) then (0.0 : ℝ) else if PPOps.lt (1.0 : ℝ) q0 then (1.0 : ℝ) else q0) ≤ 1
    rw [lit_zero, lit_one]
    by_cases h1 : q0 < 0
    · rw [if_pos ((r_lt _ _).mpr h1)]; norm_num
    · rw [if_neg (by rw [r_lt]; exact h1)]
      by_cases h2 : (1 : ℝ) < q0
      · rw [if_pos ((r_lt _ _).mpr h2)]; norm_num
      · rw [if_neg (by rw [r_lt]; exact h2)]; exact ⟨not_lt.mp h1, not_lt.mp h2⟩
  clear_value q
  have hs : 0 ≤ scale := by
    show 0 ≤ Real.log (lerpSE (1.0 : ℝ) 10.0 q) / Real.log 10
    apply div_nonneg
    · apply Real.log_nonneg
      show (1 : ℝ) ≤ (1.0 : ℝ) + ((10.0 : ℝ) - 1.0) * q
      norm_num
      nlinarith [hq.1]
    · exact Real.log_nonneg (by norm_num)
  clear_value scale
  show (0 : ℝ) ≤ (0.75 : ℝ) + ((1.0 : ℝ) - 0.75) * scale
  norm_num
  nlinarith [hs]

theorem osuSkillDV_nonneg (k : Nat) (st : StateV ℝ σ) : 0 ≤ osuSkillDV k st := by
  unfold osuSkillDV
  rw [aggOpsPP_eq]
  exact Rosu.Agg.osuDifficultyValue_nonneg (by norm_num) (reducedFactor_nonneg k) k
    (currentPeaks_nonneg st)

theorem foldl_add_nonneg (f : ℝ → ℝ) (hf : ∀ s, 0 ≤ f s) : ∀ (l : List ℝ) (acc : ℝ), 0 ≤ acc →
    0 ≤ l.foldl (fun a s => a + f s) acc
  | [], acc, h => h
  | x :: t, acc, h => foldl_add_nonneg f hf t _ (add_nonneg h (hf x))

theorem negzero : (-(0.0 : ℝ)) = 0 := by rw [lit_zero]; simp

theorem flashlightDV_nonneg (st : StateV ℝ σ) : 0 ≤ flashlightDV st := by
  unfold flashlightDV Rosu.Agg.flashlightValue
  rw [negzero]
  suffices h : ∀ (l : List ℝ) (acc : ℝ), (∀ x ∈ l, 0 ≤ x) → 0 ≤ acc → 0 ≤ l.foldl aggOpsPP.add acc from
    h _ 0 (fun x hx => currentPeaks_nonneg st x (List.mem_of_mem_filter hx)) le_rfl
  intro l
  induction l with
  | nil => intro acc _ h; exact h
  | cons x t ih =>
    intro acc hl h
    exact ih _ (fun y hy => hl y (List.mem_cons_of_mem _ hy)) (add_nonneg h (hl x List.mem_cons_self))

theorem logistic_term_nonneg (a b : ℝ) (ha : 0 ≤ a) : 0 ≤ a / (1 + Real.exp b) :=
  div_nonneg ha (by positivity)

theorem countTopWeighted_nonneg (l : List ℝ) (dv : ℝ) : 0 ≤ countTopWeighted l dv := by
  unfold countTopWeighted
  split
  · exact le_of_eq lit_zero.symm
  · dsimp only
    split
    · show (0 : ℝ) ≤ ((l.length : ℕ) : ℝ); positivity
    · rw [negzero]
      apply foldl_add_nonneg (fun s => (1.1 : ℝ) / ((1.0 : ℝ) + PPOps.exp (-(10.0 : ℝ) * (s / (dv / 10.0) - 0.88))))
      · intro s
        show (0 : ℝ) ≤ (1.1 : ℝ) / ((1.0 : ℝ) + Real.exp _)
        have h11 : (0 : ℝ) ≤ (1.1 : ℝ) := by norm_num
        rw [lit_one]
        exact logistic_term_nonneg _ _ h11
      · exact le_rfl

theorem relevantNoteCount_nonneg (l : List ℝ) : 0 ≤ relevantNoteCount l := by
  unfold relevantNoteCount
  cases l with
  | nil => exact le_of_eq lit_zero.symm
  | cons x xs =>
    simp only
    split
    · apply foldl_add_nonneg (fun s => (1.0 : ℝ) / ((1.0 : ℝ) + PPOps.exp (-(s / _ * (12.0 : ℝ) - 6.0))))
      · intro s
        show (0 : ℝ) ≤ (1.0 : ℝ) / ((1.0 : ℝ) + Real.exp _)
        rw [lit_one]
        exact logistic_term_nonneg _ _ (by norm_num)
      · exact le_of_eq lit_zero.symm
    · exact le_of_eq lit_zero.symm

theorem difficultSliders_nonneg (l : List ℝ) : 0 ≤ difficultSliders l := by
  unfold difficultSliders
  split
  · exact le_of_eq lit_zero.symm
  · simp only
    split
    · exact le_of_eq lit_zero.symm
    · rw [negzero]
      apply foldl_add_nonneg (fun s => (1.0 : ℝ) / ((1.0 : ℝ) + PPOps.exp (-(s / _ * (12.0 : ℝ) - 6.0))))
      · intro s
        show (0 : ℝ) ≤ (1.0 : ℝ) / ((1.0 : ℝ) + Real.exp _)
        rw [lit_one]
        exact logistic_term_nonneg _ _ (by norm_num)
      · exact le_rfl

/-- every rating, the strain counts, the slider count and `speed_note_count` are `≥ 0`, `stars > 0` — for ANY
skill state (the peaks are canonicalised by `StrainsVec::push`, the logistic sums have positive terms) -/
theorem evalAttrs_nonneg (st : Settings ℝ) (c : Rosu.ConvOsu.Counts) (sk : Skills ℝ) :
    let a := evalAttrs st c sk
    0 ≤ a.aim ∧ 0 ≤ a.speed ∧ 0 ≤ a.flashlight ∧ 0 ≤ a.sliderFactor ∧ 0 < a.stars
      ∧ 0 ≤ a.aimDifficultSliderCount ∧ 0 ≤ a.speedNoteCount ∧ 0 ≤ a.aimDifficultStrainCount
      ∧ 0 ≤ a.speedDifficultStrainCount := by
  intro a
  obtain ⟨h1, h2, h3, h4, h5⟩ := osuEval_nonneg st.mods (osuSkillDV_nonneg 10 sk.aim)
    (osuSkillDV_nonneg 10 sk.aimNoSliders) (osuSkillDV_nonneg 5 sk.speed) (flashlightDV_nonneg sk.flashlight)
  exact ⟨h1, h2, h3, h4, h5, difficultSliders_nonneg _, relevantNoteCount_nonneg _,
    countTopWeighted_nonneg _ _, countTopWeighted_nonneg _ _⟩

end Rosu.PipelineOsu
