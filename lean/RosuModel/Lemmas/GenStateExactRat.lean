import Mathlib.Data.Rat.Floor
import RosuModel.Lemmas.GenStateExact
import RosuModel.Model.GenStateWire

/-!
# The driver's exact instance is the instance of the C13 theorems

`ratOps` (`Model/GenStateWire.lean`, core `Rat`, compiled into the driver and used for `GSQ` lines)
equals `fieldOps (2 : ℚ)`, the instance the optimality theorems of `Props/C13.lean` are stated for
(at `K = ℚ`, sentinel `2`).
-/

namespace Rosu.GenState.Opt

theorem ratOps_eq_fieldOps : ratOps = fieldOps (2 : ℚ) := by
  have habs : (fun a : ℚ => if a < 0 then -a else a) = fun a : ℚ => |a| := by
    funext a
    split
    · next h => exact (abs_of_neg h).symm
    · next h => exact (abs_of_nonneg (not_lt.1 h)).symm
  have hlt : (fun a b : ℚ => decide (a < b)) = fun a b : ℚ => decide (a < b) := by
    funext a b
    congr
  unfold ratOps fieldOps
  congr
