import RosuModel.Lemmas.GenStateManiaSearch

/-!
C12 lemmas for the mania nested search, part 2: the priority shifts preserve the invariant of
`best`, and the resulting specification of `maniaGenRaw` in the search arm.
-/
namespace Rosu.GenState
set_option linter.unusedSectionVars false
set_option linter.unusedSimpArgs false

variable {R : Type} [NumOps R]

/-- `maniaShift` with the tests spelled as Booleans (`oK` = result K is open) -/
def maniaShiftB (classic o1 o2 o3 o4 o5 : Bool) (prio : Prio) (s : ManiaState) : ManiaState × Bool :=
  if classic && o1 then
    let s := if o2 then { s with n320 := s.n320 + s.n300, n300 := 0 } else s
    match prio with
    | .best =>
      let (s, k1) : ManiaState × Bool := if o4 && o3 then
          let n := s.n200 / 2
          ({ s with n320 := s.n320 + n, n200 := s.n200 - 2 * n, n100 := s.n100 + n }, decide (2 * n ≤ s.n200))
        else (s, true)
      let (s, k2) : ManiaState × Bool := if o5 && o3 then
          let n := s.n200 / 5
          ({ s with n320 := s.n320 + n * 3, n200 := s.n200 - n * 5, n50 := s.n50 + n * 2 }, decide (n * 5 ≤ s.n200))
        else (s, true)
      let s := if o2 then { s with n320 := s.n320 + s.n300, n300 := 0 } else s
      (s, k1 && k2)
    | .worst =>
      let (s, k1) : ManiaState × Bool := if o4 && o3 then
          let n := min s.n320 s.n100
          ({ s with n320 := s.n320 - n, n200 := s.n200 + 2 * n, n100 := s.n100 - n },
            decide (n ≤ s.n320) && decide (n ≤ s.n100))
        else (s, true)
      let (s, k2) : ManiaState × Bool := if o5 && o3 then
          let n := min (s.n320 / 3) (s.n50 / 2)
          ({ s with n320 := s.n320 - n * 3, n200 := s.n200 + n * 5, n50 := s.n50 - n * 2 },
            decide (n * 3 ≤ s.n320) && decide (n * 2 ≤ s.n50))
        else (s, true)
      let s := if o2 then { s with n300 := s.n300 + s.n320, n320 := 0 } else s
      (s, k1 && k2)
  else (s, true)

theorem maniaShift_eq_B (x : ManiaCtx R) (prio : Prio) (s : ManiaState) :
    maniaShift x prio s = maniaShiftB x.classic x.g320.isNone x.g300.isNone x.g200.isNone x.g100.isNone
      x.g50.isNone prio s := rfl

set_option maxHeartbeats 1000000 in
/-- The priority shifts move hits between **open** results only and keep their sum. -/
theorem maniaShiftB_good (classic o1 o2 o3 o4 o5 : Bool) (nRem nObj misses p1 p2 p3 p4 p5 : Nat) (hit : Bool)
    (prio : Prio) (s : ManiaState)
    (h : ManiaGoodB o1 o2 o3 o4 o5 nRem nObj misses p1 p2 p3 p4 p5 hit s) :
    ManiaGoodB o1 o2 o3 o4 o5 nRem nObj misses p1 p2 p3 p4 p5 hit (maniaShiftB classic o1 o2 o3 o4 o5 prio s).1 := by
  obtain ⟨s1, s2, s3, s4, s5, s6⟩ := s
  obtain ⟨hm, h1, h2, h3, h4, h5, hl, ho, hg, he⟩ := h
  simp only [ManiaState.totalHits] at hm h1 h2 h3 h4 h5 hl ho hg he
  unfold maniaShiftB
  cases classic <;> cases o1 <;>
    simp only [Bool.and_false, Bool.and_true, Bool.false_and, Bool.true_and, Bool.false_eq_true, if_false, if_true]
  · exact ⟨hm, h1, h2, h3, h4, h5, hl, ho, hg, he⟩
  · exact ⟨hm, h1, h2, h3, h4, h5, hl, ho, hg, he⟩
  · exact ⟨hm, h1, h2, h3, h4, h5, hl, ho, hg, he⟩
  · cases prio <;> cases o2 <;> cases o3 <;> cases o4 <;> cases o5 <;>
      simp only [Bool.and_false, Bool.and_true, Bool.false_and, Bool.true_and, Bool.false_eq_true, if_false,
        if_true, forall_const, false_implies, reduceCtorEq] at h1 h2 h3 h4 h5 ho ⊢ <;>
      (constructor <;>
        simp only [ManiaState.totalHits, Bool.false_eq_true, if_false, if_true, forall_const, false_implies,
          reduceCtorEq] <;>
        first | omega | assumption | (intro hp; have := he hp; omega))

/-! ### from the model's context to the Boolean bookkeeping -/

/-- The search context as `maniaGenRaw` builds it: `n_remaining = n_objects - misses` did not
underflow, the `nXXX` are the clamped provided values (`0` when absent), at least two are open. -/
structure ManiaCtxWF (x : ManiaCtx R) : Prop where
  rem : x.nRemaining + x.misses = x.nObjects
  e320 : x.n320 = optMin x.g320 x.nRemaining
  e300 : x.n300 = optMin x.g300 x.nRemaining
  e200 : x.n200 = optMin x.g200 x.nRemaining
  e100 : x.n100 = optMin x.g100 x.nRemaining
  e50 : x.n50 = optMin x.g50 x.nRemaining
  two : 2 ≤ openCountB x.g320.isNone x.g300.isNone x.g200.isNone x.g100.isNone x.g50.isNone

/-- the invariant of `best`, for a model context -/
def ManiaSearchGood (x : ManiaCtx R) (hit : Bool) (s : ManiaState) : Prop :=
  ManiaGoodB x.g320.isNone x.g300.isNone x.g200.isNone x.g100.isNone x.g50.isNone
    x.nRemaining x.nObjects x.misses x.n320 x.n300 x.n200 x.n100 x.n50 hit s

theorem cwin_bool (g : Option Nat) (nRem k bound p : Nat) (e : p = optMin g nRem) (h : CWin g nRem k bound) :
    (g.isNone = true → p = 0) ∧ p ≤ nRem ∧ (g.isNone = false → k = p) ∧ (g.isNone = true → k ≤ bound) := by
  obtain ⟨hs, hn⟩ := h
  subst e
  refine ⟨?_, optMin_le _ _, ?_, ?_⟩
  · cases g <;> simp
  · cases g with
    | none => simp
    | some v => intro _; simpa using hs v rfl
  · cases g with
    | none => intro _; exact hn rfl
    | some v => simp

theorem clast_bool (g : Option Nat) (nRem k rest p : Nat) (e : p = optMin g nRem) (h : CLast g nRem k rest) :
    (g.isNone = true → p = 0) ∧ p ≤ nRem ∧ (g.isNone = false → k = p) ∧ (g.isNone = true → k = rest) := by
  obtain ⟨hs, hn⟩ := h
  subst e
  refine ⟨?_, optMin_le _ _, ?_, ?_⟩
  · cases g <;> simp
  · cases g with
    | none => simp
    | some v => intro _; simpa using hs v rfl
  · cases g with
    | none => intro _; exact hn rfl
    | some v => simp

theorem ManiaCandOk.toB {x : ManiaCtx R} (hwf : ManiaCtxWF x) {k1 k2 k3 k4 k5 : Nat}
    (hc : ManiaCandOk x k1 k2 k3 k4 k5) :
    ManiaCandB x.g320.isNone x.g300.isNone x.g200.isNone x.g100.isNone x.g50.isNone x.nRemaining
      x.n320 x.n300 x.n200 x.n100 x.n50 k1 k2 k3 k4 k5 := by
  obtain ⟨z1, l1, g1, b1⟩ := cwin_bool _ _ _ _ _ hwf.e320 hc.c320
  obtain ⟨z2, l2, g2, b2⟩ := cwin_bool _ _ _ _ _ hwf.e300 hc.c300
  obtain ⟨z3, l3, g3, b3⟩ := cwin_bool _ _ _ _ _ hwf.e200 hc.c200
  obtain ⟨z4, l4, g4, b4⟩ := cwin_bool _ _ _ _ _ hwf.e100 hc.c100
  obtain ⟨z5, l5, g5, b5⟩ := clast_bool _ _ _ _ _ hwf.e50 hc.c50
  exact ⟨z1, z2, z3, z4, z5, l1, l2, l3, l4, l5, g1, g2, g3, g4, g5, b1, b2, b3, b4, b5⟩

/-- the initial `best` (nothing accepted yet) satisfies the invariant -/
theorem best0B_good (o1 o2 o3 o4 o5 : Bool) (nRem nObj misses p1 p2 p3 p4 p5 : Nat)
    (hrem : nRem + misses = nObj) (l1 : p1 ≤ nRem) (l2 : p2 ≤ nRem) (l3 : p3 ≤ nRem) (l4 : p4 ≤ nRem)
    (z1 : o1 = true → p1 = 0) (z2 : o2 = true → p2 = 0) (z3 : o3 = true → p3 = 0) (z4 : o4 = true → p4 = 0) :
    ManiaGoodB o1 o2 o3 o4 o5 nRem nObj misses p1 p2 p3 p4 p5 false
      ⟨p1, p2, p3, p4, nRem - (p1 + p2 + p3 + p4), misses⟩ := by
  cases o1 <;> cases o2 <;> cases o3 <;> cases o4 <;> cases o5 <;>
    simp only [Bool.false_eq_true, forall_const, false_implies] at z1 z2 z3 z4 <;>
    (constructor <;>
      simp only [ManiaState.totalHits, Bool.false_eq_true, if_false, if_true, forall_const, false_implies,
        reduceCtorEq, implies_true] <;> omega)

/-- **The result of the nested search satisfies the invariant** — for every arithmetic `R`. -/
theorem maniaSearch_good (x : ManiaCtx R) (hwf : ManiaCtxWF x) :
    ManiaSearchGood x (maniaSearch x).hit (maniaSearch x).val := by
  apply maniaSearch_cand (fun a => ManiaSearchGood x a.hit a.val)
  · have hz : ∀ (g : Option Nat) (p : Nat), p = optMin g x.nRemaining → (g.isNone = true → p = 0) := by
      intro g p e; subst e; cases g <;> simp
    exact best0B_good _ _ _ _ _ _ _ _ _ _ _ _ _ hwf.rem
      (hwf.e320 ▸ optMin_le _ _) (hwf.e300 ▸ optMin_le _ _) (hwf.e200 ▸ optMin_le _ _) (hwf.e100 ▸ optMin_le _ _)
      (hz _ _ hwf.e320) (hz _ _ hwf.e300) (hz _ _ hwf.e200) (hz _ _ hwf.e100)
  · intro a d k1 k2 k3 k4 k5 hc ha
    rcases offer_cases a d (maniaFill x ⟨k1, k2, k3, k4, k5, x.misses⟩) with h | h <;> rw [h]
    · exact ha
    · rw [maniaFill_eq_B]
      exact maniaFillB_good _ _ _ _ _ _ _ _ _ _ _ _ _ _ _ _ _ _ hwf.rem hwf.two (ManiaCandOk.toB hwf hc)

/-- … and so does the state after the priority shifts. -/
theorem maniaSearchShift_good (x : ManiaCtx R) (hwf : ManiaCtxWF x) (prio : Prio) :
    ManiaSearchGood x (maniaSearch x).hit (maniaShift x prio (maniaSearch x).val).1 := by
  rw [maniaShift_eq_B]
  exact maniaShiftB_good _ _ _ _ _ _ _ _ _ _ _ _ _ _ _ _ _ (maniaSearch_good x hwf)

/-- every result of a state satisfying the invariant is at most `n_remaining` -/
theorem ManiaGoodB.les {o1 o2 o3 o4 o5 : Bool} {nRem nObj misses p1 p2 p3 p4 p5 : Nat} {hit : Bool}
    {s : ManiaState} (h : ManiaGoodB o1 o2 o3 o4 o5 nRem nObj misses p1 p2 p3 p4 p5 hit s)
    (l1 : p1 ≤ nRem) (l2 : p2 ≤ nRem) (l3 : p3 ≤ nRem) (l4 : p4 ≤ nRem) :
    s.n320 ≤ nRem ∧ s.n300 ≤ nRem ∧ s.n200 ≤ nRem ∧ s.n100 ≤ nRem ∧ s.n50 ≤ nRem := by
  obtain ⟨hm, h1, h2, h3, h4, h5, hl, ho, hg, he⟩ := h
  cases o1 <;> cases o2 <;> cases o3 <;> cases o4 <;> cases o5 <;>
    simp only [Bool.false_eq_true, if_false, if_true, forall_const, false_implies, reduceCtorEq] at h1 h2 h3 h4 ho <;>
    omega

end Rosu.GenState
