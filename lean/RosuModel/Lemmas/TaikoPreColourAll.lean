import RosuModel.Lemmas.TaikoPreRep

/-!
`colourOf` (mono streaks → alternating patterns → repeating patterns → repetition intervals →
per-object assignment) of `Model/TaikoPre.lean` never fails on a well-formed store, with the
structural invariants of the three levels.
-/

namespace Rosu.TaikoPre

variable {T : Type}

theorem mapM_option_forall {α β : Type} (f : α → Option β) (P : β → Prop) :
    ∀ (l : List α), (∀ x ∈ l, ∃ y, f x = some y ∧ P y) →
      ∃ ys, l.mapM f = some ys ∧ ys.length = l.length ∧ ∀ y ∈ ys, P y
  | [], _ => ⟨[], by simp, rfl, by simp⟩
  | a :: l, h => by
    obtain ⟨y, hy, hP⟩ := h a (List.mem_cons_self ..)
    obtain ⟨ys, hys, hl, hall⟩ := mapM_option_forall f P l (fun x hx => h x (List.mem_cons_of_mem _ hx))
    refine ⟨y :: ys, by simp [List.mapM_cons, hy, hys], by simp [hl], ?_⟩
    intro z hz
    rcases List.mem_cons.mp hz with hz | hz
    · subst hz; exact hP
    · exact hall z hz

theorem zipIdx_flatMap_map' {α β γ : Type} (f : α × Nat → List β) (g : β → γ) (h : α → List γ)
    (hf : ∀ x i, (f (x, i)).map g = h x) :
    ∀ (l : List α) (k : Nat), ((l.zipIdx k).flatMap f).map g = l.flatMap h
  | [], _ => by simp
  | a :: l, k => by
    simp only [List.zipIdx_cons, List.flatMap_cons, List.map_append, hf]
    rw [zipIdx_flatMap_map' f g h hf l (k + 1)]

theorem flatMap_flatten_eq {α β : Type} (g : α → List β) :
    ∀ (L : List (List α)), L.flatMap (fun l => l.flatMap g) = L.flatten.flatMap g
  | [] => by simp
  | l :: L => by simp [List.flatMap_append, flatMap_flatten_eq g L]

theorem colourEntries_fst (reps : List Rep) :
    (colourEntries reps).map (·.1) = reps.flatten.flatten.flatten := by
  have inner : ∀ (c : Nat → ColourOf) (mono : Mono) (k : Nat),
      ((mono.zipIdx k).map fun (x : Nat × Nat) => (x.1, c x.2)).map (·.1) = mono := by
    intro c mono k
    rw [List.map_map]
    have : ((fun (e : Nat × ColourOf) => e.1) ∘ fun (x : Nat × Nat) => (x.1, c x.2)) = Prod.fst := by
      funext x; rfl
    rw [this, List.zipIdx_map_fst]
  have hmono : ∀ (r a : Nat) (alt : Alt) (k : Nat),
      ((alt.zipIdx k).flatMap fun (x : Mono × Nat) =>
        x.1.zipIdx.map fun (y : Nat × Nat) => (y.1, ((r, a, x.2, y.2) : ColourOf))).map (·.1) =
      alt.flatMap id := by
    intro r a alt k
    apply zipIdx_flatMap_map'
    intro mono m
    exact inner (fun pos => (r, a, m, pos)) mono 0
  have halt : ∀ (r : Nat) (rep : Rep) (k : Nat),
      ((rep.zipIdx k).flatMap fun (x : Alt × Nat) =>
        x.1.zipIdx.flatMap fun (y : Mono × Nat) =>
          y.1.zipIdx.map fun (z : Nat × Nat) => (z.1, ((r, x.2, y.2, z.2) : ColourOf))).map (·.1) =
      rep.flatMap fun alt => alt.flatMap id := by
    intro r rep k
    apply zipIdx_flatMap_map'
    intro alt a
    exact hmono r a alt 0
  have hrep : (colourEntries reps).map (·.1) =
      reps.flatMap fun rep => rep.flatMap fun alt => alt.flatMap id := by
    unfold colourEntries
    apply zipIdx_flatMap_map'
    intro rep r
    exact halt r rep 0
  rw [hrep, flatMap_flatten_eq, flatMap_flatten_eq, List.flatMap_id]

theorem lookupLast_mem {α : Type} (entries : List (Nat × α)) (p : Nat) (c : α)
    (h : lookupLast entries p = some c) : (p, c) ∈ entries := by
  unfold lookupLast at h
  cases hf : entries.reverse.find? (fun e => e.1 == p) with
  | none => simp [hf] at h
  | some e =>
    simp [hf] at h
    have hm := List.mem_reverse.mp (List.mem_of_find?_eq_some hf)
    have hp := List.find?_some hf
    have : e = (p, c) := by
      obtain ⟨e1, e2⟩ := e
      simp at hp h
      simp [hp, h]
    rw [← this]; exact hm

/-- An assignment of `process_and_assign` points at the streak that contains the object, at its
position: `reps[r][a][m][pos] = p`. -/
theorem mem_colourEntries {reps : List Rep} {p : Nat} {c : ColourOf} (h : (p, c) ∈ colourEntries reps) :
    ∃ rep alt mono, reps[c.1]? = some rep ∧ rep[c.2.1]? = some alt ∧ alt[c.2.2.1]? = some mono ∧
      mono[c.2.2.2]? = some p := by
  unfold colourEntries at h
  simp only [List.mem_flatMap, List.mem_map] at h
  obtain ⟨⟨rep, r⟩, hr, ⟨alt, a⟩, ha, ⟨mono, m⟩, hm, ⟨q, pos⟩, hq, heq⟩ := h
  rw [List.mem_zipIdx_iff_getElem?] at hr ha hm hq
  cases heq
  exact ⟨rep, alt, mono, hr, ha, hm, hq⟩

/-- The structural facts about the colour encoding of a store. -/
structure ColourInv (st : Store T) (monos : List Mono) (alts : List Alt) (reps : List Rep)
    (ivs : List Nat) (colour : List ColourOf) : Prop where
  monos_partition : monos.flatten = List.range st.objects.length
  monos_nonempty : ∀ m ∈ monos, m ≠ []
  alts_partition : alts.flatten = monos
  alts_nonempty : ∀ a ∈ alts, a ≠ []
  alts_equal_runs : ∀ a ∈ alts, ∀ m ∈ a, ∀ m' ∈ a, m.length = m'.length
  reps_partition : reps.flatten = alts
  reps_nonempty : ∀ r ∈ reps, r ≠ []
  intervals_len : ivs.length = reps.length
  intervals_range : ∀ v ∈ ivs, 1 ≤ v ∧ v ≤ maxRepetitionInterval + 1
  colour_len : colour.length = st.objects.length
  /-- every position stored in a streak is a valid object position -/
  positions_valid : ∀ rep ∈ reps, ∀ alt ∈ rep, ∀ mono ∈ alt, ∀ q ∈ mono, q < st.objects.length
  /-- the colour data of object `p` points at the streak that contains `p`, at `p`'s position -/
  colour_points : ∀ p (c : ColourOf), colour[p]? = some c →
    ∃ rep alt mono, reps[c.1]? = some rep ∧ rep[c.2.1]? = some alt ∧ alt[c.2.2.1]? = some mono ∧
      mono[c.2.2.2]? = some p

/-- Colour preprocessing never fails on a well-formed store. -/
theorem colourOf_spec (st : Store T) (h : st.WF) :
    ∃ monos alts reps ivs colour, colourOf st = some (monos, alts, reps, ivs, colour) ∧
      ColourInv st monos alts reps ivs colour := by
  obtain ⟨monos, hm1, hm2, hm3⟩ := encodeMono_spec st h
  obtain ⟨ha1, ha2, ha3⟩ := encodeAlt_spec monos
  have hpos : ∀ a ∈ encodeAlt monos, ∀ m ∈ a, ∀ p ∈ m, p < st.objects.length := by
    intro a ha m hm p hp
    have hmm : m ∈ monos := by rw [← ha1]; exact List.mem_flatten.mpr ⟨a, ha, hm⟩
    have hpp : p ∈ monos.flatten := List.mem_flatten.mpr ⟨m, hmm, hp⟩
    rw [hm2] at hpp
    exact List.mem_range.mp hpp
  have hok : ∀ a ∈ encodeAlt monos, AltOK st a := fun a ha => ⟨ha2 a ha, hpos a ha⟩
  obtain ⟨reps, hr1, hr2, hr3⟩ := repLoop_spec st ((encodeAlt monos).length + 1) (encodeAlt monos) hok
    (by omega)
  have hrne : ∀ r ∈ reps, ∀ x ∈ r, x ≠ [] := by
    intro r hr x hx
    apply ha2
    rw [← hr2]
    exact List.mem_flatten.mpr ⟨r, hr, hx⟩
  obtain ⟨ivs, hi1, hi2, hi3⟩ := mapM_option_forall (findInterval reps)
    (fun v => 1 ≤ v ∧ v ≤ maxRepetitionInterval + 1) (List.range reps.length)
    (fun k hk => findInterval_spec reps hrne k (List.mem_range.mp hk))
  have hfst : (colourEntries reps).map (·.1) = List.range st.objects.length := by
    rw [colourEntries_fst, hr2, ha1, hm2]
  obtain ⟨derefs, hd1, _⟩ := mapM_option_some (fun (e : Nat × ColourOf) => st.objects[e.1]?)
    (colourEntries reps) (by
      intro e he
      have : e.1 ∈ (colourEntries reps).map (·.1) := List.mem_map.mpr ⟨e, he, rfl⟩
      rw [hfst] at this
      have hlt := List.mem_range.mp this
      exact ⟨st.objects[e.1], List.getElem?_eq_getElem hlt⟩)
  obtain ⟨colour, hc1, hc2⟩ := mapM_option_some (lookupLast (colourEntries reps))
    (List.range st.objects.length) (by
      intro p hp
      apply lookupLast_isSome
      rw [hfst]; exact hp)
  refine ⟨monos, encodeAlt monos, reps, ivs, colour, ?_, ?_⟩
  · simp only [colourOf, hm1, hr1, hi1, hd1, hc1, Option.bind_eq_bind, Option.bind_some]
  · refine ⟨hm2, hm3, ha1, ha2, ha3, hr2, hr3, by simpa using hi2, hi3, by simpa using hc2, ?_, ?_⟩
    · intro rep hrep alt halt mono hmono q hq
      have : alt ∈ encodeAlt monos := by rw [← hr2]; exact List.mem_flatten.mpr ⟨rep, hrep, halt⟩
      exact hpos alt this mono hmono q hq
    · intro p c hpc
      have hlt : p < colour.length := lt_of_getElem?_eq_some hpc
      have hlt' : p < (List.range st.objects.length).length := by simpa [hc2] using hlt
      have := mapM_option_get (lookupLast (colourEntries reps)) (List.range st.objects.length) colour hc1 p hlt'
      rw [hpc, List.getElem_range] at this
      exact mem_colourEntries (lookupLast_mem _ _ _ this.symm)

end Rosu.TaikoPre
