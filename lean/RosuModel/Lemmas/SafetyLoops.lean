import RosuModel.Model.SafetyLoops

/-! Termination and closed forms of the C05 time loops (core Lean only). -/
namespace Rosu.Safety

/-- iterations left when the exact loop is at `acc` -/
def progRemaining (step bound acc : Nat) : Nat :=
  if acc ≤ bound then (bound - acc) / step + 1 else 0

theorem progLoop_spec (step bound : Nat) (hs : 0 < step) :
    ∀ (fuel acc count : Nat), progRemaining step bound acc + 1 ≤ fuel →
      progLoop step bound fuel acc count = some (count + progRemaining step bound acc) := by
  intro fuel
  induction fuel with
  | zero => intro acc count h; omega
  | succ fuel ih =>
    intro acc count h
    unfold progLoop
    by_cases hle : acc ≤ bound
    · rw [if_pos hle]
      have hr : progRemaining step bound acc = progRemaining step bound (acc + step) + 1 := by
        unfold progRemaining
        rw [if_pos hle]
        by_cases h2 : acc + step ≤ bound
        · rw [if_pos h2]
          have : (bound - acc) / step = (bound - acc - step) / step + 1 :=
            Nat.div_eq_sub_div hs (by omega)
          rw [this, Nat.sub_add_eq]
        · rw [if_neg h2]
          have : (bound - acc) / step = 0 := Nat.div_eq_of_lt (by omega)
          rw [this]
      rw [ih (acc + step) (count + 1) (by omega), hr]
      congr 1; omega
    · rw [if_neg hle]
      unfold progRemaining
      rw [if_neg hle]; rfl

/-- the exact loop terminates after `bound / step + 1` iterations -/
theorem progLoop_closed (step bound : Nat) (hs : 0 < step) (fuel : Nat) (hf : bound / step + 2 ≤ fuel) :
    progLoop step bound fuel 0 0 = some (bound / step + 1) := by
  have h := progLoop_spec step bound hs fuel 0 0
    (by unfold progRemaining; rw [if_pos (Nat.zero_le _)]; simpa using hf)
  rw [h]
  unfold progRemaining
  rw [if_pos (Nat.zero_le _)]
  simp

/-- with a zero step the exact loop never terminates (why `tick_spacing > 0` / the `== 0` break
and the banana-shower `spacing <= 0` test matter) -/
theorem progLoop_zero_step (bound : Nat) : ∀ (fuel acc count : Nat), acc ≤ bound →
    progLoop 0 bound fuel acc count = none := by
  intro fuel
  induction fuel with
  | zero => intro _ _ _; rfl
  | succ fuel ih =>
    intro acc count h
    unfold progLoop
    rw [if_pos h]
    exact ih (acc + 0) (count + 1) h

theorem halvings_le (d : Nat) : ∀ (fuel k : Nat), d ≤ 100 * 2 ^ (k + fuel) →
    d ≤ 100 * 2 ^ halvings d fuel k := by
  intro fuel
  induction fuel with
  | zero => intro k h; simpa [halvings] using h
  | succ fuel ih =>
    intro k h
    unfold halvings
    split
    · exact ih (k + 1) (by rw [show k + 1 + fuel = k + (fuel + 1) by omega]; exact h)
    · omega

theorem halvings_min (d : Nat) : ∀ (fuel k : Nat), (k = 0 ∨ 100 * 2 ^ (k - 1) < d) →
    (halvings d fuel k = 0 ∨ 100 * 2 ^ (halvings d fuel k - 1) < d) := by
  intro fuel
  induction fuel with
  | zero => intro k h; simpa [halvings] using h
  | succ fuel ih =>
    intro k h
    unfold halvings
    split
    · rename_i hgt
      exact ih (k + 1) (Or.inr (by simpa using hgt))
    · exact h

/-- the halving loop stops with `spacing = d / 2^k ≤ 100` (fuel `d` is always enough) -/
theorem halvings_spec (d : Nat) : d ≤ 100 * 2 ^ halvings d d 0 :=
  halvings_le d d 0 (by
    rw [Nat.zero_add]
    have := @Nat.lt_two_pow_self d
    omega)

/-- `2^k ≤ d / 50` unless no halving happened: the count is linear in the duration -/
theorem two_pow_halvings_le (d : Nat) : 2 ^ halvings d d 0 ≤ d / 50 + 1 := by
  rcases halvings_min d d 0 (Or.inl rfl) with h | h
  · rw [h]; simp
  · generalize halvings d d 0 = k at h
    cases k with
    | zero => simp
    | succ k =>
      simp only [Nat.add_sub_cancel] at h
      rw [Nat.pow_succ]
      have : 2 ^ k * 2 ≤ d / 50 := by
        rw [Nat.le_div_iff_mul_le (by decide)]
        omega
      omega

theorem i32Sub_some_of_range {a b : Int} (ha : 0 ≤ a) (ha' : a ≤ 2147483647) (hb : 0 ≤ b) (hb' : b ≤ 2147483647) :
    i32Sub a b = some (a - b) := by
  unfold i32Sub
  simp only
  rw [if_pos ⟨by omega, by omega⟩]

/-- measure for the guarded loop: how far `time` is below `end` in rank, plus one -/
theorem guardedLoop_terminates {T : Type} (A : TimeArith T) (rank : T → Nat) (end_ spacing : T)
    (hmono : ∀ a b, A.le a b = false → rank b < rank a)
    (hend : ∀ t, A.le t end_ = true → rank t ≤ rank end_) :
    ∀ (fuel : Nat) (time : T) (count : Nat), rank end_ + 1 - rank time + 1 ≤ fuel →
      (guardedLoop A end_ spacing fuel time count).isSome = true := by
  intro fuel
  induction fuel with
  | zero => intro time count h; omega
  | succ fuel ih =>
    intro time count h
    unfold guardedLoop
    cases hle : A.le time end_
    · rfl
    · simp only [if_true]
      cases hnx : A.le (A.add time spacing) time
      · simp only [Bool.false_eq_true, if_false]
        have h1 := hmono _ _ hnx
        have h2 := hend _ hle
        exact ih _ _ (by omega)
      · rfl

/-- every iteration of the fixed loop that does not leave strictly increases `time` -/
theorem guardedLoop_progress {T : Type} (A : TimeArith T) (end_ spacing : T) (fuel : Nat) (time : T) (count : Nat)
    (hle : A.le time end_ = true) (hnx : A.le (A.add time spacing) time = false) :
    guardedLoop A end_ spacing (fuel + 1) time count =
      guardedLoop A end_ spacing fuel (A.add time spacing) (count + 1) := by
  rw [guardedLoop]; simp [hle, hnx]

theorem guardedLoop_exit_no_progress {T : Type} (A : TimeArith T) (end_ spacing : T) (fuel : Nat) (time : T) (count : Nat)
    (hle : A.le time end_ = true) (hnx : A.le (A.add time spacing) time = true) :
    guardedLoop A end_ spacing (fuel + 1) time count = some (count + 1) := by
  rw [guardedLoop]; simp [hle, hnx]

/-- the loop before the fix spins forever once the addition is absorbed -/
theorem unguardedLoop_absorbing_spins (end_ spacing time : Nat) (ht : 16777216 ≤ time) (hle : time ≤ end_) :
    ∀ (fuel count : Nat), unguardedLoop absorbing end_ spacing fuel time count = none := by
  intro fuel
  induction fuel with
  | zero => intro _; rfl
  | succ fuel ih =>
    intro count
    unfold unguardedLoop
    have h1 : absorbing.le time end_ = true := by simp [absorbing, hle]
    have h2 : absorbing.add time spacing = time := by simp [absorbing]; omega
    rw [h1, h2]
    exact ih (count + 1)

end Rosu.Safety
