import RosuModel.Lemmas.PerfCalcTaiko

/-! osu! pp formulas over ℝ: helper functions (miss penalty, combo scaling, length bonus,
difficulty-to-performance curves, effective miss count, accuracy). -/

namespace Rosu.PerfCalc
open PPOps
open Rosu.Finite (OsuState)

/-! ## curves -/

/-- `difficulty_to_performance` of Aim/Speed is at least `1/100000` for EVERY real difficulty -/
theorem strainDifficultyToPerformance_pos (d : ℝ) : 0 < strainDifficultyToPerformance d := by
  unfold strainDifficultyToPerformance
  simp only [r_sub, r_mul, r_div, r_fmax, r_powf]
  have hm : (1.0 : ℝ) ≤ max 1.0 (d / 0.0675) := le_max_left _ _
  generalize max (1.0 : ℝ) (d / 0.0675) = mx at hm ⊢
  have hb : (0 : ℝ) < 5.0 * mx - 4.0 := by norm_num at hm ⊢; linarith
  have : (0 : ℝ) < (5.0 * mx - 4.0) ^ (3.0 : ℝ) := Real.rpow_pos_of_pos hb _
  have h5 : (0 : ℝ) < 100000.0 := by norm_num
  exact div_pos this h5

theorem flashlightDifficultyToPerformance_nonneg (d : ℝ) : 0 ≤ flashlightDifficultyToPerformance d := by
  unfold flashlightDifficultyToPerformance
  simp only [r_mul, r_powf]
  have h2 : (2.0 : ℝ) = ((2 : ℕ) : ℝ) := by norm_num
  have : (0 : ℝ) ≤ d ^ (2.0 : ℝ) := by rw [h2, Real.rpow_natCast]; positivity
  have h25 : (0 : ℝ) ≤ 25.0 := by norm_num
  exact mul_nonneg h25 this

/-- `x.powf(2.0)` is a square: non-negative for every real `x` -/
theorem rpow_two_nonneg (x : ℝ) : (0 : ℝ) ≤ x ^ (2.0 : ℝ) := by
  have h2 : (2.0 : ℝ) = ((2 : ℕ) : ℝ) := by norm_num
  rw [h2, Real.rpow_natCast]; positivity

/-- the OD factor `c + max(0, od)^2 / k` -/
theorem odFactor_pos {c k : ℝ} (hc : 0 < c) (hk : 0 < k) (od : ℝ) :
    0 < c + (max 0.0 od) ^ (2.0 : ℝ) / k := by
  have := rpow_two_nonneg (max 0.0 od)
  have : 0 ≤ (max 0.0 od) ^ (2.0 : ℝ) / k := div_nonneg this hk.le
  linarith

/-! ## length bonus -/

theorem osuLenBonus_pos {t : ℝ} (ht : 0 < t) : 0 < osuLenBonus t := by
  unfold osuLenBonus
  simp only [r_add, r_mul, r_div, r_fmin, r_lt, r_log10]
  have h1 : (0 : ℝ) ≤ min (t / 2000.0) 1.0 := le_min (by positivity) (by norm_num)
  have h2 : (0 : ℝ) < 0.95 + 0.4 * min (t / 2000.0) 1.0 := by
    have : (0 : ℝ) ≤ 0.4 * min (t / 2000.0) 1.0 := mul_nonneg (by norm_num) h1
    have h95 : (0 : ℝ) < 0.95 := by norm_num
    linarith
  split_ifs with h
  · have hn : (1 : ℝ) ≤ t / 2000.0 := by
      rw [le_div_iff₀ (by norm_num)]; linarith
    have hl := log10_nonneg hn
    have : (0 : ℝ) ≤ 1.0 * (Real.log (t / 2000.0) / Real.log 10) * 0.5 := by
      have h05 : (0 : ℝ) ≤ 0.5 := by norm_num
      have h10 : (0 : ℝ) ≤ 1.0 := by norm_num
      exact mul_nonneg (mul_nonneg h10 hl) h05
    linarith
  · have : (0.0 : ℝ) * (Real.log (t / 2000.0) / Real.log 10) * 0.5 = 0 := by norm_num
    linarith

theorem osuLenBonusDom_true {t : ℝ} (ht : 0 < t) : osuLenBonusDom t = true := by
  unfold osuLenBonusDom
  rw [r_lt]
  have : (0 : ℝ) < t / 2000.0 := by positivity
  have h0 : (0.0 : ℝ) = 0 := by norm_num
  rw [h0]; exact this

/-! ## miss penalty -/

theorem ln_pow_pos {d : ℝ} (hd : 1 < d) : 0 < (Real.log d) ^ (0.94 : ℝ) :=
  Real.rpow_pos_of_pos (Real.log_pos hd) _

/-- (a) every partial operation of `calculate_miss_penalty` is in its domain for a strain count `> 1`
and a non-negative miss count -/
theorem calculateMissPenaltyDom_true {mc d : ℝ} (hmc : 0 ≤ mc) (hd : 1 < d) :
    calculateMissPenaltyDom mc d = true := by
  unfold calculateMissPenaltyDom
  have hl := ln_pow_pos hd
  have h4 : (0 : ℝ) < 4.0 * (Real.log d) ^ (0.94 : ℝ) := mul_pos (by norm_num) hl
  have e1 : PPOps.lt (0.0 : ℝ) d = true := by
    rw [r_lt]; have : (0.0 : ℝ) < 1 := by norm_num
    linarith
  have e2 : powfDom (PPOps.ln d) (0.94 : ℝ) = true := powfDom_of_pos _ (Real.log_pos hd)
  have e3 : nz (4.0 * PPOps.powf (PPOps.ln d) 0.94 : ℝ) = true := by rw [nz_iff]; exact h4.ne'
  have e4 : nz ((mc / (4.0 * PPOps.powf (PPOps.ln d) 0.94)) + 1.0 : ℝ) = true := by
    rw [nz_iff]
    have : (0 : ℝ) ≤ mc / (4.0 * (Real.log d) ^ (0.94 : ℝ)) := div_nonneg hmc h4.le
    have h1 : (0 : ℝ) < 1.0 := by norm_num
    exact (add_pos_of_nonneg_of_pos this h1).ne'
  rw [e1, e2, e3, e4]; rfl

/-- (d) the miss penalty lies in (0, 0.96] -/
theorem calculateMissPenalty_mem {mc d : ℝ} (hmc : 0 ≤ mc) (hd : 1 < d) :
    0 < calculateMissPenalty mc d ∧ calculateMissPenalty mc d ≤ 0.96 := by
  unfold calculateMissPenalty
  simp only [r_add, r_mul, r_div, r_powf, r_ln]
  have hl := ln_pow_pos hd
  have h4 : (0 : ℝ) < 4.0 * (Real.log d) ^ (0.94 : ℝ) := mul_pos (by norm_num) hl
  have hq : (0 : ℝ) ≤ mc / (4.0 * (Real.log d) ^ (0.94 : ℝ)) := div_nonneg hmc h4.le
  have h1 : (1.0 : ℝ) = 1 := by norm_num
  have hden : (1 : ℝ) ≤ mc / (4.0 * (Real.log d) ^ (0.94 : ℝ)) + 1.0 := by rw [h1]; linarith
  have hpos : (0 : ℝ) < mc / (4.0 * (Real.log d) ^ (0.94 : ℝ)) + 1.0 := by linarith
  have h96 : (0 : ℝ) < 0.96 := by norm_num
  constructor
  · exact div_pos h96 hpos
  · rw [div_le_iff₀ hpos]
    nlinarith

/-! ## combo scaling -/

theorem getComboScalingFactor_mem (c : OsuCalc ℝ) :
    0 ≤ getComboScalingFactor c ∧ getComboScalingFactor c ≤ 1 := by
  unfold getComboScalingFactor
  split_ifs
  · simp only [r_lit]; norm_num
  · simp only [r_div, r_fmin, r_powf, r_ofNat]
    have h1 : (0 : ℝ) ≤ (c.state.maxCombo : ℝ) ^ (0.8 : ℝ) := Real.rpow_nonneg (by positivity) _
    have h2 : (0 : ℝ) ≤ (c.attrs.maxCombo : ℝ) ^ (0.8 : ℝ) := Real.rpow_nonneg (by positivity) _
    exact ⟨le_min (div_nonneg h1 h2) (by norm_num), le_trans (min_le_right _ _) (by norm_num)⟩

theorem getComboScalingFactorDom_true (c : OsuCalc ℝ) : getComboScalingFactorDom c = true := by
  unfold getComboScalingFactorDom
  split_ifs with h
  · rfl
  · have hpos : (0 : ℝ) < (c.attrs.maxCombo : ℝ) := by exact_mod_cast Nat.pos_of_ne_zero h
    have e1 : powfDom (PPOps.ofNat c.state.maxCombo : ℝ) (0.8 : ℝ) = true :=
      powfDom_of_nonneg (by simp only [r_ofNat]; positivity) (by norm_num)
    have e2 : powfDom (PPOps.ofNat c.attrs.maxCombo : ℝ) (0.8 : ℝ) = true := powfDom_of_pos _ hpos
    have e3 : nz (PPOps.powf (PPOps.ofNat c.attrs.maxCombo) 0.8 : ℝ) = true := by
      rw [nz_iff]; exact (Real.rpow_pos_of_pos hpos _).ne'
    rw [e1, e2, e3]; rfl

/-! ## effective miss count and accuracy (`OsuPerformance::calculate`) -/

/-- the last two statements of the computation: `.max(misses)` then `.min(total_hits)` -/
theorem osuEffectiveMissCount_shape (a : OsuAttrs ℝ) (s : OsuState) (classic : Bool) :
    ∃ x : ℝ, osuEffectiveMissCount a s classic = min (max x (s.misses : ℝ)) (s.totalHits : ℝ) :=
  ⟨_, rfl⟩

theorem osuEffectiveMissCount_bounds (a : OsuAttrs ℝ) (s : OsuState) (classic : Bool) :
    0 ≤ osuEffectiveMissCount a s classic ∧ osuEffectiveMissCount a s classic ≤ (s.totalHits : ℝ)
      ∧ min (s.misses : ℝ) (s.totalHits : ℝ) ≤ osuEffectiveMissCount a s classic := by
  obtain ⟨x, hx⟩ := osuEffectiveMissCount_shape a s classic
  rw [hx]
  have hm : (0 : ℝ) ≤ (s.misses : ℝ) := by positivity
  have ht : (0 : ℝ) ≤ (s.totalHits : ℝ) := by positivity
  have h2 : (s.misses : ℝ) ≤ max x (s.misses : ℝ) := le_max_right _ _
  exact ⟨le_min (le_trans hm h2) ht, min_le_right _ _, le_min (le_trans (min_le_left _ _) h2) (min_le_right _ _)⟩

/-- `misses ≤ effective_miss_count ≤ total_hits` (the state's misses are among its hits) -/
theorem osuEffectiveMissCount_mem (a : OsuAttrs ℝ) (s : OsuState) (classic : Bool) :
    (s.misses : ℝ) ≤ osuEffectiveMissCount a s classic
      ∧ osuEffectiveMissCount a s classic ≤ (s.totalHits : ℝ) := by
  obtain ⟨_, h2, h3⟩ := osuEffectiveMissCount_bounds a s classic
  refine ⟨?_, h2⟩
  have : (s.misses : ℝ) ≤ (s.totalHits : ℝ) := by
    have : s.misses ≤ s.totalHits := by unfold OsuState.totalHits; omega
    exact_mod_cast this
  rwa [min_eq_left this] at h3

theorem osuAccuracyParts_nonneg (a : OsuAttrs ℝ) (s : OsuState) (lazer classic : Bool) :
    0 ≤ (osuAccuracyParts a s lazer classic).1 ∧ 0 ≤ (osuAccuracyParts a s lazer classic).2 := by
  unfold osuAccuracyParts
  have hn : (0 : ℝ) ≤ ((6 * s.n300 + 2 * s.n100 + s.n50 : ℕ) : ℝ) := by positivity
  have hd : (0 : ℝ) ≤ ((6 * (s.n300 + s.n100 + s.n50 + s.misses) : ℕ) : ℝ) := by positivity
  have h06 : (0 : ℝ) ≤ 0.6 := by norm_num
  have h02 : (0 : ℝ) ≤ 0.2 := by norm_num
  cases lazer <;> cases classic
  · exact ⟨hn, hd⟩
  · exact ⟨hn, hd⟩
  · exact ⟨add_nonneg hn (add_nonneg (Nat.cast_nonneg _) (mul_nonneg h06 (Nat.cast_nonneg _))),
      add_nonneg hd (add_nonneg (Nat.cast_nonneg _) (mul_nonneg h06 (Nat.cast_nonneg _)))⟩
  · exact ⟨add_nonneg hn (add_nonneg (mul_nonneg h06 (Nat.cast_nonneg _)) (mul_nonneg h02 (Nat.cast_nonneg _))),
      add_nonneg hd (add_nonneg (mul_nonneg h06 (Nat.cast_nonneg _)) (mul_nonneg h02 (Nat.cast_nonneg _)))⟩

theorem osuAccuracy_nonneg (a : OsuAttrs ℝ) (s : OsuState) (lazer classic : Bool) :
    0 ≤ osuAccuracy a s lazer classic := by
  obtain ⟨h1, h2⟩ := osuAccuracyParts_nonneg a s lazer classic
  unfold osuAccuracy
  extract_lets nd
  split_ifs
  · norm_num
  · exact div_nonneg h1 h2

end Rosu.PerfCalc
