import RosuModel.Lemmas.StrainsVecOps

/-!
The compact `StrainsVec` refines the `raw_strains` variant (`Vec<f64>`) on the pushes the crate
is designed for (`+0.0` and `(0, +∞]`).
-/

namespace Rosu.SV

theorem canon_good {b : Nat} (h : goodPush b = true) : canon b = b := by
  have h : b ≤ INF := by simpa [goodPush] using h
  simp only [INF] at h
  unfold canon isValueBits
  by_cases h0 : b = 0
  · subst h0; simp
  · have : 0 < b ∧ b < SIGN := by simp only [SIGN]; omega
    simp [this.1, this.2]

theorem map_canon_good {bs : List Nat} (h : ∀ b ∈ bs, goodPush b = true) : bs.map canon = bs := by
  induction bs with
  | nil => rfl
  | cons b bs ih =>
    rw [List.map_cons, canon_good (h b (by simp)), ih (fun x hx => h x (by simp [hx]))]

theorem good_lt_two64 {b : Nat} (h : goodPush b = true) : b < TWO64 := by
  have h : b ≤ INF := by simpa [goodPush] using h
  simp only [INF, TWO64] at *; omega

theorem rawPos_good {b : Nat} (h : goodPush b = true) : rawPos b = nonZeroBits b := by
  have h : b ≤ INF := by simpa [goodPush] using h
  unfold rawPos nonZeroBits
  by_cases h0 : b = 0
  · subst h0; simp
  · have : 0 < b := by omega
    simp [this, h, h0]

theorem filter_rawPos_good {bs : List Nat} (h : ∀ b ∈ bs, goodPush b = true) :
    bs.filter rawPos = bs.filter nonZeroBits := by
  induction bs with
  | nil => rfl
  | cons b bs ih =>
    simp only [List.filter_cons, rawPos_good (h b (by simp)),
      ih (fun x hx => h x (by simp [hx]))]

theorem rvec_push_eq (r : RVec) (b : Nat) : RVec.push r b = r ++ [canon b] := by
  simp [RVec.push, canon, isValueBits]

theorem rvec_pushAll' (bs : List Nat) : ∀ r : RVec, RVec.pushAll r bs = r ++ bs.map canon := by
  induction bs with
  | nil => intro r; simp [RVec.pushAll]
  | cons b bs ih =>
    intro r
    show RVec.pushAll (RVec.push r b) bs = _
    rw [ih, rvec_push_eq]; simp

theorem rvec_pushAll (bs : List Nat) (hg : ∀ b ∈ bs, goodPush b = true) :
    ∀ r : RVec, RVec.pushAll r bs = r ++ bs := by
  intro r; rw [rvec_pushAll', map_canon_good hg]

/-- The compact `push` only looks at `canon b`. -/
theorem svec_push_canon (s : SVec) (b : Nat) : s.push (canon b) = s.push b := by
  unfold SVec.push canon
  by_cases h : isValueBits b = true
  · simp [h]
  · have h0 : isValueBits 0 = false := by decide
    simp [h, h0]

theorem svec_pushAll_canon (bs : List Nat) : ∀ s : SVec, s.pushAll (bs.map canon) = s.pushAll bs := by
  induction bs with
  | nil => intro s; rfl
  | cons b bs ih =>
    intro s
    show (s.push (canon b)).pushAll (bs.map canon) = (s.push b).pushAll bs
    rw [svec_push_canon, ih]

theorem rvec_pushAll_canon (bs : List Nat) (r : RVec) :
    RVec.pushAll r (bs.map canon) = RVec.pushAll r bs := by
  rw [rvec_pushAll', rvec_pushAll']
  congr 1
  induction bs with
  | nil => rfl
  | cons b bs ih =>
    simp only [List.map_cons, ih]
    congr 1
    unfold canon
    by_cases h : isValueBits b = true
    · simp [h]
    · have h0 : isValueBits 0 = false := by decide
      simp [h, h0]

/-- Every 64-bit pattern except sign-positive NaN. -/
def okPush (b : Nat) : Bool := decide (b ≤ INF) || (decide (SIGN ≤ b) && decide (b < TWO64))

theorem canon_ok_good {b : Nat} (h : okPush b = true) : goodPush (canon b) = true := by
  unfold okPush at h
  simp only [Bool.or_eq_true, Bool.and_eq_true, decide_eq_true_eq] at h
  by_cases h1 : isValueBits b = true
  · rw [canon_of_value h1]
    have := (isValueBits_iff b).mp h1
    simp only [goodPush, decide_eq_true_eq]
    rcases h with h | h
    · exact h
    · omega
  · have h1' : isValueBits b = false := by simpa using h1
    rw [canon_of_not_value h1']; decide

/-- Everything about a compact vector built from good pushes, in terms of the pushed list. -/
theorem compact_of_good_pushes (bs : List Nat) (hg : ∀ b ∈ bs, goodPush b = true)
    (hl : bs.length < SIGN) :
    WF (SVec.empty.pushAll bs) ∧ (SVec.empty.pushAll bs).abs = bs ∧
      (SVec.empty.pushAll bs).len = bs.length := by
  obtain ⟨h1, h2, h3⟩ := pushAll_spec bs SVec.empty empty_WF (fun b hb => good_lt_two64 (hg b hb))
    (by simpa [SVec.empty] using hl)
  refine ⟨h1, ?_, ?_⟩
  · rw [h2, map_canon_good hg]; simp [SVec.abs, SVec.empty, absList]
  · rw [h3]; simp [SVec.empty]

end Rosu.SV
