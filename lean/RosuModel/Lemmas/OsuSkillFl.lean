import RosuModel.Lemmas.OsuSkillAim

/-! osu! flashlight and speed evaluators over ℝ: outputs `≥ 0`; history lookups in range. -/

namespace Rosu.PerfCalc
open PPOps

theorem clamp01_real (x : ℝ) : 0 ≤ clamp x (0.0 : ℝ) 1.0 ∧ clamp x (0.0 : ℝ) 1.0 ≤ 1 := clamp01_mem x

/-- `opacity_at ∈ [0, 1]` for all arguments -/
theorem opacityAt_mem (o : DiffObj ℝ) (time : ℝ) (hidden : Bool) (tp tf : ℝ) :
    0 ≤ opacityAt o time hidden tp tf ∧ opacityAt o time hidden tp tf ≤ 1 := by
  unfold opacityAt
  by_cases h : PPOps.lt o.base.startTime time = true
  · rw [if_pos h]; constructor <;> norm_num
  · rw [if_neg h]
    extract_lets a b c d
    by_cases hh : hidden = true
    · rw [if_pos hh]
      obtain ⟨x0, x1⟩ := clamp01_real ((time - a) / b)
      obtain ⟨y0, y1⟩ := clamp01_real ((time - c) / d)
      have e1 : (1.0 : ℝ) = 1 := by norm_num
      constructor
      · exact le_min x0 (by rw [e1]; linarith)
      · exact le_trans (min_le_left _ _) x1
    · rw [if_neg hh]; exact clamp01_real _

/-- the loop invariant of the flashlight evaluator -/
structure FlInv (st : FlState ℝ) : Prop where
  nerf : 0 ≤ st.smallDistNerf
  cum : 0 ≤ st.cumulativeStrainTime
  res : 0 ≤ st.result
  last : Floors st.lastObj
  arc : 0 ≤ st.angleRepeatCount

theorem flAngleRepeatCount_nonneg {c : ℝ} (hc : 0 ≤ c) (i : Nat) (a b : Option ℝ) :
    0 ≤ flAngleRepeatCount c i a b := by
  unfold flAngleRepeatCount
  cases a with
  | none => exact hc
  | some a =>
    cases b with
    | none => exact hc
    | some b =>
      simp only
      split_ifs
      · exact add_nonneg hc (le_trans (by norm_num) (le_max_right _ _))
      · exact hc

theorem flStepWith_inv (curr : DiffObj ℝ) (hidden : Bool) {sf : ℝ} (hsf : 0 ≤ sf)
    (tp tf : ℝ) (st : FlState ℝ) (hst : FlInv st) (i : Nat) (co : DiffObj ℝ) (hco : Floors co) :
    FlInv (flStepWith curr hidden sf tp tf st i co) := by
  unfold flStepWith
  extract_lets cum jd sdn sn ob res arc
  have hcum : (0 : ℝ) ≤ cum := add_nonneg hst.cum (le_trans (by norm_num) hst.last.strain)
  by_cases hs : (!co.base.isSpinner) = true
  · rw [if_pos hs]
    have hjd : (0 : ℝ) ≤ jd := p2_length_nonneg _
    have hsdn : (0 : ℝ) ≤ sdn := by
      show (0 : ℝ) ≤ (if i = 0 then min (jd / 75.0) 1.0 else st.smallDistNerf)
      split_ifs
      · exact le_min (div_nonneg hjd (by norm_num)) (by norm_num)
      · exact hst.nerf
    have hsn : (0 : ℝ) ≤ sn :=
      le_min (div_nonneg (div_nonneg hco.ljd hsf) (by norm_num)) (by norm_num)
    have hob : (0 : ℝ) ≤ ob := by
      obtain ⟨_, o1⟩ := opacityAt_mem curr co.base.startTime hidden tp tf
      show (0 : ℝ) ≤ 1.0 + 0.4 * (1.0 - opacityAt curr co.base.startTime hidden tp tf)
      have e1 : (1.0 : ℝ) = 1 := by norm_num
      rw [e1]
      have : (0 : ℝ) ≤ 0.4 * (1 - opacityAt curr co.base.startTime hidden tp tf) :=
        mul_nonneg (by norm_num) (by linarith)
      linarith
    have hres : (0 : ℝ) ≤ res :=
      add_nonneg hst.res (div_nonneg (mul_nonneg (mul_nonneg (mul_nonneg hsn hob) hsf) hjd) hcum)
    have harc : (0 : ℝ) ≤ arc := flAngleRepeatCount_nonneg hst.arc i _ _
    exact ⟨hsdn, hcum, hres, hco, harc⟩
  · rw [if_neg hs]
    exact ⟨hst.nerf, hcum, hst.res, hco, hst.arc⟩

theorem flStep_inv {ds : List (DiffObj ℝ)} (hl : ListOK ds) (curr : DiffObj ℝ) (hidden : Bool) {sf : ℝ} (hsf : 0 ≤ sf)
    (tp tf : ℝ) (st : FlState ℝ) (hst : FlInv st) (i : Nat) :
    FlInv (flStep ds curr hidden sf tp tf st i) := by
  unfold flStep
  by_cases hb : st.broke = true
  · rw [if_pos hb]; exact hst
  · rw [if_neg hb]
    cases hp : previous ds curr i with
    | none => exact ⟨hst.nerf, hst.cum, hst.res, hst.last, hst.arc⟩
    | some co => exact flStepWith_inv curr hidden hsf tp tf st hst i co (hl.floors _ _ (previous_some hp).2)

theorem flFold_inv {ds : List (DiffObj ℝ)} (hl : ListOK ds) (curr : DiffObj ℝ) (hidden : Bool) {sf : ℝ} (hsf : 0 ≤ sf)
    (tp tf : ℝ) : ∀ (l : List Nat) (st : FlState ℝ), FlInv st →
    FlInv (l.foldl (flStep ds curr hidden sf tp tf) st) := by
  intro l
  induction l with
  | nil => intro st h; exact h
  | cons i t ih => intro st h; exact ih _ (flStep_inv hl curr hidden hsf tp tf st h i)

theorem flSliderBonus_nonneg {curr : DiffObj ℝ} (hc : Floors curr) (hr : RawOK curr.base) {sf : ℝ} (hsf : 0 ≤ sf) :
    0 ≤ flSliderBonus curr sf := by
  unfold flSliderBonus
  by_cases h : curr.base.isSlider = true
  · rw [if_pos h]
    extract_lets ptd sb0 sb1
    have hp : (0 : ℝ) ≤ ptd := div_nonneg hr.ltd_nonneg hsf
    have h0 : (0 : ℝ) ≤ sb0 := Real.rpow_nonneg (le_max_right _ _ |> le_trans (by norm_num)) _
    have h1 : (0 : ℝ) ≤ sb1 := mul_nonneg h0 hp
    split_ifs
    · exact div_nonneg h1 (Nat.cast_nonneg _)
    · exact h1
  · rw [if_neg h]; norm_num

/-- (b) `FlashlightEvaluator::evaluate_diff_of ≥ 0` (with and without Hidden) on every well-formed list -/
theorem flashlightEvaluate_nonneg {ds : List (DiffObj ℝ)} (hl : ListOK ds) {curr : DiffObj ℝ} (hc : Floors curr)
    (hr : RawOK curr.base) (hidden : Bool) {sf : ℝ} (hsf : 0 ≤ sf) (tp tf : ℝ) :
    0 ≤ flashlightEvaluate ds curr hidden sf tp tf := by
  unfold flashlightEvaluate
  by_cases hs : curr.base.isSpinner = true
  · rw [if_pos hs]; norm_num
  · rw [if_neg hs]
    extract_lets st0 st r0 r1 r2
    have hinit : FlInv st0 := ⟨by show (0 : ℝ) ≤ 1.0; norm_num, by show (0 : ℝ) ≤ 0.0; norm_num,
      by show (0 : ℝ) ≤ 0.0; norm_num, hc, by show (0 : ℝ) ≤ 0.0; norm_num⟩
    have hst : FlInv st := flFold_inv hl curr hidden hsf tp tf _ st0 hinit
    have h0 : (0 : ℝ) ≤ r0 := rpow_two_nonneg _
    have h1 : (0 : ℝ) ≤ r1 := ite_mul_nonneg h0 (fun _ => (by norm_num : (0 : ℝ) ≤ 1.0 + 0.2))
    have h2 : (0 : ℝ) ≤ r2 := by
      refine mul_nonneg h1 ?_
      have hd : (0 : ℝ) < st.angleRepeatCount + 1.0 := by
        have := hst.arc
        have e1 : (1.0 : ℝ) = 1 := by norm_num
        rw [e1]; linarith
      have : (0 : ℝ) ≤ ((1.0 : ℝ) - 0.2) / (st.angleRepeatCount + 1.0) := div_nonneg (by norm_num) hd.le
      have e2 : (0 : ℝ) ≤ 0.2 := by norm_num
      show (0 : ℝ) ≤ 0.2 + ((1.0 : ℝ) - 0.2) / (st.angleRepeatCount + 1.0)
      linarith
    exact add_nonneg h2 (mul_nonneg (flSliderBonus_nonneg hc hr hsf) (by norm_num))

/-- the history lookups of the flashlight loop are in range: for `curr` at its own position in the
list, `previous(i)` exists for every `i < min(curr.idx, 10)` — the `break` is never taken -/
theorem flashlight_lookups_in_range (ds : List (DiffObj ℝ)) (curr : DiffObj ℝ) (hpos : curr.idx < ds.length)
    (i : Nat) (hi : i < min curr.idx 10) : (previous ds curr i).isSome = true := by
  unfold previous
  have h1 : i + 1 ≤ curr.idx := by omega
  rw [if_pos h1]
  have : curr.idx - (i + 1) < ds.length := by omega
  simp [List.getElem?_eq_getElem this]

/-! ### speed -/

/-- `1 − doubletapness = speed_ratio^(1 − window_ratio) ≥ 0` -/
theorem one_sub_doubletapnessWith_nonneg (o n : DiffObj ℝ) (hw : ℝ) :
    0 ≤ 1.0 - doubletapnessWith o n hw := by
  unfold doubletapnessWith
  extract_lets hw' c nd dd sr wr
  have hc : (0 : ℝ) < c := lt_of_lt_of_le (by norm_num) (le_max_right _ _)
  have hsr : (0 : ℝ) ≤ sr := div_nonneg hc.le (le_trans hc.le (le_max_left _ _))
  have : (0 : ℝ) ≤ sr ^ ((1.0 : ℝ) - wr) := Real.rpow_nonneg hsr _
  have e1 : (1.0 : ℝ) = 1 := by norm_num
  show (0 : ℝ) ≤ 1.0 - (1.0 - sr ^ ((1.0 : ℝ) - wr))
  rw [e1] at this ⊢
  linarith

theorem one_sub_doubletapness_nonneg (o : DiffObj ℝ) (nxt : Option (DiffObj ℝ)) (hw : ℝ) :
    0 ≤ 1.0 - getDoubletapness o nxt hw := by
  unfold getDoubletapness
  cases nxt with
  | none => show (0 : ℝ) ≤ 1.0 - 0.0; norm_num
  | some n => exact one_sub_doubletapnessWith_nonneg o n hw

/-- (b) `SpeedEvaluator::evaluate_diff_of ≥ 0` on every well-formed list, for any hit window -/
theorem speedEvaluate_nonneg {ds : List (DiffObj ℝ)} (hl : ListOK ds) {curr : DiffObj ℝ} (hc : Floors curr)
    (hw : ℝ) (ap : Bool) : 0 ≤ speedEvaluate ds curr hw ap := by
  unfold speedEvaluate
  by_cases hs : curr.base.isSpinner = true
  · rw [if_pos hs]; norm_num
  · rw [if_neg hs]
    extract_lets prevO nextO st0 dtn st1 base sb td dist0 dist1 db0 db1 diff
    have hst0 : (0 : ℝ) < st0 := lt_of_lt_of_le (by norm_num) hc.strain
    have hcl : (0 : ℝ) < clamp ((st0 / hw) / 0.93) 0.92 1.0 := by
      unfold clamp
      simp only [r_lt]
      split_ifs <;> norm_num at * <;> linarith
    have hst1 : (0 : ℝ) ≤ st1 := div_nonneg hst0.le hcl.le
    have hdtn : (0 : ℝ) ≤ dtn := one_sub_doubletapness_nonneg curr nextO hw
    have hsb : (0 : ℝ) ≤ sb := by
      show (0 : ℝ) ≤ (if PPOps.lt 200.0 (millisecondsToBpm st1 4) = true then 0.75 * base ^ (2.0 : ℝ) else (0.0 : ℝ))
      split_ifs
      · exact mul_nonneg (by norm_num) (rpow_two_nonneg _)
      · norm_num
    have htd : (0 : ℝ) ≤ td := by
      show (0 : ℝ) ≤ travelDistOf prevO
      unfold travelDistOf
      cases hp : prevO with
      | none => show (0 : ℝ) ≤ 0.0; norm_num
      | some o =>
        have : previous ds curr 0 = some o := hp
        exact (hl.floors _ _ (previous_some this).2).td
    have hd1 : (0 : ℝ) ≤ dist1 := le_min (by norm_num) (add_nonneg htd hc.mjd)
    have hdb0 : (0 : ℝ) ≤ db0 :=
      mul_nonneg (Real.rpow_nonneg (div_nonneg hd1 (by norm_num)) _) (by norm_num)
    have hdb1 : (0 : ℝ) ≤ db1 := by
      show (0 : ℝ) ≤ (if ap = true then 0.0 else db0)
      split_ifs
      · norm_num
      · exact hdb0
    have hdiff : (0 : ℝ) ≤ diff := by
      refine div_nonneg (mul_nonneg ?_ (by norm_num)) hst1
      have e1 : (0 : ℝ) ≤ 1.0 := by norm_num
      linarith
    exact mul_nonneg hdiff hdtn

/-- the rhythm evaluator's last statement: `(4.0 + sum * 0.95).sqrt() / 2.0 ≥ 0` whatever the sum -/
theorem rhythm_output_nonneg (sum : ℝ) : 0 ≤ Real.sqrt (4.0 + sum * 0.95) / 2.0 :=
  div_nonneg (Real.sqrt_nonneg _) (by norm_num)

end Rosu.PerfCalc
