import RosuModel.Lemmas.PerfCalcOsu2

/-! osu! pp formulas over ℝ: speed value (high-deviation nerf, relevant accuracy). -/

namespace Rosu.PerfCalc
open PPOps
open Rosu.Finite (OsuState)

/-! ## `reverse_lerp`, `lerp` -/

theorem clamp01_mem (x : ℝ) : 0 ≤ clamp x (0.0 : ℝ) 1.0 ∧ clamp x (0.0 : ℝ) 1.0 ≤ 1 := by
  unfold clamp
  have h0 : (0.0 : ℝ) = 0 := by norm_num
  have h1 : (1.0 : ℝ) = 1 := by norm_num
  simp only [r_lt, h0, h1]
  by_cases hx : x < 0
  · simp only [hx, if_true]
    norm_num
  · simp only [hx, if_false]
    by_cases hx1 : (1 : ℝ) < x
    · simp only [hx1, if_true]; norm_num
    · simp only [hx1, if_false]; exact ⟨not_lt.mp hx, not_lt.mp hx1⟩

theorem reverseLerp_mem (x a b : ℝ) : 0 ≤ reverseLerp x a b ∧ reverseLerp x a b ≤ 1 := by
  unfold reverseLerp; exact clamp01_mem _

theorem lerp_eq (a b t : ℝ) : lerp a b t = a * (1 - t) + b * t := by
  show a * ((1.0 : ℝ) - t) + b * t = a * (1 - t) + b * t
  have h1 : (1.0 : ℝ) = 1 := by norm_num
  rw [h1]

/-! ## high-deviation nerf -/

/-- `excess_speed_difficulty_cutoff` -/
noncomputable def speedCutoff (sd : ℝ) : ℝ := 100.0 + 220.0 * (22.0 / sd) ^ (6.5 : ℝ)

theorem speedCutoff_pos {sd : ℝ} (hsd : 0 < sd) : 0 < speedCutoff sd := by
  unfold speedCutoff
  have : (0 : ℝ) < (22.0 / sd) ^ (6.5 : ℝ) := Real.rpow_pos_of_pos (div_pos (by norm_num) hsd) _
  have h1 : (0 : ℝ) < 100.0 := by norm_num
  have h2 : (0 : ℝ) < 220.0 * (22.0 / sd) ^ (6.5 : ℝ) := mul_pos (by norm_num) this
  linarith

theorem adj_bounds {sv cut : ℝ} (hsv : cut < sv) (hcut : 0 < cut) :
    0 < (50.0 : ℝ) * (Real.log ((sv - cut) / 50.0 + 1.0) + cut / 50.0)
    ∧ (50.0 : ℝ) * (Real.log ((sv - cut) / 50.0 + 1.0) + cut / 50.0) ≤ sv := by
  have hx : (0 : ℝ) < (sv - cut) / 50.0 := div_pos (by linarith) (by norm_num)
  have h1 : (1.0 : ℝ) = 1 := by norm_num
  have hlog0 : 0 ≤ Real.log ((sv - cut) / 50.0 + 1.0) := Real.log_nonneg (by rw [h1]; linarith)
  have hlog1 : Real.log ((sv - cut) / 50.0 + 1.0) ≤ (sv - cut) / 50.0 := by
    have := Real.log_le_sub_one_of_pos (show (0 : ℝ) < (sv - cut) / 50.0 + 1.0 by rw [h1]; linarith)
    rw [h1] at this ⊢; linarith
  have h50 : (0 : ℝ) < 50.0 := by norm_num
  constructor
  · have : (0 : ℝ) < cut / 50.0 := div_pos hcut h50
    exact mul_pos h50 (by linarith)
  · have e : (50.0 : ℝ) * ((sv - cut) / 50.0 + cut / 50.0) = sv := by norm_num; ring
    calc (50.0 : ℝ) * (Real.log ((sv - cut) / 50.0 + 1.0) + cut / 50.0)
        ≤ 50.0 * ((sv - cut) / 50.0 + cut / 50.0) := mul_le_mul_of_nonneg_left (by linarith) h50.le
      _ = sv := e

theorem convex_ratio {adj sv l : ℝ} (hadj_pos : 0 < adj) (hadj_le : adj ≤ sv) (hl0 : 0 ≤ l) (hl1 : l ≤ 1) :
    0 < (adj * (1 - l) + sv * l) / sv ∧ (adj * (1 - l) + sv * l) / sv ≤ 1 := by
  have hsvpos : 0 < sv := lt_of_lt_of_le hadj_pos hadj_le
  have h1l : 0 ≤ 1 - l := by linarith
  constructor
  · apply div_pos _ hsvpos
    have : 0 ≤ sv * l := mul_nonneg hsvpos.le hl0
    rcases h1l.lt_or_eq with h | h
    · have : 0 < adj * (1 - l) := mul_pos hadj_pos h
      linarith
    · have hl : l = 1 := by linarith
      rw [hl]; linarith
  · rw [div_le_one hsvpos]
    nlinarith

theorem nerf_core {sv cut l : ℝ} (hsv : cut < sv) (hcut : 0 < cut) (hl0 : 0 ≤ l) (hl1 : l ≤ 1) :
    0 < lerp (50.0 * (Real.log ((sv - cut) / 50.0 + 1.0) + cut / 50.0)) sv l / sv
      ∧ lerp (50.0 * (Real.log ((sv - cut) / 50.0 + 1.0) + cut / 50.0)) sv l / sv ≤ 1 := by
  rw [lerp_eq]
  obtain ⟨h1, h2⟩ := adj_bounds hsv hcut
  exact convex_ratio h1 h2 hl0 hl1
/-- (d) the high-deviation nerf lies in (0, 1] for a positive speed deviation -/
theorem calculateSpeedHighDeviationNerf_mem (c : OsuCalc ℝ) {sd : ℝ} (hsd : 0 < sd) :
    0 < calculateSpeedHighDeviationNerf c sd ∧ calculateSpeedHighDeviationNerf c sd ≤ 1 := by
  unfold calculateSpeedHighDeviationNerf
  extract_lets sv cut
  have hsv : 0 < sv := strainDifficultyToPerformance_pos _
  have hcut : 0 < cut := speedCutoff_pos hsd
  by_cases h : PPOps.le sv cut = true
  · rw [if_pos h]
    show (0 : ℝ) < 1.0 ∧ (1.0 : ℝ) ≤ 1
    norm_num
  · rw [if_neg h]
    have hlt : cut < sv := not_le.mp (fun hle => h ((r_le _ _).2 hle))
    obtain ⟨l0, l1⟩ := reverseLerp_mem sd 22.0 27.0
    have h1 : (1.0 : ℝ) = 1 := by norm_num
    have hl0 : (0 : ℝ) ≤ 1.0 - reverseLerp sd 22.0 27.0 := by rw [h1]; linarith
    have hl1 : (1.0 : ℝ) - reverseLerp sd 22.0 27.0 ≤ 1 := by rw [h1]; linarith
    exact nerf_core hlt hcut hl0 hl1

theorem calculateSpeedHighDeviationNerfDom_true (c : OsuCalc ℝ) {sd : ℝ} (hsd : 0 < sd) :
    calculateSpeedHighDeviationNerfDom c sd = true := by
  unfold calculateSpeedHighDeviationNerfDom
  extract_lets sv cut
  have hsv : 0 < sv := strainDifficultyToPerformance_pos _
  clear_value sv cut
  have e1 : nz sd = true := by rw [nz_iff]; exact hsd.ne'
  have e2 : powfDom (22.0 / sd : ℝ) (6.5 : ℝ) = true :=
    powfDom_of_pos _ (div_pos (by norm_num) hsd)
  have e3 : (if PPOps.le sv cut = true then true
      else PPOps.lt 0.0 ((sv - cut) / 50.0 + 1.0) && nz sv) = true := by
    by_cases h : PPOps.le sv cut = true
    · rw [if_pos h]
    · rw [if_neg h]
      have hlt : cut < sv := not_le.mp (fun hle => h ((r_le _ _).2 hle))
      have a1 : PPOps.lt (0.0 : ℝ) ((sv - cut) / 50.0 + 1.0) = true := by
        rw [r_lt]
        have : (0 : ℝ) < (sv - cut) / 50.0 := div_pos (by linarith) (by norm_num)
        have h1 : (1.0 : ℝ) = 1 := by norm_num
        have h0 : (0.0 : ℝ) = 0 := by norm_num
        rw [h1, h0]; linarith
      have a2 : nz sv = true := by rw [nz_iff]; exact hsv.ne'
      rw [a1, a2]; rfl
  rw [e1, e2, e3]; rfl

/-! ## relevant accuracy -/

theorem floatEq_zero_false_ne {x : ℝ} (h : ¬ floatEq x 0.0 = true) : x ≠ 0 := by
  intro hx
  apply h
  unfold floatEq f64Epsilon
  rw [r_le, hx]
  simp only [r_sub, r_abs]
  norm_num

theorem osuRelevantAcc_nonneg (c : OsuCalc ℝ) (hs : 0 ≤ c.attrs.speedNoteCount) :
    0 ≤ osuRelevantAcc c := by
  unfold osuRelevantAcc
  extract_lets totalHits s rtd r300 r100 r50
  by_cases h : floatEq c.attrs.speedNoteCount 0.0 = true
  · rw [if_pos h]; norm_num
  · rw [if_neg h]
    have h3 : (0 : ℝ) ≤ r300 := le_trans (by norm_num) (le_max_right _ _)
    have h1 : (0 : ℝ) ≤ r100 := le_trans (by norm_num) (le_max_right _ _)
    have h5 : (0 : ℝ) ≤ r50 := le_trans (by norm_num) (le_max_right _ _)
    have h6 : (0 : ℝ) ≤ 6.0 := by norm_num
    have h2 : (0 : ℝ) ≤ 2.0 := by norm_num
    exact div_nonneg (add_nonneg (add_nonneg (mul_nonneg h3 h6) (mul_nonneg h1 h2)) h5)
      (mul_nonneg hs h6)

/-! ## speed value -/

structure OsuSpeedOK (c : OsuCalc ℝ) : Prop where
  strain : 0 < c.effectiveMissCount → 1 < c.attrs.speedDifficultStrainCount
  ar_le : c.attrs.ar ≤ 37
  snc_nonneg : 0 ≤ c.attrs.speedNoteCount
  /-- `od ≤ 14.5`, i.e. the exponent `(14.5 − od)/2` is non-negative -/
  ghw_ge : -7 ≤ c.attrs.greatHitWindow

theorem osu_od_le (c : OsuCalc ℝ) (h : -7 ≤ c.attrs.greatHitWindow) : c.attrs.od ≤ 14.5 := by
  unfold OsuAttrs.od
  simp only [r_sub, r_div]
  rw [div_le_iff₀ (by norm_num)]
  norm_num; linarith

theorem osuArFactorSpeed_nonneg (c : OsuCalc ℝ) :
    (0 : ℝ) ≤ (if c.mods.ap = true then 0.0
      else if PPOps.lt 10.33 c.attrs.ar = true then 0.3 * (c.attrs.ar - 10.33) else 0.0) := by
  split_ifs with h1 h2
  · norm_num
  · have := (r_lt _ _).1 h2
    exact mul_nonneg (by norm_num) (by linarith)
  · norm_num

/-- (b) the speed value is `≥ 0` for a positive speed deviation -/
theorem computeSpeedBody_nonneg (c : OsuCalc ℝ) (B : OsuCalcBase c) (S : OsuSpeedOK c) {sd : ℝ}
    (hsd : 0 < sd) : 0 ≤ computeSpeedBody c sd := by
  unfold computeSpeedBody
  extract_lets v0 totalHits lenBonus v1 v2 arFactor v3 v4 mult v5 racc od
  have ht : (0 : ℝ) < totalHits := B.totalHits_pos
  have hl : (0 : ℝ) < lenBonus := osuLenBonus_pos ht
  have h0 : (0 : ℝ) ≤ v0 := (strainDifficultyToPerformance_pos _).le
  have h1 : (0 : ℝ) ≤ v1 := mul_nonneg h0 hl.le
  have h2 : (0 : ℝ) ≤ v2 := by
    refine ite_mul_nonneg h1 (fun hm => ?_)
    have hm' : (0 : ℝ) < c.effectiveMissCount := by
      have := (r_lt _ _).1 hm
      have h0 : (0.0 : ℝ) = 0 := by norm_num
      rwa [h0] at this
    exact (calculateMissPenalty_mem B.emc_nonneg (S.strain hm')).1.le
  have har : (0 : ℝ) ≤ arFactor := osuArFactorSpeed_nonneg c
  have h3 : (0 : ℝ) ≤ v3 := by
    refine mul_nonneg h2 ?_
    show (0 : ℝ) ≤ 1.0 + arFactor * lenBonus
    exact one_add_mul_nonneg har hl.le
  have h4 : (0 : ℝ) ≤ v4 := by
    show (0 : ℝ) ≤ (if c.mods.bl = true then v3 * 1.12
      else if (c.mods.hd || c.mods.tc) = true then v3 * (1.0 + 0.04 * (12.0 - c.attrs.ar)) else v3)
    have e12 : (0 : ℝ) ≤ 1.12 := by norm_num
    split_ifs
    · exact mul_nonneg h3 e12
    · refine mul_nonneg h3 ?_
      have := S.ar_le
      norm_num; linarith
    · exact h3
  have h5 : (0 : ℝ) ≤ v5 := mul_nonneg h4 (calculateSpeedHighDeviationNerf_mem c hsd).1.le
  refine mul_nonneg h5 (mul_nonneg ?_ ?_)
  · exact (odFactor_pos (by norm_num) (by norm_num) _).le
  · refine Real.rpow_nonneg ?_ _
    have := osuRelevantAcc_nonneg c S.snc_nonneg
    exact div_nonneg (add_nonneg B.acc_nonneg this) (by norm_num)

/-- (a) the speed value: every partial operation in its domain -/
theorem computeSpeedBodyDom_true (c : OsuCalc ℝ) (B : OsuCalcBase c) (S : OsuSpeedOK c) {sd : ℝ}
    (hsd : 0 < sd) : computeSpeedBodyDom c sd = true := by
  unfold computeSpeedBodyDom
  have ht : (0 : ℝ) < c.totalHits := B.totalHits_pos
  have e1 : osuLenBonusDom c.totalHits = true := osuLenBonusDom_true ht
  have e2 : (if PPOps.lt 0.0 c.effectiveMissCount = true then
        calculateMissPenaltyDom c.effectiveMissCount c.attrs.speedDifficultStrainCount
      else true) = true := by
    by_cases hm : PPOps.lt 0.0 c.effectiveMissCount = true
    · rw [if_pos hm]
      have hm' : (0 : ℝ) < c.effectiveMissCount := by
        have := (r_lt _ _).1 hm
        have h0 : (0.0 : ℝ) = 0 := by norm_num
        rwa [h0] at this
      exact calculateMissPenaltyDom_true B.emc_nonneg (S.strain hm')
    · rw [if_neg hm]
  have e3 := calculateSpeedHighDeviationNerfDom_true c hsd
  have e4 : (if floatEq c.attrs.speedNoteCount 0.0 = true then true
      else nz (c.attrs.speedNoteCount * 6.0 : ℝ)) = true := by
    by_cases h : floatEq c.attrs.speedNoteCount 0.0 = true
    · rw [if_pos h]
    · rw [if_neg h, nz_iff]
      have := floatEq_zero_false_ne h
      have h6 : (6.0 : ℝ) ≠ 0 := by norm_num
      exact mul_ne_zero this h6
  have e5 : powfDom ((c.acc + osuRelevantAcc c) / 2.0 : ℝ) ((14.5 - c.attrs.od) / 2.0) = true := by
    apply powfDom_of_nonneg
    · exact div_nonneg (add_nonneg B.acc_nonneg (osuRelevantAcc_nonneg c S.snc_nonneg)) (by norm_num)
    · have := osu_od_le c S.ghw_ge
      exact div_nonneg (by linarith) (by norm_num)
  rw [e1, e2, e3, e4, e5]; rfl

end Rosu.PerfCalc
