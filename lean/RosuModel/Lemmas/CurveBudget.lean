import RosuModel.Lemmas.CurveSafe
import RosuModel.Lemmas.CurveCount
import RosuModel.Lemmas.CurveBezier

/-!
# The vertex budget of `calculate_path` in exact arithmetic at the decoder's coordinate limit

Over an ordered field, with every control-point coordinate in `[-131072, 131072]` and fuel `≥ 4095`:

* one segment of `n ≥ 2` control points appends at most `2048 · (n − 1) + 1` vertices, whatever its
  path type (`calculateSubpath_budget`);
* the whole path of `N ≥ 1` control points has at most `2049 · N + 1` vertices
  (`calculatePath_budget`; the proof gives `2049 · (N − 1) + 1`).
-/
namespace Rosu.Curve

set_option linter.unusedSectionVars false

theorem bind_eq_ok {α β : Type} {x : R α} {f : α → R β} {v : β} (h : (x >>= f) = .ok v) :
    ∃ a, x = .ok a ∧ f a = .ok v := by
  cases x with
  | ok a => exact ⟨a, rfl, h⟩
  | error e => cases h

variable {K : Type} [Field K] [LinearOrder K] [IsStrictOrderedRing K] (T : Transc K)

/-- One segment of `n ≥ 2` control points adds at most `2048·(n−1)+1` vertices, whatever its type. -/
theorem calculateSubpath_budget (fuel : Nat) (hfuel : 4095 ≤ fuel) (isOsu : Bool)
    (st st' : PathSt K K) (sub : Array (Pos K)) (kind : Spline) (h2 : 2 ≤ sub.size)
    (hb : BezWF st.bez) (hcoord : ∀ v ∈ sub.toList, |v.x| ≤ 131072 ∧ |v.y| ≤ 131072)
    (h : calculateSubpath (fieldArith T) fuel isOsu st sub kind = .ok st') :
    st'.path.size ≤ st.path.size + 2048 * (sub.size - 1) + 1 ∧ BezWF st'.bez := by
  have hwf : BezWF st'.bez :=
    (calculateSubpath_safe (fieldArith T) fuel isOsu st sub kind h2 hb).post h
  refine ⟨?_, hwf⟩
  obtain ⟨pz, bz, hez, hsz⟩ :=
    approximateBezier_decoder_limit T sub st.path st.bez h2 hb hcoord fuel hfuel
  cases kind with
  | linear =>
    simp only [calculateSubpath, Except.ok.injEq] at h
    subst h
    simp only [Array.size_append]
    omega
  | bspline =>
    simp only [calculateSubpath] at h
    rw [hez] at h
    simp only [ok_bind, Except.ok.injEq] at h
    subst h
    exact hsz
  | catmull =>
    obtain ⟨p', hp', hs⟩ := approximateCatmull_size (fieldArith T) st.path sub h2
    simp only [calculateSubpath] at h
    rw [hp'] at h
    simp only [ok_bind] at h
    split at h
    · simp only [Except.ok.injEq] at h
      subst h
      simp only
      omega
    · rw [need_eq _ (by simp only [decide_eq_true_eq]; omega)] at h
      simp only [ok_bind] at h
      obtain ⟨r, hr, h⟩ := bind_eq_ok h
      simp only [Except.ok.injEq] at h
      subst h
      have := (catOptLoop_size (fieldArith T) _ _ _ _ _ hr).1
      simp only [Array.size_extract, Array.length_toList] at this
      simp only
      omega
  | perfect =>
    simp only [calculateSubpath] at h
    obtain ⟨arc, harc, h⟩ := bind_eq_ok h
    cases arc with
    | some p =>
      simp only [Except.ok.injEq] at h
      subst h
      split at harc
      · obtain ⟨a, _, harc⟩ := bind_eq_ok harc
        obtain ⟨b, _, harc⟩ := bind_eq_ok harc
        obtain ⟨c, _, harc⟩ := bind_eq_ok harc
        obtain ⟨k, _, hk, hsz⟩ := approximateArc_size (fieldArith T) fuel _ _ a b c harc
        simp only [arcCap] at hk
        simp only
        omega
      · cases harc
    | none =>
      simp only at h
      rw [hez] at h
      simp only [ok_bind, Except.ok.injEq] at h
      subst h
      exact hsz

theorem mem_of_mem_extract {α : Type} (a : Array α) (s e : Nat) (v : α)
    (h : v ∈ (a.extract s e).toList) : v ∈ a.toList := by
  rw [Array.toList_extract, List.extract_eq_take_drop] at h
  exact List.mem_of_mem_drop (List.mem_of_mem_take h)

/-- One iteration of the `calculate_path` loop keeps `path.len() ≤ 2049 · start + 1`. -/
theorem pathStep_budget (fuel : Nat) (hfuel : 4095 ≤ fuel) (isOsu : Bool) (pts : Array (CP K))
    (vertices : Array (Pos K)) (st : PathSt K K) (start i : Nat) (st1 : PathSt K K)
    (start1 : Nat) (hv : vertices.size = pts.size) (hi : i < pts.size) (hs : start ≤ i)
    (hb : BezWF st.bez)
    (hvc : ∀ v ∈ vertices.toList, |v.x| ≤ 131072 ∧ |v.y| ≤ 131072)
    (hsz : st.path.size ≤ 2049 * start + 1) (h0 : start = i → st.path.size = 0)
    (h : pathStep (fieldArith T) fuel isOsu pts vertices st start i = .ok (st1, start1)) :
    start1 ≤ i ∧ st1.path.size ≤ 2049 * start1 + 1 ∧ BezWF st1.bez := by
  have hsafe := (pathStep_safe (fieldArith T) fuel isOsu pts vertices st start i hv hi hs hb).post h
  refine ⟨hsafe.2, ?_, hsafe.1⟩
  unfold pathStep at h
  rw [getC_eq pts i hi] at h
  simp only [ok_bind] at h
  rw [subC_eq pts.size 1 (by omega)] at h
  simp only [ok_bind] at h
  split at h
  · simp only [Except.ok.injEq, Prod.mk.injEq] at h
    obtain ⟨rfl, rfl⟩ := h
    exact hsz
  · rw [need_eq _ (by simp only [Bool.and_eq_true, decide_eq_true_eq]; omega)] at h
    simp only [ok_bind] at h
    have hseg : (vertices.extract start (i + 1)).size = i + 1 - start := by
      simp only [Array.size_extract]
      omega
    split at h
    · cases h
    · split at h
      · rw [getC_eq _ 0 (by omega)] at h
        simp only [ok_bind, Except.ok.injEq, Prod.mk.injEq] at h
        obtain ⟨rfl, rfl⟩ := h
        have := h0 (by omega)
        simp only [Array.size_push]
        omega
      · rw [getC_eq pts start (by omega)] at h
        simp only [ok_bind] at h
        obtain ⟨st2, hst2, h⟩ := bind_eq_ok h
        have hbud := (calculateSubpath_budget T fuel hfuel isOsu st st2 _ _ (by omega) hb
          (fun v hv => hvc v (mem_of_mem_extract _ _ _ v hv)) hst2).1
        rw [hseg] at hbud
        obtain ⟨sk, _, h⟩ := bind_eq_ok h
        split at h
        · simp only [Except.ok.injEq, Prod.mk.injEq] at h
          obtain ⟨rfl, rfl⟩ := h
          simp only [Array.size_append, Array.size_extract]
          omega
        · simp only [Except.ok.injEq, Prod.mk.injEq] at h
          obtain ⟨rfl, rfl⟩ := h
          omega

theorem pathLoop_budget (fuel : Nat) (hfuel : 4095 ≤ fuel) (isOsu : Bool) (pts : Array (CP K))
    (vertices : Array (Pos K)) (hv : vertices.size = pts.size)
    (hvc : ∀ v ∈ vertices.toList, |v.x| ≤ 131072 ∧ |v.y| ≤ 131072) (n i : Nat)
    (st : PathSt K K) (start : Nat) (st' : PathSt K K) (hn : i + n = pts.size)
    (hs : start ≤ i) (hb : BezWF st.bez) (hsz : st.path.size ≤ 2049 * start + 1)
    (h0 : start = i → st.path.size = 0)
    (h : pathLoop (fieldArith T) fuel isOsu pts vertices n i st start = .ok st') :
    st'.path.size ≤ 2049 * pts.size + 1 := by
  induction n generalizing i st start with
  | zero =>
    simp only [pathLoop, Except.ok.injEq] at h
    subst h
    omega
  | succ n ih =>
    simp only [pathLoop] at h
    obtain ⟨⟨st1, start1⟩, h1, h⟩ := bind_eq_ok h
    obtain ⟨hle, hsz1, hb1⟩ := pathStep_budget T fuel hfuel isOsu pts vertices st start i st1 start1
      hv (by omega) hs hb hvc hsz h0 h1
    exact ih (i + 1) st1 start1 (by omega) (by omega) hb1 hsz1 (by omega) h

/-- ★ The whole path: at most `2049·N + 1` vertices for `N ≥ 1` control points (segments share
their end points: `Σ (n_seg − 1) ≤ N − 1`, plus one vertex per segment). -/
theorem calculatePath_budget (fuel : Nat) (hfuel : 4095 ≤ fuel) (isOsu : Bool)
    (pts : Array (CP K)) (st st' : PathSt K K) (hb : BezWF st.bez)
    (hcoord : ∀ p ∈ pts.toList, |p.pos.x| ≤ 131072 ∧ |p.pos.y| ≤ 131072) (hne : 0 < pts.size)
    (h : calculatePath (fieldArith T) fuel isOsu pts st = .ok st') :
    st'.path.size ≤ 2049 * pts.size + 1 := by
  unfold calculatePath at h
  rw [if_neg (by omega)] at h
  simp only [] at h
  refine pathLoop_budget T fuel hfuel isOsu pts (pts.map (·.pos)) (by simp) ?_ pts.size 0
    { st with path := #[], optimized := (fieldArith T).dOfInt 0 } 0 st' (by omega)
    (Nat.le_refl _) hb (by simp) (fun _ => by simp) h
  intro v hv
  simp only [Array.toList_map, List.mem_map] at hv
  obtain ⟨p, hp, rfl⟩ := hv
  exact hcoord p hp

end Rosu.Curve
