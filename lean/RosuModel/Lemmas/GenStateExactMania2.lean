import RosuModel.Lemmas.GenStateExactWrap

/-!
# osu!mania: the nested search with no hit result provided is globally optimal

Accuracy numerators are `10·R + E` with `E = u·a + 50·b + 30·c + 10·d` over `a + b + c + d ≤ R`
(`u = 50` classic, `51` lazer; `a, b, c, d` = n320, n300, n200, n100, the rest are n50).

* `level_reduce` : one level of the nested windows.  For a coordinate with weight `p`, the next
  lower weight `q ≤ p` and capacity `M`, if the lower window end is justified by
  "`j ≤ L` ⇒ even the largest value with coordinate `j` does not exceed the target" and the upper one
  by "`j ≥ H` ⇒ already the smallest value with coordinate `j` reaches the target", then
  `clamp ⌊L⌋ ≤ clamp ⌈H⌉` and every point outside the window is dominated by an extreme point of a
  window end.
-/

set_option linter.unusedSectionVars false

namespace Rosu.GenState.Opt

section Exact

variable {K : Type} [Field K] [LinearOrder K] [IsStrictOrderedRing K] [FloorRing K]

theorem clampN_pos_le (M : Nat) (L : K) (h : 1 ≤ clampN M ⌊L⌋) : ((clampN M ⌊L⌋ : Nat) : K) ≤ L := by
  have hz : ((clampN M ⌊L⌋ : Nat) : Int) ≤ ⌊L⌋ := by unfold clampN at h ⊢; omega
  have hk : (((clampN M ⌊L⌋ : Nat) : Int) : K) ≤ (⌊L⌋ : K) := by exact_mod_cast hz
  rw [Int.cast_natCast] at hk
  exact le_trans hk (Int.floor_le L)

theorem clampN_lt_ge (M : Nat) (hM : M ≤ u32Max) (H : K) (h : clampN M ⌈H⌉ < M) :
    H ≤ ((clampN M ⌈H⌉ : Nat) : K) := by
  have hz : ⌈H⌉ ≤ ((clampN M ⌈H⌉ : Nat) : Int) := by unfold clampN at h ⊢; omega
  have hk : (⌈H⌉ : K) ≤ (((clampN M ⌈H⌉ : Nat) : Int) : K) := by exact_mod_cast hz
  rw [Int.cast_natCast] at hk
  exact le_trans (Int.le_ceil H) hk

/-- One level of the nested windows. -/
theorem level_reduce (M : Nat) (hM : M ≤ u32Max) (X B p q L H : K) (hp : 0 < p) (hq : 0 ≤ q)
    (hqp : q ≤ p)
    (CL : ∀ j : Nat, 1 ≤ j → j ≤ M → (j : K) ≤ L → B + p * (j : K) + q * ((M : K) - (j : K)) ≤ X)
    (CH : ∀ j : Nat, j ≤ M → H ≤ (j : K) → X ≤ B + p * (j : K)) :
    clampN M ⌊L⌋ ≤ clampN M ⌈H⌉ ∧
    ∀ (k : Nat) (rest : K), k ≤ M → 0 ≤ rest → rest ≤ q * ((M : K) - (k : K)) →
      (clampN M ⌊L⌋ ≤ k ∧ k ≤ clampN M ⌈H⌉) ∨
      (|X - (B + p * ((clampN M ⌊L⌋ : Nat) : K) + q * ((M : K) - ((clampN M ⌊L⌋ : Nat) : K)))|
          ≤ |X - (B + p * (k : K) + rest)|) ∨
      (|X - (B + p * ((clampN M ⌈H⌉ : Nat) : K))| ≤ |X - (B + p * (k : K) + rest)|) := by
  have hloM := clampN_le M ⌊L⌋
  have hhiM := clampN_le M ⌈H⌉
  have flo := clampN_pos_le M L
  have fhi := clampN_lt_ge M hM H
  generalize clampN M ⌊L⌋ = lo at *
  generalize clampN M ⌈H⌉ = hi at *
  have hMlo : (0 : K) ≤ (M : K) - (lo : K) := by
    have : (lo : K) ≤ (M : K) := by exact_mod_cast hloM
    linarith
  constructor
  · by_contra hcon
    have hlt : hi < lo := Nat.lt_of_not_le hcon
    have h1 := CL lo (by omega) hloM (flo (by omega))
    have h2 := CH hi hhiM (fhi (by omega))
    have h3 : (hi : K) + 1 ≤ (lo : K) := by exact_mod_cast hlt
    have h4 : p * ((hi : K) + 1) ≤ p * (lo : K) := mul_le_mul_of_nonneg_left h3 (le_of_lt hp)
    have h5 : 0 ≤ q * ((M : K) - (lo : K)) := mul_nonneg hq hMlo
    linarith
  · intro k rest hk h0 h1
    rcases Nat.lt_or_ge k lo with hlt | hge
    · right; left
      have hV := CL lo (by omega) hloM (flo (by omega))
      have h3 : (k : K) ≤ (lo : K) := by exact_mod_cast (Nat.le_of_lt hlt)
      have h4 : 0 ≤ (p - q) * ((lo : K) - (k : K)) := mul_nonneg (by linarith) (by linarith)
      have hE : B + p * (k : K) + rest ≤ B + p * (lo : K) + q * ((M : K) - (lo : K)) := by
        nlinarith
      rw [abs_of_nonneg (by linarith), abs_of_nonneg (by linarith)]
      linarith
    · rcases Nat.lt_or_ge hi k with hgt | hle
      · right; right
        have hV := CH hi hhiM (fhi (by omega))
        have h3 : (hi : K) ≤ (k : K) := by exact_mod_cast (Nat.le_of_lt hgt)
        have h4 : p * (hi : K) ≤ p * (k : K) := mul_le_mul_of_nonneg_left h3 (le_of_lt hp)
        rw [abs_of_nonpos (by linarith), abs_of_nonpos (by linarith)]
        linarith
      · left; exact ⟨hge, hle⟩

/-! ## the context with no hit result provided, and its windows -/

/-- the search context `maniaGenRaw` builds when no hit result is provided -/
def maniaCtxNone (acc target : K) (classic : Bool) (N R misses : Nat) : ManiaCtx K :=
  { acc := acc, target := target, classic := classic, nObjects := N, nRemaining := R, misses := misses,
    g320 := none, g300 := none, g200 := none, g100 := none, g50 := none,
    n320 := 0, n300 := 0, n200 := 0, n100 := 0, n50 := 0 }

/-- weight of a 320 above a 50, in accuracy points: 50 (classic) or 51 -/
def uOf (classic : Bool) : Nat := if classic then 50 else 51

theorem win200_none (S acc T : K) (classic : Bool) (N R m a b : Nat) :
    @maniaWin200 K (fieldOps S) (maniaCtxNone acc T classic N R m) a b
      = (clampN (R - (a + b)) ⌊(T - ((20 * R + uOf classic * a + 50 * b : Nat) : K)) / 30⌋,
         clampN (R - (a + b)) ⌈(T - ((10 * R + uOf classic * a + 50 * b : Nat) : K)) / 30⌉) := by
  simp only [maniaWin200, maniaCtxNone, fops_div, fops_sub, fops_add, fops_ofNat, fops_floorU32,
    fops_ceilU32, Nat.mul_zero, Nat.cast_zero, add_zero, clampN, uOf, Nat.cast_ofNat]
  rw [Nat.min_comm, Nat.min_comm (min _ u32Max)]
  rfl

theorem n100s_none (S acc T : K) (classic : Bool) (N R m a b c : Nat) :
    @maniaN100s K (fieldOps S) (maniaCtxNone acc T classic N R m) a b c
      = [clampN (R - (a + b + c)) ⌊(T - ((10 * R + uOf classic * a + 50 * b + 30 * c : Nat) : K)) / 10⌋,
         clampN (R - (a + b + c)) ⌈(T - ((10 * R + uOf classic * a + 50 * b + 30 * c : Nat) : K)) / 10⌉] := by
  simp only [maniaN100s, maniaCtxNone, fops_div, fops_sub, fops_add, fops_ofNat, fops_floorU32,
    fops_ceilU32, Nat.mul_zero, Nat.cast_zero, add_zero, clampN, uOf, Nat.cast_ofNat,
    Option.isSome_none, Bool.false_eq_true, if_false]
  rw [Nat.min_comm, Nat.min_comm (min _ u32Max)]
  rfl

theorem win300_none_classic (S acc T : K) (N R m a : Nat) :
    @maniaWin300 K (fieldOps S) (maniaCtxNone acc T true N R m) a = (0, 0) := by
  simp [maniaWin300, maniaCtxNone]

theorem win300_none_lazer (S acc T : K) (N R m a : Nat) :
    @maniaWin300 K (fieldOps S) (maniaCtxNone acc T false N R m) a
      = (clampN (R - a) ⌊(T - ((40 * R + 21 * a : Nat) : K)) / 20⌋,
         clampN (R - a) ⌈(T - ((10 * R + 51 * a : Nat) : K)) / 50⌉) := by
  simp only [maniaWin300, maniaCtxNone, fops_div, fops_sub, fops_add, fops_ofNat, fops_floorU32,
    fops_ceilU32, Nat.mul_zero, Nat.cast_zero, add_zero, clampN, Nat.cast_ofNat,
    Bool.false_and, Bool.false_eq_true, if_false]
  rw [Nat.min_comm, Nat.min_comm (min _ u32Max)]

theorem win320_none_classic (S acc T : K) (N R m : Nat) :
    @maniaWin320 K (fieldOps S) (maniaCtxNone acc T true N R m)
      = (clampN R ⌊(T - ((40 * R : Nat) : K)) / 20⌋, clampN R ⌈(T - ((10 * R : Nat) : K)) / 50⌉) := by
  simp only [maniaWin320, maniaCtxNone, fops_div, fops_sub, fops_add, fops_ofNat, fops_floorU32,
    fops_ceilU32, Nat.mul_zero, Nat.cast_zero, add_zero, sub_zero, clampN, Nat.cast_ofNat,
    if_true, Nat.sub_zero]
  rw [Nat.min_comm, Nat.min_comm (min _ u32Max)]

theorem win320_none_lazer (S acc T : K) (N R m : Nat) :
    @maniaWin320 K (fieldOps S) (maniaCtxNone acc T false N R m)
      = (clampN R ⌊T - ((60 * R : Nat) : K)⌋, clampN R ⌈(T - ((10 * R : Nat) : K)) / 51⌉) := by
  simp only [maniaWin320, maniaCtxNone, fops_div, fops_sub, fops_add, fops_ofNat, fops_floorU32,
    fops_ceilU32, Nat.mul_zero, Nat.cast_zero, add_zero, sub_zero, clampN, Nat.cast_ofNat,
    Bool.false_eq_true, if_false, Nat.sub_zero]
  rw [Nat.min_comm, Nat.min_comm (min _ u32Max)]

/-! ## every distribution is dominated by an enumerated one -/

/-- accuracy numerator of `(n320, n300, n200, n100) = (a, b, c, d)`, the other `R − a − b − c − d`
hits being 50s; `u + 10` is the weight of a 320 -/
def maniaV (u R a b c d : Nat) : Nat := 10 * R + u * a + 50 * b + 30 * c + 10 * d

/-- innermost level: the two `n100` candidates contain a nearest one -/
theorem cover_d (R : Nat) (hR : R ≤ u32Max) (T : K) (u a b c d : Nat) (h : a + b + c + d ≤ R) :
    ∃ d', (d' = clampN (R - (a + b + c)) ⌊(T - ((10 * R + u * a + 50 * b + 30 * c : Nat) : K)) / 10⌋ ∨
           d' = clampN (R - (a + b + c)) ⌈(T - ((10 * R + u * a + 50 * b + 30 * c : Nat) : K)) / 10⌉) ∧
      a + b + c + d' ≤ R ∧
      |T - (maniaV u R a b c d' : K)| ≤ |T - (maniaV u R a b c d : K)| := by
  have key : ∀ e : Nat, T - (maniaV u R a b c e : K)
      = 10 * ((T - ((10 * R + u * a + 50 * b + 30 * c : Nat) : K)) / 10 - (e : K)) := by
    intro e
    unfold maniaV
    push_cast
    ring
  have hlo := clampN_le (R - (a + b + c)) ⌊(T - ((10 * R + u * a + 50 * b + 30 * c : Nat) : K)) / 10⌋
  have hhi := clampN_le (R - (a + b + c)) ⌈(T - ((10 * R + u * a + 50 * b + 30 * c : Nat) : K)) / 10⌉
  rcases nearest_int_clamped (R - (a + b + c)) (by omega)
      ((T - ((10 * R + u * a + 50 * b + 30 * c : Nat) : K)) / 10) d (by omega) with hle | hle
  · refine ⟨_, Or.inl rfl, by omega, ?_⟩
    rw [key, key, abs_mul, abs_mul]
    exact mul_le_mul_of_nonneg_left hle (abs_nonneg _)
  · refine ⟨_, Or.inr rfl, by omega, ?_⟩
    rw [key, key, abs_mul, abs_mul]
    exact mul_le_mul_of_nonneg_left hle (abs_nonneg _)

/-- the candidates reachable below a fixed `(a, b)` -/
def InWinCD (R : Nat) (T : K) (u a b c d : Nat) : Prop :=
  (clampN (R - (a + b)) ⌊(T - ((20 * R + u * a + 50 * b : Nat) : K)) / 30⌋ ≤ c ∧
    c ≤ clampN (R - (a + b)) ⌈(T - ((10 * R + u * a + 50 * b : Nat) : K)) / 30⌉) ∧
  (d = clampN (R - (a + b + c)) ⌊(T - ((10 * R + u * a + 50 * b + 30 * c : Nat) : K)) / 10⌋ ∨
   d = clampN (R - (a + b + c)) ⌈(T - ((10 * R + u * a + 50 * b + 30 * c : Nat) : K)) / 10⌉)

/-- `n200` level -/
theorem cover_c (R : Nat) (hR : R ≤ u32Max) (T : K) (u a b c d : Nat) (h : a + b + c + d ≤ R) :
    ∃ c' d', InWinCD R T u a b c' d' ∧ a + b + c' + d' ≤ R ∧
      |T - (maniaV u R a b c' d' : K)| ≤ |T - (maniaV u R a b c d : K)| := by
  have hMR : ((R - (a + b) : Nat) : K) = (R : K) - ((a : K) + (b : K)) := by
    rw [Nat.cast_sub (by omega)]; push_cast; ring
  obtain ⟨hlh, htri⟩ := level_reduce (R - (a + b)) (by omega) T
    ((10 * R + u * a + 50 * b : Nat) : K) 30 10
    ((T - ((20 * R + u * a + 50 * b : Nat) : K)) / 30)
    ((T - ((10 * R + u * a + 50 * b : Nat) : K)) / 30) (by norm_num) (by norm_num) (by norm_num)
    (by
      intro j _ _ hj
      rw [le_div_iff₀ (by norm_num)] at hj
      rw [hMR]
      have ha : (0 : K) ≤ (a : K) := Nat.cast_nonneg a
      have hb : (0 : K) ≤ (b : K) := Nat.cast_nonneg b
      have hj0 : (0 : K) ≤ (j : K) := Nat.cast_nonneg j
      push_cast at hj ⊢
      linarith)
    (by
      intro j _ hj
      rw [div_le_iff₀ (by norm_num)] at hj
      linarith)
  have hloM := clampN_le (R - (a + b)) ⌊(T - ((20 * R + u * a + 50 * b : Nat) : K)) / 30⌋
  have hhiM := clampN_le (R - (a + b)) ⌈(T - ((10 * R + u * a + 50 * b : Nat) : K)) / 30⌉
  have hval : ∀ c d : Nat, (maniaV u R a b c d : K)
      = ((10 * R + u * a + 50 * b : Nat) : K) + 30 * (c : K) + 10 * (d : K) := by
    intro c d; unfold maniaV; push_cast; ring
  have hcd : (c : K) + (d : K) ≤ ((R - (a + b) : Nat) : K) := by
    exact_mod_cast (by omega : c + d ≤ R - (a + b))
  rcases htri c (10 * (d : K)) (by omega) (by positivity) (by linarith) with hin | hbelow | habove
  · obtain ⟨d', hd', hs, hle⟩ := cover_d R hR T u a b c d h
    exact ⟨c, d', ⟨hin, hd'⟩, hs, hle⟩
  · -- below the window: `(lo, M − lo)` dominates, then its nearest `d`
    obtain ⟨d', hd', hs, hle⟩ := cover_d R hR T u a b
      (clampN (R - (a + b)) ⌊(T - ((20 * R + u * a + 50 * b : Nat) : K)) / 30⌋)
      (R - (a + b) - clampN (R - (a + b)) ⌊(T - ((20 * R + u * a + 50 * b : Nat) : K)) / 30⌋) (by omega)
    refine ⟨_, d', ⟨⟨le_refl _, hlh⟩, hd'⟩, hs, le_trans hle ?_⟩
    rw [hval, hval, Nat.cast_sub hloM]
    exact hbelow
  · obtain ⟨d', hd', hs, hle⟩ := cover_d R hR T u a b
      (clampN (R - (a + b)) ⌈(T - ((10 * R + u * a + 50 * b : Nat) : K)) / 30⌉) 0 (by omega)
    refine ⟨_, d', ⟨⟨hlh, le_refl _⟩, hd'⟩, hs, le_trans hle ?_⟩
    rw [hval, hval]
    simpa using habove

/-- `n300` level (lazer weights; the classic loop pins `n300 = 0`) -/
theorem cover_b_lazer (R : Nat) (hR : R ≤ u32Max) (T : K) (a b c d : Nat) (h : a + b + c + d ≤ R) :
    ∃ b' c' d',
      (clampN (R - a) ⌊(T - ((40 * R + 21 * a : Nat) : K)) / 20⌋ ≤ b' ∧
        b' ≤ clampN (R - a) ⌈(T - ((10 * R + 51 * a : Nat) : K)) / 50⌉) ∧
      InWinCD R T 51 a b' c' d' ∧ a + b' + c' + d' ≤ R ∧
      |T - (maniaV 51 R a b' c' d' : K)| ≤ |T - (maniaV 51 R a b c d : K)| := by
  have hMR : ((R - a : Nat) : K) = (R : K) - (a : K) := Nat.cast_sub (by omega)
  obtain ⟨hlh, htri⟩ := level_reduce (R - a) (by omega) T
    ((10 * R + 51 * a : Nat) : K) 50 30
    ((T - ((40 * R + 21 * a : Nat) : K)) / 20)
    ((T - ((10 * R + 51 * a : Nat) : K)) / 50) (by norm_num) (by norm_num) (by norm_num)
    (by
      intro j _ _ hj
      rw [le_div_iff₀ (by norm_num)] at hj
      rw [hMR]
      push_cast at hj ⊢
      linarith)
    (by
      intro j _ hj
      rw [div_le_iff₀ (by norm_num)] at hj
      linarith)
  have hloM := clampN_le (R - a) ⌊(T - ((40 * R + 21 * a : Nat) : K)) / 20⌋
  have hhiM := clampN_le (R - a) ⌈(T - ((10 * R + 51 * a : Nat) : K)) / 50⌉
  have hval : ∀ b c d : Nat, (maniaV 51 R a b c d : K)
      = ((10 * R + 51 * a : Nat) : K) + 50 * (b : K) + (30 * (c : K) + 10 * (d : K)) := by
    intro b c d; unfold maniaV; push_cast; ring
  have hbcd : (b : K) + (c : K) + (d : K) ≤ ((R - a : Nat) : K) := by
    exact_mod_cast (by omega : b + c + d ≤ R - a)
  have hd0 : (0 : K) ≤ (d : K) := Nat.cast_nonneg d
  rcases htri b (30 * (c : K) + 10 * (d : K)) (by omega) (by positivity) (by linarith)
    with hin | hbelow | habove
  · obtain ⟨c', d', hw, hs, hle⟩ := cover_c R hR T 51 a b c d h
    exact ⟨b, c', d', hin, hw, hs, hle⟩
  · obtain ⟨c', d', hw, hs, hle⟩ := cover_c R hR T 51 a
      (clampN (R - a) ⌊(T - ((40 * R + 21 * a : Nat) : K)) / 20⌋)
      (R - a - clampN (R - a) ⌊(T - ((40 * R + 21 * a : Nat) : K)) / 20⌋) 0 (by omega)
    refine ⟨_, c', d', ⟨le_refl _, hlh⟩, hw, hs, le_trans hle ?_⟩
    rw [hval, hval, Nat.cast_sub hloM]
    simpa using hbelow
  · obtain ⟨c', d', hw, hs, hle⟩ := cover_c R hR T 51 a
      (clampN (R - a) ⌈(T - ((10 * R + 51 * a : Nat) : K)) / 50⌉) 0 0 (by omega)
    refine ⟨_, c', d', ⟨hlh, le_refl _⟩, hw, hs, le_trans hle ?_⟩
    rw [hval, hval]
    simpa using habove

/-- `n320` level, lazer weights -/
theorem cover_a_lazer (R : Nat) (hR : R ≤ u32Max) (T : K) (a b c d : Nat) (h : a + b + c + d ≤ R) :
    ∃ a' b' c' d',
      (clampN R ⌊T - ((60 * R : Nat) : K)⌋ ≤ a' ∧ a' ≤ clampN R ⌈(T - ((10 * R : Nat) : K)) / 51⌉) ∧
      (clampN (R - a') ⌊(T - ((40 * R + 21 * a' : Nat) : K)) / 20⌋ ≤ b' ∧
        b' ≤ clampN (R - a') ⌈(T - ((10 * R + 51 * a' : Nat) : K)) / 50⌉) ∧
      InWinCD R T 51 a' b' c' d' ∧ a' + b' + c' + d' ≤ R ∧
      |T - (maniaV 51 R a' b' c' d' : K)| ≤ |T - (maniaV 51 R a b c d : K)| := by
  obtain ⟨hlh, htri⟩ := level_reduce R hR T ((10 * R : Nat) : K) 51 50
    (T - ((60 * R : Nat) : K)) ((T - ((10 * R : Nat) : K)) / 51)
    (by norm_num) (by norm_num) (by norm_num)
    (by
      intro j _ _ hj
      push_cast at hj ⊢
      linarith)
    (by
      intro j _ hj
      rw [div_le_iff₀ (by norm_num)] at hj
      linarith)
  have hloM := clampN_le R ⌊T - ((60 * R : Nat) : K)⌋
  have hhiM := clampN_le R ⌈(T - ((10 * R : Nat) : K)) / 51⌉
  have hval : ∀ a b c d : Nat, (maniaV 51 R a b c d : K)
      = ((10 * R : Nat) : K) + 51 * (a : K) + (50 * (b : K) + 30 * (c : K) + 10 * (d : K)) := by
    intro a b c d; unfold maniaV; push_cast; ring
  have habcd : (a : K) + (b : K) + (c : K) + (d : K) ≤ (R : K) := by exact_mod_cast h
  have hc0 : (0 : K) ≤ (c : K) := Nat.cast_nonneg c
  have hd0 : (0 : K) ≤ (d : K) := Nat.cast_nonneg d
  rcases htri a (50 * (b : K) + 30 * (c : K) + 10 * (d : K)) (by omega) (by positivity) (by linarith)
    with hin | hbelow | habove
  · obtain ⟨b', c', d', hb, hw, hs, hle⟩ := cover_b_lazer R hR T a b c d h
    exact ⟨a, b', c', d', hin, hb, hw, hs, hle⟩
  · obtain ⟨b', c', d', hb, hw, hs, hle⟩ := cover_b_lazer R hR T
      (clampN R ⌊T - ((60 * R : Nat) : K)⌋) (R - clampN R ⌊T - ((60 * R : Nat) : K)⌋) 0 0 (by omega)
    refine ⟨_, b', c', d', ⟨le_refl _, hlh⟩, hb, hw, hs, le_trans hle ?_⟩
    rw [hval, hval, Nat.cast_sub hloM]
    simpa using hbelow
  · obtain ⟨b', c', d', hb, hw, hs, hle⟩ := cover_b_lazer R hR T
      (clampN R ⌈(T - ((10 * R : Nat) : K)) / 51⌉) 0 0 0 (by omega)
    refine ⟨_, b', c', d', ⟨hlh, le_refl _⟩, hb, hw, hs, le_trans hle ?_⟩
    rw [hval, hval]
    simpa using habove

/-- `n320` level, classic weights: 320s and 300s weigh the same, the loop generates them all as
320s (`n300 = 0`) -/
theorem cover_a_classic (R : Nat) (hR : R ≤ u32Max) (T : K) (a b c d : Nat) (h : a + b + c + d ≤ R) :
    ∃ a' c' d',
      (clampN R ⌊(T - ((40 * R : Nat) : K)) / 20⌋ ≤ a' ∧ a' ≤ clampN R ⌈(T - ((10 * R : Nat) : K)) / 50⌉) ∧
      InWinCD R T 50 a' 0 c' d' ∧ a' + 0 + c' + d' ≤ R ∧
      |T - (maniaV 50 R a' 0 c' d' : K)| ≤ |T - (maniaV 50 R a b c d : K)| := by
  obtain ⟨hlh, htri⟩ := level_reduce R hR T ((10 * R : Nat) : K) 50 30
    ((T - ((40 * R : Nat) : K)) / 20) ((T - ((10 * R : Nat) : K)) / 50)
    (by norm_num) (by norm_num) (by norm_num)
    (by
      intro j _ _ hj
      rw [le_div_iff₀ (by norm_num)] at hj
      push_cast at hj ⊢
      linarith)
    (by
      intro j _ hj
      rw [div_le_iff₀ (by norm_num)] at hj
      linarith)
  have hloM := clampN_le R ⌊(T - ((40 * R : Nat) : K)) / 20⌋
  have hhiM := clampN_le R ⌈(T - ((10 * R : Nat) : K)) / 50⌉
  have hval : ∀ a c d : Nat, (maniaV 50 R a 0 c d : K)
      = ((10 * R : Nat) : K) + 50 * (a : K) + (30 * (c : K) + 10 * (d : K)) := by
    intro a c d; unfold maniaV; push_cast; ring
  have hmerge : (maniaV 50 R a b c d : K) = (maniaV 50 R (a + b) 0 c d : K) := by
    unfold maniaV; push_cast; ring
  have habcd : ((a + b : Nat) : K) + (c : K) + (d : K) ≤ (R : K) := by
    exact_mod_cast (by omega : a + b + c + d ≤ R)
  have hd0 : (0 : K) ≤ (d : K) := Nat.cast_nonneg d
  rw [hmerge]
  rcases htri (a + b) (30 * (c : K) + 10 * (d : K)) (by omega) (by positivity) (by linarith)
    with hin | hbelow | habove
  · obtain ⟨c', d', hw, hs, hle⟩ := cover_c R hR T 50 (a + b) 0 c d (by omega)
    exact ⟨a + b, c', d', hin, hw, hs, hle⟩
  · obtain ⟨c', d', hw, hs, hle⟩ := cover_c R hR T 50
      (clampN R ⌊(T - ((40 * R : Nat) : K)) / 20⌋) 0
      (R - clampN R ⌊(T - ((40 * R : Nat) : K)) / 20⌋) 0 (by omega)
    refine ⟨_, c', d', ⟨le_refl _, hlh⟩, hw, hs, le_trans hle ?_⟩
    rw [hval, hval, Nat.cast_sub hloM]
    simpa using hbelow
  · obtain ⟨c', d', hw, hs, hle⟩ := cover_c R hR T 50
      (clampN R ⌈(T - ((10 * R : Nat) : K)) / 50⌉) 0 0 0 (by omega)
    refine ⟨_, c', d', ⟨hlh, le_refl _⟩, hw, hs, le_trans hle ?_⟩
    rw [hval, hval]
    simpa using habove

/-- Both weight systems: every distribution `(a, b, c, d)` of at most `R` hits is dominated (in
distance of its numerator to the target) by a tuple from inside the model's nested windows. -/
theorem mania_cover (S acc T : K) (classic : Bool) (N R m : Nat) (hR : R ≤ u32Max)
    (a b c d : Nat) (h : a + b + c + d ≤ R) :
    let x := maniaCtxNone acc T classic N R m
    ∃ a' b' c' d',
      ((@maniaWin320 K (fieldOps S) x).1 ≤ a' ∧ a' ≤ (@maniaWin320 K (fieldOps S) x).2) ∧
      ((@maniaWin300 K (fieldOps S) x a').1 ≤ b' ∧ b' ≤ (@maniaWin300 K (fieldOps S) x a').2) ∧
      ((@maniaWin200 K (fieldOps S) x a' b').1 ≤ c' ∧ c' ≤ (@maniaWin200 K (fieldOps S) x a' b').2) ∧
      d' ∈ @maniaN100s K (fieldOps S) x a' b' c' ∧
      a' + b' + c' + d' ≤ R ∧
      |T - (maniaV (uOf classic) R a' b' c' d' : K)| ≤ |T - (maniaV (uOf classic) R a b c d : K)| := by
  intro x
  cases classic
  · obtain ⟨a', b', c', d', ha, hb, ⟨hc, hd⟩, hs, hle⟩ := cover_a_lazer R hR T a b c d h
    refine ⟨a', b', c', d', ?_, ?_, ?_, ?_, hs, hle⟩
    · show (@maniaWin320 K (fieldOps S) (maniaCtxNone acc T false N R m)).1 ≤ a' ∧ _
      rw [win320_none_lazer]; exact ha
    · show (@maniaWin300 K (fieldOps S) (maniaCtxNone acc T false N R m) a').1 ≤ b' ∧ _
      rw [win300_none_lazer]; exact hb
    · show (@maniaWin200 K (fieldOps S) (maniaCtxNone acc T false N R m) a' b').1 ≤ c' ∧ _
      rw [win200_none]; exact hc
    · show d' ∈ @maniaN100s K (fieldOps S) (maniaCtxNone acc T false N R m) a' b' c'
      rw [n100s_none]
      rcases hd with e | e
      · rw [e]; exact List.mem_cons_self
      · rw [e]; exact List.mem_cons_of_mem _ List.mem_cons_self
  · obtain ⟨a', c', d', ha, ⟨hc, hd⟩, hs, hle⟩ := cover_a_classic R hR T a b c d h
    refine ⟨a', 0, c', d', ?_, ?_, ?_, ?_, hs, hle⟩
    · show (@maniaWin320 K (fieldOps S) (maniaCtxNone acc T true N R m)).1 ≤ a' ∧ _
      rw [win320_none_classic]; exact ha
    · show (@maniaWin300 K (fieldOps S) (maniaCtxNone acc T true N R m) a').1 ≤ 0 ∧ _
      rw [win300_none_classic]; exact ⟨le_refl _, le_refl _⟩
    · show (@maniaWin200 K (fieldOps S) (maniaCtxNone acc T true N R m) a' 0).1 ≤ c' ∧ _
      rw [win200_none]; exact hc
    · show d' ∈ @maniaN100s K (fieldOps S) (maniaCtxNone acc T true N R m) a' 0 c'
      rw [n100s_none]
      rcases hd with e | e
      · rw [e]; exact List.mem_cons_self
      · rw [e]; exact List.mem_cons_of_mem _ List.mem_cons_self

/-- coordinates inside the windows leave a non-negative number of 50s -/
theorem mania_inwin_sum (S acc T : K) (classic : Bool) (N R m a b c d : Nat)
    (ha : a ≤ (@maniaWin320 K (fieldOps S) (maniaCtxNone acc T classic N R m)).2)
    (hb : b ≤ (@maniaWin300 K (fieldOps S) (maniaCtxNone acc T classic N R m) a).2)
    (hc : c ≤ (@maniaWin200 K (fieldOps S) (maniaCtxNone acc T classic N R m) a b).2)
    (hd : d ∈ @maniaN100s K (fieldOps S) (maniaCtxNone acc T classic N R m) a b c) :
    a + b + c + d ≤ R := by
  rw [win200_none] at hc
  rw [n100s_none] at hd
  have hc' := le_trans hc (clampN_le _ _)
  have hd' : d ≤ R - (a + b + c) := by
    rcases List.mem_cons.1 hd with e | hd
    · rw [e]; exact clampN_le _ _
    · rcases List.mem_cons.1 hd with e | hd
      · rw [e]; exact clampN_le _ _
      · cases hd
  cases classic
  · rw [win320_none_lazer] at ha
    rw [win300_none_lazer] at hb
    have ha' := le_trans ha (clampN_le _ _)
    have hb' := le_trans hb (clampN_le _ _)
    omega
  · rw [win320_none_classic] at ha
    rw [win300_none_classic] at hb
    have ha' := le_trans ha (clampN_le _ _)
    have hb' : b ≤ 0 := hb
    omega

/-- the state the innermost loop body builds (no fill is needed) -/
theorem maniaCand_none (acc T : K) (classic : Bool) (N R m a b c d : Nat) (hNR : R + m = N)
    (h : a + b + c + d ≤ R) :
    maniaCand (maniaCtxNone acc T classic N R m) a b c d
      = { n320 := a, n300 := b, n200 := c, n100 := d, n50 := R - (a + b + c + d), misses := m } := by
  unfold maniaCand maniaFill
  have : ¬ (ManiaState.totalHits (⟨a, b, c, d, R - (a + b + c + d), m⟩ : ManiaState) < N) := by
    unfold ManiaState.totalHits
    simp only
    omega
  simp only [maniaCtxNone]
  exact if_neg this

theorem maniaAccNum_eq_V (classic : Bool) (R a b c d m : Nat) (h : a + b + c + d ≤ R) :
    maniaAccNum classic { n320 := a, n300 := b, n200 := c, n100 := d, n50 := R - (a + b + c + d), misses := m }
      = maniaV (uOf classic) R a b c d := by
  unfold maniaAccNum maniaV uOf
  cases classic <;> simp only [Bool.false_eq_true, if_false, if_true] <;> omega

/-- distance to the target accuracy of a state with `N` judgements, via its numerator -/
theorem mania_dist_mono (S acc : K) (classic : Bool) (N : Nat) (s s' : ManiaState)
    (hs : s.totalHits = N) (hs' : s'.totalHits = N)
    (h : |acc * (((if classic then 60 else 61) * N : Nat) : K) - (maniaAccNum classic s : K)|
          ≤ |acc * (((if classic then 60 else 61) * N : Nat) : K) - (maniaAccNum classic s' : K)|) :
    |acc - @maniaAcc K (fieldOps S) classic s| ≤ |acc - @maniaAcc K (fieldOps S) classic s'| := by
  rw [maniaAcc_eq, maniaAcc_eq, hs, hs']
  have := affine_mono acc 0 1 ((((if classic then 60 else 61) * N : Nat)) : K)
    (acc * (((if classic then 60 else 61) * N : Nat) : K)) one_pos (Nat.cast_nonneg _) (by ring)
    (maniaAccNum classic s : K) (maniaAccNum classic s' : K) h
  simpa using this

/-- **The nested mania search with no hit result provided is globally optimal**: a candidate is
accepted, and the selected state has the given misses, distributes all `N` judgements, and is at
least as close to the target accuracy as every state with the same misses and judgements. -/
theorem maniaSearch_none_spec (S : K) (hS : 1 < S) (acc : K) (h0 : 0 ≤ acc) (h1 : acc ≤ 1)
    (classic : Bool) (N R m : Nat) (hNR : R + m = N) (hN : N ≤ u32Max) :
    let x := maniaCtxNone acc (acc * (((if classic then 60 else 61) * N : Nat) : K)) classic N R m
    let r := @maniaSearch K (fieldOps S) x
    r.hit = true ∧ r.ok = true ∧ r.val.misses = m ∧ r.val.totalHits = N ∧
      ∀ s : ManiaState, s.misses = m → s.totalHits = N →
        |acc - @maniaAcc K (fieldOps S) classic r.val| ≤ |acc - @maniaAcc K (fieldOps S) classic s| := by
  intro x r
  have hR : R ≤ u32Max := by omega
  have hsel := maniaSearch_sel S x
  -- every in-window tuple is an enumerated candidate of the plain form
  have hcand : ∀ a b c d,
      ((@maniaWin320 K (fieldOps S) x).1 ≤ a ∧ a ≤ (@maniaWin320 K (fieldOps S) x).2) →
      ((@maniaWin300 K (fieldOps S) x a).1 ≤ b ∧ b ≤ (@maniaWin300 K (fieldOps S) x a).2) →
      ((@maniaWin200 K (fieldOps S) x a b).1 ≤ c ∧ c ≤ (@maniaWin200 K (fieldOps S) x a b).2) →
      d ∈ @maniaN100s K (fieldOps S) x a b c →
      a + b + c + d ≤ R ∧
      (@maniaDist K (fieldOps S) x
          { n320 := a, n300 := b, n200 := c, n100 := d, n50 := R - (a + b + c + d), misses := m },
        ({ n320 := a, n300 := b, n200 := c, n100 := d, n50 := R - (a + b + c + d), misses := m } : ManiaState))
        ∈ @maniaCands K (fieldOps S) x := by
    intro a b c d ha hb hc hd
    have hs := mania_inwin_sum S acc _ classic N R m a b c d ha.2 hb.2 hc.2 hd
    refine ⟨hs, ?_⟩
    rw [@mem_maniaCands K (fieldOps S)]
    refine ⟨a, b, c, d, ha, hb, hc, hd, ?_⟩
    rw [maniaCand_none acc _ classic N R m a b c d hNR hs]
  have hdist : ∀ s : ManiaState, @maniaDist K (fieldOps S) x s
      = |acc - @maniaAcc K (fieldOps S) classic s| := fun _ => rfl
  -- there is a candidate: the one dominating `(0, 0, 0, 0)`
  obtain ⟨a₀, b₀, c₀, d₀, wa, wb, wc, wd, _, _⟩ :=
    mania_cover S acc (acc * (((if classic then 60 else 61) * N : Nat) : K)) classic N R m hR 0 0 0 0
      (by omega)
  obtain ⟨_, hmem₀⟩ := hcand a₀ b₀ c₀ d₀ wa wb wc wd
  obtain ⟨k1, cnd, hc, e1, e2, hmin⟩ := hsel.selected rfl hmem₀ (by
    rw [hdist]
    have := maniaAcc_mem01 S classic
      { n320 := a₀, n300 := b₀, n200 := c₀, n100 := d₀, n50 := R - (a₀ + b₀ + c₀ + d₀), misses := m }
    exact dist_lt_sentinel h0 h1 hS this.1 this.2)
  obtain ⟨a₁, b₁, c₁, d₁, va, vb, vc, vd, hceq⟩ := (@mem_maniaCands K (fieldOps S) x cnd).1 hc
  obtain ⟨hs₁, _⟩ := hcand a₁ b₁ c₁ d₁ va vb vc vd
  have hval : r.val
      = { n320 := a₁, n300 := b₁, n200 := c₁, n100 := d₁, n50 := R - (a₁ + b₁ + c₁ + d₁), misses := m } := by
    have : r.val = cnd.2 := e2
    rw [this, hceq, maniaCand_none acc _ classic N R m a₁ b₁ c₁ d₁ hNR hs₁]
  have hrd : r.dist = |acc - @maniaAcc K (fieldOps S) classic r.val| := by
    have : r.dist = cnd.1 := e1
    rw [this, hceq, hval, maniaCand_none acc _ classic N R m a₁ b₁ c₁ d₁ hNR hs₁]
    rfl
  refine ⟨k1, maniaSearch_ok S x, ?_, ?_, ?_⟩
  · rw [hval]
  · rw [hval]; unfold ManiaState.totalHits; simp only; omega
  · intro s hsm hst
    obtain ⟨a, b, c, d, e, m'⟩ := s
    simp only at hsm
    subst hsm
    have hsum : a + b + c + d + e = R := by
      unfold ManiaState.totalHits at hst; simp only at hst; omega
    obtain ⟨a', b', c', d', wa', wb', wc', wd', hs', hle⟩ :=
      mania_cover S acc (acc * (((if classic then 60 else 61) * N : Nat) : K)) classic N R m' hR a b c d
        (by omega)
    obtain ⟨_, hmem'⟩ := hcand a' b' c' d' wa' wb' wc' wd'
    have hstep1 := hmin _ hmem'
    rw [hrd] at hstep1
    refine le_trans hstep1 ?_
    rw [hdist]
    have he : e = R - (a + b + c + d) := by omega
    rw [he]
    apply mania_dist_mono S acc classic N
    · unfold ManiaState.totalHits; simp only; omega
    · unfold ManiaState.totalHits; simp only; omega
    · rw [maniaAccNum_eq_V classic R a' b' c' d' m' hs', maniaAccNum_eq_V classic R a b c d m' (by omega)]
      exact hle

/-- with no hit result provided, `maniaGenRaw` searches in `maniaCtxNone` -/
theorem maniaCtxOf_none (S acc : K) (c : ManiaCfg) (b : ManiaB K) (h320 : b.n320 = none)
    (h300 : b.n300 = none) (h200 : b.n200 = none) (h100 : b.n100 = none) (h50 : b.n50 = none) :
    maniaCtxOf S acc c b
      = maniaCtxNone acc
          (acc * (((if c.classic then 60 else 61) *
            (if c.classic then min (passedU32 c.passed) c.nObjects
              else min (passedU32 c.passed) c.nObjects + c.nHoldNotes) : Nat) : K))
          c.classic
          (if c.classic then min (passedU32 c.passed) c.nObjects
            else min (passedU32 c.passed) c.nObjects + c.nHoldNotes)
          ((if c.classic then min (passedU32 c.passed) c.nObjects
            else min (passedU32 c.passed) c.nObjects + c.nHoldNotes)
            - optMin b.misses (min (passedU32 c.passed) c.nObjects))
          (optMin b.misses (min (passedU32 c.passed) c.nObjects)) := by
  obtain ⟨a0, a1, a2, a3, a4, a5, a6⟩ := b
  simp only at h320 h300 h200 h100 h50
  subst h320 h300 h200 h100 h50
  rfl

end Exact

end Rosu.GenState.Opt
