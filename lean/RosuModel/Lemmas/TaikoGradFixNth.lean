import RosuModel.Lemmas.TaikoGradFix

/-!
`Iterator::nth` of the repaired taiko gradual machine (`Model/TaikoGradFix.lean`) on arbitrary
object lists: it never panics, processes `min (n + 1) remaining` values and returns what that many
`next` calls would return last (`None` when nothing remains).
-/

namespace Rosu.Gradual

variable {S : Type}

/-- The `for _ in 0..take { loop { … } }` part of `nth` from a canonical state at or beyond the hits
of the first two objects: it advances by exactly `c` hits. -/
theorem taikoNthLoop_fix (sk : Skills S) (objs : List Bool) :
    ∀ (c : Nat) (g : TaikoGrad S) (j : Nat), FixCanon sk objs g j → firstHits objs ≤ j ∨ c = 0 →
      j + c ≤ hitsIn objs →
      ∃ g', taikoNthLoop sk (objs.drop 2) c g = (true, g') ∧ FixCanon sk objs g' (j + c)
  | 0, g, j, hc, _, _ => ⟨g, rfl, by simpa using hc⟩
  | c + 1, g, j, hc, hj, hle => by
    have hk : firstHits objs ≤ j := by rcases hj with h | h <;> omega
    obtain ⟨hidx, hcombo, hpos, hsk, hle'⟩ := hc
    have hH := hitsIn_split objs
    have hrem : hitsIn ((objs.drop 2).drop (cutLen (objs.drop 2) (j - firstHits objs))) =
        hitsIn (objs.drop 2) - (j - firstHits objs) :=
      hitsIn_drop_cutLen (objs.drop 2) (j - firstHits objs) (by omega)
    have hh : 1 ≤ hitsIn ((objs.drop 2).drop (cutLen (objs.drop 2) (j - firstHits objs))) := by omega
    have hf : cutLen ((objs.drop 2).drop (cutLen (objs.drop 2) (j - firstHits objs))) 1 ≤
        (objs.drop 2).length + 1 := by
      have h1 := cutLen_le ((objs.drop 2).drop (cutLen (objs.drop 2) (j - firstHits objs))) 1
      have h2 : ((objs.drop 2).drop (cutLen (objs.drop 2) (j - firstHits objs))).length ≤
          (objs.drop 2).length := by rw [List.length_drop]; omega
      omega
    have hl := taikoHitLoop_hit sk (objs.drop 2) ((objs.drop 2).length + 1) g _ hpos hsk hh hf
    have hnext : cutLen (objs.drop 2) (j - firstHits objs) +
        cutLen ((objs.drop 2).drop (cutLen (objs.drop 2) (j - firstHits objs))) 1 =
        cutLen (objs.drop 2) (j + 1 - firstHits objs) := by
      rw [← cutLen_add]; congr 1; omega
    have hc' : FixCanon sk objs
        { g with iterPos := cutLen (objs.drop 2) (j + 1 - firstHits objs),
                 skills := processedPrefix sk (cutLen (objs.drop 2) (j + 1 - firstHits objs)),
                 maxCombo := g.maxCombo + 1, idx := g.idx + 1 } (j + 1) :=
      ⟨by simp [hidx], by simp [hcombo], rfl, rfl, by omega⟩
    obtain ⟨g', h1, h2⟩ := taikoNthLoop_fix sk objs c _ (j + 1) hc' (Or.inl (by omega)) (by omega)
    refine ⟨g', ?_, by rw [show j + (c + 1) = j + 1 + c by omega]; exact h2⟩
    simp only [taikoNthLoop, hl, hnext]
    exact h1

/-- **`nth` of the repaired machine**, from the canonical state after `i` values: no panic; with
`r = H - i` values remaining it returns `None` when `r = 0`, otherwise the value number
`i + min n (r - 1) + 1` — i.e. exactly what `min (n + 1) r` calls of `next` return last — and leaves
the canonical state after that many values. -/
theorem taikoNthFixed_spec (sk : Skills S) (objs : List Bool) (g : TaikoGrad S) (i n : Nat)
    (hc : FixCanon sk objs g i) :
    (i = hitsIn objs → (taikoNthFixed sk objs g n).1 = .none ∧ (taikoNthFixed sk objs g n).2.idx = i) ∧
    (i < hitsIn objs →
      (taikoNthFixed sk objs g n).1 = .some (fixValue sk objs (i + min n (hitsIn objs - i - 1) + 1)) ∧
      FixCanon sk objs (taikoNthFixed sk objs g n).2 (i + min n (hitsIn objs - i - 1) + 1)) := by
  have hlen : taikoLen objs g = some (hitsIn objs - i) := by
    show csub (objs.filter id).length g.idx = _
    rw [hc.idx]
    have := hc.le
    simp [csub, hitsIn] at this ⊢
    exact this
  have hn := nHits_eq objs
  -- the state after the `while take > 0 && idx < n_hits` loop
  have hskip : ∀ t, i + t ≤ hitsIn objs →
      FixCanon sk objs
        { g with idx := g.idx + min t ((taikoFirstCombos objs).nHits - g.idx),
                 maxCombo := g.maxCombo + min t ((taikoFirstCombos objs).nHits - g.idx) }
        (i + min t (firstHits objs - i)) := by
    intro t ht
    obtain ⟨hidx, hcombo, hpos, hsk, hle⟩ := hc
    rw [hn, hidx]
    refine ⟨by simp [hidx], by simp [hcombo], ?_, ?_, by omega⟩
    · show g.iterPos = _
      rw [hpos]; congr 1; omega
    · show g.skills = _
      rw [hsk]; congr 2; omega
  constructor
  · intro heq
    have hl0 : taikoLen objs g = some 0 := by rw [hlen, heq]; simp
    have hc0 := hskip 0 (by omega)
    simp only [Nat.zero_min, Nat.add_zero] at hc0
    have hnx := (taikoNextFixed_spec sk objs _ i hc0).2 heq
    simp only [taikoNthFixed, hl0, Nat.zero_sub, Nat.min_zero, Nat.zero_min, Nat.add_zero, taikoNthLoop]
    generalize taikoNextFixed sk objs _ = r at hnx ⊢
    obtain ⟨a, b⟩ := r
    obtain ⟨h1, h2⟩ := hnx
    simp only at h1 h2
    subst h1
    exact ⟨rfl, h2⟩
  · intro hlt
    have htake : i + min n (hitsIn objs - i - 1) ≤ hitsIn objs := by omega
    have hc1 := hskip (min n (hitsIn objs - i - 1)) htake
    obtain ⟨g2, hloop, hc2⟩ := taikoNthLoop_fix sk objs
      (min n (hitsIn objs - i - 1) - min (min n (hitsIn objs - i - 1)) (firstHits objs - i)) _ _ hc1
      (by omega) (by omega)
    have hsum : i + min (min n (hitsIn objs - i - 1)) (firstHits objs - i) +
        (min n (hitsIn objs - i - 1) - min (min n (hitsIn objs - i - 1)) (firstHits objs - i)) =
        i + min n (hitsIn objs - i - 1) := by omega
    rw [hsum] at hc2
    have hnx := (taikoNextFixed_spec sk objs g2 _ hc2).1 (by omega)
    have hidx := hc.idx
    simp only [taikoNthFixed, hlen]
    rw [hn, hidx] at hloop ⊢
    rw [hloop]
    simp only
    generalize taikoNextFixed sk objs g2 = r at hnx ⊢
    obtain ⟨a, b⟩ := r
    obtain ⟨h1, h2⟩ := hnx
    simp only at h1 h2
    subst h1
    exact ⟨rfl, h2⟩

end Rosu.Gradual
