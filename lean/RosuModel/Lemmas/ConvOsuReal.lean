import RosuModel.Lemmas.ConvOsu
import Mathlib.Analysis.SpecialFunctions.Pow.Real
import Mathlib.Tactic.Linarith
import Mathlib.Tactic.Positivity
import Mathlib.Tactic.SplitIfs

/-!
Ranges of the osu! conversion over exact real arithmetic (`realAr`: both precisions are ℝ, casts are
the identity, `sqrt` is the real square root): `lazy_travel_dist ≥ 0`, `lazy_travel_time ≥ 0` for a
slider that does not end before it starts, `scale > 0` / `radius > 0` for `cs < 85/7`, and
`time_preempt > 0` for a positive approach window and clock rate.  The IEEE instance is tied
bit for bit (OCONV lines); its roundings are monotone, the residual gap is the tie.
-/
namespace Rosu.ConvOsu

noncomputable def realAr : Ar ℝ ℝ where
  addR := (· + ·)
  subR := (· - ·)
  mulR := (· * ·)
  divR := (· / ·)
  ltR a b := decide (a < b)
  sqrtR := Real.sqrt
  addS := (· + ·)
  subS := (· - ·)
  mulS := (· * ·)
  divS := (· / ·)
  negS a := -a
  ltS a b := decide (a < b)
  toS := id
  toR := id
  intS i := (i : ℝ)
  intR i := (i : ℝ)
  assumedRadius := 90
  c07 := 7 / 10
  cAllowance := 100041 / 100000
  cStack := -32 / 5
  c3 := 3

theorem realAr_maxR (a b : ℝ) : realAr.maxR a b = max a b := by
  unfold Ar.maxR
  show (if decide (a < b) = true then b else a) = max a b
  by_cases h : a < b
  · simp [h, max_eq_right h.le]
  · simp [h, max_eq_left (not_lt.mp h)]

theorem reqOf_nonneg (i n : Nat) (o : Nested ℝ ℝ) : 0 ≤ reqOf realAr i n o := by
  unfold reqOf
  split <;> simp [realAr]

/-- the follow-circle loop never decreases the accumulated travel distance -/
theorem cursorLoop_dist_ge (sf : ℝ) (off : P ℝ) (n : Nat) :
    ∀ (l : List (Nested ℝ ℝ)) (i : Nat) (curr lazyEnd : P ℝ) (dist : ℝ),
      dist ≤ (cursorLoop realAr sf off n l i curr lazyEnd dist).2 := by
  intro l
  induction l with
  | nil => intro i curr lazyEnd dist; simp [cursorLoop]
  | cons o os ih =>
    intro i curr lazyEnd dist
    unfold cursorLoop
    refine le_trans ?_ (ih _ _ _ _)
    have hreq := reqOf_nonneg i n o
    generalize reqOf realAr i n o = req at hreq ⊢
    generalize realAr.mulR sf (realAr.toR (realAr.length (moveOf realAr off i n o curr lazyEnd))) = len
    show dist ≤ (if realAr.gtR len req = true then
      realAr.addS dist (realAr.toS (realAr.mulR len (realAr.divR (realAr.subR len req) len))) else dist)
    by_cases hgt : req < len
    · have hg : realAr.gtR len req = true := by simp [Ar.gtR, realAr, hgt]
      rw [if_pos hg]
      have hlen : 0 < len := lt_of_le_of_lt hreq hgt
      have : 0 ≤ len * ((len - req) / len) := by
        apply mul_nonneg hlen.le
        apply div_nonneg _ hlen.le
        linarith
      show dist ≤ dist + len * ((len - req) / len)
      linarith
    · have hg : ¬ (realAr.gtR len req = true) := by simp [Ar.gtR, realAr, hgt]
      rw [if_neg hg]

/-- **`lazy_travel_dist ≥ 0`** after `compute_slider_cursor_pos`, for every slider (any nested
positions, any radius), given it was `≥ 0` before (it is initialised with `0.0`). -/
theorem computeCursor_dist_nonneg (radius : ℝ) (o : Obj ℝ ℝ) (s s' : Slider ℝ ℝ)
    (hk : o.kind = .slider s) (h0 : 0 ≤ s.lazyDist)
    (hk' : (computeCursor realAr radius o).kind = .slider s') : 0 ≤ s'.lazyDist := by
  unfold computeCursor at hk'
  rw [hk] at hk'
  simp only at hk'
  have := cursorLoop_dist_ge (realAr.divR (realAr.intR 50) radius) o.stackOffset
    (lazyTravelTime realAr o.start (realAr.subR s.endTime o.start) s.nested).2.length
    (lazyTravelTime realAr o.start (realAr.subR s.endTime o.start) s.nested).2 1
    (realAr.padd o.pos o.stackOffset) s.lazyEnd s.lazyDist
  generalize cursorLoop realAr _ _ _ _ _ _ _ _ = r at hk' this
  obtain ⟨le', d⟩ := r
  simp only [Kind.slider.injEq] at hk'
  subst hk'
  simp only at this ⊢
  linarith

/-- **`lazy_travel_time ≥ 0`** for a non-negative duration (`end_time ≥ start_time`), whatever the
nested objects are -/
theorem lazyTravelTime_nonneg (start dur : ℝ) (hd : 0 ≤ dur) (nested : List (Nested ℝ ℝ)) :
    0 ≤ (lazyTravelTime realAr start dur nested).1 := by
  unfold lazyTravelTime
  simp only
  have htr : start ≤ realAr.maxR (realAr.addR (realAr.addR start dur) (realAr.intR (-36)))
      (realAr.addR start (realAr.divR dur (realAr.intR 2))) := by
    rw [realAr_maxR]
    refine le_trans ?_ (le_max_right _ _)
    show start ≤ start + dur / ((2 : ℤ) : ℝ)
    push_cast
    linarith
  split
  · simp only [realAr] at htr ⊢; linarith
  · split
    · simp only [realAr] at htr ⊢; linarith
    · split
      · rename_i tick _ hgt
        simp only [Ar.gtR, realAr, decide_eq_true_eq] at hgt htr ⊢
        linarith
      · simp only [realAr] at htr ⊢; linarith

/-- **`scale > 0` and `radius > 0`** for every circle size below `85/7 ≈ 12.14` (the attribute
builder clamps to at most 11 with mods) -/
theorem scaling_pos (cs : ℝ) (h : cs < 85 / 7) :
    0 < (scalingNew realAr cs).scale ∧ 0 < (scalingNew realAr cs).radius := by
  unfold scalingNew
  simp only [realAr, id]
  have h1 : 0 < ((1 : ℤ) : ℝ) - 7 / 10 * ((cs - ((5 : ℤ) : ℝ)) / ((5 : ℤ) : ℝ)) := by
    push_cast; linarith
  have hs : 0 < (((1 : ℤ) : ℝ) - 7 / 10 * ((cs - ((5 : ℤ) : ℝ)) / ((5 : ℤ) : ℝ))) / ((2 : ℤ) : ℝ) * (100041 / 100000) := by
    push_cast at h1 ⊢; positivity
  refine ⟨hs, ?_⟩
  have : (0 : ℝ) < ((64 : ℤ) : ℝ) := by norm_num
  exact mul_pos this hs

/-- `time_preempt > 0` for a positive approach window and clock rate -/
theorem timePreempt_pos (ar clock : ℝ) (h1 : 0 < ar) (h2 : 0 < clock) : 0 < timePreempt realAr ar clock := by
  unfold timePreempt
  simp only [realAr, id]
  exact mul_pos h1 h2

end Rosu.ConvOsu
